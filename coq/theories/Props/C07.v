(* C07 — object generation yields exactly the objects of the class, each once.
   Only statements; proofs are applications of lemmas of Count/Objects*.v.

   Meaning of the Section variables (user code / the combinatorial truth):
     In_cls c o   o is an object of class c         size o   its size
     par c o      its parameter tuple in class c
   A rule's own forward/backward maps are constrained by a bijection contract
   (union_contract, product_contract: backward (forward o) = [o], the parts lie
   in the children, sizes add up, parameters go through the constructor's
   parameter maps, every tuple of children's objects comes from one parent
   object — for a union this includes that the children are disjoint).
   `good c n d` : the dictionary d holds, under every parameter tuple p, each
   object of class c with size n and parameters p exactly once. *)
From Coq Require Import ZArith List Bool Permutation.
From CSS Require Import Base.PyList Gen.Prelude Gen.Compositions Count.CompositionsSpec
                        Count.ObjectsModel Count.ObjectsLists Count.ObjectsProofs
                        Count.ObjectsForms Count.ObjectsSpec Count.ObjectsExample
                        Count.ObjectsCountModel Count.ObjectsCount
                        Count.ObjectsTermsModel Count.ObjectsTermsAlgebra Count.ObjectsTermsSpec
                        Count.ObjectsReverse Count.ObjectsVerified.
(* objects <-> parse trees (shared with C08 and C12): separable delta = this line, section "parse trees" and its
   examples / Print Assumptions *)
From CSS Require Import Count.SampleModel Count.SampleUniform Count.ParseTrees Count.ParseTreesProofs Count.ParseTreesForms.
From CSS Require Count.ObjectsRun Count.ParseTreesRun Count.ParseTreesRunSpec Count.ParseTreesDecidersProofs.
Import ListNotations.
Open Scope Z_scope.

Section C07.
Context {obj : Type}.
Variable size : obj -> Z.
Variable In_cls : nat -> obj -> Prop.
Variable par : nat -> obj -> params.

Notation good := (good size In_cls par).
Notation isobj := (isobj size In_cls par).

(* DisjointUnion.get_sub_objects + itertools.product: when the children's
   dictionaries for size n are right, the (parameters, tuple) pairs enumerated
   are, without repetition, exactly (None,..,o,..,None) for every object o of
   size n of every child, with the child's parameters mapped to the parent *)
Theorem C07_union_sub_objects : forall kids maps n (subs : list (objects obj)),
  Forall2 (fun k d => good k n d) kids subs ->
  NoDup (pairs (union_yields maps subs)) /\
  forall q t, In (q, t) (pairs (union_yields maps subs)) <->
              valid_u size In_cls par kids maps n q t.
Proof. intros. apply union_sub_objects_spec. assumption. Qed.

(* CartesianProduct.get_sub_objects + itertools.product: over the compositions
   of the REGENERATED utils.compositions with the rule's min/max sizes, the
   pairs enumerated are, without repetition, exactly the tuples with one object
   of every child whose sizes add up to n, with parameters combined by
   _new_param.  bounds_ok: the min/max sizes are true bounds for the children,
   minima are >= 0 and there is at least one child (for no child the code
   enumerates nothing, although the empty tuple would be a split) *)
Theorem C07_product_sub_objects : forall kids mins maxs maps n (per_comp : list (list (objects obj))),
  bounds_ok size In_cls kids mins maxs ->
  Forall2 (fun sizes ds => Forall2 (goodks size In_cls par) (combine kids sizes) ds)
          (compositions n (zlen kids) mins maxs) per_comp ->
  NoDup (pairs (product_yields maps per_comp)) /\
  forall q t, In (q, t) (pairs (product_yields maps per_comp)) <->
              valid_p size In_cls par kids maps n q t.
Proof. intros. eapply product_sub_objects_spec; eassumption. Qed.

(* one level built by Rule._ensure_level_objects, union rule *)
Theorem C07_union_level : forall c kids maps fwd bwd n (subs : list (objects obj)),
  union_contract size In_cls par c kids maps fwd bwd ->
  Forall2 (fun k d => good k n d) kids subs ->
  good c n (build_level bwd (union_yields maps subs)).
Proof. intros. eapply union_level_good; eassumption. Qed.

(* one level built by Rule._ensure_level_objects, product rule *)
Theorem C07_product_level : forall c kids mins maxs maps fwd bwd n (per_comp : list (list (objects obj))),
  product_contract size In_cls par c kids maps fwd bwd ->
  bounds_ok size In_cls kids mins maxs ->
  Forall2 (fun sizes ds => Forall2 (goodks size In_cls par) (combine kids sizes) ds)
          (compositions n (zlen kids) mins maxs) per_comp ->
  good c n (build_level bwd (product_yields maps per_comp)).
Proof. intros. eapply product_level_good; eassumption. Qed.

(* count == number generated, level by level and WITHOUT assuming that the counts are right:
   DisjointUnion.get_terms / CartesianProduct.get_terms (transcribed in Count/ObjectsCountModel.v) fed
   with the numbers of objects of the children's dictionaries return, for every parameter tuple, the
   length of the list that _ensure_level_objects builds from those dictionaries - provided every
   backward map yields one object on the tuples visited (the bijection contract) *)
Theorem C07_count_eq_length_union_step : forall maps (bwd : subobj obj -> list obj) (subs : list (objects obj)),
  (forall qt, In qt (pairs (union_yields maps subs)) -> length (bwd (snd qt)) = 1%nat) ->
  forall q, counter_get (union_terms maps (map terms_of subs)) q
            = zlen (dict_get (build_level bwd (union_yields maps subs)) q).
Proof. intros. apply count_union_step. assumption. Qed.

Theorem C07_count_eq_length_product_step : forall maps (bwd : subobj obj -> list obj)
                                                  (per_comp : list (list (objects obj))),
  (forall qt, In qt (pairs (product_yields maps per_comp)) -> length (bwd (snd qt)) = 1%nat) ->
  forall q, counter_get (product_terms maps (map (map terms_of) per_comp)) q
            = zlen (dict_get (build_level bwd (product_yields maps per_comp)) q).
Proof. intros. apply count_product_step. assumption. Qed.

(* ---------------------------------------------------------------- whole specifications *)
Section Whole.
Variable spec : nat -> option (rule obj).            (* one rule per class *)
Variable rank : nat -> Z -> nat.                     (* productivity certificate *)
Hypothesis contracts : forall c r, spec c = Some r -> rule_ok size In_cls par c r.
Hypothesis closed : forall c r n c' m,
  spec c = Some r -> 0 <= n -> In (c', m) (reads r n) -> spec c' <> None.
Hypothesis productive_reads : forall c r n c' m,
  spec c = Some r -> 0 <= n -> In (c', m) (reads r n) -> 0 <= m /\ (rank c' m < rank c n)%nat.
Hypothesis productive_levels : forall c m n, 0 <= m < n -> (rank c m < rank c n)%nat.

(* generate_objects_of_size through the level-by-level caches: from every
   consistent cache state (in particular the empty one, and every state left
   by earlier calls) and with enough recursion depth, the answer for class c,
   size n and parameters p is a duplicate-free list of exactly the objects of
   c with that size and parameters, and the caches stay consistent *)
Theorem C07_generate_exact : forall c n,
  spec c <> None -> 0 <= n ->
  exists f0, forall f, (f0 <= f)%nat ->
    forall s, Inv size In_cls par s -> forall p,
    exists s' l, generate_objects_of_size spec f s c n p = Some (s', l) /\
                 Inv size In_cls par s' /\ NoDup l /\ forall o, In o l <-> isobj c n p o.
Proof. intros. eapply generate_exact; eauto. Qed.

(* ... hence a permutation of any independent duplicate-free enumeration *)
Theorem C07_generate_perm : forall c n (enum : params -> list obj),
  spec c <> None -> 0 <= n ->
  (forall p, NoDup (enum p) /\ forall o, In o (enum p) <-> isobj c n p o) ->
  exists f0, forall f, (f0 <= f)%nat ->
    forall s, Inv size In_cls par s -> forall p,
    exists s' l, generate_objects_of_size spec f s c n p = Some (s', l) /\
                 NoDup l /\ Permutation l (enum p) /\ length l = length (enum p).
Proof. intros. eapply generate_perm; eauto. Qed.

(* PARTIAL: `count` is ANY function; IF it gives the true number of objects (property C01's
   conclusion about the number the specification reports - assumed here, not proved, and no
   counting code is mentioned) then it gives the length of the generated list.  (The two _step
   theorems above are the inductive step of the assumption-free statement; the
   induction through the terms caches of a whole specification is not done.) *)
Theorem C07_count_eq_length_partial : forall c n (enum : params -> list obj) (count : params -> nat),
  spec c <> None -> 0 <= n ->
  (forall p, NoDup (enum p) /\ forall o, In o (enum p) <-> isobj c n p o) ->
  (forall p, count p = length (enum p)) ->
  exists f0, forall f, (f0 <= f)%nat -> forall p,
    exists s' l, generate_objects_of_size spec f empty_cache c n p = Some (s', l) /\
                 count p = length l.
Proof.
  intros c n enum count Hc Hn He Hcount.
  destruct (generate_perm size In_cls par spec rank contracts closed productive_reads
                          productive_levels c n enum Hc Hn He) as [f0 H0].
  exists f0. intros f Hf p.
  destruct (H0 f Hf empty_cache (Inv_empty size In_cls par) p) as (s' & l & E & _ & _ & Hlen).
  exists s', l. split; [assumption|]. rewrite Hcount. symmetry. assumption.
Qed.

(* ... and WITHOUT that assumption.  The counting side of the specification is transcribed in
   Count/ObjectsTermsModel.v: Rule._ensure_level / VerificationRule._ensure_level through the
   terms caches, DisjointUnion.get_terms / CartesianProduct.get_terms (the rules read the same
   children, size bounds and parameter maps as on the objects side: tspec), and a verification
   strategy's get_terms is its own user code (vterms c n = strategy.get_terms(class c, n)),
   constrained by the contract that it is a Counter counting what the strategy's get_objects lists.
   `TInv t`: every cached terms level is a Counter that counts the objects of its class and size
   (true of the empty caches and kept by every call).
   Then, for a closed one-rule-per-class productive specification under the bijection contracts,
   from ANY consistent terms caches and ANY consistent objects caches (the two sets of caches are
   independent in the code: counting may have run further than generating or the reverse) and with
   enough recursion depth, the number count_objects_of_size(n, **params) returns is the length of
   the list generate_objects_of_size(n, **params) returns, and both caches stay consistent. *)
Variable vterms : nat -> Z -> terms.
Hypothesis verified_counts : forall c tbl, spec c = Some (RVerified tbl) -> forall n, 0 <= n ->
  keys_ok (vterms c n) /\ forall p, counter_get (vterms c n) p = zlen (dict_get (tbl n) p).

Theorem C07_count_eq_length : forall c n,
  spec c <> None -> 0 <= n ->
  exists f0, forall f, (f0 <= f)%nat ->
    forall t, TInv size In_cls par t -> forall s, Inv size In_cls par s -> forall p,
    exists t' k s' l, count_objects_of_size (tspec_of spec vterms) f t c n p = Some (t', k) /\
                      generate_objects_of_size spec f s c n p = Some (s', l) /\
                      k = zlen l /\ TInv size In_cls par t' /\ Inv size In_cls par s'.
Proof. intros. eapply count_eq_length; eauto. Qed.

(* the count alone: it is the length of EVERY duplicate-free enumeration of the objects of the
   class with that size and parameters (C01's conclusion, here derived from the bijection
   contracts instead of assumed) *)
Theorem C07_count_exact : forall c n,
  spec c <> None -> 0 <= n ->
  exists f0, forall f, (f0 <= f)%nat -> forall t, TInv size In_cls par t -> forall p,
    exists t' k, count_objects_of_size (tspec_of spec vterms) f t c n p = Some (t', k) /\
                 TInv size In_cls par t' /\
                 forall l, NoDup l -> (forall o, In o l <-> isobj c n p o) -> k = zlen l.
Proof. intros. eapply count_exact; eauto. Qed.

(* one level of the terms cache, per constructor: get_terms fed with Counters that count the
   children's objects returns a Counter that counts the parent's (the inductive step, now stated
   on what the children's RULES computed, not on terms_of of their dictionaries) *)
Theorem C07_union_terms_level : forall c kids maps fwd bwd n (ts : list terms),
  union_contract size In_cls par c kids maps fwd bwd ->
  Forall2 (tgoodks size In_cls par) (map (fun k => (k, n)) kids) ts ->
  tgood size In_cls par c n (union_terms maps ts).
Proof. intros. eapply union_level_tgood; eassumption. Qed.

Theorem C07_product_terms_level : forall c kids mins maxs maps fwd bwd n (pc : list (list terms)),
  product_contract size In_cls par c kids maps fwd bwd ->
  bounds_ok size In_cls kids mins maxs ->
  Forall2 (fun sizes ts => Forall2 (tgoodks size In_cls par) (combine kids sizes) ts)
          (compositions n (zlen kids) mins maxs) pc ->
  tgood size In_cls par c n (product_terms maps pc).
Proof. intros. eapply product_level_tgood; eassumption. Qed.
End Whole.

(* ---------------------------------------------------------------- round trips of the rule forms *)
(* link A B f b: for every object o of A, f o = (y,) with y in B and b (y,) yields o *)

(* EquivalenceRule(rule) of a union rule whose only non-empty child is child j *)
Theorem C07_roundtrip_equivalence : forall c kids maps fwd bwd j kj,
  union_contract size In_cls par c kids maps fwd bwd ->
  nth_error kids j = Some kj ->
  (forall i k y, nth_error kids i = Some k -> In_cls k y -> i = j) ->
  link In_cls c kj (eqv_forward (fun o => Some (fwd o)) j)
                   (eqv_backward (fun t => Some (bwd t)) j (length kids)).
Proof. intros. eapply equivalence_link; eassumption. Qed.

(* ReverseRule(rule, j) of such a rule: parent = child j, first child = old parent *)
Theorem C07_roundtrip_reverse : forall c kids maps fwd bwd j kj,
  union_contract size In_cls par c kids maps fwd bwd ->
  nth_error kids j = Some kj ->
  forall y, In_cls kj y ->
  exists o, In_cls c o /\
    rev_forward (fun t => Some (bwd t)) j (length kids) true y
      = Some (Some o :: repeat None (length kids - 1)) /\
    rev_backward (fun o => Some (fwd o)) j true (Some o :: repeat None (length kids - 1)) = Some [y].
Proof. intros. eapply reverse_roundtrip; eassumption. Qed.

(* EquivalenceRule(ReverseRule(rule, j)) — what EquivalenceRule.to_reverse_rule builds *)
Theorem C07_roundtrip_reverse_equivalence : forall c kids maps fwd bwd j kj,
  union_contract size In_cls par c kids maps fwd bwd ->
  nth_error kids j = Some kj ->
  link In_cls kj c
       (eqv_forward (rev_forward (fun t => Some (bwd t)) j (length kids) true) 0)
       (eqv_backward (rev_backward (fun o => Some (fwd o)) j true) 0 (length kids)).
Proof. intros. eapply reverse_equivalence_link; eassumption. Qed.

(* EquivalencePathRule: a chain of unary forms from class A to class C, every step a `link`
   (C07_roundtrip_equivalence, C07_roundtrip_reverse_equivalence, C07_roundtrip_plain_single; C07_roundtrip_reverse
   is NOT a link - a bare ReverseRule of a one-child rule is one by Count/ObjectsForms.v reverse_single_link, and
   with the full contract by C07_reverse_single_contract).  Only the composite is stated; the full two-way statement
   with sizes and parameters is C07_path_contract below. *)
Theorem C07_roundtrip_path : forall A fbs C, chain In_cls A fbs C ->
  forall o, In_cls A o ->
  exists z, In_cls C z /\ path_forward (map fst fbs) o = Some [Some z] /\
            path_backward (map snd fbs) [Some z] = Some [o].
Proof. intros. eapply path_roundtrip; eassumption. Qed.

(* C07_roundtrip_reverse above passes `true` for the flag
   len(original_rule.non_empty_children()) == 1 that ReverseRule.forward_map/backward_map test
   before doing anything, and needs no hypothesis that the other children are empty: it IS true as
   stated (the round trip y -> (o, None, ..) -> y of an object y of child j follows from the union
   contract alone), but (a) it does not say when the flag is `true`, and (b) it is only one
   direction.  The three theorems below close both: the flag COMPUTED from truthful is_empty answers
   is `true` exactly when the other children are empty (given child j has an object); with the flag
   false both maps raise; and with the other children empty the reverse rule is a bijection in BOTH
   directions, sizes kept - the direction o -> y -> o is the one Rule._ensure_level_objects uses
   (backward_map on the objects of the reverse rule's child c) and it fails without others_empty
   (applied example C07_reverse_needs_others_empty below). *)
Theorem C07_reverse_flag : forall c kids maps fwd bwd j kj (nonempty : nat -> bool),
  union_contract size In_cls par c kids maps fwd bwd ->
  nth_error kids j = Some kj ->
  (forall k, nonempty k = true <-> exists y, In_cls k y) ->
  (exists y, In_cls kj y) ->
  (one_nonempty_flag nonempty kids = true <->
   forall i k y, nth_error kids i = Some k -> In_cls k y -> i = j).
Proof. intros. eapply reverse_flag; eassumption. Qed.

Theorem C07_reverse_refuses : forall (fwd : obj -> subobj obj) (bwd : subobj obj -> list obj) (kids : list nat) j y t,
  rev_forward (fun t => Some (bwd t)) j (length kids) false y = None /\
  rev_backward (fun o => Some (fwd o)) j false t = None.
Proof. intros. split; reflexivity. Qed.

Theorem C07_reverse_bijection : forall c kids maps fwd bwd j kj (nonempty : nat -> bool),
  union_contract size In_cls par c kids maps fwd bwd ->
  nth_error kids j = Some kj ->
  (forall k, nonempty k = true <-> exists y, In_cls k y) ->
  (forall i k y, nth_error kids i = Some k -> In_cls k y -> i = j) ->
  (exists y, In_cls kj y) ->
  let flag := one_nonempty_flag nonempty kids in
  let K := length kids in
  (forall y, In_cls kj y ->
     exists o, In_cls c o /\
       rev_forward (fun t => Some (bwd t)) j K flag y = Some (Some o :: repeat None (K - 1)) /\
       rev_backward (fun o => Some (fwd o)) j flag (Some o :: repeat None (K - 1)) = Some [y]) /\
  (forall o, In_cls c o ->
     exists y, In_cls kj y /\ size y = size o /\
       rev_backward (fun o => Some (fwd o)) j flag (Some o :: repeat None (K - 1)) = Some [y] /\
       rev_forward (fun t => Some (bwd t)) j K flag y = Some (Some o :: repeat None (K - 1))).
Proof. intros. eapply reverse_bijection; eassumption. Qed.

Theorem C07_roundtrip_plain_single : forall c k maps fwd bwd,
  union_contract size In_cls par c [k] maps fwd bwd ->
  link In_cls c k (fun o => Some (fwd o)) (fun t => Some (bwd t)).
Proof. intros. eapply plain_single_link; eassumption. Qed.

End C07.

(* ---------------------------------------------------------------- the cache of a verification rule *)
(* VerificationRule._ensure_level_objects: a request for size n appends to the cache of that class
   exactly strategy.get_objects(class, k) for k = len(cache), .., n, in that order, and touches no
   other cache - for EVERY order of requests and with no hypothesis on the specification *)
Theorem C07_verified_cache_append : forall {obj} (spec : nat -> option (rule obj)) c tbl,
  spec c = Some (RVerified tbl) ->
  forall f s n s', ensure spec f s c n = Some s' ->
    (forall c', c' <> c -> s' c' = s c') /\ s' c = s c ++ new_levels tbl (clen s c) n.
Proof. intros. eapply verified_ensure; eassumption. Qed.

(* hence level k of the cache holds strategy.get_objects(class, k): the invariant `vcons`
   (true of the empty cache) is kept by every request, whatever sizes were asked before *)
Theorem C07_verified_cache_levels : forall {obj} (spec : nat -> option (rule obj)) c tbl,
  spec c = Some (RVerified tbl) ->
  forall f s n s', vcons c tbl s -> ensure spec f s c n = Some s' ->
    vcons c tbl s' /\ (0 <= n -> n < clen s' c /\ cget s' c n = tbl n).
Proof. intros. eapply verified_levels; eassumption. Qed.

(* and get_objects(n) of the verification rule answers strategy.get_objects(class, n) *)
Theorem C07_verified_get_objects : forall {obj} (spec : nat -> option (rule obj)) c tbl,
  spec c = Some (RVerified tbl) ->
  forall s n, vcons c tbl s -> 0 <= n ->
  forall f, (Z.to_nat (n + 1 - clen s c) + 1 <= f)%nat ->
  exists s', get_objects spec f s c n = Some (s', tbl n) /\ vcons c tbl s'.
Proof. intros. eapply verified_get_objects; eassumption. Qed.

(* ---------------------------------------------------------------- parse trees *)
(* OBJECTS ARE PARSE TREES (Count/ParseTrees*.v; shared with C08 and C12).
   Data: the specification `spec` of C07_generate_exact, plus
     atom c   the single object of class c when its rule is the verification rule of an atom, None otherwise;
     fwd c    Rule.forward_map of the rule of class c (a function, so that `parse` is executable).
   Hypothesis `node_ok` for every class: union_contract / product_contract (+ bounds_ok) of C07_union_level /
   C07_product_level for the rule's own forward and backward map; a verification rule is an atom (its class is
   exactly {atom c}) or empty.  Verification strategies with several objects are NOT covered (no leaf for them).
   `twf t c` : t is a well-formed parse tree of class c (the wf of C08's sampler model and, through
   Iso/ParseTreesIso.v emb, the wf_tree of C12);  tsz / tpr : size and parameter tuple computed on the tree;
   unparse t : backward maps applied bottom-up (each must yield exactly one object);
   parse f c o : forward maps applied top-down with recursion depth f.
   For a closed, one-rule-per-class, productive (rank certificate, as in C07_generate_exact) specification, for
   every class c with a rule, size n and parameters p, unparse is a bijection between the well-formed trees of c
   of size n and parameters p and the objects of c of size n and parameters p, and parse computes its inverse. *)
Section ParseTrees.
Context {obj : Type}.
Variable size : obj -> Z.
Variable In_cls : nat -> obj -> Prop.
Variable par : nat -> obj -> params.
Variable spec : nat -> option (rule obj).
Variable atom : nat -> option obj.
Variable fwd : nat -> obj -> subobj obj.
Variable rank : nat -> Z -> nat.
Hypothesis contracts : forall c, node_ok size In_cls par spec atom fwd c.
Hypothesis closed : forall c r n c' m,
  spec c = Some r -> 0 <= n -> In (c', m) (reads r n) -> spec c' <> None.
Hypothesis productive_reads : forall c r n c' m,
  spec c = Some r -> 0 <= n -> In (c', m) (reads r n) -> 0 <= m /\ (rank c' m < rank c n)%nat.
Hypothesis size_nonneg : forall c o, In_cls c o -> 0 <= size o.

Theorem C07_objects_are_parse_trees : forall c n p,
  spec c <> None ->
  (forall t, twf spec atom t c -> tsz size atom t = n -> tpr par spec atom t = p ->
     exists o, unparse spec atom t = Some o /\ isobj size In_cls par c n p o) /\
  (forall t t' o, twf spec atom t c -> twf spec atom t' c ->
     unparse spec atom t = Some o -> unparse spec atom t' = Some o -> t = t') /\
  (forall o, isobj size In_cls par c n p o ->
     exists t, twf spec atom t c /\ tsz size atom t = n /\ tpr par spec atom t = p /\
               unparse spec atom t = Some o /\
               exists f0, forall f, (f0 <= f)%nat -> parse spec atom fwd f c o = Some t).
Proof. intros. eapply objects_are_parse_trees; eauto. Qed.

(* unparse then parse gives the tree back; whenever parse answers (ANY fuel) its answer is the tree of the object *)
Theorem C07_parse_unparse : forall t c o, twf spec atom t c -> unparse spec atom t = Some o ->
  In_cls c o /\ exists f0, forall f, (f0 <= f)%nat -> parse spec atom fwd f c o = Some t.
Proof. intros. eapply parse_unparse; eauto. Qed.

Theorem C07_parse_sound : forall f c o t, In_cls c o -> parse spec atom fwd f c o = Some t ->
  twf spec atom t c /\ unparse spec atom t = Some o.
Proof. intros. eapply parse_sound; eauto. Qed.

(* the bijection commutes with the rules' maps: at a union node forward_map of the node's object is
   (None,..,y,..,None) with y the object of the subtree, and backward_map of that tuple yields the node's object;
   at a product node forward_map gives the tuple of the subtrees' objects *)
Theorem C07_node_commutes_union : forall c i t' o,
  twf spec atom (UNode c i t') c -> unparse spec atom (UNode c i t') = Some o ->
  exists kids maps bwd ci y,
    spec c = Some (RUnion kids maps bwd) /\ nth_error kids i = Some ci /\
    den size In_cls par spec atom t' ci y /\
    fwd c o = slot (length kids) i y /\ bwd (slot (length kids) i y) = [o].
Proof. intros. eapply node_commutes_union; eauto. Qed.

Theorem C07_node_commutes_product : forall c ts o,
  twf spec atom (PNode c ts) c -> unparse spec atom (PNode c ts) = Some o ->
  exists kids mins maxs maps bwd ys,
    spec c = Some (RProduct kids mins maxs maps bwd) /\ omap (unparse spec atom) ts = Some ys /\
    Forall2 In_cls kids ys /\ fwd c o = map Some ys /\ bwd (map Some ys) = [o].
Proof. intros. eapply node_commutes_product; eauto. Qed.

(* what node_ok gives C07_generate_exact: the contracts of the union and product rules *)
Theorem C07_node_ok_rule_ok : forall c r, spec c = Some r -> node_ok size In_cls par spec atom fwd c ->
  match r with RVerified _ => True | _ => rule_ok size In_cls par c r end.
Proof. intros. eapply node_ok_rule_ok; eauto. Qed.
End ParseTrees.

(* DERIVED RULE FORMS SATISFY THE FULL CONTRACT.  C07_roundtrip_* above give one-way `link`s; the node
   RUnion [child] [map] derived_backward_map that stands for an EquivalenceRule / EquivalencePathRule in a
   specification (Count/ObjectsRun.v dec_rule) needs union_contract - both directions, size law, parameter law -
   to be covered by C07_generate_exact and to be a node of parse trees.  It follows from the ORIGINAL rule's
   union_contract and others_empty.  tot_fwd / tot_bwd: a map that raises yields nothing. *)
Section DerivedForms.
Context {obj : Type}.
Variable size : obj -> Z.
Variable In_cls : nat -> obj -> Prop.
Variable par : nat -> obj -> params.

(* EquivalenceRule(rule): parent c, child kids[j], the parameter map of child j *)
Theorem C07_equivalence_contract : forall c kids maps fwd bwd j kj,
  union_contract size In_cls par c kids maps fwd bwd ->
  nth_error kids j = Some kj ->
  (forall i k y, nth_error kids i = Some k -> In_cls k y -> i = j) ->
  union_contract size In_cls par c [kj] [nth j maps (fun x => x)]
    (tot_fwd (eqv_forward (fun o => Some (fwd o)) j))
    (tot_bwd (eqv_backward (fun t => Some (bwd t)) j (length kids))).
Proof. intros. eapply equivalence_contract; eassumption. Qed.

(* EquivalenceRule(ReverseRule(rule, j)): parent kids[j], child c.  m' is the parameter map of the reversed
   direction; it must undo the map of child j on the tuples that occur (C09_complement_round_trip) *)
Theorem C07_reverse_equivalence_contract : forall c kids maps fwd bwd j kj (m' : pmap),
  union_contract size In_cls par c kids maps fwd bwd ->
  nth_error kids j = Some kj ->
  (forall i k y, nth_error kids i = Some k -> In_cls k y -> i = j) ->
  (forall y, In_cls kj y -> m' (nth j maps (fun x => x) (par kj y)) = par kj y) ->
  union_contract size In_cls par kj [c] [m']
    (tot_fwd (eqv_forward (rev_forward (fun t => Some (bwd t)) j (length kids) true) 0))
    (tot_bwd (eqv_backward (rev_backward (fun o => Some (fwd o)) j true) 0 (length kids))).
Proof. intros. eapply reverse_equivalence_contract; eassumption. Qed.

(* ... with the flag len(original_rule.non_empty_children()) == 1 COMPUTED from truthful is_empty answers instead
   of passed as `true` (cf. C07_reverse_flag): the contract still holds, because with child j empty both classes
   are empty *)
Theorem C07_reverse_equivalence_contract_flag : forall c kids maps fwd bwd j kj (m' : pmap) (nonempty : nat -> bool),
  union_contract size In_cls par c kids maps fwd bwd ->
  nth_error kids j = Some kj ->
  (forall i k y, nth_error kids i = Some k -> In_cls k y -> i = j) ->
  (forall y, In_cls kj y -> m' (nth j maps (fun x => x) (par kj y)) = par kj y) ->
  (forall k, nonempty k = true <-> exists y, In_cls k y) ->
  union_contract size In_cls par kj [c] [m']
    (tot_fwd (eqv_forward (rev_forward (fun t => Some (bwd t)) j (length kids) (one_nonempty_flag nonempty kids)) 0))
    (tot_bwd (eqv_backward (rev_backward (fun o => Some (fwd o)) j (one_nonempty_flag nonempty kids)) 0 (length kids))).
Proof. intros. eapply reverse_equivalence_contract_flag; eassumption. Qed.

(* a bare ReverseRule of a one-child rule *)
Theorem C07_reverse_single_contract : forall c kids maps fwd bwd j kj (m' : pmap),
  union_contract size In_cls par c kids maps fwd bwd ->
  nth_error kids j = Some kj ->
  (forall i k y, nth_error kids i = Some k -> In_cls k y -> i = j) ->
  (forall y, In_cls kj y -> m' (nth j maps (fun x => x) (par kj y)) = par kj y) ->
  length kids = 1%nat ->
  union_contract size In_cls par kj [c] [m']
    (tot_fwd (rev_forward (fun t => Some (bwd t)) j (length kids) true))
    (tot_bwd (rev_backward (fun o => Some (fwd o)) j true)).
Proof. intros. eapply reverse_single_contract; eassumption. Qed.

(* EquivalencePathRule: a chain of unary forms, each with the full contract (cchain: one of the three above
   or a plain one-child rule), collapsed into one node whose parameter map is the composition *)
Theorem C07_path_contract : forall A steps C, cchain size In_cls par A steps C ->
  union_contract size In_cls par A [C] [compose_maps (map st_map steps)]
    (tot_fwd (path_forward (map st_fwd steps))) (tot_bwd (path_backward (map st_bwd steps))).
Proof. intros. eapply path_contract; eassumption. Qed.
End DerivedForms.

(* the extracted function the correspondence runs, run_c07p (Count/ParseTreesRun.v: the parse-tree queries 5 and 6
   added), answers every input without such queries exactly as run_c07 did *)
Theorem C07_run_extends : forall inp,
  Forall ParseTreesRunSpec.old_kind (Sx.sx_list (Sx.sx_nth inp 1)) -> ParseTreesRun.run_c07p inp = ObjectsRun.run_c07 inp.
Proof. exact ParseTreesRunSpec.run_c07p_extends. Qed.

(* ---------------------------------------------------------------- decidable hypotheses, decided on the case
   The productivity certificate `rank` (productive_reads, productive_levels) and `closed` of C07_generate_exact /
   C07_generate_perm / C07_count_* / C07_objects_are_parse_trees are decided by the extracted run on the descriptors of
   every compared case (Count/ParseTreesRun.v run_c07d appends [rank_ok, closed_ok, depth] to the answers;
   Count/ParseTreesDeciders.v rankb / closedb).  A verdict 1 gives the hypothesis for the specification the run decodes,
   spec_of (map dec_rule descs), for ALL sizes.  rankb is a sufficient criterion (the same-size class graph - union
   children, product children whose siblings' minima add up to 0 - is acyclic and the minima are >= 0), not a
   necessary one.  The bijection contracts (`contracts`) are NOT decidable from the descriptors and stay hypotheses. *)
Theorem C07_rank_decided : forall descs,
  Sx.sx_nth (ParseTreesRun.rank_verdict descs) 0 = Sx.I 1 ->
  exists rank, ParseTreesDecidersProofs.productive_reads (ObjectsRun.spec_of (map ObjectsRun.dec_rule descs)) rank /\
               ParseTreesDecidersProofs.productive_levels rank.
Proof. exact ParseTreesRunSpec.rank_verdict_rank. Qed.

Theorem C07_closed_decided : forall descs,
  Sx.sx_nth (ParseTreesRun.rank_verdict descs) 1 = Sx.I 1 ->
  ParseTreesDecidersProofs.closed (ObjectsRun.spec_of (map ObjectsRun.dec_rule descs)).
Proof. exact ParseTreesRunSpec.rank_verdict_closed. Qed.

(* C07_generate_exact with the two decidable hypotheses replaced by the verdict the run prints *)
Theorem C07_generate_exact_decided : forall (size : Z -> Z) (In_cls : nat -> Z -> Prop) (par : nat -> Z -> params) descs,
  let spec := ObjectsRun.spec_of (map ObjectsRun.dec_rule descs) in
  Sx.sx_nth (ParseTreesRun.rank_verdict descs) 0 = Sx.I 1 ->
  Sx.sx_nth (ParseTreesRun.rank_verdict descs) 1 = Sx.I 1 ->
  (forall c r, spec c = Some r -> rule_ok size In_cls par c r) ->
  forall c n, spec c <> None -> 0 <= n ->
  exists f0, forall f, (f0 <= f)%nat ->
    forall s, Inv size In_cls par s -> forall p,
    exists s' l, generate_objects_of_size spec f s c n p = Some (s', l) /\
                 Inv size In_cls par s' /\ NoDup l /\ forall o, In o l <-> isobj size In_cls par c n p o.
Proof.
  intros size In_cls par descs spec Hr Hc Hk c n.
  destruct (C07_rank_decided descs Hr) as (rank & H1 & H2).
  exact (C07_generate_exact size In_cls par spec rank Hk (C07_closed_decided descs Hc) H1 H2 c n).
Qed.

(* the verdicts on  0 -> 1 + 2, 2 -> 3 x 0, 1 and 3 atoms  (certificate found, depth 2) and on  0 -> 0  (none) *)
Example C07_rank_decided_nonvacuous :
  ParseTreesRun.rank_verdict
    [Sx.L [Sx.I 0; Sx.L [Sx.I 1; Sx.I 2]; Sx.L []; Sx.L []]; Sx.L [Sx.I 3; Sx.I 0; Sx.I 7];
     Sx.L [Sx.I 1; Sx.L [Sx.I 3; Sx.I 0]; Sx.L [Sx.I 1; Sx.I 0]; Sx.L [Sx.I 1; Sx.I (-1)]; Sx.L []; Sx.L []];
     Sx.L [Sx.I 3; Sx.I 1; Sx.I 8]] = Sx.L [Sx.I 1; Sx.I 1; Sx.I 2; Sx.I 1] /\
  ParseTreesRun.rank_verdict [Sx.L [Sx.I 0; Sx.L [Sx.I 0]; Sx.L []; Sx.L []]] = Sx.L [Sx.I 0; Sx.I 1; Sx.I 0; Sx.I 1].
Proof. split; vm_compute; reflexivity. Qed.

(* non-vacuity: the specification  0 -> 1 + 2,  2 -> 3 x 0,  1 and 3 atoms  (words over one letter,
   Count/ObjectsExample.v) satisfies every hypothesis of the end-to-end theorem - contracts of a union and
   of a product rule with an atom factor, closedness, the productivity certificate - so its conclusion
   holds for it; and the model, run on it, generates the word of size 3 *)
Example C07_nonvacuous :
  (forall n, 0 <= n ->
     exists f0, forall f, (f0 <= f)%nat -> forall p,
       exists s' l, generate_objects_of_size ex_spec f empty_cache 0%nat n p = Some (s', l) /\
                    NoDup l /\ forall o, In o l <-> isobj ex_size ex_in ex_par 0%nat n p o) /\
  match generate_objects_of_size ex_spec 40 empty_cache 0%nat 3 [] with
  | Some (_, l) => l = [3%nat]
  | None => False
  end.
Proof.
  split; [|exact ex_runs].
  intros n Hn.
  destruct (C07_generate_exact ex_size ex_in ex_par ex_spec ex_rank ex_contracts ex_closed
                               ex_rank_reads ex_rank_mono 0%nat n) as [f0 H0]; [discriminate|assumption|].
  exists f0. intros f Hf p.
  destruct (H0 f Hf empty_cache (Inv_empty ex_size ex_in ex_par) p) as (s' & l & E & _ & Hnd & Hm).
  exists s', l. auto.
Qed.

(* ------------------------------------------------------------------------
   NON-VACUITY (audit): a richer universe, fed to EVERY theorem of this file (the theorems are
   APPLIED, so Coq checks that what is discharged are the theorems' own hypotheses).
   Objects: binary words (list bool, false = a, true = b), size = length, ONE parameter:
       class 0 = all words                   0 -> 1 + 2 + 3        (union of three)
       class 1 = {empty word}                verified (atom-like)
       class 2 = a.W   class 3 = b.W         2 -> 4 x 0,  3 -> 5 x 0   (products with an atom factor)
       class 4 = {a}   class 5 = {b}         verified atoms
       class 6 = empty class                 verified, no objects
       class 7 = all words                   7 -> [0]  one-child rule through word REVERSAL
       class 8 = all words                   8 -> [6; 0]  equivalence-shaped union (first child empty)
                                             through letter COMPLEMENT
   parameter of a word: its number of b's - except in class 8, which tracks the number of a's
   (so the child's statistic maps to a different statistic of the parent).  There are several
   objects per (size, parameter) and several parameter values per size. *)
Require Import Lia.

Definition bw_size (w : list bool) : Z := zlen w.
Fixpoint cnt (b : bool) (w : list bool) : Z :=
  match w with [] => 0 | x :: r => (if Bool.eqb x b then 1 else 0) + cnt b r end.
Definition bw_in (c : nat) (w : list bool) : Prop :=
  match c with
  | 0%nat => True
  | 1%nat => w = []
  | 2%nat => exists t, w = false :: t
  | 3%nat => exists t, w = true :: t
  | 4%nat => w = [false]
  | 5%nat => w = [true]
  | 6%nat => False
  | 7%nat => True
  | 8%nat => True
  | _ => False
  end.
Definition bw_par (c : nat) (w : list bool) : params :=
  match c with 8%nat => [cnt false w] | _ => [cnt true w] end.

Definition bw_fwdU (w : list bool) : subobj (list bool) :=
  match w with
  | [] => [Some []; None; None]
  | false :: _ => [None; Some w; None]
  | true :: _ => [None; None; Some w]
  end.
Definition bw_bwdU (t : subobj (list bool)) : list (list bool) :=
  match t with
  | [Some x; None; None] => [x]
  | [None; Some x; None] => [x]
  | [None; None; Some x] => [x]
  | _ => []
  end.
Definition bw_fwdP (w : list bool) : subobj (list bool) := [Some (firstn 1 w); Some (tl w)].
Definition bw_bwdP (t : subobj (list bool)) : list (list bool) :=
  match t with [Some x; Some y] => [x ++ y] | _ => [] end.
Definition bw_fwd7 (w : list bool) : subobj (list bool) := [Some (rev w)].
Definition bw_bwd7 (t : subobj (list bool)) : list (list bool) :=
  match t with [Some y] => [rev y] | _ => [] end.
Definition bw_fwd8 (w : list bool) : subobj (list bool) := [None; Some (map negb w)].
Definition bw_bwd8 (t : subobj (list bool)) : list (list bool) :=
  match t with [None; Some y] => [map negb y] | _ => [] end.
Definition bw_atom (m : Z) (p : params) (o : list bool) : Z -> objects (list bool) :=
  fun n => if n =? m then [(p, [o])] else [].

Definition bw_spec (c : nat) : option (rule (list bool)) :=
  match c with
  | 0%nat => Some (RUnion [1%nat; 2%nat; 3%nat] [pid; pid; pid] bw_bwdU)
  | 1%nat => Some (RVerified (bw_atom 0 [0] []))
  | 2%nat => Some (RProduct [4%nat; 0%nat] [1; 0] [Some 1; None] [pid; pid] bw_bwdP)
  | 3%nat => Some (RProduct [5%nat; 0%nat] [1; 0] [Some 1; None] [pid; pid] bw_bwdP)
  | 4%nat => Some (RVerified (bw_atom 1 [0] [false]))
  | 5%nat => Some (RVerified (bw_atom 1 [1] [true]))
  | 6%nat => Some (RVerified (fun _ => []))
  | 7%nat => Some (RUnion [0%nat] [pid] bw_bwd7)
  | 8%nat => Some (RUnion [6%nat; 0%nat] [pid; pid] bw_bwd8)
  | _ => None
  end.
Definition bw_rank (c : nat) (n : Z) : nat :=
  (8 * Z.to_nat n + match c with 0 => 3 | 2 => 2 | 3 => 2 | 7 => 4 | 8 => 4 | _ => 0 end)%nat.

Notation bw_good := (good bw_size bw_in bw_par).
Notation bw_isobj := (isobj bw_size bw_in bw_par).

(* a dictionary with distinct keys whose lists are duplicate-free, sound and complete is good *)
Lemma bw_good_intro c n (d : objects (list bool)) :
  NoDup (map fst d) ->
  (forall p l, In (p, l) d -> NoDup l /\ forall o, In o l -> bw_isobj c n p o) ->
  (forall o, bw_in c o -> bw_size o = n -> exists l, In (bw_par c o, l) d /\ In o l) ->
  bw_good c n d.
Proof.
  intros Hk Hs Hc. split; [assumption|]. intros p.
  destruct (in_dec (list_eq_dec Z.eq_dec) p (map fst d)) as [Hin|Hnin].
  - apply in_map_iff in Hin. destruct Hin as ([p' l] & E & Hin). simpl in E. subst p'.
    rewrite (dict_get_in d p l Hk Hin). destruct (Hs p l Hin) as [Hnd Hso].
    split; [assumption|]. intros o. split; [apply Hso|].
    intros (Ho & Hsz & Hp). destruct (Hc o Ho Hsz) as (l' & Hin' & Hol). rewrite Hp in Hin'.
    rewrite (NoDup_fst_unique d p l l' Hk Hin Hin'). assumption.
  - rewrite (dict_get_notin d p Hnin). split; [constructor|]. intros o. split; [intros []|].
    intros (Ho & Hsz & Hp). destruct (Hc o Ho Hsz) as (l' & Hin' & _). rewrite Hp in Hin'.
    exfalso. apply Hnin. apply in_map_iff. exists (p, l'). auto.
Qed.

Lemma bw_atom_good c m p0 o :
  (forall x, bw_in c x <-> x = o) -> bw_size o = m -> bw_par c o = p0 ->
  forall n, 0 <= n -> bw_good c n (bw_atom m p0 o n).
Proof.
  intros Hc Hs Hp n Hn. unfold bw_atom. destruct (Z.eqb_spec n m) as [->|Hne].
  - apply bw_good_intro.
    + simpl. constructor; [intros []|constructor].
    + intros p l [E|[]]. inversion E; subst. split; [constructor; [intros []|constructor]|].
      intros x [<-|[]]. split; [apply Hc; reflexivity|]. split; reflexivity.
    + intros x Hx _. apply Hc in Hx. subst x. exists [o]. rewrite Hp. split; left; reflexivity.
  - apply bw_good_intro; [constructor|intros p l []|].
    intros x Hx Hsz. apply Hc in Hx. subst x. congruence.
Qed.

Lemma cnt_app b u v : cnt b (u ++ v) = cnt b u + cnt b v.
Proof. induction u as [|x u IH]; simpl; [reflexivity|rewrite IH; lia]. Qed.
Lemma cnt_rev b w : cnt b (rev w) = cnt b w.
Proof. induction w as [|x w IH]; simpl; [reflexivity|]. rewrite cnt_app, IH. simpl. lia. Qed.
Lemma cnt_negb w : cnt true (map negb w) = cnt false w.
Proof. induction w as [|x w IH]; simpl; [reflexivity|]. rewrite IH. destruct x; reflexivity. Qed.
Lemma negb_negb_map w : map negb (map negb w) = w.
Proof. induction w as [|x w IH]; simpl; [reflexivity|]. rewrite IH, negb_involutive. reflexivity. Qed.

Lemma bw_union_contract :
  union_contract bw_size bw_in bw_par 0%nat [1%nat; 2%nat; 3%nat] [pid; pid; pid] bw_fwdU bw_bwdU.
Proof.
  split.
  - intros o _. destruct o as [|[|] t].
    + exists 0%nat, 1%nat, []. repeat split.
    + exists 2%nat, 3%nat, (true :: t). repeat split. exists t. reflexivity.
    + exists 1%nat, 2%nat, (false :: t). repeat split. exists t. reflexivity.
  - intros i k y Hi Hy. destruct i as [|[|[|i]]]; simpl in Hi.
    + inversion Hi; subst k. simpl in Hy. subst y. exists []. repeat split.
    + inversion Hi; subst k. destruct Hy as [t ->]. exists (false :: t). repeat split.
    + inversion Hi; subst k. destruct Hy as [t ->]. exists (true :: t). repeat split.
    + destruct i; discriminate.
Qed.

Lemma bw_product_contract (b : bool) (c ka : nat) :
  (forall w, bw_in c w <-> exists t, w = b :: t) -> (forall w, bw_in ka w <-> w = [b]) ->
  (forall w, bw_par c w = [cnt true w]) -> (forall w, bw_par ka w = [cnt true w]) ->
  product_contract bw_size bw_in bw_par c [ka; 0%nat] [pid; pid] bw_fwdP bw_bwdP.
Proof.
  intros Hc Hka Hpc Hpa. split.
  - intros o Ho. apply Hc in Ho. destruct Ho as [t ->]. exists [[b]; t]. split; [reflexivity|].
    split; [constructor; [apply Hka; reflexivity|constructor; [exact I|constructor]]|]. split.
    + unfold bw_size, zlen, py_sum. cbn [map fold_right length]. lia.
    + split; [|reflexivity]. rewrite Hpc. unfold pars_of. cbn [combine map fst snd].
      rewrite Hpa. unfold new_param, pid. simpl. f_equal. lia.
  - intros ys Hys. inversion Hys as [|k y ks ys' Hy Hys' E1 E2]; subst.
    inversion Hys' as [|k2 z ks2 ys2 Hz Hys2 E1 E2]; subst. inversion Hys2; subst.
    apply Hka in Hy. subst y. exists (b :: z). split; [reflexivity|]. split; [apply Hc; exists z; reflexivity|].
    reflexivity.
Qed.

Lemma bw_bounds (ka : nat) (b : bool) : (forall w, bw_in ka w <-> w = [b]) ->
  bounds_ok bw_size bw_in [ka; 0%nat] [1; 0] [Some 1; None].
Proof.
  intros Hka. split; [|split; [|split]].
  - constructor; [intros y Hy; apply Hka in Hy; subst; unfold bw_size, zlen; simpl; lia|].
    constructor; [intros y _; unfold bw_size, zlen; lia|constructor].
  - constructor; [intros y Hy; apply Hka in Hy; subst; unfold bw_size, zlen; simpl; lia|].
    constructor; [intros y _; exact I|constructor].
  - repeat constructor; lia.
  - simpl. lia.
Qed.

Lemma bw_single_contract :
  union_contract bw_size bw_in bw_par 7%nat [0%nat] [pid] bw_fwd7 bw_bwd7.
Proof.
  split.
  - intros o _. exists 0%nat, 0%nat, (rev o). split; [reflexivity|]. split; [reflexivity|].
    split; [exact I|]. split; [unfold bw_size, zlen; rewrite rev_length; reflexivity|].
    split; [simpl; unfold pid; rewrite cnt_rev; reflexivity|].
    unfold bw_fwd7, bw_bwd7. rewrite rev_involutive. reflexivity.
  - intros i k y Hi _. destruct i as [|i]; [|destruct i; discriminate].
    exists (rev y). split; [reflexivity|]. split; [exact I|].
    unfold bw_fwd7. rewrite rev_involutive. reflexivity.
Qed.

Lemma bw_equiv_contract :
  union_contract bw_size bw_in bw_par 8%nat [6%nat; 0%nat] [pid; pid] bw_fwd8 bw_bwd8.
Proof.
  split.
  - intros o _. exists 1%nat, 0%nat, (map negb o). split; [reflexivity|]. split; [reflexivity|].
    split; [exact I|]. split; [unfold bw_size, zlen; rewrite map_length; reflexivity|].
    split; [simpl; unfold pid; rewrite cnt_negb; reflexivity|].
    unfold bw_fwd8, bw_bwd8. rewrite negb_negb_map. reflexivity.
  - intros i k y Hi Hy. destruct i as [|[|i]]; simpl in Hi.
    + inversion Hi; subst k. destruct Hy.
    + exists (map negb y). split; [reflexivity|]. split; [exact I|].
      unfold bw_fwd8. rewrite negb_negb_map. reflexivity.
    + destruct i; discriminate.
Qed.

Lemma bw_contracts : forall c r, bw_spec c = Some r -> rule_ok bw_size bw_in bw_par c r.
Proof.
  intros c r H. destruct c as [|[|[|[|[|[|[|[|[|c]]]]]]]]]; simpl in H; inversion H; subst; simpl.
  - exists bw_fwdU. apply bw_union_contract.
  - apply bw_atom_good; [|reflexivity|reflexivity]. intros x. simpl. tauto.
  - split; [exists bw_fwdP; apply (bw_product_contract false)|apply (bw_bounds 4%nat false)];
      intros w; simpl; tauto.
  - split; [exists bw_fwdP; apply (bw_product_contract true)|apply (bw_bounds 5%nat true)];
      intros w; simpl; tauto.
  - apply bw_atom_good; [|reflexivity|reflexivity]. intros x. simpl. tauto.
  - apply bw_atom_good; [|reflexivity|reflexivity]. intros x. simpl. tauto.
  - intros n _. apply bw_good_intro; [constructor|intros p l []|intros o []].
  - exists bw_fwd7. apply bw_single_contract.
  - exists bw_fwd8. apply bw_equiv_contract.
Qed.

(* what a product rule (atom ka) x (class kb) reads at level n *)
Lemma bw_product_reads (ka kb : nat) n c' m :
  In (c', m) (flat_map (fun sizes => combine [ka; kb] sizes)
                       (compositions n (zlen [ka; kb]) [1; 0] [Some 1; None])) ->
  (c' = ka /\ m = 1 /\ 1 <= n) \/ (c' = kb /\ m = n - 1 /\ 1 <= n).
Proof.
  intros H. apply in_flat_map in H. destruct H as (sizes & Hs & Hin).
  apply compositions_sound in Hs; [|reflexivity|reflexivity].
  destruct Hs as (Hl & Hsum & Hmin & Hmax).
  inversion Hmin as [|m1 s1 ms ss H1 Hmin' E1 E2]; subst.
  inversion Hmin' as [|m2 s2 ms2 ss2 H2 Hmin'' E1 E2]; subst. inversion Hmin''; subst.
  inversion Hmax as [|s1' M1 ss' Ms Hb1 Hmax' E1 E2]; subst. simpl in Hb1.
  unfold py_sum. cbn [fold_right]. simpl in Hin.
  destruct Hin as [E|[E|[]]]; inversion E; subst; [left|right]; repeat split; lia.
Qed.

Lemma bw_closed : forall c r n c' m,
  bw_spec c = Some r -> 0 <= n -> In (c', m) (reads r n) -> bw_spec c' <> None.
Proof.
  intros c r n c' m H Hn Hin.
  destruct c as [|[|[|[|[|[|[|[|[|c]]]]]]]]]; simpl in H; inversion H; subst; simpl in Hin;
    try contradiction.
  - destruct Hin as [E|[E|[E|[]]]]; inversion E; subst; discriminate.
  - apply bw_product_reads in Hin. destruct Hin as [(-> & _)|(-> & _)]; discriminate.
  - apply bw_product_reads in Hin. destruct Hin as [(-> & _)|(-> & _)]; discriminate.
  - destruct Hin as [E|[]]; inversion E; subst; discriminate.
  - destruct Hin as [E|[E|[]]]; inversion E; subst; discriminate.
Qed.

Lemma bw_rank_reads : forall c r n c' m,
  bw_spec c = Some r -> 0 <= n -> In (c', m) (reads r n) ->
  0 <= m /\ (bw_rank c' m < bw_rank c n)%nat.
Proof.
  intros c r n c' m H Hn Hin.
  destruct c as [|[|[|[|[|[|[|[|[|c]]]]]]]]]; simpl in H; inversion H; subst; simpl in Hin;
    try contradiction.
  - destruct Hin as [E|[E|[E|[]]]]; inversion E; subst; unfold bw_rank; split; lia.
  - apply bw_product_reads in Hin. unfold bw_rank.
    destruct Hin as [(-> & -> & H1)|(-> & -> & H1)]; split; lia.
  - apply bw_product_reads in Hin. unfold bw_rank.
    destruct Hin as [(-> & -> & H1)|(-> & -> & H1)]; split; lia.
  - destruct Hin as [E|[]]; inversion E; subst; unfold bw_rank; split; lia.
  - destruct Hin as [E|[E|[]]]; inversion E; subst; unfold bw_rank; split; lia.
Qed.

Lemma bw_rank_mono : forall c m n, 0 <= m < n -> (bw_rank c m < bw_rank c n)%nat.
Proof. intros c m n H. unfold bw_rank. lia. Qed.


(* ---- dictionaries of one level ---- *)
Definition bw_d2_2 : objects (list bool) := [([0], [[false; false]]); ([1], [[false; true]])].
Definition bw_d3_2 : objects (list bool) := [([1], [[true; false]]); ([2], [[true; true]])].
Definition bw_d0_2 : objects (list bool) :=
  [([0], [[false; false]]); ([1], [[false; true]; [true; false]]); ([2], [[true; true]])].

Ltac bw_entries :=
  let p := fresh "p" in let l := fresh "l" in let Hin := fresh "Hin" in
  intros p l Hin; simpl in Hin;
  repeat (destruct Hin as [Hin|Hin]; [inversion Hin; subst; clear Hin|]); try contradiction;
  (split; [repeat constructor; simpl; intuition discriminate|]);
  (let o := fresh "o" in let Ho := fresh "Ho" in
   intros o Ho; simpl in Ho;
   repeat (destruct Ho as [Ho|Ho]; [subst o|]); try contradiction;
   (split; [simpl; try exact I; try (eexists; reflexivity)|split; reflexivity])).

Ltac bw_pick :=
  simpl; eexists; split;
  [first [left; reflexivity | right; left; reflexivity | right; right; left; reflexivity]|simpl; auto].
Lemma bw_d2_2_good : bw_good 2%nat 2 bw_d2_2.
Proof.
  apply bw_good_intro.
  - repeat constructor; simpl; intuition discriminate.
  - bw_entries.
  - intros o [t ->] Hsz. unfold bw_size, zlen in Hsz. destruct t as [|b [|b' t]]; simpl in Hsz; try lia.
    destruct b; bw_pick.
Qed.
Lemma bw_d3_2_good : bw_good 3%nat 2 bw_d3_2.
Proof.
  apply bw_good_intro.
  - repeat constructor; simpl; intuition discriminate.
  - bw_entries.
  - intros o [t ->] Hsz. unfold bw_size, zlen in Hsz. destruct t as [|b [|b' t]]; simpl in Hsz; try lia.
    destruct b; bw_pick.
Qed.
Lemma bw_d0_2_good : bw_good 0%nat 2 bw_d0_2.
Proof.
  apply bw_good_intro.
  - repeat constructor; simpl; intuition discriminate.
  - bw_entries.
  - intros o _ Hsz. unfold bw_size, zlen in Hsz. destruct o as [|a [|b [|b' t]]]; simpl in Hsz; try lia.
    destruct a, b; bw_pick.
Qed.
Lemma bw_d1_2_good : bw_good 1%nat 2 [].
Proof.
  apply (bw_atom_good 1%nat 0 [0] [] ltac:(intros x; simpl; tauto) eq_refl eq_refl 2). lia.
Qed.
Lemma bw_d5_1_good : bw_good 5%nat 1 [([1], [[true]])].
Proof.
  apply (bw_atom_good 5%nat 1 [1] [true] ltac:(intros x; simpl; tauto) eq_refl eq_refl 1). lia.
Qed.
Lemma bw_subs_good : Forall2 (fun k d => bw_good k 2 d) [1%nat; 2%nat; 3%nat] [[]; bw_d2_2; bw_d3_2].
Proof.
  constructor; [exact bw_d1_2_good|]. constructor; [exact bw_d2_2_good|].
  constructor; [exact bw_d3_2_good|constructor].
Qed.
Lemma bw_per_comp_good :
  Forall2 (fun sizes ds => Forall2 (goodks bw_size bw_in bw_par) (combine [5%nat; 0%nat] sizes) ds)
          (compositions 3 (zlen [5%nat; 0%nat]) [1; 0] [Some 1; None]) [[[([1], [[true]])]; bw_d0_2]].
Proof.
  change (compositions 3 (zlen [5%nat; 0%nat]) [1; 0] [Some 1; None]) with [[1; 2]].
  constructor; [|constructor]. simpl.
  constructor; [exact bw_d5_1_good|]. constructor; [exact bw_d0_2_good|constructor].
Qed.

Definition bw_maps3 : list pmap := [pid; pid; pid].
Definition bw_subs : list (objects (list bool)) := [[]; bw_d2_2; bw_d3_2].
Definition bw_per_comp : list (list (objects (list bool))) := [[[([1], [[true]])]; bw_d0_2]].

(* covers C07_union_sub_objects; the pairs really enumerated *)
Example C07_union_sub_objects_nonvacuous :
  NoDup (pairs (union_yields bw_maps3 bw_subs)) /\
  forall q t, In (q, t) (pairs (union_yields bw_maps3 bw_subs)) <->
              valid_u bw_size bw_in bw_par [1%nat; 2%nat; 3%nat] bw_maps3 2 q t.
Proof.
  exact (C07_union_sub_objects bw_size bw_in bw_par [1%nat; 2%nat; 3%nat] bw_maps3 2 bw_subs bw_subs_good).
Qed.
Example C07_union_sub_objects_value :
  pairs (union_yields bw_maps3 bw_subs) =
  [([0], [None; Some [false; false]; None]); ([1], [None; Some [false; true]; None]);
   ([1], [None; None; Some [true; false]]); ([2], [None; None; Some [true; true]])].
Proof. vm_compute. reflexivity. Qed.

(* covers C07_product_sub_objects: class 3 = b.W at size 3, one composition (1,2) *)
Example C07_product_sub_objects_nonvacuous :
  NoDup (pairs (product_yields [pid; pid] bw_per_comp)) /\
  forall q t, In (q, t) (pairs (product_yields [pid; pid] bw_per_comp)) <->
              valid_p bw_size bw_in bw_par [5%nat; 0%nat] [pid; pid] 3 q t.
Proof.
  exact (C07_product_sub_objects bw_size bw_in bw_par [5%nat; 0%nat] [1; 0] [Some 1; None] [pid; pid] 3
           bw_per_comp (bw_bounds 5%nat true ltac:(intros w; simpl; tauto)) bw_per_comp_good).
Qed.
Example C07_product_sub_objects_value :
  pairs (product_yields [pid; pid] bw_per_comp) =
  [([1], [Some [true]; Some [false; false]]); ([2], [Some [true]; Some [false; true]]);
   ([2], [Some [true]; Some [true; false]]); ([3], [Some [true]; Some [true; true]])].
Proof. vm_compute. reflexivity. Qed.

(* covers C07_union_level; the level built is the hand-written dictionary of class 0 at size 2 *)
Example C07_union_level_nonvacuous :
  bw_good 0%nat 2 (build_level bw_bwdU (union_yields bw_maps3 bw_subs)).
Proof.
  exact (C07_union_level bw_size bw_in bw_par 0%nat [1%nat; 2%nat; 3%nat] bw_maps3 bw_fwdU bw_bwdU 2
           bw_subs bw_union_contract bw_subs_good).
Qed.
Example C07_union_level_value : build_level bw_bwdU (union_yields bw_maps3 bw_subs) = bw_d0_2.
Proof. vm_compute. reflexivity. Qed.

(* covers C07_product_level *)
Example C07_product_level_nonvacuous :
  bw_good 3%nat 3 (build_level bw_bwdP (product_yields [pid; pid] bw_per_comp)).
Proof.
  refine (C07_product_level bw_size bw_in bw_par 3%nat [5%nat; 0%nat] [1; 0] [Some 1; None] [pid; pid]
            bw_fwdP bw_bwdP 3 bw_per_comp
            (bw_product_contract true 3%nat 5%nat _ _ _ _) (bw_bounds 5%nat true _) bw_per_comp_good);
    intros w; simpl; try tauto; reflexivity.
Qed.
Example C07_product_level_value :
  build_level bw_bwdP (product_yields [pid; pid] bw_per_comp) =
  [([1], [[true; false; false]]); ([2], [[true; false; true]; [true; true; false]]);
   ([3], [[true; true; true]])].
Proof. vm_compute. reflexivity. Qed.

(* covers C07_count_eq_length_union_step / _product_step; two words with one b at that level *)
Example C07_count_eq_length_union_step_nonvacuous :
  forall q, counter_get (union_terms bw_maps3 (map terms_of bw_subs)) q
            = zlen (dict_get (build_level bw_bwdU (union_yields bw_maps3 bw_subs)) q).
Proof.
  apply (C07_count_eq_length_union_step bw_maps3 bw_bwdU bw_subs).
  intros qt Hin. rewrite C07_union_sub_objects_value in Hin. simpl in Hin.
  repeat (destruct Hin as [<-|Hin]; [reflexivity|]). contradiction.
Qed.
Example C07_count_eq_length_product_step_nonvacuous :
  forall q, counter_get (product_terms [pid; pid] (map (map terms_of) bw_per_comp)) q
            = zlen (dict_get (build_level bw_bwdP (product_yields [pid; pid] bw_per_comp)) q).
Proof.
  apply (C07_count_eq_length_product_step [pid; pid] bw_bwdP bw_per_comp).
  intros qt Hin. rewrite C07_product_sub_objects_value in Hin. simpl in Hin.
  repeat (destruct Hin as [<-|Hin]; [reflexivity|]). contradiction.
Qed.
Example C07_count_eq_length_step_values :
  counter_get (union_terms bw_maps3 (map terms_of bw_subs)) [1] = 2 /\
  counter_get (product_terms [pid; pid] (map (map terms_of) bw_per_comp)) [2] = 2 /\
  counter_get (product_terms [pid; pid] (map (map terms_of) bw_per_comp)) [0] = 0.
Proof. vm_compute. repeat split; reflexivity. Qed.

(* ---- whole specification ---- *)
(* covers C07_generate_exact: class 0 (union of three, products with atom factors) and class 8
   (an equivalence-shaped union whose first child is empty and whose parameter is the OTHER
   statistic), from any consistent cache state, for every parameter value *)
Example C07_generate_exact_nonvacuous :
  forall c, (c = 0%nat \/ c = 8%nat) ->
  exists f0, forall f, (f0 <= f)%nat ->
    forall s, Inv bw_size bw_in bw_par s -> forall p,
    exists s' l, generate_objects_of_size bw_spec f s c 3 p = Some (s', l) /\
                 Inv bw_size bw_in bw_par s' /\ NoDup l /\ forall o, In o l <-> bw_isobj c 3 p o.
Proof.
  intros c Hc.
  apply (C07_generate_exact bw_size bw_in bw_par bw_spec bw_rank bw_contracts bw_closed bw_rank_reads
           bw_rank_mono c 3); [destruct Hc as [->| ->]; discriminate|lia].
Qed.
(* the model run: the answers are non-empty lists of several words, differ by parameter value, and
   too small a recursion depth gives no answer (the existential depth is not met by a default) *)
Example C07_generate_exact_value :
  (match generate_objects_of_size bw_spec 60 empty_cache 0%nat 3 [2] with
   | Some (_, l) => l = [[false; true; true]; [true; false; true]; [true; true; false]] | None => False end) /\
  (match generate_objects_of_size bw_spec 60 empty_cache 0%nat 3 [3] with
   | Some (_, l) => l = [[true; true; true]] | None => False end) /\
  (match generate_objects_of_size bw_spec 60 empty_cache 0%nat 3 [2; 0] with
   | Some (_, l) => l = [] | None => False end) /\
  (match generate_objects_of_size bw_spec 60 empty_cache 8%nat 3 [2] with
   | Some (_, l) => l = [[true; false; false]; [false; true; false]; [false; false; true]] | None => False end) /\
  generate_objects_of_size bw_spec 3 empty_cache 0%nat 3 [2] = None.
Proof. vm_compute. repeat split; reflexivity. Qed.

(* the invariant hypothesis `Inv s` is met by NON-EMPTY reachable cache states: a second call is
   fed with the state left by a first one (theorem applied twice), and on the model run that state
   holds four levels of class 0 *)
Example C07_generate_exact_from_reached_state :
  exists f s1 l1 s2 l2,
    generate_objects_of_size bw_spec f empty_cache 8%nat 3 [2] = Some (s1, l1) /\
    Inv bw_size bw_in bw_par s1 /\
    generate_objects_of_size bw_spec f s1 0%nat 3 [2] = Some (s2, l2) /\
    NoDup l2 /\ forall o, In o l2 <-> bw_isobj 0%nat 3 [2] o.
Proof.
  destruct (C07_generate_exact_nonvacuous 8%nat (or_intror eq_refl)) as [fa Ha].
  destruct (C07_generate_exact_nonvacuous 0%nat (or_introl eq_refl)) as [fb Hb].
  destruct (Ha (Nat.max fa fb) (Nat.le_max_l _ _) empty_cache (Inv_empty bw_size bw_in bw_par) [2])
    as (s1 & l1 & E1 & I1 & _ & _).
  destruct (Hb (Nat.max fa fb) (Nat.le_max_r _ _) s1 I1 [2]) as (s2 & l2 & E2 & _ & Hnd & Hm).
  exists (Nat.max fa fb), s1, l1, s2, l2. auto.
Qed.
Example C07_generate_exact_reached_state_value :
  match generate_objects_of_size bw_spec 60 empty_cache 8%nat 3 [2] with
  | Some (s1, _) =>
      clen s1 0%nat = 4 /\ clen s1 2%nat = 4 /\
      match generate_objects_of_size bw_spec 60 s1 0%nat 3 [2] with
      | Some (_, l) => l = [[false; true; true]; [true; false; true]; [true; true; false]]
      | None => False
      end
  | None => False
  end.
Proof. vm_compute. repeat split; reflexivity. Qed.

(* an independent enumeration of the words of length 3 with a given number of b's *)
Definition bw_all3 : list (list bool) :=
  [[false; false; false]; [false; false; true]; [false; true; false]; [false; true; true];
   [true; false; false]; [true; false; true]; [true; true; false]; [true; true; true]].
Definition bw_enum (p : params) : list (list bool) :=
  filter (fun w => params_eqb [cnt true w] p) bw_all3.
Lemma bw_all3_spec o : In o bw_all3 <-> bw_size o = 3.
Proof.
  split.
  - intros H. simpl in H. repeat (destruct H as [<-|H]; [reflexivity|]). contradiction.
  - intros H. unfold bw_size, zlen in H. destruct o as [|a [|b [|c [|d o]]]]; simpl in H; try lia.
    destruct a, b, c; simpl; tauto.
Qed.
Lemma bw_enum_spec : forall p, NoDup (bw_enum p) /\ forall o, In o (bw_enum p) <-> bw_isobj 0%nat 3 p o.
Proof.
  intros p. split.
  - apply NoDup_filter. repeat constructor; simpl; intuition discriminate.
  - intros o. unfold bw_enum. rewrite filter_In, bw_all3_spec, params_eqb_spec.
    unfold isobj. simpl. tauto.
Qed.

(* covers C07_generate_perm *)
Example C07_generate_perm_nonvacuous :
  exists f0, forall f, (f0 <= f)%nat ->
    forall s, Inv bw_size bw_in bw_par s -> forall p,
    exists s' l, generate_objects_of_size bw_spec f s 0%nat 3 p = Some (s', l) /\
                 NoDup l /\ Permutation l (bw_enum p) /\ length l = length (bw_enum p).
Proof.
  apply (C07_generate_perm bw_size bw_in bw_par bw_spec bw_rank bw_contracts bw_closed bw_rank_reads
           bw_rank_mono 0%nat 3 bw_enum); [discriminate|lia|exact bw_enum_spec].
Qed.
Example C07_generate_perm_value : bw_enum [2] = [[false; true; true]; [true; false; true]; [true; true; false]].
Proof. vm_compute. reflexivity. Qed.

(* covers C07_count_eq_length_partial (count := the true count, as its hypothesis demands) *)
Example C07_count_eq_length_partial_nonvacuous :
  exists f0, forall f, (f0 <= f)%nat -> forall p,
    exists s' l, generate_objects_of_size bw_spec f empty_cache 0%nat 3 p = Some (s', l) /\
                 length (bw_enum p) = length l.
Proof.
  apply (C07_count_eq_length_partial bw_size bw_in bw_par bw_spec bw_rank bw_contracts bw_closed
           bw_rank_reads bw_rank_mono 0%nat 3 bw_enum (fun p => length (bw_enum p)));
    [discriminate|lia|exact bw_enum_spec|reflexivity].
Qed.

(* ---- round trips of the rule forms, on rule 8 -> [6 (empty); 0] and rule 7 -> [0] ---- *)
Lemma bw_others_empty : forall i k y, nth_error [6%nat; 0%nat] i = Some k -> bw_in k y -> i = 1%nat.
Proof.
  intros [|[|i]] k y Hi Hy; simpl in Hi; [inversion Hi; subst; destruct Hy|reflexivity|destruct i; discriminate].
Qed.
Definition bw_pf8 (o : list bool) : option (subobj (list bool)) := Some (bw_fwd8 o).
Definition bw_pb8 (t : subobj (list bool)) : option (list (list bool)) := Some (bw_bwd8 t).

Example C07_roundtrip_equivalence_nonvacuous :
  link bw_in 8%nat 0%nat (eqv_forward bw_pf8 1) (eqv_backward bw_pb8 1 (length [6%nat; 0%nat])).
Proof.
  exact (C07_roundtrip_equivalence bw_size bw_in bw_par 8%nat [6%nat; 0%nat] [pid; pid] bw_fwd8 bw_bwd8
           1%nat 0%nat bw_equiv_contract eq_refl bw_others_empty).
Qed.
Example C07_roundtrip_reverse_nonvacuous :
  exists o, bw_in 8%nat o /\
    rev_forward bw_pb8 1 (length [6%nat; 0%nat]) true [true; false]
      = Some (Some o :: repeat None (length [6%nat; 0%nat] - 1)) /\
    rev_backward bw_pf8 1 true (Some o :: repeat None (length [6%nat; 0%nat] - 1)) = Some [[true; false]].
Proof.
  exact (C07_roundtrip_reverse bw_size bw_in bw_par 8%nat [6%nat; 0%nat] [pid; pid] bw_fwd8 bw_bwd8
           1%nat 0%nat bw_equiv_contract eq_refl [true; false] I).
Qed.
Example C07_roundtrip_reverse_equivalence_nonvacuous :
  link bw_in 0%nat 8%nat
       (eqv_forward (rev_forward bw_pb8 1 (length [6%nat; 0%nat]) true) 0)
       (eqv_backward (rev_backward bw_pf8 1 true) 0 (length [6%nat; 0%nat])).
Proof.
  exact (C07_roundtrip_reverse_equivalence bw_size bw_in bw_par 8%nat [6%nat; 0%nat] [pid; pid]
           bw_fwd8 bw_bwd8 1%nat 0%nat bw_equiv_contract eq_refl).
Qed.
Example C07_roundtrip_plain_single_nonvacuous :
  link bw_in 7%nat 0%nat (fun o => Some (bw_fwd7 o)) (fun t => Some (bw_bwd7 t)).
Proof.
  exact (C07_roundtrip_plain_single bw_size bw_in bw_par 7%nat 0%nat [pid] bw_fwd7 bw_bwd7 bw_single_contract).
Qed.
(* a path  7 --plain--> 0 --EquivalenceRule(ReverseRule)--> 8 --EquivalenceRule--> 0 *)
Definition bw_path : list (form (obj := list bool)) :=
  [((fun o => Some (bw_fwd7 o)), (fun t => Some (bw_bwd7 t)));
   (eqv_forward (rev_forward bw_pb8 1 (length [6%nat; 0%nat]) true) 0,
    eqv_backward (rev_backward bw_pf8 1 true) 0 (length [6%nat; 0%nat]));
   (eqv_forward bw_pf8 1, eqv_backward bw_pb8 1 (length [6%nat; 0%nat]))].
Lemma bw_chain : chain bw_in 7%nat bw_path 0%nat.
Proof.
  eapply chain_cons; [exact C07_roundtrip_plain_single_nonvacuous|].
  eapply chain_cons; [exact C07_roundtrip_reverse_equivalence_nonvacuous|].
  eapply chain_cons; [exact C07_roundtrip_equivalence_nonvacuous|]. apply chain_nil.
Qed.
Example C07_roundtrip_path_nonvacuous :
  exists z, bw_in 0%nat z /\ path_forward (map fst bw_path) [true; false; false] = Some [Some z] /\
            path_backward (map snd bw_path) [Some z] = Some [[true; false; false]].
Proof.
  exact (C07_roundtrip_path bw_in 7%nat bw_path 0%nat bw_chain [true; false; false] I).
Qed.
(* the maps really move the objects: values along the path, and through each derived form *)
Example C07_roundtrip_values :
  eqv_forward bw_pf8 1 [true; false; false] = Some [Some [false; true; true]] /\
  eqv_backward bw_pb8 1 2 [Some [false; true; true]] = Some [[true; false; false]] /\
  rev_forward bw_pb8 1 2 true [true; false] = Some [Some [false; true]; None] /\
  rev_backward bw_pf8 1 true [Some [false; true]; None] = Some [[true; false]] /\
  path_forward (map fst (firstn 2 bw_path)) [true; false; false] = Some [Some [true; true; false]] /\
  path_forward (map fst bw_path) [true; false; false] = Some [Some [false; false; true]] /\
  path_backward (map snd bw_path) [Some [false; false; true]] = Some [[true; false; false]].
Proof. vm_compute. repeat split; reflexivity. Qed.

(* ---- count == number generated, through the terms caches of the whole specification ---- *)
(* the verification strategies' get_terms tables of the universe: the atoms count their object *)
Definition bw_vterms (c : nat) (n : Z) : terms :=
  match bw_spec c with Some (RVerified tbl) => terms_of (tbl n) | _ => [] end.
Lemma bw_vterms_ok : forall c tbl, bw_spec c = Some (RVerified tbl) -> forall n, 0 <= n ->
  keys_ok (bw_vterms c n) /\ forall p, counter_get (bw_vterms c n) p = zlen (dict_get (tbl n) p).
Proof.
  intros c tbl H n Hn. unfold bw_vterms. rewrite H. split.
  - apply keys_terms_of. apply (bw_contracts c _ H n Hn).
  - intros p. apply counter_get_terms_of.
Qed.

(* covers C07_count_eq_length: classes 0 and 8, from any consistent caches on both sides *)
Example C07_count_eq_length_nonvacuous :
  forall c, (c = 0%nat \/ c = 8%nat) ->
  exists f0, forall f, (f0 <= f)%nat ->
    forall t, TInv bw_size bw_in bw_par t -> forall s, Inv bw_size bw_in bw_par s -> forall p,
    exists t' k s' l, count_objects_of_size (tspec_of bw_spec bw_vterms) f t c 3 p = Some (t', k) /\
                      generate_objects_of_size bw_spec f s c 3 p = Some (s', l) /\
                      k = zlen l /\ TInv bw_size bw_in bw_par t' /\ Inv bw_size bw_in bw_par s'.
Proof.
  intros c Hc.
  apply (C07_count_eq_length bw_size bw_in bw_par bw_spec bw_rank bw_contracts bw_closed bw_rank_reads
           bw_rank_mono bw_vterms bw_vterms_ok c 3); [destruct Hc as [->| ->]; discriminate|lia].
Qed.
(* ... and the model run: the counts are 3, 1, 0 (several objects per parameter value, a parameter
   value with none), equal to the lengths of the generated lists; class 8 counts the OTHER statistic;
   too small a recursion depth gives no count *)
Example C07_count_eq_length_value :
  (match count_objects_of_size (tspec_of bw_spec bw_vterms) 60 empty_tcache 0%nat 3 [2],
         generate_objects_of_size bw_spec 60 empty_cache 0%nat 3 [2] with
   | Some (_, k), Some (_, l) => k = 3 /\ k = zlen l | _, _ => False end) /\
  (match count_objects_of_size (tspec_of bw_spec bw_vterms) 60 empty_tcache 0%nat 3 [3] with
   | Some (_, k) => k = 1 | None => False end) /\
  (match count_objects_of_size (tspec_of bw_spec bw_vterms) 60 empty_tcache 0%nat 3 [2; 0] with
   | Some (_, k) => k = 0 | None => False end) /\
  (match count_objects_of_size (tspec_of bw_spec bw_vterms) 60 empty_tcache 8%nat 3 [1] with
   | Some (_, k) => k = 3 | None => False end) /\
  (match count_objects_of_size (tspec_of bw_spec bw_vterms) 60 empty_tcache 0%nat 4 [2] with
   | Some (_, k) => k = 6 | None => False end) /\
  count_objects_of_size (tspec_of bw_spec bw_vterms) 3 empty_tcache 0%nat 3 [2] = None.
Proof. vm_compute. repeat split; reflexivity. Qed.
(* the hypothesis TInv is met by NON-EMPTY reached states, independent of the objects caches:
   counting ran to size 4 first (five cached levels), generation starts from empty caches *)
Example C07_count_eq_length_from_reached_state :
  exists f t1 k1 t2 k s2 l,
    count_objects_of_size (tspec_of bw_spec bw_vterms) f empty_tcache 8%nat 3 [1] = Some (t1, k1) /\
    TInv bw_size bw_in bw_par t1 /\
    count_objects_of_size (tspec_of bw_spec bw_vterms) f t1 0%nat 3 [2] = Some (t2, k) /\
    generate_objects_of_size bw_spec f empty_cache 0%nat 3 [2] = Some (s2, l) /\ k = zlen l.
Proof.
  destruct (C07_count_eq_length_nonvacuous 8%nat (or_intror eq_refl)) as [fa Ha].
  destruct (C07_count_eq_length_nonvacuous 0%nat (or_introl eq_refl)) as [fb Hb].
  destruct (Ha (Nat.max fa fb) (Nat.le_max_l _ _) empty_tcache (TInv_empty bw_size bw_in bw_par)
               empty_cache (Inv_empty bw_size bw_in bw_par) [1]) as (t1 & k1 & _ & _ & E1 & _ & _ & I1 & _).
  destruct (Hb (Nat.max fa fb) (Nat.le_max_r _ _) t1 I1 empty_cache (Inv_empty bw_size bw_in bw_par) [2])
    as (t2 & k & s2 & l & E2 & E3 & Hk & _).
  exists (Nat.max fa fb), t1, k1, t2, k, s2, l. auto.
Qed.
Example C07_count_reached_state_value :
  match count_objects_of_size (tspec_of bw_spec bw_vterms) 60 empty_tcache 8%nat 4 [1] with
  | Some (t1, k1) =>
      k1 = 4 /\ tclen t1 0%nat = 5 /\ tclen t1 2%nat = 5 /\
      match count_objects_of_size (tspec_of bw_spec bw_vterms) 60 t1 0%nat 3 [2] with
      | Some (_, k) => k = 3 | None => False end
  | None => False
  end.
Proof. vm_compute. repeat split; reflexivity. Qed.
(* the contract of the verification strategies' get_terms is not decorative: an atom whose
   get_terms counts 2 although its get_objects lists one object makes the count differ from the
   number generated (the model follows what the tables say) *)
Definition bw_bad_vterms (c : nat) (n : Z) : terms :=
  match c with 5%nat => if n =? 1 then [([1], 2)] else [] | _ => bw_vterms c n end.
Example C07_count_eq_length_needs_verified_counts :
  match count_objects_of_size (tspec_of bw_spec bw_bad_vterms) 60 empty_tcache 0%nat 3 [2],
        generate_objects_of_size bw_spec 60 empty_cache 0%nat 3 [2] with
  | Some (_, k), Some (_, l) => k = 12 /\ zlen l = 3 | _, _ => False end.
Proof. vm_compute. repeat split; reflexivity. Qed.
(* covers C07_count_exact against the independent enumeration bw_enum *)
Example C07_count_exact_nonvacuous :
  exists f0, forall f, (f0 <= f)%nat -> forall p,
    exists t' k, count_objects_of_size (tspec_of bw_spec bw_vterms) f empty_tcache 0%nat 3 p = Some (t', k) /\
                 k = zlen (bw_enum p).
Proof.
  destruct (C07_count_exact bw_size bw_in bw_par bw_spec bw_rank bw_contracts bw_closed bw_rank_reads
              bw_rank_mono bw_vterms bw_vterms_ok 0%nat 3 ltac:(discriminate) ltac:(lia)) as [f0 H0].
  exists f0. intros f Hf p.
  destruct (H0 f Hf empty_tcache (TInv_empty bw_size bw_in bw_par) p) as (t' & k & E & _ & Hk).
  exists t', k. split; [assumption|]. destruct (bw_enum_spec p) as [Hnd Hm]. apply Hk; assumption.
Qed.
(* covers C07_union_terms_level / C07_product_terms_level: fed with Counters that are NOT terms_of
   of the dictionaries (another key order, a zero entry) but count the same *)
Lemma bw_tgood_of (c : nat) n (t : terms) (d : objects (list bool)) :
  keys_ok t -> bw_good c n d -> (forall p, counter_get t p = zlen (dict_get d p)) ->
  tgood bw_size bw_in bw_par c n t.
Proof. intros Hk Hg He. split; [assumption|]. exists d. split; assumption. Qed.
Lemma bw_counts_pointwise (t : terms) (d : objects (list bool)) (ks : list params) :
  (forall p, In p (map fst t) \/ In p (map fst d) -> In p ks) ->
  Forall (fun p => counter_get t p = zlen (dict_get d p)) ks ->
  forall p, counter_get t p = zlen (dict_get d p).
Proof.
  intros Hks Hall p.
  destruct (in_dec (list_eq_dec Z.eq_dec) p ks) as [Hin|Hnin].
  - rewrite Forall_forall in Hall. apply Hall. assumption.
  - rewrite counter_get_notin by (intros H; apply Hnin, Hks; left; assumption).
    rewrite dict_get_notin by (intros H; apply Hnin, Hks; right; assumption). reflexivity.
Qed.
Ltac bw_counts ks :=
  apply (bw_counts_pointwise _ _ ks);
  [ intros p Hp; simpl in Hp; simpl; tauto
  | repeat constructor ].
Definition bw_t2_2 : terms := [([1], 1); ([7], 0); ([0], 1)].
Definition bw_t3_2 : terms := [([2], 1); ([1], 1)].
Definition bw_t0_2 : terms := [([2], 1); ([0], 1); ([1], 2)].
Example C07_union_terms_level_nonvacuous :
  tgood bw_size bw_in bw_par 0%nat 2 (union_terms bw_maps3 [[]; bw_t2_2; bw_t3_2]).
Proof.
  apply (C07_union_terms_level bw_size bw_in bw_par 0%nat [1%nat; 2%nat; 3%nat] bw_maps3 bw_fwdU bw_bwdU 2
           [[]; bw_t2_2; bw_t3_2] bw_union_contract).
  constructor; [apply (bw_tgood_of 1%nat 2 [] []); [constructor|exact bw_d1_2_good|reflexivity]|].
  constructor; [apply (bw_tgood_of 2%nat 2 bw_t2_2 bw_d2_2);
                [repeat constructor; simpl; intuition discriminate|exact bw_d2_2_good|bw_counts [[1]; [7]; [0]]]|].
  constructor; [apply (bw_tgood_of 3%nat 2 bw_t3_2 bw_d3_2);
                [repeat constructor; simpl; intuition discriminate|exact bw_d3_2_good|bw_counts [[2]; [1]]]|].
  constructor.
Qed.
Example C07_product_terms_level_nonvacuous :
  tgood bw_size bw_in bw_par 3%nat 3 (product_terms [pid; pid] [[[([1], 1)]; bw_t0_2]]).
Proof.
  refine (C07_product_terms_level bw_size bw_in bw_par 3%nat [5%nat; 0%nat] [1; 0] [Some 1; None] [pid; pid]
            bw_fwdP bw_bwdP 3 [[[([1], 1)]; bw_t0_2]]
            (bw_product_contract true 3%nat 5%nat _ _ _ _) (bw_bounds 5%nat true _) _);
    try (intros w; simpl; try tauto; reflexivity).
  change (compositions 3 (zlen [5%nat; 0%nat]) [1; 0] [Some 1; None]) with [[1; 2]].
  constructor; [|constructor]. simpl.
  constructor; [apply (bw_tgood_of 5%nat 1 [([1], 1)] [([1], [[true]])]);
                [repeat constructor; simpl; intuition discriminate|exact bw_d5_1_good|bw_counts [[1]]]|].
  constructor; [apply (bw_tgood_of 0%nat 2 bw_t0_2 bw_d0_2);
                [repeat constructor; simpl; intuition discriminate|exact bw_d0_2_good|bw_counts [[2]; [0]; [1]]]|].
  constructor.
Qed.
Example C07_terms_level_values :
  counter_get (union_terms bw_maps3 [[]; bw_t2_2; bw_t3_2]) [1] = 2 /\
  counter_get (product_terms [pid; pid] [[[([1], 1)]; bw_t0_2]]) [2] = 2.
Proof. vm_compute. split; reflexivity. Qed.

(* ---- ReverseRule: the flag, both directions, and why others_empty is needed ---- *)
Definition bw_nonempty (k : nat) : bool :=
  match k with 6%nat => false | 0%nat | 1%nat | 2%nat | 3%nat | 4%nat | 5%nat | 7%nat | 8%nat => true | _ => false end.
Lemma bw_nonempty_spec : forall k, bw_nonempty k = true <-> exists y, bw_in k y.
Proof.
  intros k. destruct k as [|[|[|[|[|[|[|[|[|k]]]]]]]]]; simpl; split; intros H; try reflexivity;
    try discriminate; try (now destruct H).
  - exists []. exact I.
  - exists []. reflexivity.
  - exists [false]. exists []. reflexivity.
  - exists [true]. exists []. reflexivity.
  - exists [false]. reflexivity.
  - exists [true]. reflexivity.
  - exists []. exact I.
  - exists []. exact I.
Qed.
(* covers C07_reverse_flag, both ways: rule 8 -> [6 (empty); 0] has the flag, rule 0 -> [1; 2; 3] not *)
Example C07_reverse_flag_nonvacuous :
  (one_nonempty_flag bw_nonempty [6%nat; 0%nat] = true <->
   forall i k y, nth_error [6%nat; 0%nat] i = Some k -> bw_in k y -> i = 1%nat) /\
  (one_nonempty_flag bw_nonempty [1%nat; 2%nat; 3%nat] = true <->
   forall i k y, nth_error [1%nat; 2%nat; 3%nat] i = Some k -> bw_in k y -> i = 1%nat).
Proof.
  split.
  - exact (C07_reverse_flag bw_size bw_in bw_par 8%nat [6%nat; 0%nat] [pid; pid] bw_fwd8 bw_bwd8 1%nat 0%nat
             bw_nonempty bw_equiv_contract eq_refl bw_nonempty_spec (ex_intro _ [] I)).
  - exact (C07_reverse_flag bw_size bw_in bw_par 0%nat [1%nat; 2%nat; 3%nat] bw_maps3 bw_fwdU bw_bwdU 1%nat 2%nat
             bw_nonempty bw_union_contract eq_refl bw_nonempty_spec (ex_intro _ [false] (ex_intro _ [] eq_refl))).
Qed.
Example C07_reverse_flag_values :
  one_nonempty_flag bw_nonempty [6%nat; 0%nat] = true /\
  one_nonempty_flag bw_nonempty [1%nat; 2%nat; 3%nat] = false.
Proof. vm_compute. split; reflexivity. Qed.
(* covers C07_reverse_bijection on rule 8 -> [6; 0] *)
Example C07_reverse_bijection_nonvacuous :
  (forall y, bw_in 0%nat y ->
     exists o, bw_in 8%nat o /\
       rev_forward bw_pb8 1 2 (one_nonempty_flag bw_nonempty [6%nat; 0%nat]) y = Some [Some o; None] /\
       rev_backward bw_pf8 1 (one_nonempty_flag bw_nonempty [6%nat; 0%nat]) [Some o; None] = Some [y]) /\
  (forall o, bw_in 8%nat o ->
     exists y, bw_in 0%nat y /\ bw_size y = bw_size o /\
       rev_backward bw_pf8 1 (one_nonempty_flag bw_nonempty [6%nat; 0%nat]) [Some o; None] = Some [y] /\
       rev_forward bw_pb8 1 2 (one_nonempty_flag bw_nonempty [6%nat; 0%nat]) y = Some [Some o; None]).
Proof.
  exact (C07_reverse_bijection bw_size bw_in bw_par 8%nat [6%nat; 0%nat] [pid; pid] bw_fwd8 bw_bwd8 1%nat 0%nat
           bw_nonempty bw_equiv_contract eq_refl bw_nonempty_spec bw_others_empty (ex_intro _ [] I)).
Qed.
(* the discriminating example: rule 0 -> [1; 2; 3] has THREE non-empty children.
   C07_roundtrip_reverse applies to it with j = 1 (its hypotheses do not mention the other
   children) and its conclusion holds; but the computed flag is false, so the real maps refuse
   (C07_reverse_refuses), and even with the flag forced to `true` the other direction fails: the
   empty word, an object of class 0, has its forward image in child 0, and the reverse rule's
   backward map raises on it - others_empty is what C07_reverse_bijection needs *)
Example C07_reverse_needs_others_empty :
  (exists o, bw_in 0%nat o /\
     rev_forward (fun t => Some (bw_bwdU t)) 1 3 true [false; true] = Some [Some o; None; None] /\
     rev_backward (fun o => Some (bw_fwdU o)) 1 true [Some o; None; None] = Some [[false; true]]) /\
  bw_in 0%nat [] /\
  rev_backward (fun o => Some (bw_fwdU o)) 1 true [Some []; None; None] = None /\
  rev_forward (fun t => Some (bw_bwdU t)) 1 3 (one_nonempty_flag bw_nonempty [1%nat; 2%nat; 3%nat]) [false; true] = None.
Proof.
  split; [|split; [exact I|split; reflexivity]].
  exact (C07_roundtrip_reverse bw_size bw_in bw_par 0%nat [1%nat; 2%nat; 3%nat] bw_maps3 bw_fwdU bw_bwdU
           1%nat 2%nat bw_union_contract eq_refl [false; true] (ex_intro _ [true] eq_refl)).
Qed.

(* ---- the cache of a verification rule, sizes requested in a non-monotone order ---- *)
(* class 4 = the atom {a} of size 1: first asked at size 3 on an empty cache (as a product does at
   the atom's minimum size or above), then at size 0 (as a union does): level 0 is
   strategy.get_objects(class, 0) = no object, NOT the objects of the size first requested *)
Example C07_verified_cache_nonvacuous :
  exists s1 s2,
    get_objects bw_spec 5 empty_cache 4%nat 3 = Some (s1, bw_atom 1 [0] [false] 3) /\
    vcons 4%nat (bw_atom 1 [0] [false]) s1 /\
    get_objects bw_spec 1 s1 4%nat 0 = Some (s2, bw_atom 1 [0] [false] 0).
Proof.
  destruct (C07_verified_get_objects bw_spec 4%nat (bw_atom 1 [0] [false]) eq_refl empty_cache 3
              (vcons_empty 4%nat (bw_atom 1 [0] [false])) ltac:(lia) 5%nat ltac:(vm_compute; lia))
    as (s1 & E1 & V1).
  assert (L1 : 3 < clen s1 4%nat).
  { unfold get_objects in E1. destruct (ensure bw_spec 5 empty_cache 4%nat 3) as [s'|] eqn:E; [|discriminate].
    inversion E1; subst s'.
    destruct (C07_verified_cache_levels bw_spec 4%nat (bw_atom 1 [0] [false]) eq_refl 5%nat empty_cache 3 s1
                (vcons_empty 4%nat (bw_atom 1 [0] [false])) E) as [_ H]. apply H. lia. }
  destruct (C07_verified_get_objects bw_spec 4%nat (bw_atom 1 [0] [false]) eq_refl s1 0 V1 ltac:(lia) 1%nat
              ltac:(lia)) as (s2 & E2 & _).
  exists s1, s2. auto.
Qed.
Example C07_verified_cache_values :
  match get_objects bw_spec 5 empty_cache 4%nat 3 with
  | Some (s1, d3) =>
      d3 = [] /\ s1 4%nat = [[]; [([0], [[false]])]; []; []] /\ s1 0%nat = [] /\
      match get_objects bw_spec 1 s1 4%nat 0, get_objects bw_spec 1 s1 4%nat 1 with
      | Some (_, d0), Some (_, d1) => d0 = [] /\ d1 = [([0], [[false]])]
      | _, _ => False
      end
  | None => False
  end.
Proof. vm_compute. repeat split; reflexivity. Qed.
Example C07_verified_cache_append_nonvacuous :
  forall f s' , ensure bw_spec f empty_cache 5%nat 2 = Some s' ->
    (forall c', c' <> 5%nat -> s' c' = []) /\
    s' 5%nat = [[]; [([1], [[true]])]; []].
Proof.
  intros f s' E.
  destruct (C07_verified_cache_append bw_spec 5%nat (bw_atom 1 [1] [true]) eq_refl f empty_cache 2 s' E) as [H1 H2].
  split; [exact H1|]. rewrite H2. reflexivity.
Qed.

(* ---- objects <-> parse trees on the bw specification ---- *)
Definition bw_atomo (c : nat) : option (list bool) :=
  match c with 1%nat => Some [] | 4%nat => Some [false] | 5%nat => Some [true] | _ => None end.
Definition bw_fwd (c : nat) : list bool -> subobj (list bool) :=
  match c with
  | 0%nat => bw_fwdU | 2%nat => bw_fwdP | 3%nat => bw_fwdP | 7%nat => bw_fwd7 | 8%nat => bw_fwd8
  | _ => fun _ => []
  end.
Lemma bw_node_ok : forall c, node_ok bw_size bw_in bw_par bw_spec bw_atomo bw_fwd c.
Proof.
  intros c. unfold node_ok. destruct c as [|[|[|[|[|[|[|[|[|c]]]]]]]]]; simpl; auto.
  - apply bw_union_contract.
  - intros o. tauto.
  - split; [apply (bw_product_contract false)|apply (bw_bounds 4%nat false)]; intros w; simpl; tauto.
  - split; [apply (bw_product_contract true)|apply (bw_bounds 5%nat true)]; intros w; simpl; tauto.
  - intros o. tauto.
  - intros o. tauto.
  - apply bw_single_contract.
  - apply bw_equiv_contract.
Qed.
Lemma bw_size_nonneg : forall c o, bw_in c o -> 0 <= bw_size o.
Proof. intros c o _. unfold bw_size, zlen. lia. Qed.

(* all hypotheses hold for the words over {a,b}: for the root, size 3, one b ... *)
Example C07_objects_are_parse_trees_nonvacuous :
  (forall o, bw_isobj 0%nat 3 [1] o ->
     exists t, twf bw_spec bw_atomo t 0%nat /\ tsz bw_size bw_atomo t = 3 /\ tpr bw_par bw_spec bw_atomo t = [1] /\
               unparse bw_spec bw_atomo t = Some o /\
               exists f0, forall f, (f0 <= f)%nat -> parse bw_spec bw_atomo bw_fwd f 0%nat o = Some t) /\
  (forall t t' o, twf bw_spec bw_atomo t 0%nat -> twf bw_spec bw_atomo t' 0%nat ->
     unparse bw_spec bw_atomo t = Some o -> unparse bw_spec bw_atomo t' = Some o -> t = t').
Proof.
  destruct (C07_objects_are_parse_trees bw_size bw_in bw_par bw_spec bw_atomo bw_fwd bw_rank bw_node_ok bw_closed
              bw_rank_reads bw_size_nonneg 0%nat 3 [1] ltac:(discriminate)) as (_ & H2 & H3).
  split; assumption.
Qed.
(* ... and the model computes: the tree of "ab" (through the union, the product with the atom a, the union, the
   product with the atom b, the union, the empty word), back to the word; through the path node 7 and the
   equivalence node 8 the trees have one more unary node *)
Example C07_parse_values :
  parse bw_spec bw_atomo bw_fwd 20 0%nat [false; true]
    = Some (UNode 0 1 (PNode 2 [Leaf 4; UNode 0 2 (PNode 3 [Leaf 5; UNode 0 0 (Leaf 1)])])) /\
  unparse bw_spec bw_atomo (UNode 0 1 (PNode 2 [Leaf 4; UNode 0 2 (PNode 3 [Leaf 5; UNode 0 0 (Leaf 1)])]))
    = Some [false; true] /\
  parse bw_spec bw_atomo bw_fwd 20 8%nat [true]
    = Some (UNode 8 1 (UNode 0 1 (PNode 2 [Leaf 4; UNode 0 0 (Leaf 1)]))) /\
  unparse bw_spec bw_atomo (UNode 8 1 (UNode 0 1 (PNode 2 [Leaf 4; UNode 0 0 (Leaf 1)]))) = Some [true] /\
  parse bw_spec bw_atomo bw_fwd 3 0%nat [false; true] = None /\
  unparse bw_spec bw_atomo (UNode 0 5 (Leaf 1)) = None.
Proof. vm_compute. repeat split; reflexivity. Qed.
Example C07_parse_sound_nonvacuous :
  twf bw_spec bw_atomo (UNode 8 1 (UNode 0 1 (PNode 2 [Leaf 4; UNode 0 0 (Leaf 1)]))) 8%nat /\
  unparse bw_spec bw_atomo (UNode 8 1 (UNode 0 1 (PNode 2 [Leaf 4; UNode 0 0 (Leaf 1)]))) = Some [true].
Proof.
  apply (C07_parse_sound bw_size bw_in bw_par bw_spec bw_atomo bw_fwd bw_node_ok 20 8%nat [true]); [exact I|].
  vm_compute. reflexivity.
Qed.
Example C07_parse_unparse_nonvacuous :
  exists f0, forall f, (f0 <= f)%nat ->
    parse bw_spec bw_atomo bw_fwd f 8%nat [true] = Some (UNode 8 1 (UNode 0 1 (PNode 2 [Leaf 4; UNode 0 0 (Leaf 1)]))).
Proof.
  destruct C07_parse_sound_nonvacuous as [Hw Hu].
  exact (proj2 (C07_parse_unparse bw_size bw_in bw_par bw_spec bw_atomo bw_fwd bw_rank bw_node_ok bw_closed
                  bw_rank_reads bw_size_nonneg _ 8%nat [true] Hw Hu)).
Qed.
Example C07_node_commutes_nonvacuous :
  (exists kids maps bwd ci y,
     bw_spec 8%nat = Some (RUnion kids maps bwd) /\ nth_error kids 1 = Some ci /\
     den bw_size bw_in bw_par bw_spec bw_atomo (UNode 0 1 (PNode 2 [Leaf 4; UNode 0 0 (Leaf 1)])) ci y /\
     bw_fwd 8%nat [true] = slot (length kids) 1 y /\ bwd (slot (length kids) 1 y) = [[true]]) /\
  (exists kids mins maxs maps bwd ys,
     bw_spec 2%nat = Some (RProduct kids mins maxs maps bwd) /\
     omap (unparse bw_spec bw_atomo) [Leaf 4; UNode 0 0 (Leaf 1)] = Some ys /\
     Forall2 bw_in kids ys /\ bw_fwd 2%nat [false] = map Some ys /\ bwd (map Some ys) = [[false]]).
Proof.
  destruct C07_parse_sound_nonvacuous as [Hw Hu]. split.
  - exact (C07_node_commutes_union bw_size bw_in bw_par bw_spec bw_atomo bw_fwd bw_node_ok 8%nat 1%nat _ [true] Hw Hu).
  - assert (Hw2 : twf bw_spec bw_atomo (PNode 2 [Leaf 4; UNode 0 0 (Leaf 1)]) 2%nat).
    { apply (C07_parse_sound bw_size bw_in bw_par bw_spec bw_atomo bw_fwd bw_node_ok 20 2%nat [false]);
        [exists []; reflexivity|vm_compute; reflexivity]. }
    apply (C07_node_commutes_product bw_size bw_in bw_par bw_spec bw_atomo bw_fwd bw_node_ok 2%nat _ [false] Hw2).
    vm_compute. reflexivity.
Qed.
Example C07_node_ok_rule_ok_nonvacuous : rule_ok bw_size bw_in bw_par 2%nat
  (RProduct [4%nat; 0%nat] [1; 0] [Some 1; None] [pid; pid] bw_bwdP).
Proof.
  exact (C07_node_ok_rule_ok bw_size bw_in bw_par bw_spec bw_atomo bw_fwd 2%nat _ eq_refl (bw_node_ok 2%nat)).
Qed.

(* ---- derived forms inherit the full contract: rule 8 -> [6 (empty); 0], its reverse, and the path ---- *)
Example C07_equivalence_contract_nonvacuous :
  union_contract bw_size bw_in bw_par 8%nat [0%nat] [pid]
    (tot_fwd (eqv_forward bw_pf8 1)) (tot_bwd (eqv_backward bw_pb8 1 (length [6%nat; 0%nat]))).
Proof.
  exact (C07_equivalence_contract bw_size bw_in bw_par 8%nat [6%nat; 0%nat] [pid; pid] bw_fwd8 bw_bwd8
           1%nat 0%nat bw_equiv_contract eq_refl bw_others_empty).
Qed.
Lemma bw_rev_map : forall y, bw_in 0%nat y -> pid (nth 1 [pid; pid] (fun x => x) (bw_par 0%nat y)) = bw_par 0%nat y.
Proof. intros y _. reflexivity. Qed.
Example C07_reverse_equivalence_contract_nonvacuous :
  union_contract bw_size bw_in bw_par 0%nat [8%nat] [pid]
    (tot_fwd (eqv_forward (rev_forward bw_pb8 1 (length [6%nat; 0%nat]) true) 0))
    (tot_bwd (eqv_backward (rev_backward bw_pf8 1 true) 0 (length [6%nat; 0%nat]))).
Proof.
  exact (C07_reverse_equivalence_contract bw_size bw_in bw_par 8%nat [6%nat; 0%nat] [pid; pid] bw_fwd8 bw_bwd8
           1%nat 0%nat pid bw_equiv_contract eq_refl bw_others_empty bw_rev_map).
Qed.
Example C07_reverse_equivalence_contract_flag_nonvacuous :
  union_contract bw_size bw_in bw_par 0%nat [8%nat] [pid]
    (tot_fwd (eqv_forward (rev_forward bw_pb8 1 (length [6%nat; 0%nat]) (one_nonempty_flag bw_nonempty [6%nat; 0%nat])) 0))
    (tot_bwd (eqv_backward (rev_backward bw_pf8 1 (one_nonempty_flag bw_nonempty [6%nat; 0%nat])) 0 (length [6%nat; 0%nat]))).
Proof.
  exact (C07_reverse_equivalence_contract_flag bw_size bw_in bw_par 8%nat [6%nat; 0%nat] [pid; pid] bw_fwd8 bw_bwd8
           1%nat 0%nat pid bw_nonempty bw_equiv_contract eq_refl bw_others_empty bw_rev_map bw_nonempty_spec).
Qed.
Example C07_run_extends_nonvacuous :
  ParseTreesRun.run_c07p (Sx.L [Sx.L [Sx.L [Sx.I 3; Sx.I 1; Sx.I 7]]; Sx.L [Sx.L [Sx.I 0; Sx.I 0; Sx.I 1]]])
  = ObjectsRun.run_c07 (Sx.L [Sx.L [Sx.L [Sx.I 3; Sx.I 1; Sx.I 7]]; Sx.L [Sx.L [Sx.I 0; Sx.I 0; Sx.I 1]]]) /\
  ParseTreesRun.run_c07p (Sx.L [Sx.L [Sx.L [Sx.I 3; Sx.I 1; Sx.I 7]]; Sx.L [Sx.L [Sx.I 5; Sx.I 0; Sx.I 7]; Sx.L [Sx.I 6; Sx.I 0; Sx.I 7]]])
  = Sx.L [Sx.L [Sx.I 0; Sx.I 0]; Sx.L [Sx.I 7]].
Proof.
  split; [|vm_compute; reflexivity]. apply C07_run_extends. repeat constructor; discriminate.
Qed.
(* the reverse of the one-child rule 7 -> [0] used as it is *)
Example C07_reverse_single_contract_nonvacuous :
  union_contract bw_size bw_in bw_par 0%nat [7%nat] [pid]
    (tot_fwd (rev_forward (fun t => Some (bw_bwd7 t)) 0 (length [0%nat]) true))
    (tot_bwd (rev_backward (fun o => Some (bw_fwd7 o)) 0 true)).
Proof.
  apply (C07_reverse_single_contract bw_size bw_in bw_par 7%nat [0%nat] [pid] bw_fwd7 bw_bwd7 0%nat 0%nat pid
           bw_single_contract eq_refl).
  - intros [|i] k y Hi _; [reflexivity|destruct i; discriminate].
  - intros y _. reflexivity.
  - reflexivity.
Qed.
(* the path  7 --plain--> 0 --EquivalenceRule(ReverseRule)--> 8 --EquivalenceRule--> 0  as ONE node *)
Definition bw_cpath : list (cstep (obj := list bool)) :=
  [((fun o => Some (bw_fwd7 o)), (fun t => Some (bw_bwd7 t)), pid);
   (eqv_forward (rev_forward bw_pb8 1 (length [6%nat; 0%nat]) true) 0,
    eqv_backward (rev_backward bw_pf8 1 true) 0 (length [6%nat; 0%nat]), pid);
   (eqv_forward bw_pf8 1, eqv_backward bw_pb8 1 (length [6%nat; 0%nat]), pid)].
Lemma bw_cchain : cchain bw_size bw_in bw_par 7%nat bw_cpath 0%nat.
Proof.
  eapply cchain_cons; [exact bw_single_contract|].
  eapply cchain_cons; [exact C07_reverse_equivalence_contract_nonvacuous|].
  eapply cchain_cons; [exact C07_equivalence_contract_nonvacuous|]. apply cchain_nil.
Qed.
Example C07_path_contract_nonvacuous :
  union_contract bw_size bw_in bw_par 7%nat [0%nat] [compose_maps (map st_map bw_cpath)]
    (tot_fwd (path_forward (map st_fwd bw_cpath))) (tot_bwd (path_backward (map st_bwd bw_cpath))).
Proof. exact (C07_path_contract bw_size bw_in bw_par 7%nat bw_cpath 0%nat bw_cchain). Qed.
(* ... hence the path is a legitimate node of a specification: rule_ok, the hypothesis of C07_generate_exact *)
Example C07_path_node_rule_ok :
  rule_ok bw_size bw_in bw_par 7%nat
    (RUnion [0%nat] [compose_maps (map st_map bw_cpath)] (tot_bwd (path_backward (map st_bwd bw_cpath)))).
Proof. simpl. eexists. exact C07_path_contract_nonvacuous. Qed.
Example C07_path_contract_values :
  tot_fwd (path_forward (map st_fwd bw_cpath)) [true; false; false] = [Some [false; false; true]] /\
  tot_bwd (path_backward (map st_bwd bw_cpath)) [Some [false; false; true]] = [[true; false; false]] /\
  compose_maps (map st_map bw_cpath) [5] = [5].
Proof. vm_compute. repeat split; reflexivity. Qed.


(* ---------------------------------------------------------------- ONE-FACTOR PRODUCTS (fix 25e10f1)
   A CartesianProduct rule with a single factor - which the searcher uses as an equivalence step of
   EquivalencePathRules, forwards and through ReverseRule - satisfies product_contract c [k] [m]; the theorems about
   unary steps above (C07_roundtrip_plain_single, C07_reverse_single_contract, cchain / C07_path_contract) are stated
   over union_contract c [k] [m].  The two coincide (Count/ObjectsOneFactor.v): the tuple with the one part is
   slot 1 0 y, "sizes add up" is "size kept", and CartesianProduct._new_param with one child is the child's map. *)
From CSS Require Count.ObjectsOneFactor Count.ParseTreesStats Count.ParseTreesStatsProofs Count.ParseTreesExampleParams.
Section OneFactorProduct.
Context {obj : Type}.
Variable size : obj -> Z.
Variable In_cls : nat -> obj -> Prop.
Variable par : nat -> obj -> params.

Theorem C07_one_factor_product_is_union_step : forall c k (m : pmap) fwd bwd,
  product_contract size In_cls par c [k] [m] fwd bwd -> union_contract size In_cls par c [k] [m] fwd bwd.
Proof. intros. apply ObjectsOneFactor.product1_union_contract. assumption. Qed.

(* ... with the parameter maps given as any list of length 1 (the form named in CLAUSES.md; for a list of another
   length the implication is false: new_param [] [p] = [] but nth 0 [] id p = p) *)
Theorem C07_one_factor_product_is_union_step_maps : forall c k (maps : list pmap) fwd bwd,
  length maps = 1%nat ->
  product_contract size In_cls par c [k] maps fwd bwd -> union_contract size In_cls par c [k] maps fwd bwd.
Proof. intros. apply ObjectsOneFactor.product1_union_contract_maps; assumption. Qed.

(* nothing is lost: a unary union step is a one-factor product step *)
Theorem C07_union_step_is_one_factor_product : forall c k (m : pmap) fwd bwd,
  union_contract size In_cls par c [k] [m] fwd bwd -> product_contract size In_cls par c [k] [m] fwd bwd.
Proof. intros. apply ObjectsOneFactor.union1_product_contract. assumption. Qed.

(* consumers: the step of a path, the reversed step, the round trip *)
Theorem C07_one_factor_product_path_step : forall A B C (m : pmap) fwd bwd rest,
  product_contract size In_cls par A [B] [m] fwd bwd ->
  cchain size In_cls par B rest C ->
  cchain size In_cls par A ((fun o => Some (fwd o), fun t => Some (bwd t), m) :: rest) C.
Proof. intros A B C m fwd bwd rest H1 H2. exact (ObjectsOneFactor.product1_cchain_step size In_cls par A B C m fwd bwd rest H1 H2). Qed.

Theorem C07_one_factor_product_reverse_contract : forall c k (m m' : pmap) fwd bwd,
  product_contract size In_cls par c [k] [m] fwd bwd ->
  (forall y, In_cls k y -> m' (m (par k y)) = par k y) ->
  union_contract size In_cls par k [c] [m']
    (tot_fwd (rev_forward (fun t => Some (bwd t)) 0 1 true))
    (tot_bwd (rev_backward (fun o => Some (fwd o)) 0 true)).
Proof. intros. eapply ObjectsOneFactor.product1_reverse_single_contract; eassumption. Qed.

Theorem C07_one_factor_product_roundtrip : forall c k (m : pmap) fwd bwd,
  product_contract size In_cls par c [k] [m] fwd bwd ->
  link In_cls c k (fun o => Some (fwd o)) (fun t => Some (bwd t)).
Proof. intros. eapply ObjectsOneFactor.product1_link; eassumption. Qed.
End OneFactorProduct.

(* ---------------------------------------------------------------- SIZE AND PARAMETERS OF A PARSE TREE, EXECUTED
   tsz / tpr of C07_objects_are_parse_trees are computed from the Section variables size / par at the leaves.  The
   extracted run (query kind 7 of run_c07p) executes Count/ParseTreesStats.v tszd / tprd, which read the leaf data
   from tables (asz c, apar c: the descriptor [3, m, o, params] of a one-object verification rule - AtomStrategy or
   an atom with parameters).  With truthful tables (leaf_data) they ARE tsz / tpr, and for every object o of a class c
   whose parse answers t:  tszd t = size o, tprd t = par c o  - the two values the oracle compares with len(o) and
   cls.get_parameters(o) on every real object asked. *)
Section ParseTreeStats.
Context {obj : Type}.
Variable size : obj -> Z.
Variable In_cls : nat -> obj -> Prop.
Variable par : nat -> obj -> params.
Variable spec : nat -> option (rule obj).
Variable atom : nat -> option obj.
Variable fwd : nat -> obj -> subobj obj.
Variable asz : nat -> Z.
Variable apar : nat -> params.
Hypothesis leaves : ParseTreesStatsProofs.leaf_data size par atom asz apar.

Theorem C07_tree_stats_are_tsz_tpr : forall t,
  tsz size atom t = ParseTreesStats.tszd asz t /\ tpr par spec atom t = ParseTreesStats.tprd spec apar t.
Proof. intros t. split; [eapply ParseTreesStatsProofs.tsz_tszd|eapply ParseTreesStatsProofs.tpr_tprd]; exact leaves. Qed.

Hypothesis contracts : forall c, node_ok size In_cls par spec atom fwd c.

Theorem C07_parse_stats : forall f c o t,
  In_cls c o -> parse spec atom fwd f c o = Some t ->
  ParseTreesStats.tszd asz t = size o /\ ParseTreesStats.tprd spec apar t = par c o.
Proof. intros. eapply ParseTreesStatsProofs.parse_stats; eassumption. Qed.

Theorem C07_unparse_stats : forall t c, twf spec atom t c ->
  exists o, unparse spec atom t = Some o /\ In_cls c o /\
            size o = ParseTreesStats.tszd asz t /\ par c o = ParseTreesStats.tprd spec apar t.
Proof. intros. eapply ParseTreesStatsProofs.unparse_stats; eassumption. Qed.
End ParseTreeStats.

(* the 4th field of the verdict of run_c07d: every verified class of the decoded specification holds the one object
   of its descriptor under the declared size and parameters, or nothing (the decidable part of node_ok at the leaves;
   that the class HAS exactly this object is the contract of the verification strategy) *)
Theorem C07_leaves_decided : forall descs, ParseTreesStats.leavesb descs = true -> forall c tbl,
  ObjectsRun.spec_of (map ObjectsRun.dec_rule descs) c = Some (RVerified tbl) ->
  match ParseTreesRun.atom_run descs c with
  | Some a => forall n, tbl n = if n =? ParseTreesStats.asz_of_descs descs c
                                then [(ParseTreesStats.apar_of_descs descs c, [a])] else []
  | None => forall n, tbl n = []
  end.
Proof. exact ParseTreesStatsProofs.leavesb_sound. Qed.

(* the run's tables are truthful when the descriptors' sizes and parameters are those of the atoms (the oracle
   checks m = len(o), params = cls.get_parameters(o) for every such descriptor) *)
Theorem C07_leaf_data_run : forall (size : Z -> Z) (par : nat -> Z -> params) descs,
  (forall c d, nth_error descs c = Some d -> ParseTreesStats.desc_kind d = 3 ->
     size (Sx.sx_Z (Sx.sx_nth d 2)) = Sx.sx_Z (Sx.sx_nth d 1) /\
     par c (Sx.sx_Z (Sx.sx_nth d 2)) = Sx.sx_Zs (Sx.sx_nth d 3)) ->
  ParseTreesStatsProofs.leaf_data size par (ParseTreesRun.atom_run descs)
    (ParseTreesStats.asz_of_descs descs) (ParseTreesStats.apar_of_descs descs).
Proof. exact ParseTreesStatsProofs.leaf_data_run. Qed.

(* ---- applied *)
(* the one-child rule 7 -> [0] of the binary-word universe, declared as a one-factor product *)
Lemma bw_product1_contract : product_contract bw_size bw_in bw_par 7%nat [0%nat] [pid] bw_fwd7 bw_bwd7.
Proof. exact (C07_union_step_is_one_factor_product bw_size bw_in bw_par 7%nat 0%nat pid bw_fwd7 bw_bwd7 bw_single_contract). Qed.
Example C07_one_factor_product_is_union_step_nonvacuous :
  union_contract bw_size bw_in bw_par 7%nat [0%nat] [pid] bw_fwd7 bw_bwd7.
Proof. exact (C07_one_factor_product_is_union_step bw_size bw_in bw_par 7%nat 0%nat pid bw_fwd7 bw_bwd7 bw_product1_contract). Qed.
(* a path [one-factor product 7 -> 0] and its contract through C07_path_contract *)
Example C07_one_factor_product_path_nonvacuous :
  union_contract bw_size bw_in bw_par 7%nat [0%nat]
    [compose_maps (map st_map [((fun o => Some (bw_fwd7 o)), (fun t => Some (bw_bwd7 t)), pid)])]
    (tot_fwd (path_forward (map st_fwd [((fun o => Some (bw_fwd7 o)), (fun t => Some (bw_bwd7 t)), pid)])))
    (tot_bwd (path_backward (map st_bwd [((fun o => Some (bw_fwd7 o)), (fun t => Some (bw_bwd7 t)), pid)]))).
Proof.
  apply C07_path_contract.
  apply (C07_one_factor_product_path_step bw_size bw_in bw_par 7%nat 0%nat 0%nat pid bw_fwd7 bw_bwd7 []
           bw_product1_contract). apply cchain_nil.
Qed.
(* the reverse of the one-factor product 7 -> [0] *)
Example C07_one_factor_product_reverse_nonvacuous :
  union_contract bw_size bw_in bw_par 0%nat [7%nat] [pid]
    (tot_fwd (rev_forward (fun t => Some (bw_bwd7 t)) 0 1 true))
    (tot_bwd (rev_backward (fun o => Some (bw_fwd7 o)) 0 true)).
Proof.
  apply (C07_one_factor_product_reverse_contract bw_size bw_in bw_par 7%nat 0%nat pid pid bw_fwd7 bw_bwd7
           bw_product1_contract). intros y _. reflexivity.
Qed.
Example C07_one_factor_product_roundtrip_nonvacuous :
  link bw_in 7%nat 0%nat (fun o => Some (bw_fwd7 o)) (fun t => Some (bw_bwd7 t)).
Proof. exact (C07_one_factor_product_roundtrip bw_size bw_in bw_par 7%nat 0%nat pid bw_fwd7 bw_bwd7 bw_product1_contract). Qed.

(* parse-tree statistics on the words over {a, b} with the statistic "number of a's" (Count/ParseTreesExampleParams.v:
   0 = eps + a.0 + b.0, atoms 1 = eps, 3 = a, 5 = b) *)
Definition wabk_asz (c : nat) : Z := match c with 3%nat => 1 | 5%nat => 1 | _ => 0 end.
Definition wabk_apar (c : nat) : params := match c with 1%nat => [0] | 3%nat => [1] | 5%nat => [0] | _ => [] end.
Lemma wabk_leaf_data :
  ParseTreesStatsProofs.leaf_data ParseTreesExample.wab_size ParseTreesExampleParams.wabk_par ParseTreesExample.wab_atomo
    wabk_asz wabk_apar.
Proof. intros c. destruct c as [|[|[|[|[|[|c]]]]]]; simpl; split; reflexivity. Qed.
Example C07_parse_stats_nonvacuous : forall f o t,
  ParseTreesExample.wab_in 0%nat o ->
  parse ParseTreesExampleParams.wabk_spec ParseTreesExample.wab_atomo ParseTreesExample.wab_fwd f 0%nat o = Some t ->
  ParseTreesStats.tszd wabk_asz t = ParseTreesExample.wab_size o /\
  ParseTreesStats.tprd ParseTreesExampleParams.wabk_spec wabk_apar t = ParseTreesExampleParams.wabk_par 0%nat o.
Proof.
  intros f o t. apply (C07_parse_stats ParseTreesExample.wab_size ParseTreesExample.wab_in ParseTreesExampleParams.wabk_par
                         ParseTreesExampleParams.wabk_spec ParseTreesExample.wab_atomo ParseTreesExample.wab_fwd
                         wabk_asz wabk_apar wabk_leaf_data ParseTreesExampleParams.wabk_node_ok).
Qed.
(* ... on the word ab: the tree has size 2 and parameter tuple [1] *)
Example C07_parse_stats_values :
  exists t, parse ParseTreesExampleParams.wabk_spec ParseTreesExample.wab_atomo ParseTreesExample.wab_fwd 10 0%nat [false; true] = Some t /\
            ParseTreesStats.tszd wabk_asz t = 2 /\
            ParseTreesStats.tprd ParseTreesExampleParams.wabk_spec wabk_apar t = [1].
Proof. eexists. split; [vm_compute; reflexivity|]. split; vm_compute; reflexivity. Qed.
(* the run: an atom with parameters as a leaf ([3, m, o, params]), a one-factor product over it; query 7 *)
Example C07_run_stats_values :
  ParseTreesRun.run_c07d
    (Sx.L [Sx.L [Sx.L [Sx.I 1; Sx.L [Sx.I 1]; Sx.L [Sx.I 1]; Sx.L [Sx.I 1];
                       Sx.L [Sx.L [Sx.I 0; Sx.L [Sx.L [Sx.I 0]]; Sx.I 1]];
                       Sx.L [Sx.I 0; Sx.L [Sx.L [Sx.I 8; Sx.L [Sx.I 7]]]; Sx.L [Sx.L [Sx.L [Sx.I 7]; Sx.L [Sx.I 8]]]]];
                 Sx.L [Sx.I 3; Sx.I 1; Sx.I 7; Sx.L [Sx.I 4]]];
           Sx.L [Sx.L [Sx.I 7; Sx.I 0; Sx.I 8]; Sx.L [Sx.I 0; Sx.I 0; Sx.I 1]]])
  = Sx.L [Sx.L [Sx.I 1; Sx.L [Sx.I 4]];
          Sx.L [Sx.L [Sx.L [Sx.I 4]; Sx.L [Sx.I 8]]];
          Sx.L [Sx.I 1; Sx.I 1; Sx.I 1; Sx.I 1]].
Proof. vm_compute. reflexivity. Qed.

Print Assumptions C07_union_sub_objects.
Print Assumptions C07_product_sub_objects.
Print Assumptions C07_union_level.
Print Assumptions C07_product_level.
Print Assumptions C07_count_eq_length_union_step.
Print Assumptions C07_count_eq_length_product_step.
Print Assumptions C07_generate_exact.
Print Assumptions C07_generate_perm.
Print Assumptions C07_count_eq_length_partial.
Print Assumptions C07_count_eq_length.
Print Assumptions C07_count_exact.
Print Assumptions C07_union_terms_level.
Print Assumptions C07_product_terms_level.
Print Assumptions C07_reverse_flag.
Print Assumptions C07_reverse_refuses.
Print Assumptions C07_reverse_bijection.
Print Assumptions C07_verified_cache_append.
Print Assumptions C07_verified_cache_levels.
Print Assumptions C07_verified_get_objects.
Print Assumptions C07_roundtrip_equivalence.
Print Assumptions C07_roundtrip_reverse.
Print Assumptions C07_roundtrip_reverse_equivalence.
Print Assumptions C07_roundtrip_path.
Print Assumptions C07_roundtrip_plain_single.
Print Assumptions C07_objects_are_parse_trees.
Print Assumptions C07_parse_unparse.
Print Assumptions C07_parse_sound.
Print Assumptions C07_node_commutes_union.
Print Assumptions C07_node_commutes_product.
Print Assumptions C07_node_ok_rule_ok.
Print Assumptions C07_equivalence_contract.
Print Assumptions C07_reverse_equivalence_contract.
Print Assumptions C07_reverse_equivalence_contract_flag.
Print Assumptions C07_reverse_single_contract.
Print Assumptions C07_run_extends.
Print Assumptions C07_rank_decided.
Print Assumptions C07_closed_decided.
Print Assumptions C07_generate_exact_decided.
Print Assumptions C07_path_contract.
Print Assumptions C07_nonvacuous.
Print Assumptions C07_one_factor_product_is_union_step.
Print Assumptions C07_one_factor_product_is_union_step_maps.
Print Assumptions C07_union_step_is_one_factor_product.
Print Assumptions C07_one_factor_product_path_step.
Print Assumptions C07_one_factor_product_reverse_contract.
Print Assumptions C07_one_factor_product_roundtrip.
Print Assumptions C07_tree_stats_are_tsz_tpr.
Print Assumptions C07_parse_stats.
Print Assumptions C07_unparse_stats.
Print Assumptions C07_leaves_decided.
Print Assumptions C07_leaf_data_run.
Print Assumptions C07_parse_stats_nonvacuous.
