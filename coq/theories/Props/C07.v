(* C07 — object generation yields exactly the objects of the class, each once.
   Only statements; proofs are applications of lemmas of Count/Objects*.v.

   Meaning of the Section variables (user code / the combinatorial truth):
     In_cls c o   o is an object of class c         size o   its size
     par c o      its parameter tuple in class c
   A rule's own forward/backward maps are constrained by a bijection contract
   (union_contract, product_contract: backward (forward o) = [o], the parts lie
   in the children, sizes add up, parameters go through the constructor's
   parameter maps, every tuple of children's objects comes from one parent
   object — for a union this includes that the children are disjoint).
   `good c n d` : the dictionary d holds, under every parameter tuple p, each
   object of class c with size n and parameters p exactly once. *)
From Coq Require Import ZArith List Bool Permutation.
From CSS Require Import Base.PyList Gen.Prelude Gen.Compositions Count.CompositionsSpec
                        Count.ObjectsModel Count.ObjectsLists Count.ObjectsProofs
                        Count.ObjectsForms Count.ObjectsSpec Count.ObjectsExample
                        Count.ObjectsCountModel Count.ObjectsCount.
Import ListNotations.
Open Scope Z_scope.

Section C07.
Context {obj : Type}.
Variable size : obj -> Z.
Variable In_cls : nat -> obj -> Prop.
Variable par : nat -> obj -> params.

Notation good := (good size In_cls par).
Notation isobj := (isobj size In_cls par).

(* DisjointUnion.get_sub_objects + itertools.product: when the children's
   dictionaries for size n are right, the (parameters, tuple) pairs enumerated
   are, without repetition, exactly (None,..,o,..,None) for every object o of
   size n of every child, with the child's parameters mapped to the parent *)
Theorem C07_union_sub_objects : forall kids maps n (subs : list (objects obj)),
  Forall2 (fun k d => good k n d) kids subs ->
  NoDup (pairs (union_yields maps subs)) /\
  forall q t, In (q, t) (pairs (union_yields maps subs)) <->
              valid_u size In_cls par kids maps n q t.
Proof. intros. apply union_sub_objects_spec. assumption. Qed.

(* CartesianProduct.get_sub_objects + itertools.product: over the compositions
   of the REGENERATED utils.compositions with the rule's min/max sizes, the
   pairs enumerated are, without repetition, exactly the tuples with one object
   of every child whose sizes add up to n, with parameters combined by
   _new_param.  bounds_ok: the min/max sizes are true bounds for the children,
   minima are >= 0 and there is at least one child (for no child the code
   enumerates nothing, although the empty tuple would be a split) *)
Theorem C07_product_sub_objects : forall kids mins maxs maps n (per_comp : list (list (objects obj))),
  bounds_ok size In_cls kids mins maxs ->
  Forall2 (fun sizes ds => Forall2 (goodks size In_cls par) (combine kids sizes) ds)
          (compositions n (zlen kids) mins maxs) per_comp ->
  NoDup (pairs (product_yields maps per_comp)) /\
  forall q t, In (q, t) (pairs (product_yields maps per_comp)) <->
              valid_p size In_cls par kids maps n q t.
Proof. intros. eapply product_sub_objects_spec; eassumption. Qed.

(* one level built by Rule._ensure_level_objects, union rule *)
Theorem C07_union_level : forall c kids maps fwd bwd n (subs : list (objects obj)),
  union_contract size In_cls par c kids maps fwd bwd ->
  Forall2 (fun k d => good k n d) kids subs ->
  good c n (build_level bwd (union_yields maps subs)).
Proof. intros. eapply union_level_good; eassumption. Qed.

(* one level built by Rule._ensure_level_objects, product rule *)
Theorem C07_product_level : forall c kids mins maxs maps fwd bwd n (per_comp : list (list (objects obj))),
  product_contract size In_cls par c kids maps fwd bwd ->
  bounds_ok size In_cls kids mins maxs ->
  Forall2 (fun sizes ds => Forall2 (goodks size In_cls par) (combine kids sizes) ds)
          (compositions n (zlen kids) mins maxs) per_comp ->
  good c n (build_level bwd (product_yields maps per_comp)).
Proof. intros. eapply product_level_good; eassumption. Qed.

(* count == number generated, level by level and WITHOUT assuming that the counts are right:
   DisjointUnion.get_terms / CartesianProduct.get_terms (transcribed in Count/ObjectsCountModel.v) fed
   with the numbers of objects of the children's dictionaries return, for every parameter tuple, the
   length of the list that _ensure_level_objects builds from those dictionaries - provided every
   backward map yields one object on the tuples visited (the bijection contract) *)
Theorem C07_count_eq_length_union_step : forall maps (bwd : subobj obj -> list obj) (subs : list (objects obj)),
  (forall qt, In qt (pairs (union_yields maps subs)) -> length (bwd (snd qt)) = 1%nat) ->
  forall q, counter_get (union_terms maps (map terms_of subs)) q
            = zlen (dict_get (build_level bwd (union_yields maps subs)) q).
Proof. intros. apply count_union_step. assumption. Qed.

Theorem C07_count_eq_length_product_step : forall maps (bwd : subobj obj -> list obj)
                                                  (per_comp : list (list (objects obj))),
  (forall qt, In qt (pairs (product_yields maps per_comp)) -> length (bwd (snd qt)) = 1%nat) ->
  forall q, counter_get (product_terms maps (map (map terms_of) per_comp)) q
            = zlen (dict_get (build_level bwd (product_yields maps per_comp)) q).
Proof. intros. apply count_product_step. assumption. Qed.

(* ---------------------------------------------------------------- whole specifications *)
Section Whole.
Variable spec : nat -> option (rule obj).            (* one rule per class *)
Variable rank : nat -> Z -> nat.                     (* productivity certificate *)
Hypothesis contracts : forall c r, spec c = Some r -> rule_ok size In_cls par c r.
Hypothesis closed : forall c r n c' m,
  spec c = Some r -> 0 <= n -> In (c', m) (reads r n) -> spec c' <> None.
Hypothesis productive_reads : forall c r n c' m,
  spec c = Some r -> 0 <= n -> In (c', m) (reads r n) -> 0 <= m /\ (rank c' m < rank c n)%nat.
Hypothesis productive_levels : forall c m n, 0 <= m < n -> (rank c m < rank c n)%nat.

(* generate_objects_of_size through the level-by-level caches: from every
   consistent cache state (in particular the empty one, and every state left
   by earlier calls) and with enough recursion depth, the answer for class c,
   size n and parameters p is a duplicate-free list of exactly the objects of
   c with that size and parameters, and the caches stay consistent *)
Theorem C07_generate_exact : forall c n,
  spec c <> None -> 0 <= n ->
  exists f0, forall f, (f0 <= f)%nat ->
    forall s, Inv size In_cls par s -> forall p,
    exists s' l, generate_objects_of_size spec f s c n p = Some (s', l) /\
                 Inv size In_cls par s' /\ NoDup l /\ forall o, In o l <-> isobj c n p o.
Proof. intros. eapply generate_exact; eauto. Qed.

(* ... hence a permutation of any independent duplicate-free enumeration *)
Theorem C07_generate_perm : forall c n (enum : params -> list obj),
  spec c <> None -> 0 <= n ->
  (forall p, NoDup (enum p) /\ forall o, In o (enum p) <-> isobj c n p o) ->
  exists f0, forall f, (f0 <= f)%nat ->
    forall s, Inv size In_cls par s -> forall p,
    exists s' l, generate_objects_of_size spec f s c n p = Some (s', l) /\
                 NoDup l /\ Permutation l (enum p) /\ length l = length (enum p).
Proof. intros. eapply generate_perm; eauto. Qed.

(* PARTIAL: the number the specification reports equals the length of the
   generated list PROVIDED the count is the true number of objects — that is
   property C01's conclusion and is assumed here, not proved.  (The two _step
   theorems above are the inductive step of the assumption-free statement; the
   induction through the terms caches of a whole specification is not done.) *)
Theorem C07_count_eq_length_partial : forall c n (enum : params -> list obj) (count : params -> nat),
  spec c <> None -> 0 <= n ->
  (forall p, NoDup (enum p) /\ forall o, In o (enum p) <-> isobj c n p o) ->
  (forall p, count p = length (enum p)) ->
  exists f0, forall f, (f0 <= f)%nat -> forall p,
    exists s' l, generate_objects_of_size spec f empty_cache c n p = Some (s', l) /\
                 count p = length l.
Proof.
  intros c n enum count Hc Hn He Hcount.
  destruct (generate_perm size In_cls par spec rank contracts closed productive_reads
                          productive_levels c n enum Hc Hn He) as [f0 H0].
  exists f0. intros f Hf p.
  destruct (H0 f Hf empty_cache (Inv_empty size In_cls par) p) as (s' & l & E & _ & _ & Hlen).
  exists s', l. split; [assumption|]. rewrite Hcount. symmetry. assumption.
Qed.
End Whole.

(* ---------------------------------------------------------------- round trips of the rule forms *)
(* link A B f b: for every object o of A, f o = (y,) with y in B and b (y,) yields o *)

(* EquivalenceRule(rule) of a union rule whose only non-empty child is child j *)
Theorem C07_roundtrip_equivalence : forall c kids maps fwd bwd j kj,
  union_contract size In_cls par c kids maps fwd bwd ->
  nth_error kids j = Some kj ->
  (forall i k y, nth_error kids i = Some k -> In_cls k y -> i = j) ->
  link In_cls c kj (eqv_forward (fun o => Some (fwd o)) j)
                   (eqv_backward (fun t => Some (bwd t)) j (length kids)).
Proof. intros. eapply equivalence_link; eassumption. Qed.

(* ReverseRule(rule, j) of such a rule: parent = child j, first child = old parent *)
Theorem C07_roundtrip_reverse : forall c kids maps fwd bwd j kj,
  union_contract size In_cls par c kids maps fwd bwd ->
  nth_error kids j = Some kj ->
  forall y, In_cls kj y ->
  exists o, In_cls c o /\
    rev_forward (fun t => Some (bwd t)) j (length kids) true y
      = Some (Some o :: repeat None (length kids - 1)) /\
    rev_backward (fun o => Some (fwd o)) j true (Some o :: repeat None (length kids - 1)) = Some [y].
Proof. intros. eapply reverse_roundtrip; eassumption. Qed.

(* EquivalenceRule(ReverseRule(rule, j)) — what EquivalenceRule.to_reverse_rule builds *)
Theorem C07_roundtrip_reverse_equivalence : forall c kids maps fwd bwd j kj,
  union_contract size In_cls par c kids maps fwd bwd ->
  nth_error kids j = Some kj ->
  link In_cls kj c
       (eqv_forward (rev_forward (fun t => Some (bwd t)) j (length kids) true) 0)
       (eqv_backward (rev_backward (fun o => Some (fwd o)) j true) 0 (length kids)).
Proof. intros. eapply reverse_equivalence_link; eassumption. Qed.

(* EquivalencePathRule: a chain of unary forms (each of the three above, or a
   plain one-child rule) from class A to class C *)
Theorem C07_roundtrip_path : forall A fbs C, chain In_cls A fbs C ->
  forall o, In_cls A o ->
  exists z, In_cls C z /\ path_forward (map fst fbs) o = Some [Some z] /\
            path_backward (map snd fbs) [Some z] = Some [o].
Proof. intros. eapply path_roundtrip; eassumption. Qed.

Theorem C07_roundtrip_plain_single : forall c k maps fwd bwd,
  union_contract size In_cls par c [k] maps fwd bwd ->
  link In_cls c k (fun o => Some (fwd o)) (fun t => Some (bwd t)).
Proof. intros. eapply plain_single_link; eassumption. Qed.

End C07.

(* non-vacuity: the specification  0 -> 1 + 2,  2 -> 3 x 0,  1 and 3 atoms  (words over one letter,
   Count/ObjectsExample.v) satisfies every hypothesis of the end-to-end theorem - contracts of a union and
   of a product rule with an atom factor, closedness, the productivity certificate - so its conclusion
   holds for it; and the model, run on it, generates the word of size 3 *)
Example C07_nonvacuous :
  (forall n, 0 <= n ->
     exists f0, forall f, (f0 <= f)%nat -> forall p,
       exists s' l, generate_objects_of_size ex_spec f empty_cache 0%nat n p = Some (s', l) /\
                    NoDup l /\ forall o, In o l <-> isobj ex_size ex_in ex_par 0%nat n p o) /\
  match generate_objects_of_size ex_spec 40 empty_cache 0%nat 3 [] with
  | Some (_, l) => l = [3%nat]
  | None => False
  end.
Proof.
  split; [|exact ex_runs].
  intros n Hn.
  destruct (C07_generate_exact ex_size ex_in ex_par ex_spec ex_rank ex_contracts ex_closed
                               ex_rank_reads ex_rank_mono 0%nat n) as [f0 H0]; [discriminate|assumption|].
  exists f0. intros f Hf p.
  destruct (H0 f Hf empty_cache (Inv_empty ex_size ex_in ex_par) p) as (s' & l & E & _ & Hnd & Hm).
  exists s', l. auto.
Qed.

Print Assumptions C07_union_sub_objects.
Print Assumptions C07_product_sub_objects.
Print Assumptions C07_union_level.
Print Assumptions C07_product_level.
Print Assumptions C07_count_eq_length_union_step.
Print Assumptions C07_count_eq_length_product_step.
Print Assumptions C07_generate_exact.
Print Assumptions C07_generate_perm.
Print Assumptions C07_count_eq_length_partial.
Print Assumptions C07_roundtrip_equivalence.
Print Assumptions C07_roundtrip_reverse.
Print Assumptions C07_roundtrip_reverse_equivalence.
Print Assumptions C07_roundtrip_path.
Print Assumptions C07_roundtrip_plain_single.
Print Assumptions C07_nonvacuous.
