(* C13 — the parallel specification finder is total and its output is a matched pair.
   Statements only; the model is Parallel/Model.v + Parallel/InfoModel.v (bijection.py as it is since the
   fix: commits a172a92, 97589e3 and 8a96a0c), tied to the code by the correspondence of harness/props/c13.py.

   THE CODE AS IT IS (all universes, all rule databases, all fuel):
   * C13_matched_pair, C13_matched_pair_eqpath   whatever find() returns, in either variant, is a matched
                                pair: both label maps closed from their roots, made of rules of their
                                universes (the empty tuple for atoms), and isomorphic through a relation
                                that respects constructor classes, atoms and a permutation of the children
                                at every node;
   * C13_base_finder_never_raises, C13_base_finder_total      ParallelSpecFinder.find() is TOTAL at the model
                                level: no exception state, both searches and the final walk terminate;
   * C13_eqpath_finder_never_raises, C13_eqpath_finder_total  the same for EqPathParallelSpecFinder, for every
                                oracle that answers every question of _eq_path_matches (its answers come from
                                EquivalenceRuleExtractor over the rule database, outside the model); the
                                EqPath theorems hold both for the code as it is (pw = true, since fix 8a96a0c
                                of the finding F-C13e: a second final walk compares the equivalence paths
                                along every edge of the two maps — what the label-level notion of matched pair
                                does not see) and for the code before that fix (pw = false; historic, no case
                                of the harness runs it);
   * C13_eqpath_edges_checked, C13_ewalk_sound   the content of fix 8a96a0c: when EqPathParallelSpecFinder.find() as it
                                is (pw = true) returns two label maps, EVERY (parent pair -> child pair) edge of the
                                two maps reachable from the pair of roots passed the final walk: _eq_path_matches was
                                asked about it (fresh cache, final maps) and answered True, and the two rules are a
                                recorded matching; C13_matched_pair_eqpath_with_paths: under the contract of those
                                answers the returned pair is matched INCLUDING the non-equivalence rules inside the
                                equivalence labels (what matched_pair alone cannot see; not true of pw = false);
   * C13_eqpath_finder_total_tight, C13_harness_never_out_of_fuel   termination of the EqPath variant with a walk bound
                                LINEAR in the number of label pairs, and: the fuel run_c13 computes from the two
                                universes (Parallel/Fuel.v) meets the bounds, so status 2 ("out of fuel") cannot occur
                                on any compared run (EqPath: for oracles answering every question), tree
                                construction included;
   * C13_first_search_sound     every entry the first search records in matching_info is a pair of
                                candidate rules (same number of children, matching constructor classes)
                                with a genuine permutation of the child positions, or the atom entry of two
                                atoms with the same identity;
   * C13_failure_memo_sound     a pair recorded as failed is not matchable, whatever ancestor assumptions
                                were pending; the first search answers True whenever the roots are matchable;
   * C13_maps_use_rules         every binding of the two returned label maps is a rule of its universe;
   * C13_universe_well_formed   ParallelInfo._construct_eq_label_rules (model: InfoModel.v, incl. the skipped
                                empty parent of a172a92): in the universe it builds from a rule database,
                                every candidate rule and every atom is a stored rule up to equivalence and
                                the root is the representative of the start label (given that verification
                                rules have no children);
   * C13_construct_total        ParallelInfo._construct_eq_label_rules is TOTAL on well-formed rule databases:
                                under db_wf db lis (Parallel/InfoTotal.v: every entry of lis has a stored preimage;
                                a used key with a non-empty atom parent carries a verification rule; a used key with
                                a non-empty non-atom parent and a `Rule` has children) the model never answers CErr
                                (KeyError / AssertionError / RuntimeError: the class of failures a172a92 repaired);
                                C13_construct_ok: with only_atoms_verified in addition it answers COk (no refusal);
                                C13_db_wf_decidable: db_wfb / only_atoms_verified_b decide the two hypotheses;
                                C13_run_reports_coverage: run_c13 evaluates both deciders on every replayed rule
                                database (fields w1, w2) and whenever it prints an odd w the c field of that side is
                                0, 5 or 7.  Near misses (one clause of db_wf violated, CErr answered): Examples
                                C13_construct_near_miss_key / _atom / _children;
   * C13_spec_from_label_map    the specification stage: on a label map whose reachable tuples are stored
                                rules up to equivalence, SpecificationRuleExtractor invoked with the START
                                label does not fail and yields a closed rules dictionary with a rule for the
                                start label (C02's theorem) — also when the start label is not its own
                                representative (Examples; with the root equivalence label instead, as
                                before a34d719, the start label gets no rule);
   * C13_label_map_meets_constructor_contract   the bridge to C02's model of CombinatorialSpecification.__init__
                                (Spec/Grouping.v spec_init, hypothesis wf_input of C02_constructor_never_raises): the
                                rule set the extractor builds from a label map, read as rule objects through RULE DATA
                                (children incl. empty classes, is_equivalence(); contract ruledata_ok: equivalence
                                rules are handed out unary, extra children are empty), satisfies SIX of the seven
                                clauses of wf_input - path_free, keyed, unary_eqv, closed, root_ok and REACHABLE
                                (C13_rule_set_reachable: every class of the rule set is reachable from the start class;
                                needs find_path to stay inside the equivalence class and to repeat no label) - so that
                                under the seventh, `chains` (no cycle of hidden unary equivalence rules: NOT derivable,
                                the finder does not check productivity), wf_input holds and spec_init never answers
                                XErr.  C13_rule_set_ctor_bridge_partial: the same from rule_set_ok alone, with
                                `reachable` as a hypothesis (rule_set_ok as stated does not imply it);
   * C13_two_rule_sets, C13_two_rule_sets_eqpath   end to end, from the two rule databases: ParallelInfo
                                builds the universes, find() returns, and on EACH side the specification
                                stage succeeds with a closed rules dictionary that has a rule for that side's
                                start label.  No hypothesis about the universes is left.

   HISTORY — the code before 97589e3 (find_base_old / find_eq_old in the model):
   * C13_matched_pair_refuted   ParallelSpecFinder returned label maps that are not a matched pair;
   * C13_eqpath_raises_refuted  EqPathParallelSpecFinder raised KeyError on the same input.
   Replayed on real searchers by findings/second_search_shortcut.py; repaired by 97589e3.

   Not proved: completeness of the second search ("finds a pair whenever one exists" is not part of the
   property).  Outside the model: the expansion of the searchers, EquivalenceRuleExtractor,
   CombinatorialSpecification and Isomorphism (the open finding about chained equivalence steps lies there).
   The BASE variant documents a precondition (class docstring: classes sharing an equivalence label are equivalent);
   on universes with a unary non-equivalence rule inside an equivalence class C13_matched_pair still holds (it is
   label-level) but the two SPECIFICATIONS need not be isomorphic: outside the property for that variant
   (findings/triage2/C13/verdict.md; the harness tags and judges those pairs apart). *)
From Coq Require Import ZArith List Bool.
From CSS Require Import Base.Sx Spec.Extractor Spec.ExtractorProofs
  Parallel.Model Parallel.Basics Parallel.First Parallel.Second Parallel.Matched Parallel.Fixed
  Parallel.Refuted Parallel.SpecStage Parallel.Memo Parallel.Term Parallel.Term2 Parallel.Term3
  Parallel.EndToEnd Parallel.EqSecond Parallel.EqTerm Parallel.EqSound Parallel.Fuel Parallel.InfoModel
  Parallel.InfoProofs Parallel.InfoTotal Parallel.Final Parallel.Examples Parallel.Run Parallel.RunTotal.
From CSS Require Spec.Grouping Spec.GroupingWf Spec.GroupingInit Parallel.CtorReach Parallel.CtorBridge.
From CSS Require Equiv.Model Equiv.Hist Spec.ExtractorEquiv.
Import ListNotations.

(* ---------------------------------------------------------------- the output is a matched pair *)
Theorem C13_matched_pair : forall s1 s2 fuel wfuel d1 d2,
  find_base s1 s2 fuel wfuel = Found d1 d2 -> matched_pair s1 s2 d1 d2.
Proof. exact find_base_matched. Qed.

Theorem C13_matched_pair_eqpath : forall s1 s2 pw fuel wfuel oracle woracle d1 d2 asked,
  find_eq s1 s2 pw fuel wfuel oracle woracle = EOut (Found d1 d2) asked -> matched_pair s1 s2 d1 d2.
Proof. exact find_eq_matched. Qed.

(* ---------------------------------------------------------------- the finder is total *)
Theorem C13_base_finder_never_raises : forall s1 s2 fuel wfuel e, find_base s1 s2 fuel wfuel <> Failed e.
Proof. exact find_base_never_raises. Qed.

Theorem C13_base_finder_total : forall s1 s2 fuel wfuel,
  (length (all_pairs s1 s2) < fuel)%nat ->
  (length (all_pairs s1 s2) * S (max_arity s2) + 1 < wfuel)%nat ->
  find_base s1 s2 fuel wfuel = Nothing \/ exists d1 d2, find_base s1 s2 fuel wfuel = Found d1 d2.
Proof. exact find_base_total. Qed.

Theorem C13_eqpath_finder_never_raises : forall s1 s2 pw fuel wfuel oracle woracle e asked,
  (forall k, oracle k <> None) -> (forall k, woracle k <> None) ->
  find_eq s1 s2 pw fuel wfuel oracle woracle <> EOut (Failed e) asked.
Proof. exact find_eq_never_raises. Qed.

Theorem C13_eqpath_finder_total : forall s1 s2 pw fuel wfuel oracle woracle,
  (forall k, oracle k <> None) -> (forall k, woracle k <> None) ->
  (2 * length (all_pairs s1 s2) < fuel)%nat ->
  (length (all_edges s1 s2) * S (max_arity s2) + 1 < wfuel)%nat ->
  exists asked, find_eq s1 s2 pw fuel wfuel oracle woracle = EOut Nothing asked \/
                exists d1 d2, find_eq s1 s2 pw fuel wfuel oracle woracle = EOut (Found d1 d2) asked.
Proof. exact find_eq_total. Qed.

(* ---------------------------------------------------------------- the first search *)
Theorem C13_first_search_sound : forall s1 s2 fuel b st,
  find s1 s2 fuel (s_root s1) (s_root s2) init_fstate = Ok (b, st) ->
  forall id1 id2 d c order, mi_get (f_mi st) (id1, id2) = Some d -> In (c, order) d ->
    (c = ([], []) /\ order = [] /\ atoms_match s1 s2 id1 id2 = true)
    \/ (In c (potential_children s1 s2 id1 id2) /\ fst c <> [] /\ perm_ok (length (fst c)) order).
Proof. intros s1 s2 fuel b st H. exact (first_search_sound s1 s2 fuel b st H). Qed.

Theorem C13_failure_memo_sound : forall s1 s2 fuel b st,
  find s1 s2 fuel (s_root s1) (s_root s2) init_fstate = Ok (b, st) ->
  (forall p, In p (f_visited st) -> mi_mem (f_mi st) p = false -> ~ matchable s1 s2 p) /\
  (matchable s1 s2 (s_root s1, s_root s2) -> b = true).
Proof. exact failure_memo_sound. Qed.

Theorem C13_maps_use_rules : forall s1 s2 fuel wfuel d1 d2,
  find_base s1 s2 fuel wfuel = Found d1 d2 ->
  (forall l c, In (l, c) d1 -> (c = [] /\ atom_of s1 l <> None) \/ exists k, In (c, k) (rules_of s1 l)) /\
  (forall l c, In (l, c) d2 -> (c = [] /\ atom_of s2 l <> None) \/ exists k, In (c, k) (rules_of s2 l)).
Proof. exact find_base_good. Qed.

(* ---------------------------------------------------------------- ParallelInfo *)
Theorem C13_universe_well_formed : forall db lis s,
  ver_no_children db -> construct db lis = COk s ->
  universe_of (db_rep db) s (db_keys db) /\ s_root s = db_rep db (db_start db).
Proof. intros db lis s Hv. exact (construct_universe db Hv lis s). Qed.

(* ParallelInfo does not fail on a well-formed rule database.  db_wf is relative to the replayed order lis
   (the pruned rules up to equivalence) and is decidable; the harness evaluates db_wfb inside run_c13 AND on the
   real objects for every rule database it replays (extra check covered_by_theorem C13_construct_total). *)
Theorem C13_construct_total : forall db lis,
  db_wf db lis -> forall e, construct db lis <> CErr e.
Proof. exact construct_total. Qed.

Theorem C13_construct_ok : forall db lis,
  db_wf db lis -> only_atoms_verified db lis -> exists s, construct db lis = COk s.
Proof. exact construct_ok. Qed.

Theorem C13_db_wf_decidable : forall db lis,
  (db_wfb db lis = true <-> db_wf db lis) /\
  (only_atoms_verified_b db lis = true <-> only_atoms_verified db lis).
Proof. intros db lis. split; [apply db_wfb_iff|apply only_atoms_verified_b_iff]. Qed.

(* what run_c13 prints: (c, universe, encoded universe, w) per side; w odd = db_wfb, w = 3 = both deciders *)
Theorem C13_run_reports_coverage : forall a c u e w,
  universe_arg a = (c, u, e, w) ->
  (w = 1 \/ w = 3 -> c = 0 \/ c = 5 \/ c = 7)%Z /\ (w = 3 -> (c = 0 \/ c = 5) /\ u <> None)%Z.
Proof. exact universe_arg_covered. Qed.

(* ---------------------------------------------------------------- the specification stage *)
Theorem C13_spec_from_label_map : forall rep fpath stored (d : smap) root_eq start order fuel keys,
  (forall l t, rep l = rep t -> fpath l t <> [] /\ hd O (fpath l t) = l /\ last (fpath l t) O = t) ->
  tree_keys d root_eq fuel = Some keys ->
  rep start = root_eq ->
  (forall e, In e keys -> exists k, In k stored /\ eqv_key rep k = e) ->
  (forall d0 e2p, decompositions rep stored keys [] [] = Some (d0, e2p) ->
     forall l, In l order <-> no_lhs d0 start l = true) ->
  exists dict, extract rep fpath stored keys start order = Some dict /\
    (forall e, In e dict -> forall c, In c (snd e) -> dom dict c = true) /\
    dom dict start = true /\
    (forall e, In e dict -> In e stored \/ exists l t p c, step_of (fpath l t) p c /\ e = (p, [c])).
Proof. intros rep fpath stored d root_eq start order fuel keys Hf. exact (spec_from_label_map rep fpath Hf stored d root_eq start order fuel keys). Qed.

(* C06 -> C13 (CLAUSES G.2 row 6): the contract `fpath_ok` that C13_two_rule_sets / C13_spec_from_label_map assume
   of the path oracle HOLDS of the equivalence database: for the state `s` the model of EquivalenceDB reaches after
   ANY history over natural-number labels, db[.] and find_path (as pure functions, Spec/ExtractorEquiv.v natrep /
   natpath, through C06_path_function) satisfy it; a finder database whose representative function is db[.] of that
   state therefore meets the hypothesis, and every path step is an edge the database recorded *)
Theorem C13_path_contract_from_equivalence_database :
  forall (iter : list Z -> list Z),
  (forall l x, In x (iter l) <-> In x l) -> (forall l, (length (iter l) <= length l)%nat) ->
  forall ops s rs,
  Spec.ExtractorEquiv.nonneg_hist ops ->
  Equiv.Model.exec iter Equiv.Model.init ops = Some (s, rs) ->
  fpath_ok (Spec.ExtractorEquiv.natrep s) (Spec.ExtractorEquiv.natpath iter s) /\
  forall l t, Spec.ExtractorEquiv.natrep s l = Spec.ExtractorEquiv.natrep s t ->
    forall u v, Spec.ExtractorEquiv.consecutive (Spec.ExtractorEquiv.natpath iter s l t) u v ->
      Equiv.Hist.recorded ops (Z.of_nat u) (Z.of_nat v).
Proof.
  intros iter HI HL ops s rs N E. split.
  - intros l t R. destruct (Spec.ExtractorEquiv.extractor_path_contract iter HI HL ops s rs N E l t R) as (A & B & C & _). auto.
  - intros l t R. destruct (Spec.ExtractorEquiv.extractor_path_contract iter HI HL ops s rs N E l t R) as (_ & _ & _ & D). exact D.
Qed.

Theorem C13_two_rule_sets : forall db1 lis1 db2 lis2 s1 s2 fuel wfuel d1 d2,
  construct db1 lis1 = COk s1 -> construct db2 lis2 = COk s2 ->
  ver_no_children db1 -> ver_no_children db2 ->
  find_base s1 s2 fuel wfuel = Found d1 d2 ->
  forall fpath1 order1 tf1 keys1 fpath2 order2 tf2 keys2,
  fpath_ok (db_rep db1) fpath1 -> fpath_ok (db_rep db2) fpath2 ->
  tree_keys d1 (s_root s1) tf1 = Some keys1 -> tree_keys d2 (s_root s2) tf2 = Some keys2 ->
  order_ok (db_rep db1) (db_keys db1) keys1 (db_start db1) order1 ->
  order_ok (db_rep db2) (db_keys db2) keys2 (db_start db2) order2 ->
  rule_set_ok (db_rep db1) fpath1 (db_keys db1) keys1 (db_start db1) order1 /\
  rule_set_ok (db_rep db2) fpath2 (db_keys db2) keys2 (db_start db2) order2.
Proof. exact two_rule_sets. Qed.

Theorem C13_two_rule_sets_eqpath : forall db1 lis1 db2 lis2 s1 s2 pw fuel wfuel oracle woracle d1 d2 asked,
  construct db1 lis1 = COk s1 -> construct db2 lis2 = COk s2 ->
  ver_no_children db1 -> ver_no_children db2 ->
  find_eq s1 s2 pw fuel wfuel oracle woracle = EOut (Found d1 d2) asked ->
  forall fpath1 order1 tf1 keys1 fpath2 order2 tf2 keys2,
  fpath_ok (db_rep db1) fpath1 -> fpath_ok (db_rep db2) fpath2 ->
  tree_keys d1 (s_root s1) tf1 = Some keys1 -> tree_keys d2 (s_root s2) tf2 = Some keys2 ->
  order_ok (db_rep db1) (db_keys db1) keys1 (db_start db1) order1 ->
  order_ok (db_rep db2) (db_keys db2) keys2 (db_start db2) order2 ->
  rule_set_ok (db_rep db1) fpath1 (db_keys db1) keys1 (db_start db1) order1 /\
  rule_set_ok (db_rep db2) fpath2 (db_keys db2) keys2 (db_start db2) order2.
Proof. exact two_rule_sets_eqpath. Qed.

(* ---------------------------------------------------------------- the content of fix 8a96a0c (EqPath, pw = true) *)
(* When EqPathParallelSpecFinder.find() as it is returns two label maps, every (parent pair -> child pair)
   edge of the two maps reachable from the pair of roots along the recorded child orders
   (edge_reach: the root edge ((root1,root2), none); below an edge whose pair (a,b) carries the rules
   (c1,c2) <> ((),()), the edges (p, (a,b)) for p in zip((c1[i] for i in order), c2), order being the recorded
   matching of (c1,c2) under (a,b)) PASSED the final walk (edge_passed): both labels have their rule; either
   both are the atom entry, or _eq_path_matches answered True for the key ((a,b), parent pair, (c1,c2)) in the
   final walk (woracle: fresh cache, final maps) and (c1,c2) is a recorded matching of (a,b) with a usable
   child order.  m = the matching_info of the first search (mi_sound).
   For pw = false (before the fix) no such statement holds — C13_matched_pair_eqpath is all there is. *)
Theorem C13_eqpath_edges_checked : forall s1 s2 fuel wfuel oracle woracle d1 d2 asked,
  find_eq s1 s2 true fuel wfuel oracle woracle = EOut (Found d1 d2) asked ->
  exists st, find s1 s2 fuel (s_root s1) (s_root s2) init_fstate = Ok (true, st) /\
    mi_sound s1 s2 (f_mi st) /\
    forall e, edge_reach (f_mi st) d1 d2 (s_root s1, s_root s2) e -> edge_passed (f_mi st) d1 d2 woracle e.
Proof. exact find_eq_edges_checked. Qed.

(* the walk itself (any matching_info, any maps, any oracle table): ewalk_sound in the form used above *)
Theorem C13_ewalk_sound : forall m d1 d2 wo fuel r st',
  ewalk m fuel [(r, (0%nat, 0%nat))] [] (mkE d1 d2 [] wo [] []) = Ok (true, st') ->
  forall e, edge_reach m d1 d2 r e -> edge_passed m d1 d2 wo e.
Proof. exact ewalk_edges_checked. Qed.

(* What it adds to C13_matched_pair_eqpath.  Under the CONTRACT of the oracle (oracle_contract: an answer
   True for the key ((id1,id2), (pid1,pid2), (children1,children2)) means that the non-equivalence rules
   met inside the two equivalence classes on the way from the parents to the rules (children1, children2)
   match pairwise — paths_match, abstract: EquivalenceRuleExtractor is outside the model), what find()
   returns is a matched pair AND the equivalence paths match along every edge of the common unfolding of the
   two maps: the two specifications are isomorphic INCLUDING the rules hidden inside their equivalence
   labels, which the label-level notion matched_pair cannot see. *)
Theorem C13_matched_pair_eqpath_with_paths : forall (paths_match : qkey -> Prop)
    s1 s2 fuel wfuel oracle woracle d1 d2 asked,
  oracle_contract paths_match woracle ->
  find_eq s1 s2 true fuel wfuel oracle woracle = EOut (Found d1 d2) asked ->
  matched_pair s1 s2 d1 d2 /\
  exists m, mi_sound s1 s2 m /\
    forall a b rel, edge_reach m d1 d2 (s_root s1, s_root s2) ((a, b), rel) ->
      exists c1 c2, sm_get d1 a = Some c1 /\ sm_get d2 b = Some c2 /\
        ((c1 = [] /\ c2 = []) \/ paths_match ((a, b), rel, (c1, c2))).
Proof. exact find_eq_matched_with_paths. Qed.

(* ---------------------------------------------------------------- the fuel of the compared runs *)
(* totality of the EqPath variant with a walk bound LINEAR in the number of pairs (the bound of
   C13_eqpath_finder_total is quadratic: all_edges) *)
Theorem C13_eqpath_finder_total_tight : forall s1 s2 pw fuel wfuel oracle woracle,
  (forall k, oracle k <> None) -> (forall k, woracle k <> None) ->
  (2 * length (all_pairs s1 s2) < fuel)%nat ->
  (length (all_pairs s1 s2) * S (max_arity s2) + 1 < wfuel)%nat ->
  (S (length (all_pairs s1 s2) * max_arity s2) * S (max_arity s2) + 1 < wfuel)%nat ->
  exists asked, find_eq s1 s2 pw fuel wfuel oracle woracle = EOut Nothing asked \/
                exists d1 d2, find_eq s1 s2 pw fuel wfuel oracle woracle = EOut (Found d1 d2) asked.
Proof. exact find_eq_total_tight. Qed.

(* run_c13 (Parallel/Run.v) calls find_base / find_eq with fuel = harness_fuel sent s1 s2 =
   max(sent, run_fuel s1 s2) and wfuel = run_wfuel s1 s2, computed from the two universes, and tree_keys with
   S (size_of d): none of them can answer "out of fuel" (status 2), whatever the harness sends.  EqPath: for
   oracles that answer every question (a question without a replayed answer is Failed E_ORACLE = status 19). *)
Theorem C13_harness_never_out_of_fuel : forall s1 s2 sent,
  find_base s1 s2 (harness_fuel sent s1 s2) (run_wfuel s1 s2) <> NoFuel /\
  (forall pw oracle woracle asked, (forall k, oracle k <> None) -> (forall k, woracle k <> None) ->
     find_eq s1 s2 pw (harness_fuel sent s1 s2) (run_wfuel s1 s2) oracle woracle <> EOut NoFuel asked) /\
  (forall d root, tree_keys d root (S (size_of d)) <> None).
Proof. exact harness_never_out_of_fuel. Qed.

(* ---------------------------------------------------------------- HISTORY: the code before 97589e3 *)
Theorem C13_matched_pair_refuted :
  exists s1 s2 fuel d1 d2, find_base_old s1 s2 fuel = Found d1 d2 /\ ~ matched_pair s1 s2 d1 d2.
Proof. exact base_returns_unmatched_pair. Qed.

Theorem C13_eqpath_raises_refuted :
  exists s1 s2 fuel oracle, find_eq_old s1 s2 fuel oracle = EOut (Failed E_KEY) [].
Proof. exact eqpath_raises_keyerror. Qed.

(* the names under which four of the theorems above were first stated (for the code with the then
   proposed repair), kept for the documents that refer to them *)
Definition C13_matched_pair_with_repair := C13_matched_pair.
Definition C13_matched_pair_with_repair_eqpath := C13_matched_pair_eqpath.
Definition C13_repaired_base_finder_total := C13_base_finder_total.
Definition C13_two_rule_sets_with_repair := C13_two_rule_sets.

(* ---------------------------------------------------------------- examples: hypotheses are satisfiable *)
(* a pair of universes with recursion, a binary rule with repeated children and a permuted match:
   the finder returns a pair, and with the repair the same pair (so the theorems above are not vacuous) *)
Definition ex1 : side :=
  mkSide 2%nat [(0%nat, 1%Z)]
    [(0, [([], (-1)%Z)]); (1, [([0; 2], 1%Z)]); (2, [([0; 1], 0%Z); ([0; 0], 0%Z)])]%nat.
Definition ex2 : side :=
  mkSide 5%nat [(7%nat, 1%Z)]
    [(7, [([], (-1)%Z)]); (5, [([6; 7], 0%Z); ([7; 7], 0%Z)]); (6, [([5; 7], 1%Z)])]%nat.

Example C13_nonvacuous :
  find_base_old ex1 ex2 101%nat = Found [(2, [0; 1]); (1, [0; 2]); (0, [])]%nat [(5, [6; 7]); (6, [5; 7]); (7, [])]%nat /\
  find_base ex1 ex2 101%nat 400%nat = find_base_old ex1 ex2 101%nat.
Proof. split; vm_compute; reflexivity. Qed.

(* the hypothesis of C13_failure_memo_sound is satisfiable: the two roots of ex1/ex2 are matchable
   (and the first search indeed answers True, see C13_nonvacuous) *)
Example C13_matchable_example : matchable ex1 ex2 (2, 5)%nat.
Proof.
  exists (fun p => p = (2, 5)%nat \/ p = (1, 6)%nat \/ p = (0, 7)%nat). split; [|left; reflexivity].
  intros a b [H|[H|H]]; inversion H; subst.
  - right. exists [0; 1]%nat, [6; 7]%nat, [1; 0]%nat.
    split; [vm_compute; auto|]. split; [discriminate|]. split; [reflexivity|].
    split; [repeat constructor; simpl; intuition discriminate|].
    split; [simpl; intros i2 [<-|[<-|[]]]; auto|].
    intros [|[|i1]] i2 Hn; simpl in Hn; inversion Hn; subst; simpl; auto. destruct i1; discriminate.
  - right. exists [0; 2]%nat, [5; 7]%nat, [1; 0]%nat.
    split; [vm_compute; auto|]. split; [discriminate|]. split; [reflexivity|].
    split; [repeat constructor; simpl; intuition discriminate|].
    split; [simpl; intros i2 [<-|[<-|[]]]; auto|].
    intros [|[|i1]] i2 Hn; simpl in Hn; inversion Hn; subst; simpl; auto. destruct i1; discriminate.
  - left. vm_compute. reflexivity.
Qed.

(* ---------------------------------------------------------------- APPLIED examples
   Every theorem above that has hypotheses, applied to a concrete non-trivial instance with ALL its
   hypotheses discharged: the universes ex1 / ex2 (recursion, repeated children, a permuted match;
   length (all_pairs ex1 ex2) = 100, so fuel 101 / 201 and walk fuel 400 / 30302 meet the bounds of the
   totality theorems), an oracle that answers every question, and for the end-to-end theorems two small
   rule databases (ex_db: start label 5 with representative 0, an empty class skipped; ex_db2) from which
   InfoModel builds both universes. *)
Definition exd1 : smap := [(2, [0; 1]); (1, [0; 2]); (0, [])]%nat.
Definition exd2 : smap := [(5, [6; 7]); (6, [5; 7]); (7, [])]%nat.
Definition ex_wfuel : nat := (101 * 300 + 2)%nat.

Example C13_matched_pair_applied : matched_pair ex1 ex2 exd1 exd2.
Proof. apply (C13_matched_pair ex1 ex2 101%nat 400%nat). vm_compute. reflexivity. Qed.

Example C13_matched_pair_eqpath_applied : matched_pair ex1 ex2 exd1 exd2.
Proof.
  eapply (C13_matched_pair_eqpath ex1 ex2 true 201%nat ex_wfuel all_true all_true). vm_compute. reflexivity.
Qed.

Example C13_base_finder_total_applied :
  find_base ex1 ex2 101%nat 400%nat = Nothing \/ exists d1 d2, find_base ex1 ex2 101%nat 400%nat = Found d1 d2.
Proof. apply C13_base_finder_total; apply Nat.ltb_lt; vm_compute; reflexivity. Qed.

Example C13_eqpath_finder_never_raises_applied :
  find_eq ex1 ex2 true 201%nat ex_wfuel all_true all_true <> EOut (Failed E_KEY) [].
Proof. apply C13_eqpath_finder_never_raises; intros k; discriminate. Qed.

Example C13_eqpath_finder_total_applied :
  exists asked, find_eq ex1 ex2 true 201%nat ex_wfuel all_true all_true = EOut Nothing asked \/
                exists d1 d2, find_eq ex1 ex2 true 201%nat ex_wfuel all_true all_true = EOut (Found d1 d2) asked.
Proof.
  apply C13_eqpath_finder_total; try (intros k; discriminate); apply Nat.ltb_lt; vm_compute; reflexivity.
Qed.

Definition ex_first : bool * fstate :=
  match find ex1 ex2 201%nat 2%nat 5%nat init_fstate with Ok r => r | _ => (false, init_fstate) end.
Definition ex_asked : list qkey :=
  match find_eq ex1 ex2 true 201%nat ex_wfuel all_true all_true with EOut _ a => a end.

Example C13_eqpath_edges_checked_applied :
  exists st, find ex1 ex2 201%nat 2%nat 5%nat init_fstate = Ok (true, st) /\
    mi_sound ex1 ex2 (f_mi st) /\
    forall e, edge_reach (f_mi st) exd1 exd2 (2, 5)%nat e -> edge_passed (f_mi st) exd1 exd2 all_true e.
Proof.
  apply (C13_eqpath_edges_checked ex1 ex2 201%nat ex_wfuel all_true all_true exd1 exd2 ex_asked).
  vm_compute. reflexivity.
Qed.

(* the hypothesis edge_reach is inhabited beyond the root: the edge into the pair (1,6) below the roots *)
Example C13_edge_reach_example :
  edge_reach (f_mi (snd ex_first)) exd1 exd2 (2, 5)%nat ((1, 6), (3, 6))%nat.
Proof.
  eapply er_step; [apply er_root|].
  exists [0; 1]%nat, [6; 7]%nat. vm_compute. eexists _, _, _.
  repeat split; try reflexivity; try discriminate. left. reflexivity.
Qed.

Example C13_harness_never_out_of_fuel_applied :
  find_base ex1 ex2 (harness_fuel 0 ex1 ex2) (run_wfuel ex1 ex2) = Found exd1 exd2.
Proof. vm_compute. reflexivity. Qed.

Example C13_eqpath_finder_total_tight_applied :
  exists asked, find_eq ex1 ex2 true (run_fuel ex1 ex2) (run_wfuel ex1 ex2) all_true all_true = EOut Nothing asked \/
                exists d1 d2, find_eq ex1 ex2 true (run_fuel ex1 ex2) (run_wfuel ex1 ex2) all_true all_true = EOut (Found d1 d2) asked.
Proof.
  apply C13_eqpath_finder_total_tight; try (intros k; discriminate); apply Nat.ltb_lt; vm_compute; reflexivity.
Qed.

Example C13_first_search_sound_applied :
  exists b st, find ex1 ex2 101%nat 2%nat 5%nat init_fstate = Ok (b, st) /\
    forall id1 id2 d c order, mi_get (f_mi st) (id1, id2) = Some d -> In (c, order) d ->
      (c = ([], []) /\ order = [] /\ atoms_match ex1 ex2 id1 id2 = true)
      \/ (In c (potential_children ex1 ex2 id1 id2) /\ fst c <> [] /\ perm_ok (length (fst c)) order).
Proof.
  eexists _, _. split; [vm_compute; reflexivity|].
  apply (C13_first_search_sound ex1 ex2 101%nat true). vm_compute. reflexivity.
Qed.

Example C13_failure_memo_sound_applied :
  exists b st, find ex1 ex2 101%nat 2%nat 5%nat init_fstate = Ok (b, st) /\
    (forall p, In p (f_visited st) -> mi_mem (f_mi st) p = false -> ~ matchable ex1 ex2 p) /\
    (matchable ex1 ex2 (2, 5)%nat -> b = true).
Proof.
  eexists _, _. split; [vm_compute; reflexivity|].
  apply (C13_failure_memo_sound ex1 ex2 101%nat). vm_compute. reflexivity.
Qed.

Example C13_maps_use_rules_applied :
  (forall l c, In (l, c) exd1 -> (c = [] /\ atom_of ex1 l <> None) \/ exists k, In (c, k) (rules_of ex1 l)) /\
  (forall l c, In (l, c) exd2 -> (c = [] /\ atom_of ex2 l <> None) \/ exists k, In (c, k) (rules_of ex2 l)).
Proof. apply (C13_maps_use_rules ex1 ex2 101%nat 400%nat). vm_compute. reflexivity. Qed.

(* the a34d719 situation: start label 5 is not its own representative (rep 5 = 0 = root equivalence
   label); stored rules 0 -> (1, 2) and 1 -> (); label 2 is equivalent to 1.  Label map {0: (1,1), 1: ()}. *)
Definition ex_rep := fun l : nat => match l with 5 => 0 | 2 => 1 | _ => l end%nat.
Definition ex_fpath := fun l t : nat => if Nat.eqb l t then [l] else [l; t].

Example C13_start_not_representative :
  tree_keys [(0, [1; 1]); (1, [])]%nat 0%nat 10%nat = Some [(0, [1; 1]); (1, [])]%nat /\
  extract ex_rep ex_fpath [(0, [1; 2]); (1, [])]%nat [(0, [1; 1]); (1, [])]%nat 5%nat [5; 2]%nat
    = Some [(0, [1; 2]); (1, []); (5, [0]); (2, [1])]%nat.
Proof. split; vm_compute; reflexivity. Qed.

(* the hypotheses of C13_two_rule_sets_with_repair about one side are satisfiable, in the same situation *)
Definition ex_side : side := mkSide 0%nat [(1%nat, 1%Z)] [(0, [([1; 1], 0%Z)]); (1, [([], (-1)%Z)])]%nat.
Example C13_two_rule_sets_hypotheses :
  universe_of ex_rep ex_side [(0, [1; 2]); (1, [])]%nat /\
  ex_rep 5%nat = s_root ex_side /\
  order_ok ex_rep [(0, [1; 2]); (1, [])]%nat [(0, [1; 1]); (1, [])]%nat 5%nat [5; 2]%nat.
Proof.
  split; [|split; [reflexivity|]].
  - split.
    + intros l c k H. unfold rules_of, ex_side in H. simpl in H.
      destruct l as [|[|l]]; simpl in H.
      * destruct H as [E|[]]. inversion E; subst. exists (0, [1; 2])%nat. split; [left; reflexivity|vm_compute; reflexivity].
      * destruct H as [E|[]]. inversion E; subst. exists (1, [])%nat. split; [right; left; reflexivity|vm_compute; reflexivity].
      * destruct H.
    + intros l H. unfold atom_of, ex_side in H. simpl in H.
      destruct l as [|[|l]]; simpl in H; try congruence.
      exists (1, [])%nat. split; [right; left; reflexivity|vm_compute; reflexivity].
  - intros d0 e2p H. vm_compute in H. inversion H; subst. intros l.
    destruct l as [|[|[|[|[|[|l]]]]]]; vm_compute; intuition congruence.
Qed.

(* ParallelInfo on a small rule database: start label 5 (representative 0), label 2 equivalent to 1, label 1
   an atom, label 4 an EMPTY class with its EmptyStrategy rule (skipped since a172a92); the replayed order
   is the set of pruned rules; the universe built is ex_side *)
Definition ex_db : rdb :=
  mkDB 5%nat [0; 1; 1; 3; 4; 0]%nat
       [(false, None); (false, Some 1%Z); (false, None); (false, None); (true, None); (false, None)]
       [((0, [1; 2])%nat, 0%Z); ((1, [])%nat, (-1)%Z); ((4, [])%nat, (-1)%Z)].
Definition ex_lis : list rkey := [(0, [1; 1]); (1, []); (4, [])]%nat.
Example C13_construct_example :
  construct ex_db ex_lis = COk ex_side /\ lis_agrees ex_db ex_lis = true /\ ver_no_children ex_db.
Proof.
  split; [vm_compute; reflexivity|]. split; [vm_compute; reflexivity|].
  intros key z [H|[H|[H|[]]]] Hz; inversion H; subst; try reflexivity. discriminate.
Qed.

(* C13_construct_total applied: ex_db is well formed for ex_lis (decided by db_wfb), so no error state; it also
   has only atoms verified EXCEPT the empty class 4 (skipped), so the universe is built *)
Example C13_construct_total_applied :
  db_wf ex_db ex_lis /\ (forall e, construct ex_db ex_lis <> CErr e) /\ exists s, construct ex_db ex_lis = COk s.
Proof.
  assert (H : db_wf ex_db ex_lis) by (apply db_wfb_iff; vm_compute; reflexivity).
  split; [exact H|]. split; [exact (C13_construct_total ex_db ex_lis H)|].
  apply C13_construct_ok; [exact H|]. apply only_atoms_verified_b_iff. vm_compute. reflexivity.
Qed.

(* near misses: each violates exactly one clause of db_wf and construct answers CErr.
   _key: the entry (3, []) of lis has no stored preimage (KeyError in _get_class_and_rule);
   _atom: the stored rule of the atom 1 is a `Rule` (kind 0): get_terms raises RuntimeError;
   _children: the non-empty non-atom class 3 carries a `Rule` without children: the assert fails — the shape of
   the failure a172a92 repaired (there the parent was an EMPTY start class, now skipped: ex_db's label 4) *)
Definition ex_db_atom_rule : rdb :=
  mkDB 5%nat [0; 1; 1; 3; 4; 0]%nat
       [(false, None); (false, Some 1%Z); (false, None); (false, None); (true, None); (false, None)]
       [((0, [1; 2])%nat, 0%Z); ((1, [])%nat, 0%Z); ((4, [])%nat, (-1)%Z)].
Definition ex_db_no_children : rdb :=
  mkDB 5%nat [0; 1; 1; 3; 4; 0]%nat
       [(false, None); (false, Some 1%Z); (false, None); (false, None); (true, None); (false, None)]
       [((0, [1; 2])%nat, 0%Z); ((1, [])%nat, (-1)%Z); ((3, [])%nat, 0%Z)].
Example C13_construct_near_miss_key :
  construct ex_db (ex_lis ++ [(3, [])%nat]) = CErr E_KEY /\ db_wfb ex_db (ex_lis ++ [(3, [])%nat]) = false /\
  ~ has_preimage ex_db (3, [])%nat /\
  (forall key, used_key ex_db (ex_lis ++ [(3, [])%nat]) key -> key_wfb ex_db key = true).
Proof.
  split; [vm_compute; reflexivity|]. split; [vm_compute; reflexivity|]. split.
  - intros H. apply has_preimage_b_iff in H. vm_compute in H. discriminate.
  - intros key [[H|[H|[H|[]]]] _]; subst; vm_compute; reflexivity.
Qed.
Example C13_construct_near_miss_atom :
  construct ex_db_atom_rule ex_lis = CErr E_RUNTIME /\ db_wfb ex_db_atom_rule ex_lis = false /\
  (forall e, In e ex_lis -> has_preimage ex_db_atom_rule e).
Proof.
  split; [vm_compute; reflexivity|]. split; [vm_compute; reflexivity|].
  intros e [H|[H|[H|[]]]]; subst; apply has_preimage_b_iff; vm_compute; reflexivity.
Qed.
Example C13_construct_near_miss_children :
  construct ex_db_no_children [(0, [1; 1]); (1, []); (3, [])]%nat = CErr E_ASSERT /\
  db_wfb ex_db_no_children [(0, [1; 1]); (1, []); (3, [])]%nat = false /\
  (forall e, In e [(0, [1; 1]); (1, []); (3, [])]%nat -> has_preimage ex_db_no_children e).
Proof.
  split; [vm_compute; reflexivity|]. split; [vm_compute; reflexivity|].
  intros e [H|[H|[H|[]]]]; subst; apply has_preimage_b_iff; vm_compute; reflexivity.
Qed.
(* the refusal is not an error state: a verified non-atom (label 3, verification rule) gives CRefused under db_wf,
   and only_atoms_verified is what excludes it *)
Definition ex_db_verified_nonatom : rdb :=
  mkDB 5%nat [0; 1; 1; 3; 4; 0]%nat
       [(false, None); (false, Some 1%Z); (false, None); (false, None); (true, None); (false, None)]
       [((0, [1; 2])%nat, 0%Z); ((1, [])%nat, (-1)%Z); ((3, [])%nat, (-1)%Z)].
Example C13_construct_refusal_is_not_an_error :
  db_wfb ex_db_verified_nonatom [(0, [1; 1]); (1, []); (3, [])]%nat = true /\
  only_atoms_verified_b ex_db_verified_nonatom [(0, [1; 1]); (1, []); (3, [])]%nat = false /\
  construct ex_db_verified_nonatom [(0, [1; 1]); (1, []); (3, [])]%nat = CRefused.
Proof. repeat split; vm_compute; reflexivity. Qed.

(* an oracle that answers every question *)
Example C13_total_oracle : forall k : qkey, (fun _ : qkey => Some true) k <> None.
Proof. intros k. discriminate. Qed.

(* the rule databases: ParallelInfo's universe, the specification stage, and the two end-to-end theorems *)
Example C13_universe_well_formed_applied :
  universe_of (db_rep ex_db) ex_side (db_keys ex_db) /\ s_root ex_side = db_rep ex_db (db_start ex_db).
Proof.
  destruct C13_construct_example as [Hc [_ Hv]]. exact (C13_universe_well_formed ex_db ex_lis ex_side Hv Hc).
Qed.

Lemma ex_db_order : order_ok (db_rep ex_db) (db_keys ex_db) [(0, [1; 1]); (1, [])]%nat 5%nat [5; 2]%nat.
Proof.
  intros d0 e2p H. vm_compute in H. inversion H; subst. intros l.
  destruct l as [|[|[|[|[|[|l]]]]]]; vm_compute; intuition congruence.
Qed.

Example C13_spec_from_label_map_applied :
  exists dict, extract ex_rep ex_fpath [(0, [1; 2]); (1, [])]%nat [(0, [1; 1]); (1, [])]%nat 5%nat [5; 2]%nat = Some dict /\
    (forall e, In e dict -> forall c, In c (snd e) -> dom dict c = true) /\
    dom dict 5%nat = true /\
    (forall e, In e dict -> In e [(0, [1; 2]); (1, [])]%nat \/
       exists l t p c, step_of (ex_fpath l t) p c /\ e = (p, [c])).
Proof.
  apply (C13_spec_from_label_map ex_rep ex_fpath [(0, [1; 2]); (1, [])]%nat [(0, [1; 1]); (1, [])]%nat 0%nat 5%nat
           [5; 2]%nat 10%nat).
  - exact (path2_contract ex_rep).
  - vm_compute. reflexivity.
  - reflexivity.
  - intros e [<-|[<-|[]]].
    + exists (0, [1; 2])%nat. split; [left; reflexivity|vm_compute; reflexivity].
    + exists (1, [])%nat. split; [right; left; reflexivity|vm_compute; reflexivity].
  - intros d0 e2p H. vm_compute in H. inversion H; subst. intros l.
    destruct l as [|[|[|[|[|[|l]]]]]]; vm_compute; intuition congruence.
Qed.

Example C13_two_rule_sets_applied :
  rule_set_ok (db_rep ex_db) path2 (db_keys ex_db) [(0, [1; 1]); (1, [])]%nat 5%nat [5; 2]%nat /\
  rule_set_ok (db_rep ex_db2) path2 (db_keys ex_db2) [(3, [7; 7]); (7, [])]%nat 3%nat [].
Proof.
  destruct C13_construct_example as [Hc1 [_ Hv1]]. destruct ex_db2_construct as [Hc2 _].
  apply (C13_two_rule_sets ex_db ex_lis ex_db2 ex_lis2 ex_side ex_side2 26%nat 100%nat
           [(0, [1; 1]); (1, [])]%nat [(3, [7; 7]); (7, [])]%nat Hc1 Hc2 Hv1 ex_db2_ver)
    with (tf1 := 10%nat) (tf2 := 10%nat).
  - vm_compute. reflexivity.
  - apply path2_ok.
  - apply path2_ok.
  - vm_compute. reflexivity.
  - vm_compute. reflexivity.
  - exact ex_db_order.
  - exact ex_db2_order.
Qed.

Example C13_two_rule_sets_eqpath_applied :
  rule_set_ok (db_rep ex_db) path2 (db_keys ex_db) [(0, [1; 1]); (1, [])]%nat 5%nat [5; 2]%nat /\
  rule_set_ok (db_rep ex_db2) path2 (db_keys ex_db2) [(3, [7; 7]); (7, [])]%nat 3%nat [].
Proof.
  destruct C13_construct_example as [Hc1 [_ Hv1]]. destruct ex_db2_construct as [Hc2 _].
  eapply (C13_two_rule_sets_eqpath ex_db ex_lis ex_db2 ex_lis2 ex_side ex_side2 true 51%nat 2000%nat all_true all_true
            [(0, [1; 1]); (1, [])]%nat [(3, [7; 7]); (7, [])]%nat _ Hc1 Hc2 Hv1 ex_db2_ver)
    with (tf1 := 10%nat) (tf2 := 10%nat).
  - vm_compute. reflexivity.
  - apply path2_ok.
  - apply path2_ok.
  - vm_compute. reflexivity.
  - vm_compute. reflexivity.
  - exact ex_db_order.
  - exact ex_db2_order.
Qed.

(* what _create_spec did before a34d719: the root EQUIVALENCE label 0 in place of the start label 5 —
   the dictionary has no entry for the start label (the real extractor then fails in the
   specification with "rule not in the spec and not empty") *)
Example C13_root_label_instead_of_start :
  exists dict, extract ex_rep ex_fpath [(0, [1; 2]); (1, [])]%nat [(0, [1; 1]); (1, [])]%nat 0%nat [2]%nat = Some dict /\
    dom dict 5%nat = false.
Proof. eexists. split; vm_compute; reflexivity. Qed.

(* ---------------------------------------------------------------- bridge to the constructor (C02) *)
Import Spec.Grouping Spec.GroupingWf Parallel.CtorReach Parallel.CtorBridge.

(* every class of the extractor's rule set is reachable from the start class *)
Theorem C13_rule_set_reachable : forall rep fpath stored tree start order dict,
  (forall l t, rep l = rep t -> fpath l t <> [] /\ hd O (fpath l t) = l /\ last (fpath l t) O = t) ->
  (forall l t, rep l = rep t -> forall x, In x (fpath l t) -> rep x = rep l) ->
  (forall l t, rep l = rep t -> NoDup (fpath l t)) ->
  (forall l c c', In (l, c) tree -> In (l, c') tree -> c = c') ->
  (forall e, In e tree -> treach tree (rep start) (fst e)) ->
  (forall d0 e2p, decompositions rep stored tree [] [] = Some (d0, e2p) ->
     forall l, In l order -> no_lhs d0 start l = true) ->
  extract rep fpath stored tree start order = Some dict ->
  (forall e, In e dict -> forall c, In c (snd e) -> dom dict c = true) ->
  dom dict start = true ->
  forall p cs, In (p, cs) dict -> kreach dict start p.
Proof. exact extract_reachable. Qed.

Theorem C13_rule_set_ctor_bridge_partial : forall rep fpath stored keys start order,
  rule_set_ok rep fpath stored keys start order ->
  exists dict, extract rep fpath stored keys start order = Some dict /\
    forall is_empty ch eqv sh tag,
      ruledata_ok is_empty ch eqv dict ->
      chains start (to_gdict ch eqv sh tag dict) -> reachable start (to_gdict ch eqv sh tag dict) ->
      ungroup (rules_dict (to_rules ch eqv sh tag dict)) = to_gdict ch eqv sh tag dict /\
      wf_input is_empty start (to_gdict ch eqv sh tag dict) /\
      (forall e, spec_init is_empty start (to_rules ch eqv sh tag dict) true <> XErr e).
Proof. exact rule_set_ctor_bridge_partial. Qed.

Theorem C13_label_map_meets_constructor_contract : forall rep fpath,
  (forall l t, rep l = rep t -> fpath l t <> [] /\ hd O (fpath l t) = l /\ last (fpath l t) O = t) ->
  (forall l t, rep l = rep t -> forall x, In x (fpath l t) -> rep x = rep l) ->
  (forall l t, rep l = rep t -> NoDup (fpath l t)) ->
  forall stored (d : smap) root_eq start order fuel keys,
  tree_keys d root_eq fuel = Some keys ->
  rep start = root_eq ->
  (forall e, In e keys -> exists k, In k stored /\ eqv_key rep k = e) ->
  (forall d0 e2p, decompositions rep stored keys [] [] = Some (d0, e2p) ->
     forall l, In l order <-> no_lhs d0 start l = true) ->
  exists dict, extract rep fpath stored keys start order = Some dict /\
    forall is_empty ch eqv sh tag,
      ruledata_ok is_empty ch eqv dict ->
      chains start (to_gdict ch eqv sh tag dict) ->
      reachable start (to_gdict ch eqv sh tag dict) /\
      wf_input is_empty start (ungroup (rules_dict (to_rules ch eqv sh tag dict))) /\
      (forall e, spec_init is_empty start (to_rules ch eqv sh tag dict) true <> XErr e).
Proof. exact label_map_meets_constructor_contract. Qed.

(* applied: the label map exd1-like example of C13_start_not_representative: start label 5 (representative 0),
   label 2 equivalent to the atom 1; rule data: children = the key's, no rule is an equivalence except the path
   steps (unary) *)
Definition ex_eqv (e : rkey) : bool := match snd e with [c] => Nat.eqb (ex_rep (fst e)) (ex_rep c) | _ => false end.
Example C13_label_map_meets_constructor_contract_applied :
  exists dict, extract ex_rep ex_fpath [(0, [1; 2]); (1, [])]%nat [(0, [1; 1]); (1, [])]%nat 5%nat [5; 2]%nat = Some dict /\
    wf_input (fun _ => false) 5%nat
      (ungroup (rules_dict (to_rules (@snd nat (list nat)) ex_eqv (fun _ => []) (fun _ => 0%Z) dict))) /\
    (forall e, spec_init (fun _ => false) 5%nat
                 (to_rules (@snd nat (list nat)) ex_eqv (fun _ => []) (fun _ => 0%Z) dict) true <> XErr e).
Proof.
  eexists. split; [vm_compute; reflexivity|].
  match goal with |- ?A /\ _ => assert (W : A) by (apply wf_inputb_sound; vm_compute; reflexivity) end.
  split; [exact W|]. exact (proj1 (Spec.GroupingInit.spec_init_ok _ _ _ W)).
Qed.

(* covers C13_path_contract_from_equivalence_database: the history 0 - 5 (two-way), 1 -> 2 -> 1 (one-way cycle),
   connect_cycles; the path from 2 to 1 is [2; 1] along the recorded edge 2 -> 1 *)
Definition pc_ops : list Equiv.Model.op :=
  [Equiv.Model.TwoWay 0 5; Equiv.Model.OneWay 1 2; Equiv.Model.OneWay 2 1; Equiv.Model.Connect]%Z.
Definition pc_db : Equiv.Model.db := Eval vm_compute in
  match Equiv.Model.exec Equiv.Model.isort Equiv.Model.init pc_ops with Some (s, _) => s | None => Equiv.Model.init end.
Definition pc_rs : list Equiv.Model.res := Eval vm_compute in
  match Equiv.Model.exec Equiv.Model.isort Equiv.Model.init pc_ops with Some (_, rs) => rs | None => [] end.
Example C13_path_contract_from_equivalence_database_nonvacuous :
  fpath_ok (Spec.ExtractorEquiv.natrep pc_db) (Spec.ExtractorEquiv.natpath Equiv.Model.isort pc_db) /\
  Spec.ExtractorEquiv.natpath Equiv.Model.isort pc_db 2 1 = [2; 1]%nat /\
  Spec.ExtractorEquiv.natrep pc_db 2 = Spec.ExtractorEquiv.natrep pc_db 1.
Proof.
  split; [|split; vm_compute; reflexivity].
  apply (C13_path_contract_from_equivalence_database Equiv.Model.isort Equiv.Hist.isort_In Equiv.Total.isort_len
           pc_ops pc_db pc_rs).
  - intros o x Ho Hx. unfold pc_ops in Ho. simpl in Ho.
    repeat (destruct Ho as [<-|Ho]; [simpl in Hx; intuition (subst; discriminate || (apply Z.leb_le; reflexivity))|]).
    destruct Ho.
  - vm_compute. reflexivity.
Qed.

Print Assumptions C13_matched_pair.
Print Assumptions C13_rule_set_reachable.
Print Assumptions C13_rule_set_ctor_bridge_partial.
Print Assumptions C13_label_map_meets_constructor_contract.
Print Assumptions C13_matched_pair_eqpath.
Print Assumptions C13_base_finder_never_raises.
Print Assumptions C13_base_finder_total.
Print Assumptions C13_eqpath_finder_never_raises.
Print Assumptions C13_eqpath_finder_total.
Print Assumptions C13_first_search_sound.
Print Assumptions C13_failure_memo_sound.
Print Assumptions C13_maps_use_rules.
Print Assumptions C13_universe_well_formed.
Print Assumptions C13_construct_total.
Print Assumptions C13_construct_ok.
Print Assumptions C13_db_wf_decidable.
Print Assumptions C13_run_reports_coverage.
Print Assumptions C13_spec_from_label_map.
Print Assumptions C13_two_rule_sets.
Print Assumptions C13_two_rule_sets_eqpath.
Print Assumptions C13_eqpath_edges_checked.
Print Assumptions C13_ewalk_sound.
Print Assumptions C13_matched_pair_eqpath_with_paths.
Print Assumptions C13_eqpath_finder_total_tight.
Print Assumptions C13_harness_never_out_of_fuel.
Print Assumptions C13_matched_pair_refuted.
Print Assumptions C13_eqpath_raises_refuted.
Print Assumptions C13_path_contract_from_equivalence_database.
