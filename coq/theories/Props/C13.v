(* C13 — the parallel specification finder is total and its output is a matched pair.
   Statements only; the model is Parallel/Model.v (bijection.py as it is, plus the two functions of the
   proposed repair), tied to the code by the correspondence of harness/props/c13.py.

   THE PROPERTY IS FALSE OF THE CODE AS IT IS, and the model shows it:
   * C13_matched_pair_refuted   ParallelSpecFinder: two universes for which find() returns two label
                                maps that are NOT a matched pair (the second search accepts a pair of
                                labels that both already have a rule without matching the two rules).
   * C13_eqpath_raises_refuted  EqPathParallelSpecFinder on the same input: KeyError.
   Both witnesses are replayed on real searchers by findings/second_search_shortcut.py (known finding).
   A third defect lies before the modelled part (ParallelInfo asserts on an empty start class).

   WHAT HOLDS of the code as it is (all universes, all fuel):
   * C13_first_search_sound     every entry the first search records in matching_info is a pair of
                                candidate rules of the two labels (same number of children, matching
                                constructor classes) with a genuine permutation of the child
                                positions, or the atom entry of two atoms with the same identity;
   * C13_failure_memo_sound     the failure memo of the first search is sound: a pair recorded as failed
                                (in `visited`, not in matching_info) is not matchable in the largest
                                relation "atoms with the same identity, or two candidate rules with an
                                injective assignment of children that are again related" — whatever
                                ancestor assumptions were pending when it was recorded; equivalently the
                                first search answers True whenever the two roots are matchable;
   * C13_base_finder_total      ParallelSpecFinder's find() is TOTAL at the model level: with fuel above the
                                number of pairs of labels occurring in the two universes it answers
                                None or two label maps — it reaches no exception state (KeyError /
                                IndexError: C13_base_finder_never_raises, for every fuel) and both
                                searches terminate (the pairs on the recursion stacks are distinct);
   * C13_maps_use_rules         every binding of the two returned label maps is a rule of its universe
                                (the empty tuple for an atom);
   * C13_spec_from_label_map    the specification-construction stage: if the tuples of a label map
                                reachable from the root equivalence label are stored rules up to
                                equivalence, SpecificationRuleExtractor invoked with the START label
                                does not fail and yields a closed rules dictionary with a rule for the
                                start label (C02's theorem) — also when the start label is not its own
                                representative (Example C13_start_not_representative; with the root
                                equivalence label instead, as before a34d719, the start label gets no
                                rule: Example C13_root_label_instead_of_start).

   WHAT HOLDS with the proposed repair (findings/second_search_shortcut.diff; the model has both forms
   and the check follows the one the repository has):
   * C13_matched_pair_with_repair / C13_matched_pair_with_repair_eqpath   whatever find() returns is a
                                matched pair: both maps closed from their roots, made of rules of their
                                universes, and isomorphic through a relation that respects constructor
                                classes, atoms and a permutation of the children at every node;
   * C13_repaired_base_finder_total   the repaired ParallelSpecFinder.find() is total as well;
   * C13_two_rule_sets_with_repair    end to end: when the repaired find() returns, the specification stage
                                of EACH side (tree of its label map + the extractor invoked with its start
                                label) does not fail and yields a closed rules dictionary with a rule for
                                that side's start label — given that the universe handed to the finder is
                                read off the rule database (every rule and every atom of the universe is a
                                stored rule up to equivalence) and the start label's representative is the
                                root equivalence label.
   Not proved: exception-freedom and termination of the second search of the EqPath variant (its
   _eq_path_matches runs EquivalenceRuleExtractor over the rule database, outside the model: its
   answers are an arbitrary oracle table here); completeness of the second search ("finds a pair
   whenever one exists" is not part of the property). *)
From Coq Require Import ZArith List Bool.
From CSS Require Import Base.Sx Spec.Extractor Spec.ExtractorProofs
  Parallel.Model Parallel.Basics Parallel.First Parallel.Second Parallel.Matched Parallel.Fixed
  Parallel.Refuted Parallel.SpecStage Parallel.Memo Parallel.Term Parallel.Term2 Parallel.Term3 Parallel.EndToEnd Parallel.Run.
Import ListNotations.

(* ---------------------------------------------------------------- refuted on the code as it is *)
Theorem C13_matched_pair_refuted :
  exists s1 s2 fuel d1 d2, find_base s1 s2 fuel = Found d1 d2 /\ ~ matched_pair s1 s2 d1 d2.
Proof. exact base_returns_unmatched_pair. Qed.

Theorem C13_eqpath_raises_refuted :
  exists s1 s2 fuel oracle, find_eq s1 s2 fuel oracle = EOut (Failed E_KEY) [].
Proof. exact eqpath_raises_keyerror. Qed.

(* ---------------------------------------------------------------- holds of the code as it is *)
Theorem C13_first_search_sound : forall s1 s2 fuel b st,
  find s1 s2 fuel (s_root s1) (s_root s2) init_fstate = Ok (b, st) ->
  forall id1 id2 d c order, mi_get (f_mi st) (id1, id2) = Some d -> In (c, order) d ->
    (c = ([], []) /\ order = [] /\ atoms_match s1 s2 id1 id2 = true)
    \/ (In c (potential_children s1 s2 id1 id2) /\ fst c <> [] /\ perm_ok (length (fst c)) order).
Proof. intros s1 s2 fuel b st H. exact (first_search_sound s1 s2 fuel b st H). Qed.

Theorem C13_failure_memo_sound : forall s1 s2 fuel b st,
  find s1 s2 fuel (s_root s1) (s_root s2) init_fstate = Ok (b, st) ->
  (forall p, In p (f_visited st) -> mi_mem (f_mi st) p = false -> ~ matchable s1 s2 p) /\
  (matchable s1 s2 (s_root s1, s_root s2) -> b = true).
Proof. exact failure_memo_sound. Qed.

Theorem C13_base_finder_never_raises : forall s1 s2 fuel e, find_base s1 s2 fuel <> Failed e.
Proof. exact find_base_never_raises. Qed.

Theorem C13_base_finder_total : forall s1 s2 fuel,
  (length (all_pairs s1 s2) < fuel)%nat ->
  find_base s1 s2 fuel = Nothing \/ exists d1 d2, find_base s1 s2 fuel = Found d1 d2.
Proof. exact find_base_total. Qed.

Theorem C13_maps_use_rules : forall s1 s2 fuel d1 d2,
  find_base s1 s2 fuel = Found d1 d2 ->
  (forall l c, In (l, c) d1 -> (c = [] /\ atom_of s1 l <> None) \/ exists k, In (c, k) (rules_of s1 l)) /\
  (forall l c, In (l, c) d2 -> (c = [] /\ atom_of s2 l <> None) \/ exists k, In (c, k) (rules_of s2 l)).
Proof. exact find_base_good. Qed.

Theorem C13_spec_from_label_map : forall rep fpath stored (d : smap) root_eq start order fuel keys,
  (forall l t, rep l = rep t -> fpath l t <> [] /\ hd O (fpath l t) = l /\ last (fpath l t) O = t) ->
  tree_keys d root_eq fuel = Some keys ->
  rep start = root_eq ->
  (forall e, In e keys -> exists k, In k stored /\ eqv_key rep k = e) ->
  (forall d0 e2p, decompositions rep stored keys [] [] = Some (d0, e2p) ->
     forall l, In l order <-> no_lhs d0 start l = true) ->
  exists dict, extract rep fpath stored keys start order = Some dict /\
    (forall e, In e dict -> forall c, In c (snd e) -> dom dict c = true) /\
    dom dict start = true /\
    (forall e, In e dict -> In e stored \/ exists l t p c, step_of (fpath l t) p c /\ e = (p, [c])).
Proof. intros rep fpath stored d root_eq start order fuel keys Hf. exact (spec_from_label_map rep fpath Hf stored d root_eq start order fuel keys). Qed.

(* ---------------------------------------------------------------- holds with the proposed repair *)
Theorem C13_matched_pair_with_repair : forall s1 s2 fuel wfuel d1 d2,
  find_base_fixed s1 s2 fuel wfuel = Found d1 d2 -> matched_pair s1 s2 d1 d2.
Proof. exact fixed_base_matched. Qed.

Theorem C13_matched_pair_with_repair_eqpath : forall s1 s2 fuel wfuel oracle d1 d2 asked,
  find_eq_fixed s1 s2 fuel wfuel oracle = EOut (Found d1 d2) asked -> matched_pair s1 s2 d1 d2.
Proof. exact fixed_eq_matched. Qed.

Theorem C13_repaired_base_finder_total : forall s1 s2 fuel wfuel,
  (length (all_pairs s1 s2) < fuel)%nat ->
  (length (all_pairs s1 s2) * S (max_arity s2) + 1 < wfuel)%nat ->
  find_base_fixed s1 s2 fuel wfuel = Nothing \/ exists d1 d2, find_base_fixed s1 s2 fuel wfuel = Found d1 d2.
Proof. exact find_base_fixed_total. Qed.

Theorem C13_two_rule_sets_with_repair :
  forall s1 s2 fuel wfuel d1 d2,
  find_base_fixed s1 s2 fuel wfuel = Found d1 d2 ->
  forall rep1 fpath1 stored1 start1 order1 tf1 keys1 rep2 fpath2 stored2 start2 order2 tf2 keys2,
  (forall l t, rep1 l = rep1 t -> fpath1 l t <> [] /\ hd O (fpath1 l t) = l /\ last (fpath1 l t) O = t) ->
  (forall l t, rep2 l = rep2 t -> fpath2 l t <> [] /\ hd O (fpath2 l t) = l /\ last (fpath2 l t) O = t) ->
  universe_of rep1 s1 stored1 -> universe_of rep2 s2 stored2 ->
  tree_keys d1 (s_root s1) tf1 = Some keys1 -> tree_keys d2 (s_root s2) tf2 = Some keys2 ->
  rep1 start1 = s_root s1 -> rep2 start2 = s_root s2 ->
  order_ok rep1 stored1 keys1 start1 order1 -> order_ok rep2 stored2 keys2 start2 order2 ->
  rule_set_ok rep1 fpath1 stored1 keys1 start1 order1 /\ rule_set_ok rep2 fpath2 stored2 keys2 start2 order2.
Proof.
  intros s1 s2 fuel wfuel d1 d2 H. destruct (fixed_base_matched s1 s2 fuel wfuel d1 d2 H) as [C1 [C2 _]].
  intros. split; eapply side_spec_from_matched; eauto.
Qed.

(* ---------------------------------------------------------------- examples: hypotheses are satisfiable *)
(* a pair of universes with recursion, a binary rule with repeated children and a permuted match:
   the finder returns a pair, and with the repair the same pair (so the theorems above are not vacuous) *)
Definition ex1 : side :=
  mkSide 2%nat [(0%nat, 1%Z)]
    [(0, [([], (-1)%Z)]); (1, [([0; 2], 1%Z)]); (2, [([0; 1], 0%Z); ([0; 0], 0%Z)])]%nat.
Definition ex2 : side :=
  mkSide 5%nat [(7%nat, 1%Z)]
    [(7, [([], (-1)%Z)]); (5, [([6; 7], 0%Z); ([7; 7], 0%Z)]); (6, [([5; 7], 1%Z)])]%nat.

Example C13_nonvacuous :
  find_base ex1 ex2 30%nat = Found [(2, [0; 1]); (1, [0; 2]); (0, [])]%nat [(5, [6; 7]); (6, [5; 7]); (7, [])]%nat /\
  find_base_fixed ex1 ex2 30%nat 100%nat = find_base ex1 ex2 30%nat.
Proof. split; vm_compute; reflexivity. Qed.

(* the hypothesis of C13_failure_memo_sound is satisfiable: the two roots of ex1/ex2 are matchable
   (and the first search indeed answers True, see C13_nonvacuous) *)
Example C13_matchable_example : matchable ex1 ex2 (2, 5)%nat.
Proof.
  exists (fun p => p = (2, 5)%nat \/ p = (1, 6)%nat \/ p = (0, 7)%nat). split; [|left; reflexivity].
  intros a b [H|[H|H]]; inversion H; subst.
  - right. exists [0; 1]%nat, [6; 7]%nat, [1; 0]%nat.
    split; [vm_compute; auto|]. split; [discriminate|]. split; [reflexivity|].
    split; [repeat constructor; simpl; intuition discriminate|].
    split; [simpl; intros i2 [<-|[<-|[]]]; auto|].
    intros [|[|i1]] i2 Hn; simpl in Hn; inversion Hn; subst; simpl; auto. destruct i1; discriminate.
  - right. exists [0; 2]%nat, [5; 7]%nat, [1; 0]%nat.
    split; [vm_compute; auto|]. split; [discriminate|]. split; [reflexivity|].
    split; [repeat constructor; simpl; intuition discriminate|].
    split; [simpl; intros i2 [<-|[<-|[]]]; auto|].
    intros [|[|i1]] i2 Hn; simpl in Hn; inversion Hn; subst; simpl; auto. destruct i1; discriminate.
  - left. vm_compute. reflexivity.
Qed.

(* the a34d719 situation: start label 5 is not its own representative (rep 5 = 0 = root equivalence
   label); stored rules 0 -> (1, 2) and 1 -> (); label 2 is equivalent to 1.  Label map {0: (1,1), 1: ()}. *)
Definition ex_rep := fun l : nat => match l with 5 => 0 | 2 => 1 | _ => l end%nat.
Definition ex_fpath := fun l t : nat => if Nat.eqb l t then [l] else [l; t].

Example C13_start_not_representative :
  tree_keys [(0, [1; 1]); (1, [])]%nat 0%nat 10%nat = Some [(0, [1; 1]); (1, [])]%nat /\
  extract ex_rep ex_fpath [(0, [1; 2]); (1, [])]%nat [(0, [1; 1]); (1, [])]%nat 5%nat [5; 2]%nat
    = Some [(0, [1; 2]); (1, []); (5, [0]); (2, [1])]%nat.
Proof. split; vm_compute; reflexivity. Qed.

(* the hypotheses of C13_two_rule_sets_with_repair about one side are satisfiable, in the same situation *)
Definition ex_side : side := mkSide 0%nat [(1%nat, 1%Z)] [(0, [([1; 1], 0%Z)]); (1, [([], (-1)%Z)])]%nat.
Example C13_two_rule_sets_hypotheses :
  universe_of ex_rep ex_side [(0, [1; 2]); (1, [])]%nat /\
  ex_rep 5%nat = s_root ex_side /\
  order_ok ex_rep [(0, [1; 2]); (1, [])]%nat [(0, [1; 1]); (1, [])]%nat 5%nat [5; 2]%nat.
Proof.
  split; [|split; [reflexivity|]].
  - split.
    + intros l c k H. unfold rules_of, ex_side in H. simpl in H.
      destruct l as [|[|l]]; simpl in H.
      * destruct H as [E|[]]. inversion E; subst. exists (0, [1; 2])%nat. split; [left; reflexivity|vm_compute; reflexivity].
      * destruct H as [E|[]]. inversion E; subst. exists (1, [])%nat. split; [right; left; reflexivity|vm_compute; reflexivity].
      * destruct H.
    + intros l H. unfold atom_of, ex_side in H. simpl in H.
      destruct l as [|[|l]]; simpl in H; try congruence.
      exists (1, [])%nat. split; [right; left; reflexivity|vm_compute; reflexivity].
  - intros d0 e2p H. vm_compute in H. inversion H; subst. intros l.
    destruct l as [|[|[|[|[|[|l]]]]]]; vm_compute; intuition congruence.
Qed.

(* what _create_spec did before a34d719: the root EQUIVALENCE label 0 in place of the start label 5 —
   the dictionary has no entry for the start label (the real extractor then fails in the
   specification with "rule not in the spec and not empty") *)
Example C13_root_label_instead_of_start :
  exists dict, extract ex_rep ex_fpath [(0, [1; 2]); (1, [])]%nat [(0, [1; 1]); (1, [])]%nat 0%nat [2]%nat = Some dict /\
    dom dict 5%nat = false.
Proof. eexists. split; vm_compute; reflexivity. Qed.

(* ================================================================ NON-VACUITY (audit)
   Every theorem above with hypotheses is APPLIED to a concrete instance (all hypotheses discharged at
   once).  Universes: ex1 / ex2 (three labels each, recursion, two candidate rules for the root, a
   permuted match, five pairs visited of which three are recorded as failed).
   NB  labels s  lists labels with repetitions, so  length (all_pairs ex1 ex2) = 100: the fuel bounds of
   the two totality theorems are 101 and 302 here (loose but satisfiable). *)
Definition ex_fst : fstate :=
  mkF [((0, 7), [(([], []), [])]);
       ((1, 6), [(([0; 2], [5; 7]), [1; 0]%Z)]);
       ((2, 5), [(([0; 1], [6; 7]), [1; 0]%Z); (([0; 0], [7; 7]), [0; 1]%Z)])]%nat
      [(2, 5); (1, 7); (1, 6); (0, 5); (0, 6)]%nat [].
Lemma ex_first : find ex1 ex2 101 (s_root ex1) (s_root ex2) init_fstate = Ok (true, ex_fst).
Proof. vm_compute. reflexivity. Qed.
Definition ex_d1 : smap := [(2, [0; 1]); (1, [0; 2]); (0, [])]%nat.
Definition ex_d2 : smap := [(5, [6; 7]); (6, [5; 7]); (7, [])]%nat.
Lemma ex_found : find_base ex1 ex2 101 = Found ex_d1 ex_d2.
Proof. vm_compute. reflexivity. Qed.
Lemma ex_found_fixed : find_base_fixed ex1 ex2 101 400 = Found ex_d1 ex_d2.
Proof. vm_compute. reflexivity. Qed.
Lemma ex_fuel : (length (all_pairs ex1 ex2) < 101)%nat.
Proof. vm_compute. repeat constructor. Qed.
Lemma ex_wfuel : (length (all_pairs ex1 ex2) * S (max_arity ex2) + 1 < 400)%nat.
Proof. vm_compute. repeat constructor. Qed.

(* covers C13_first_search_sound: the recorded entry of the root pair with the PERMUTED order *)
Example C13_first_search_sound_nonvacuous :
  In ([0; 1], [6; 7])%nat (potential_children ex1 ex2 2 5) /\ perm_ok 2 [1; 0]%Z.
Proof.
  destruct (C13_first_search_sound ex1 ex2 101 true ex_fst ex_first 2%nat 5%nat
              [(([0; 1], [6; 7]), [1; 0]%Z); (([0; 0], [7; 7]), [0; 1]%Z)]%nat
              ([0; 1], [6; 7])%nat [1; 0]%Z ltac:(vm_compute; reflexivity) (or_introl eq_refl))
    as [[E _]|[A [_ B]]]; [discriminate|split; assumption].
Qed.
(* ... the atom branch of the disjunction is taken for the pair of atoms *)
Example C13_first_search_sound_atom_branch : atoms_match ex1 ex2 0 7 = true.
Proof.
  destruct (C13_first_search_sound ex1 ex2 101 true ex_fst ex_first 0%nat 7%nat
              [(([], []), [])] ([], []) [] ltac:(vm_compute; reflexivity) (or_introl eq_refl))
    as [[_ [_ E]]|[_ [A _]]]; [exact E|exfalso; apply A; reflexivity].
Qed.

(* covers C13_failure_memo_sound: (1,7) is in `visited` and not in matching_info, hence not matchable;
   the roots are matchable (C13_matchable_example) and the answer is True *)
Example C13_failure_memo_sound_nonvacuous :
  ~ matchable ex1 ex2 (1, 7)%nat /\ (matchable ex1 ex2 (s_root ex1, s_root ex2) -> true = true).
Proof.
  destruct (C13_failure_memo_sound ex1 ex2 101 true ex_fst ex_first) as [A B].
  split; [|exact B].
  apply A; [right; left; reflexivity|vm_compute; reflexivity].
Qed.
(* ... and the conclusion discriminates: on a pair of universes whose roots do not match the first
   search answers False, so (contrapositive of the second part) the roots are NOT matchable *)
Example C13_failure_memo_sound_false_branch : ~ matchable ex1 w2 (s_root ex1, s_root w2).
Proof.
  intros H.
  destruct (C13_failure_memo_sound ex1 w2 101 false
              (mkF [] [(2, 3); (0, 2); (0, 1)]%nat []) ltac:(vm_compute; reflexivity)) as [_ B].
  specialize (B H). discriminate.
Qed.

(* C13_base_finder_never_raises has no hypotheses; its conclusion is not true of every finder of the
   model: the EqPath variant does reach Failed (C13_eqpath_raises_refuted). *)

(* covers C13_base_finder_total (and shows which branch is taken: Found) *)
Example C13_base_finder_total_nonvacuous :
  find_base ex1 ex2 101 = Nothing \/ exists d1 d2, find_base ex1 ex2 101 = Found d1 d2.
Proof. exact (C13_base_finder_total ex1 ex2 101%nat ex_fuel). Qed.
Example C13_base_finder_total_branch :
  find_base ex1 ex2 101 = Found ex_d1 ex_d2 /\ find_base ex1 w2 101 = Nothing /\
  find_base ex1 ex2 2 = NoFuel.
Proof. repeat split; vm_compute; reflexivity. Qed.

(* covers C13_maps_use_rules *)
Example C13_maps_use_rules_nonvacuous :
  (exists k, In ([0; 2]%nat, k) (rules_of ex1 1)) /\ (exists k, In ([6; 7]%nat, k) (rules_of ex2 5)).
Proof.
  destruct (C13_maps_use_rules ex1 ex2 101 ex_d1 ex_d2 ex_found) as [A B]. split.
  - destruct (A 1%nat [0; 2]%nat ltac:(simpl; auto)) as [[E _]|H]; [discriminate|exact H].
  - destruct (B 5%nat [6; 7]%nat ltac:(simpl; auto)) as [[E _]|H]; [discriminate|exact H].
Qed.

(* covers C13_matched_pair_with_repair *)
Example C13_matched_pair_with_repair_nonvacuous : matched_pair ex1 ex2 ex_d1 ex_d2.
Proof. exact (C13_matched_pair_with_repair ex1 ex2 101 400 ex_d1 ex_d2 ex_found_fixed). Qed.

(* covers C13_matched_pair_with_repair_eqpath: the oracle answers the three questions the EqPath
   variant asks on this input (root pair, (1,6) below it, the root pair again below (1,6)) *)
Definition ex_oracle : list (qkey * bool) :=
  [((2, 5, (0, 0), ([0; 1], [6; 7])), true); ((1, 6, (3, 6), ([0; 2], [5; 7])), true);
   ((2, 5, (2, 7), ([0; 1], [6; 7])), true)]%nat.
Example C13_matched_pair_with_repair_eqpath_nonvacuous : matched_pair ex1 ex2 ex_d1 ex_d2.
Proof.
  apply (C13_matched_pair_with_repair_eqpath ex1 ex2 101 400 ex_oracle ex_d1 ex_d2 (map fst ex_oracle)).
  vm_compute. reflexivity.
Qed.
(* matched_pair is not true of every pair of maps: C13_matched_pair_refuted exhibits maps returned by
   the unrepaired finder that are not matched. *)

(* covers C13_repaired_base_finder_total (branch taken: Found; Nothing on the refutation witness) *)
Example C13_repaired_base_finder_total_nonvacuous :
  find_base_fixed ex1 ex2 101 400 = Nothing \/ exists d1 d2, find_base_fixed ex1 ex2 101 400 = Found d1 d2.
Proof. exact (C13_repaired_base_finder_total ex1 ex2 101%nat 400%nat ex_fuel ex_wfuel). Qed.
Example C13_repaired_base_finder_total_branch :
  find_base_fixed ex1 ex2 101 400 = Found ex_d1 ex_d2 /\ find_base_fixed w1 w2 20 100 = Nothing.
Proof. split; vm_compute; reflexivity. Qed.

(* covers C13_spec_from_label_map, in the a34d719 situation (start label 5 is not its own
   representative; label 2 is equivalent to label 1) *)
Lemma ex_fpath_ok (rep : nat -> nat) : forall l t, rep l = rep t ->
  ex_fpath l t <> [] /\ hd O (ex_fpath l t) = l /\ last (ex_fpath l t) O = t.
Proof.
  intros l t _. unfold ex_fpath. destruct (Nat.eqb l t) eqn:E.
  - apply PeanoNat.Nat.eqb_eq in E. subst. repeat split. discriminate.
  - repeat split. discriminate.
Qed.
Example C13_spec_from_label_map_nonvacuous :
  rule_set_ok ex_rep ex_fpath [(0, [1; 2]); (1, [])]%nat [(0, [1; 1]); (1, [])]%nat 5%nat [5; 2]%nat.
Proof.
  apply (C13_spec_from_label_map ex_rep ex_fpath [(0, [1; 2]); (1, [])]%nat [(0, [1; 1]); (1, [])]%nat
           0%nat 5%nat [5; 2]%nat 10%nat [(0, [1; 1]); (1, [])]%nat (ex_fpath_ok ex_rep)).
  - vm_compute. reflexivity.
  - reflexivity.
  - intros e [<-|[<-|[]]].
    + exists (0, [1; 2])%nat. split; [left; reflexivity|vm_compute; reflexivity].
    + exists (1, [])%nat. split; [right; left; reflexivity|vm_compute; reflexivity].
  - destruct C13_two_rule_sets_hypotheses as [_ [_ H]]. exact H.
Qed.

(* covers C13_two_rule_sets_with_repair: BOTH sides at once, on ex1 / ex2, each read off a rule database
   with non-trivial equivalences:
     side 1  labels 3 ~ 0 and 9 ~ 2; the start label is 9 (root equivalence label 2); the stored rules
             mention label 3 where the universe has 0;
     side 2  label 4 ~ 5; the start label is 4 (root equivalence label 5). *)
Definition rep1 := fun l : nat => match l with 9 => 2 | 3 => 0 | _ => l end%nat.
Definition rep2 := fun l : nat => match l with 4 => 5 | _ => l end%nat.
Definition stored1 : list rkey := [(0, []); (1, [3; 2]); (2, [0; 1]); (2, [3; 0])]%nat.
Definition stored2 : list rkey := [(7, []); (5, [6; 7]); (5, [7; 7]); (6, [5; 7])]%nat.
Definition keys1 : list rkey := [(2, [0; 1]); (0, []); (1, [0; 2])]%nat.
Definition keys2 : list rkey := [(5, [6; 7]); (6, [5; 7]); (7, [])]%nat.

Lemma ex_universe1 : universe_of rep1 ex1 stored1.
Proof.
  split.
  - intros l c k H. unfold rules_of in H.
    destruct (assoc_nat (s_rules ex1) l) as [rs|] eqn:E; [|destruct H].
    apply assoc_nat_In in E. simpl in E.
    destruct E as [E|[E|[E|[]]]]; inversion E; subst; simpl in H.
    + destruct H as [H|[]]. inversion H; subst. exists (0, [])%nat. split; [simpl; auto|reflexivity].
    + destruct H as [H|[]]. inversion H; subst. exists (1, [3; 2])%nat.
      split; [simpl; auto|vm_compute; reflexivity].
    + destruct H as [H|[H|[]]]; inversion H; subst.
      * exists (2, [0; 1])%nat. split; [simpl; auto|vm_compute; reflexivity].
      * exists (2, [3; 0])%nat. split; [simpl; auto|vm_compute; reflexivity].
  - intros l H. unfold atom_of in H. destruct (assoc_nat (s_atoms ex1) l) as [z|] eqn:E; [|congruence].
    apply assoc_nat_In in E. simpl in E. destruct E as [E|[]]. inversion E; subst.
    exists (0, [])%nat. split; [simpl; auto|reflexivity].
Qed.
Lemma ex_universe2 : universe_of rep2 ex2 stored2.
Proof.
  split.
  - intros l c k H. unfold rules_of in H.
    destruct (assoc_nat (s_rules ex2) l) as [rs|] eqn:E; [|destruct H].
    apply assoc_nat_In in E. simpl in E.
    destruct E as [E|[E|[E|[]]]]; inversion E; subst; simpl in H.
    + destruct H as [H|[]]. inversion H; subst. exists (7, [])%nat. split; [simpl; auto|reflexivity].
    + destruct H as [H|[H|[]]]; inversion H; subst.
      * exists (5, [6; 7])%nat. split; [simpl; auto|vm_compute; reflexivity].
      * exists (5, [7; 7])%nat. split; [simpl; auto|vm_compute; reflexivity].
    + destruct H as [H|[]]. inversion H; subst. exists (6, [5; 7])%nat.
      split; [simpl; auto|vm_compute; reflexivity].
  - intros l H. unfold atom_of in H. destruct (assoc_nat (s_atoms ex2) l) as [z|] eqn:E; [|congruence].
    apply assoc_nat_In in E. simpl in E. destruct E as [E|[]]. inversion E; subst.
    exists (7, [])%nat. split; [simpl; auto|reflexivity].
Qed.
Lemma ex_order1 : order_ok rep1 stored1 keys1 9%nat [9; 3]%nat.
Proof.
  intros d0 e2p H. vm_compute in H. inversion H; subst. intros l.
  do 10 (destruct l as [|l]; [vm_compute; intuition congruence|]). vm_compute; intuition congruence.
Qed.
Lemma ex_order2 : order_ok rep2 stored2 keys2 4%nat [4]%nat.
Proof.
  intros d0 e2p H. vm_compute in H. inversion H; subst. intros l.
  do 8 (destruct l as [|l]; [vm_compute; intuition congruence|]). vm_compute; intuition congruence.
Qed.
Example C13_two_rule_sets_with_repair_nonvacuous :
  rule_set_ok rep1 ex_fpath stored1 keys1 9%nat [9; 3]%nat /\
  rule_set_ok rep2 ex_fpath stored2 keys2 4%nat [4]%nat.
Proof.
  apply (C13_two_rule_sets_with_repair ex1 ex2 101 400 ex_d1 ex_d2 ex_found_fixed
           rep1 ex_fpath stored1 9%nat [9; 3]%nat 10%nat keys1
           rep2 ex_fpath stored2 4%nat [4]%nat 10%nat keys2
           (ex_fpath_ok rep1) (ex_fpath_ok rep2) ex_universe1 ex_universe2
           ltac:(vm_compute; reflexivity) ltac:(vm_compute; reflexivity) eq_refl eq_refl
           ex_order1 ex_order2).
Qed.
(* ... and the two dictionaries the extractor really returns (equivalence-path rules 9 -> 2, 3 -> 0 on
   side 1 and 4 -> 5 on side 2 are added) *)
Example C13_two_rule_sets_with_repair_value :
  extract rep1 ex_fpath stored1 keys1 9%nat [9; 3]%nat
    = Some [(2, [0; 1]); (0, []); (1, [3; 2]); (9, [2]); (3, [0])]%nat /\
  extract rep2 ex_fpath stored2 keys2 4%nat [4]%nat
    = Some [(5, [6; 7]); (6, [5; 7]); (7, []); (4, [5])]%nat.
Proof. split; vm_compute; reflexivity. Qed.

Print Assumptions C13_matched_pair_refuted.
Print Assumptions C13_eqpath_raises_refuted.
Print Assumptions C13_first_search_sound.
Print Assumptions C13_failure_memo_sound.
Print Assumptions C13_base_finder_never_raises.
Print Assumptions C13_base_finder_total.
Print Assumptions C13_maps_use_rules.
Print Assumptions C13_spec_from_label_map.
Print Assumptions C13_matched_pair_with_repair.
Print Assumptions C13_matched_pair_with_repair_eqpath.
Print Assumptions C13_repaired_base_finder_total.
Print Assumptions C13_two_rule_sets_with_repair.
