(* C04 — the rule universe built by the searcher is faithful to the strategies.

   `final` below is the state of the searcher model (Searcher/Model.v) after
   CombinatorialSpecificationSearcher.__init__ and ANY sequence of work
   packets, for ANY strategy table T, ANY start class, ANY sequence of
   ruledb.is_verified answers, ANY fuel (a run that exhausts its fuel or dies
   with an exception is covered too: its trace is the trace up to that point),
   both drivers (_expand_classes_for / do_level), expand_verified on or off,
   and the three database modes (0 = RuleDB/RuleDBForgetStrategy,
   1 = RuleDBForest(reverse=False), 2 = RuleDBForest(reverse=True)).
   Every theorem is an instance of Searcher.Proofs.run_search_inv.

   Vocabulary (Searcher/Inv.v):  lbl d c = Some l  : class c has label l in
   the class database d;  kids_sp sid p : the children the table gives for
   strategy sid on class p;  applies sid p : the table has an entry for
   (sid, p), i.e. the strategy does not raise StrategyDoesNotApply;
   yielded d sid p : some strategy of the table, applied to a class that has a
   label in d (the class that was being expanded), yields the rule object
   (sid, p) (itself, or as a factory);  sid = -1 is the rule of
   EmptyStrategy: RuleDBForest records it for empty children of possibly_empty
   rules, and the searcher itself records it (under every database) for an
   empty start class instead of expanding that class. *)
From Coq Require Import ZArith List Bool Lia.
From CSS Require Import Base.PyList ClassDB.Model ClassDB.Proofs Gen.Prelude Gen.ReverseShifts
  Searcher.Model Searcher.Inv Searcher.Proofs.
Import ListNotations.
Open Scope Z_scope.

Section C04.
Variable T : table.
Variable mode : Z.
Variables (F : nat) (do_level expand_verified : bool) (answers : list bool) (start : Z).

Notation final ps := (run_search T mode F do_level expand_verified answers start ps).
Notation lbl := (label_of Z.eqb (fun c : Z => c)).

Lemma no_contract_pe : False -> forall sid c e,
  entry_of T sid c = Some e -> pe_of T sid = false -> forall k, In k (e_children e) -> oracle T k = false.
Proof. intros []. Qed.
Lemma no_contract_sym : False -> forall sid c r c0 rest,
  In sid (t_sym T) -> In r (rules_from_strategy T sid c) -> rule_children T r = Some (c0 :: rest) ->
  oracle T c0 = oracle T c.
Proof. intros []. Qed.

(* 3. equal classes share a label (lbl is a function), different classes never
   do, labels are 0..n-1, along the whole run *)
Theorem C04_labels : forall ps c1 c2 l,
  lbl (cdb (final ps)) c1 = Some l -> lbl (cdb (final ps)) c2 = Some l -> c1 = c2.
Proof.
  intros ps c1 c2 l.
  destruct (run_search_inv T mode False no_contract_pe no_contract_sym F do_level expand_verified answers start ps) as (W & _).
  exact (label_injective Z.eqb Zeqb_spec (fun c : Z => c) (fun k : Z => k) id_inv (cdb (final ps)) c1 c2 l W).
Qed.

(* ... and a label, once given, is never changed by the rest of the run *)
Theorem C04_labels_stable : forall ps more c l,
  lbl (cdb (final ps)) c = Some l -> lbl (cdb (final (ps ++ more))) c = Some l.
Proof.
  intros ps more c l H.
  destruct (run_search_app T mode False no_contract_pe no_contract_sym F do_level expand_verified answers start ps more)
    as ((W' & _) & X & _).
  destruct (run_search_inv T mode False no_contract_pe no_contract_sym F do_level expand_verified answers start ps) as (W & _).
  exact (lbl_ext _ _ _ _ W W' X H).
Qed.

(* 1. every ruledb.add(start, ends, rule) is justified by the table: the rule
   (sid, parent) is yielded by a strategy of the table, the table has an entry
   for it, `start` is the label of the rule's parent (not of the class that
   happened to be expanded) and `ends` are the labels of the table's children
   in order - all of them, or, for the calls made by _symmetry_expand, the
   first one.  The only other rule ever added is the empty rule (sid = -1,
   no children: for an empty start class, or by RuleDBForest for an empty
   child), always under the label of a class that is truly empty. *)
Theorem C04_recorded_from_table : forall ps start_label ends sid parent,
  In (EvAdd start_label ends sid parent) (trace (final ps)) ->
  let d := cdb (final ps) in
  lbl d parent = Some start_label /\
  Forall2 (fun c l => lbl d c = Some l) (firstn (length ends) (kids_sp T sid parent)) ends /\
  ((sid = -1 /\ ends = [] /\ oracle T parent = true) \/
   (applies T sid parent = true /\ yielded T d sid parent /\
    (length ends = length (kids_sp T sid parent) \/
     (length ends = 1%nat /\ kids_sp T sid parent <> [] /\ sym_yielded T sid parent)))).
Proof.
  intros ps sl ends sid parent Hin d.
  destruct (run_search_inv T mode False no_contract_pe no_contract_sym F do_level expand_verified answers start ps) as (_ & _ & Hf).
  rewrite Forall_forall in Hf. specialize (Hf _ Hin). simpl in Hf.
  destruct Hf as (A & B & [D|(D1 & D2 & D3 & D4)]); csplit; auto.
Qed.

(* 4. no rule for a strategy that does not apply (also when StrategyDoesNotApply
   is raised lazily by rule.children of a ready rule of a factory), and the
   self-equivalence  parent -> (parent,)  is never recorded *)
Theorem C04_no_rule_when_not_applicable : forall ps start_label ends sid parent,
  In (EvAdd start_label ends sid parent) (trace (final ps)) -> sid <> -1 ->
  applies T sid parent = true /\ kids_sp T sid parent <> [parent].
Proof.
  intros ps sl ends sid parent Hin Hs.
  destruct (run_search_inv T mode False no_contract_pe no_contract_sym F do_level expand_verified answers start ps) as (_ & _ & Hf).
  rewrite Forall_forall in Hf. specialize (Hf _ Hin). simpl in Hf.
  destruct Hf as (A & B & [(D & _)|(D1 & D2 & D3 & D4)]); [contradiction|auto].
Qed.

(* 2a. the key RuleDBBase stores is (start, sorted(labels of the children that
   were kept)), `start` being the label of the rule's parent; the kept children
   are selected from the labels handed to ruledb.add in order (flags bs), and
   NOTHING is dropped when the rule's strategy is not possibly_empty *)
Theorem C04_stored_key_partial : forall ps eqv start_label ends' sid parent,
  In (EvStore eqv start_label ends' sid parent) (trace (final ps)) ->
  let d := cdb (final ps) in
  lbl d parent = Some start_label /\
  exists ls bs,
    Forall2 (fun c l => lbl d c = Some l) (firstn (length ls) (kids_sp T sid parent)) ls /\
    length bs = length ls /\ ends' = isort (select bs ls) /\
    (pe_of T sid = false -> ends' = isort ls).
Proof.
  intros ps eqv sl ends' sid parent Hin d.
  destruct (run_search_inv T mode False no_contract_pe no_contract_sym F do_level expand_verified answers start ps) as (_ & _ & Hf).
  rewrite Forall_forall in Hf. specialize (Hf _ Hin). simpl in Hf.
  destruct Hf as (A & ls & bs & B & D & E & G & _). split; auto. exists ls, bs. csplit; auto.
  intros Hp. rewrite E. f_equal. specialize (G Hp). clear - G D.
  revert ls D; induction bs as [|b t IH]; intros [|x ls] D; simpl in *; auto; try discriminate.
  inversion G; subst. rewrite IH; auto.
Qed.

Section Contracts.
(* the documented strategy contracts, on the table *)
Hypothesis pe_contract : forall sid c e, (* in-section *)
  entry_of T sid c = Some e -> pe_of T sid = false -> forall k, In k (e_children e) -> oracle T k = false.
Hypothesis sym_contract : forall sid c r c0 rest, (* in-section *)
  In sid (t_sym T) -> In r (rules_from_strategy T sid c) -> rule_children T r = Some (c0 :: rest) ->
  oracle T c0 = oracle T c.

Lemma final_inv_contracts ps : Inv T True (final ps).
Proof.
  apply (run_search_inv T mode True (fun _ => pe_contract) (fun _ => sym_contract)).
Qed.

(* 5. every set_empty(label, v) the searcher issues tells the truth about the
   class carrying the label, and hence the cached emptiness of every label
   equals the class's own answer at the end of every run *)
Theorem C04_set_empty_consistent : forall ps l v,
  In (EvSetEmpty l v) (trace (final ps)) ->
  exists c, lbl (cdb (final ps)) c = Some l /\ oracle T c = v.
Proof.
  intros ps l v Hin. destruct (final_inv_contracts ps) as (_ & _ & Hf).
  rewrite Forall_forall in Hf. specialize (Hf _ Hin). simpl in Hf.
  destruct Hf as (c & A & B). exists c; auto.
Qed.

Theorem C04_empty_cache_truthful : forall ps i c b,
  nth_error (classes (cdb (final ps))) i = Some c ->
  nth_error (empties (cdb (final ps))) i = Some (Some b) -> b = oracle T c.
Proof.
  intros ps i c b. destruct (final_inv_contracts ps) as (_ & E & _). apply (E Logic.I).
Qed.

(* 2b. under the contracts the stored key is exactly
   (label of the parent, sorted(labels of the children that are not
   (possibly_empty and empty))): a child is dropped iff the rule is
   possibly_empty AND the class is truly empty *)
Theorem C04_stored_key : forall ps eqv start_label ends' sid parent,
  In (EvStore eqv start_label ends' sid parent) (trace (final ps)) ->
  let d := cdb (final ps) in
  lbl d parent = Some start_label /\
  exists ls,
    Forall2 (fun c l => lbl d c = Some l) (firstn (length ls) (kids_sp T sid parent)) ls /\
    ends' = isort (select (map (fun c => negb (pe_of T sid && oracle T c))
                               (firstn (length ls) (kids_sp T sid parent))) ls).
Proof.
  intros ps eqv sl ends' sid parent Hin d. destruct (final_inv_contracts ps) as (_ & _ & Hf).
  rewrite Forall_forall in Hf. specialize (Hf _ Hin). simpl in Hf.
  destruct Hf as (A & ls & bs & B & D & E & G & H). split; auto. exists ls. split; auto.
  rewrite <- (H Logic.I). exact E.
Qed.

End Contracts.
End C04.

(* Not proved (left to the correspondence and the oracle):
   - C04_forest_empty_rule_once: in the forest modes every empty child of a
     possibly_empty rule receives the empty rule exactly once per label (only
     "an empty rule is only ever recorded for a truly empty class, under that
     class's label" is part of C04_recorded_from_table);
   - completeness: every rule the table yields for an expanded packet IS recorded;
   - the forest keys (EvKey) and the equivalence-edge events are not characterised. *)

(* non-vacuity: a table honouring both contracts whose run records a rule with a
   dropped empty child, a foreign-parent rule of a factory, a lazily failing
   ready rule (no event), a filtered self-equivalence and a symmetry image *)
Definition ex_table : table :=
  mkT [0; 0; 1; 0; 0]
      [ mkS 2 false false false false [(3, mkE [] false false [])] [];                   (* 0: verification *)
        mkS 0 false true true true [(0, mkE [1; 2] false true [0; 1]); (1, mkE [1] true true [0])] [];  (* 1: plain, possibly_empty *)
        mkS 1 false true true true [] [(0, [mkI 1 None false; mkI 3 (Some 1) false; mkI 3 (Some 4) true])]; (* 2: factory *)
        mkS 0 false true false true [(1, mkE [3] true true [1])] [];                      (* 3: hidden plain *)
        mkS 3 false false false false [(0, mkE [4] true true [0])] [] ]                   (* 4: symmetry *)
      [0] [4].

Example C04_nonvacuous :
  let s := run_search ex_table 0 20 false true [false; false; false; false; false; false; false; false] 0
             [mkP 0 [1] false; mkP 0 [2] false] in
  stat s = Running /\
  In (EvAdd 0 [2; 3] 1 0) (trace s) /\ In (EvStore false 0 [2] 1 0) (trace s) /\
  In (EvAdd 2 [4] 3 1) (trace s) /\ In (EvAdd 0 [1] 4 0) (trace s) /\
  classes (cdb s) = [0; 4; 1; 2; 3].
Proof.
  vm_compute. csplit; try reflexivity; repeat (first [left; reflexivity | right]).
Qed.

(* an empty start class is given the empty rule, under every database, and is not expanded *)
Example C04_nonvacuous_empty_start :
  let s := run_search ex_table 0 20 false true [] 2 [] in
  stat s = Running /\ classes (cdb s) = [2] /\
  rev (trace s) = [EvQAdd 0; EvQStop 0; EvQStop 0; EvAdd 0 [] (-1) 2; EvVerified 0; EvStore false 0 [] (-1) 2].
Proof. vm_compute. csplit; reflexivity. Qed.

Example C04_nonvacuous_pe_contract : forall sid c e,
  entry_of ex_table sid c = Some e -> pe_of ex_table sid = false ->
  forall k, In k (e_children e) -> oracle ex_table k = false.
Proof.
  intros sid c e H Hp k Hk. unfold entry_of, pe_of, flag in *.
  destruct (strat_of ex_table sid) as [x|] eqn:Es; [|discriminate].
  unfold strat_of in Es. destruct (sid <? 0); [discriminate|].
  destruct (Z.to_nat sid) as [|[|[|[|[|n]]]]]; simpl in Es; try (destruct n; discriminate);
    injection Es as <-; simpl in *; try discriminate;
    repeat match type of H with context [if ?b then _ else _] => destruct b end; try discriminate;
    injection H as <-; simpl in Hk; intuition; subst; reflexivity.
Qed.

Example C04_nonvacuous_sym_contract : forall sid c r c0 rest,
  In sid (t_sym ex_table) -> In r (rules_from_strategy ex_table sid c) ->
  rule_children ex_table r = Some (c0 :: rest) -> oracle ex_table c0 = oracle ex_table c.
Proof.
  intros sid c r c0 rest [<-|[]]. unfold rules_from_strategy, applies, entry_of. simpl.
  destruct c; simpl; try (intros []; fail).
  intros [<-|[]]. vm_compute. intros [= <- <-]. reflexivity.
Qed.

(* ------------------------------------------------------------------------
   NON-VACUITY (audit): every theorem of this file APPLIED to the run of ex_table above (5 strategies
   of 4 kinds, 5 classes one of which is empty, two packets, 26 events), so that Coq checks that what
   is discharged are the theorems' own hypotheses; the two contracts are discharged by
   C04_nonvacuous_pe_contract / C04_nonvacuous_sym_contract. *)
Definition ex_ans : list bool := [false; false; false; false; false; false; false; false].
Definition ex_p1 : packet := mkP 0 [1] false.
Definition ex_p2 : packet := mkP 0 [2] false.
Notation ex_run ps := (run_search ex_table 0 20 false true ex_ans 0 ps).
Notation exlbl := (label_of Z.eqb (fun c : Z => c)).
Ltac in_trace := vm_compute; repeat (first [left; reflexivity | right]).

(* label 2 belongs to class 1 and to no other class *)
Example C04_labels_nonvacuous :
  forall c, exlbl (cdb (ex_run [ex_p1; ex_p2])) c = Some 2 -> c = 1.
Proof.
  intros c H.
  apply (C04_labels ex_table 0 20 false true ex_ans 0 [ex_p1; ex_p2] c 1 2 H). vm_compute; reflexivity.
Qed.
(* the conclusion discriminates: two different labels are in use for two different classes *)
Example C04_labels_distinct :
  exlbl (cdb (ex_run [ex_p1; ex_p2])) 1 = Some 2 /\ exlbl (cdb (ex_run [ex_p1; ex_p2])) 2 = Some 3.
Proof. split; vm_compute; reflexivity. Qed.

(* class 2 got label 3 during the first packet and keeps it over the second one (which labels class 3) *)
Example C04_labels_stable_nonvacuous :
  exlbl (cdb (ex_run ([ex_p1] ++ [ex_p2]))) 2 = Some 3.
Proof.
  apply (C04_labels_stable ex_table 0 20 false true ex_ans 0 [ex_p1] [ex_p2] 2 3). vm_compute; reflexivity.
Qed.
Example C04_labels_stable_db_grows :
  classes (cdb (ex_run [ex_p1])) = [0; 4; 1; 2] /\ classes (cdb (ex_run ([ex_p1] ++ [ex_p2]))) = [0; 4; 1; 2; 3].
Proof. split; vm_compute; reflexivity. Qed.

(* the foreign-parent rule  S3(1) -> (3,)  the factory (strategy 2) yields while class 0 is expanded:
   recorded under label 2 = the label of class 1 (not of the expanded class 0), child label 4 = class 3 *)
Example C04_recorded_from_table_nonvacuous :
  let d := cdb (ex_run [ex_p1; ex_p2]) in
  exlbl d 1 = Some 2 /\
  Forall2 (fun c l => exlbl d c = Some l) (firstn (length [4]) (kids_sp ex_table 3 1)) [4] /\
  ((3 = -1 /\ [4] = [] /\ oracle ex_table 1 = true) \/
   (applies ex_table 3 1 = true /\ yielded ex_table d 3 1 /\
    (length [4] = length (kids_sp ex_table 3 1) \/
     (length [4] = 1%nat /\ kids_sp ex_table 3 1 <> [] /\ sym_yielded ex_table 3 1)))).
Proof.
  apply (C04_recorded_from_table ex_table 0 20 false true ex_ans 0 [ex_p1; ex_p2] 2 [4] 3 1). in_trace.
Qed.
(* which branches are really taken: a table rule takes the right branch with ALL children (first
   disjunct inside); the empty rule of an empty start class takes the left branch *)
Example C04_recorded_from_table_branches :
  kids_sp ex_table 3 1 = [3] /\ applies ex_table 3 1 = true /\ oracle ex_table 1 = false /\
  In (EvAdd 0 [] (-1) 2) (trace (run_search ex_table 0 20 false true [] 2 [])) /\
  oracle ex_table 2 = true /\ applies ex_table (-1) 2 = false.
Proof. csplit; try (vm_compute; reflexivity). in_trace. Qed.
Example C04_recorded_from_table_empty_rule_nonvacuous :
  let d := cdb (run_search ex_table 0 20 false true [] 2 []) in
  exlbl d 2 = Some 0 /\
  Forall2 (fun c l => exlbl d c = Some l) (firstn (length (@nil Z)) (kids_sp ex_table (-1) 2)) [] /\
  ((-1 = -1 /\ @nil Z = [] /\ oracle ex_table 2 = true) \/
   (applies ex_table (-1) 2 = true /\ yielded ex_table d (-1) 2 /\
    (length (@nil Z) = length (kids_sp ex_table (-1) 2) \/
     (length (@nil Z) = 1%nat /\ kids_sp ex_table (-1) 2 <> [] /\ sym_yielded ex_table (-1) 2)))).
Proof.
  apply (C04_recorded_from_table ex_table 0 20 false true [] 2 [] 0 [] (-1) 2). in_trace.
Qed.

(* the symmetry image  S4(0) -> (4,)  is a recorded rule with sid <> -1: strategy 4 applies to class 0
   and the rule is not the self-equivalence *)
Example C04_no_rule_when_not_applicable_nonvacuous :
  applies ex_table 4 0 = true /\ kids_sp ex_table 4 0 <> [0].
Proof.
  apply (C04_no_rule_when_not_applicable ex_table 0 20 false true ex_ans 0 [ex_p1; ex_p2] 0 [1] 4 0).
  - in_trace.
  - discriminate.
Qed.
(* near misses: strategy 3 does not apply to class 0 and the lazily built ready rule S3(4) of the factory
   has no children: nothing is recorded for either *)
Example C04_no_rule_when_not_applicable_near_miss :
  applies ex_table 3 0 = false /\ applies ex_table 3 4 = false /\
  forallb (fun e => match e with
                    | EvAdd _ _ 3 p => negb ((p =? 0) || (p =? 4))
                    | _ => true end) (trace (ex_run [ex_p1; ex_p2])) = true.
Proof. csplit; vm_compute; reflexivity. Qed.

(* the stored key of  S1(0) -> (1, 2)  with class 2 empty and strategy 1 possibly_empty: (0, (2,)) *)
Example C04_stored_key_partial_nonvacuous :
  let d := cdb (ex_run [ex_p1; ex_p2]) in
  exlbl d 0 = Some 0 /\
  exists ls bs,
    Forall2 (fun c l => exlbl d c = Some l) (firstn (length ls) (kids_sp ex_table 1 0)) ls /\
    length bs = length ls /\ [2] = isort (select bs ls) /\
    (pe_of ex_table 1 = false -> [2] = isort ls).
Proof.
  apply (C04_stored_key_partial ex_table 0 20 false true ex_ans 0 [ex_p1; ex_p2] false 0 [2] 1 0). in_trace.
Qed.
(* ... and for a rule that is not possibly_empty (S3(1) -> (3,), stored as an equivalence) the last
   clause is not vacuous *)
Example C04_stored_key_partial_not_pe_nonvacuous :
  let d := cdb (ex_run [ex_p1; ex_p2]) in
  exlbl d 1 = Some 2 /\
  exists ls bs,
    Forall2 (fun c l => exlbl d c = Some l) (firstn (length ls) (kids_sp ex_table 3 1)) ls /\
    length bs = length ls /\ [4] = isort (select bs ls) /\
    (pe_of ex_table 3 = false -> [4] = isort ls).
Proof.
  apply (C04_stored_key_partial ex_table 0 20 false true ex_ans 0 [ex_p1; ex_p2] true 2 [4] 3 1). in_trace.
Qed.
Example C04_stored_key_partial_flags : pe_of ex_table 1 = true /\ pe_of ex_table 3 = false.
Proof. split; reflexivity. Qed.

(* set_empty(4, False) was issued for label 4 = class 3, which is not empty; set_empty(1, False) for the
   symmetry image *)
Example C04_set_empty_consistent_nonvacuous :
  exists c, exlbl (cdb (ex_run [ex_p1; ex_p2])) c = Some 4 /\ oracle ex_table c = false.
Proof.
  apply (C04_set_empty_consistent ex_table 0 20 false true ex_ans 0
           C04_nonvacuous_pe_contract C04_nonvacuous_sym_contract [ex_p1; ex_p2] 4 false). in_trace.
Qed.

(* the cache holds `true` at position 3 (class 2, truly empty) and `false` at position 2 (class 1) *)
Example C04_empty_cache_truthful_nonvacuous :
  true = oracle ex_table 2 /\ false = oracle ex_table 1.
Proof.
  split.
  - apply (C04_empty_cache_truthful ex_table 0 20 false true ex_ans 0
             C04_nonvacuous_pe_contract C04_nonvacuous_sym_contract [ex_p1; ex_p2] 3%nat 2 true);
      vm_compute; reflexivity.
  - apply (C04_empty_cache_truthful ex_table 0 20 false true ex_ans 0
             C04_nonvacuous_pe_contract C04_nonvacuous_sym_contract [ex_p1; ex_p2] 2%nat 1 false);
      vm_compute; reflexivity.
Qed.

(* under the contracts the key of  S1(0) -> (1, 2)  is exactly (0, sorted(labels of the non-empty kids)) *)
Example C04_stored_key_nonvacuous :
  let d := cdb (ex_run [ex_p1; ex_p2]) in
  exlbl d 0 = Some 0 /\
  exists ls,
    Forall2 (fun c l => exlbl d c = Some l) (firstn (length ls) (kids_sp ex_table 1 0)) ls /\
    [2] = isort (select (map (fun c => negb (pe_of ex_table 1 && oracle ex_table c))
                             (firstn (length ls) (kids_sp ex_table 1 0))) ls).
Proof.
  apply (C04_stored_key ex_table 0 20 false true ex_ans 0
           C04_nonvacuous_pe_contract C04_nonvacuous_sym_contract [ex_p1; ex_p2] false 0 [2] 1 0). in_trace.
Qed.
(* the witness: ls = [2; 3] (labels of classes 1 and 2), the flag of the empty class 2 is false *)
Example C04_stored_key_witness :
  let d := cdb (ex_run [ex_p1; ex_p2]) in
  Forall2 (fun c l => exlbl d c = Some l) (firstn 2 (kids_sp ex_table 1 0)) [2; 3] /\
  map (fun c => negb (pe_of ex_table 1 && oracle ex_table c)) (firstn 2 (kids_sp ex_table 1 0)) = [true; false] /\
  isort (select [true; false] [2; 3]) = [2].
Proof. cbv zeta. csplit; [repeat constructor| |]; vm_compute; reflexivity. Qed.

Print Assumptions C04_labels.
Print Assumptions C04_labels_stable.
Print Assumptions C04_recorded_from_table.
Print Assumptions C04_no_rule_when_not_applicable.
Print Assumptions C04_stored_key_partial.
Print Assumptions C04_set_empty_consistent.
Print Assumptions C04_empty_cache_truthful.
Print Assumptions C04_stored_key.
