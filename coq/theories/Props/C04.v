(* C04 — the rule universe built by the searcher is faithful to the strategies.

   `final` below is the state of the searcher model (Searcher/Model.v) after
   CombinatorialSpecificationSearcher.__init__ and ANY sequence of work
   packets, for ANY strategy table T, ANY start class, ANY sequence of
   ruledb.is_verified answers, ANY fuel (a run that exhausts its fuel or dies
   with an exception is covered too: its trace is the trace up to that point),
   both drivers (_expand_classes_for / do_level), expand_verified on or off,
   and the three database modes (0 = RuleDB/RuleDBForgetStrategy,
   1 = RuleDBForest(reverse=False), 2 = RuleDBForest(reverse=True)).
   Every theorem is an instance of Searcher.Proofs.run_search_inv.

   The theorems of Section Contracts additionally assume the two strategy contracts of
   Searcher/Contracts.v on the table (pe_contract T pack, sym_contract T) and that the packets
   carry strategies of `pack` (packets_in pack ps: what the work queue hands out are the
   initial / inferral / expansion strategies of the pack).  The contracts were RESTATED: in their
   former form (pe_contract_old: "no possibly_empty=False strategy ever has an empty child", which
   also bound symmetry strategies on empty classes) they contradicted each other on every table in
   which a symmetry has an entry on an empty class (C04_old_contracts_exclude_each_other below, the
   situation of the fixed finding 0aef1b9), so the three theorems were vacuous there.  The repaired
   pair is decidable (contractsb), is what the harness calls the STRONG contract (the extracted
   contractsb is compared with the Python predicate on every generated universe), and holds of
   tables with a symmetry on an empty class (sx_table below).

   Vocabulary (Searcher/Inv.v):  lbl d c = Some l  : class c has label l in
   the class database d;  kids_sp sid p : the children the table gives for
   strategy sid on class p;  applies sid p : the table has an entry for
   (sid, p), i.e. the strategy does not raise StrategyDoesNotApply;
   yielded d sid p : some strategy of the table, applied to a class that has a
   label in d (the class that was being expanded), yields the rule object
   (sid, p) (itself, or as a factory);  sid = -1 is the rule of
   EmptyStrategy: RuleDBForest records it for empty children of possibly_empty
   rules, and the searcher itself records it (under every database) for an
   empty start class instead of expanding that class. *)
From Coq Require Import ZArith List Bool Lia.
From CSS Require Import Base.PyList ClassDB.Model ClassDB.Proofs Gen.Prelude Gen.ReverseShifts
  Searcher.Model Searcher.Inv Searcher.Contracts Searcher.ProofsCore Searcher.Proofs
  Searcher.OneSidedDefs Searcher.OneSided.
From CSS Require RuleDB.Model RuleDB.CdbFacts RuleDB.GetProofs RuleDB.AddProofs RuleDB.AddHist RuleDB.SearchHist.
Import ListNotations.
Open Scope Z_scope.

Section C04.
Variable T : table.
Variable mode : Z.
Variables (F : nat) (do_level expand_verified : bool) (answers : list bool) (start : Z).

Notation final ps := (run_search T mode F do_level expand_verified answers start ps).
Notation lbl := (label_of Z.eqb (fun c : Z => c)).

Lemma no_contract_pe : False -> pe_contract T [].
Proof. intros []. Qed.
Lemma no_contract_sym : False -> sym_contract T.
Proof. intros []. Qed.
(* the contract-free invariant: C := False, no condition on the packets *)
Lemma final_inv_free ps : Inv T False Gtriv (final ps).
Proof.
  apply (run_search_inv0 T mode False [] no_contract_pe no_contract_sym F do_level expand_verified answers start ps).
  intros [].
Qed.

(* 3. equal classes share a label (lbl is a function), different classes never
   do, labels are 0..n-1, along the whole run *)
Theorem C04_labels : forall ps c1 c2 l,
  lbl (cdb (final ps)) c1 = Some l -> lbl (cdb (final ps)) c2 = Some l -> c1 = c2.
Proof.
  intros ps c1 c2 l.
  destruct (final_inv_free ps) as (W & _).
  exact (label_injective Z.eqb Zeqb_spec (fun c : Z => c) (fun k : Z => k) id_inv (cdb (final ps)) c1 c2 l W).
Qed.

(* ... and a label, once given, is never changed by the rest of the run *)
Theorem C04_labels_stable : forall ps more c l,
  lbl (cdb (final ps)) c = Some l -> lbl (cdb (final (ps ++ more))) c = Some l.
Proof.
  intros ps more c l H.
  destruct (run_search_app0 T mode False [] no_contract_pe no_contract_sym F do_level expand_verified answers start ps more)
    as ((W' & _) & X & _); [intros []|].
  destruct (final_inv_free ps) as (W & _).
  exact (lbl_ext _ _ _ _ W W' X H).
Qed.

(* 1. every ruledb.add(start, ends, rule) is justified by the table: the rule
   (sid, parent) is yielded by a strategy of the table, the table has an entry
   for it, `start` is the label of the rule's parent (not of the class that
   happened to be expanded) and `ends` are the labels of the table's children
   in order - all of them, or, for the calls made by _symmetry_expand, the
   first one.  The only other rule ever added is the empty rule (sid = -1,
   no children: for an empty start class, or by RuleDBForest for an empty
   child), always under the label of a class that is truly empty. *)
Theorem C04_recorded_from_table : forall ps start_label ends sid parent,
  In (EvAdd start_label ends sid parent) (trace (final ps)) ->
  let d := cdb (final ps) in
  lbl d parent = Some start_label /\
  Forall2 (fun c l => lbl d c = Some l) (firstn (length ends) (kids_sp T sid parent)) ends /\
  ((sid = -1 /\ ends = [] /\ oracle T parent = true) \/
   (applies T sid parent = true /\ yielded T d sid parent /\
    (length ends = length (kids_sp T sid parent) \/
     (length ends = 1%nat /\ kids_sp T sid parent <> [] /\ sym_yielded T sid parent)))).
Proof.
  intros ps sl ends sid parent Hin d.
  destruct (final_inv_free ps) as (_ & _ & Hf & _).
  rewrite Forall_forall in Hf. specialize (Hf _ Hin). simpl in Hf.
  destruct Hf as (A & B & [D|(D1 & D2 & D3 & D4)]); csplit; auto.
Qed.

(* 4. no rule for a strategy that does not apply (also when StrategyDoesNotApply
   is raised lazily by rule.children of a ready rule of a factory), and the
   self-equivalence  parent -> (parent,)  is never recorded *)
Theorem C04_no_rule_when_not_applicable : forall ps start_label ends sid parent,
  In (EvAdd start_label ends sid parent) (trace (final ps)) -> sid <> -1 ->
  applies T sid parent = true /\ kids_sp T sid parent <> [parent].
Proof.
  intros ps sl ends sid parent Hin Hs.
  destruct (final_inv_free ps) as (_ & _ & Hf & _).
  rewrite Forall_forall in Hf. specialize (Hf _ Hin). simpl in Hf.
  destruct Hf as (A & B & [(D & _)|(D1 & D2 & D3 & D4)]); [contradiction|auto].
Qed.

(* 2a. the key RuleDBBase stores is (start, sorted(labels of the children that
   were kept)), `start` being the label of the rule's parent; the kept children
   are selected (flags bs) from the labels ls of ALL children of the rule, in
   order - or, for the calls of _symmetry_expand, from the label of the first
   child -, and NOTHING is dropped when the rule's strategy is not
   possibly_empty.  (Contract-free part of C04_stored_key: WHICH children a
   possibly_empty rule loses is not said here.) *)
Theorem C04_stored_key_partial : forall ps eqv start_label ends' sid parent,
  In (EvStore eqv start_label ends' sid parent) (trace (final ps)) ->
  let d := cdb (final ps) in
  lbl d parent = Some start_label /\
  exists ls bs,
    Forall2 (fun c l => lbl d c = Some l) (firstn (length ls) (kids_sp T sid parent)) ls /\
    (length ls = length (kids_sp T sid parent) \/
     (length ls = 1%nat /\ kids_sp T sid parent <> [] /\ sym_yielded T sid parent)) /\
    length bs = length ls /\ ends' = isort (select bs ls) /\
    (pe_of T sid = false -> ends' = isort ls).
Proof.
  intros ps eqv sl ends' sid parent Hin d.
  destruct (final_inv_free ps) as (_ & _ & Hf & _).
  rewrite Forall_forall in Hf. specialize (Hf _ Hin). simpl in Hf.
  destruct Hf as (A & ls & bs & B & B' & D & E & G & _). split; auto. exists ls, bs. csplit; auto.
  intros Hp. rewrite E. f_equal. specialize (G Hp). clear - G D.
  revert ls D; induction bs as [|b t IH]; intros [|x ls] D; simpl in *; auto; try discriminate.
  inversion G; subst. rewrite IH; auto.
Qed.

Section Contracts.
(* the strategy contracts, on the table (Searcher/Contracts.v): a possibly_empty=False strategy has no empty
   child on a non-empty class, and none on an empty class either when its rules go through add_rule
   (`applied`: handed out by the queue = in `pack`, a verification strategy, or yielded by a factory that is);
   the first child of a rule a symmetry yields is empty iff the class is *)
Variable pack : list Z.
Hypothesis Hpe : pe_contract T pack. (* in-section *)
Hypothesis Hsym : sym_contract T. (* in-section *)

Lemma final_inv_contracts ps : packets_in pack ps -> Inv T True Gtriv (final ps).
Proof.
  intros Hps.
  apply (run_search_inv0 T mode True pack (fun _ => Hpe) (fun _ => Hsym) F do_level expand_verified answers start ps).
  intros _; exact Hps.
Qed.

(* 5. every set_empty(label, v) the searcher issues tells the truth about the
   class carrying the label, and hence the cached emptiness of every label
   equals the class's own answer at the end of every run *)
Theorem C04_set_empty_consistent : forall ps l v, packets_in pack ps ->
  In (EvSetEmpty l v) (trace (final ps)) ->
  exists c, lbl (cdb (final ps)) c = Some l /\ oracle T c = v.
Proof.
  intros ps l v Hps Hin. destruct (final_inv_contracts ps Hps) as (_ & _ & Hf & _).
  rewrite Forall_forall in Hf. specialize (Hf _ Hin). simpl in Hf.
  destruct Hf as (c & A & B). exists c; auto.
Qed.

Theorem C04_empty_cache_truthful : forall ps i c b, packets_in pack ps ->
  nth_error (classes (cdb (final ps))) i = Some c ->
  nth_error (empties (cdb (final ps))) i = Some (Some b) -> b = oracle T c.
Proof.
  intros ps i c b Hps. destruct (final_inv_contracts ps Hps) as (_ & E & _). apply (E Logic.I).
Qed.

(* 2b. under the contracts the stored key is exactly
   (label of the parent, sorted(labels of the children that are not
   (possibly_empty and empty))), over ALL children of the rule (for the calls of
   _symmetry_expand: over the first child): a child is dropped iff the rule is
   possibly_empty AND the class is truly empty *)
Theorem C04_stored_key : forall ps eqv start_label ends' sid parent, packets_in pack ps ->
  In (EvStore eqv start_label ends' sid parent) (trace (final ps)) ->
  let d := cdb (final ps) in
  lbl d parent = Some start_label /\
  exists ls,
    Forall2 (fun c l => lbl d c = Some l) (firstn (length ls) (kids_sp T sid parent)) ls /\
    (length ls = length (kids_sp T sid parent) \/
     (length ls = 1%nat /\ kids_sp T sid parent <> [] /\ sym_yielded T sid parent)) /\
    ends' = isort (select (map (fun c => negb (pe_of T sid && oracle T c))
                               (firstn (length ls) (kids_sp T sid parent))) ls).
Proof.
  intros ps eqv sl ends' sid parent Hps Hin d. destruct (final_inv_contracts ps Hps) as (_ & _ & Hf & _).
  rewrite Forall_forall in Hf. specialize (Hf _ Hin). simpl in Hf.
  destruct Hf as (A & ls & bs & B & B' & D & E & G & H). split; auto. exists ls. split; auto. split; auto.
  rewrite <- (H Logic.I). exact E.
Qed.

(* 2c. ... and when symmetries yield unary rules (sym_unary: SymmetryStrategy is a unary equivalence strategy)
   the labels are those of ALL children for every stored key: the children missing from the key are exactly
   the truly empty children of possibly_empty rules *)
Theorem C04_stored_key_all_children : sym_unary T ->
  forall ps eqv start_label ends' sid parent, packets_in pack ps ->
  In (EvStore eqv start_label ends' sid parent) (trace (final ps)) ->
  let d := cdb (final ps) in
  lbl d parent = Some start_label /\
  exists ls,
    Forall2 (fun c l => lbl d c = Some l) (kids_sp T sid parent) ls /\
    ends' = isort (select (map (fun c => negb (pe_of T sid && oracle T c)) (kids_sp T sid parent)) ls).
Proof.
  intros Hun ps eqv sl ends' sid parent Hps Hin d.
  destruct (C04_stored_key ps eqv sl ends' sid parent Hps Hin) as (A & ls & B & D & E). split; auto. exists ls.
  assert (length ls = length (kids_sp T sid parent)) as Hlen.
  { destruct D as [D|(D1 & D2 & (sid0 & c0 & r & Y1 & Y2 & Y3 & Y4))]; auto.
    assert (rule_children T r = Some (kids_sp T sid parent)) as Hc.
    { pose proof (rule_kind_of_strategy T sid0 c0 r Y2) as Hk. unfold rule_children, kids_sp in *. rewrite Y3, Y4.
      destruct (r_kind r); try congruence; destruct (entry_of T sid parent); simpl; auto; congruence. }
    rewrite (Hun sid0 c0 r _ Y1 Y2 Hc). exact D1. }
  rewrite Hlen, firstn_all in B, E. auto.
Qed.

End Contracts.
End C04.

(* Not proved (left to the correspondence and the oracle):
   - C04_forest_empty_rule_once: in the forest modes every empty child of a
     possibly_empty rule receives the empty rule exactly once per label (only
     "an empty rule is only ever recorded for a truly empty class, under that
     class's label" is part of C04_recorded_from_table);
   - completeness: every rule the table yields for an expanded packet IS recorded;
   - the forest keys (EvKey) and the equivalence-edge events are not characterised;
   - "a dropped child is truly empty" under sym_contract alone is NOW PROVED: C04_dropped_only_if_empty below
     (even under sym_fwd, the forward half of sym_contract: C04_dropped_only_if_empty_fwd; the one-sided
     invariant EmptyOK1 is carried through the run in Searcher/OneSided*.v), and sym_fwd cannot be dropped
     or replaced by pe_contract (C04_dropped_only_if_empty_needs_sym_fwd).  The CONVERSE - "a truly empty child
     of a possibly_empty rule IS dropped" - still needs pe_contract: after a rule that is not possibly_empty
     issued set_empty(l, False) the cache says `False` for a class that may be truly empty
     (C04_kept_although_empty_without_pe_contract); it is part of C04_stored_key only. *)

(* ---------------------------------------------------------------------------------------------
   The former statement of the contracts.  pe_contract_old (Searcher/Contracts.v) is the hypothesis
   the three theorems above used to carry: it binds EVERY strategy on EVERY class, symmetry
   strategies on empty classes included.  Together with sym_contract it is unsatisfiable as soon as a
   symmetry yields a rule with a child on an empty class (a symmetry strategy declares
   possibly_empty = False, its image of an empty class is empty) - so on such tables
   C04_set_empty_consistent, C04_empty_cache_truthful, C04_stored_key (and C14_search_states_keep_answers)
   said nothing.  It still implies the repaired contract (pe_contract_old_new). *)
Theorem C04_old_contracts_exclude_each_other : forall (T : table) sid c r c0 rest,
  In sid (t_sym T) -> In r (rules_from_strategy T sid c) -> rule_children T r = Some (c0 :: rest) ->
  r_pe T r = false -> oracle T c = true -> pe_contract_old T -> sym_contract T -> False.
Proof. exact old_contracts_exclude_each_other. Qed.

(* the decision procedure the harness runs on every universe decides the two contracts *)
Theorem C04_contracts_decided : forall (T : table) pack,
  contractsb T pack = true <-> pe_contract T pack /\ sym_contract T.
Proof. exact contractsb_spec. Qed.

(* non-vacuity: a table honouring both contracts whose run records a rule with a
   dropped empty child, a foreign-parent rule of a factory, a lazily failing
   ready rule (no event), a filtered self-equivalence and a symmetry image *)
Definition ex_table : table :=
  mkT [0; 0; 1; 0; 0]
      [ mkS 2 false false false false [(3, mkE [] false false [])] [];                   (* 0: verification *)
        mkS 0 false true true true [(0, mkE [1; 2] false true [0; 1]); (1, mkE [1] true true [0])] [];  (* 1: plain, possibly_empty *)
        mkS 1 false true true true [] [(0, [mkI 1 None false; mkI 3 (Some 1) false; mkI 3 (Some 4) true])]; (* 2: factory *)
        mkS 0 false true false true [(1, mkE [3] true true [1])] [];                      (* 3: hidden plain *)
        mkS 3 false false false false [(0, mkE [4] true true [0])] [] ]                   (* 4: symmetry *)
      [0] [4].
(* the strategies the queue hands out in the example: the plain strategy 1 and the factory 2 *)
Definition ex_pack : list Z := [1; 2].

Example C04_nonvacuous :
  let s := run_search ex_table 0 20 false true [false; false; false; false; false; false; false; false] 0
             [mkP 0 [1] false; mkP 0 [2] false] in
  stat s = Running /\
  In (EvAdd 0 [2; 3] 1 0) (trace s) /\ In (EvStore false 0 [2] 1 0) (trace s) /\
  In (EvAdd 2 [4] 3 1) (trace s) /\ In (EvAdd 0 [1] 4 0) (trace s) /\
  classes (cdb s) = [0; 4; 1; 2; 3].
Proof.
  vm_compute. csplit; try reflexivity; repeat (first [left; reflexivity | right]).
Qed.

(* an empty start class is given the empty rule, under every database, and is not expanded *)
Example C04_nonvacuous_empty_start :
  let s := run_search ex_table 0 20 false true [] 2 [] in
  stat s = Running /\ classes (cdb s) = [2] /\
  rev (trace s) = [EvQAdd 0; EvQStop 0; EvQStop 0; EvAdd 0 [] (-1) 2; EvVerified 0; EvStore false 0 [] (-1) 2].
Proof. vm_compute. csplit; reflexivity. Qed.

(* the contracts hold of ex_table: decided by computation (C04_contracts_decided) *)
Example C04_nonvacuous_pe_contract : pe_contract ex_table ex_pack.
Proof. apply (proj1 (proj1 (contractsb_spec ex_table ex_pack) eq_refl)). Qed.
Example C04_nonvacuous_sym_contract : sym_contract ex_table.
Proof. apply (proj2 (proj1 (contractsb_spec ex_table ex_pack) eq_refl)). Qed.

(* ------------------------------------------------------------------------
   NON-VACUITY (audit): every theorem of this file APPLIED to the run of ex_table above (5 strategies
   of 4 kinds, 5 classes one of which is empty, two packets, 26 events), so that Coq checks that what
   is discharged are the theorems' own hypotheses; the two contracts are discharged by
   C04_nonvacuous_pe_contract / C04_nonvacuous_sym_contract, the packet condition by computation. *)
Definition ex_ans : list bool := [false; false; false; false; false; false; false; false].
Definition ex_p1 : packet := mkP 0 [1] false.
Definition ex_p2 : packet := mkP 0 [2] false.
Notation ex_run ps := (run_search ex_table 0 20 false true ex_ans 0 ps).
Notation exlbl := (label_of Z.eqb (fun c : Z => c)).
Ltac in_trace := vm_compute; repeat (first [left; reflexivity | right]).
Lemma ex_packets : packets_in ex_pack [ex_p1; ex_p2].
Proof. apply (proj1 (packets_inb_spec ex_pack [ex_p1; ex_p2])). reflexivity. Qed.

(* label 2 belongs to class 1 and to no other class *)
Example C04_labels_nonvacuous :
  forall c, exlbl (cdb (ex_run [ex_p1; ex_p2])) c = Some 2 -> c = 1.
Proof.
  intros c H.
  apply (C04_labels ex_table 0 20 false true ex_ans 0 [ex_p1; ex_p2] c 1 2 H). vm_compute; reflexivity.
Qed.
(* the conclusion discriminates: two different labels are in use for two different classes *)
Example C04_labels_distinct :
  exlbl (cdb (ex_run [ex_p1; ex_p2])) 1 = Some 2 /\ exlbl (cdb (ex_run [ex_p1; ex_p2])) 2 = Some 3.
Proof. split; vm_compute; reflexivity. Qed.

(* class 2 got label 3 during the first packet and keeps it over the second one (which labels class 3) *)
Example C04_labels_stable_nonvacuous :
  exlbl (cdb (ex_run ([ex_p1] ++ [ex_p2]))) 2 = Some 3.
Proof.
  apply (C04_labels_stable ex_table 0 20 false true ex_ans 0 [ex_p1] [ex_p2] 2 3). vm_compute; reflexivity.
Qed.
Example C04_labels_stable_db_grows :
  classes (cdb (ex_run [ex_p1])) = [0; 4; 1; 2] /\ classes (cdb (ex_run ([ex_p1] ++ [ex_p2]))) = [0; 4; 1; 2; 3].
Proof. split; vm_compute; reflexivity. Qed.

(* the foreign-parent rule  S3(1) -> (3,)  the factory (strategy 2) yields while class 0 is expanded:
   recorded under label 2 = the label of class 1 (not of the expanded class 0), child label 4 = class 3 *)
Example C04_recorded_from_table_nonvacuous :
  let d := cdb (ex_run [ex_p1; ex_p2]) in
  exlbl d 1 = Some 2 /\
  Forall2 (fun c l => exlbl d c = Some l) (firstn (length [4]) (kids_sp ex_table 3 1)) [4] /\
  ((3 = -1 /\ [4] = [] /\ oracle ex_table 1 = true) \/
   (applies ex_table 3 1 = true /\ yielded ex_table d 3 1 /\
    (length [4] = length (kids_sp ex_table 3 1) \/
     (length [4] = 1%nat /\ kids_sp ex_table 3 1 <> [] /\ sym_yielded ex_table 3 1)))).
Proof.
  apply (C04_recorded_from_table ex_table 0 20 false true ex_ans 0 [ex_p1; ex_p2] 2 [4] 3 1). in_trace.
Qed.
(* which branches are really taken: a table rule takes the right branch with ALL children (first
   disjunct inside); the empty rule of an empty start class takes the left branch *)
Example C04_recorded_from_table_branches :
  kids_sp ex_table 3 1 = [3] /\ applies ex_table 3 1 = true /\ oracle ex_table 1 = false /\
  In (EvAdd 0 [] (-1) 2) (trace (run_search ex_table 0 20 false true [] 2 [])) /\
  oracle ex_table 2 = true /\ applies ex_table (-1) 2 = false.
Proof. csplit; try (vm_compute; reflexivity). in_trace. Qed.
Example C04_recorded_from_table_empty_rule_nonvacuous :
  let d := cdb (run_search ex_table 0 20 false true [] 2 []) in
  exlbl d 2 = Some 0 /\
  Forall2 (fun c l => exlbl d c = Some l) (firstn (length (@nil Z)) (kids_sp ex_table (-1) 2)) [] /\
  ((-1 = -1 /\ @nil Z = [] /\ oracle ex_table 2 = true) \/
   (applies ex_table (-1) 2 = true /\ yielded ex_table d (-1) 2 /\
    (length (@nil Z) = length (kids_sp ex_table (-1) 2) \/
     (length (@nil Z) = 1%nat /\ kids_sp ex_table (-1) 2 <> [] /\ sym_yielded ex_table (-1) 2)))).
Proof.
  apply (C04_recorded_from_table ex_table 0 20 false true [] 2 [] 0 [] (-1) 2). in_trace.
Qed.

(* the symmetry image  S4(0) -> (4,)  is a recorded rule with sid <> -1: strategy 4 applies to class 0
   and the rule is not the self-equivalence *)
Example C04_no_rule_when_not_applicable_nonvacuous :
  applies ex_table 4 0 = true /\ kids_sp ex_table 4 0 <> [0].
Proof.
  apply (C04_no_rule_when_not_applicable ex_table 0 20 false true ex_ans 0 [ex_p1; ex_p2] 0 [1] 4 0).
  - in_trace.
  - discriminate.
Qed.
(* near misses: strategy 3 does not apply to class 0 and the lazily built ready rule S3(4) of the factory
   has no children: nothing is recorded for either *)
Example C04_no_rule_when_not_applicable_near_miss :
  applies ex_table 3 0 = false /\ applies ex_table 3 4 = false /\
  forallb (fun e => match e with
                    | EvAdd _ _ 3 p => negb ((p =? 0) || (p =? 4))
                    | _ => true end) (trace (ex_run [ex_p1; ex_p2])) = true.
Proof. csplit; vm_compute; reflexivity. Qed.

(* the stored key of  S1(0) -> (1, 2)  with class 2 empty and strategy 1 possibly_empty: (0, (2,)) *)
Example C04_stored_key_partial_nonvacuous :
  let d := cdb (ex_run [ex_p1; ex_p2]) in
  exlbl d 0 = Some 0 /\
  exists ls bs,
    Forall2 (fun c l => exlbl d c = Some l) (firstn (length ls) (kids_sp ex_table 1 0)) ls /\
    (length ls = length (kids_sp ex_table 1 0) \/
     (length ls = 1%nat /\ kids_sp ex_table 1 0 <> [] /\ sym_yielded ex_table 1 0)) /\
    length bs = length ls /\ [2] = isort (select bs ls) /\
    (pe_of ex_table 1 = false -> [2] = isort ls).
Proof.
  apply (C04_stored_key_partial ex_table 0 20 false true ex_ans 0 [ex_p1; ex_p2] false 0 [2] 1 0). in_trace.
Qed.
(* ... and for a rule that is not possibly_empty (S3(1) -> (3,), stored as an equivalence) the last
   clause is not vacuous *)
Example C04_stored_key_partial_not_pe_nonvacuous :
  let d := cdb (ex_run [ex_p1; ex_p2]) in
  exlbl d 1 = Some 2 /\
  exists ls bs,
    Forall2 (fun c l => exlbl d c = Some l) (firstn (length ls) (kids_sp ex_table 3 1)) ls /\
    (length ls = length (kids_sp ex_table 3 1) \/
     (length ls = 1%nat /\ kids_sp ex_table 3 1 <> [] /\ sym_yielded ex_table 3 1)) /\
    length bs = length ls /\ [4] = isort (select bs ls) /\
    (pe_of ex_table 3 = false -> [4] = isort ls).
Proof.
  apply (C04_stored_key_partial ex_table 0 20 false true ex_ans 0 [ex_p1; ex_p2] true 2 [4] 3 1). in_trace.
Qed.
Example C04_stored_key_partial_flags : pe_of ex_table 1 = true /\ pe_of ex_table 3 = false.
Proof. split; reflexivity. Qed.

(* set_empty(4, False) was issued for label 4 = class 3, which is not empty; set_empty(1, False) for the
   symmetry image *)
Example C04_set_empty_consistent_nonvacuous :
  exists c, exlbl (cdb (ex_run [ex_p1; ex_p2])) c = Some 4 /\ oracle ex_table c = false.
Proof.
  apply (C04_set_empty_consistent ex_table 0 20 false true ex_ans 0 ex_pack
           C04_nonvacuous_pe_contract C04_nonvacuous_sym_contract [ex_p1; ex_p2] 4 false ex_packets). in_trace.
Qed.

(* the cache holds `true` at position 3 (class 2, truly empty) and `false` at position 2 (class 1) *)
Example C04_empty_cache_truthful_nonvacuous :
  true = oracle ex_table 2 /\ false = oracle ex_table 1.
Proof.
  split.
  - apply (C04_empty_cache_truthful ex_table 0 20 false true ex_ans 0 ex_pack
             C04_nonvacuous_pe_contract C04_nonvacuous_sym_contract [ex_p1; ex_p2] 3%nat 2 true ex_packets);
      vm_compute; reflexivity.
  - apply (C04_empty_cache_truthful ex_table 0 20 false true ex_ans 0 ex_pack
             C04_nonvacuous_pe_contract C04_nonvacuous_sym_contract [ex_p1; ex_p2] 2%nat 1 false ex_packets);
      vm_compute; reflexivity.
Qed.

(* under the contracts the key of  S1(0) -> (1, 2)  is exactly (0, sorted(labels of the non-empty kids)) *)
Example C04_stored_key_nonvacuous :
  let d := cdb (ex_run [ex_p1; ex_p2]) in
  exlbl d 0 = Some 0 /\
  exists ls,
    Forall2 (fun c l => exlbl d c = Some l) (firstn (length ls) (kids_sp ex_table 1 0)) ls /\
    (length ls = length (kids_sp ex_table 1 0) \/
     (length ls = 1%nat /\ kids_sp ex_table 1 0 <> [] /\ sym_yielded ex_table 1 0)) /\
    [2] = isort (select (map (fun c => negb (pe_of ex_table 1 && oracle ex_table c))
                             (firstn (length ls) (kids_sp ex_table 1 0))) ls).
Proof.
  apply (C04_stored_key ex_table 0 20 false true ex_ans 0 ex_pack
           C04_nonvacuous_pe_contract C04_nonvacuous_sym_contract [ex_p1; ex_p2] false 0 [2] 1 0 ex_packets). in_trace.
Qed.
(* the witness: ls = [2; 3] (labels of classes 1 and 2), the flag of the empty class 2 is false *)
Example C04_stored_key_witness :
  let d := cdb (ex_run [ex_p1; ex_p2]) in
  Forall2 (fun c l => exlbl d c = Some l) (firstn 2 (kids_sp ex_table 1 0)) [2; 3] /\
  map (fun c => negb (pe_of ex_table 1 && oracle ex_table c)) (firstn 2 (kids_sp ex_table 1 0)) = [true; false] /\
  isort (select [true; false] [2; 3]) = [2].
Proof. cbv zeta. csplit; [repeat constructor| |]; vm_compute; reflexivity. Qed.

(* ------------------------------------------------------------------------
   APPLIED to a table with a SYMMETRY ENTRY ON AN EMPTY CLASS (the situation the former contracts excluded):
   classes 2 and 3 are empty, the symmetry (strategy 2, possibly_empty = False) maps 0 -> (4) and the empty
   class 2 -> the empty class 3; the possibly_empty strategy 1 decomposes the start class 0 into (1, 2), so the
   empty class 2 is labelled (label 3), symmetry-expanded (class 3 gets label 4), the searcher calls
   set_empty(4, True), the rule  S2(2) -> (3,)  is recorded and stored under (3, (4,)) with its EMPTY child KEPT
   (the rule is not possibly_empty: fix 0aef1b9), and the empty child of S1(0) is dropped: (0, (2,)). *)
Definition sx_table : table :=
  mkT [0; 0; 1; 1; 0]
      [ mkS 2 false false false false [(1, mkE [] false false [])] [];                                   (* 0: verification *)
        mkS 0 false true true true [(0, mkE [1; 2] false true [0; 1])] [];                              (* 1: plain, possibly_empty *)
        mkS 3 false false false false [(0, mkE [4] true true [0]); (2, mkE [3] true true [0])] [] ]    (* 2: symmetry *)
      [0] [2].
Definition sx_pack : list Z := [1].
Definition sx_ps : list packet := [mkP 0 [1] false].
Notation sx_run := (run_search sx_table 0 20 false true ex_ans 0 sx_ps).

Example C04_sx_run :
  stat sx_run = Running /\ classes (cdb sx_run) = [0; 4; 1; 2; 3] /\
  empties (cdb sx_run) = [Some false; Some false; Some false; Some true; Some true] /\
  rev (trace sx_run) =
    [EvQAdd 0; EvSetEmpty 1 false; EvAdd 0 [1] 2 0; EvEdge true 0 1; EvStore true 0 [1] 2 0; EvQStop 1;
     EvQAdd 2; EvAdd 2 [] 0 1; EvVerified 2; EvStore false 2 [] 0 1;
     EvSetEmpty 4 true; EvAdd 3 [4] 2 2; EvEdge true 3 4; EvStore true 3 [4] 2 2; EvQStop 4;
     EvQAdd 3; EvAdd 0 [2; 3] 1 0; EvQStop 3; EvEdge false 0 2; EvStore false 0 [2] 1 0].
Proof. vm_compute. csplit; reflexivity. Qed.

(* the FORMER contracts cannot both hold of sx_table ... *)
Example C04_sx_old_contracts_contradictory : pe_contract_old sx_table -> sym_contract sx_table -> False.
Proof.
  apply (C04_old_contracts_exclude_each_other sx_table 2 2 (mkR 2 2 RPlain) 3 []); try reflexivity.
  - left; reflexivity.
  - vm_compute. left; reflexivity.
Qed.
(* ... the repaired ones do (decided by computation) *)
Example C04_sx_pe_contract : pe_contract sx_table sx_pack.
Proof. apply (proj1 (proj1 (contractsb_spec sx_table sx_pack) eq_refl)). Qed.
Example C04_sx_sym_contract : sym_contract sx_table.
Proof. apply (proj2 (proj1 (contractsb_spec sx_table sx_pack) eq_refl)). Qed.
Example C04_sx_sym_unary : sym_unary sx_table.
Proof. apply (proj1 (sym_unaryb_spec sx_table)). reflexivity. Qed.
Lemma sx_packets : packets_in sx_pack sx_ps.
Proof. apply (proj1 (packets_inb_spec sx_pack sx_ps)). reflexivity. Qed.

(* set_empty(4, True): label 4 carries class 3, which IS empty *)
Example C04_set_empty_consistent_sym_on_empty :
  exists c, exlbl (cdb sx_run) c = Some 4 /\ oracle sx_table c = true.
Proof.
  apply (C04_set_empty_consistent sx_table 0 20 false true ex_ans 0 sx_pack
           C04_sx_pe_contract C04_sx_sym_contract sx_ps 4 true sx_packets). in_trace.
Qed.
(* the cache says `empty` for label 4 (class 3) and for label 3 (class 2): both are *)
Example C04_empty_cache_truthful_sym_on_empty :
  true = oracle sx_table 3 /\ true = oracle sx_table 2.
Proof.
  split.
  - apply (C04_empty_cache_truthful sx_table 0 20 false true ex_ans 0 sx_pack
             C04_sx_pe_contract C04_sx_sym_contract sx_ps 4%nat 3 true sx_packets); vm_compute; reflexivity.
  - apply (C04_empty_cache_truthful sx_table 0 20 false true ex_ans 0 sx_pack
             C04_sx_pe_contract C04_sx_sym_contract sx_ps 3%nat 2 true sx_packets); vm_compute; reflexivity.
Qed.
(* the stored key of the symmetry rule on the empty class 2: all (= the one) children, the empty child kept *)
Example C04_stored_key_sym_on_empty :
  let d := cdb sx_run in
  exlbl d 2 = Some 3 /\
  exists ls,
    Forall2 (fun c l => exlbl d c = Some l) (kids_sp sx_table 2 2) ls /\
    [4] = isort (select (map (fun c => negb (pe_of sx_table 2 && oracle sx_table c)) (kids_sp sx_table 2 2)) ls).
Proof.
  apply (C04_stored_key_all_children sx_table 0 20 false true ex_ans 0 sx_pack
           C04_sx_pe_contract C04_sx_sym_contract C04_sx_sym_unary sx_ps true 3 [4] 2 2 sx_packets). in_trace.
Qed.
Example C04_stored_key_sym_on_empty_facts :
  kids_sp sx_table 2 2 = [3] /\ oracle sx_table 3 = true /\ pe_of sx_table 2 = false.
Proof. csplit; reflexivity. Qed.
(* ... and of the possibly_empty rule S1(0) -> (1, 2): the empty child (class 2, label 3) dropped *)
Example C04_stored_key_dropped_on_sx :
  let d := cdb sx_run in
  exlbl d 0 = Some 0 /\
  exists ls,
    Forall2 (fun c l => exlbl d c = Some l) (kids_sp sx_table 1 0) ls /\
    [2] = isort (select (map (fun c => negb (pe_of sx_table 1 && oracle sx_table c)) (kids_sp sx_table 1 0)) ls).
Proof.
  apply (C04_stored_key_all_children sx_table 0 20 false true ex_ans 0 sx_pack
           C04_sx_pe_contract C04_sx_sym_contract C04_sx_sym_unary sx_ps false 0 [2] 1 0 sx_packets). in_trace.
Qed.

(* ------------------------------------------------------------------------
   Why clause (b) of pe_contract is there.  The DOCUMENTED contract alone ("a possibly_empty = False strategy
   has no empty child on a NON-EMPTY class") together with sym_contract does not make the emptiness cache
   truthful: the searcher does present empty classes to non-symmetry strategies.  Here the factory 1 (handed
   out by the queue for the start class 0) yields the ready rule  S2(1) -> (2,)  with the foreign, EMPTY parent
   class 1 and the empty child 2; strategy 2 is not possibly_empty, add_rule calls set_empty(label of 2, False). *)
Definition documented_pe_contract (T : table) : Prop := forall sid c e,
  entry_of T sid c = Some e -> pe_of T sid = false -> oracle T c = false ->
  forall k, In k (e_children e) -> oracle T k = false.
Definition dx_table : table :=
  mkT [0; 1; 1]
      [ mkS 2 false false false false [] [];
        mkS 1 false true true true [] [(0, [mkI 2 (Some 1) false])];
        mkS 0 false true false true [(1, mkE [2] false false [0])] [] ]
      [0] [].
Theorem C04_documented_contracts_insufficient_refuted :
  let s := run_search dx_table 0 20 false true ex_ans 0 [mkP 0 [1] false] in
  documented_pe_contract dx_table /\ sym_contract dx_table /\ packets_in [1] [mkP 0 [1] false] /\
  stat s = Running /\ In (EvSetEmpty 1 false) (trace s) /\
  exlbl (cdb s) 2 = Some 1 /\ oracle dx_table 2 = true /\ contractsb dx_table [1] = false.
Proof.
  cbv zeta. csplit; try (vm_compute; reflexivity).
  - intros sid c e He Hpe Ho k Hk. unfold entry_of in He.
    destruct (strat_of dx_table sid) as [x|] eqn:Es; [|discriminate].
    unfold strat_of in Es. destruct (sid <? 0); [discriminate|].
    destruct (Z.to_nat sid) as [|[|[|n]]]; simpl in Es; try (destruct n; discriminate); injection Es as <-;
      simpl in He; try discriminate.
    destruct c as [|[q|q|]|q]; discriminate.
  - intros sid c r c0 rest [].
  - apply (proj1 (packets_inb_spec [1] [mkP 0 [1] false])). reflexivity.
  - in_trace.
Qed.

(* ---------------------------------------------------------------------------------------------
   COMPOSITION C04 -> C14 / C02.  Every run of the searcher model on a pruning database (mode 0: RuleDB /
   RuleDBForgetStrategy) builds its rule stores by an add_hist history in the sense of RuleDB/AddHist.v (the
   hypothesis of C14_stored_rule_is_handed_back, C02_find_rule_total): there is a RuleDB state  a  and a list  l  of
   ruledb.add steps (newest first) with  add_hist_l T l a  - each step made under add_pre in the class database AT
   THE TIME OF THE CALL (start = label of the rule's parent, ends = labels of ALL its children), with kind_ok and
   twoway_faithful - such that the steps are exactly, in order, the ruledb.add events of the trace, the class
   database and the key sets of the two stores of  a  are those of the run, the calls  a  made on the equivalence
   database are the trace's set_verified / edge events, and the emptiness cache is truthful.
   For ANY table honouring the contracts, start class, packets of pack strategies, answers, fuel, driver - also
   for runs that die or run out of fuel (the statement is about the state they stop in).
   Hypotheses that are NOT discharged, and why:
   - sym_unary: the record of a rule a symmetry yields carries the label of its first child only; add_pre needs
     the labels of all children, so symmetry rules must be unary (SymmetryStrategy is; a factory passed as a
     symmetry may not be);
   - twoway_faithful for the rule objects of the table: in Python a rule object IS strategy(comb_class); in the
     table model a factory item may name a verification strategy, and then the model's RPlain rule object differs
     from its re-application (RVer).  RuleDB.SearchHist.items_plain_faithful derives it from the decidable table
     condition "no factory item names a verification strategy" (items_plainb). *)
Theorem C04_search_gives_add_hist : forall (T : table) (pack : list Z),
  sym_unary T -> (forall sid0 c0 r, In r (rules_from_strategy T sid0 c0) -> AddHist.twoway_faithful T r) ->
  pe_contract T pack -> sym_contract T ->
  forall F dl ev ans start ps, packets_in pack ps ->
  let s := run_search T 0 F dl ev ans start ps in
  exists a l, SearchHist.add_hist_l T l a /\ AddHist.add_hist T a /\
    RuleDB.Model.b_cdb RuleDB.Model.dstore a = cdb s /\
    RuleDB.Model.d_keys (RuleDB.Model.b_r RuleDB.Model.dstore a) = rstore s /\
    RuleDB.Model.d_keys (RuleDB.Model.b_e RuleDB.Model.dstore a) = estore s /\
    SearchHist.adds_of (trace s) = map SearchHist.add_ev l /\
    SearchHist.eqs_of (trace s) = RuleDB.Model.b_eq RuleDB.Model.dstore a /\
    EmptyOK (fun k : Z => k) (oracle T) (cdb s).
Proof.
  intros T pack Hu Hf Hp Hs F dl ev ans start ps Hps s.
  destruct (SearchHist.search_gives_add_hist T 0 pack Hu Hf Hp Hs F dl ev ans start ps Hps eq_refl)
    as (a & l & A & B). exists a, l. split; [exact A|]. split; [apply (SearchHist.add_hist_l_hist T l a A)|exact B].
Qed.

(* ... hence every ruledb.add(start, ends, rule (sid, parent)) event of such a run was made under add_pre in the
   class database d of that moment, and the class database the run ends in still gives the labels and is_empty
   answers of the database that call left (pres: what a later lookup in RuleDBForgetStrategy needs) *)
Theorem C04_adds_made_under_add_pre : forall (T : table) (pack : list Z),
  sym_unary T -> (forall sid0 c0 r, In r (rules_from_strategy T sid0 c0) -> AddHist.twoway_faithful T r) ->
  pe_contract T pack -> sym_contract T ->
  forall F dl ev ans start ps, packets_in pack ps ->
  let s := run_search T 0 F dl ev ans start ps in
  forall start_label ends sid parent, In (EvAdd start_label ends sid parent) (trace s) ->
  exists d r cs, r_sid r = sid /\ r_parent r = parent /\
    AddProofs.add_pre T d start_label ends r cs /\ GetProofs.kind_ok T r /\
    CdbFacts.pres T (RuleDB.Model.b_cdb RuleDB.Model.dstore
                       (RuleDB.Model.dict_add T (RuleDB.Model.dict_init d) start_label ends r)) (cdb s).
Proof.
  intros T pack Hu Hf Hp Hs F dl ev ans start ps Hps s sl ends sid parent Hin.
  destruct (SearchHist.search_gives_add_hist T 0 pack Hu Hf Hp Hs F dl ev ans start ps Hps eq_refl)
    as (a & l & A & B & _ & _ & D & _).
  assert (In (EvAdd sl ends sid parent) (SearchHist.adds_of (trace s))) as Hin'.
  { apply SearchHist.adds_of_In. split; [exact Hin|eauto]. }
  fold s in D. rewrite D in Hin'. apply in_map_iff in Hin' as (x & Hx & Hxl).
  pose proof (SearchHist.add_hist_l_steps T l a A) as Hall. rewrite Forall_forall in Hall.
  destruct (Hall x Hxl) as (P1 & P2 & P3). unfold SearchHist.add_ev in Hx. injection Hx as <- <- <- <-.
  exists (SearchHist.h_d x), (SearchHist.h_r x), (SearchHist.h_cs x). fold s in B. rewrite <- B. auto.
Qed.

(* applied to the run of sx_table (symmetry on an empty class): 5 ruledb.add calls, newest first *)
Example C04_sx_faithful : forall sid0 c0 r, In r (rules_from_strategy sx_table sid0 c0) -> AddHist.twoway_faithful sx_table r.
Proof. apply SearchHist.items_plain_faithful. reflexivity. Qed.
Example C04_search_gives_add_hist_nonvacuous :
  exists a l, SearchHist.add_hist_l sx_table l a /\ AddHist.add_hist sx_table a /\
    RuleDB.Model.b_cdb RuleDB.Model.dstore a = cdb sx_run /\
    RuleDB.Model.d_keys (RuleDB.Model.b_r RuleDB.Model.dstore a) = rstore sx_run /\
    RuleDB.Model.d_keys (RuleDB.Model.b_e RuleDB.Model.dstore a) = estore sx_run /\
    SearchHist.adds_of (trace sx_run) = map SearchHist.add_ev l /\
    SearchHist.eqs_of (trace sx_run) = RuleDB.Model.b_eq RuleDB.Model.dstore a /\
    EmptyOK (fun k : Z => k) (oracle sx_table) (cdb sx_run).
Proof.
  exact (C04_search_gives_add_hist sx_table sx_pack C04_sx_sym_unary C04_sx_faithful C04_sx_pe_contract C04_sx_sym_contract
           20%nat false true ex_ans 0 sx_ps sx_packets).
Qed.
Example C04_search_gives_add_hist_values :
  rstore sx_run = [(2, []); (0, [2])] /\ estore sx_run = [(0, [1]); (3, [4])] /\
  SearchHist.adds_of (trace sx_run) = [EvAdd 0 [2; 3] 1 0; EvAdd 3 [4] 2 2; EvAdd 2 [] 0 1; EvAdd 0 [1] 2 0] /\
  SearchHist.eqs_of (trace sx_run) =
    [RuleDB.Model.EqEdge false 0 2; RuleDB.Model.EqEdge true 3 4; RuleDB.Model.EqVerified 2; RuleDB.Model.EqEdge true 0 1].
Proof. csplit; vm_compute; reflexivity. Qed.
(* the add of the symmetry rule on the EMPTY class 2 (label 3) was made with the label of its (empty) child 3 *)
Example C04_adds_made_under_add_pre_nonvacuous :
  exists d r cs, r_sid r = 2 /\ r_parent r = 2 /\ AddProofs.add_pre sx_table d 3 [4] r cs /\ GetProofs.kind_ok sx_table r /\
    CdbFacts.pres sx_table (RuleDB.Model.b_cdb RuleDB.Model.dstore
                              (RuleDB.Model.dict_add sx_table (RuleDB.Model.dict_init d) 3 [4] r)) (cdb sx_run).
Proof.
  apply (C04_adds_made_under_add_pre sx_table sx_pack C04_sx_sym_unary C04_sx_faithful C04_sx_pe_contract C04_sx_sym_contract
           20%nat false true ex_ans 0 sx_ps sx_packets 3 [4] 2 2). in_trace.
Qed.

(* ---------------------------------------------------------------------------------------------
   ONE-SIDED truthfulness of the emptiness cache, under sym_contract ALONE (in fact under its forward half
   sym_fwd: the image of an EMPTY class under a symmetry is empty) - no pe_contract, no condition on the packets:
   for EVERY table, mode, fuel, driver, answers, start class, packets.  The cache is written by is_empty (the
   class's own answer), by add_rule (set_empty(child, False): the value False says nothing here) and by
   _symmetry_expand (the value is_empty returned for the class being expanded, written on the first child of a
   rule a symmetry yields on it).  Instances of Searcher.OneSidedProofs.run_search_inv1. *)
Theorem C04_cache_empty_truthful_one_sided : forall (T : table) mode F do_level expand_verified answers start,
  sym_fwd T ->
  forall ps i c,
  nth_error (classes (cdb (run_search T mode F do_level expand_verified answers start ps))) i = Some c ->
  nth_error (empties (cdb (run_search T mode F do_level expand_verified answers start ps))) i = Some (Some true) ->
  oracle T c = true.
Proof. exact one_sided_cache_truthful. Qed.

Theorem C04_set_empty_true_truthful : forall (T : table) mode F do_level expand_verified answers start,
  sym_fwd T ->
  forall ps l,
  In (EvSetEmpty l true) (trace (run_search T mode F do_level expand_verified answers start ps)) ->
  exists c, label_of Z.eqb (fun c : Z => c) (cdb (run_search T mode F do_level expand_verified answers start ps)) c = Some l /\
            oracle T c = true.
Proof. exact one_sided_set_empty_true. Qed.

(* sym_fwd is decidable on a table: the harness runs the extracted sym_fwdb (run_c04, mode 101) on every retained
   universe - table universes and tabulated word searches - and compares it with its Python predicate *)
Theorem C04_sym_fwd_decided : forall (T : table), sym_fwdb T = true <-> sym_fwd T.
Proof. exact sym_fwdb_spec. Qed.

(* the stored key of C04_stored_key_partial, plus: every child missing from it is a child of a possibly_empty
   rule AND its class is truly empty *)
Theorem C04_dropped_only_if_empty_fwd : forall (T : table) mode F do_level expand_verified answers start,
  sym_fwd T ->
  forall ps eqv start_label ends' sid parent,
  In (EvStore eqv start_label ends' sid parent) (trace (run_search T mode F do_level expand_verified answers start ps)) ->
  let d := cdb (run_search T mode F do_level expand_verified answers start ps) in
  label_of Z.eqb (fun c : Z => c) d parent = Some start_label /\
  exists ls bs,
    Forall2 (fun c l => label_of Z.eqb (fun c : Z => c) d c = Some l) (firstn (length ls) (kids_sp T sid parent)) ls /\
    (length ls = length (kids_sp T sid parent) \/
     (length ls = 1%nat /\ kids_sp T sid parent <> [] /\ sym_yielded T sid parent)) /\
    length bs = length ls /\ ends' = isort (select bs ls) /\
    Forall2 (fun b c => b = false -> pe_of T sid = true /\ oracle T c = true) bs (firstn (length ls) (kids_sp T sid parent)).
Proof. exact one_sided_dropped_only_if_empty. Qed.

Theorem C04_dropped_only_if_empty : forall (T : table) mode F do_level expand_verified answers start,
  sym_contract T ->
  forall ps eqv start_label ends' sid parent,
  In (EvStore eqv start_label ends' sid parent) (trace (run_search T mode F do_level expand_verified answers start ps)) ->
  let d := cdb (run_search T mode F do_level expand_verified answers start ps) in
  label_of Z.eqb (fun c : Z => c) d parent = Some start_label /\
  exists ls bs,
    Forall2 (fun c l => label_of Z.eqb (fun c : Z => c) d c = Some l) (firstn (length ls) (kids_sp T sid parent)) ls /\
    (length ls = length (kids_sp T sid parent) \/
     (length ls = 1%nat /\ kids_sp T sid parent <> [] /\ sym_yielded T sid parent)) /\
    length bs = length ls /\ ends' = isort (select bs ls) /\
    Forall2 (fun b c => b = false -> pe_of T sid = true /\ oracle T c = true) bs (firstn (length ls) (kids_sp T sid parent)).
Proof.
  intros T mode F dl ev ans start Hs.
  exact (C04_dropped_only_if_empty_fwd T mode F dl ev ans start (sym_contract_fwd T Hs)).
Qed.

(* NECESSITY of sym_fwd, and pe_contract cannot replace it.  Class 1 is EMPTY, class 2 is not; the symmetry
   (strategy 1) maps the empty class 1 to the NON-empty class 2, so sym_fwd fails, while pe_contract holds (the
   symmetry is not handed out by the queue).  The possibly_empty strategy 0 decomposes the start class 0 into
   (1, 2): the empty child 1 is symmetry-expanded, _symmetry_expand issues set_empty(label of 2, True), and
   RuleDBBase.add then drops BOTH children of S0(0) - the stored key is (0, ()) - although class 2 is not empty. *)
Definition nx_table : table :=
  mkT [0; 1; 0]
      [ mkS 0 false true true true [(0, mkE [1; 2] false true [0; 1])] [];      (* 0: plain, possibly_empty *)
        mkS 3 false false false false [(1, mkE [2] true true [0])] [] ]          (* 1: symmetry *)
      [] [1].
Notation nx_run := (run_search nx_table 0 20 false true [] 0 [mkP 0 [0] false]).
Theorem C04_dropped_only_if_empty_needs_sym_fwd :
  ~ sym_fwd nx_table /\ ~ sym_contract nx_table /\
  pe_contract nx_table [0] /\ packets_in [0] [mkP 0 [0] false] /\
  stat nx_run = Running /\
  rev (trace nx_run) =
    [EvQAdd 0; EvSetEmpty 2 true; EvAdd 1 [2] 1 1; EvEdge true 1 2; EvStore true 1 [2] 1 1; EvQStop 2;
     EvQAdd 1; EvQAdd 2; EvAdd 0 [1; 2] 0 0; EvQStop 1; EvQStop 2; EvStore false 0 [] 0 0] /\
  In (EvSetEmpty 2 true) (trace nx_run) /\ In (EvStore false 0 [] 0 0) (trace nx_run) /\
  kids_sp nx_table 0 0 = [1; 2] /\ pe_of nx_table 0 = true /\
  exlbl (cdb nx_run) 1 = Some 1 /\ exlbl (cdb nx_run) 2 = Some 2 /\
  (* the child 2 (label 2) is missing from the stored key (0, ()), and it is NOT empty *)
  oracle nx_table 2 = false /\ oracle nx_table 1 = true /\
  empties (cdb nx_run) = [Some false; Some true; Some true].
Proof.
  assert (~ sym_fwd nx_table) as Hn.
  { intros H. specialize (H 1 1 (mkR 1 1 RPlain) 2 []). vm_compute in H.
    assert (false = true) as X by (apply H; auto). discriminate X. }
  split; [exact Hn|]. split; [intros H; apply Hn; apply sym_contract_fwd; exact H|].
  split; [apply (proj1 (pe_contractb_spec nx_table [0])); vm_compute; reflexivity|].
  split; [apply (proj1 (packets_inb_spec [0] [mkP 0 [0] false])); reflexivity|].
  csplit; try (vm_compute; reflexivity); in_trace.
Qed.

(* ... so the CONCLUSION of C04_dropped_only_if_empty is false for that EvStore event: whatever labels ls and flags bs
   one picks, some flag is false on the non-empty class 2 (or the key would not be empty) *)
Theorem C04_dropped_only_if_empty_conclusion_fails_without_sym_fwd :
  let d := cdb nx_run in
  In (EvStore false 0 [] 0 0) (trace nx_run) /\
  ~ (exlbl d 0 = Some 0 /\
     exists ls bs,
       Forall2 (fun c l => exlbl d c = Some l) (firstn (length ls) (kids_sp nx_table 0 0)) ls /\
       (length ls = length (kids_sp nx_table 0 0) \/
        (length ls = 1%nat /\ kids_sp nx_table 0 0 <> [] /\ sym_yielded nx_table 0 0)) /\
       length bs = length ls /\ [] = isort (select bs ls) /\
       Forall2 (fun b c => b = false -> pe_of nx_table 0 = true /\ oracle nx_table c = true) bs (firstn (length ls) (kids_sp nx_table 0 0))).
Proof.
  cbv zeta. split; [in_trace|].
  intros (_ & ls & bs & _ & [L|(_ & _ & Y)] & Lb & E & Fa).
  - change (kids_sp nx_table 0 0) with [1; 2] in *.
    destruct ls as [|l1 [|l2 [|]]]; try discriminate L.
    destruct bs as [|b1 [|b2 [|]]]; try discriminate Lb.
    simpl in Fa. inversion Fa as [|? ? ? ? _ Fa']; subst. inversion Fa' as [|? ? ? ? H2 _]; subst.
    destruct b2.
    + destruct b1; unfold isort in E; simpl in E; try discriminate E.
      destruct (l1 <=? l2); discriminate E.
    + destruct (H2 eq_refl) as (_ & X). vm_compute in X. discriminate X.
  - destruct Y as (sid0 & c0 & r & Y1 & Y2 & Y3 & Y4).
    change (t_sym nx_table) with [1] in Y1. destruct Y1 as [<-|[]].
    unfold rules_from_strategy in Y2. set (x := strat_of nx_table 1) in Y2. vm_compute in x. subst x.
    cbv iota beta in Y2. simpl in Y2.
    destruct (applies nx_table 1 c0); simpl in Y2; [|contradiction].
    destruct Y2 as [<-|[]]. simpl in Y3. discriminate Y3.
Qed.

(* NON-VACUITY: the new theorem applied to the run of ex_table (both contracts hold): the key of
   S1(0) -> (1, 2), from which the empty child 2 was dropped *)
Example C04_dropped_only_if_empty_nonvacuous :
  let d := cdb (ex_run [ex_p1; ex_p2]) in
  exlbl d 0 = Some 0 /\
  exists ls bs,
    Forall2 (fun c l => exlbl d c = Some l) (firstn (length ls) (kids_sp ex_table 1 0)) ls /\
    (length ls = length (kids_sp ex_table 1 0) \/
     (length ls = 1%nat /\ kids_sp ex_table 1 0 <> [] /\ sym_yielded ex_table 1 0)) /\
    length bs = length ls /\ [2] = isort (select bs ls) /\
    Forall2 (fun b c => b = false -> pe_of ex_table 1 = true /\ oracle ex_table c = true) bs (firstn (length ls) (kids_sp ex_table 1 0)).
Proof.
  apply (C04_dropped_only_if_empty ex_table 0 20 false true ex_ans 0 C04_nonvacuous_sym_contract
           [ex_p1; ex_p2] false 0 [2] 1 0). in_trace.
Qed.
(* ... and to the run of dx_table, where pe_contract FAILS (contractsb dx_table [1] = false,
   C04_documented_contracts_insufficient_refuted) but sym_contract holds: a run C04_stored_key does not cover *)
Example C04_dx_sym_contract : sym_contract dx_table.
Proof. intros sid c r c0 rest []. Qed.
Example C04_dropped_only_if_empty_without_pe_contract :
  let d := cdb (run_search dx_table 0 20 false true ex_ans 0 [mkP 0 [1] false]) in
  contractsb dx_table [1] = false /\
  exlbl d 1 = Some 2 /\
  exists ls bs,
    Forall2 (fun c l => exlbl d c = Some l) (firstn (length ls) (kids_sp dx_table 2 1)) ls /\
    (length ls = length (kids_sp dx_table 2 1) \/
     (length ls = 1%nat /\ kids_sp dx_table 2 1 <> [] /\ sym_yielded dx_table 2 1)) /\
    length bs = length ls /\ [1] = isort (select bs ls) /\
    Forall2 (fun b c => b = false -> pe_of dx_table 2 = true /\ oracle dx_table c = true) bs (firstn (length ls) (kids_sp dx_table 2 1)).
Proof.
  cbv zeta. split; [vm_compute; reflexivity|].
  apply (C04_dropped_only_if_empty dx_table 0 20 false true ex_ans 0 C04_dx_sym_contract
           [mkP 0 [1] false] false 2 [1] 2 1). in_trace.
Qed.

(* the CONVERSE needs pe_contract.  No symmetry (sym_contract holds), class 1 is EMPTY; strategy 0 is not
   possibly_empty and has the empty child 1 on the non-empty class 0 (pe_contract fails): add_rule issues
   set_empty(1, False), and the possibly_empty rule S1(0) -> (1, 2) KEEPS its truly empty child: key (0, (1, 2)) *)
Definition kx_table : table :=
  mkT [0; 1; 0]
      [ mkS 0 false true false true [(0, mkE [1] false true [0])] [];            (* 0: plain, NOT possibly_empty *)
        mkS 0 false true true true [(0, mkE [1; 2] false true [0; 1])] [] ]      (* 1: plain, possibly_empty *)
      [] [].
Notation kx_run := (run_search kx_table 0 20 false true [] 0 [mkP 0 [0; 1] false]).
Example C04_kept_although_empty_without_pe_contract :
  sym_contract kx_table /\ ~ pe_contract kx_table [0; 1] /\ packets_in [0; 1] [mkP 0 [0; 1] false] /\
  stat kx_run = Running /\
  In (EvSetEmpty 1 false) (trace kx_run) /\ In (EvStore false 0 [1; 2] 1 0) (trace kx_run) /\
  kids_sp kx_table 1 0 = [1; 2] /\ pe_of kx_table 1 = true /\
  exlbl (cdb kx_run) 1 = Some 1 /\ oracle kx_table 1 = true /\
  empties (cdb kx_run) = [Some false; Some false; Some false].
Proof.
  split; [intros sid c r c0 rest []|].
  split.
  { intros H. apply (proj2 (pe_contractb_spec kx_table [0; 1])) in H. vm_compute in H. discriminate H. }
  split; [apply (proj1 (packets_inb_spec [0; 1] [mkP 0 [0; 1] false])); reflexivity|].
  csplit; try (vm_compute; reflexivity); in_trace.
Qed.

Print Assumptions C04_labels.
Print Assumptions C04_labels_stable.
Print Assumptions C04_recorded_from_table.
Print Assumptions C04_no_rule_when_not_applicable.
Print Assumptions C04_stored_key_partial.
Print Assumptions C04_set_empty_consistent.
Print Assumptions C04_empty_cache_truthful.
Print Assumptions C04_stored_key.
Print Assumptions C04_stored_key_all_children.
Print Assumptions C04_old_contracts_exclude_each_other.
Print Assumptions C04_contracts_decided.
Print Assumptions C04_documented_contracts_insufficient_refuted.
Print Assumptions C04_search_gives_add_hist.
Print Assumptions C04_adds_made_under_add_pre.
Print Assumptions C04_cache_empty_truthful_one_sided.
Print Assumptions C04_set_empty_true_truthful.
Print Assumptions C04_sym_fwd_decided.
Print Assumptions C04_dropped_only_if_empty_fwd.
Print Assumptions C04_dropped_only_if_empty.
Print Assumptions C04_dropped_only_if_empty_needs_sym_fwd.
Print Assumptions C04_dropped_only_if_empty_conclusion_fails_without_sym_fwd.
Print Assumptions C04_dropped_only_if_empty_nonvacuous.
Print Assumptions C04_dropped_only_if_empty_without_pe_contract.
Print Assumptions C04_kept_although_empty_without_pe_contract.
