(* C04 — the rule universe built by the searcher is faithful to the strategies.

   `final` below is the state of the searcher model (Searcher/Model.v) after
   CombinatorialSpecificationSearcher.__init__ and ANY sequence of work
   packets, for ANY strategy table T, ANY start class, ANY sequence of
   ruledb.is_verified answers, ANY fuel (a run that exhausts its fuel or dies
   with an exception is covered too: its trace is the trace up to that point),
   both drivers (_expand_classes_for / do_level), expand_verified on or off,
   and the three database modes (0 = RuleDB/RuleDBForgetStrategy,
   1 = RuleDBForest(reverse=False), 2 = RuleDBForest(reverse=True)).
   Every theorem is an instance of Searcher.Proofs.run_search_inv.

   Vocabulary (Searcher/Inv.v):  lbl d c = Some l  : class c has label l in
   the class database d;  kids_sp sid p : the children the table gives for
   strategy sid on class p;  applies sid p : the table has an entry for
   (sid, p), i.e. the strategy does not raise StrategyDoesNotApply;
   yielded d sid p : some strategy of the table, applied to a class that has a
   label in d (the class that was being expanded), yields the rule object
   (sid, p) (itself, or as a factory);  sid = -1 is the rule of
   EmptyStrategy: RuleDBForest records it for empty children of possibly_empty
   rules, and the searcher itself records it (under every database) for an
   empty start class instead of expanding that class. *)
From Coq Require Import ZArith List Bool Lia.
From CSS Require Import Base.PyList ClassDB.Model ClassDB.Proofs Gen.Prelude Gen.ReverseShifts
  Searcher.Model Searcher.Inv Searcher.Proofs.
Import ListNotations.
Open Scope Z_scope.

Section C04.
Variable T : table.
Variable mode : Z.
Variables (F : nat) (do_level expand_verified : bool) (answers : list bool) (start : Z).

Notation final ps := (run_search T mode F do_level expand_verified answers start ps).
Notation lbl := (label_of Z.eqb (fun c : Z => c)).

Lemma no_contract_pe : False -> forall sid c e,
  entry_of T sid c = Some e -> pe_of T sid = false -> forall k, In k (e_children e) -> oracle T k = false.
Proof. intros []. Qed.
Lemma no_contract_sym : False -> forall sid c r c0 rest,
  In sid (t_sym T) -> In r (rules_from_strategy T sid c) -> rule_children T r = Some (c0 :: rest) ->
  oracle T c0 = oracle T c.
Proof. intros []. Qed.

(* 3. equal classes share a label (lbl is a function), different classes never
   do, labels are 0..n-1, along the whole run *)
Theorem C04_labels : forall ps c1 c2 l,
  lbl (cdb (final ps)) c1 = Some l -> lbl (cdb (final ps)) c2 = Some l -> c1 = c2.
Proof.
  intros ps c1 c2 l.
  destruct (run_search_inv T mode False no_contract_pe no_contract_sym F do_level expand_verified answers start ps) as (W & _).
  exact (label_injective Z.eqb Zeqb_spec (fun c : Z => c) (fun k : Z => k) id_inv (cdb (final ps)) c1 c2 l W).
Qed.

(* ... and a label, once given, is never changed by the rest of the run *)
Theorem C04_labels_stable : forall ps more c l,
  lbl (cdb (final ps)) c = Some l -> lbl (cdb (final (ps ++ more))) c = Some l.
Proof.
  intros ps more c l H.
  destruct (run_search_app T mode False no_contract_pe no_contract_sym F do_level expand_verified answers start ps more)
    as ((W' & _) & X & _).
  destruct (run_search_inv T mode False no_contract_pe no_contract_sym F do_level expand_verified answers start ps) as (W & _).
  exact (lbl_ext _ _ _ _ W W' X H).
Qed.

(* 1. every ruledb.add(start, ends, rule) is justified by the table: the rule
   (sid, parent) is yielded by a strategy of the table, the table has an entry
   for it, `start` is the label of the rule's parent (not of the class that
   happened to be expanded) and `ends` are the labels of the table's children
   in order - all of them, or, for the calls made by _symmetry_expand, the
   first one.  The only other rule ever added is the empty rule (sid = -1,
   no children: for an empty start class, or by RuleDBForest for an empty
   child), always under the label of a class that is truly empty. *)
Theorem C04_recorded_from_table : forall ps start_label ends sid parent,
  In (EvAdd start_label ends sid parent) (trace (final ps)) ->
  let d := cdb (final ps) in
  lbl d parent = Some start_label /\
  Forall2 (fun c l => lbl d c = Some l) (firstn (length ends) (kids_sp T sid parent)) ends /\
  ((sid = -1 /\ ends = [] /\ oracle T parent = true) \/
   (applies T sid parent = true /\ yielded T d sid parent /\
    (length ends = length (kids_sp T sid parent) \/
     (length ends = 1%nat /\ kids_sp T sid parent <> [] /\ sym_yielded T sid parent)))).
Proof.
  intros ps sl ends sid parent Hin d.
  destruct (run_search_inv T mode False no_contract_pe no_contract_sym F do_level expand_verified answers start ps) as (_ & _ & Hf).
  rewrite Forall_forall in Hf. specialize (Hf _ Hin). simpl in Hf.
  destruct Hf as (A & B & [D|(D1 & D2 & D3 & D4)]); csplit; auto.
Qed.

(* 4. no rule for a strategy that does not apply (also when StrategyDoesNotApply
   is raised lazily by rule.children of a ready rule of a factory), and the
   self-equivalence  parent -> (parent,)  is never recorded *)
Theorem C04_no_rule_when_not_applicable : forall ps start_label ends sid parent,
  In (EvAdd start_label ends sid parent) (trace (final ps)) -> sid <> -1 ->
  applies T sid parent = true /\ kids_sp T sid parent <> [parent].
Proof.
  intros ps sl ends sid parent Hin Hs.
  destruct (run_search_inv T mode False no_contract_pe no_contract_sym F do_level expand_verified answers start ps) as (_ & _ & Hf).
  rewrite Forall_forall in Hf. specialize (Hf _ Hin). simpl in Hf.
  destruct Hf as (A & B & [(D & _)|(D1 & D2 & D3 & D4)]); [contradiction|auto].
Qed.

(* 2a. the key RuleDBBase stores is (start, sorted(labels of the children that
   were kept)), `start` being the label of the rule's parent; the kept children
   are selected from the labels handed to ruledb.add in order (flags bs), and
   NOTHING is dropped when the rule's strategy is not possibly_empty *)
Theorem C04_stored_key_partial : forall ps eqv start_label ends' sid parent,
  In (EvStore eqv start_label ends' sid parent) (trace (final ps)) ->
  let d := cdb (final ps) in
  lbl d parent = Some start_label /\
  exists ls bs,
    Forall2 (fun c l => lbl d c = Some l) (firstn (length ls) (kids_sp T sid parent)) ls /\
    length bs = length ls /\ ends' = isort (select bs ls) /\
    (pe_of T sid = false -> ends' = isort ls).
Proof.
  intros ps eqv sl ends' sid parent Hin d.
  destruct (run_search_inv T mode False no_contract_pe no_contract_sym F do_level expand_verified answers start ps) as (_ & _ & Hf).
  rewrite Forall_forall in Hf. specialize (Hf _ Hin). simpl in Hf.
  destruct Hf as (A & ls & bs & B & D & E & G & _). split; auto. exists ls, bs. csplit; auto.
  intros Hp. rewrite E. f_equal. specialize (G Hp). clear - G D.
  revert ls D; induction bs as [|b t IH]; intros [|x ls] D; simpl in *; auto; try discriminate.
  inversion G; subst. rewrite IH; auto.
Qed.

Section Contracts.
(* the documented strategy contracts, on the table *)
Hypothesis pe_contract : forall sid c e, (* in-section *)
  entry_of T sid c = Some e -> pe_of T sid = false -> forall k, In k (e_children e) -> oracle T k = false.
Hypothesis sym_contract : forall sid c r c0 rest, (* in-section *)
  In sid (t_sym T) -> In r (rules_from_strategy T sid c) -> rule_children T r = Some (c0 :: rest) ->
  oracle T c0 = oracle T c.

Lemma final_inv_contracts ps : Inv T True (final ps).
Proof.
  apply (run_search_inv T mode True (fun _ => pe_contract) (fun _ => sym_contract)).
Qed.

(* 5. every set_empty(label, v) the searcher issues tells the truth about the
   class carrying the label, and hence the cached emptiness of every label
   equals the class's own answer at the end of every run *)
Theorem C04_set_empty_consistent : forall ps l v,
  In (EvSetEmpty l v) (trace (final ps)) ->
  exists c, lbl (cdb (final ps)) c = Some l /\ oracle T c = v.
Proof.
  intros ps l v Hin. destruct (final_inv_contracts ps) as (_ & _ & Hf).
  rewrite Forall_forall in Hf. specialize (Hf _ Hin). simpl in Hf.
  destruct Hf as (c & A & B). exists c; auto.
Qed.

Theorem C04_empty_cache_truthful : forall ps i c b,
  nth_error (classes (cdb (final ps))) i = Some c ->
  nth_error (empties (cdb (final ps))) i = Some (Some b) -> b = oracle T c.
Proof.
  intros ps i c b. destruct (final_inv_contracts ps) as (_ & E & _). apply (E Logic.I).
Qed.

(* 2b. under the contracts the stored key is exactly
   (label of the parent, sorted(labels of the children that are not
   (possibly_empty and empty))): a child is dropped iff the rule is
   possibly_empty AND the class is truly empty *)
Theorem C04_stored_key : forall ps eqv start_label ends' sid parent,
  In (EvStore eqv start_label ends' sid parent) (trace (final ps)) ->
  let d := cdb (final ps) in
  lbl d parent = Some start_label /\
  exists ls,
    Forall2 (fun c l => lbl d c = Some l) (firstn (length ls) (kids_sp T sid parent)) ls /\
    ends' = isort (select (map (fun c => negb (pe_of T sid && oracle T c))
                               (firstn (length ls) (kids_sp T sid parent))) ls).
Proof.
  intros ps eqv sl ends' sid parent Hin d. destruct (final_inv_contracts ps) as (_ & _ & Hf).
  rewrite Forall_forall in Hf. specialize (Hf _ Hin). simpl in Hf.
  destruct Hf as (A & ls & bs & B & D & E & G & H). split; auto. exists ls. split; auto.
  rewrite <- (H Logic.I). exact E.
Qed.

End Contracts.
End C04.

(* Not proved (left to the correspondence and the oracle):
   - C04_forest_empty_rule_once: in the forest modes every empty child of a
     possibly_empty rule receives the empty rule exactly once per label (only
     "an empty rule is only ever recorded for a truly empty class, under that
     class's label" is part of C04_recorded_from_table);
   - completeness: every rule the table yields for an expanded packet IS recorded;
   - the forest keys (EvKey) and the equivalence-edge events are not characterised. *)

(* non-vacuity: a table honouring both contracts whose run records a rule with a
   dropped empty child, a foreign-parent rule of a factory, a lazily failing
   ready rule (no event), a filtered self-equivalence and a symmetry image *)
Definition ex_table : table :=
  mkT [0; 0; 1; 0; 0]
      [ mkS 2 false false false false [(3, mkE [] false false [])] [];                   (* 0: verification *)
        mkS 0 false true true true [(0, mkE [1; 2] false true [0; 1]); (1, mkE [1] true true [0])] [];  (* 1: plain, possibly_empty *)
        mkS 1 false true true true [] [(0, [mkI 1 None false; mkI 3 (Some 1) false; mkI 3 (Some 4) true])]; (* 2: factory *)
        mkS 0 false true false true [(1, mkE [3] true true [1])] [];                      (* 3: hidden plain *)
        mkS 3 false false false false [(0, mkE [4] true true [0])] [] ]                   (* 4: symmetry *)
      [0] [4].

Example C04_nonvacuous :
  let s := run_search ex_table 0 20 false true [false; false; false; false; false; false; false; false] 0
             [mkP 0 [1] false; mkP 0 [2] false] in
  stat s = Running /\
  In (EvAdd 0 [2; 3] 1 0) (trace s) /\ In (EvStore false 0 [2] 1 0) (trace s) /\
  In (EvAdd 2 [4] 3 1) (trace s) /\ In (EvAdd 0 [1] 4 0) (trace s) /\
  classes (cdb s) = [0; 4; 1; 2; 3].
Proof.
  vm_compute. csplit; try reflexivity; repeat (first [left; reflexivity | right]).
Qed.

(* an empty start class is given the empty rule, under every database, and is not expanded *)
Example C04_nonvacuous_empty_start :
  let s := run_search ex_table 0 20 false true [] 2 [] in
  stat s = Running /\ classes (cdb s) = [2] /\
  rev (trace s) = [EvQAdd 0; EvQStop 0; EvQStop 0; EvAdd 0 [] (-1) 2; EvVerified 0; EvStore false 0 [] (-1) 2].
Proof. vm_compute. csplit; reflexivity. Qed.

Example C04_nonvacuous_pe_contract : forall sid c e,
  entry_of ex_table sid c = Some e -> pe_of ex_table sid = false ->
  forall k, In k (e_children e) -> oracle ex_table k = false.
Proof.
  intros sid c e H Hp k Hk. unfold entry_of, pe_of, flag in *.
  destruct (strat_of ex_table sid) as [x|] eqn:Es; [|discriminate].
  unfold strat_of in Es. destruct (sid <? 0); [discriminate|].
  destruct (Z.to_nat sid) as [|[|[|[|[|n]]]]]; simpl in Es; try (destruct n; discriminate);
    injection Es as <-; simpl in *; try discriminate;
    repeat match type of H with context [if ?b then _ else _] => destruct b end; try discriminate;
    injection H as <-; simpl in Hk; intuition; subst; reflexivity.
Qed.

Example C04_nonvacuous_sym_contract : forall sid c r c0 rest,
  In sid (t_sym ex_table) -> In r (rules_from_strategy ex_table sid c) ->
  rule_children ex_table r = Some (c0 :: rest) -> oracle ex_table c0 = oracle ex_table c.
Proof.
  intros sid c r c0 rest [<-|[]]. unfold rules_from_strategy, applies, entry_of. simpl.
  destruct c; simpl; try (intros []; fail).
  intros [<-|[]]. vm_compute. intros [= <- <-]. reflexivity.
Qed.

Print Assumptions C04_labels.
Print Assumptions C04_labels_stable.
Print Assumptions C04_recorded_from_table.
Print Assumptions C04_no_rule_when_not_applicable.
Print Assumptions C04_stored_key_partial.
Print Assumptions C04_set_empty_consistent.
Print Assumptions C04_empty_cache_truthful.
Print Assumptions C04_stored_key.
