(* C10 — declared shifts bound what a rule actually reads when counting.

   Only statements; every proof is an application of lemmas of
   Count/CompositionsSpec.v and Count/Reads.v.

   `compositions`, `product_shifts`, `union_shifts`, `reverse_shifts`,
   `quotient_min_sizes/_max_sizes/_parent_shift` are NOT hand-written: they are
   the files Gen/*.v, re-translated by harness/translate.py on every run from
   utils.compositions, CartesianProductStrategy.shifts, DisjointUnionStrategy.shifts,
   ReverseRule.shifts and Quotient.__init__ of the current /repo.  An edit of
   that arithmetic changes what these theorems are about.

   `reads_*` (Count/ReadsModel.v) transcribe which sub-term provider each
   get_terms calls at which size; a read is (provider, size) with provider
   i >= 0 the i-th child of the rule being counted and SELF = -1 the rule's own
   earlier terms.  A rule is given by the descriptors (minimum size, is_atom)
   of the ORIGINAL rule's children; every theorem holds for ALL descriptor
   lists, ALL sizes n and ALL indices idx in range.                         *)
From Coq Require Import ZArith List Bool Lia.
From CSS Require Import Gen.Prelude Gen.Compositions Gen.ReverseShifts Gen.ProductShifts
  Gen.UnionShifts Gen.QuotientParentShift Count.CompositionsSpec Count.Reads.
Import ListNotations.
Open Scope Z_scope.

(* ------------------------------------------------------------ compositions *)
(* everything utils.compositions yields is a composition of n into k parts
   within the bounds, and nothing is yielded twice — for ALL arguments whose
   bound tuples have length k (no assumption on signs) *)
Theorem C10_compositions_sound : forall n k mins maxs,
  zlen mins = k -> zlen maxs = k ->
  (forall t, In t (compositions n k mins maxs) ->
     zlen t = k /\ py_sum t = n /\ Forall2 Z.le mins t /\ Forall2 bounded t maxs) /\
  NoDup (compositions n k mins maxs).
Proof.
  intros n k mins maxs Hm HM. split.
  - intros t Ht. exact (compositions_sound n k mins maxs t Hm HM Ht).
  - apply compositions_nodup.
Qed.

(* exact characterisation for k >= 1 parts and non-negative minimum sizes
   (they are minimum sizes of objects): membership <-> being a composition
   within the bounds; no duplicates.  Also says the fuel supplied by the
   generated wrapper is always enough (nothing is lost). *)
Theorem C10_compositions_spec : forall n k mins maxs,
  1 <= k -> zlen mins = k -> zlen maxs = k -> Forall (fun m => 0 <= m) mins ->
  (forall t, In t (compositions n k mins maxs) <->
     (zlen t = k /\ py_sum t = n /\ Forall2 Z.le mins t /\ Forall2 bounded t maxs)) /\
  NoDup (compositions n k mins maxs).
Proof.
  intros n k mins maxs Hk Hm HM Hnn. split.
  - intros t. split.
    + apply compositions_sound; assumption.
    + apply compositions_complete; assumption.
  - apply compositions_nodup.
Qed.

(* the code answers "none" for k <= 0, also for n = 0, k = 0 *)
Theorem C10_compositions_no_parts : forall n k mins maxs,
  k <= 0 -> compositions n k mins maxs = [].
Proof. exact compositions_no_parts. Qed.

(* ------------------------------------------------------------ product *)
Theorem C10_product : forall c n i m,
  In (i, m) (reads_product c n) ->
  0 <= i < zlen c /\ m <= n - nth (Z.to_nat i) (product_shifts c) 0.
Proof. exact reads_product_spec. Qed.

(* ------------------------------------------------------------ union, complement *)
Theorem C10_union_complement : forall c idx n i m,
  (In (i, m) (reads_union c n) -> 0 <= i < zlen c /\ m = n) /\
  (In (i, m) (reads_complement c idx n) -> (i = 0 \/ 1 <= i < zlen c) /\ m = n) /\
  Forall (fun s => s = 0) (union_shifts c) /\
  Forall (fun s => s = 0) (reverse_shifts (union_shifts c) idx).
Proof.
  intros c idx n i m. split; [|split; [|split]].
  - intros H. apply reads_union_spec in H. tauto.
  - intros H. apply reads_complement_spec in H. tauto.
  - apply union_shifts_zero.
  - apply complement_shifts_zero.
Qed.

(* ------------------------------------------------------------ quotient *)
(* reverse of a product w.r.t. child idx: nothing is read below the minimum
   size of that child; otherwise the original parent is read exactly at
   n - shift_0, every sibling at sizes <= n - its shift, and the rule's own
   terms only at sizes < n — with the shifts ReverseRule.shifts derives from
   CartesianProductStrategy.shifts *)
Theorem C10_quotient : forall c idx n p m,
  0 <= idx < zlen c ->
  In (p, m) (reads_quotient c idx n) ->
  let sh := reverse_shifts (product_shifts c) idx in
  py_get 0 (quotient_min_sizes c) idx <= n /\
  ((p = SELF /\ m < n) \/
   (p = 0 /\ m = n - nth 0 sh 0) \/
   (1 <= p < zlen c /\ m <= n - nth (Z.to_nat p) sh 0)).
Proof.
  intros c idx n p m Hidx H sh.
  destruct (reads_quotient_spec_Z c idx n p m Hidx H) as [H1 [[Hp Hm]|[Hq|Hq]]].
  - split; [exact H1|]. left. split; [exact Hp|lia].
  - split; [exact H1|]. right; left. exact Hq.
  - split; [exact H1|]. right; right. exact Hq.
Qed.

Theorem C10_quotient_nothing_below_min : forall c idx n,
  n < py_get 0 (quotient_min_sizes c) idx -> reads_quotient c idx n = [].
Proof. exact reads_quotient_early. Qed.

(* ------------------------------------------------------------ every form *)
(* the property as stated, uniformly for the four rule forms that
   Count/ReadsRun.v executes against the implementation:
   child p is read only at sizes <= n - (declared shift of child p), the
   rule's own terms only at sizes < n; and the declared shift tuple has one
   entry per child *)
Theorem C10_reads_respect_declared_shifts : forall form c idx n p m,
  0 <= form <= 3 -> (2 <= form -> 0 <= idx < zlen c) ->
  In (p, m) (rule_reads form c idx n) ->
  (p = SELF /\ m < n) \/
  (0 <= p < zlen c /\ m <= n - nth (Z.to_nat p) (rule_shifts form c idx) 0).
Proof. exact rule_reads_respect_shifts. Qed.

Theorem C10_one_shift_per_child : forall form c idx,
  0 <= form <= 3 -> (2 <= form -> 0 <= idx < zlen c) ->
  zlen (rule_shifts form c idx) = zlen c.
Proof. exact rule_shifts_length. Qed.

(* NOT proved here (DESIGN 5, C10 item 5, `C10_enough_for_productivity`): that a
   rule set accepted by the forest's `pumps` can be evaluated without ever
   asking for an unavailable term.  It needs C03's `derivable` and the
   specification evaluator of C01; the two facts it rests on are
   C10_reads_respect_declared_shifts (children) and the `m < n` clause (own
   terms) above. *)

(* ------------------------------------------------------------ non-vacuity *)
(* a reverse product rule that does read its own earlier terms, a sibling and
   the original parent: B = A / C with A, C non-atoms of minimum sizes 1, 0 *)
Example C10_ex_quotient :
  let c := [(0, false); (1, false)] in
  In (SELF, 2) (reads_quotient c 1 3) /\ In (1, 1) (reads_quotient c 1 3) /\
  In (0, 3) (reads_quotient c 1 3) /\ reverse_shifts (product_shifts c) 1 = [0; 1].
Proof. vm_compute. intuition. Qed.

Example C10_ex_compositions :
  compositions 5 3 [1; 0; 1] [None; Some 1; None] =
  [[1; 0; 4]; [1; 1; 3]; [2; 0; 3]; [2; 1; 2]; [3; 0; 2]; [3; 1; 1]; [4; 0; 1]].
Proof. vm_compute. reflexivity. Qed.

Example C10_ex_product :
  In (1, 4) (reads_product [(1, true); (2, false)] 5) /\ product_shifts [(1, true); (2, false)] = [2; 1].
Proof. vm_compute. intuition. Qed.

Print Assumptions C10_compositions_sound.
Print Assumptions C10_compositions_spec.
Print Assumptions C10_compositions_no_parts.
Print Assumptions C10_product.
Print Assumptions C10_union_complement.
Print Assumptions C10_quotient.
Print Assumptions C10_quotient_nothing_below_min.
Print Assumptions C10_reads_respect_declared_shifts.
Print Assumptions C10_one_shift_per_child.
