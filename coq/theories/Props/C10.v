(* C10 — declared shifts bound what a rule actually reads when counting.

   Only statements; every proof is an application of lemmas of
   Count/CompositionsSpec.v, Count/Reads.v, Count/ReadsDerived.v and
   Count/ReadsOneFactor.v.

   `compositions`, `product_shifts`, `union_shifts`, `reverse_shifts`,
   `quotient_min_sizes/_max_sizes/_parent_shift` are NOT hand-written: they are
   the files Gen/*.v, re-translated by harness/translate.py on every run from
   utils.compositions, CartesianProductStrategy.shifts, DisjointUnionStrategy.shifts,
   ReverseRule.shifts and Quotient.__init__ of the current /repo.  An edit of
   that arithmetic changes what these theorems are about.

   `reads_*` (Count/ReadsModel.v) transcribe which sub-term provider each
   get_terms calls at which size; a read is (provider, size) with provider
   i >= 0 the i-th child of the rule being counted and SELF = -1 the rule's own
   earlier terms.  A rule is given by the descriptors (minimum size, is_atom)
   of the ORIGINAL rule's children; every theorem holds for ALL descriptor
   lists, ALL sizes n and ALL indices idx in range.

   The derived forms (EquivalenceRule, EquivalenceRule of a ReverseRule,
   EquivalencePathRule; forms 4, 5, 6 of Count/ReadsModel.v, lemmas in
   Count/ReadsDerived.v) have one child and declare strategy.shifts(class,
   (child,)) through the same generated union_shifts / product_shifts, applied
   to the ONE-element list of the descriptor d of that child; the theorems about
   them hold for ALL d and BOTH kinds of strategy.                          *)
From Coq Require Import ZArith List Bool Lia.
From CSS Require Import Gen.Prelude Gen.Compositions Gen.ReverseShifts Gen.ProductShifts
  Gen.UnionShifts Gen.QuotientParentShift Count.CompositionsSpec Count.Reads Count.ReadsDerived
  Count.ReadsOneFactor.
Import ListNotations.
Open Scope Z_scope.

(* ------------------------------------------------------------ compositions *)
(* everything utils.compositions yields is a composition of n into k parts
   within the bounds, and nothing is yielded twice — for ALL arguments whose
   bound tuples have length k (no assumption on signs) *)
Theorem C10_compositions_sound : forall n k mins maxs,
  zlen mins = k -> zlen maxs = k ->
  (forall t, In t (compositions n k mins maxs) ->
     zlen t = k /\ py_sum t = n /\ Forall2 Z.le mins t /\ Forall2 bounded t maxs) /\
  NoDup (compositions n k mins maxs).
Proof.
  intros n k mins maxs Hm HM. split.
  - intros t Ht. exact (compositions_sound n k mins maxs t Hm HM Ht).
  - apply compositions_nodup.
Qed.

(* exact characterisation for k >= 1 parts and non-negative minimum sizes
   (they are minimum sizes of objects): membership <-> being a composition
   within the bounds; no duplicates.  Also says the fuel supplied by the
   generated wrapper is always enough (nothing is lost). *)
Theorem C10_compositions_spec : forall n k mins maxs,
  1 <= k -> zlen mins = k -> zlen maxs = k -> Forall (fun m => 0 <= m) mins ->
  (forall t, In t (compositions n k mins maxs) <->
     (zlen t = k /\ py_sum t = n /\ Forall2 Z.le mins t /\ Forall2 bounded t maxs)) /\
  NoDup (compositions n k mins maxs).
Proof.
  intros n k mins maxs Hk Hm HM Hnn. split.
  - intros t. split.
    + apply compositions_sound; assumption.
    + apply compositions_complete; assumption.
  - apply compositions_nodup.
Qed.

(* the code answers "none" for k <= 0, also for n = 0, k = 0 *)
Theorem C10_compositions_no_parts : forall n k mins maxs,
  k <= 0 -> compositions n k mins maxs = [].
Proof. exact compositions_no_parts. Qed.

(* ------------------------------------------------------------ product *)
Theorem C10_product : forall c n i m,
  In (i, m) (reads_product c n) ->
  0 <= i < zlen c /\ m <= n - nth (Z.to_nat i) (product_shifts c) 0.
Proof. exact reads_product_spec. Qed.

(* ------------------------------------------------------------ union, complement *)
Theorem C10_union_complement : forall c idx n i m,
  (In (i, m) (reads_union c n) -> 0 <= i < zlen c /\ m = n) /\
  (In (i, m) (reads_complement c idx n) -> (i = 0 \/ 1 <= i < zlen c) /\ m = n) /\
  Forall (fun s => s = 0) (union_shifts c) /\
  Forall (fun s => s = 0) (reverse_shifts (union_shifts c) idx).
Proof.
  intros c idx n i m. split; [|split; [|split]].
  - intros H. apply reads_union_spec in H. tauto.
  - intros H. apply reads_complement_spec in H. tauto.
  - apply union_shifts_zero.
  - apply complement_shifts_zero.
Qed.

(* ------------------------------------------------------------ quotient *)
(* reverse of a product w.r.t. child idx: nothing is read below the minimum
   size of that child; otherwise the original parent is read exactly at
   n - shift_0, every sibling at sizes <= n - its shift, and the rule's own
   terms only at sizes < n — with the shifts ReverseRule.shifts derives from
   CartesianProductStrategy.shifts *)
Theorem C10_quotient : forall c idx n p m,
  0 <= idx < zlen c ->
  In (p, m) (reads_quotient c idx n) ->
  let sh := reverse_shifts (product_shifts c) idx in
  py_get 0 (quotient_min_sizes c) idx <= n /\
  ((p = SELF /\ m < n) \/
   (p = 0 /\ m = n - nth 0 sh 0) \/
   (1 <= p < zlen c /\ m <= n - nth (Z.to_nat p) sh 0)).
Proof.
  intros c idx n p m Hidx H sh.
  destruct (reads_quotient_spec_Z c idx n p m Hidx H) as [H1 [[Hp Hm]|[Hq|Hq]]].
  - split; [exact H1|]. left. split; [exact Hp|lia].
  - split; [exact H1|]. right; left. exact Hq.
  - split; [exact H1|]. right; right. exact Hq.
Qed.

Theorem C10_quotient_nothing_below_min : forall c idx n,
  n < py_get 0 (quotient_min_sizes c) idx -> reads_quotient c idx n = [].
Proof. exact reads_quotient_early. Qed.

(* ------------------------------------------------------------ every form *)
(* the property as stated, uniformly for the four rule forms that
   Count/ReadsRun.v executes against the implementation:
   child p is read only at sizes <= n - (declared shift of child p), the
   rule's own terms only at sizes < n; and the declared shift tuple has one
   entry per child *)
Theorem C10_reads_respect_declared_shifts : forall form c idx n p m,
  0 <= form <= 3 -> (2 <= form -> 0 <= idx < zlen c) ->
  In (p, m) (rule_reads form c idx n) ->
  (p = SELF /\ m < n) \/
  (0 <= p < zlen c /\ m <= n - nth (Z.to_nat p) (rule_shifts form c idx) 0).
Proof. exact rule_reads_respect_shifts. Qed.

Theorem C10_one_shift_per_child : forall form c idx,
  0 <= form <= 3 -> (2 <= form -> 0 <= idx < zlen c) ->
  zlen (rule_shifts form c idx) = zlen c.
Proof. exact rule_shifts_length. Qed.

(* ------------------------------------------------------------ derived forms *)
(* forms 4 (EquivalenceRule of a union rule), 5 (EquivalenceRule of its ReverseRule) and
   6 (EquivalencePathRule).  These rules inherit AbstractRule.shifts and so declare
   strategy.shifts(comb_class, (child,)) for a (class, children) pair the strategy's own
   decomposition function may never have produced.  That subtlety is covered by the quantifiers:
   the statement holds for EVERY descriptor d = (minimum size, is_atom) of the class handed to
   strategy.shifts — whatever class it is, related to the strategy or not — and for BOTH shifts
   methods (strat = 0: DisjointUnionStrategy.shifts, otherwise CartesianProductStrategy.shifts),
   both taken from the generated Gen/UnionShifts.v, Gen/ProductShifts.v on the list [d].
   The declared tuple has exactly one entry; every read is of provider 0 (never the rule's own
   terms), at a size <= n - the declared shift; indeed the size is n and the shift is 0. *)
Theorem C10_derived_reads_respect_declared_shifts : forall form strat d,
  4 <= form <= 6 ->
  zlen (derived_shifts strat d) = 1 /\
  forall n p m, In (p, m) (derived_reads form d n) ->
    p = 0 /\ p <> SELF /\ m <= n - nth 0 (derived_shifts strat d) 0 /\
    m = n /\ nth 0 (derived_shifts strat d) 0 = 0.
Proof. exact derived_reads_respect_shifts. Qed.

(* the bound is attained: the one child IS read at size n, and nothing else is read *)
Theorem C10_derived_reads_exact : forall form strat d n,
  4 <= form <= 6 ->
  derived_reads form d n = [(0, n)] /\ derived_shifts strat d = [0].
Proof.
  intros form strat d n Hf. split.
  - apply derived_reads_eq. exact Hf.
  - apply derived_shifts_eq.
Qed.

(* consistency with the rule an equivalence rule comes from, union case: for ANY original
   descriptor list c and position ci of the non-empty child, the shift the equivalence rule
   declares for its child is the shift the original union rule declares for child ci *)
Theorem C10_equivalence_shift_is_original_shift : forall (c : desc) ci d0,
  0 <= ci < zlen c ->
  nth 0 (derived_shifts 0 (nth (Z.to_nat ci) c d0)) 0 = nth (Z.to_nat ci) (union_shifts c) 0.
Proof. exact equiv_union_shift_consistent. Qed.

(* form 5: the shift EquivalenceRule(ReverseRule(rule, idx)) declares for its one child, the
   ORIGINAL parent (any descriptor dp), is the shift the reverse rule itself declares for its
   provider 0 (ReverseRule.shifts over DisjointUnionStrategy.shifts, any c and idx) *)
Theorem C10_reverse_equivalence_shift_is_reverse_shift : forall (c : desc) idx dp,
  nth 0 (derived_shifts 0 dp) 0 = nth 0 (reverse_shifts (union_shifts c) idx) 0.
Proof. exact equiv_reverse_shift_consistent. Qed.

(* and at the level of reads: the equivalence rule reads its one child at the very size n at which
   the original union rule reads that child (position ci), and the equivalence rule of the reverse
   rule reads the original parent at the size at which the reverse rule reads its provider 0 *)
Theorem C10_derived_reads_are_original_reads : forall (c : desc) ci idx d n,
  0 <= ci < zlen c ->
  (In (0, n) (derived_reads 4 d n) /\ In (ci, n) (reads_union c n)) /\
  (In (0, n) (derived_reads 5 d n) /\ In (0, n) (reads_complement c idx n)).
Proof. exact derived_reads_are_original_reads. Qed.

(* CartesianProductStrategy: asked about one child only it answers (0,) whatever the child.  The
   original product rule declares for child ci the sum of the minimum sizes of the OTHER children,
   so the two agree exactly when those sum to 0 (in particular for a one-child product, where the
   two calls are the same call).  Since fix 25e10f1 get_terms of the equivalence rule of a
   ONE-factor product counts through a one-child DisjointUnion (C10_one_factor_product_reads
   below); only EquivalenceRule(ReverseRule(one-factor product)) still raises
   NotImplementedError in /repo, there only shifts() is observable. *)
Theorem C10_product_equivalence_shift : forall (c : desc) ci d0 d,
  product_shifts [d] = [0] /\
  (0 <= ci < zlen c ->
   nth (Z.to_nat ci) (product_shifts c) 0 =
   nth 0 (derived_shifts 1 (nth (Z.to_nat ci) c d0)) 0 + py_sum (product_min_sizes (remove_at ci c))).
Proof.
  intros c ci d0 d. split.
  - apply product_shifts_one.
  - apply equiv_product_shift_vs_original.
Qed.

(* form 6: the shift a path declares for its last class is the sum of the shifts declared by its
   steps (each an equivalence rule on some strategy kind and class), for ANY list of steps *)
Theorem C10_path_shift_is_sum_of_step_shifts : forall (steps : list (Z * (Z * bool))) strat d,
  nth 0 (derived_shifts strat d) 0 =
  py_sum (map (fun s : Z * (Z * bool) => nth 0 (derived_shifts (fst s) (snd s)) 0) steps).
Proof. exact path_shift_is_sum_of_steps. Qed.

(* ------------------------------------------------------------ a product with ONE factor
   (fix 25e10f1 of /repo: such a rule can be used as an equivalence step and in reverse).
   d = (minimum size, is_atom) of the one factor, ANY d; all sizes n.  The rule itself is form 1
   on [d]; its reverse (ReverseRule, constructor Quotient WITHOUT sibling) form 3 on [d] with
   idx = 0; its equivalence form and an equivalence path starting with a step over it (also a
   path of RAW one-child Rule / ReverseRule objects, which is what specification_extrator.py
   builds) are the derived forms 4 / 6 with strat = 1.  No new model: the statements are
   computations of the reads model and of the generated shift functions on [d]. *)

(* (i) what they declare: CartesianProductStrategy.shifts on one child is (0,); ReverseRule.shifts
   of that is (-0,) = (0,); Quotient.__init__'s parent shift is 0 *)
Theorem C10_one_factor_product_shifts : forall d : Z * bool,
  rule_shifts 1 [d] 0 = [0] /\ derived_shifts 1 d = [0] /\ rule_shifts 3 [d] 0 = [0] /\
  quotient_parent_shift [d] 0 = 0.
Proof. exact one_factor_shifts. Qed.

(* (i) what they read.  The forward rule (CartesianProduct.get_terms): exactly the child at n,
   and only when a composition exists (0 <= n, minimum size <= n, for an atom n = its size);
   its equivalence form and a path over it (one-child DisjointUnion): exactly the child at n,
   always.  Every such read is of provider 0, never SELF, within the declared shift 0. *)
Theorem C10_one_factor_product_reads : forall (d : Z * bool) n,
  rule_reads 1 [d] 0 n =
    (if (0 <=? n) && (fst d <=? n) && (negb (snd d) || (n <=? fst d)) then [(0, n)] else []) /\
  derived_reads 4 d n = [(0, n)] /\ derived_reads 6 d n = [(0, n)] /\
  (forall p m, In (p, m) (rule_reads 1 [d] 0 n) ->
     p = 0 /\ p <> SELF /\ m = n /\ 0 <= n /\ fst d <= n /\
     m <= n - nth (Z.to_nat p) (rule_shifts 1 [d] 0) 0).
Proof.
  intros d n. split; [exact (reads_product_one d n)|].
  split; [reflexivity|]. split; [reflexivity|].
  intros p m. exact (one_factor_forward_reads_bounded d n p m).
Qed.

(* (ii) the reverse: a Quotient with no sibling.  Nothing below the minimum size of the counted
   child; from there on exactly the ORIGINAL PARENT (provider 0) at n = n - declared shift 0.
   No sibling and no own earlier term: the `_a` compositions (the counted child alone, capped at
   n - 1, would have to take all of n) and the `_c` compositions (0 into 0 parts; /repo's
   Quotient._c returns the constant 1 without asking anybody since 25e10f1) are both EMPTY —
   the model's reads_quotient needed no change to agree with the fixed code. *)
Theorem C10_quotient_no_sibling_reads : forall (d : Z * bool) n,
  rule_reads 3 [d] 0 n = (if n <? fst d then [] else [(0, n)]) /\
  (compositions (n + quotient_parent_shift [d] 0) (zlen [d]) (quotient_min_sizes [d])
     (firstn (Z.to_nat 0) (quotient_max_sizes [d]) ++ [Some (n - 1)] ++
      skipn (Z.to_nat (0 + 1)) (quotient_max_sizes [d])) = [] /\
   compositions (quotient_parent_shift [d] 0) (zlen [d] - 1)
     (remove_at 0 (quotient_min_sizes [d])) (remove_at 0 (quotient_max_sizes [d])) = []) /\
  (forall p m, In (p, m) (rule_reads 3 [d] 0 n) ->
     p = 0 /\ p <> SELF /\ m = n /\ fst d <= n /\
     m = n - nth (Z.to_nat p) (rule_shifts 3 [d] 0) 0).
Proof.
  intros d n. split; [exact (reads_quotient_one d n)|].
  split; [exact (quotient_one_summands d n)|].
  intros p m. exact (one_factor_reverse_reads_bounded d n p m).
Qed.

(* the GENERAL theorems already cover one factor: C10_reads_respect_declared_shifts and C10_quotient
   ask for `0 <= idx < zlen c` only (no `2 <= zlen c`), which for c = [d] is idx = 0.  This is their
   instance, for all four plain forms on a one-element descriptor list. *)
Theorem C10_one_factor_reads_respect_declared_shifts : forall form (d : Z * bool) n p m,
  0 <= form <= 3 ->
  In (p, m) (rule_reads form [d] 0 n) ->
  (p = SELF /\ m < n) \/
  (0 <= p < 1 /\ m <= n - nth (Z.to_nat p) (rule_shifts form [d] 0) 0).
Proof.
  intros form d n p m Hf H.
  apply (C10_reads_respect_declared_shifts form [d] 0 n p m Hf); [|exact H].
  intros _. change (zlen [d]) with 1. lia.
Qed.

(* ------------------------------------------------------------ all seven forms *)
(* the property as stated, uniformly over plain, reversed, equivalence, reverse-of-equivalence
   rules and paths (rule_desc: PlainRule form c idx for forms 0..3, DerivedRule form strat d for
   forms 4..6; rd_wf says the form number is one of those and idx is in range) *)
Theorem C10_all_forms_reads_respect_declared_shifts : forall r n p m,
  rd_wf r ->
  In (p, m) (rd_reads r n) ->
  (p = SELF /\ m < n) \/
  (0 <= p < rd_nchildren r /\ m <= n - nth (Z.to_nat p) (rd_shifts r) 0).
Proof. exact rd_reads_respect_shifts. Qed.

Theorem C10_all_forms_one_shift_per_child : forall r,
  rd_wf r -> zlen (rd_shifts r) = rd_nchildren r.
Proof. exact rd_shifts_length. Qed.

(* The property's second sentence ("Hence whatever the fixed-point analysis accepts ...") is
   C10_enough_for_productivity, at the end of this file (it needs C03's `pumps` and C01's descriptors). *)

(* ------------------------------------------------------------ non-vacuity *)
(* a reverse product rule that does read its own earlier terms, a sibling and
   the original parent: B = A / C with A, C non-atoms of minimum sizes 1, 0 *)
Example C10_ex_quotient :
  let c := [(0, false); (1, false)] in
  In (SELF, 2) (reads_quotient c 1 3) /\ In (1, 1) (reads_quotient c 1 3) /\
  In (0, 3) (reads_quotient c 1 3) /\ reverse_shifts (product_shifts c) 1 = [0; 1].
Proof. vm_compute. intuition. Qed.

Example C10_ex_compositions :
  compositions 5 3 [1; 0; 1] [None; Some 1; None] =
  [[1; 0; 4]; [1; 1; 3]; [2; 0; 3]; [2; 1; 2]; [3; 0; 2]; [3; 1; 1]; [4; 0; 1]].
Proof. vm_compute. reflexivity. Qed.

Example C10_ex_product :
  In (1, 4) (reads_product [(1, true); (2, false)] 5) /\ product_shifts [(1, true); (2, false)] = [2; 1].
Proof. vm_compute. intuition. Qed.

(* ------------------------------------------------------------------------
   NON-VACUITY (audit): every theorem of this file APPLIED to a concrete rule with three children
   (an atom of size 1, a class of minimum size 0, a class of minimum size 2), so that Coq checks
   that the facts discharged are the theorems' own hypotheses; plus computed instances showing that
   the bounds concluded are attained (the conclusions are not slack) and discriminate. *)
Definition c3 : desc := [(1, true); (0, false); (2, false)].

(* covers C10_compositions_sound: first component applied to a yielded tuple, second as it is;
   also on bounds with a NEGATIVE minimum ("no assumption on signs") *)
Example C10_compositions_sound_nonvacuous :
  (zlen [2; 0; 3] = 3 /\ py_sum [2; 0; 3] = 5 /\ Forall2 Z.le [1; 0; 1] [2; 0; 3] /\
   Forall2 bounded [2; 0; 3] [None; Some 1; None]) /\
  NoDup (compositions 5 3 [1; 0; 1] [None; Some 1; None]) /\
  (zlen [-1; 3] = 2 /\ py_sum [-1; 3] = 2 /\ Forall2 Z.le [-1; 0] [-1; 3] /\
   Forall2 bounded [-1; 3] [None; None]).
Proof.
  split; [|split].
  - apply (proj1 (C10_compositions_sound 5 3 [1; 0; 1] [None; Some 1; None] eq_refl eq_refl) [2; 0; 3]).
    vm_compute. intuition.
  - exact (proj2 (C10_compositions_sound 5 3 [1; 0; 1] [None; Some 1; None] eq_refl eq_refl)).
  - apply (proj1 (C10_compositions_sound 2 2 [-1; 0] [None; None] eq_refl eq_refl) [-1; 3]).
    vm_compute. intuition.
Qed.

(* covers C10_compositions_spec: right-to-left (a composition within the bounds IS yielded) and
   left-to-right on a near miss ([2;2;1] breaks the atom bound Some 1, so it is NOT yielded) *)
Lemma c10_spec_hyps : 1 <= 3 /\ zlen [1; 0; 1] = 3 /\ zlen [None; Some 1; None] = 3 /\
                      Forall (fun m => 0 <= m) [1; 0; 1].
Proof. repeat split; try reflexivity; try lia. repeat constructor; lia. Qed.
Example C10_compositions_spec_nonvacuous :
  In [2; 1; 2] (compositions 5 3 [1; 0; 1] [None; Some 1; None]) /\
  ~ In [2; 2; 1] (compositions 5 3 [1; 0; 1] [None; Some 1; None]).
Proof.
  destruct c10_spec_hyps as (H1 & H2 & H3 & H4).
  destruct (C10_compositions_spec 5 3 [1; 0; 1] [None; Some 1; None] H1 H2 H3 H4) as [Hiff _].
  split.
  - apply (proj2 (Hiff [2; 1; 2])). split; [reflexivity|]. split; [reflexivity|].
    split; repeat constructor; simpl; lia.
  - intros Hin. apply (proj1 (Hiff [2; 2; 1])) in Hin. destruct Hin as (_ & _ & _ & Hb).
    inversion Hb as [|? ? ? ? _ Hb']; subst. inversion Hb' as [|? ? ? ? Hbad _]; subst.
    simpl in Hbad. lia.
Qed.

(* covers C10_compositions_no_parts (k = 0 with n = 0, and k < 0); the conclusion discriminates:
   with one part the empty composition problem has an answer *)
Example C10_compositions_no_parts_nonvacuous :
  compositions 0 0 [] [] = [] /\ compositions 3 (-1) [1; 2] [None; None] = [] /\
  compositions 0 1 [0] [None] = [[0]].
Proof.
  split; [apply (C10_compositions_no_parts 0 0 [] []); lia|].
  split; [apply (C10_compositions_no_parts 3 (-1) [1; 2] [None; None]); lia|].
  vm_compute. reflexivity.
Qed.

(* covers C10_product: child 2 (shift 1) is read at size 5 = 6 - 1: the bound is attained *)
Example C10_product_nonvacuous :
  0 <= 2 < zlen c3 /\ 5 <= 6 - nth (Z.to_nat 2) (product_shifts c3) 0.
Proof. apply (C10_product c3 6 2 5). vm_compute. intuition. Qed.
Example C10_product_tight :
  product_shifts c3 = [2; 3; 1] /\ In (2, 5) (reads_product c3 6) /\ ~ In (2, 6) (reads_product c3 6) /\
  In (1, 3) (reads_product c3 6) /\ ~ In (1, 4) (reads_product c3 6).
Proof.
  split; [reflexivity|]. split; [vm_compute; intuition|]. split; [vm_compute; intuition congruence|].
  split; [vm_compute; intuition|vm_compute; intuition congruence].
Qed.

(* covers C10_union_complement (all four components, on the three-child rule, reverse w.r.t. child 1) *)
Example C10_union_complement_nonvacuous :
  (forall i m, In (i, m) (reads_union c3 4) -> 0 <= i < zlen c3 /\ m = 4) /\
  (forall i m, In (i, m) (reads_complement c3 1 4) -> (i = 0 \/ 1 <= i < zlen c3) /\ m = 4) /\
  Forall (fun s => s = 0) (union_shifts c3) /\
  Forall (fun s => s = 0) (reverse_shifts (union_shifts c3) 1) /\
  reads_union c3 4 = [(0, 4); (1, 4); (2, 4)] /\ reads_complement c3 1 4 = [(0, 4); (1, 4); (2, 4)] /\
  reverse_shifts (union_shifts c3) 1 = [0; 0; 0].
Proof.
  split; [intros i m; exact (proj1 (C10_union_complement c3 1 4 i m))|].
  split; [intros i m; exact (proj1 (proj2 (C10_union_complement c3 1 4 i m)))|].
  split; [exact (proj1 (proj2 (proj2 (C10_union_complement c3 1 4 0 0))))|].
  split; [exact (proj2 (proj2 (proj2 (C10_union_complement c3 1 4 0 0))))|].
  repeat split; reflexivity.
Qed.

(* covers C10_quotient: the reverse of the product w.r.t. child 1 at n = 4 reads its own terms at
   size 3 (< 4), the original parent exactly at 4 - (-3) = 7 and sibling 2 up to 4 - (-2) = 6 *)
Lemma c3_idx1 : 0 <= 1 < zlen c3. Proof. vm_compute. split; [discriminate|reflexivity]. Qed.
Example C10_quotient_nonvacuous :
  (py_get 0 (quotient_min_sizes c3) 1 <= 4 /\
   ((SELF = SELF /\ 3 < 4) \/
    (SELF = 0 /\ 3 = 4 - nth 0 (reverse_shifts (product_shifts c3) 1) 0) \/
    (1 <= SELF < zlen c3 /\ 3 <= 4 - nth (Z.to_nat SELF) (reverse_shifts (product_shifts c3) 1) 0))) /\
  (py_get 0 (quotient_min_sizes c3) 1 <= 4 /\
   ((0 = SELF /\ 7 < 4) \/
    (0 = 0 /\ 7 = 4 - nth 0 (reverse_shifts (product_shifts c3) 1) 0) \/
    (1 <= 0 < zlen c3 /\ 7 <= 4 - nth (Z.to_nat 0) (reverse_shifts (product_shifts c3) 1) 0))) /\
  (py_get 0 (quotient_min_sizes c3) 1 <= 4 /\
   ((2 = SELF /\ 6 < 4) \/
    (2 = 0 /\ 6 = 4 - nth 0 (reverse_shifts (product_shifts c3) 1) 0) \/
    (1 <= 2 < zlen c3 /\ 6 <= 4 - nth (Z.to_nat 2) (reverse_shifts (product_shifts c3) 1) 0))).
Proof.
  split; [|split].
  - apply (C10_quotient c3 1 4 SELF 3 c3_idx1). vm_compute. intuition.
  - apply (C10_quotient c3 1 4 0 7 c3_idx1). vm_compute. intuition.
  - apply (C10_quotient c3 1 4 2 6 c3_idx1). vm_compute. intuition.
Qed.
(* which branch is taken, and that the bounds are attained and not exceeded *)
Example C10_quotient_tight :
  reverse_shifts (product_shifts c3) 1 = [-3; -1; -2] /\
  In (SELF, 3) (reads_quotient c3 1 4) /\ ~ In (SELF, 4) (reads_quotient c3 1 4) /\
  In (0, 7) (reads_quotient c3 1 4) /\
  In (2, 6) (reads_quotient c3 1 4) /\ ~ In (2, 7) (reads_quotient c3 1 4).
Proof.
  split; [reflexivity|].
  split; [vm_compute; intuition|]. split; [vm_compute; intuition congruence|].
  split; [vm_compute; intuition|]. split; [vm_compute; intuition|vm_compute; intuition congruence].
Qed.

(* covers C10_quotient_nothing_below_min: reverse w.r.t. child 2 (minimum size 2) at n = 1; at
   n = 2 the same rule does read *)
Example C10_quotient_nothing_below_min_nonvacuous :
  reads_quotient c3 2 1 = [] /\ reads_quotient c3 2 2 = [(0, 3); (1, 1); (2, 0)].
Proof.
  split; [apply (C10_quotient_nothing_below_min c3 2 1); vm_compute; reflexivity|].
  vm_compute. reflexivity.
Qed.

(* covers C10_reads_respect_declared_shifts, once per rule form *)
Example C10_reads_respect_declared_shifts_nonvacuous :
  ((1 = SELF /\ 4 < 4) \/ (0 <= 1 < zlen c3 /\ 4 <= 4 - nth (Z.to_nat 1) (rule_shifts 0 c3 0) 0)) /\
  ((2 = SELF /\ 5 < 6) \/ (0 <= 2 < zlen c3 /\ 5 <= 6 - nth (Z.to_nat 2) (rule_shifts 1 c3 0) 0)) /\
  ((2 = SELF /\ 4 < 4) \/ (0 <= 2 < zlen c3 /\ 4 <= 4 - nth (Z.to_nat 2) (rule_shifts 2 c3 1) 0)) /\
  ((SELF = SELF /\ 3 < 4) \/
   (0 <= SELF < zlen c3 /\ 3 <= 4 - nth (Z.to_nat SELF) (rule_shifts 3 c3 1) 0)) /\
  ((2 = SELF /\ 6 < 4) \/ (0 <= 2 < zlen c3 /\ 6 <= 4 - nth (Z.to_nat 2) (rule_shifts 3 c3 1) 0)).
Proof.
  split; [|split; [|split; [|split]]].
  - apply (C10_reads_respect_declared_shifts 0 c3 0 4 1 4); [lia|intros; lia|vm_compute; intuition].
  - apply (C10_reads_respect_declared_shifts 1 c3 0 6 2 5); [lia|intros; lia|vm_compute; intuition].
  - apply (C10_reads_respect_declared_shifts 2 c3 1 4 2 4); [lia|intros; exact c3_idx1|vm_compute; intuition].
  - apply (C10_reads_respect_declared_shifts 3 c3 1 4 SELF 3); [lia|intros; exact c3_idx1|vm_compute; intuition].
  - apply (C10_reads_respect_declared_shifts 3 c3 1 4 2 6); [lia|intros; exact c3_idx1|vm_compute; intuition].
Qed.

(* covers C10_one_shift_per_child, once per rule form; the tuples themselves *)
Example C10_one_shift_per_child_nonvacuous :
  zlen (rule_shifts 0 c3 0) = zlen c3 /\ zlen (rule_shifts 1 c3 0) = zlen c3 /\
  zlen (rule_shifts 2 c3 1) = zlen c3 /\ zlen (rule_shifts 3 c3 1) = zlen c3 /\
  rule_shifts 1 c3 0 = [2; 3; 1] /\ rule_shifts 3 c3 1 = [-3; -1; -2].
Proof.
  split; [apply (C10_one_shift_per_child 0 c3 0); [lia|intros; lia]|].
  split; [apply (C10_one_shift_per_child 1 c3 0); [lia|intros; lia]|].
  split; [apply (C10_one_shift_per_child 2 c3 1); [lia|intros; exact c3_idx1]|].
  split; [apply (C10_one_shift_per_child 3 c3 1); [lia|intros; exact c3_idx1]|].
  split; reflexivity.
Qed.

(* ------------------------------------------------------------------------
   NON-VACUITY of the derived-form theorems: each APPLIED to concrete rules. *)
Definition d_geo : Z * bool := (2, false).   (* a class of minimum size 2 *)
Definition d_atom : Z * bool := (3, true).   (* an atom of size 3 *)

(* covers C10_derived_reads_respect_declared_shifts: once per form, both strategies, an atom and a
   non-atom; the read fed to it is computed, the bound concluded is attained (size 5 at n = 5) *)
Example C10_derived_reads_respect_declared_shifts_nonvacuous :
  (0 = 0 /\ 0 <> SELF /\ 5 <= 5 - nth 0 (derived_shifts 0 d_geo) 0 /\ 5 = 5 /\
   nth 0 (derived_shifts 0 d_geo) 0 = 0) /\
  (0 = 0 /\ 0 <> SELF /\ 5 <= 5 - nth 0 (derived_shifts 1 d_atom) 0 /\ 5 = 5 /\
   nth 0 (derived_shifts 1 d_atom) 0 = 0) /\
  (0 = 0 /\ 0 <> SELF /\ 0 <= 0 - nth 0 (derived_shifts 0 d_atom) 0 /\ 0 = 0 /\
   nth 0 (derived_shifts 0 d_atom) 0 = 0) /\
  zlen (derived_shifts 0 d_geo) = 1 /\ zlen (derived_shifts 1 d_atom) = 1.
Proof.
  assert (H4 : 4 <= 4 <= 6) by lia. assert (H5 : 4 <= 5 <= 6) by lia. assert (H6 : 4 <= 6 <= 6) by lia.
  split; [|split; [|split; [|split]]].
  - apply (proj2 (C10_derived_reads_respect_declared_shifts 4 0 d_geo H4) 5 0 5). vm_compute. intuition.
  - apply (proj2 (C10_derived_reads_respect_declared_shifts 5 1 d_atom H5) 5 0 5). vm_compute. intuition.
  - apply (proj2 (C10_derived_reads_respect_declared_shifts 6 0 d_atom H6) 0 0 0). vm_compute. intuition.
  - exact (proj1 (C10_derived_reads_respect_declared_shifts 4 0 d_geo H4)).
  - exact (proj1 (C10_derived_reads_respect_declared_shifts 5 1 d_atom H5)).
Qed.
(* the hypothesis `In (p, m) (derived_reads ..)` discriminates: other sizes / providers are not read *)
Example C10_derived_reads_tight :
  In (0, 5) (derived_reads 5 d_geo 5) /\ ~ In (0, 6) (derived_reads 5 d_geo 5) /\
  ~ In (0, 4) (derived_reads 4 d_geo 5) /\ ~ In (1, 5) (derived_reads 6 d_geo 5) /\
  ~ In (SELF, 4) (derived_reads 5 d_geo 5).
Proof.
  split; [vm_compute; intuition|]. split; [vm_compute; intuition congruence|].
  split; [vm_compute; intuition congruence|]. split; vm_compute; intuition congruence.
Qed.

(* covers C10_derived_reads_exact *)
Example C10_derived_reads_exact_nonvacuous :
  (derived_reads 4 d_geo 7 = [(0, 7)] /\ derived_shifts 0 d_geo = [0]) /\
  (derived_reads 5 d_atom 3 = [(0, 3)] /\ derived_shifts 1 d_atom = [0]) /\
  (derived_reads 6 d_atom 0 = [(0, 0)] /\ derived_shifts 0 d_atom = [0]).
Proof.
  split; [apply (C10_derived_reads_exact 4 0 d_geo 7); lia|].
  split; [apply (C10_derived_reads_exact 5 1 d_atom 3); lia|].
  apply (C10_derived_reads_exact 6 0 d_atom 0); lia.
Qed.

(* covers C10_equivalence_shift_is_original_shift: the three-child union c3 whose child 2 is the
   non-empty one; C10_reverse_equivalence_shift_is_reverse_shift: its reverse w.r.t. child 2, the
   original parent having descriptor d_geo *)
Lemma c3_ci2 : 0 <= 2 < zlen c3. Proof. vm_compute. split; [discriminate|reflexivity]. Qed.
Example C10_equivalence_shift_consistency_nonvacuous :
  nth 0 (derived_shifts 0 (nth (Z.to_nat 2) c3 (0, false))) 0 = nth (Z.to_nat 2) (union_shifts c3) 0 /\
  nth (Z.to_nat 2) c3 (0, false) = (2, false) /\
  nth 0 (derived_shifts 0 d_geo) 0 = nth 0 (reverse_shifts (union_shifts c3) 2) 0 /\
  reverse_shifts (union_shifts c3) 2 = [0; 0; 0].
Proof.
  split; [exact (C10_equivalence_shift_is_original_shift c3 2 (0, false) c3_ci2)|].
  split; [reflexivity|].
  split; [exact (C10_reverse_equivalence_shift_is_reverse_shift c3 2 d_geo)|reflexivity].
Qed.

(* covers C10_derived_reads_are_original_reads on c3, child 2, reverse w.r.t. child 2 *)
Example C10_derived_reads_are_original_reads_nonvacuous :
  (In (0, 4) (derived_reads 4 d_geo 4) /\ In (2, 4) (reads_union c3 4)) /\
  (In (0, 4) (derived_reads 5 d_geo 4) /\ In (0, 4) (reads_complement c3 2 4)).
Proof. exact (C10_derived_reads_are_original_reads c3 2 2 d_geo 4 c3_ci2). Qed.

(* covers C10_product_equivalence_shift: on the product c3 the original rule declares 1 for child 2
   (= 1 + 0, the minimum sizes of the other two children) while the equivalence rule would declare 0;
   on a one-child product both declare 0 *)
Example C10_product_equivalence_shift_nonvacuous :
  product_shifts [d_atom] = [0] /\
  nth (Z.to_nat 2) (product_shifts c3) 0 =
    nth 0 (derived_shifts 1 (nth (Z.to_nat 2) c3 (0, false))) 0 + py_sum (product_min_sizes (remove_at 2 c3)) /\
  nth (Z.to_nat 2) (product_shifts c3) 0 = 1 /\ py_sum (product_min_sizes (remove_at 2 c3)) = 1 /\
  nth (Z.to_nat 0) (product_shifts [d_atom]) 0 =
    nth 0 (derived_shifts 1 (nth (Z.to_nat 0) [d_atom] (0, false))) 0 + py_sum (product_min_sizes (remove_at 0 [d_atom])).
Proof.
  split; [exact (proj1 (C10_product_equivalence_shift c3 2 (0, false) d_atom))|].
  split; [exact (proj2 (C10_product_equivalence_shift c3 2 (0, false) d_atom) c3_ci2)|].
  split; [reflexivity|]. split; [reflexivity|].
  apply (proj2 (C10_product_equivalence_shift [d_atom] 0 (0, false) d_atom)). vm_compute. split; [discriminate|reflexivity].
Qed.

(* covers C10_path_shift_is_sum_of_step_shifts: a path of three steps (a union step, a reverse
   union step on the atom, a product step) and the empty list of steps *)
Example C10_path_shift_nonvacuous :
  nth 0 (derived_shifts 0 d_atom) 0 =
    py_sum (map (fun s : Z * (Z * bool) => nth 0 (derived_shifts (fst s) (snd s)) 0)
                [(0, d_geo); (0, d_atom); (1, d_geo)]) /\
  nth 0 (derived_shifts 1 d_geo) 0 =
    py_sum (map (fun s : Z * (Z * bool) => nth 0 (derived_shifts (fst s) (snd s)) 0) []).
Proof.
  split.
  - exact (C10_path_shift_is_sum_of_step_shifts [(0, d_geo); (0, d_atom); (1, d_geo)] 0 d_atom).
  - exact (C10_path_shift_is_sum_of_step_shifts [] 1 d_geo).
Qed.

(* covers C10_all_forms_reads_respect_declared_shifts and C10_all_forms_one_shift_per_child: a plain
   product, a reversed product reading its own terms, and the three derived forms *)
Lemma rd_wf_examples :
  rd_wf (PlainRule 1 c3 0) /\ rd_wf (PlainRule 3 c3 1) /\ rd_wf (DerivedRule 4 0 d_geo) /\
  rd_wf (DerivedRule 5 0 d_atom) /\ rd_wf (DerivedRule 6 1 d_geo).
Proof.
  split; [split; [lia|intros; lia]|]. split; [split; [lia|intros; exact c3_idx1]|].
  cbn [rd_wf]. lia.
Qed.
Example C10_all_forms_nonvacuous :
  ((2 = SELF /\ 5 < 6) \/
   (0 <= 2 < rd_nchildren (PlainRule 1 c3 0) /\ 5 <= 6 - nth (Z.to_nat 2) (rd_shifts (PlainRule 1 c3 0)) 0)) /\
  ((SELF = SELF /\ 3 < 4) \/
   (0 <= SELF < rd_nchildren (PlainRule 3 c3 1) /\
    3 <= 4 - nth (Z.to_nat SELF) (rd_shifts (PlainRule 3 c3 1)) 0)) /\
  ((0 = SELF /\ 5 < 5) \/
   (0 <= 0 < rd_nchildren (DerivedRule 4 0 d_geo) /\
    5 <= 5 - nth (Z.to_nat 0) (rd_shifts (DerivedRule 4 0 d_geo)) 0)) /\
  ((0 = SELF /\ 5 < 5) \/
   (0 <= 0 < rd_nchildren (DerivedRule 5 0 d_atom) /\
    5 <= 5 - nth (Z.to_nat 0) (rd_shifts (DerivedRule 5 0 d_atom)) 0)) /\
  ((0 = SELF /\ 5 < 5) \/
   (0 <= 0 < rd_nchildren (DerivedRule 6 1 d_geo) /\
    5 <= 5 - nth (Z.to_nat 0) (rd_shifts (DerivedRule 6 1 d_geo)) 0)) /\
  zlen (rd_shifts (PlainRule 3 c3 1)) = rd_nchildren (PlainRule 3 c3 1) /\
  zlen (rd_shifts (DerivedRule 6 1 d_geo)) = rd_nchildren (DerivedRule 6 1 d_geo) /\
  rd_shifts (PlainRule 3 c3 1) = [-3; -1; -2] /\ rd_shifts (DerivedRule 6 1 d_geo) = [0] /\
  rd_nchildren (PlainRule 3 c3 1) = 3 /\ rd_nchildren (DerivedRule 6 1 d_geo) = 1.
Proof.
  destruct rd_wf_examples as (W1 & W3 & W4 & W5 & W6).
  split; [apply (C10_all_forms_reads_respect_declared_shifts (PlainRule 1 c3 0) 6 2 5 W1); vm_compute; intuition|].
  split; [apply (C10_all_forms_reads_respect_declared_shifts (PlainRule 3 c3 1) 4 SELF 3 W3); vm_compute; intuition|].
  split; [apply (C10_all_forms_reads_respect_declared_shifts (DerivedRule 4 0 d_geo) 5 0 5 W4); vm_compute; intuition|].
  split; [apply (C10_all_forms_reads_respect_declared_shifts (DerivedRule 5 0 d_atom) 5 0 5 W5); vm_compute; intuition|].
  split; [apply (C10_all_forms_reads_respect_declared_shifts (DerivedRule 6 1 d_geo) 5 0 5 W6); vm_compute; intuition|].
  split; [exact (C10_all_forms_one_shift_per_child (PlainRule 3 c3 1) W3)|].
  split; [exact (C10_all_forms_one_shift_per_child (DerivedRule 6 1 d_geo) W6)|].
  repeat split; reflexivity.
Qed.

(* ------------------------------------------------------------------------
   NON-VACUITY of the one-factor theorems: each APPLIED to the one-factor products over d_geo (a
   class of minimum size 2) and d_atom (an atom of size 3). *)
Example C10_one_factor_product_shifts_nonvacuous :
  (rule_shifts 1 [d_geo] 0 = [0] /\ derived_shifts 1 d_geo = [0] /\ rule_shifts 3 [d_geo] 0 = [0] /\
   quotient_parent_shift [d_geo] 0 = 0) /\
  product_shifts [d_atom] = [0] /\ reverse_shifts (product_shifts [d_atom]) 0 = [0].
Proof.
  split; [exact (C10_one_factor_product_shifts d_geo)|].
  split; [exact (proj1 (C10_one_factor_product_shifts d_atom))|].
  exact (proj1 (proj2 (proj2 (C10_one_factor_product_shifts d_atom)))).
Qed.

(* forward: the non-atom is read at every n >= 2, the atom only at n = 3; the equivalence form
   and the path read at every n (also below the minimum size: DisjointUnion asks anyway) *)
Example C10_one_factor_product_reads_nonvacuous :
  rule_reads 1 [d_geo] 0 1 = [] /\ rule_reads 1 [d_geo] 0 5 = [(0, 5)] /\
  rule_reads 1 [d_atom] 0 3 = [(0, 3)] /\ rule_reads 1 [d_atom] 0 4 = [] /\
  derived_reads 4 d_geo 1 = [(0, 1)] /\ derived_reads 6 d_atom 4 = [(0, 4)] /\
  (0 = 0 /\ 0 <> SELF /\ 5 = 5 /\ 0 <= 5 /\ fst d_geo <= 5 /\
   5 <= 5 - nth (Z.to_nat 0) (rule_shifts 1 [d_geo] 0) 0).
Proof.
  split; [exact (proj1 (C10_one_factor_product_reads d_geo 1))|].
  split; [exact (proj1 (C10_one_factor_product_reads d_geo 5))|].
  split; [exact (proj1 (C10_one_factor_product_reads d_atom 3))|].
  split; [exact (proj1 (C10_one_factor_product_reads d_atom 4))|].
  split; [exact (proj1 (proj2 (C10_one_factor_product_reads d_geo 1)))|].
  split; [exact (proj1 (proj2 (proj2 (C10_one_factor_product_reads d_atom 4))))|].
  apply (proj2 (proj2 (proj2 (C10_one_factor_product_reads d_geo 5))) 0 5). vm_compute. intuition.
Qed.

(* reverse: nothing below the minimum size, then exactly the original parent at n — for the atom
   too (the Quotient does not know that the parent has no object of size 4) *)
Example C10_quotient_no_sibling_reads_nonvacuous :
  rule_reads 3 [d_geo] 0 1 = [] /\ rule_reads 3 [d_geo] 0 2 = [(0, 2)] /\
  rule_reads 3 [d_atom] 0 4 = [(0, 4)] /\
  (0 = 0 /\ 0 <> SELF /\ 4 = 4 /\ fst d_atom <= 4 /\
   4 = 4 - nth (Z.to_nat 0) (rule_shifts 3 [d_atom] 0) 0) /\
  ~ In (SELF, 3) (rule_reads 3 [d_atom] 0 4) /\ ~ In (1, 0) (rule_reads 3 [d_atom] 0 4).
Proof.
  split; [exact (proj1 (C10_quotient_no_sibling_reads d_geo 1))|].
  split; [exact (proj1 (C10_quotient_no_sibling_reads d_geo 2))|].
  split; [exact (proj1 (C10_quotient_no_sibling_reads d_atom 4))|].
  split; [apply (proj2 (proj2 (C10_quotient_no_sibling_reads d_atom 4)) 0 4); vm_compute; intuition|].
  split; vm_compute; intuition congruence.
Qed.

(* the general theorem instantiated at one factor, forms 1 and 3 *)
Example C10_one_factor_reads_respect_declared_shifts_nonvacuous :
  ((0 = SELF /\ 5 < 5) \/ (0 <= 0 < 1 /\ 5 <= 5 - nth (Z.to_nat 0) (rule_shifts 1 [d_geo] 0) 0)) /\
  ((0 = SELF /\ 4 < 4) \/ (0 <= 0 < 1 /\ 4 <= 4 - nth (Z.to_nat 0) (rule_shifts 3 [d_atom] 0) 0)).
Proof.
  split.
  - apply (C10_one_factor_reads_respect_declared_shifts 1 d_geo 5 0 5); [lia|vm_compute; intuition].
  - apply (C10_one_factor_reads_respect_declared_shifts 3 d_atom 4 0 4); [lia|vm_compute; intuition].
Qed.

From CSS Require Import Forest.Spec Forest.Model Forest.TerminationDefs Forest.TerminationRun Forest.Run
  Spec.CountRun Spec.Adapter Spec.AdapterExample Spec.ReadsAvailable.

(* ------------------------------------------------------------ the property's second sentence *)
(* "Hence whatever the fixed-point analysis accepts as productive can be evaluated without a class ever
   depending on a term that is not yet available."  (DESIGN 5, C10 item 5; proved in
   Spec/ReadsAvailable.v.)  `avail ds c n` is the well-founded evaluation order along the ACTUAL requests
   (reads_of: rule_reads of the constructor forms 0..3, the one read (child 0, n) of the derived forms 4..6,
   nothing for a verified class): the term (c, n) is available when every term its rule asks for - a
   child's, or its own earlier one - is available; no shift occurs in its definition.  For every descriptor
   list ds (what run_c01 evaluates; deps_shape is decided per case by Spec/Deciders.v deps_shapeb) and every
   key set the analysis received whose keys come from ds (children of the key include the declared
   dependencies of the parent's descriptor): every class C03's `pumps` accepts has ALL its terms available.
   = pumps_ev_sub (C03's derivable => evaluable along the DECLARED shifts) + C10_reads_respect_declared_shifts
   (within the declared shifts => everything that is read).  That the evaluation then returns the TRUE
   counts is C01_spec_correct_constructors. *)
Theorem C10_enough_for_productivity : forall (ds : list cdesc) (keys : list fkey),
  (forall c d, nth_error ds c = Some d -> deps_shape d) ->
  (forall k, In k keys -> exists d, nth_error ds (parent k) = Some d /\ incl (c_deps d) (kids k)) ->
  forall c, pumps keys c -> forall n, 0 <= n -> avail ds c n.
Proof. intros ds keys Hs Hk. exact (reads_available ds Hs keys Hk). Qed.

(* what availability means, one step unfolded *)
Theorem C10_available_means_every_read_available : forall (ds : list cdesc) c n, avail ds c n ->
  exists d, nth_error ds c = Some d /\
    forall p m, In (p, m) (reads_of d n) -> 0 <= m -> avail ds (target c d p) m.
Proof. exact avail_reads. Qed.

(* covers C10_enough_for_productivity: the seven-class specification of Spec/AdapterExample.v (a union, a
   product, a reverse union = Complement, a reverse product = Quotient with NEGATIVE declared shifts, three
   verified classes); its keys are what forest_key() hands over; the table-method model (C03, proved sound
   and complete) says every class pumps; hence every term is available - e.g. the Quotient's term of size 4,
   which asks for the ORIGINAL parent at size 5 *)
Definition c10_keys : list fkey := map (fun cd => mkkey (fst cd) (c_deps (snd cd))) (combine (seq 0 7) ex_ds).
Lemma c10_keys_sub : forall k, In k c10_keys ->
  exists d, nth_error ex_ds (parent k) = Some d /\ incl (c_deps d) (kids k).
Proof.
  intros k Hin. unfold c10_keys in Hin. simpl in Hin.
  repeat (destruct Hin as [<-|Hin]; [eexists; split; [reflexivity|apply incl_refl]|]). destruct Hin.
Qed.
Lemma c10_pumps : forall c, (c < 7)%nat -> pumps c10_keys c.
Proof.
  intros c Hc.
  assert (E : c10_keys = keys_of (map AddKey c10_keys)).
  { unfold c10_keys. simpl. reflexivity. }
  rewrite E. apply (proj1 (total_sound_complete pick0 (map AddKey c10_keys) c)).
  do 7 (destruct c as [|c]; [vm_compute; reflexivity|]). lia.
Qed.
Example C10_enough_for_productivity_nonvacuous : forall c n, (c < 7)%nat -> 0 <= n -> avail ex_ds c n.
Proof.
  intros c n Hc Hn.
  exact (C10_enough_for_productivity ex_ds c10_keys ex_shapes c10_keys_sub c (c10_pumps c Hc) n Hn).
Qed.
Example C10_quotient_reads_ahead_and_is_available :
  In (0, 5) (reads_of ex_d6 4) /\ target 6 ex_d6 0 = 2%nat /\ avail ex_ds 2 5.
Proof.
  split; [vm_compute; auto 10|]. split; [reflexivity|].
  apply C10_enough_for_productivity_nonvacuous; lia.
Qed.
(* near miss: a class whose only rule asks for ITS OWN term of the same size (declared shift 0 on itself) is
   not accepted by the analysis - and indeed its term of size 0 is not available *)
Definition c10_loop : list cdesc := [mkC 4 0 [] [Spec.AdapterExample.kY] 0 [0%nat] [(0%nat, 0)] [] [] 0].
Example C10_loop_not_available : ~ avail c10_loop 0 0.
Proof.
  intros H. remember 0%nat as c eqn:Ec. remember 0 as n eqn:En.
  induction H as [c d n Hd Hr IH]. subst c n.
  simpl in Hd. injection Hd as <-.
  apply (IH 0 0); [vm_compute; auto|lia|reflexivity|reflexivity].
Qed.


Print Assumptions C10_compositions_sound.
Print Assumptions C10_compositions_spec.
Print Assumptions C10_compositions_no_parts.
Print Assumptions C10_product.
Print Assumptions C10_union_complement.
Print Assumptions C10_quotient.
Print Assumptions C10_quotient_nothing_below_min.
Print Assumptions C10_reads_respect_declared_shifts.
Print Assumptions C10_one_shift_per_child.
Print Assumptions C10_derived_reads_respect_declared_shifts.
Print Assumptions C10_derived_reads_exact.
Print Assumptions C10_equivalence_shift_is_original_shift.
Print Assumptions C10_reverse_equivalence_shift_is_reverse_shift.
Print Assumptions C10_derived_reads_are_original_reads.
Print Assumptions C10_product_equivalence_shift.
Print Assumptions C10_path_shift_is_sum_of_step_shifts.
Print Assumptions C10_all_forms_reads_respect_declared_shifts.
Print Assumptions C10_all_forms_one_shift_per_child.
Print Assumptions C10_one_factor_product_shifts.
Print Assumptions C10_one_factor_product_reads.
Print Assumptions C10_quotient_no_sibling_reads.
Print Assumptions C10_one_factor_reads_respect_declared_shifts.
Print Assumptions C10_enough_for_productivity.
Print Assumptions C10_available_means_every_read_available.
