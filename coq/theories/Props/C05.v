(* C05 — pruning-based detection and proof-tree search are exact.
   Only statements; the proofs are in Tree/*.v.  Rule dictionaries are
   association lists label -> list of rules; the ORDER of the lists stands for
   Python's set/dict iteration order and every theorem holds for every order.
   random.choice / random.shuffle / the time limit are oracle arguments and the
   finder theorems hold for every oracle. *)
From Coq Require Import ZArith List Bool Lia Permutation.
From CSS Require Import Base.PyList Tree.Model Tree.Basics Tree.Valid Tree.PruneProofs
  Tree.IterProofs Tree.RandomProofs Tree.DfsProofs Tree.SpecProofs Tree.FuelProofs Tree.MinProofs.
From CSS Require Gen.TreePruneRuleTest Gen.TreeIterativePruneRuleTest Gen.TreeIterativeFinderRuleTest.
From CSS Require Import Tree.GenBridge.
Import ListNotations.
Open Scope Z_scope.

(* 1. prune = greatest fixed point.  gfp d k: k belongs to some set S of labels
   in which every member has a rule whose children are all in S.  For every
   dictionary whose rule sets are non-empty, prune terminates (never out of
   fuel), keeps exactly the labels of the greatest such S and exactly the rules
   whose parent and children lie in it. *)
Theorem C05_prune_gfp : forall d,
  all_nonempty d ->
  exists d', prune d = Some d' /\
    (forall k, has_key d' k = true <-> gfp d k) /\
    (forall k r, In r (rules_of d' k) <->
                 In r (rules_of d k) /\ gfp d k /\ forall x, In x r -> gfp d x).
Proof. exact prune_is_gfp. Qed.

(* the `while changed` loop ends within the fuel for EVERY dictionary *)
Theorem C05_prune_terminates : forall d, prune d <> None.
Proof. exact prune_terminates. Qed.

(* outside the shape the rule database produces: a label mapped to the empty
   set of rules survives pruning although it is in no fixed point
   (documented, not reachable from rules_up_to_equivalence: see
   C05_quotient_nonempty) *)
Theorem C05_prune_refuted_on_empty_ruleset :
  exists d d' k, prune d = Some d' /\ has_key d' k = true /\ ~ gfp d k.
Proof.
  exists [(0, [])], [(0, [])], 0. split; [reflexivity|]. split; [reflexivity|].
  intros (S & HS & Hk). destruct (HS 0 Hk) as (r & [] & _).
Qed.

(* 2. iterative_prune = bottom-up least fixed point with the root pre-verified:
   it terminates, keeps exactly the rules all of whose children are verifiable
   (iver: inductively, the root, or a label with a rule whose children are
   verifiable), and its keys are the labels that keep a rule. *)
Theorem C05_iterative_lfp : forall d root,
  exists nd, iterative_prune d root = Some nd /\
    (forall k r, In r (rules_of nd k) <->
                 In r (rules_of d k) /\ forall x, In x r -> iver d root x) /\
    (forall k, has_key nd k = true <-> ikey d root k).
Proof. exact iterative_prune_is_lfp. Qed.

(* 3. the dictionary handed to the pruning: exactly the recorded rules mapped
   to representatives, minus one-child rules inside a class; its rule sets are
   never empty *)
Theorem C05_quotient_rules : forall rep rules k r,
  In r (rules_of (rules_up_to_equivalence rep rules) k) <->
  exists start ends, In (start, ends) rules /\ kept rep start ends /\
                     rep start = k /\ sortZ (map rep ends) = r.
Proof. exact quotient_rules. Qed.

Theorem C05_quotient_nonempty : forall rep rules,
  all_nonempty (rules_up_to_equivalence rep rules).
Proof. exact quotient_nonempty. Qed.

(* has_specification, recursive packs: defined, and true exactly when the
   representative of the start label is in the greatest fixed point of the
   quotient dictionary *)
Theorem C05_has_spec_recursive : forall rep rules root,
  exists b, has_specification rep rules root false = Some b /\
    (b = true <-> gfp (rules_up_to_equivalence rep rules) (rep root)).
Proof. exact has_spec_recursive. Qed.

(* iterative packs: exactly when the representative keeps a rule bottom-up with
   recursion allowed to the start class's representative only *)
Theorem C05_has_spec_iterative : forall rep rules root,
  exists b, has_specification rep rules root true = Some b /\
    (b = true <->
     ikey (rules_up_to_equivalence rep rules) (Some (rep root)) (rep root)).
Proof. exact has_spec_iterative. Qed.

(* 4. validity of every returned tree.  valid_tree d t: every inner node uses a
   rule of d (up to the order of the children), every leaf has the rule () or a
   label expanded elsewhere in the tree, a label never gets two rules.
   expansions lists the labels of the inner nodes: NoDup = expanded once. *)
Theorem C05_tree_valid_random : forall d root oracle t,
  random_proof_tree d root oracle = Some t ->
  label t = root /\ valid_tree d t /\ NoDup (expansions (node_rules t)).
Proof. exact random_tree_valid. Qed.

Theorem C05_tree_valid_smallish : forall d root oracles t,
  smallish_random_proof_tree d root oracles = Some t ->
  label t = root /\ valid_tree d t /\ NoDup (expansions (node_rules t)).
Proof. exact smallish_tree_valid. Qed.

Theorem C05_tree_valid_dfs : forall d root maximum t,
  In t (proof_tree_generator_dfs d root maximum) ->
  label t = root /\ valid_tree d t /\ NoDup (expansions (node_rules t)).
Proof. exact dfs_generator_valid. Qed.

(* the iterative finder is exact and total: a tree exactly when the root keeps
   a rule bottom-up (else ValueError), never KeyError, never out of fuel; the
   tree is valid and recurses only to the root *)
Theorem C05_tree_valid_iterative : forall d root,
  match iterative_proof_tree_finder d root with
  | FTree t => ikey d (Some root) root /\ label t = root /\ valid_tree d t /\
               iterative_leaves d root t
  | FValueError => ~ ikey d (Some root) root
  | FKeyError => False
  | FOutOfFuel => False
  end.
Proof. exact iterative_finder_spec. Qed.

(* 5. size = 1 + sum of the arities of the rules at the nodes (leaves count 0;
   by C05_tree_valid_* each label is expanded once, so for the trees of the
   random and depth-first finders this is 1 + the sum over the expanded labels
   of the arity of the rule chosen for them) *)
Theorem C05_size_formula : forall t, size t = 1 + arities (node_rules t).
Proof. exact size_formula. Qed.

(* 6. the bounded depth-first generator *)
Theorem C05_dfs_bounded_sound : forall d root m t,
  In t (proof_tree_generator_dfs d root (Some m)) -> size t <= m.
Proof. exact dfs_bounded_sound. Qed.

(* ... is complete relative to the unbounded one: it yields exactly the trees
   of size <= m, in the same order (so next(...) is the first of them) *)
Theorem C05_dfs_bounded_complete : forall d root m,
  proof_tree_generator_dfs d root (Some m) =
  filter (fun t => size t <=? m) (proof_tree_generator_dfs d root None).
Proof. exact dfs_bounded_is_filter. Qed.

(* the recursion-depth fuel of the generator model (number of labels + 2) is
   never what stops it: on a closed dictionary (every child is a key: what
   pruning guarantees and the Python generator assumes) any extra fuel gives the
   same list of trees *)
Theorem C05_dfs_fuel_enough : forall d root m extra,
  closed d ->
  (if has_key d root
   then map snd (dfs_tree (sort_dict d) (dfs_fuel d + extra) [] m root)
   else []) = proof_tree_generator_dfs d root m.
Proof. exact dfs_fuel_enough. Qed.

(* the generator covers every proof tree: for every valid proof tree of a
   closed dictionary it yields a tree that is not larger *)
Theorem C05_dfs_covers_every_tree : forall d root t,
  closed d -> label t = root -> valid_tree d t ->
  exists t', In t' (proof_tree_generator_dfs d root None) /\ size t' <= size t.
Proof. exact dfs_covers_every_tree. Qed.

(* 'smallest'.  The binary search never runs out of fuel: _get_smallest_node
   fails only if the random first tree does (oracle not a run of random) *)
Theorem C05_smallest_defined : forall pd root oracles,
  get_smallest_node pd root oracles = None <->
  smallish_random_proof_tree pd root oracles = None.
Proof. exact smallest_node_defined. Qed.

(* and what it returns is a valid proof tree of minimum size among ALL valid
   proof trees for the root, for every closed dictionary ... *)
Theorem C05_smallest_minimum : forall pd root oracles res,
  closed pd ->
  get_smallest_node pd root oracles = Some res ->
  label res = root /\ valid_tree pd res /\
  forall t, label t = root -> valid_tree pd t -> size res <= size t.
Proof. exact smallest_is_minimum. Qed.

(* ... in particular on the path RuleDBBase takes: pruned quotient dictionary,
   representative of the start label *)
Theorem C05_smallest_minimum_ruledb : forall rep rules root oracles pd res,
  pruned_dict rep rules root false = Some pd ->
  get_smallest_node pd (rep root) oracles = Some res ->
  label res = rep root /\ valid_tree pd res /\
  forall t, label t = rep root -> valid_tree pd t -> size res <= size t.
Proof. exact ruledb_smallest_is_minimum. Qed.

(* 7. the breadth-first generator (exported, not used by RuleDB) is NOT valid:
   sibling subtrees choose rules independently, so a label can get two rules.
   Witness = the open finding replayed on the implementation by the harness. *)
Theorem C05_bfs_generator_refuted :
  exists d root t, In t (proof_tree_generator_bfs d root) /\ ~ valid_tree d t.
Proof.
  exists [(0, [[1; 1]]); (1, [[2]; [3]]); (2, [[]]); (3, [[]])], 0,
         (Node 0 [Node 1 [Node 2 []]; Node 1 [Node 3 []]]).
  split; [vm_compute; auto|].
  intros (_ & _ & V3). specialize (V3 1 [2] [3]).
  assert (E : [2] = [3]); [|discriminate E].
  apply V3; try discriminate; vm_compute; auto.
Qed.

(* ---------------------------------------------------------------- examples *)
(* hypotheses are satisfiable and the interesting branches are exercised *)
Example C05_nonvacuous_prune :
  let d := [(0, [[1; 2]; [3]]); (1, [[]; [1; 4]]); (2, [[0]]); (3, [[5]]); (4, [[4; 9]])] in
  all_nonempty d /\
  prune d = Some [(0, [[1; 2]]); (1, [[]]); (2, [[0]])].
Proof.
  split; [apply all_nonempty_check|]; reflexivity.
Qed.

Example C05_nonvacuous_iterative :
  let d := [(0, [[1; 0]; [7]]); (1, [[2]]); (2, [[]]); (3, [[3]])] in
  iterative_prune d (Some 0) = Some [(2, [[]]); (1, [[2]]); (0, [[1; 0]])] /\
  iterative_prune d None = Some [(2, [[]]); (1, [[2]])] /\
  iterative_proof_tree_finder d 0 = FTree (Node 0 [Node 1 [Node 2 []]; Node 0 []]).
Proof. vm_compute. auto. Qed.

Example C05_nonvacuous_finders :
  let d := [(0, [[1; 1]; [2]]); (1, [[0]; []]); (2, [[1; 1; 1]])] in
  random_proof_tree d 0 [([1; 1], [1; 1]); ([0], [0]); ([], []); ([2], [])]
    = Some (Node 0 [Node 1 [Node 0 []]; Node 1 []]) /\
  proof_tree_generator_dfs d 0 (Some 3) = [Node 0 [Node 1 []; Node 1 []]] /\
  length (proof_tree_generator_dfs d 0 None) = 4%nat /\
  get_smallest_node d 0 [[([2], [2]); ([1; 1; 1], [1; 1; 1]); ([], []); ([], []); ([], [])]]
    = Some (Node 0 [Node 1 []; Node 1 []]).
Proof. vm_compute. auto. Qed.

(* =====================================================================================
   NON-VACUITY (audit): every theorem of this file APPLIED to a concrete non-trivial
   instance (Coq checks that what is discharged are the theorems' own hypotheses), plus
   computed `_value` instances showing which witness / branch is taken.
     aP : 5 labels, 8 rules; the greatest fixed point is {0,1,2}, labels 3 and 4 are pruned
     aI : 5 labels; bottom-up derivable with recursion to the root only
     aF : 3 labels, 5 rules, closed, four proof trees of sizes 3,4,5,6 for the root
     aq_rep/aq_rules : 8 recorded rules over 9 labels, two non-trivial classes {0,10},{1,11};
          the start label 10 is NOT its own representative *)
Definition aP : rdict :=
  [(0, [[1; 2]; [3]]); (1, [[]; [1; 4]]); (2, [[0]]); (3, [[5]]); (4, [[4; 9]])].
Definition aI : rdict := [(0, [[1; 0]; [7]]); (1, [[2]]); (2, [[]]); (3, [[3]]); (4, [[5]])].
Definition aF : rdict := [(0, [[1; 1]; [2]]); (1, [[0]; []]); (2, [[1; 1; 1]])].
Definition a_runA : list choice := [([1; 1], [1; 1]); ([0], [0]); ([], []); ([2], [])].
Definition a_runB : list choice :=
  [([2], [2]); ([1; 1; 1], [1; 1; 1]); ([], []); ([], []); ([], [])].
Definition a_tA : tree := Node 0 [Node 1 [Node 0 []]; Node 1 []].      (* size 4 *)
Definition a_tB : tree := Node 0 [Node 2 [Node 1 []; Node 1 []; Node 1 []]].   (* size 5 *)
Definition a_tMin : tree := Node 0 [Node 1 []; Node 1 []].            (* size 3 *)
Definition aq_rep (x : Z) : Z := if x =? 10 then 0 else if x =? 11 then 1 else x.
Definition aq_rules : list (Z * rule) :=
  [(10, [1; 2]); (0, [10]); (1, []); (2, [11]); (3, [4]); (5, [3; 0]); (10, [2]); (6, [6; 11])].
Definition aq_pd : rdict := [(0, [[1; 2]; [2]]); (1, [[]]); (2, [[1]]); (6, [[1; 6]])].
Definition aq_run : list choice := [([1; 2], [2; 1]); ([1], [1]); ([], []); ([], [])].

Lemma aP_nonempty : all_nonempty aP.
Proof. apply all_nonempty_check. reflexivity. Qed.
Lemma aF_closed : closed aF.
Proof.
  apply (prune_closed aF aF); [apply all_nonempty_check|]; reflexivity.
Qed.

(* --- prune *)
Example C05_prune_gfp_nonvacuous :
  exists d', prune aP = Some d' /\
    (forall k, has_key d' k = true <-> gfp aP k) /\
    (forall k r, In r (rules_of d' k) <->
                 In r (rules_of aP k) /\ gfp aP k /\ forall x, In x r -> gfp aP x).
Proof. apply (C05_prune_gfp aP aP_nonempty). Qed.

(* the witness is the computed dictionary; through the theorem: 0 is in the greatest fixed
   point, 3 and 4 are not (both sides of the equivalences occur), the rule 0 -> (3) is dropped *)
Example C05_prune_gfp_value :
  prune aP = Some [(0, [[1; 2]]); (1, [[]]); (2, [[0]])] /\
  gfp aP 0 /\ ~ gfp aP 3 /\ ~ gfp aP 4 /\
  (In [3] (rules_of aP 0) /\ ~ (forall x, In x [3] -> gfp aP x)).
Proof.
  destruct (C05_prune_gfp aP aP_nonempty) as (d' & E & HK & HR).
  assert (E' : prune aP = Some [(0, [[1; 2]]); (1, [[]]); (2, [[0]])]) by (vm_compute; reflexivity).
  rewrite E' in E. injection E as <-.
  assert (N3 : ~ gfp aP 3) by (intros H; apply HK in H; discriminate H).
  split; [exact E'|]. split; [apply HK; reflexivity|]. split; [exact N3|].
  split; [intros H; apply HK in H; discriminate H|].
  split; [simpl; auto|]. intros H. apply N3, H. simpl; auto.
Qed.

(* hypothesis-free; prune needs three passes here (fuel 2 is out of fuel), the fuel S (nrules d) = 9 suffices *)
Example C05_prune_terminates_nonvacuous :
  prune aP <> None /\ prune_loop 2 aP = None /\ prune_loop 3 aP <> None.
Proof.
  split; [exact (C05_prune_terminates aP)|]. split; [vm_compute; reflexivity|].
  vm_compute; discriminate.
Qed.

(* --- iterative_prune *)
Example C05_iterative_lfp_nonvacuous :
  exists nd, iterative_prune aI (Some 0) = Some nd /\
    (forall k r, In r (rules_of nd k) <->
                 In r (rules_of aI k) /\ forall x, In x r -> iver aI (Some 0) x) /\
    (forall k, has_key nd k = true <-> ikey aI (Some 0) k).
Proof. apply (C05_iterative_lfp aI (Some 0)). Qed.

Example C05_iterative_lfp_value :
  iterative_prune aI (Some 0) = Some [(2, [[]]); (1, [[2]]); (0, [[1; 0]])] /\
  iterative_prune aI None = Some [(2, [[]]); (1, [[2]])] /\
  ikey aI (Some 0) 0 /\ ~ ikey aI None 0 /\ ~ ikey aI (Some 0) 3 /\ ~ ikey aI (Some 0) 4 /\
  (forall x, In x [1; 0] -> iver aI (Some 0) x).
Proof.
  destruct (C05_iterative_lfp aI (Some 0)) as (nd & E & HR & HK).
  destruct (C05_iterative_lfp aI None) as (nd0 & E0 & _ & HK0).
  assert (E' : iterative_prune aI (Some 0) = Some [(2, [[]]); (1, [[2]]); (0, [[1; 0]])])
    by (vm_compute; reflexivity).
  assert (E0' : iterative_prune aI None = Some [(2, [[]]); (1, [[2]])])
    by (vm_compute; reflexivity).
  rewrite E' in E. injection E as <-. rewrite E0' in E0. injection E0 as <-.
  split; [exact E'|]. split; [exact E0'|]. split; [apply HK; reflexivity|].
  split; [intros H; apply HK0 in H; discriminate H|].
  split; [intros H; apply HK in H; discriminate H|].
  split; [intros H; apply HK in H; discriminate H|].
  apply (HR 0 [1; 0]). simpl; auto.
Qed.

(* --- the quotient dictionary; aq_rep is not the identity *)
Example C05_quotient_rules_nonvacuous :
  In [1; 2] (rules_of (rules_up_to_equivalence aq_rep aq_rules) 0) /\
  In [1] (rules_of (rules_up_to_equivalence aq_rep aq_rules) 2) /\
  ~ In [0] (rules_of (rules_up_to_equivalence aq_rep aq_rules) 0).
Proof.
  split; [|split].
  - apply (C05_quotient_rules aq_rep aq_rules 0 [1; 2]). exists 10, [1; 2].
    split; [simpl; auto|]. split; [exact I|]. split; reflexivity.
  - apply (C05_quotient_rules aq_rep aq_rules 2 [1]). exists 2, [11].
    split; [simpl; auto 6|]. split; [vm_compute; discriminate|]. split; reflexivity.
  - (* the recorded rule 0 -> (10) lies inside the class {0,10}: not kept *)
    intros H. apply (C05_quotient_rules aq_rep aq_rules 0 [0]) in H.
    destruct H as (start & ends & Hin & Hk & Hs & He).
    simpl in Hin.
    repeat (destruct Hin as [Hin|Hin]; [injection Hin as <- <-; try discriminate He;
                                        try (apply Hk; reflexivity)|]).
    destruct Hin.
Qed.

Example C05_quotient_value :
  rules_up_to_equivalence aq_rep aq_rules =
  [(0, [[1; 2]; [2]]); (1, [[]]); (2, [[1]]); (3, [[4]]); (5, [[0; 3]]); (6, [[1; 6]])].
Proof. vm_compute. reflexivity. Qed.

Example C05_quotient_nonempty_nonvacuous :
  all_nonempty (rules_up_to_equivalence aq_rep aq_rules) /\ ~ all_nonempty [(0, [])].
Proof.
  split; [exact (C05_quotient_nonempty aq_rep aq_rules)|]. intros H. apply (H 0). reflexivity.
Qed.

(* --- has_specification: start label 10, representative 0 *)
Example C05_has_spec_recursive_nonvacuous :
  exists b, has_specification aq_rep aq_rules 10 false = Some b /\
    (b = true <-> gfp (rules_up_to_equivalence aq_rep aq_rules) (aq_rep 10)).
Proof. apply (C05_has_spec_recursive aq_rep aq_rules 10). Qed.

(* both answers occur: class of 10 has a specification, class of 5 has none *)
Example C05_has_spec_recursive_value :
  has_specification aq_rep aq_rules 10 false = Some true /\
  has_specification aq_rep aq_rules 5 false = Some false /\
  gfp (rules_up_to_equivalence aq_rep aq_rules) 0 /\
  ~ gfp (rules_up_to_equivalence aq_rep aq_rules) 5.
Proof.
  destruct (C05_has_spec_recursive aq_rep aq_rules 10) as (b & E & H).
  destruct (C05_has_spec_recursive aq_rep aq_rules 5) as (b' & E' & H').
  assert (X : has_specification aq_rep aq_rules 10 false = Some true) by (vm_compute; reflexivity).
  assert (X' : has_specification aq_rep aq_rules 5 false = Some false) by (vm_compute; reflexivity).
  rewrite X in E. injection E as <-. rewrite X' in E'. injection E' as <-.
  split; [exact X|]. split; [exact X'|]. split; [apply H; reflexivity|].
  intros G. apply H' in G. discriminate G.
Qed.

Example C05_has_spec_iterative_nonvacuous :
  exists b, has_specification aq_rep aq_rules 10 true = Some b /\
    (b = true <->
     ikey (rules_up_to_equivalence aq_rep aq_rules) (Some (aq_rep 10)) (aq_rep 10)).
Proof. apply (C05_has_spec_iterative aq_rep aq_rules 10). Qed.

(* both answers occur; label 3 (rule 3 -> (4), 4 has no rule) is the `false` case *)
Example C05_has_spec_iterative_value :
  has_specification aq_rep aq_rules 10 true = Some true /\
  has_specification aq_rep aq_rules 3 true = Some false /\
  ikey (rules_up_to_equivalence aq_rep aq_rules) (Some 0) 0 /\
  ~ ikey (rules_up_to_equivalence aq_rep aq_rules) (Some 3) 3.
Proof.
  destruct (C05_has_spec_iterative aq_rep aq_rules 10) as (b & E & H).
  destruct (C05_has_spec_iterative aq_rep aq_rules 3) as (b' & E' & H').
  assert (X : has_specification aq_rep aq_rules 10 true = Some true) by (vm_compute; reflexivity).
  assert (X' : has_specification aq_rep aq_rules 3 true = Some false) by (vm_compute; reflexivity).
  rewrite X in E. injection E as <-. rewrite X' in E'. injection E' as <-.
  split; [exact X|]. split; [exact X'|]. split; [apply H; reflexivity|].
  intros G. apply H' in G. discriminate G.
Qed.

(* --- validity of the returned trees *)
Example C05_tree_valid_random_nonvacuous :
  label a_tA = 0 /\ valid_tree aF a_tA /\ NoDup (expansions (node_rules a_tA)).
Proof. apply (C05_tree_valid_random aF 0 a_runA a_tA). vm_compute. reflexivity. Qed.

(* two runs: the first builds the 5-node tree, the second the 4-node tree, which wins *)
Example C05_tree_valid_smallish_nonvacuous :
  label a_tA = 0 /\ valid_tree aF a_tA /\ NoDup (expansions (node_rules a_tA)).
Proof.
  apply (C05_tree_valid_smallish aF 0 [a_runB; a_runA] a_tA). vm_compute. reflexivity.
Qed.

Example C05_tree_valid_dfs_nonvacuous :
  label a_tB = 0 /\ valid_tree aF a_tB /\ NoDup (expansions (node_rules a_tB)).
Proof. apply (C05_tree_valid_dfs aF 0 None a_tB). vm_compute. auto. Qed.

(* valid_tree is not a trivial predicate: the breadth-first witness of
   C05_bfs_generator_refuted fails it; here a second near miss, a rule that is not in aF *)
Example C05_valid_tree_discriminates : ~ valid_tree aF (Node 0 [Node 1 []]).
Proof.
  intros (V1 & _). destruct (V1 0 [1]) as (r & Hr & HP); [vm_compute; auto|discriminate|].
  apply Permutation_sym, Permutation_length_1_inv in HP. subst r.
  vm_compute in Hr. destruct Hr as [Hr|[Hr|[]]]; discriminate Hr.
Qed.

(* FTree branch *)
Example C05_tree_valid_iterative_nonvacuous :
  let t := Node 0 [Node 1 [Node 2 []]; Node 0 []] in
  ikey aI (Some 0) 0 /\ label t = 0 /\ valid_tree aI t /\ iterative_leaves aI 0 t.
Proof. exact (C05_tree_valid_iterative aI 0). Qed.

(* FValueError branch: 4 -> (5) and 5 has no rule *)
Example C05_tree_valid_iterative_value :
  iterative_proof_tree_finder aI 0 = FTree (Node 0 [Node 1 [Node 2 []]; Node 0 []]) /\
  iterative_proof_tree_finder aI 4 = FValueError /\ ~ ikey aI (Some 4) 4.
Proof.
  split; [vm_compute; reflexivity|]. split; [vm_compute; reflexivity|].
  exact (C05_tree_valid_iterative aI 4).
Qed.

(* --- size *)
Example C05_size_formula_nonvacuous :
  size a_tB = 1 + arities (node_rules a_tB) /\ size a_tB = 5 /\ size a_tMin = 3.
Proof. split; [exact (C05_size_formula a_tB)|]. split; reflexivity. Qed.

(* --- the bounded depth-first generator *)
Example C05_dfs_bounded_sound_nonvacuous : size a_tA <= 4.
Proof. apply (C05_dfs_bounded_sound aF 0 4 a_tA). vm_compute. auto. Qed.

(* the bound really filters: 4 trees (sizes 3,4,5,6) without bound, 2 with maximum 4 *)
Example C05_dfs_bounded_complete_nonvacuous :
  proof_tree_generator_dfs aF 0 (Some 4) =
  filter (fun t => size t <=? 4) (proof_tree_generator_dfs aF 0 None) /\
  map size (proof_tree_generator_dfs aF 0 None) = [3; 4; 5; 6] /\
  proof_tree_generator_dfs aF 0 (Some 4) = [a_tMin; a_tA].
Proof.
  split; [exact (C05_dfs_bounded_complete aF 0 4)|]. split; vm_compute; reflexivity.
Qed.

(* three levels of extra fuel; too little fuel does change the list, so the statement is
   not true of any fuel *)
Example C05_dfs_fuel_enough_nonvacuous :
  (if has_key aF 0
   then map snd (dfs_tree (sort_dict aF) (dfs_fuel aF + 3) [] None 0)
   else []) = proof_tree_generator_dfs aF 0 None /\
  map snd (dfs_tree (sort_dict aF) 2 [] None 0) <> proof_tree_generator_dfs aF 0 None.
Proof.
  split; [exact (C05_dfs_fuel_enough aF 0 None 3 aF_closed)|]. vm_compute. discriminate.
Qed.

(* a valid tree of size 5 (validity through C05_tree_valid_dfs); the generator has one not larger *)
Example C05_dfs_covers_every_tree_nonvacuous :
  exists t', In t' (proof_tree_generator_dfs aF 0 None) /\ size t' <= size a_tB.
Proof.
  apply (C05_dfs_covers_every_tree aF 0 a_tB aF_closed eq_refl).
  apply C05_tree_valid_dfs_nonvacuous.
Qed.

(* --- 'smallest' *)
Example C05_smallest_defined_nonvacuous :
  get_smallest_node aF 0 [a_runB; a_runA] <> None /\
  (* an oracle that is not a run of random (the rule (7) is not in the set): both sides None *)
  get_smallest_node aF 0 [[([7], [7])]] = None.
Proof.
  split.
  - intros H. apply (C05_smallest_defined aF 0 [a_runB; a_runA]) in H. vm_compute in H.
    discriminate H.
  - apply (C05_smallest_defined aF 0 [[([7], [7])]]). vm_compute. reflexivity.
Qed.

(* the random trees have sizes 5 and 4; the binary search finds the 3-node tree *)
Example C05_smallest_minimum_nonvacuous :
  label a_tMin = 0 /\ valid_tree aF a_tMin /\
  forall t, label t = 0 -> valid_tree aF t -> size a_tMin <= size t.
Proof.
  apply (C05_smallest_minimum aF 0 [a_runB; a_runA] a_tMin aF_closed). vm_compute. reflexivity.
Qed.

(* RuleDB path: recorded rules, start label 10 with representative 0; the random tree has
   4 nodes (rule 0 -> (1,2)), the smallest 3 (rule 0 -> (2)) *)
Example C05_smallest_minimum_ruledb_nonvacuous :
  let res := Node 0 [Node 2 [Node 1 []]] in
  label res = aq_rep 10 /\ valid_tree aq_pd res /\
  forall t, label t = aq_rep 10 -> valid_tree aq_pd t -> size res <= size t.
Proof.
  apply (C05_smallest_minimum_ruledb aq_rep aq_rules 10 [aq_run] aq_pd (Node 0 [Node 2 [Node 1 []]])).
  - vm_compute. reflexivity.
  - vm_compute. reflexivity.
Qed.

Example C05_smallest_minimum_ruledb_value :
  random_proof_tree aq_pd 0 aq_run = Some (Node 0 [Node 2 [Node 1 []]; Node 1 []]) /\
  get_smallest_node aq_pd 0 [aq_run] = Some (Node 0 [Node 2 [Node 1 []]]).
Proof. split; vm_compute; reflexivity. Qed.

(* ================= the per-rule tests are the source's (translator) =================
   prune removes a rule exactly when the source's test
   `any(x not in rdict for x in rule)` holds, and iterative_prune / the iterative
   finder accept a rule exactly when `all(x in verified_labels for x in rule)`
   holds (Gen/TreePruneRuleTest.v, Gen/TreeIterativePruneRuleTest.v,
   re-translated from tree_searcher.py on every run). *)
Theorem C05_prune_test_is_source : forall k d ch r,
  prune_rule k (d, ch) r =
  let '(d1, ch1) := if TreePruneRuleTest.prune_rule_test d r
                    then (upd d k (remove_rule r), true) else (d, ch) in
  match get d1 k with
  | Some [] => (del d1 k, ch1)
  | _ => (d1, ch1)
  end.
Proof. exact prune_rule_is_source. Qed.

Theorem C05_iterative_test_is_source : forall root k s r,
  iter_rule root k s r =
  if TreeIterativePruneRuleTest.iterative_prune_rule_test (iv s) r
  then
    let '(ts, e) := match create_tree root (itrees s) k r with
                    | Some ts => (ts, ierr s)
                    | None => (itrees s, true)
                    end in
    mkI (set_add k (iv s)) (upd (ird s) k (remove_rule r)) (add_rule (inew s) k r) ts e true
  else s.
Proof. exact iter_rule_is_source. Qed.

(* the finder's copy of the loop (iterative_proof_tree_finder) uses the same test *)
Theorem C05_finder_test_is_source : forall root k s r,
  iter_rule root k s r =
  if TreeIterativeFinderRuleTest.iterative_finder_rule_test (iv s) r
  then
    let '(ts, e) := match create_tree root (itrees s) k r with
                    | Some ts => (ts, ierr s)
                    | None => (itrees s, true)
                    end in
    mkI (set_add k (iv s)) (upd (ird s) k (remove_rule r)) (add_rule (inew s) k r) ts e true
  else s.
Proof. exact iter_rule_is_source_finder. Qed.

Print Assumptions C05_prune_gfp.
Print Assumptions C05_prune_terminates.
Print Assumptions C05_prune_refuted_on_empty_ruleset.
Print Assumptions C05_iterative_lfp.
Print Assumptions C05_quotient_rules.
Print Assumptions C05_quotient_nonempty.
Print Assumptions C05_has_spec_recursive.
Print Assumptions C05_has_spec_iterative.
Print Assumptions C05_tree_valid_random.
Print Assumptions C05_tree_valid_smallish.
Print Assumptions C05_tree_valid_dfs.
Print Assumptions C05_tree_valid_iterative.
Print Assumptions C05_size_formula.
Print Assumptions C05_dfs_bounded_sound.
Print Assumptions C05_dfs_bounded_complete.
Print Assumptions C05_dfs_fuel_enough.
Print Assumptions C05_dfs_covers_every_tree.
Print Assumptions C05_smallest_defined.
Print Assumptions C05_smallest_minimum.
Print Assumptions C05_smallest_minimum_ruledb.
Print Assumptions C05_bfs_generator_refuted.
Print Assumptions C05_prune_test_is_source.
Print Assumptions C05_iterative_test_is_source.
Print Assumptions C05_finder_test_is_source.
