(* C05 — pruning-based detection and proof-tree search are exact.
   Only statements; the proofs are in Tree/*.v.  Rule dictionaries are
   association lists label -> list of rules; the ORDER of the lists stands for
   Python's set/dict iteration order and every theorem holds for every order.
   random.choice / random.shuffle / the time limit are oracle arguments and the
   finder theorems hold for every oracle. *)
From Coq Require Import ZArith List Bool Lia Permutation.
From CSS Require Import Base.PyList Tree.Model Tree.Basics Tree.Valid Tree.PruneProofs
  Tree.IterProofs Tree.RandomProofs Tree.DfsProofs Tree.SpecProofs Tree.FuelProofs Tree.MinProofs.
Import ListNotations.
Open Scope Z_scope.

(* 1. prune = greatest fixed point.  gfp d k: k belongs to some set S of labels
   in which every member has a rule whose children are all in S.  For every
   dictionary whose rule sets are non-empty, prune terminates (never out of
   fuel), keeps exactly the labels of the greatest such S and exactly the rules
   whose parent and children lie in it. *)
Theorem C05_prune_gfp : forall d,
  all_nonempty d ->
  exists d', prune d = Some d' /\
    (forall k, has_key d' k = true <-> gfp d k) /\
    (forall k r, In r (rules_of d' k) <->
                 In r (rules_of d k) /\ gfp d k /\ forall x, In x r -> gfp d x).
Proof. exact prune_is_gfp. Qed.

(* the `while changed` loop ends within the fuel for EVERY dictionary *)
Theorem C05_prune_terminates : forall d, prune d <> None.
Proof. exact prune_terminates. Qed.

(* outside the shape the rule database produces: a label mapped to the empty
   set of rules survives pruning although it is in no fixed point
   (documented, not reachable from rules_up_to_equivalence: see
   C05_quotient_nonempty) *)
Theorem C05_prune_refuted_on_empty_ruleset :
  exists d d' k, prune d = Some d' /\ has_key d' k = true /\ ~ gfp d k.
Proof.
  exists [(0, [])], [(0, [])], 0. split; [reflexivity|]. split; [reflexivity|].
  intros (S & HS & Hk). destruct (HS 0 Hk) as (r & [] & _).
Qed.

(* 2. iterative_prune = bottom-up least fixed point with the root pre-verified:
   it terminates, keeps exactly the rules all of whose children are verifiable
   (iver: inductively, the root, or a label with a rule whose children are
   verifiable), and its keys are the labels that keep a rule. *)
Theorem C05_iterative_lfp : forall d root,
  exists nd, iterative_prune d root = Some nd /\
    (forall k r, In r (rules_of nd k) <->
                 In r (rules_of d k) /\ forall x, In x r -> iver d root x) /\
    (forall k, has_key nd k = true <-> ikey d root k).
Proof. exact iterative_prune_is_lfp. Qed.

(* 3. the dictionary handed to the pruning: exactly the recorded rules mapped
   to representatives, minus one-child rules inside a class; its rule sets are
   never empty *)
Theorem C05_quotient_rules : forall rep rules k r,
  In r (rules_of (rules_up_to_equivalence rep rules) k) <->
  exists start ends, In (start, ends) rules /\ kept rep start ends /\
                     rep start = k /\ sortZ (map rep ends) = r.
Proof. exact quotient_rules. Qed.

Theorem C05_quotient_nonempty : forall rep rules,
  all_nonempty (rules_up_to_equivalence rep rules).
Proof. exact quotient_nonempty. Qed.

(* has_specification, recursive packs: defined, and true exactly when the
   representative of the start label is in the greatest fixed point of the
   quotient dictionary *)
Theorem C05_has_spec_recursive : forall rep rules root,
  exists b, has_specification rep rules root false = Some b /\
    (b = true <-> gfp (rules_up_to_equivalence rep rules) (rep root)).
Proof. exact has_spec_recursive. Qed.

(* iterative packs: exactly when the representative keeps a rule bottom-up with
   recursion allowed to the start class's representative only *)
Theorem C05_has_spec_iterative : forall rep rules root,
  exists b, has_specification rep rules root true = Some b /\
    (b = true <->
     ikey (rules_up_to_equivalence rep rules) (Some (rep root)) (rep root)).
Proof. exact has_spec_iterative. Qed.

(* 4. validity of every returned tree.  valid_tree d t: every inner node uses a
   rule of d (up to the order of the children), every leaf has the rule () or a
   label expanded elsewhere in the tree, a label never gets two rules.
   expansions lists the labels of the inner nodes: NoDup = expanded once. *)
Theorem C05_tree_valid_random : forall d root oracle t,
  random_proof_tree d root oracle = Some t ->
  label t = root /\ valid_tree d t /\ NoDup (expansions (node_rules t)).
Proof. exact random_tree_valid. Qed.

Theorem C05_tree_valid_smallish : forall d root oracles t,
  smallish_random_proof_tree d root oracles = Some t ->
  label t = root /\ valid_tree d t /\ NoDup (expansions (node_rules t)).
Proof. exact smallish_tree_valid. Qed.

Theorem C05_tree_valid_dfs : forall d root maximum t,
  In t (proof_tree_generator_dfs d root maximum) ->
  label t = root /\ valid_tree d t /\ NoDup (expansions (node_rules t)).
Proof. exact dfs_generator_valid. Qed.

(* the iterative finder is exact and total: a tree exactly when the root keeps
   a rule bottom-up (else ValueError), never KeyError, never out of fuel; the
   tree is valid and recurses only to the root *)
Theorem C05_tree_valid_iterative : forall d root,
  match iterative_proof_tree_finder d root with
  | FTree t => ikey d (Some root) root /\ label t = root /\ valid_tree d t /\
               iterative_leaves d root t
  | FValueError => ~ ikey d (Some root) root
  | FKeyError => False
  | FOutOfFuel => False
  end.
Proof. exact iterative_finder_spec. Qed.

(* 5. size = 1 + sum of the arities of the rules at the nodes (leaves count 0;
   by C05_tree_valid_* each label is expanded once, so for the trees of the
   random and depth-first finders this is 1 + the sum over the expanded labels
   of the arity of the rule chosen for them) *)
Theorem C05_size_formula : forall t, size t = 1 + arities (node_rules t).
Proof. exact size_formula. Qed.

(* 6. the bounded depth-first generator *)
Theorem C05_dfs_bounded_sound : forall d root m t,
  In t (proof_tree_generator_dfs d root (Some m)) -> size t <= m.
Proof. exact dfs_bounded_sound. Qed.

(* ... is complete relative to the unbounded one: it yields exactly the trees
   of size <= m, in the same order (so next(...) is the first of them) *)
Theorem C05_dfs_bounded_complete : forall d root m,
  proof_tree_generator_dfs d root (Some m) =
  filter (fun t => size t <=? m) (proof_tree_generator_dfs d root None).
Proof. exact dfs_bounded_is_filter. Qed.

(* the recursion-depth fuel of the generator model (number of labels + 2) is
   never what stops it: on a closed dictionary (every child is a key: what
   pruning guarantees and the Python generator assumes) any extra fuel gives the
   same list of trees *)
Theorem C05_dfs_fuel_enough : forall d root m extra,
  closed d ->
  (if has_key d root
   then map snd (dfs_tree (sort_dict d) (dfs_fuel d + extra) [] m root)
   else []) = proof_tree_generator_dfs d root m.
Proof. exact dfs_fuel_enough. Qed.

(* the generator covers every proof tree: for every valid proof tree of a
   closed dictionary it yields a tree that is not larger *)
Theorem C05_dfs_covers_every_tree : forall d root t,
  closed d -> label t = root -> valid_tree d t ->
  exists t', In t' (proof_tree_generator_dfs d root None) /\ size t' <= size t.
Proof. exact dfs_covers_every_tree. Qed.

(* 'smallest'.  The binary search never runs out of fuel: _get_smallest_node
   fails only if the random first tree does (oracle not a run of random) *)
Theorem C05_smallest_defined : forall pd root oracles,
  get_smallest_node pd root oracles = None <->
  smallish_random_proof_tree pd root oracles = None.
Proof. exact smallest_node_defined. Qed.

(* and what it returns is a valid proof tree of minimum size among ALL valid
   proof trees for the root, for every closed dictionary ... *)
Theorem C05_smallest_minimum : forall pd root oracles res,
  closed pd ->
  get_smallest_node pd root oracles = Some res ->
  label res = root /\ valid_tree pd res /\
  forall t, label t = root -> valid_tree pd t -> size res <= size t.
Proof. exact smallest_is_minimum. Qed.

(* ... in particular on the path RuleDBBase takes: pruned quotient dictionary,
   representative of the start label *)
Theorem C05_smallest_minimum_ruledb : forall rep rules root oracles pd res,
  pruned_dict rep rules root false = Some pd ->
  get_smallest_node pd (rep root) oracles = Some res ->
  label res = rep root /\ valid_tree pd res /\
  forall t, label t = rep root -> valid_tree pd t -> size res <= size t.
Proof. exact ruledb_smallest_is_minimum. Qed.

(* 7. the breadth-first generator (exported, not used by RuleDB) is NOT valid:
   sibling subtrees choose rules independently, so a label can get two rules.
   Witness = the open finding replayed on the implementation by the harness. *)
Theorem C05_bfs_generator_refuted :
  exists d root t, In t (proof_tree_generator_bfs d root) /\ ~ valid_tree d t.
Proof.
  exists [(0, [[1; 1]]); (1, [[2]; [3]]); (2, [[]]); (3, [[]])], 0,
         (Node 0 [Node 1 [Node 2 []]; Node 1 [Node 3 []]]).
  split; [vm_compute; auto|].
  intros (_ & _ & V3). specialize (V3 1 [2] [3]).
  assert (E : [2] = [3]); [|discriminate E].
  apply V3; try discriminate; vm_compute; auto.
Qed.

(* ---------------------------------------------------------------- examples *)
(* hypotheses are satisfiable and the interesting branches are exercised *)
Example C05_nonvacuous_prune :
  let d := [(0, [[1; 2]; [3]]); (1, [[]; [1; 4]]); (2, [[0]]); (3, [[5]]); (4, [[4; 9]])] in
  all_nonempty d /\
  prune d = Some [(0, [[1; 2]]); (1, [[]]); (2, [[0]])].
Proof.
  split; [apply all_nonempty_check|]; reflexivity.
Qed.

Example C05_nonvacuous_iterative :
  let d := [(0, [[1; 0]; [7]]); (1, [[2]]); (2, [[]]); (3, [[3]])] in
  iterative_prune d (Some 0) = Some [(2, [[]]); (1, [[2]]); (0, [[1; 0]])] /\
  iterative_prune d None = Some [(2, [[]]); (1, [[2]])] /\
  iterative_proof_tree_finder d 0 = FTree (Node 0 [Node 1 [Node 2 []]; Node 0 []]).
Proof. vm_compute. auto. Qed.

Example C05_nonvacuous_finders :
  let d := [(0, [[1; 1]; [2]]); (1, [[0]; []]); (2, [[1; 1; 1]])] in
  random_proof_tree d 0 [([1; 1], [1; 1]); ([0], [0]); ([], []); ([2], [])]
    = Some (Node 0 [Node 1 [Node 0 []]; Node 1 []]) /\
  proof_tree_generator_dfs d 0 (Some 3) = [Node 0 [Node 1 []; Node 1 []]] /\
  length (proof_tree_generator_dfs d 0 None) = 4%nat /\
  get_smallest_node d 0 [[([2], [2]); ([1; 1; 1], [1; 1; 1]); ([], []); ([], []); ([], [])]]
    = Some (Node 0 [Node 1 []; Node 1 []]).
Proof. vm_compute. auto. Qed.

Print Assumptions C05_prune_gfp.
Print Assumptions C05_prune_terminates.
Print Assumptions C05_prune_refuted_on_empty_ruleset.
Print Assumptions C05_iterative_lfp.
Print Assumptions C05_quotient_rules.
Print Assumptions C05_quotient_nonempty.
Print Assumptions C05_has_spec_recursive.
Print Assumptions C05_has_spec_iterative.
Print Assumptions C05_tree_valid_random.
Print Assumptions C05_tree_valid_smallish.
Print Assumptions C05_tree_valid_dfs.
Print Assumptions C05_tree_valid_iterative.
Print Assumptions C05_size_formula.
Print Assumptions C05_dfs_bounded_sound.
Print Assumptions C05_dfs_bounded_complete.
Print Assumptions C05_dfs_fuel_enough.
Print Assumptions C05_dfs_covers_every_tree.
Print Assumptions C05_smallest_defined.
Print Assumptions C05_smallest_minimum.
Print Assumptions C05_smallest_minimum_ruledb.
Print Assumptions C05_bfs_generator_refuted.
