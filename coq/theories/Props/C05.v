(* C05 — pruning-based detection and proof-tree search are exact.
   Only statements; the proofs are in Tree/*.v.  Rule dictionaries are
   association lists label -> list of rules; the ORDER of the lists stands for
   Python's set/dict iteration order and every theorem holds for every order.
   random.choice / random.shuffle / the time limit are oracle arguments and the
   finder theorems hold for every oracle. *)
From Coq Require Import ZArith List Bool Lia Permutation.
From CSS Require Import Base.PyList Tree.Model Tree.Basics Tree.Valid Tree.PruneProofs
  Tree.IterProofs Tree.RandomProofs Tree.DfsProofs Tree.SpecProofs Tree.FuelProofs Tree.MinProofs
  Tree.ProgressProofs.
From CSS Require Gen.TreePruneRuleTest Gen.TreeIterativePruneRuleTest Gen.TreeIterativeFinderRuleTest.
From CSS Require Import Tree.GenBridge.
Import ListNotations.
Open Scope Z_scope.

(* 1. prune = greatest fixed point.  gfp d k: k belongs to some set S of labels
   in which every member has a rule whose children are all in S.  For every
   dictionary whose rule sets are non-empty, prune terminates (never out of
   fuel), keeps exactly the labels of the greatest such S and exactly the rules
   whose parent and children lie in it. *)
Theorem C05_prune_gfp : forall d,
  all_nonempty d ->
  exists d', prune d = Some d' /\
    (forall k, has_key d' k = true <-> gfp d k) /\
    (forall k r, In r (rules_of d' k) <->
                 In r (rules_of d k) /\ gfp d k /\ forall x, In x r -> gfp d x).
Proof. exact prune_is_gfp. Qed.

(* the `while changed` loop ends within the fuel for EVERY dictionary *)
Theorem C05_prune_terminates : forall d, prune d <> None.
Proof. exact prune_terminates. Qed.

(* outside the shape the rule database produces: a label mapped to the empty
   set of rules survives pruning although it is in no fixed point
   (documented, not reachable from rules_up_to_equivalence: see
   C05_quotient_nonempty) *)
Theorem C05_prune_refuted_on_empty_ruleset :
  exists d d' k, prune d = Some d' /\ has_key d' k = true /\ ~ gfp d k.
Proof.
  exists [(0, [])], [(0, [])], 0. split; [reflexivity|]. split; [reflexivity|].
  intros (S & HS & Hk). destruct (HS 0 Hk) as (r & [] & _).
Qed.

(* 2. iterative_prune = bottom-up least fixed point with the root pre-verified:
   it terminates, keeps exactly the rules all of whose children are verifiable
   (iver: inductively, the root, or a label with a rule whose children are
   verifiable), and its keys are the labels that keep a rule. *)
Theorem C05_iterative_lfp : forall d root,
  exists nd, iterative_prune d root = Some nd /\
    (forall k r, In r (rules_of nd k) <->
                 In r (rules_of d k) /\ forall x, In x r -> iver d root x) /\
    (forall k, has_key nd k = true <-> ikey d root k).
Proof. exact iterative_prune_is_lfp. Qed.

(* 3. the dictionary handed to the pruning: exactly the recorded rules mapped
   to representatives, minus one-child rules inside a class; its rule sets are
   never empty *)
Theorem C05_quotient_rules : forall rep rules k r,
  In r (rules_of (rules_up_to_equivalence rep rules) k) <->
  exists start ends, In (start, ends) rules /\ kept rep start ends /\
                     rep start = k /\ sortZ (map rep ends) = r.
Proof. exact quotient_rules. Qed.

Theorem C05_quotient_nonempty : forall rep rules,
  all_nonempty (rules_up_to_equivalence rep rules).
Proof. exact quotient_nonempty. Qed.

(* has_specification, recursive packs: defined, and true exactly when the
   representative of the start label is in the greatest fixed point of the
   quotient dictionary *)
Theorem C05_has_spec_recursive : forall rep rules root,
  exists b, has_specification rep rules root false = Some b /\
    (b = true <-> gfp (rules_up_to_equivalence rep rules) (rep root)).
Proof. exact has_spec_recursive. Qed.

(* iterative packs: exactly when the representative keeps a rule bottom-up with
   recursion allowed to the start class's representative only *)
Theorem C05_has_spec_iterative : forall rep rules root,
  exists b, has_specification rep rules root true = Some b /\
    (b = true <->
     ikey (rules_up_to_equivalence rep rules) (Some (rep root)) (rep root)).
Proof. exact has_spec_iterative. Qed.

(* 4. validity of every returned tree.  valid_tree d t: every inner node uses a
   rule of d (up to the order of the children), every leaf has the rule () or a
   label expanded elsewhere in the tree, a label never gets two rules.
   expansions lists the labels of the inner nodes: NoDup = expanded once. *)
Theorem C05_tree_valid_random : forall d root oracle t,
  random_proof_tree d root oracle = Some t ->
  label t = root /\ valid_tree d t /\ NoDup (expansions (node_rules t)).
Proof. exact random_tree_valid. Qed.

Theorem C05_tree_valid_smallish : forall d root oracles t,
  smallish_random_proof_tree d root oracles = Some t ->
  label t = root /\ valid_tree d t /\ NoDup (expansions (node_rules t)).
Proof. exact smallish_tree_valid. Qed.

Theorem C05_tree_valid_dfs : forall d root maximum t,
  In t (proof_tree_generator_dfs d root maximum) ->
  label t = root /\ valid_tree d t /\ NoDup (expansions (node_rules t)).
Proof. exact dfs_generator_valid. Qed.

(* the iterative finder is exact and total: a tree exactly when the root keeps
   a rule bottom-up (else ValueError), never KeyError, never out of fuel; the
   tree is valid and recurses only to the root *)
Theorem C05_tree_valid_iterative : forall d root,
  match iterative_proof_tree_finder d root with
  | FTree t => ikey d (Some root) root /\ label t = root /\ valid_tree d t /\
               iterative_leaves d root t
  | FValueError => ~ ikey d (Some root) root
  | FKeyError => False
  | FOutOfFuel => False
  end.
Proof. exact iterative_finder_spec. Qed.

(* 5. size = 1 + sum of the arities of the rules at the nodes (leaves count 0;
   by C05_tree_valid_* each label is expanded once, so for the trees of the
   random and depth-first finders this is 1 + the sum over the expanded labels
   of the arity of the rule chosen for them) *)
Theorem C05_size_formula : forall t, size t = 1 + arities (node_rules t).
Proof. exact size_formula. Qed.

(* 6. the bounded depth-first generator *)
Theorem C05_dfs_bounded_sound : forall d root m t,
  In t (proof_tree_generator_dfs d root (Some m)) -> size t <= m.
Proof. exact dfs_bounded_sound. Qed.

(* ... is complete relative to the unbounded one: it yields exactly the trees
   of size <= m, in the same order (so next(...) is the first of them) *)
Theorem C05_dfs_bounded_complete : forall d root m,
  proof_tree_generator_dfs d root (Some m) =
  filter (fun t => size t <=? m) (proof_tree_generator_dfs d root None).
Proof. exact dfs_bounded_is_filter. Qed.

(* the recursion-depth fuel of the generator model (number of labels + 2) is
   never what stops it: on a closed dictionary (every child is a key: what
   pruning guarantees and the Python generator assumes) any extra fuel gives the
   same list of trees *)
Theorem C05_dfs_fuel_enough : forall d root m extra,
  closed d ->
  (if has_key d root
   then map snd (dfs_tree (sort_dict d) (dfs_fuel d + extra) [] m root)
   else []) = proof_tree_generator_dfs d root m.
Proof. exact dfs_fuel_enough. Qed.

(* the generator covers every proof tree: for every valid proof tree of a
   closed dictionary it yields a tree that is not larger *)
Theorem C05_dfs_covers_every_tree : forall d root t,
  closed d -> label t = root -> valid_tree d t ->
  exists t', In t' (proof_tree_generator_dfs d root None) /\ size t' <= size t.
Proof. exact dfs_covers_every_tree. Qed.

(* 'smallest'.  The binary search never runs out of fuel: _get_smallest_node
   fails only if the random first tree does (oracle not a run of random) *)
Theorem C05_smallest_defined : forall pd root oracles,
  get_smallest_node pd root oracles = None <->
  smallish_random_proof_tree pd root oracles = None.
Proof. exact smallest_node_defined. Qed.

(* and what it returns is a valid proof tree of minimum size among ALL valid
   proof trees for the root, for every closed dictionary ... *)
Theorem C05_smallest_minimum : forall pd root oracles res,
  closed pd ->
  get_smallest_node pd root oracles = Some res ->
  label res = root /\ valid_tree pd res /\
  forall t, label t = root -> valid_tree pd t -> size res <= size t.
Proof. exact smallest_is_minimum. Qed.

(* ... in particular on the path RuleDBBase takes: pruned quotient dictionary,
   representative of the start label *)
Theorem C05_smallest_minimum_ruledb : forall rep rules root oracles pd res,
  pruned_dict rep rules root false = Some pd ->
  get_smallest_node pd (rep root) oracles = Some res ->
  label res = rep root /\ valid_tree pd res /\
  forall t, label t = rep root -> valid_tree pd t -> size res <= size t.
Proof. exact ruledb_smallest_is_minimum. Qed.

(* 7. the breadth-first generator (exported, not used by RuleDB) is NOT valid:
   sibling subtrees choose rules independently, so a label can get two rules.
   Witness = the open finding replayed on the implementation by the harness. *)
Theorem C05_bfs_generator_refuted :
  exists d root t, In t (proof_tree_generator_bfs d root) /\ ~ valid_tree d t.
Proof.
  exists [(0, [[1; 1]]); (1, [[2]; [3]]); (2, [[]]); (3, [[]])], 0,
         (Node 0 [Node 1 [Node 2 []]; Node 1 [Node 3 []]]).
  split; [vm_compute; auto|].
  intros (_ & _ & V3). specialize (V3 1 [2] [3]).
  assert (E : [2] = [3]); [|discriminate E].
  apply V3; try discriminate; vm_compute; auto.
Qed.

(* 7b. PROGRESS of the random finders (Tree/ProgressProofs.v).  A run of random is
   defined independently of the model answering:
     legit d cs queue seen : the head answer (r, sh) has r in rules_of d v for the
       popped label v (what random.choice can return on list(rules_dict[v])); if v
       is new and r <> () then sh is a permutation of r (what random.shuffle can
       leave); the rest is a run from the next loop state, down to the empty queue;
     legit_pre : the same for a PREFIX of a run (the answers may stop early).
   C05_random_answers_iff_legit: the model returns a tree EXACTLY on the runs of
   random - so "oracle on which the model returns Some" in the validity theorems
   above means "run of random", nothing else. *)
Theorem C05_random_answers_iff_legit : forall d root cs,
  random_proof_tree d root cs <> None <-> legit d cs [root] [].
Proof. exact random_answers_iff_legit. Qed.

(* `while queue` terminates: from any loop state, any answered run pops at most
   |queue| + pot d seen nodes (pot = sum, over the dictionary entries whose label is
   not yet in seen, of the largest arity in the entry); from the initial state that
   is pop_bound d = 1 + sum of the largest arities.  No hypothesis on d. *)
Theorem C05_random_pops_bound : forall d cs queue seen D,
  bfs d cs queue seen = Some D -> (length D <= length queue + pot d seen)%nat.
Proof. exact bfs_pops_bound. Qed.

(* the finder ANSWERS on every complete run of random, within the bound.  (The three
   hypotheses on d are those of the property; a COMPLETE run already presupposes
   that every consulted rule set had an element, so the proof does not use them -
   they are what makes runs exist and prefixes extensible: next two theorems.) *)
Theorem C05_random_finder_total : forall d root cs,
  closed d -> all_nonempty d -> has_key d root = true ->
  legit d cs [root] [] ->
  exists t D, bfs d cs [root] [] = Some D /\ (length D <= pop_bound d)%nat /\
              random_proof_tree d root cs = Some t.
Proof. exact random_finder_total. Qed.

(* the same for a source of answers that is only known to be legitimate as far as
   it goes: pop_bound d answers are enough (no out-of-answers = no out-of-fuel) *)
Theorem C05_random_finder_total_prefix : forall d root cs,
  legit_pre d cs [root] [] -> (pop_bound d <= length cs)%nat ->
  exists t D, bfs d cs [root] [] = Some D /\ (length D <= pop_bound d)%nat /\
              random_proof_tree d root cs = Some t.
Proof. exact random_finder_total_prefix. Qed.

(* NO STUCK STATE on a pruned dictionary: whatever random legitimately answered so
   far, the run can be completed (every label that reaches the queue is a key with a
   non-empty rule set: no KeyError, no IndexError from choice([])), and the completed
   run is answered.  In particular (cs = []) runs exist. *)
Theorem C05_random_finder_never_stuck : forall d root cs,
  closed d -> all_nonempty d -> has_key d root = true ->
  legit_pre d cs [root] [] ->
  exists cs' t, legit d (cs ++ cs') [root] [] /\
                random_proof_tree d root (cs ++ cs') = Some t.
Proof. exact random_finder_never_stuck. Qed.

(* both hypotheses on d are needed: a child that is not a key, resp. an empty rule
   set, is a state in which random.choice has no legitimate answer *)
Theorem C05_random_stuck_if_not_closed :
  let d := [(0, [[1]])] in
  has_key d 0 = true /\ all_nonempty d /\ legit_pre d [([1], [1])] [0] [] /\
  forall cs', ~ legit d ([([1], [1])] ++ cs') [0] [].
Proof. exact stuck_if_not_closed. Qed.

Theorem C05_random_stuck_if_empty_ruleset :
  let d := [(0, [])] in
  has_key d 0 = true /\ closed d /\ forall cs, ~ legit d cs [0] [].
Proof. exact stuck_if_empty_ruleset. Qed.

(* smallish: one run of random per tree built (at least one) *)
Theorem C05_smallish_finder_total : forall d root runs,
  closed d -> all_nonempty d -> has_key d root = true ->
  runs <> [] -> Forall (fun cs => legit d cs [root] []) runs ->
  exists t, smallish_random_proof_tree d root runs = Some t.
Proof. exact smallish_finder_total. Qed.

(* 7c. what IS true of every tree the breadth-first generator yields (for every d,
   closed or not): the root label, conjunct 1 (only dictionary rules) and conjunct 2
   (no label without a rule) of valid_rules.  PARTIAL: conjunct 3 (one rule per
   label) is false (C05_bfs_generator_refuted, open finding); nothing here says that
   every choice of rules is yielded, or yielded once (oracle only), and there is no
   fuel theorem for bfs_helper. *)
Theorem C05_bfs_partial : forall d root t,
  In t (proof_tree_generator_bfs d root) ->
  label t = root /\
  (forall l cs, In (l, cs) (node_rules t) -> cs <> [] ->
     exists r, In r (rules_of d l) /\ Permutation r cs) /\
  (forall l, In (l, []) (node_rules t) -> In [] (rules_of d l) \/ expanded (node_rules t) l).
Proof. exact bfs_sound. Qed.

(* ---------------------------------------------------------------- examples *)
(* hypotheses are satisfiable and the interesting branches are exercised *)
Example C05_nonvacuous_prune :
  let d := [(0, [[1; 2]; [3]]); (1, [[]; [1; 4]]); (2, [[0]]); (3, [[5]]); (4, [[4; 9]])] in
  all_nonempty d /\
  prune d = Some [(0, [[1; 2]]); (1, [[]]); (2, [[0]])].
Proof.
  split; [apply all_nonempty_check|]; reflexivity.
Qed.

Example C05_nonvacuous_iterative :
  let d := [(0, [[1; 0]; [7]]); (1, [[2]]); (2, [[]]); (3, [[3]])] in
  iterative_prune d (Some 0) = Some [(2, [[]]); (1, [[2]]); (0, [[1; 0]])] /\
  iterative_prune d None = Some [(2, [[]]); (1, [[2]])] /\
  iterative_proof_tree_finder d 0 = FTree (Node 0 [Node 1 [Node 2 []]; Node 0 []]).
Proof. vm_compute. auto. Qed.

Example C05_nonvacuous_finders :
  let d := [(0, [[1; 1]; [2]]); (1, [[0]; []]); (2, [[1; 1; 1]])] in
  random_proof_tree d 0 [([1; 1], [1; 1]); ([0], [0]); ([], []); ([2], [])]
    = Some (Node 0 [Node 1 [Node 0 []]; Node 1 []]) /\
  proof_tree_generator_dfs d 0 (Some 3) = [Node 0 [Node 1 []; Node 1 []]] /\
  length (proof_tree_generator_dfs d 0 None) = 4%nat /\
  get_smallest_node d 0 [[([2], [2]); ([1; 1; 1], [1; 1; 1]); ([], []); ([], []); ([], [])]]
    = Some (Node 0 [Node 1 []; Node 1 []]).
Proof. vm_compute. auto. Qed.

(* =====================================================================================
   NON-VACUITY (audit): every theorem of this file APPLIED to a concrete non-trivial
   instance (Coq checks that what is discharged are the theorems' own hypotheses), plus
   computed `_value` instances showing which witness / branch is taken.
     aP : 5 labels, 8 rules; the greatest fixed point is {0,1,2}, labels 3 and 4 are pruned
     aI : 5 labels; bottom-up derivable with recursion to the root only
     aF : 3 labels, 5 rules, closed, four proof trees of sizes 3,4,5,6 for the root
     aq_rep/aq_rules : 8 recorded rules over 9 labels, two non-trivial classes {0,10},{1,11};
          the start label 10 is NOT its own representative *)
Definition aP : rdict :=
  [(0, [[1; 2]; [3]]); (1, [[]; [1; 4]]); (2, [[0]]); (3, [[5]]); (4, [[4; 9]])].
Definition aI : rdict := [(0, [[1; 0]; [7]]); (1, [[2]]); (2, [[]]); (3, [[3]]); (4, [[5]])].
Definition aF : rdict := [(0, [[1; 1]; [2]]); (1, [[0]; []]); (2, [[1; 1; 1]])].
Definition a_runA : list choice := [([1; 1], [1; 1]); ([0], [0]); ([], []); ([2], [])].
Definition a_runB : list choice :=
  [([2], [2]); ([1; 1; 1], [1; 1; 1]); ([], []); ([], []); ([], [])].
Definition a_tA : tree := Node 0 [Node 1 [Node 0 []]; Node 1 []].      (* size 4 *)
Definition a_tB : tree := Node 0 [Node 2 [Node 1 []; Node 1 []; Node 1 []]].   (* size 5 *)
Definition a_tMin : tree := Node 0 [Node 1 []; Node 1 []].            (* size 3 *)
Definition aq_rep (x : Z) : Z := if x =? 10 then 0 else if x =? 11 then 1 else x.
Definition aq_rules : list (Z * rule) :=
  [(10, [1; 2]); (0, [10]); (1, []); (2, [11]); (3, [4]); (5, [3; 0]); (10, [2]); (6, [6; 11])].
Definition aq_pd : rdict := [(0, [[1; 2]; [2]]); (1, [[]]); (2, [[1]]); (6, [[1; 6]])].
Definition aq_run : list choice := [([1; 2], [2; 1]); ([1], [1]); ([], []); ([], [])].

Lemma aP_nonempty : all_nonempty aP.
Proof. apply all_nonempty_check. reflexivity. Qed.
Lemma aF_closed : closed aF.
Proof.
  apply (prune_closed aF aF); [apply all_nonempty_check|]; reflexivity.
Qed.

(* --- prune *)
Example C05_prune_gfp_nonvacuous :
  exists d', prune aP = Some d' /\
    (forall k, has_key d' k = true <-> gfp aP k) /\
    (forall k r, In r (rules_of d' k) <->
                 In r (rules_of aP k) /\ gfp aP k /\ forall x, In x r -> gfp aP x).
Proof. apply (C05_prune_gfp aP aP_nonempty). Qed.

(* the witness is the computed dictionary; through the theorem: 0 is in the greatest fixed
   point, 3 and 4 are not (both sides of the equivalences occur), the rule 0 -> (3) is dropped *)
Example C05_prune_gfp_value :
  prune aP = Some [(0, [[1; 2]]); (1, [[]]); (2, [[0]])] /\
  gfp aP 0 /\ ~ gfp aP 3 /\ ~ gfp aP 4 /\
  (In [3] (rules_of aP 0) /\ ~ (forall x, In x [3] -> gfp aP x)).
Proof.
  destruct (C05_prune_gfp aP aP_nonempty) as (d' & E & HK & HR).
  assert (E' : prune aP = Some [(0, [[1; 2]]); (1, [[]]); (2, [[0]])]) by (vm_compute; reflexivity).
  rewrite E' in E. injection E as <-.
  assert (N3 : ~ gfp aP 3) by (intros H; apply HK in H; discriminate H).
  split; [exact E'|]. split; [apply HK; reflexivity|]. split; [exact N3|].
  split; [intros H; apply HK in H; discriminate H|].
  split; [simpl; auto|]. intros H. apply N3, H. simpl; auto.
Qed.

(* hypothesis-free; prune needs three passes here (fuel 2 is out of fuel), the fuel S (nrules d) = 9 suffices *)
Example C05_prune_terminates_nonvacuous :
  prune aP <> None /\ prune_loop 2 aP = None /\ prune_loop 3 aP <> None.
Proof.
  split; [exact (C05_prune_terminates aP)|]. split; [vm_compute; reflexivity|].
  vm_compute; discriminate.
Qed.

(* --- iterative_prune *)
Example C05_iterative_lfp_nonvacuous :
  exists nd, iterative_prune aI (Some 0) = Some nd /\
    (forall k r, In r (rules_of nd k) <->
                 In r (rules_of aI k) /\ forall x, In x r -> iver aI (Some 0) x) /\
    (forall k, has_key nd k = true <-> ikey aI (Some 0) k).
Proof. apply (C05_iterative_lfp aI (Some 0)). Qed.

Example C05_iterative_lfp_value :
  iterative_prune aI (Some 0) = Some [(2, [[]]); (1, [[2]]); (0, [[1; 0]])] /\
  iterative_prune aI None = Some [(2, [[]]); (1, [[2]])] /\
  ikey aI (Some 0) 0 /\ ~ ikey aI None 0 /\ ~ ikey aI (Some 0) 3 /\ ~ ikey aI (Some 0) 4 /\
  (forall x, In x [1; 0] -> iver aI (Some 0) x).
Proof.
  destruct (C05_iterative_lfp aI (Some 0)) as (nd & E & HR & HK).
  destruct (C05_iterative_lfp aI None) as (nd0 & E0 & _ & HK0).
  assert (E' : iterative_prune aI (Some 0) = Some [(2, [[]]); (1, [[2]]); (0, [[1; 0]])])
    by (vm_compute; reflexivity).
  assert (E0' : iterative_prune aI None = Some [(2, [[]]); (1, [[2]])])
    by (vm_compute; reflexivity).
  rewrite E' in E. injection E as <-. rewrite E0' in E0. injection E0 as <-.
  split; [exact E'|]. split; [exact E0'|]. split; [apply HK; reflexivity|].
  split; [intros H; apply HK0 in H; discriminate H|].
  split; [intros H; apply HK in H; discriminate H|].
  split; [intros H; apply HK in H; discriminate H|].
  apply (HR 0 [1; 0]). simpl; auto.
Qed.

(* --- the quotient dictionary; aq_rep is not the identity *)
Example C05_quotient_rules_nonvacuous :
  In [1; 2] (rules_of (rules_up_to_equivalence aq_rep aq_rules) 0) /\
  In [1] (rules_of (rules_up_to_equivalence aq_rep aq_rules) 2) /\
  ~ In [0] (rules_of (rules_up_to_equivalence aq_rep aq_rules) 0).
Proof.
  split; [|split].
  - apply (C05_quotient_rules aq_rep aq_rules 0 [1; 2]). exists 10, [1; 2].
    split; [simpl; auto|]. split; [exact I|]. split; reflexivity.
  - apply (C05_quotient_rules aq_rep aq_rules 2 [1]). exists 2, [11].
    split; [simpl; auto 6|]. split; [vm_compute; discriminate|]. split; reflexivity.
  - (* the recorded rule 0 -> (10) lies inside the class {0,10}: not kept *)
    intros H. apply (C05_quotient_rules aq_rep aq_rules 0 [0]) in H.
    destruct H as (start & ends & Hin & Hk & Hs & He).
    simpl in Hin.
    repeat (destruct Hin as [Hin|Hin]; [injection Hin as <- <-; try discriminate He;
                                        try (apply Hk; reflexivity)|]).
    destruct Hin.
Qed.

Example C05_quotient_value :
  rules_up_to_equivalence aq_rep aq_rules =
  [(0, [[1; 2]; [2]]); (1, [[]]); (2, [[1]]); (3, [[4]]); (5, [[0; 3]]); (6, [[1; 6]])].
Proof. vm_compute. reflexivity. Qed.

Example C05_quotient_nonempty_nonvacuous :
  all_nonempty (rules_up_to_equivalence aq_rep aq_rules) /\ ~ all_nonempty [(0, [])].
Proof.
  split; [exact (C05_quotient_nonempty aq_rep aq_rules)|]. intros H. apply (H 0). reflexivity.
Qed.

(* --- has_specification: start label 10, representative 0 *)
Example C05_has_spec_recursive_nonvacuous :
  exists b, has_specification aq_rep aq_rules 10 false = Some b /\
    (b = true <-> gfp (rules_up_to_equivalence aq_rep aq_rules) (aq_rep 10)).
Proof. apply (C05_has_spec_recursive aq_rep aq_rules 10). Qed.

(* both answers occur: class of 10 has a specification, class of 5 has none *)
Example C05_has_spec_recursive_value :
  has_specification aq_rep aq_rules 10 false = Some true /\
  has_specification aq_rep aq_rules 5 false = Some false /\
  gfp (rules_up_to_equivalence aq_rep aq_rules) 0 /\
  ~ gfp (rules_up_to_equivalence aq_rep aq_rules) 5.
Proof.
  destruct (C05_has_spec_recursive aq_rep aq_rules 10) as (b & E & H).
  destruct (C05_has_spec_recursive aq_rep aq_rules 5) as (b' & E' & H').
  assert (X : has_specification aq_rep aq_rules 10 false = Some true) by (vm_compute; reflexivity).
  assert (X' : has_specification aq_rep aq_rules 5 false = Some false) by (vm_compute; reflexivity).
  rewrite X in E. injection E as <-. rewrite X' in E'. injection E' as <-.
  split; [exact X|]. split; [exact X'|]. split; [apply H; reflexivity|].
  intros G. apply H' in G. discriminate G.
Qed.

Example C05_has_spec_iterative_nonvacuous :
  exists b, has_specification aq_rep aq_rules 10 true = Some b /\
    (b = true <->
     ikey (rules_up_to_equivalence aq_rep aq_rules) (Some (aq_rep 10)) (aq_rep 10)).
Proof. apply (C05_has_spec_iterative aq_rep aq_rules 10). Qed.

(* both answers occur; label 3 (rule 3 -> (4), 4 has no rule) is the `false` case *)
Example C05_has_spec_iterative_value :
  has_specification aq_rep aq_rules 10 true = Some true /\
  has_specification aq_rep aq_rules 3 true = Some false /\
  ikey (rules_up_to_equivalence aq_rep aq_rules) (Some 0) 0 /\
  ~ ikey (rules_up_to_equivalence aq_rep aq_rules) (Some 3) 3.
Proof.
  destruct (C05_has_spec_iterative aq_rep aq_rules 10) as (b & E & H).
  destruct (C05_has_spec_iterative aq_rep aq_rules 3) as (b' & E' & H').
  assert (X : has_specification aq_rep aq_rules 10 true = Some true) by (vm_compute; reflexivity).
  assert (X' : has_specification aq_rep aq_rules 3 true = Some false) by (vm_compute; reflexivity).
  rewrite X in E. injection E as <-. rewrite X' in E'. injection E' as <-.
  split; [exact X|]. split; [exact X'|]. split; [apply H; reflexivity|].
  intros G. apply H' in G. discriminate G.
Qed.

(* --- validity of the returned trees *)
Example C05_tree_valid_random_nonvacuous :
  label a_tA = 0 /\ valid_tree aF a_tA /\ NoDup (expansions (node_rules a_tA)).
Proof. apply (C05_tree_valid_random aF 0 a_runA a_tA). vm_compute. reflexivity. Qed.

(* two runs: the first builds the 5-node tree, the second the 4-node tree, which wins *)
Example C05_tree_valid_smallish_nonvacuous :
  label a_tA = 0 /\ valid_tree aF a_tA /\ NoDup (expansions (node_rules a_tA)).
Proof.
  apply (C05_tree_valid_smallish aF 0 [a_runB; a_runA] a_tA). vm_compute. reflexivity.
Qed.

Example C05_tree_valid_dfs_nonvacuous :
  label a_tB = 0 /\ valid_tree aF a_tB /\ NoDup (expansions (node_rules a_tB)).
Proof. apply (C05_tree_valid_dfs aF 0 None a_tB). vm_compute. auto. Qed.

(* valid_tree is not a trivial predicate: the breadth-first witness of
   C05_bfs_generator_refuted fails it; here a second near miss, a rule that is not in aF *)
Example C05_valid_tree_discriminates : ~ valid_tree aF (Node 0 [Node 1 []]).
Proof.
  intros (V1 & _). destruct (V1 0 [1]) as (r & Hr & HP); [vm_compute; auto|discriminate|].
  apply Permutation_sym, Permutation_length_1_inv in HP. subst r.
  vm_compute in Hr. destruct Hr as [Hr|[Hr|[]]]; discriminate Hr.
Qed.

(* FTree branch *)
Example C05_tree_valid_iterative_nonvacuous :
  let t := Node 0 [Node 1 [Node 2 []]; Node 0 []] in
  ikey aI (Some 0) 0 /\ label t = 0 /\ valid_tree aI t /\ iterative_leaves aI 0 t.
Proof. exact (C05_tree_valid_iterative aI 0). Qed.

(* FValueError branch: 4 -> (5) and 5 has no rule *)
Example C05_tree_valid_iterative_value :
  iterative_proof_tree_finder aI 0 = FTree (Node 0 [Node 1 [Node 2 []]; Node 0 []]) /\
  iterative_proof_tree_finder aI 4 = FValueError /\ ~ ikey aI (Some 4) 4.
Proof.
  split; [vm_compute; reflexivity|]. split; [vm_compute; reflexivity|].
  exact (C05_tree_valid_iterative aI 4).
Qed.

(* --- progress of the random finders: a_runA is a run of random on aF (shown by the
   definition, not by running the model), so the finder answers within the bound *)
Lemma a_runA_legit : legit aF a_runA [0] [].
Proof.
  unfold a_runA.
  eapply legit_exp; [left; reflexivity|intros []|discriminate|apply Permutation_refl|].
  eapply legit_exp; [left; reflexivity|intros [H|[]]; discriminate|discriminate|apply Permutation_refl|].
  eapply legit_leaf; [right; left; reflexivity|right; reflexivity|].
  eapply legit_leaf; [right; left; reflexivity|left; left; reflexivity|].
  apply legit_done.
Qed.

Example C05_random_finder_total_nonvacuous :
  exists t D, bfs aF a_runA [0] [] = Some D /\ (length D <= pop_bound aF)%nat /\
              random_proof_tree aF 0 a_runA = Some t.
Proof.
  apply C05_random_finder_total; [exact aF_closed|apply all_nonempty_check; reflexivity
                                  |reflexivity|exact a_runA_legit].
Qed.

Example C05_random_finder_total_value :
  pop_bound aF = 7%nat /\ random_proof_tree aF 0 a_runA = Some a_tA /\
  option_map (@length _) (bfs aF a_runA [0] []) = Some 4%nat.
Proof. vm_compute. auto. Qed.

Example C05_random_answers_iff_legit_nonvacuous :
  legit aF a_runB [0] [] /\ ~ legit aF [([2], [1])] [0] [].
Proof.
  split.
  - apply C05_random_answers_iff_legit. vm_compute. discriminate.
  - intros H. apply C05_random_answers_iff_legit in H. apply H. vm_compute. reflexivity.
Qed.

Example C05_random_pops_bound_nonvacuous :
  forall D, bfs aF a_runB [0] [] = Some D -> (length D <= 7)%nat.
Proof. intros D H. apply C05_random_pops_bound in H. exact H. Qed.

(* two legitimate answers given, then the source is cut off: it can be completed *)
Example C05_random_finder_never_stuck_nonvacuous :
  exists cs' t, legit aF ([([2], [2]); ([1; 1; 1], [1; 1; 1])] ++ cs') [0] [] /\
                random_proof_tree aF 0 ([([2], [2]); ([1; 1; 1], [1; 1; 1])] ++ cs') = Some t.
Proof.
  apply C05_random_finder_never_stuck; [exact aF_closed|apply all_nonempty_check; reflexivity
                                        |reflexivity|].
  eapply pre_exp; [right; left; reflexivity|intros []|discriminate|apply Permutation_refl|].
  eapply pre_exp; [left; reflexivity|intros [H|[]]; discriminate|discriminate|apply Permutation_refl|].
  apply pre_short.
Qed.

Example C05_random_finder_total_prefix_nonvacuous :
  exists t D, bfs aF (a_runA ++ a_runB) [0] [] = Some D /\ (length D <= pop_bound aF)%nat /\
              random_proof_tree aF 0 (a_runA ++ a_runB) = Some t.
Proof.
  apply C05_random_finder_total_prefix; [|vm_compute; lia].
  apply legit_is_pre. apply C05_random_answers_iff_legit. vm_compute. discriminate.
Qed.

Example C05_smallish_finder_total_nonvacuous :
  exists t, smallish_random_proof_tree aF 0 [a_runB; a_runA] = Some t.
Proof.
  apply C05_smallish_finder_total; [exact aF_closed|apply all_nonempty_check; reflexivity
                                    |reflexivity|discriminate|].
  apply Forall_cons; [|apply Forall_cons; [exact a_runA_legit|apply Forall_nil]].
  apply C05_random_answers_iff_legit. vm_compute. discriminate.
Qed.

(* --- the breadth-first generator: the finding's invalid tree still satisfies
   conjuncts 1-2 *)
Example C05_bfs_partial_nonvacuous :
  let d := [(0, [[1; 1]]); (1, [[2]; [3]]); (2, [[]]); (3, [[]])] in
  let t := Node 0 [Node 1 [Node 2 []]; Node 1 [Node 3 []]] in
  label t = 0 /\
  (forall l cs, In (l, cs) (node_rules t) -> cs <> [] ->
     exists r, In r (rules_of d l) /\ Permutation r cs) /\
  (forall l, In (l, []) (node_rules t) -> In [] (rules_of d l) \/ expanded (node_rules t) l).
Proof. apply C05_bfs_partial. vm_compute. auto. Qed.

(* --- size *)
Example C05_size_formula_nonvacuous :
  size a_tB = 1 + arities (node_rules a_tB) /\ size a_tB = 5 /\ size a_tMin = 3.
Proof. split; [exact (C05_size_formula a_tB)|]. split; reflexivity. Qed.

(* --- the bounded depth-first generator *)
Example C05_dfs_bounded_sound_nonvacuous : size a_tA <= 4.
Proof. apply (C05_dfs_bounded_sound aF 0 4 a_tA). vm_compute. auto. Qed.

(* the bound really filters: 4 trees (sizes 3,4,5,6) without bound, 2 with maximum 4 *)
Example C05_dfs_bounded_complete_nonvacuous :
  proof_tree_generator_dfs aF 0 (Some 4) =
  filter (fun t => size t <=? 4) (proof_tree_generator_dfs aF 0 None) /\
  map size (proof_tree_generator_dfs aF 0 None) = [3; 4; 5; 6] /\
  proof_tree_generator_dfs aF 0 (Some 4) = [a_tMin; a_tA].
Proof.
  split; [exact (C05_dfs_bounded_complete aF 0 4)|]. split; vm_compute; reflexivity.
Qed.

(* three levels of extra fuel; too little fuel does change the list, so the statement is
   not true of any fuel *)
Example C05_dfs_fuel_enough_nonvacuous :
  (if has_key aF 0
   then map snd (dfs_tree (sort_dict aF) (dfs_fuel aF + 3) [] None 0)
   else []) = proof_tree_generator_dfs aF 0 None /\
  map snd (dfs_tree (sort_dict aF) 2 [] None 0) <> proof_tree_generator_dfs aF 0 None.
Proof.
  split; [exact (C05_dfs_fuel_enough aF 0 None 3 aF_closed)|]. vm_compute. discriminate.
Qed.

(* a valid tree of size 5 (validity through C05_tree_valid_dfs); the generator has one not larger *)
Example C05_dfs_covers_every_tree_nonvacuous :
  exists t', In t' (proof_tree_generator_dfs aF 0 None) /\ size t' <= size a_tB.
Proof.
  apply (C05_dfs_covers_every_tree aF 0 a_tB aF_closed eq_refl).
  apply C05_tree_valid_dfs_nonvacuous.
Qed.

(* --- 'smallest' *)
Example C05_smallest_defined_nonvacuous :
  get_smallest_node aF 0 [a_runB; a_runA] <> None /\
  (* an oracle that is not a run of random (the rule (7) is not in the set): both sides None *)
  get_smallest_node aF 0 [[([7], [7])]] = None.
Proof.
  split.
  - intros H. apply (C05_smallest_defined aF 0 [a_runB; a_runA]) in H. vm_compute in H.
    discriminate H.
  - apply (C05_smallest_defined aF 0 [[([7], [7])]]). vm_compute. reflexivity.
Qed.

(* the random trees have sizes 5 and 4; the binary search finds the 3-node tree *)
Example C05_smallest_minimum_nonvacuous :
  label a_tMin = 0 /\ valid_tree aF a_tMin /\
  forall t, label t = 0 -> valid_tree aF t -> size a_tMin <= size t.
Proof.
  apply (C05_smallest_minimum aF 0 [a_runB; a_runA] a_tMin aF_closed). vm_compute. reflexivity.
Qed.

(* RuleDB path: recorded rules, start label 10 with representative 0; the random tree has
   4 nodes (rule 0 -> (1,2)), the smallest 3 (rule 0 -> (2)) *)
Example C05_smallest_minimum_ruledb_nonvacuous :
  let res := Node 0 [Node 2 [Node 1 []]] in
  label res = aq_rep 10 /\ valid_tree aq_pd res /\
  forall t, label t = aq_rep 10 -> valid_tree aq_pd t -> size res <= size t.
Proof.
  apply (C05_smallest_minimum_ruledb aq_rep aq_rules 10 [aq_run] aq_pd (Node 0 [Node 2 [Node 1 []]])).
  - vm_compute. reflexivity.
  - vm_compute. reflexivity.
Qed.

Example C05_smallest_minimum_ruledb_value :
  random_proof_tree aq_pd 0 aq_run = Some (Node 0 [Node 2 [Node 1 []]; Node 1 []]) /\
  get_smallest_node aq_pd 0 [aq_run] = Some (Node 0 [Node 2 [Node 1 []]]).
Proof. split; vm_compute; reflexivity. Qed.


(* ================= the per-rule tests are the source's (translator) =================
   prune removes a rule exactly when the source's test
   `any(x not in rdict for x in rule)` holds, and iterative_prune / the iterative
   finder accept a rule exactly when `all(x in verified_labels for x in rule)`
   holds (Gen/TreePruneRuleTest.v, Gen/TreeIterativePruneRuleTest.v,
   re-translated from tree_searcher.py on every run). *)
Theorem C05_prune_test_is_source : forall k d ch r,
  prune_rule k (d, ch) r =
  let '(d1, ch1) := if TreePruneRuleTest.prune_rule_test d r
                    then (upd d k (remove_rule r), true) else (d, ch) in
  match get d1 k with
  | Some [] => (del d1 k, ch1)
  | _ => (d1, ch1)
  end.
Proof. exact prune_rule_is_source. Qed.

Theorem C05_iterative_test_is_source : forall root k s r,
  iter_rule root k s r =
  if TreeIterativePruneRuleTest.iterative_prune_rule_test (iv s) r
  then
    let '(ts, e) := match create_tree root (itrees s) k r with
                    | Some ts => (ts, ierr s)
                    | None => (itrees s, true)
                    end in
    mkI (set_add k (iv s)) (upd (ird s) k (remove_rule r)) (add_rule (inew s) k r) ts e true
  else s.
Proof. exact iter_rule_is_source. Qed.

(* the finder's copy of the loop (iterative_proof_tree_finder) uses the same test *)
Theorem C05_finder_test_is_source : forall root k s r,
  iter_rule root k s r =
  if TreeIterativeFinderRuleTest.iterative_finder_rule_test (iv s) r
  then
    let '(ts, e) := match create_tree root (itrees s) k r with
                    | Some ts => (ts, ierr s)
                    | None => (itrees s, true)
                    end in
    mkI (set_add k (iv s)) (upd (ird s) k (remove_rule r)) (add_rule (inew s) k r) ts e true
  else s.
Proof. exact iter_rule_is_source_finder. Qed.

From Coq Require Import Relations.
From CSS Require Import Equiv.Model Equiv.Ref Equiv.UF Equiv.Hist Equiv.Total Equiv.Neutral.
From CSS Require Import Tree.WithEquiv Tree.WithEquivProofs Tree.WithEquivInv Tree.WithEquivHist
  Tree.WithEquivCache Tree.Kernel.

(* =====================================================================================
   8. RuleDBBase AS IT COMPOSES its rule keys, the EquivalenceDB and the `_pruned_dict` cache
   (model Tree/WithEquiv.v; the equivalence database is the C06 model Equiv/Model.v).

   In the theorems 3 and 4 above the representative function `rep` is a FREE parameter.  Here
   it is not: `cexec order root_label iterative rinit h = Some (x, answers)` says that x is the
   state of a fresh RuleDB after the history h of public operations
       CAdd start ends ver tw | CHasSpec | CIsVerified l | CRue | CNode smallest runs listed | CDrop
   and every `self.equivdb[l]` of the source is a `find` on the union-find state of x.
   `repf s l` is the label `find s l` returns.  `cedge h a b`: some add of h recorded the
   unary rule a -> (b), or a two-way unary rule b -> (a) (a <> b); `hkeys h` = list(self).
   `scc_rep E rep` : rep a = rep b  <->  a and b are mutually reachable along E.
   `order` is the iteration order of sets of ints (as in C06): any order that enumerates the
   elements, each once. *)
Section C05_composed.
Variable order : list Z -> list Z.
Hypothesis order_In : forall l x, In x (order l) <-> In x l. (* in-section *)
Hypothesis order_len : forall l, (length (order l) <= length l)%nat. (* in-section *)
Variable root_label : Z.
Variable iterative : bool.

Notation cexec := (cexec order root_label iterative).
Notation c_rue := (c_rue order).
Notation c_pruned_dict := (c_pruned_dict order root_label iterative).
Notation c_has_spec := (c_has_spec order root_label iterative).
Notation c_node := (c_node order root_label iterative).

(* (b) totality: every history of public operations runs through (no loop of the equivalence
   database or of the pruning out of fuel, no internal KeyError): C06 totality + C05
   termination; in particular has_specification ALWAYS answers *)
Theorem C05_composed_total : forall ops, cexec rinit ops <> None.
Proof.
  intros ops. destruct (cexec_total order order_len root_label iterative ops rinit wf_init) as (x & a & ->).
  discriminate.
Qed.

Theorem C05_has_specification_total : forall h x ans,
  cexec rinit h = Some (x, ans) -> exists x' b, c_has_spec x = Some (x', b).
Proof.
  intros h x ans H.
  pose proof (reachable_Good order order_In order_len root_label iterative h x ans H) as G.
  destruct (c_has_spec_total order order_len root_label iterative x) as (x' & b & E & _); eauto.
  eapply Inv2_wf; eauto.
Qed.

(* (a) at the moment rules_up_to_equivalence reads the representatives (right after its
   connect_cycles; whatever happened before: earlier has_specification runs with their
   set_verified calls, lookups, earlier cycle detections), two labels have the same
   representative iff they are mutually reachable along the unary rules recorded by add,
   and the dictionary it returns is Tree/Model.v's pure rules_up_to_equivalence at that
   representative function *)
Theorem C05_rep_is_scc : forall h x ans x' rd,
  cexec rinit h = Some (x, ans) -> c_rue x = Some (x', rd) ->
  let rep := repf (r_eq x') in
  (forall l, root (r_eq x') l (rep l)) /\ scc_rep (cedge h) rep /\
  rd = rules_up_to_equivalence rep (hkeys h).
Proof.
  intros h x ans x' rd H R.
  pose proof (reachable_Good order order_In order_len root_label iterative h x ans H) as G.
  destruct (c_rue_Inv2 order order_In order_len root_label iterative _ _ x x' rd G R) as (I' & E & S).
  split; [intros l; apply repf_root; eapply Inv2_wf; eauto|]. split; auto.
Qed.

(* has_specification (recomputing, or answering from the cache any number of operations
   later): the answer is Tree/Model.v's has_specification at the representative function of
   the state in which it reads the root, and that function names exactly the strongly
   connected components of the recorded unary rules.  So C05_has_spec_recursive /
   C05_has_spec_iterative hold with "equivalent" = "same strongly connected component" *)
Theorem C05_has_spec_scc : forall h x ans x' b,
  cexec rinit h = Some (x, ans) -> c_has_spec x = Some (x', b) ->
  let rep := repf (r_eq x') in
  (forall l, root (r_eq x') l (rep l)) /\ scc_rep (cedge h) rep /\
  Tree.Model.has_specification rep (hkeys h) root_label iterative = Some b.
Proof.
  intros h x ans x' b H R.
  pose proof (reachable_Good order order_In order_len root_label iterative h x ans H) as G.
  destruct (c_has_spec_spec order order_In order_len root_label iterative _ _ x x' b G R)
    as (I' & _ & S & E).
  split; [intros l; apply repf_root; eapply Inv2_wf; eauto|]. split; auto.
Qed.

Theorem C05_has_spec_recursive_scc : forall h x ans x' b,
  iterative = false ->
  cexec rinit h = Some (x, ans) -> c_has_spec x = Some (x', b) ->
  exists rep, scc_rep (cedge h) rep /\
    (b = true <-> gfp (rules_up_to_equivalence rep (hkeys h)) (rep root_label)).
Proof.
  intros h x ans x' b Hi H R. exists (repf (r_eq x')).
  destruct (C05_has_spec_scc h x ans x' b H R) as (_ & S & E). split; auto.
  rewrite Hi in E. destruct (C05_has_spec_recursive (repf (r_eq x')) (hkeys h) root_label) as (b' & E' & Hb).
  rewrite E in E'. inversion E'; subst b'. exact Hb.
Qed.

Theorem C05_has_spec_iterative_scc : forall h x ans x' b,
  iterative = true ->
  cexec rinit h = Some (x, ans) -> c_has_spec x = Some (x', b) ->
  exists rep, scc_rep (cedge h) rep /\
    (b = true <-> ikey (rules_up_to_equivalence rep (hkeys h)) (Some (rep root_label)) (rep root_label)).
Proof.
  intros h x ans x' b Hi H R. exists (repf (r_eq x')).
  destruct (C05_has_spec_scc h x ans x' b H R) as (_ & S & E). split; auto.
  rewrite Hi in E. destruct (C05_has_spec_iterative (repf (r_eq x')) (hkeys h) root_label) as (b' & E' & Hb).
  rewrite E in E'. inversion E'; subst b'. exact Hb.
Qed.

(* (b) the finders after has_specification.  `_get_specification_node` raises
   SpecificationNotFound exactly when has_specification() answers False; when it answers
   True: the iterative finder returns a tree (no ValueError, no KeyError: NFinder impossible),
   valid for the cached pruned dictionary and rooted at the root's representative; smallish /
   smallest return a valid tree (smallest: of minimum size) unless the oracle is not a
   possible run of random (NNoRun, then smallish_random_proof_tree itself is None);
   InvalidOperationError only for iterative + smallest.  `node_ok` is that case analysis. *)
Theorem C05_finder_total_after_has_specification : forall h x ans x1 sm runs listed x2 r,
  cexec rinit h = Some (x, ans) -> c_has_spec x = Some (x1, true) ->
  c_node x1 sm runs listed = Some (x2, r) ->
  exists pd, r_cache x1 = Some pd /\
    node_ok iterative pd (repf (r_eq x1) root_label) sm runs listed r.
Proof.
  intros h x ans x1 sm runs listed x2 r H HS N.
  pose proof (reachable_Good order order_In order_len root_label iterative h x ans H) as G.
  destruct (c_has_spec_spec order order_In order_len root_label iterative _ _ x x1 true G HS)
    as (I1 & (pd & C1 & Eb) & _).
  exists pd. split; auto.
  assert (Ht : Hot root_label pd x1) by (split; auto).
  destruct (c_node_hot order order_In order_len root_label iterative _ _ pd x1 sm runs listed x2 r I1 Ht N)
    as (_ & _ & OK). exact OK.
Qed.

Theorem C05_node_not_found_iff_no_specification : forall h x ans sm runs listed x2 r,
  cexec rinit h = Some (x, ans) -> c_node x sm runs listed = Some (x2, r) ->
  exists x1 b, c_has_spec x = Some (x1, b) /\ (r = NNotFound <-> b = false) /\
    (b = true -> exists pd, r_cache x1 = Some pd /\
                  node_ok iterative pd (repf (r_eq x1) root_label) sm runs listed r).
Proof.
  intros h x ans sm runs listed x2 r H N.
  pose proof (reachable_Good order order_In order_len root_label iterative h x ans H) as G.
  destruct (c_node_spec order order_In order_len root_label iterative _ _ x sm runs listed x2 r G N)
    as (_ & x1 & b & HS & Hb).
  exists x1, b. split; auto. destruct b.
  - destruct Hb as (pd & (C1 & HK) & OK). split.
    + split; [|discriminate]. intros ->. destruct OK.
    + intros _. exists pd. auto.
  - destruct Hb as (-> & _). split; [tauto|discriminate].
Qed.

(* PROGRESS on the code path (corollary of 7b): for a recursive pack, after
   has_specification() = True, _get_specification_node RETURNS A TREE whenever the
   recorded answers of random are runs of random on the cached pruned dictionary (at
   least one run: the first tree is built before the time limit is looked at): the
   outcome NNoRun of node_ok is then excluded, as are NNotFound / NFinder / NInvalid.
   (That such runs exist, and that every legitimate prefix extends to one, is
   C05_random_finder_never_stuck on the closed dictionary prune returns.) *)
Theorem C05_finder_answers_on_runs_of_random : forall h x ans x1 sm runs listed x2 r,
  iterative = false ->
  cexec rinit h = Some (x, ans) -> c_has_spec x = Some (x1, true) ->
  c_node x1 sm runs listed = Some (x2, r) ->
  runs <> [] ->
  (forall pd, r_cache x1 = Some pd ->
     Forall (fun cs => legit pd cs [repf (r_eq x1) root_label] []) runs) ->
  exists t, r = NTree t.
Proof.
  intros h x ans x1 sm runs listed x2 r Hit H HS N Hne Hruns.
  destruct (C05_finder_total_after_has_specification h x ans x1 sm runs listed x2 r H HS N)
    as (pd & C & OK).
  destruct r as [| |t|fr|]; simpl in OK.
  - contradiction.
  - destruct OK as (Hi & _). congruence.
  - eauto.
  - contradiction.
  - rewrite Hit in OK. exfalso.
    exact (smallish_answers_on_runs pd _ runs Hne (Hruns pd C) OK).
Qed.


(* (c) the labels pruned_dict marks verified are exactly the classes of the fixed point:
   after a has_specification that recomputes, a label is verified iff its class contains a
   label that was verified before (verification rules, earlier runs: marks are never
   withdrawn) or its representative is a key of the pruned dictionary, which is Tree/Model.v's
   pruned_dict at the representatives (keys = greatest fixed point / bottom-up derivable:
   C05_prune_gfp, C05_iterative_lfp through pruned_key_char below) *)
Theorem C05_verified_marks_sound : forall h x ans x' b,
  cexec rinit h = Some (x, ans) -> r_cache x = None -> c_has_spec x = Some (x', b) ->
  exists pd, r_cache x' = Some pd /\
    Tree.Model.pruned_dict (repf (r_eq x')) (hkeys h) root_label iterative = Some pd /\
    (forall l, c_ver x' l = true <->
       (exists b0, c_ver x b0 = true /\ same (r_eq x') l b0) \/
       has_key pd (repf (r_eq x') l) = true).
Proof.
  intros h x ans x' b H HC R.
  pose proof (reachable_Good order order_In order_len root_label iterative h x ans H) as G.
  exact (recompute_marks order order_In order_len root_label iterative _ _ x x' b G HC R).
Qed.

Theorem C05_pruned_keys_are_fixed_point : forall rep rules rt it pd,
  Tree.Model.pruned_dict rep rules rt it = Some pd ->
  forall k, has_key pd k = true <->
    if it then ikey (rules_up_to_equivalence rep rules) (Some (rep rt)) k
    else gfp (rules_up_to_equivalence rep rules) k.
Proof. exact pruned_key_char. Qed.

(* is_verified answers c_ver *)
Theorem C05_is_verified_answer : forall h x ans l x' v,
  cexec rinit h = Some (x, ans) -> c_is_verified x l = Some (x', v) -> v = c_ver x l.
Proof.
  intros h x ans l x' v H R.
  pose proof (reachable_Good order order_In order_len root_label iterative h x ans H) as G.
  exact (proj2 (c_is_verified_Inv2 order order_In order_len root_label iterative _ _ x l x' v G R)).
Qed.

(* (d) recompute_idem (the premise of Searcher/Cache.v) is a THEOREM of the composed model:
   recomputing the pruned dictionary while the cache is valid (i.e. twice without an add in
   between) gives the same dictionary and leaves every root, every recorded edge and the
   set of verified roots of the equivalence database as they are *)
Theorem C05_recompute_idem : forall h x ans pd x2 pd2,
  cexec rinit h = Some (x, ans) -> r_cache x = Some pd ->
  c_pruned_dict (mkR (r_eq x) (r_rules x) (r_eqv x) None) = Some (x2, pd2) ->
  pd2 = pd /\
  (forall l q, root (r_eq x2) l q <-> root (r_eq x) l q) /\
  (forall v, In v (verified (r_eq x2)) <-> In v (verified (r_eq x))) /\
  (forall a b, edge (vertices (r_eq x2)) a b <-> edge (vertices (r_eq x)) a b).
Proof.
  intros h x ans pd x2 pd2 H HC R.
  pose proof (reachable_Good order order_In order_len root_label iterative h x ans H) as G.
  destruct (recompute_idem order order_In order_len root_label iterative _ _ x pd x2 pd2 G HC R)
    as (E & (A & B) & V).
  split; auto. split; auto. split; auto. intros a b. unfold edge. rewrite B. tauto.
Qed.

(* the cache is transparent: two histories that differ only in where the cache was thrown
   away (CDrop; every add invalidates it anyway) give the same answers — Booleans literally;
   of a node request whether it found a specification / raised InvalidOperationError —, the
   same partition into classes and the same verified labels.  (Roots may differ: an extra
   recomputation re-keys the one-way table.) *)
Theorem C05_pruned_dict_cache_transparent : forall ops1 ops2 x y a1 a2,
  filter (fun o => negb (is_drop o)) ops1 = filter (fun o => negb (is_drop o)) ops2 ->
  cexec rinit ops1 = Some (x, a1) -> cexec rinit ops2 = Some (y, a2) ->
  map proj (vis ops1 a1) = map proj (vis ops2 a2) /\
  (forall a b, same (r_eq x) a b <-> same (r_eq y) a b) /\
  (forall l, c_ver x l = c_ver y l).
Proof.
  intros ops1 ops2 x y a1 a2 F H1 H2.
  assert (S0 : Sim order root_label iterative (cedge []) (kstate []) rinit rinit).
  { split; [apply Good_init|]. split; [apply Good_init|]. split; [intros a b; reflexivity|intros l; reflexivity]. }
  destruct (cache_transparent_gen order order_In order_len root_label iterative
              ops1 ops2 _ _ rinit rinit x y a1 a2 S0 F H1 H2) as (A & E' & K' & (_ & _ & P & V)).
  auto.
Qed.

(* in particular: never caching (dropping before every operation) changes no answer *)
Definition never_cache (ops : list cop) : list cop := flat_map (fun o => [CDrop; o]) ops.

Theorem C05_never_caching_same_answers : forall ops x y a1 a2,
  Forall (fun o => is_drop o = false) ops ->
  cexec rinit ops = Some (x, a1) -> cexec rinit (never_cache ops) = Some (y, a2) ->
  map proj a1 = map proj (vis (never_cache ops) a2) /\
  (forall a b, same (r_eq x) a b <-> same (r_eq y) a b) /\
  (forall l, c_ver x l = c_ver y l).
Proof.
  intros ops x y a1 a2 F H1 H2.
  assert (Ff : filter (fun o => negb (is_drop o)) ops = filter (fun o => negb (is_drop o)) (never_cache ops)).
  { clear H1 H2. induction ops as [|o ops IH]; [reflexivity|]. inversion F; subst.
    simpl. rewrite H1. simpl. f_equal. auto. }
  destruct (C05_pruned_dict_cache_transparent ops (never_cache ops) x y a1 a2 Ff H1 H2) as (A & P & V).
  split; auto. rewrite <- A. f_equal.
  clear - F H1. revert x a1 H1. generalize rinit. induction ops as [|o ops IH]; intros x0 x a1 H1; simpl in H1.
  - inversion H1; reflexivity.
  - inversion F; subst.
    destruct (WithEquiv.cstep order root_label iterative x0 o) as [[x1 a]|]; [|discriminate].
    destruct (cexec x1 ops) as [[x2 rest]|] eqn:Ex; [|discriminate]. inversion H1; subst.
    simpl. rewrite H2. f_equal. eapply IH; eauto.
Qed.

End C05_composed.

(* ---------------------------------------------------------------- applied examples
   ac_h : a history of a recursive RuleDB with start label 0.  0 -> 1 -> 2 one-way, a query
   (False), 2 -> 0 closes the cycle (class {0,1,2}, representative 2 <> start label), the
   rule 1 -> (4,3), a verification rule for 3, the two-way rule 4 <-> 5, 5 -> (), a query
   (True, recomputes), is_verified(2), a query answered from the cache. *)
Definition ac_h0 : list cop :=
  [CAdd 0 [1] false false; CAdd 1 [2] false false; CHasSpec; CAdd 2 [0] false false;
   CAdd 1 [4; 3] false false; CAdd 3 [] true false; CAdd 4 [5] false true; CAdd 5 [] false false].
Definition ac_h : list cop := ac_h0 ++ [CHasSpec; CIsVerified 2; CHasSpec].
Definition ac_run (it : bool) (h : list cop) : rdb * list cans :=
  match cexec isort 0 it rinit h with Some p => p | None => (rinit, []) end.
Definition ac_x0 : rdb := Eval vm_compute in fst (ac_run false ac_h0).
Definition ac_a0 : list cans := Eval vm_compute in snd (ac_run false ac_h0).
Definition ac_x : rdb := Eval vm_compute in fst (ac_run false ac_h).
Definition ac_a : list cans := Eval vm_compute in snd (ac_run false ac_h).
Lemma ac_exec0 : cexec isort 0 false rinit ac_h0 = Some (ac_x0, ac_a0).
Proof. vm_compute. reflexivity. Qed.
Lemma ac_exec : cexec isort 0 false rinit ac_h = Some (ac_x, ac_a).
Proof. vm_compute. reflexivity. Qed.
Definition ac_pd : rdict := [(2, [[3; 5]]); (3, [[]]); (5, [[]])].
Definition ac_runs : list (list choice) := [[([3; 5], [5; 3]); ([], []); ([], [])]].

Example C05_composed_values :
  ac_a = [ANone; ANone; ABool false; ANone; ANone; ANone; ANone; ANone; ABool true; ABool true; ABool true] /\
  r_cache ac_x = Some ac_pd /\ r_cache ac_x0 = None /\
  map (c_rep ac_x) [0; 1; 2; 3; 4; 5] = [2; 2; 2; 3; 5; 5] /\
  filter (c_ver ac_x) [0; 1; 2; 3; 4; 5] = [0; 1; 2; 3; 4; 5] /\
  filter (c_ver ac_x0) [0; 1; 2; 3; 4; 5] = [3] /\
  hkeys ac_h = [(0, [1]); (1, [2]); (2, [0]); (1, [3; 4]); (3, []); (5, []); (4, [5])].
Proof. vm_compute. repeat split. Qed.

Example C05_composed_total_nonvacuous : cexec isort 0 false rinit ac_h <> None.
Proof. exact (C05_composed_total isort isort_len 0 false ac_h). Qed.

Example C05_has_specification_total_nonvacuous :
  exists x' b, c_has_spec isort 0 false ac_x0 = Some (x', b).
Proof. exact (C05_has_specification_total isort isort_In isort_len 0 false ac_h0 ac_x0 ac_a0 ac_exec0). Qed.

(* rules_up_to_equivalence after ac_h0: 0 and 2 are in one component, 0 and 4 are not *)
Example C05_rep_is_scc_nonvacuous :
  exists x' rd, c_rue isort ac_x0 = Some (x', rd) /\
    scc_rep (cedge ac_h0) (repf (r_eq x')) /\
    rd = rules_up_to_equivalence (repf (r_eq x')) (hkeys ac_h0) /\
    repf (r_eq x') 0 = repf (r_eq x') 2 /\ repf (r_eq x') 0 <> repf (r_eq x') 4 /\
    rd = [(2, [[3; 5]]); (3, [[]]); (5, [[]])].
Proof.
  destruct (c_rue isort ac_x0) as [[x' rd]|] eqn:R; [|vm_compute in R; discriminate R].
  exists x', rd. split; auto.
  destruct (C05_rep_is_scc isort isort_In isort_len 0 false ac_h0 ac_x0 ac_a0 x' rd ac_exec0 R) as (_ & S & E).
  split; auto. split; auto. vm_compute in R. inversion R; subst. vm_compute. repeat split; discriminate.
Qed.
(* hence, through the theorem: 0 and 2 are mutually reachable along the recorded unary rules *)
Example C05_rep_is_scc_value :
  clos_refl_trans Z (cedge ac_h0) 0 2 /\ clos_refl_trans Z (cedge ac_h0) 2 0.
Proof.
  destruct C05_rep_is_scc_nonvacuous as (x' & rd & _ & S & _ & E & _). apply (S 0 2). exact E.
Qed.

(* has_specification answered from the cache (third query of ac_h) *)
Example C05_has_spec_scc_nonvacuous :
  exists x' rep, c_has_spec isort 0 false ac_x = Some (x', true) /\
    scc_rep (cedge ac_h) rep /\ rep 0 = 2 /\
    Tree.Model.has_specification rep (hkeys ac_h) 0 false = Some true /\
    (true = true <-> gfp (rules_up_to_equivalence rep (hkeys ac_h)) (rep 0)).
Proof.
  destruct (c_has_spec isort 0 false ac_x) as [[x' b]|] eqn:R; [|vm_compute in R; discriminate R].
  assert (b = true) by (vm_compute in R; inversion R; reflexivity). subst b.
  exists x', (repf (r_eq x')). split; auto.
  destruct (C05_has_spec_scc isort isort_In isort_len 0 false ac_h ac_x ac_a x' true ac_exec R) as (_ & S & E).
  split; auto. split; [vm_compute in R; inversion R; subst; vm_compute; reflexivity|]. split; auto.
  destruct (C05_has_spec_recursive (repf (r_eq x')) (hkeys ac_h) 0) as (b' & E' & Hb).
  rewrite E in E'. inversion E'; subst b'. exact Hb.
Qed.

Example C05_has_spec_recursive_scc_nonvacuous :
  forall x' b, c_has_spec isort 0 false ac_x = Some (x', b) ->
  exists rep, scc_rep (cedge ac_h) rep /\
    (b = true <-> gfp (rules_up_to_equivalence rep (hkeys ac_h)) (rep 0)).
Proof.
  intros x' b. exact (C05_has_spec_recursive_scc isort isort_In isort_len 0 false ac_h ac_x ac_a x' b eq_refl ac_exec).
Qed.

(* an iterative database: 0 -> 1 -> 2 -> 0 one-way cycle, 1 -> (4, 0) recursing to the start class *)
Definition ai_h : list cop :=
  [CAdd 0 [1] false false; CAdd 1 [2] false false; CHasSpec; CAdd 2 [0] false false;
   CAdd 1 [4; 0] false false; CAdd 4 [5] false true; CAdd 5 [] false false].
Definition ai_x : rdb := Eval vm_compute in fst (ac_run true ai_h).
Definition ai_a : list cans := Eval vm_compute in snd (ac_run true ai_h).
Lemma ai_exec : cexec isort 0 true rinit ai_h = Some (ai_x, ai_a).
Proof. vm_compute. reflexivity. Qed.

Example C05_has_spec_iterative_scc_nonvacuous :
  forall x' b, c_has_spec isort 0 true ai_x = Some (x', b) ->
  exists rep, scc_rep (cedge ai_h) rep /\
    (b = true <-> ikey (rules_up_to_equivalence rep (hkeys ai_h)) (Some (rep 0)) (rep 0)).
Proof.
  intros x' b. exact (C05_has_spec_iterative_scc isort isort_In isort_len 0 true ai_h ai_x ai_a x' b eq_refl ai_exec).
Qed.
Example C05_has_spec_iterative_scc_value :
  exists x', c_has_spec isort 0 true ai_x = Some (x', true) /\
             r_cache x' = Some [(5, [[]]); (2, [[2; 5]])].
Proof. eexists. split; vm_compute; reflexivity. Qed.

(* the finders: smallest on the recursive database, the iterative finder on the iterative one *)
Example C05_finder_total_after_has_specification_nonvacuous :
  exists x1 x2, c_has_spec isort 0 false ac_x = Some (x1, true) /\
    c_node isort 0 false x1 true ac_runs [] = Some (x2, NTree (Node 2 [Node 5 []; Node 3 []])) /\
    exists pd, r_cache x1 = Some pd /\
      node_ok false pd (repf (r_eq x1) 0) true ac_runs [] (NTree (Node 2 [Node 5 []; Node 3 []])).
Proof.
  eexists _, _. split; [vm_compute; reflexivity|]. split; [vm_compute; reflexivity|].
  eapply (C05_finder_total_after_has_specification isort isort_In isort_len 0 false ac_h ac_x ac_a _ true ac_runs []);
    [exact ac_exec|vm_compute; reflexivity|vm_compute; reflexivity].
Qed.

(* the recorded answers ac_runs ARE a run of random on the cached dictionary (decided
   from the definition via C05_random_answers_iff_legit), hence a tree comes back *)
Example C05_finder_answers_on_runs_of_random_nonvacuous :
  exists x1 x2 r, c_has_spec isort 0 false ac_x = Some (x1, true) /\
    c_node isort 0 false x1 true ac_runs [] = Some (x2, r) /\ exists t, r = NTree t.
Proof.
  eexists _, _, _. split; [vm_compute; reflexivity|]. split; [vm_compute; reflexivity|].
  eapply (C05_finder_answers_on_runs_of_random isort isort_In isort_len 0 false ac_h ac_x ac_a _ true ac_runs []);
    [reflexivity|exact ac_exec|vm_compute; reflexivity|vm_compute; reflexivity|discriminate|].
  intros pd E. vm_compute in E. inversion E; subst pd.
  apply Forall_cons; [|apply Forall_nil].
  apply C05_random_answers_iff_legit. vm_compute. discriminate.
Qed.


Example C05_finder_total_iterative_nonvacuous :
  exists x1 x2 t, c_has_spec isort 0 true ai_x = Some (x1, true) /\
    c_node isort 0 true x1 false [] [(2, [[2; 5]]); (5, [[]])] = Some (x2, NTree t) /\
    t = Node 2 [Node 2 []; Node 5 []] /\
    exists pd, r_cache x1 = Some pd /\
      node_ok true pd (repf (r_eq x1) 0) false [] [(2, [[2; 5]]); (5, [[]])] (NTree t).
Proof.
  eexists _, _, _. split; [vm_compute; reflexivity|]. split; [vm_compute; reflexivity|]. split; [reflexivity|].
  eapply (C05_finder_total_after_has_specification isort isort_In isort_len 0 true ai_h ai_x ai_a _ false []);
    [exact ai_exec|vm_compute; reflexivity|vm_compute; reflexivity].
Qed.

(* before any unit rule: SpecificationNotFound, and has_specification is False *)
Example C05_node_not_found_iff_no_specification_nonvacuous :
  let h := [CAdd 0 [1] false false; CAdd 1 [2] false false] in
  exists x ans x2, cexec isort 0 false rinit h = Some (x, ans) /\
    c_node isort 0 false x false [] [] = Some (x2, NNotFound) /\
    exists x1 b, c_has_spec isort 0 false x = Some (x1, b) /\ (NNotFound = NNotFound <-> b = false) /\
      (b = true -> exists pd, r_cache x1 = Some pd /\
                     node_ok false pd (repf (r_eq x1) 0) false [] [] NNotFound).
Proof.
  eexists _, _, _. split; [vm_compute; reflexivity|]. split; [vm_compute; reflexivity|].
  eapply (C05_node_not_found_iff_no_specification isort isort_In isort_len 0 false
            [CAdd 0 [1] false false; CAdd 1 [2] false false]); vm_compute; reflexivity.
Qed.

(* the marks of the recomputation at the end of ac_h0: before only 3 is verified (its
   verification rule); afterwards every label whose class is in the fixed point *)
Example C05_verified_marks_sound_nonvacuous :
  exists x' pd, c_has_spec isort 0 false ac_x0 = Some (x', true) /\ r_cache x' = Some pd /\
    Tree.Model.pruned_dict (repf (r_eq x')) (hkeys ac_h0) 0 false = Some pd /\
    (forall l, c_ver x' l = true <->
       (exists b0, c_ver ac_x0 b0 = true /\ same (r_eq x') l b0) \/
       has_key pd (repf (r_eq x') l) = true).
Proof.
  destruct (c_has_spec isort 0 false ac_x0) as [[x' b]|] eqn:R; [|vm_compute in R; discriminate R].
  assert (b = true) by (vm_compute in R; inversion R; reflexivity). subst b.
  destruct (C05_verified_marks_sound isort isort_In isort_len 0 false ac_h0 ac_x0 ac_a0 x' true ac_exec0 eq_refl R)
    as (pd & C & PD & V).
  exists x', pd. auto.
Qed.

Example C05_pruned_keys_are_fixed_point_nonvacuous :
  forall k, has_key ac_pd k = true <->
    gfp (rules_up_to_equivalence (c_rep ac_x) (hkeys ac_h)) k.
Proof.
  apply (C05_pruned_keys_are_fixed_point (c_rep ac_x) (hkeys ac_h) 0 false ac_pd). vm_compute. reflexivity.
Qed.

Example C05_is_verified_answer_nonvacuous :
  forall x' v, c_is_verified ac_x 1 = Some (x', v) -> v = c_ver ac_x 1.
Proof. intros x' v. exact (C05_is_verified_answer isort isort_In isort_len 0 false ac_h ac_x ac_a 1 x' v ac_exec). Qed.

Example C05_recompute_idem_nonvacuous :
  exists x2, c_pruned_dict isort 0 false (mkR (r_eq ac_x) (r_rules ac_x) (r_eqv ac_x) None) = Some (x2, ac_pd) /\
    r_eq x2 <> r_eq ac_x /\
    (forall l q, root (r_eq x2) l q <-> root (r_eq ac_x) l q) /\
    (forall v, In v (verified (r_eq x2)) <-> In v (verified (r_eq ac_x))) /\
    (forall a b, edge (vertices (r_eq x2)) a b <-> edge (vertices (r_eq ac_x)) a b).
Proof.
  destruct (c_pruned_dict isort 0 false (mkR (r_eq ac_x) (r_rules ac_x) (r_eqv ac_x) None)) as [[x2 pd2]|] eqn:R;
    [|vm_compute in R; discriminate R].
  destruct (C05_recompute_idem isort isort_In isort_len 0 false ac_h ac_x ac_a ac_pd x2 pd2 ac_exec eq_refl R)
    as (-> & A & V & Ed).
  exists x2. split; auto. split; auto.
  vm_compute in R. inversion R; subst. intros D. apply (f_equal oneway) in D. vm_compute in D. discriminate D.
Qed.

(* the cache: ac_h with the cache dropped before each of the last two queries *)
Definition ac_h' : list cop := ac_h0 ++ [CHasSpec; CDrop; CIsVerified 2; CDrop; CHasSpec].
Example C05_pruned_dict_cache_transparent_nonvacuous :
  exists y a2, cexec isort 0 false rinit ac_h' = Some (y, a2) /\
    map proj (vis ac_h ac_a) = map proj (vis ac_h' a2) /\
    (forall a b, same (r_eq ac_x) a b <-> same (r_eq y) a b) /\
    (forall l, c_ver ac_x l = c_ver y l) /\
    r_eq y <> r_eq ac_x.
Proof.
  destruct (cexec isort 0 false rinit ac_h') as [[y a2]|] eqn:R; [|vm_compute in R; discriminate R].
  exists y, a2. split; auto.
  destruct (C05_pruned_dict_cache_transparent isort isort_In isort_len 0 false ac_h ac_h' ac_x y ac_a a2
              eq_refl ac_exec R) as (A & P & V).
  split; auto. split; auto. split; auto.
  vm_compute in R. inversion R; subst. intros D. apply (f_equal oneway) in D. vm_compute in D. discriminate D.
Qed.

Example C05_never_caching_same_answers_nonvacuous :
  exists y a2, cexec isort 0 false rinit (never_cache ac_h) = Some (y, a2) /\
    map proj ac_a = map proj (vis (never_cache ac_h) a2) /\
    (forall a b, same (r_eq ac_x) a b <-> same (r_eq y) a b) /\
    (forall l, c_ver ac_x l = c_ver y l).
Proof.
  destruct (cexec isort 0 false rinit (never_cache ac_h)) as [[y a2]|] eqn:R; [|vm_compute in R; discriminate R].
  exists y, a2. split; auto.
  apply (C05_never_caching_same_answers isort isort_In isort_len 0 false ac_h ac_x y ac_a a2); auto.
  repeat constructor.
Qed.


Print Assumptions C05_prune_gfp.
Print Assumptions C05_prune_terminates.
Print Assumptions C05_prune_refuted_on_empty_ruleset.
Print Assumptions C05_iterative_lfp.
Print Assumptions C05_quotient_rules.
Print Assumptions C05_quotient_nonempty.
Print Assumptions C05_has_spec_recursive.
Print Assumptions C05_has_spec_iterative.
Print Assumptions C05_tree_valid_random.
Print Assumptions C05_tree_valid_smallish.
Print Assumptions C05_tree_valid_dfs.
Print Assumptions C05_tree_valid_iterative.
Print Assumptions C05_size_formula.
Print Assumptions C05_dfs_bounded_sound.
Print Assumptions C05_dfs_bounded_complete.
Print Assumptions C05_dfs_fuel_enough.
Print Assumptions C05_dfs_covers_every_tree.
Print Assumptions C05_smallest_defined.
Print Assumptions C05_smallest_minimum.
Print Assumptions C05_smallest_minimum_ruledb.
Print Assumptions C05_bfs_generator_refuted.
Print Assumptions C05_prune_test_is_source.
Print Assumptions C05_iterative_test_is_source.
Print Assumptions C05_finder_test_is_source.
Print Assumptions C05_composed_total.
Print Assumptions C05_has_specification_total.
Print Assumptions C05_rep_is_scc.
Print Assumptions C05_has_spec_scc.
Print Assumptions C05_has_spec_recursive_scc.
Print Assumptions C05_has_spec_iterative_scc.
Print Assumptions C05_finder_total_after_has_specification.
Print Assumptions C05_node_not_found_iff_no_specification.
Print Assumptions C05_verified_marks_sound.
Print Assumptions C05_pruned_keys_are_fixed_point.
Print Assumptions C05_is_verified_answer.
Print Assumptions C05_recompute_idem.
Print Assumptions C05_pruned_dict_cache_transparent.
Print Assumptions C05_never_caching_same_answers.
Print Assumptions C05_random_answers_iff_legit.
Print Assumptions C05_random_pops_bound.
Print Assumptions C05_random_finder_total.
Print Assumptions C05_random_finder_total_prefix.
Print Assumptions C05_random_finder_never_stuck.
Print Assumptions C05_random_stuck_if_not_closed.
Print Assumptions C05_random_stuck_if_empty_ruleset.
Print Assumptions C05_smallish_finder_total.
Print Assumptions C05_bfs_partial.
Print Assumptions C05_finder_answers_on_runs_of_random.
