(* C17 — a search pickled or interrupted at any point resumes faithfully.
   Statements only (proofs: Searcher/Slicing.v).

   What a Coq theorem can carry here is the CONTROL FLOW of
   _auto_search_rules / _expand_classes_for under an arbitrary clock: where the
   search can be interrupted, what it answers, and where the next call picks
   up.  That the searcher's state after k packets is the same object whether
   or not it was pickled in between (shared lists inside ClassDB, the
   ruledb -> searcher back-reference, ...) is behaviour of the Python runtime;
   it is covered by the correspondence only (pickle at every k, equality,
   identical event traces afterwards) — partial by nature, as DESIGN.md says.

   `auto_search n_avail mult maxt fuel k extra ds answers = (o, calls, extra')`:
   a call of _auto_search_rules on a searcher that has processed k packets, the
   queue running dry at n_avail packets, the j-th has_specification() call
   advancing the clock by ds_j >= 0 and answering answers_j.                  *)
From Coq Require Import ZArith List Bool.
From CSS Require Import Searcher.Slicing.
Import ListNotations.
Open Scope Z_scope.

(* decisions are only taken BETWEEN packets, at packet counts from where the
   previous call stopped up to the exhaustion point; a specification is
   reported only on a true answer and at the first one; after an interruption
   the next call continues from the packet count reached (k of the outcome) *)
Theorem C17_resume_from : forall n_avail mult maxt fuel k extra ds answers o calls extra',
  0 <= mult -> k <= n_avail -> Forall (fun d => 0 <= d) ds ->
  auto_search n_avail mult maxt fuel k extra ds answers = (o, calls, extra') ->
  (forall x, In x calls -> k <= x <= n_avail) /\
  match o with
  | Found kf => last calls k = kf /\ nth (length calls - 1) answers false = true /\
                forall j, (j < length calls - 1)%nat -> nth j answers false = false
  | Exceeded kf | NotFound kf =>
      last calls k = kf /\ forall j, (j < length calls)%nat -> nth j answers false = false
  | OutOfFuel => True
  end.
Proof.
  intros n_avail mult maxt fuel k extra ds answers o calls extra' Hm.
  exact (resume_from n_avail mult maxt Hm fuel k extra ds answers o calls extra').
Qed.

(* SpecificationNotFound is raised only when the queue has run dry *)
Theorem C17_notfound_only_when_exhausted :
  forall n_avail mult maxt fuel k extra ds answers kf calls extra',
  0 <= mult -> k <= n_avail -> Forall (fun d => 0 <= d) ds ->
  auto_search n_avail mult maxt fuel k extra ds answers = (NotFound kf, calls, extra') ->
  kf = n_avail.
Proof.
  intros n_avail mult maxt fuel k extra ds answers kf calls extra' Hm Hk Hds H.
  unfold auto_search in H.
  exact (notfound_exhausted n_avail mult maxt Hm fuel k extra (k + extra) 0 ds answers [] kf calls extra'
           (Z.le_refl 0) Hk Hds H).
Qed.

(* ExceededMaxtimeError is raised only when a limit is set and the clock passed it *)
Theorem C17_exceeded_only_past_limit :
  forall n_avail mult maxt fuel k extra ds answers kf calls extra',
  auto_search n_avail mult maxt fuel k extra ds answers = (Exceeded kf, calls, extra') ->
  exists m, maxt = Some m /\ m < kf + extra' - (k + extra).
Proof.
  intros n_avail mult maxt fuel k extra ds answers kf calls extra' H. unfold auto_search in H.
  exact (exceeded_really n_avail mult maxt fuel k extra (k + extra) 0 ds answers [] kf calls extra' H).
Qed.

Example C17_nonvacuous :
  (* perc = 50 (mult 2), limit 6: a slice of 1 packet, then one of 2*2+1 packets; interrupted
     after 6 packets; the next call resumes at packet 7 and finds the specification after 10 *)
  auto_search 40 2 (Some 6) 10 0 0 [2; 1; 3] [false; false; false] = (Exceeded 6, [1; 6], 3) /\
  auto_search 40 2 (Some 60) 10 6 3 [1; 1] [false; true] = (Found 10, [7; 10], 5).
Proof. split; vm_compute; reflexivity. Qed.

(* ------------------------------------------------------------------------
   NON-VACUITY (audit): the theorems APPLIED to the two calls of C17_nonvacuous (a call interrupted by
   its time limit after 6 packets, and the resumed call that starts at packet count 6 with clock offset 3
   and finds the specification after 10), and to a call that exhausts the queue (9 packets, four
   has_specification() calls, all answering False). *)
Require Import Lia.
Lemma ds_nonneg_1 : Forall (fun d => 0 <= d) [2; 1; 3]. Proof. repeat constructor; lia. Qed.
Lemma ds_nonneg_2 : Forall (fun d => 0 <= d) [1; 1]. Proof. repeat constructor; lia. Qed.
Lemma ds_nonneg_3 : Forall (fun d => 0 <= d) [1; 2; 1; 1]. Proof. repeat constructor; lia. Qed.
Lemma run_interrupted : auto_search 40 2 (Some 6) 10 0 0 [2; 1; 3] [false; false; false] = (Exceeded 6, [1; 6], 3).
Proof. vm_compute; reflexivity. Qed.
Lemma run_resumed : auto_search 40 2 (Some 60) 10 6 3 [1; 1] [false; true] = (Found 10, [7; 10], 5).
Proof. vm_compute; reflexivity. Qed.
Lemma run_exhausted :
  auto_search 9 2 None 10 0 0 [1; 2; 1; 1] [false; false; false; false; false] = (NotFound 9, [1; 4; 9; 9], 5).
Proof. vm_compute; reflexivity. Qed.

(* covers C17_resume_from, the three informative outcomes (the OutOfFuel case of the theorem says nothing) *)
Example C17_resume_from_nonvacuous :
  ((forall x, In x [1; 6] -> 0 <= x <= 40) /\
   last [1; 6] 0 = 6 /\ forall j, (j < length [1; 6])%nat -> nth j [false; false; false] false = false) /\
  ((forall x, In x [7; 10] -> 6 <= x <= 40) /\
   last [7; 10] 6 = 10 /\ nth (length [7; 10] - 1) [false; true] false = true /\
   forall j, (j < length [7; 10] - 1)%nat -> nth j [false; true] false = false) /\
  ((forall x, In x [1; 4; 9; 9] -> 0 <= x <= 9) /\
   last [1; 4; 9; 9] 0 = 9 /\
   forall j, (j < length [1; 4; 9; 9])%nat -> nth j [false; false; false; false; false] false = false).
Proof.
  split; [|split].
  - apply (C17_resume_from 40 2 (Some 6) 10 0 0 [2; 1; 3] [false; false; false] (Exceeded 6) [1; 6] 3
             ltac:(lia) ltac:(lia) ds_nonneg_1 run_interrupted).
  - apply (C17_resume_from 40 2 (Some 60) 10 6 3 [1; 1] [false; true] (Found 10) [7; 10] 5
             ltac:(lia) ltac:(lia) ds_nonneg_2 run_resumed).
  - apply (C17_resume_from 9 2 None 10 0 0 [1; 2; 1; 1] [false; false; false; false; false] (NotFound 9)
             [1; 4; 9; 9] 5 ltac:(lia) ltac:(lia) ds_nonneg_3 run_exhausted).
Qed.
(* with too little fuel the model answers OutOfFuel and C17_resume_from's conclusion is `True`: the
   theorem is informative only for runs that end (there is no theorem that enough fuel exists) *)
Example C17_resume_from_out_of_fuel :
  auto_search 9 2 None 2 0 0 [1; 2; 1; 1] [false; false; false; false; false] = (OutOfFuel, [1; 4], 3).
Proof. vm_compute; reflexivity. Qed.

Example C17_notfound_only_when_exhausted_nonvacuous : 9 = 9.
Proof.
  apply (C17_notfound_only_when_exhausted 9 2 None 10 0 0 [1; 2; 1; 1] [false; false; false; false; false] 9
           [1; 4; 9; 9] 5 ltac:(lia) ltac:(lia) ds_nonneg_3 run_exhausted).
Qed.
(* the conclusion is about the queue: with a larger queue the same script is NOT answered NotFound *)
Example C17_notfound_near_miss :
  fst (fst (auto_search 40 2 None 4 0 0 [1; 2; 1; 1] [false; false; false; false; false])) = OutOfFuel /\
  fst (fst (auto_search 9 2 None 10 3 1 [1; 2; 1; 1] [false; false; false; false; false])) = NotFound 9.
Proof. split; vm_compute; reflexivity. Qed.

Example C17_exceeded_only_past_limit_nonvacuous :
  exists m, Some 6 = Some m /\ m < 6 + 3 - (0 + 0).
Proof.
  apply (C17_exceeded_only_past_limit 40 2 (Some 6) 10 0 0 [2; 1; 3] [false; false; false] 6 [1; 6] 3
           run_interrupted).
Qed.
(* ... and with a limit that is not passed (or none) the same script is not interrupted *)
Example C17_exceeded_near_miss :
  fst (fst (auto_search 40 2 (Some 20) 3 0 0 [2; 1; 3] [false; false; false])) = OutOfFuel /\
  fst (fst (auto_search 40 2 None 3 0 0 [2; 1; 3] [false; false; false])) = OutOfFuel /\
  auto_search 40 2 (Some 9) 3 0 0 [2; 1; 3] [false; false; false] = (Exceeded 9, [1; 6; 9], 6).
Proof. split; [|split]; vm_compute; reflexivity. Qed.

Print Assumptions C17_resume_from.
Print Assumptions C17_notfound_only_when_exhausted.
Print Assumptions C17_exceeded_only_past_limit.
