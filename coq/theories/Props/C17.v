(* C17 — a search pickled or interrupted at any point resumes faithfully.
   Statements only (proofs: Searcher/Slicing.v, StepProofs.v, Resume.v, Cache.v, Pickle.v).

   What a Coq theorem carries here: (1) the CONTROL FLOW of _auto_search_rules /
   _expand_classes_for under a clock that counts packets and advances by a scripted
   non-negative amount at every has_specification() call (where the search can be
   interrupted, what it answers, where the next call picks up), (2) the STATE
   TRANSFORMATION: the searcher as a packet-level state machine whose time-sliced
   drivers equal the uninterrupted iteration, (3) that (1) IS the control flow of (2)
   (C17_control_flow_is_state_machine), (4) that enough fuel excludes the models'
   OutOfFuel answer (C17_auto_search_fuel, C17_run_calls_fuel), (5) that every rule
   recorded by an interrupted / resumed search is justified by the strategy table
   (C17_resumed_search_*: the C04 conclusions for every script of calls), and (6) the
   composition with C14 / C02 for the pruning databases: the rule stores such a search
   leaves are those of an add_hist history and C02's _find_rule is total on them
   (C17_resumed_search_gives_add_hist, C17_resumed_search_find_rule_total).
   NOT a theorem: that pickle rebuilds the same object graph (Searcher/Pickle.v models
   dump/load as the identity on the members; it is never run against pickle - the oracle
   compares original and restored searcher member by member instead), that the rule
   database answers is_verified / has_specification the same after a restore (the answers
   are inputs of the models), and - beyond (6) - that the specification finally returned
   satisfies C01/C02: closedness, one rule per class, productivity and the counts are
   per-instance oracle verdicts only; no theorem here mentions an extracted specification.

   `auto_search n_avail mult maxt fuel k extra ds answers = (o, calls, extra')`:
   a call of _auto_search_rules on a searcher that has processed k packets, the
   queue running dry at n_avail packets, the j-th has_specification() call
   advancing the clock by ds_j >= 0 and answering answers_j.                  *)
From Coq Require Import ZArith List Bool.
From CSS Require Import Base.PyList ClassDB.Model ClassDB.Proofs Searcher.Model Searcher.Inv Searcher.Slicing Searcher.Step
  Searcher.StepProofs Searcher.Resume Searcher.QueuePack Searcher.ResumeHist Searcher.Cache Searcher.Pickle.
From CSS Require Searcher.Contracts RuleDB.Model RuleDB.AddHist RuleDB.SearchHist Spec.FindRule Spec.FindRuleProofs.
From CSS Require Queue.Model.
From CSS Require Searcher.Deciders.
Import ListNotations.
Open Scope Z_scope.

(* decisions are only taken BETWEEN packets, at packet counts from where the
   previous call stopped up to the exhaustion point; a specification is
   reported only on a true answer and at the first one; after an interruption
   the next call continues from the packet count reached (k of the outcome) *)
Theorem C17_resume_from : forall n_avail mult maxt fuel k extra ds answers o calls extra',
  0 <= mult -> k <= n_avail -> Forall (fun d => 0 <= d) ds ->
  auto_search n_avail mult maxt fuel k extra ds answers = (o, calls, extra') ->
  (forall x, In x calls -> k <= x <= n_avail) /\
  match o with
  | Found kf => last calls k = kf /\ nth (length calls - 1) answers false = true /\
                forall j, (j < length calls - 1)%nat -> nth j answers false = false
  | Exceeded kf | NotFound kf =>
      last calls k = kf /\ forall j, (j < length calls)%nat -> nth j answers false = false
  | OutOfFuel => True
  end.
Proof.
  intros n_avail mult maxt fuel k extra ds answers o calls extra' Hm.
  exact (resume_from n_avail mult maxt Hm fuel k extra ds answers o calls extra').
Qed.

(* SpecificationNotFound is answered only at the packet count n_avail - a PARAMETER of the control-flow
   model (where the queue runs dry).  That n_avail is the state machine's own exhaustion point is
   C17_control_flow_is_state_machine / C17_state_machine_control_flow below. *)
Theorem C17_notfound_only_when_exhausted :
  forall n_avail mult maxt fuel k extra ds answers kf calls extra',
  0 <= mult -> k <= n_avail -> Forall (fun d => 0 <= d) ds ->
  auto_search n_avail mult maxt fuel k extra ds answers = (NotFound kf, calls, extra') ->
  kf = n_avail.
Proof.
  intros n_avail mult maxt fuel k extra ds answers kf calls extra' Hm Hk Hds H.
  unfold auto_search in H.
  exact (notfound_exhausted n_avail mult maxt Hm fuel k extra (k + extra) 0 ds answers [] kf calls extra'
           (Z.le_refl 0) Hk Hds H).
Qed.

(* ExceededMaxtimeError is raised only when a limit is set and the clock passed it *)
Theorem C17_exceeded_only_past_limit :
  forall n_avail mult maxt fuel k extra ds answers kf calls extra',
  auto_search n_avail mult maxt fuel k extra ds answers = (Exceeded kf, calls, extra') ->
  exists m, maxt = Some m /\ m < kf + extra' - (k + extra).
Proof.
  intros n_avail mult maxt fuel k extra ds answers kf calls extra' H. unfold auto_search in H.
  exact (exceeded_really n_avail mult maxt fuel k extra (k + extra) 0 ds answers [] kf calls extra' H).
Qed.

(* enough fuel excludes OutOfFuel: one more than the number of packets the queue can still hand out.
   (Every turn of the loop that goes on processes at least one packet: exp_time >= 0 because mult >= 0
   and the clock never runs backwards.)  With it C17_resume_from is informative for every such run. *)
Theorem C17_auto_search_fuel : forall n_avail mult maxt fuel k extra ds answers,
  0 <= mult -> Forall (fun d => 0 <= d) ds -> (Z.to_nat (n_avail - k) < fuel)%nat ->
  fst (fst (auto_search n_avail mult maxt fuel k extra ds answers)) <> OutOfFuel.
Proof.
  intros n_avail mult maxt fuel k extra ds answers Hm. exact (auto_search_fuel n_avail mult maxt Hm fuel k extra ds answers).
Qed.


(* ======================================================================
   The state transformation (Searcher/Step.v): the searcher as a packet-level
   state machine built from the C04 model (expansion of one packet), the C16
   model (the queue) and the C15 model (the class database).

     step : sstate -> sstate * sevent     one next(queue) + is_verified gate + _expand
     iterate n s                          n turns, with their events
     run_calls_st mult s k extra calls    any script of successive auto_search calls
         (per call: max_expansion_time, clock advances and answers of has_specification)
         transcribed from _auto_search_rules / _expand_classes_for with the local
         last_label cache and the clock of Slicing.v
   Quantified over: every strategy table T, database mode, model fuel F,
   expand_verified, pack (inferral / initial / expansion strategy ids), perc
   (mult), script of calls, and every state s whose core satisfies the C04
   invariant `Inv T False` (every state reachable from __init__ does:
   C17_reachable).  The answers of ruledb.is_verified are part of s (an
   environment stream), those of has_specification part of the script: the
   theorems hold GIVEN the same answers, as they must (for the pruning
   databases has_specification() marks labels verified).
   ====================================================================== *)
Section StateMachine.
Variable T : table.
Variable mode : Z.
Variable F : nat.
Variable expand_verified : bool.
Variables inferral_strategies initial_strategies : list Z.
Variable expansion_strats : list (list Z).

Notation step := (step T mode F expand_verified inferral_strategies initial_strategies expansion_strats).
Notation iterate := (iterate T mode F expand_verified inferral_strategies initial_strategies expansion_strats).
Notation run_calls_st := (run_calls_st T mode F expand_verified inferral_strategies initial_strategies expansion_strats).
Notation init_sstate := (init_sstate T mode F inferral_strategies initial_strategies expansion_strats).
Notation process := (process T mode F expand_verified).
Notation qnext := (Queue.Model.next inferral_strategies initial_strategies expansion_strats).
Notation q_apply := (q_apply inferral_strategies initial_strategies).
Notation Inv := (Inv T False Gtriv).

(* the searcher after __init__, and after any number of packets, satisfies the invariant *)
Theorem C17_reachable : forall ans start n,
  Inv (core (fst (init_sstate ans start))) /\
  Inv (core (fst (iterate n (fst (init_sstate ans start))))).
Proof.
  intros ans start n. split; [apply init_sstate_inv|].
  destruct (iterate n (fst (init_sstate ans start))) as [s' es] eqn:E.
  eapply iterate_inv; [apply init_sstate_inv|exact E].
Qed.

(* (a) whatever the clock script, the time limits, perc and the answers of
   has_specification are, and whatever each call returns or raises, the state
   after the calls is `iterate step n` of the state before, n = the number of
   next(queue) calls made (= length of the event list), and the events of the
   calls, concatenated, are the events of that uninterrupted iteration *)
Theorem C17_slicing_independent : forall mult calls s k extra outs s' es k' extra',
  Inv (core s) ->
  run_calls_st mult s k extra calls = (outs, s', es, k', extra') ->
  iterate (length es) s = (s', es).
Proof. intros mult calls s k extra outs s' es k' extra'. apply run_calls_iterate. Qed.

(* ... and n is the number of packets processed plus the turns that found the queue dry
   (or the search dead): the packet counter k of the clock advances by exactly the number of
   packets among the events (the fuel of a call is only exhausted by a script with fewer
   has_specification answers than calls made; the harness never sends one) ... *)
Theorem C17_packet_count : forall mult calls s k extra outs s' es k' extra',
  Inv (core s) ->
  run_calls_st mult s k extra calls = (outs, s', es, k', extra') ->
  Forall (fun o => fst (fst o) <> Ret OutOfFuel) outs ->
  k' = k + Z.of_nat (length (filter is_packet es)).
Proof. intros mult calls s k extra outs s' es k' extra'. apply run_calls_count. Qed.

(* ... and a turn that finds the queue dry only settles the queue's own bookkeeping once:
   from then on every turn finds it dry and changes nothing *)
Theorem C17_dry_is_stable : forall s s1, step s = (s1, SDry) -> step s1 = (s1, SDry).
Proof. intros s s1. apply dry_is_stable. Qed.

(* SpecificationNotFound (of the state machine's auto_search) is raised only right after a
   next(queue) that found the queue dry: the state-level counterpart of
   C17_notfound_only_when_exhausted *)
Theorem C17_notfound_means_dry : forall mult maxt fuel s k extra ds hs kf calls' extra' s' es,
  auto_search_st T mode F expand_verified inferral_strategies initial_strategies expansion_strats
    mult maxt fuel s k extra ds hs = (Ret (NotFound kf), calls', extra', s', es) ->
  exists pre, es = pre ++ [SDry].
Proof.
  intros mult maxt fuel s k extra ds hs kf calls' extra' s' es H. unfold auto_search_st in H.
  eapply auto_st_notfound; eauto.
Qed.

(* ... in particular an interruption never falls inside a packet: at every point i of the
   sliced run, if the queue hands out a packet there, the i-th event IS that packet
   together with its complete processing, the next state has the queue calls of that
   processing applied, and nothing else happens in between *)
Theorem C17_no_packet_lost : forall mult calls s k extra outs s' es k' extra',
  Inv (core s) ->
  run_calls_st mult s k extra calls = (outs, s', es, k', extra') ->
  forall i si esi qp q1, (i < length es)%nat -> iterate i s = (si, esi) ->
    running (core si) = true -> qnext (que si) = (Queue.Model.RPacket qp, q1) ->
    let p := to_packet qp in
    let '(c1, _, evs) := process (core si) None p in
    nth i es SDead = SPacket p evs /\
    fst (iterate (S i) s) = mkSS c1 (fold_left q_apply evs q1).
Proof.
  intros mult calls s k extra outs s' es k' extra'. apply no_packet_lost.
Qed.

(* the queue never fails: a turn hands out a packet or finds the queue dry *)
Theorem C17_queue_total : forall q,
  match fst (qnext q) with Queue.Model.RPacket _ | Queue.Model.RStop => True | _ => False end.
Proof. apply qnext_total. Qed.

(* resumption composes *)
Theorem C17_resume_composes : forall k1 k2 s,
  iterate (k1 + k2) s =
  let '(s1, e1) := iterate k1 s in let '(s2, e2) := iterate k2 s1 in (s2, e1 ++ e2).
Proof. intros k1 k2 s. apply iterate_add. Qed.

(* ... also at the level of calls: a script split anywhere *)
Theorem C17_calls_compose : forall mult cs1 cs2 s k extra,
  run_calls_st mult s k extra (cs1 ++ cs2) =
  let '(o1, s1, e1, k1, x1) := run_calls_st mult s k extra cs1 in
  let '(o2, s2, e2, k2, x2) := run_calls_st mult s1 k1 x1 cs2 in (o1 ++ o2, s2, e1 ++ e2, k2, x2).
Proof. intros mult cs1 cs2 s k extra. apply run_calls_app. Qed.

(* (b) step reads and writes only the members (class database, queue, the rule stores
   and _already_empty of the rule database, tried_to_verify, symmetry_expanded,
   inferral_expanded) and the environment (pending is_verified answers, alive/dead):
   it gives the same result on any two states with the same members, and its result
   is nothing but members.  True BY CONSTRUCTION of `step` (it starts and ends with
   `norm`); what makes it meaningful is the correspondence: the real searcher, stopped
   and restarted or pickled at any packet, produces the events of `iterate step`. *)
Theorem C17_state_is_members : forall s,
  step s = step (of_members (members_of s)) /\
  (forall s' e, step s = (s', e) -> of_members (members_of s') = s').
Proof.
  intros s. split; [apply step_members|].
  intros s' e H. eapply step_normal; eauto.
Qed.

(* pickling at the level of the members (Searcher/Pickle.v): dump writes the members
   into a graph with the sharing of the real object graph, load reads them back *)
Theorem C17_pickle_roundtrip : forall s,
  well_shared (dump s) /\ load (dump s) = of_members (members_of s) /\ (normal s -> load (dump s) = s).
Proof.
  intros s. split; [apply dump_well_shared|]. split; [apply load_dump_members|apply load_dump].
Qed.

(* step commutes with pickling: for every state, and at every point of a run *)
Theorem C17_pickle_commutes : forall s k n,
  step (load (dump s)) = step s /\
  let '(sk, ek) := iterate k s in
  let '(sn, en) := iterate n (load (dump sk)) in
  (k = O \/ load (dump sk) = sk) /\ (n = O \/ iterate (k + n) s = (sn, ek ++ en)).
Proof.
  intros s k n. split; [apply step_load_dump|apply pickle_anywhere].
Qed.

(* ---------------------------------------------------------------------- fuel of the state machine.
   packets_bounded s N: whatever is done from s on, the queue hands out at most N more packets
   (Resume.v).  A call of run_calls_st runs on fuel S (S (length hs)), hs = the has_specification
   answers of its script; N <= S (length hs) for every call excludes OutOfFuel for the whole script,
   so that C17_packet_count's hypothesis is a theorem for such scripts ... *)
Theorem C17_run_calls_fuel : forall mult calls N s k extra outs s' es k' extra',
  Inv (core s) -> packets_bounded T mode F expand_verified inferral_strategies initial_strategies expansion_strats s N ->
  Forall (fun c : call => (N <= S (length (snd c)))%nat) calls ->
  run_calls_st mult s k extra calls = (outs, s', es, k', extra') ->
  Forall (fun o => fst (fst o) <> Ret OutOfFuel) outs.
Proof. intros mult calls N s k extra outs s' es k' extra'. apply run_calls_no_out_of_fuel. Qed.

(* ... and where such an N comes from: a run that has met a turn that finds the queue dry has seen every
   packet there will ever be *)
Theorem C17_packets_bounded_when_dry : forall s m s1 es1,
  iterate m s = (s1, es1) -> step s1 = (s1, SDry) ->
  packets_bounded T mode F expand_verified inferral_strategies initial_strategies expansion_strats s
    (length (filter is_packet es1)).
Proof. intros s m s1 es1. apply packets_bounded_of_dry. Qed.

(* ---------------------------------------------------------------------- the control-flow model IS
   the control flow of the state machine: a call of the state machine that does not die in the expansion
   returns exactly what Slicing.auto_search returns for every n_avail that describes its queue (the packet
   count at which it was found dry during the call; any count not below the packets processed if it was
   not) *)
Theorem C17_control_flow_is_state_machine : forall mult maxt n_avail fuel s k extra ds hs o calls extra' s' es,
  0 <= mult -> Forall (fun d => 0 <= d) ds ->
  auto_search_st T mode F expand_verified inferral_strategies initial_strategies expansion_strats
    mult maxt fuel s k extra ds hs = (Ret o, calls, extra', s', es) ->
  describes n_avail k es ->
  auto_search n_avail mult maxt fuel k extra ds hs = (o, calls, extra').
Proof.
  intros mult maxt n_avail fuel s k extra ds hs o calls extra' s' es Hm.
  exact (auto_search_st_refines T mode F expand_verified inferral_strategies initial_strategies expansion_strats
           mult maxt Hm n_avail fuel s k extra ds hs o calls extra' s' es).
Qed.

(* ... so C17_resume_from / C17_notfound_only_when_exhausted / C17_exceeded_only_past_limit hold OF THE
   STATE MACHINE, with its own exhaustion point n = k + packets processed in the place of n_avail:
   decisions between packets at counts in [k, n]; Found only at the first true answer; Exceeded only with a
   limit that the clock passed; NotFound only at n and right after a turn that found the queue dry *)
Theorem C17_state_machine_control_flow : forall mult maxt fuel s k extra ds hs o calls extra' s' es,
  0 <= mult -> Forall (fun d => 0 <= d) ds ->
  auto_search_st T mode F expand_verified inferral_strategies initial_strategies expansion_strats
    mult maxt fuel s k extra ds hs = (Ret o, calls, extra', s', es) ->
  let n := k + Z.of_nat (length (filter is_packet es)) in
  (forall x, In x calls -> k <= x <= n) /\
  match o with
  | Found kf => last calls k = kf /\ nth (length calls - 1) hs false = true /\
                forall j, (j < length calls - 1)%nat -> nth j hs false = false
  | Exceeded kf => last calls k = kf /\ (forall j, (j < length calls)%nat -> nth j hs false = false) /\
                   exists m, maxt = Some m /\ m < kf + extra' - (k + extra)
  | NotFound kf => last calls k = kf /\ (forall j, (j < length calls)%nat -> nth j hs false = false) /\
                   kf = n /\ exists pre, es = pre ++ [SDry]
  | OutOfFuel => True
  end.
Proof.
  intros mult maxt fuel s k extra ds hs o calls extra' s' es Hm.
  exact (auto_search_st_control_flow T mode F expand_verified inferral_strategies initial_strategies expansion_strats
           mult maxt Hm fuel s k extra ds hs o calls extra' s' es).
Qed.

(* ---------------------------------------------------------------------- the C04 conclusions for EVERY
   interrupted / resumed search.  For a search from __init__ through any script of auto_search calls (time
   limits, clock advances, has_specification answers, is_verified answers: arbitrary; whatever the calls
   return or raise): every ruledb.add (EvAdd) and every key stored (EvStore) among the events of __init__
   and of every packet is justified by the strategy table w.r.t. the class database the searcher ENDS with
   (Searcher/Inv.v: add_ok = the rule (sid, parent) is yielded by a strategy of the table on a labelled
   class, the table has an entry for it that is not the self-equivalence, `start` is the label of the rule's
   parent and `ends` the labels of the table's children - or the empty rule of a truly empty class;
   store_ok = the key is (label of the parent, sorted kept children), nothing dropped unless possibly_empty).
   This is C04_recorded_from_table / C04_no_rule_when_not_applicable / C04_stored_key_partial, which C04 states
   for an uninterrupted packet list, carried over to the sliced / resumed runs. *)
Theorem C17_resumed_search_rules_from_table : forall mult ans start calls outs s' es k' extra' evs,
  run_calls_st mult (fst (init_sstate ans start)) 0 0 calls = (outs, s', es, k', extra') ->
  (evs = snd (init_sstate ans start) \/ exists p, In (SPacket p evs) es) ->
  let d := cdb (core s') in
  (forall start_label ends sid parent, In (EvAdd start_label ends sid parent) evs ->
     add_ok T d start_label ends sid parent) /\
  (forall eqv start_label ends' sid parent, In (EvStore eqv start_label ends' sid parent) evs ->
     store_ok T False d start_label ends' sid parent).
Proof.
  intros mult ans start calls outs s' es k' extra' evs H Hev d.
  destruct (search_events_ok0 T mode F expand_verified inferral_strategies initial_strategies expansion_strats
              False [] (fun f : False => match f with end) (fun f : False => match f with end)
              mult ans start calls outs s' es k' extra' H (sev_in_pack_False es)) as (_ & X).
  specialize (X evs Hev). rewrite Forall_forall in X.
  split; intros; exact (X _ H0).
Qed.

(* ... the same from ANY state that satisfies the invariant - in particular from a state that was saved
   and restored in between (C17_pickle_roundtrip: load (dump s) = s on the states `step` produces) *)
Theorem C17_resumed_from_any_state_rules_from_table : forall mult calls s k extra outs s' es k' extra' p evs,
  Inv (core s) -> run_calls_st mult s k extra calls = (outs, s', es, k', extra') ->
  In (SPacket p evs) es ->
  let d := cdb (core s') in
  extends (cdb (core s)) d /\
  (forall start_label ends sid parent, In (EvAdd start_label ends sid parent) evs ->
     add_ok T d start_label ends sid parent) /\
  (forall eqv start_label ends' sid parent, In (EvStore eqv start_label ends' sid parent) evs ->
     store_ok T False d start_label ends' sid parent).
Proof.
  intros mult calls s k extra outs s' es k' extra' p evs I H Hin d.
  destruct (run_calls_events_ok0 T mode F expand_verified inferral_strategies initial_strategies expansion_strats
              False [] (fun f : False => match f with end) (fun f : False => match f with end)
              mult calls s k extra outs s' es k' extra' I H (sev_in_pack_False es)) as (_ & X & O).
  rewrite Forall_forall in O. specialize (O _ Hin). simpl in O. rewrite Forall_forall in O.
  split; [exact X|]. split; intros; exact (O _ H0).
Qed.

(* labels: in the class database a resumed search ends with, equal classes share a label and different
   classes never do; and every label given before the calls is still the label of the same class after
   them (C04_labels / C04_labels_stable across interruptions) *)
Theorem C17_resumed_search_labels : forall mult calls s k extra outs s' es k' extra',
  Inv (core s) -> run_calls_st mult s k extra calls = (outs, s', es, k', extra') ->
  let lbl := label_of Z.eqb (fun c : Z => c) in
  (forall c1 c2 l, lbl (cdb (core s')) c1 = Some l -> lbl (cdb (core s')) c2 = Some l -> c1 = c2) /\
  (forall c l, lbl (cdb (core s)) c = Some l -> lbl (cdb (core s')) c = Some l).
Proof.
  intros mult calls s k extra outs s' es k' extra' I H lbl.
  destruct (run_calls_events_ok0 T mode F expand_verified inferral_strategies initial_strategies expansion_strats
              False [] (fun f : False => match f with end) (fun f : False => match f with end)
              mult calls s k extra outs s' es k' extra' I H (sev_in_pack_False es)) as ((W' & _) & X & _).
  destruct I as (W & _).
  split.
  - intros c1 c2 l. exact (label_injective Z.eqb Zeqb_spec (fun c : Z => c) (fun k : Z => k) id_inv (cdb (core s')) c1 c2 l W').
  - intros c l. exact (lbl_ext (cdb (core s)) (cdb (core s')) c l W W' X).
Qed.

Section Contracts.
(* the strategy contracts of C04 (Searcher/Contracts.v) for the strategies the queue hands out.  That every
   packet of a search from __init__ carries strategies of pack_of = inferral ++ initial ++ concat expansion is a
   theorem about the C16 queue model (Searcher/QueuePack.v search_in_pack), so - unlike C04's theorems, which take
   `packets_in pack ps` as a hypothesis on their packet list - nothing is asked of the packets here. *)
Notation pack := (pack_of inferral_strategies initial_strategies expansion_strats).
Hypothesis pe_contract : Contracts.pe_contract T pack. (* in-section *)
Hypothesis sym_contract : Contracts.sym_contract T. (* in-section *)

(* under the contracts, for every interrupted / resumed search from __init__: every set_empty the searcher issues
   tells the truth, the cached emptiness of every label is the class's own answer, and the stored key drops a
   child iff the rule is possibly_empty AND the class is truly empty (store_ok with C := True):
   C04_set_empty_consistent / C04_empty_cache_truthful / C04_stored_key across interruptions *)
Theorem C17_resumed_search_emptiness_truthful : forall mult ans start calls outs s' es k' extra' evs,
  run_calls_st mult (fst (init_sstate ans start)) 0 0 calls = (outs, s', es, k', extra') ->
  (evs = snd (init_sstate ans start) \/ exists p, In (SPacket p evs) es) ->
  let d := cdb (core s') in
  (forall l v, In (EvSetEmpty l v) evs -> exists c, label_of Z.eqb (fun c : Z => c) d c = Some l /\ oracle T c = v) /\
  (forall i c b, nth_error (classes d) i = Some c -> nth_error (empties d) i = Some (Some b) -> b = oracle T c) /\
  (forall eqv start_label ends' sid parent, In (EvStore eqv start_label ends' sid parent) evs ->
     store_ok T True d start_label ends' sid parent).
Proof.
  intros mult ans start calls outs s' es k' extra' evs H Hev d.
  assert (Forall (sev_in_pack True pack) es) as Hp.
  { eapply Forall_impl; [|exact (search_in_pack inferral_strategies initial_strategies expansion_strats T mode F
                                   expand_verified mult ans start calls outs s' es k' extra' H)].
    intros [p e0| |]; simpl; auto. }
  destruct (search_events_ok0 T mode F expand_verified inferral_strategies initial_strategies expansion_strats
              True pack (fun _ => pe_contract) (fun _ => sym_contract)
              mult ans start calls outs s' es k' extra' H Hp) as ((_ & E & _) & X).
  specialize (X evs Hev). rewrite Forall_forall in X.
  split; [|split].
  - intros l v Hin. destruct (X _ Hin) as (c & A & B). exists c. split; [exact A|exact (B Logic.I)].
  - intros i c b. exact (E Logic.I i c b).
  - intros eqv sl ends' sid parent Hin. exact (X _ Hin).
Qed.

(* COMPOSITION C17 -> C14 / C02 (clause "whatever specification it finally returns satisfies C02", the part that
   is a theorem).  Pruning databases (mode 0), table hypotheses as in C04_search_gives_add_hist (the two contracts,
   unary symmetries, twoway_faithful rule objects).  For EVERY script of auto_search calls from __init__ - any
   time limits, clock, answers, whatever the calls return or raise, i.e. for every interrupted and resumed
   search - the class database and the key sets of the two rule stores of the searcher are those of a RuleDB
   state reached by an add_hist history (every ruledb.add made under add_pre), and the emptiness cache is
   truthful: the hypothesis of C02_find_rule_total and of the C14 lookup theorems holds of every such state ... *)
Theorem C17_resumed_search_gives_add_hist : forall mult ans start calls outs s' es k' extra',
  (mode =? 0) = true -> Contracts.sym_unary T ->
  (forall sid0 c0 r, In r (rules_from_strategy T sid0 c0) -> AddHist.twoway_faithful T r) ->
  run_calls_st mult (fst (init_sstate ans start)) 0 0 calls = (outs, s', es, k', extra') ->
  exists a, AddHist.add_hist T a /\
    RuleDB.Model.b_cdb RuleDB.Model.dstore a = cdb (core s') /\
    RuleDB.Model.d_keys (RuleDB.Model.b_r RuleDB.Model.dstore a) = rstore (core s') /\
    RuleDB.Model.d_keys (RuleDB.Model.b_e RuleDB.Model.dstore a) = estore (core s') /\
    EmptyOK (fun k : Z => k) (oracle T) (cdb (core s')).
Proof.
  intros mult ans start calls outs s' es k' extra' Hm Hu Hf H.
  destruct (resumed_search_gives_add_hist T mode pack Hu Hf pe_contract sym_contract F expand_verified
              inferral_strategies initial_strategies expansion_strats mult ans start calls outs s' es k' extra' Hm H
              (search_in_pack inferral_strategies initial_strategies expansion_strats T mode F expand_verified
                 mult ans start calls outs s' es k' extra' H)) as (a & l & A & B).
  exists a. split; [exact (SearchHist.add_hist_l_hist T l a A)|exact B].
Qed.

(* ... hence SpecificationRuleExtractor._find_rule (C02's model, Spec/FindRule.v) is total on the rule database an
   interrupted / resumed search leaves: every key of rule_to_strategy and every key of eqv_rule_to_strategy (both
   ways) is turned back into a rule filed under exactly that key.  C02_search_find_rule_total for every script of
   calls (without its clause on the edges handed to the equivalence database).  Further table hypotheses as there:
   a strategy with a two-way entry can be an equivalence (cap), two-way entries are reversible. *)
Theorem C17_resumed_search_find_rule_total : forall (cap : Z -> bool) mult ans start calls outs s' es k' extra',
  (mode =? 0) = true -> Contracts.sym_unary T ->
  (forall sid0 c0 r, In r (rules_from_strategy T sid0 c0) -> AddHist.twoway_faithful T r) ->
  (forall sid c e, entry_of T sid c = Some e -> e_two_way e = true -> cap sid = true) ->
  (forall sid c e, entry_of T sid c = Some e -> e_two_way e = true -> e_reversible e = true) ->
  run_calls_st mult (fst (init_sstate ans start)) 0 0 calls = (outs, s', es, k', extra') ->
  let s := core s' in
  let d := cdb s in
  exists a, AddHist.add_hist T a /\ RuleDB.Model.b_cdb RuleDB.Model.dstore a = d /\
    RuleDB.Model.d_keys (RuleDB.Model.b_r RuleDB.Model.dstore a) = rstore s /\
    RuleDB.Model.d_keys (RuleDB.Model.b_e RuleDB.Model.dstore a) = estore s /\
  let fr := FindRule.find_rule T cap (FindRule.dict_lookup (RuleDB.Model.b_r RuleDB.Model.dstore a))
              (FindRule.dict_lookup (RuleDB.Model.b_e RuleDB.Model.dstore a)) d in
  (forall p cs0, In (p, cs0) (rstore s) ->
     exists f, fr p cs0 = (d, inl f) /\ FindRuleProofs.form_key T d f = Some (p, cs0)) /\
  (forall p cs0, In (p, cs0) (estore s) ->
     exists c, cs0 = [c] /\
     ((forall C, label_of Z.eqb (fun c : Z => c) d C = Some c -> oracle T C = false) ->
      exists f, fr p [c] = (d, inl f) /\ FindRuleProofs.form_key T d f = Some (p, [c])) /\
     ((forall C, label_of Z.eqb (fun c : Z => c) d C = Some p -> oracle T C = false) ->
      exists f', fr c [p] = (d, inl f') /\ FindRuleProofs.form_key T d f' = Some (c, [p]))).
Proof.
  intros cap mult ans start calls outs s' es k' extra' Hm Hu Hf Hcap Hrev H.
  exact (resumed_search_find_rule_total T mode pack Hu Hf pe_contract sym_contract F expand_verified
           inferral_strategies initial_strategies expansion_strats cap mult ans start calls outs s' es k' extra' Hm Hcap Hrev H
           (search_in_pack inferral_strategies initial_strategies expansion_strats T mode F expand_verified
              mult ans start calls outs s' es k' extra' H)).
Qed.
End Contracts.

(* THE SAME THREE with the hypotheses on the table replaced by booleans the extracted run_c17 evaluates on the table
   part of EVERY table-universe case (Searcher/SlicingRun.v hyps_c17, last element of the state-machine output; compared
   with the harness's Python predicates on every such case): bit 0 = (mode =? 0) && table_hyps_b, bit 1 =
   (mode =? 0) && find_rule_hyps_b with cap = "every strategy can be an equivalence" (true of the table universes'
   strategy class), bits 3-4 = pe_contractb, sym_contractb.  A case where the bit is false is a case the theorem says
   nothing about.  items_plainb (in table_hyps_b) is sufficient, not necessary, for twoway_faithful. *)
Notation pack0 := (pack_of inferral_strategies initial_strategies expansion_strats).

Theorem C17_resumed_search_emptiness_truthful_decided : forall mult ans start calls outs s' es k' extra' evs,
  Contracts.pe_contractb T pack0 && Contracts.sym_contractb T = true ->
  run_calls_st mult (fst (init_sstate ans start)) 0 0 calls = (outs, s', es, k', extra') ->
  (evs = snd (init_sstate ans start) \/ exists p, In (SPacket p evs) es) ->
  let d := cdb (core s') in
  (forall l v, In (EvSetEmpty l v) evs -> exists c, label_of Z.eqb (fun c : Z => c) d c = Some l /\ oracle T c = v) /\
  (forall i c b, nth_error (classes d) i = Some c -> nth_error (empties d) i = Some (Some b) -> b = oracle T c) /\
  (forall eqv start_label ends' sid parent, In (EvStore eqv start_label ends' sid parent) evs ->
     store_ok T True d start_label ends' sid parent).
Proof.
  intros mult ans start calls outs s' es k' extra' evs H.
  destruct (proj1 (Contracts.contractsb_spec T pack0) H) as [Hp Hs].
  exact (C17_resumed_search_emptiness_truthful Hp Hs mult ans start calls outs s' es k' extra' evs).
Qed.

Theorem C17_resumed_search_gives_add_hist_decided : forall mult ans start calls outs s' es k' extra',
  (mode =? 0) && Deciders.table_hyps_b T pack0 = true ->
  run_calls_st mult (fst (init_sstate ans start)) 0 0 calls = (outs, s', es, k', extra') ->
  exists a, AddHist.add_hist T a /\
    RuleDB.Model.b_cdb RuleDB.Model.dstore a = cdb (core s') /\
    RuleDB.Model.d_keys (RuleDB.Model.b_r RuleDB.Model.dstore a) = rstore (core s') /\
    RuleDB.Model.d_keys (RuleDB.Model.b_e RuleDB.Model.dstore a) = estore (core s') /\
    EmptyOK (fun k : Z => k) (oracle T) (cdb (core s')).
Proof.
  intros mult ans start calls outs s' es k' extra' H. apply andb_prop in H as [Hm H].
  destruct (Deciders.table_hyps_sound T pack0 H) as (A & B & C & D).
  exact (C17_resumed_search_gives_add_hist C D mult ans start calls outs s' es k' extra' Hm A B).
Qed.

Theorem C17_resumed_search_find_rule_total_decided : forall (cap : Z -> bool) mult ans start calls outs s' es k' extra',
  (mode =? 0) && Deciders.find_rule_hyps_b T pack0 cap = true ->
  run_calls_st mult (fst (init_sstate ans start)) 0 0 calls = (outs, s', es, k', extra') ->
  let s := core s' in
  let d := cdb s in
  exists a, AddHist.add_hist T a /\ RuleDB.Model.b_cdb RuleDB.Model.dstore a = d /\
    RuleDB.Model.d_keys (RuleDB.Model.b_r RuleDB.Model.dstore a) = rstore s /\
    RuleDB.Model.d_keys (RuleDB.Model.b_e RuleDB.Model.dstore a) = estore s /\
  let fr := FindRule.find_rule T cap (FindRule.dict_lookup (RuleDB.Model.b_r RuleDB.Model.dstore a))
              (FindRule.dict_lookup (RuleDB.Model.b_e RuleDB.Model.dstore a)) d in
  (forall p cs0, In (p, cs0) (rstore s) ->
     exists f, fr p cs0 = (d, inl f) /\ FindRuleProofs.form_key T d f = Some (p, cs0)) /\
  (forall p cs0, In (p, cs0) (estore s) ->
     exists c, cs0 = [c] /\
     ((forall C, label_of Z.eqb (fun c : Z => c) d C = Some c -> oracle T C = false) ->
      exists f, fr p [c] = (d, inl f) /\ FindRuleProofs.form_key T d f = Some (p, [c])) /\
     ((forall C, label_of Z.eqb (fun c : Z => c) d C = Some p -> oracle T C = false) ->
      exists f', fr c [p] = (d, inl f') /\ FindRuleProofs.form_key T d f' = Some (c, [p]))).
Proof.
  intros cap mult ans start calls outs s' es k' extra' H. apply andb_prop in H as [Hm H].
  destruct (Deciders.find_rule_hyps_sound T pack0 cap H) as (A & B & C & D & E & G).
  exact (C17_resumed_search_find_rule_total C D cap mult ans start calls outs s' es k' extra' Hm A B E G).
Qed.

End StateMachine.

(* (c) the derived cache of RuleDBBase (Searcher/Cache.v): for every rule store type R,
   observed equivalence database E, dictionary type D, every `recompute` (the body of the
   property pruned_dict) that is idempotent, two histories of add / has_specification /
   is_verified that differ only in where the cache was thrown away, run from databases
   that differ only in whether the cache is present, answer the same and end in databases
   that differ at most in the cache *)
Theorem C17_cache_transparent :
  forall (R E D K : Type) (r_add : R -> K -> R) (e_add : E -> K -> E) (recompute : R -> E -> D * E)
         (root_in : E -> D -> bool) (e_isv : E -> Z -> bool),
  (forall r e d e', recompute r e = (d, e') -> recompute r e' = (d, e')) ->
  forall ops1 ops2 x y,
  same R E D recompute x y ->
  filter (fun o => negb (is_drop K o)) ops1 = filter (fun o => negb (is_drop K o)) ops2 ->
  snd (exec R E D K r_add e_add recompute root_in e_isv x ops1) =
  snd (exec R E D K r_add e_add recompute root_in e_isv y ops2) /\
  same R E D recompute (fst (exec R E D K r_add e_add recompute root_in e_isv x ops1))
                       (fst (exec R E D K r_add e_add recompute root_in e_isv y ops2)).
Proof.
  intros R E D K r_add e_add recompute root_in e_isv Hidem. apply cache_transparent. exact Hidem.
Qed.

(* the hypothesis `same` is met by a database and its copy without the cache, at every
   point of every history that starts from an empty cache *)
Theorem C17_cache_invariant :
  forall (R E D K : Type) (r_add : R -> K -> R) (e_add : E -> K -> E) (recompute : R -> E -> D * E)
         (root_in : E -> D -> bool) (e_isv : E -> Z -> bool),
  (forall r e d e', recompute r e = (d, e') -> recompute r e' = (d, e')) ->
  forall ops r e,
  let x := fst (exec R E D K r_add e_add recompute root_in e_isv (mkDB R E D r e None) ops) in
  same R E D recompute x (drop R E D x).
Proof.
  intros R E D K r_add e_add recompute root_in e_isv Hidem ops r e x.
  apply same_drop. apply cache_ok_exec; [exact Hidem|exact I].
Qed.

Example C17_nonvacuous :
  (* perc = 50 (mult 2), limit 6: a slice of 1 packet, then one of 2*2+1 packets; interrupted
     after 6 packets; the next call resumes at packet 7 and finds the specification after 10 *)
  auto_search 40 2 (Some 6) 10 0 0 [2; 1; 3] [false; false; false] = (Exceeded 6, [1; 6], 3) /\
  auto_search 40 2 (Some 60) 10 6 3 [1; 1] [false; true] = (Found 10, [7; 10], 5).
Proof. split; vm_compute; reflexivity. Qed.

(* ------------------------------------------------------------------------
   NON-VACUITY (audit): the theorems APPLIED to the two calls of C17_nonvacuous (a call interrupted by
   its time limit after 6 packets, and the resumed call that starts at packet count 6 with clock offset 3
   and finds the specification after 10), and to a call that exhausts the queue (9 packets, four
   has_specification() calls, all answering False). *)
Require Import Lia.
Lemma ds_nonneg_1 : Forall (fun d => 0 <= d) [2; 1; 3]. Proof. repeat constructor; lia. Qed.
Lemma ds_nonneg_2 : Forall (fun d => 0 <= d) [1; 1]. Proof. repeat constructor; lia. Qed.
Lemma ds_nonneg_3 : Forall (fun d => 0 <= d) [1; 2; 1; 1]. Proof. repeat constructor; lia. Qed.
Lemma run_interrupted : auto_search 40 2 (Some 6) 10 0 0 [2; 1; 3] [false; false; false] = (Exceeded 6, [1; 6], 3).
Proof. vm_compute; reflexivity. Qed.
Lemma run_resumed : auto_search 40 2 (Some 60) 10 6 3 [1; 1] [false; true] = (Found 10, [7; 10], 5).
Proof. vm_compute; reflexivity. Qed.
Lemma run_exhausted :
  auto_search 9 2 None 10 0 0 [1; 2; 1; 1] [false; false; false; false; false] = (NotFound 9, [1; 4; 9; 9], 5).
Proof. vm_compute; reflexivity. Qed.

(* covers C17_resume_from, the three informative outcomes (the OutOfFuel case of the theorem says nothing) *)
Example C17_resume_from_nonvacuous :
  ((forall x, In x [1; 6] -> 0 <= x <= 40) /\
   last [1; 6] 0 = 6 /\ forall j, (j < length [1; 6])%nat -> nth j [false; false; false] false = false) /\
  ((forall x, In x [7; 10] -> 6 <= x <= 40) /\
   last [7; 10] 6 = 10 /\ nth (length [7; 10] - 1) [false; true] false = true /\
   forall j, (j < length [7; 10] - 1)%nat -> nth j [false; true] false = false) /\
  ((forall x, In x [1; 4; 9; 9] -> 0 <= x <= 9) /\
   last [1; 4; 9; 9] 0 = 9 /\
   forall j, (j < length [1; 4; 9; 9])%nat -> nth j [false; false; false; false; false] false = false).
Proof.
  split; [|split].
  - apply (C17_resume_from 40 2 (Some 6) 10 0 0 [2; 1; 3] [false; false; false] (Exceeded 6) [1; 6] 3
             ltac:(lia) ltac:(lia) ds_nonneg_1 run_interrupted).
  - apply (C17_resume_from 40 2 (Some 60) 10 6 3 [1; 1] [false; true] (Found 10) [7; 10] 5
             ltac:(lia) ltac:(lia) ds_nonneg_2 run_resumed).
  - apply (C17_resume_from 9 2 None 10 0 0 [1; 2; 1; 1] [false; false; false; false; false] (NotFound 9)
             [1; 4; 9; 9] 5 ltac:(lia) ltac:(lia) ds_nonneg_3 run_exhausted).
Qed.
(* with too little fuel the model answers OutOfFuel and C17_resume_from's conclusion is `True`: the
   theorem is informative only for runs that end (there is no theorem that enough fuel exists) *)
Example C17_resume_from_out_of_fuel :
  auto_search 9 2 None 2 0 0 [1; 2; 1; 1] [false; false; false; false; false] = (OutOfFuel, [1; 4], 3).
Proof. vm_compute; reflexivity. Qed.

Example C17_notfound_only_when_exhausted_nonvacuous : 9 = 9.
Proof.
  apply (C17_notfound_only_when_exhausted 9 2 None 10 0 0 [1; 2; 1; 1] [false; false; false; false; false] 9
           [1; 4; 9; 9] 5 ltac:(lia) ltac:(lia) ds_nonneg_3 run_exhausted).
Qed.
(* the conclusion is about the queue: with a larger queue the same script is NOT answered NotFound *)
Example C17_notfound_near_miss :
  fst (fst (auto_search 40 2 None 4 0 0 [1; 2; 1; 1] [false; false; false; false; false])) = OutOfFuel /\
  fst (fst (auto_search 9 2 None 10 3 1 [1; 2; 1; 1] [false; false; false; false; false])) = NotFound 9.
Proof. split; vm_compute; reflexivity. Qed.

Example C17_exceeded_only_past_limit_nonvacuous :
  exists m, Some 6 = Some m /\ m < 6 + 3 - (0 + 0).
Proof.
  apply (C17_exceeded_only_past_limit 40 2 (Some 6) 10 0 0 [2; 1; 3] [false; false; false] 6 [1; 6] 3
           run_interrupted).
Qed.
(* ... and with a limit that is not passed (or none) the same script is not interrupted *)
Example C17_exceeded_near_miss :
  fst (fst (auto_search 40 2 (Some 20) 3 0 0 [2; 1; 3] [false; false; false])) = OutOfFuel /\
  fst (fst (auto_search 40 2 None 3 0 0 [2; 1; 3] [false; false; false])) = OutOfFuel /\
  auto_search 40 2 (Some 9) 3 0 0 [2; 1; 3] [false; false; false] = (Exceeded 9, [1; 6; 9], 6).
Proof. split; [|split]; vm_compute; reflexivity. Qed.
(* a table with an inferral strategy, an expansion strategy, a verification strategy: the
   machine run under a clock with an interruption equals the uninterrupted iteration, and
   hands out real packets *)
Definition ex17_table : table :=
  mkT [0; 0; 0; 0]
      [ mkS 2 false false false false [(3, mkE [] false false [])] [];
        mkS 0 false true false true [(0, mkE [1; 2] false true [0; 1]); (1, mkE [3] false true [1]);
                                      (2, mkE [1; 3] false true [1; 0])] [];
        mkS 0 false true false true [(0, mkE [2] true true [0])] [] ]
      [0] [].

Example C17_nonvacuous_machine :
  let run := run_calls_st ex17_table 0 20 false [2] [] [[1]] 2 in
  let s0 := fst (init_sstate ex17_table 0 20 [2] [] [[1]] (repeat false 40) 0) in
  let '(outs, s', es, k', x') :=
    run s0 0 0 [(Some 1, [2; 1], [false; false]); (None, repeat 0 7, repeat false 7)] in
  map (fun o => fst (fst o)) outs = [Ret (Exceeded 1); Ret (NotFound 7)] /\
  map is_packet es = [true; true; true; true; true; true; true; false] /\
  iterate ex17_table 0 20 false [2] [] [[1]] (length es) s0 = (s', es) /\
  classes (cdb (core s')) = [0; 2; 1; 3] /\ stat (core s') = Running.
Proof. vm_compute. repeat split; reflexivity. Qed.


(* ------------------------------------------------------------------------
   NON-VACUITY of the fuel theorems, the refinement and the C04 corollaries: all applied to the machine of
   C17_nonvacuous_machine (a call interrupted after 1 packet, then one that exhausts the queue after 7). *)

(* covers C17_auto_search_fuel: 9 packets available from k = 0: fuel 10 suffices whatever the script ... *)
Example C17_auto_search_fuel_nonvacuous :
  fst (fst (auto_search 9 2 None 10 0 0 [1; 2; 1; 1] [false; false; false; false; false])) <> OutOfFuel.
Proof. apply C17_auto_search_fuel; [lia|exact ds_nonneg_3|vm_compute; lia]. Qed.
(* ... and the bound is tight: with one packet per slice, n_avail - k turns go on and one more ends the call *)
Example C17_auto_search_fuel_tight :
  auto_search 3 1 None 3 0 0 [] [] = (OutOfFuel, [1; 2; 3], 0) /\
  auto_search 3 1 None 4 0 0 [] [] = (NotFound 3, [1; 2; 3; 3], 0).
Proof. split; vm_compute; reflexivity. Qed.

(* (notations, not definitions: the instances below are then syntactically the theorems' statements) *)
Notation ex17_s0 := (fst (init_sstate ex17_table 0 20 [2] [] [[1]] (repeat false 40) 0)).
Definition ex17_calls : list call := [(Some 1, [2; 1], repeat false 6); (None, repeat 0 7, repeat false 7)].
Notation ex17_run := (run_calls_st ex17_table 0 20 false [2] [] [[1]] 2 ex17_s0 0 0 ex17_calls).
Definition ex17_outs := let '(outs, _, _, _, _) := ex17_run in outs.
Definition ex17_final : sstate := let '(_, s', _, _, _) := ex17_run in s'.
Definition ex17_events : list sevent := let '(_, _, es, _, _) := ex17_run in es.
Lemma ex17_run_eq : exists k' x', ex17_run = (ex17_outs, ex17_final, ex17_events, k', x').
Proof.
  unfold ex17_outs, ex17_final, ex17_events.
  destruct (run_calls_st _ _ _ _ _ _ _ _ _ _ _ _) as [[[[o s] e] k] x]. eauto.
Qed.
Lemma ex17_s0_inv : Inv ex17_table False Gtriv (core ex17_s0).
Proof. exact (proj1 (C17_reachable ex17_table 0 20 false [2] [] [[1]] (repeat false 40) 0 0)). Qed.

(* the queue of this machine hands out 7 packets and is then dry: C17_packets_bounded_when_dry applied *)
Lemma ex17_bounded : packets_bounded ex17_table 0 20 false [2] [] [[1]] ex17_s0 7.
Proof.
  pose proof (C17_packets_bounded_when_dry ex17_table 0 20 false [2] [] [[1]] ex17_s0 8
                (fst (iterate ex17_table 0 20 false [2] [] [[1]] 8 ex17_s0))
                (snd (iterate ex17_table 0 20 false [2] [] [[1]] 8 ex17_s0))) as H.
  assert (length (filter is_packet (snd (iterate ex17_table 0 20 false [2] [] [[1]] 8 ex17_s0))) = 7%nat) as E
    by (vm_compute; reflexivity).
  rewrite E in H. apply H.
  - destruct (iterate ex17_table 0 20 false [2] [] [[1]] 8 ex17_s0); reflexivity.
  - vm_compute; reflexivity.
Qed.

(* covers C17_run_calls_fuel (and makes C17_packet_count's hypothesis a theorem for this script): every call
   has at least 6 = N - 1 answers *)
Example C17_run_calls_fuel_nonvacuous :
  Forall (fun o => fst (fst o) <> Ret OutOfFuel) ex17_outs /\
  map (fun o => fst (fst o)) ex17_outs = [Ret (Exceeded 1); Ret (NotFound 7)].
Proof.
  split; [|vm_compute; reflexivity].
  destruct ex17_run_eq as (k' & x' & E).
  assert (Forall (fun c : call => (7 <= S (length (snd c)))%nat) ex17_calls) as Hc
    by (repeat constructor; simpl; lia).
  exact (C17_run_calls_fuel ex17_table 0 20 false [2] [] [[1]] 2 ex17_calls 7 _ 0 0 ex17_outs ex17_final
           ex17_events k' x' ex17_s0_inv ex17_bounded Hc E).
Qed.
(* a script with too few answers for the bound (2 answers, fuel 4, but the call makes 8 turns) does run out *)
Example C17_run_calls_fuel_near_miss :
  let '(outs, _, _, _, _) := run_calls_st ex17_table 0 20 false [2] [] [[1]] 2 ex17_s0 0 0 [(None, [], [false; false])] in
  map (fun o => fst (fst o)) outs = [Ret OutOfFuel].
Proof. vm_compute; reflexivity. Qed.

(* covers C17_control_flow_is_state_machine / C17_state_machine_control_flow: the unlimited call on this machine
   ends NotFound after 7 packets and a dry turn; n_avail = 7 describes its queue; the control-flow model run with
   n_avail = 7 returns the same outcome, decision points and clock *)
Example C17_control_flow_is_state_machine_nonvacuous :
  auto_search 7 2 None 10 0 0 (repeat 0 7) (repeat false 9) = (NotFound 7, [1; 2; 3; 4; 5; 6; 7; 7], 0).
Proof.
  pose (r := auto_search_st ex17_table 0 20 false [2] [] [[1]] 2 None 10 ex17_s0 0 0 (repeat 0 7) (repeat false 9)).
  apply (C17_control_flow_is_state_machine ex17_table 0 20 false [2] [] [[1]] 2 None 7 10 ex17_s0 0 0 (repeat 0 7)
           (repeat false 9) (NotFound 7) [1; 2; 3; 4; 5; 6; 7; 7] 0 (snd (fst r)) (snd r)).
  - lia.
  - repeat constructor; lia.
  - vm_compute; reflexivity.
  - vm_compute; reflexivity.
Qed.
Example C17_state_machine_control_flow_nonvacuous :
  (forall x, In x [1; 2; 3; 4; 5; 6; 7; 7] -> 0 <= x <= 7) /\ 7 = 0 + 7.
Proof.
  pose (r := auto_search_st ex17_table 0 20 false [2] [] [[1]] 2 None 10 ex17_s0 0 0 (repeat 0 7) (repeat false 9)).
  assert (r = (Ret (NotFound 7), [1; 2; 3; 4; 5; 6; 7; 7], 0, snd (fst r), snd r)) as E by (vm_compute; reflexivity).
  pose proof (C17_state_machine_control_flow ex17_table 0 20 false [2] [] [[1]] 2 None 10 ex17_s0 0 0 (repeat 0 7)
                (repeat false 9) (NotFound 7) [1; 2; 3; 4; 5; 6; 7; 7] 0 (snd (fst r)) (snd r)
                ltac:(lia) ltac:(repeat constructor; lia) E) as (A & _ & _ & B & _).
  split; [exact A|]. replace (Z.of_nat (length (filter is_packet (snd r)))) with 7 in B by (vm_compute; reflexivity).
  exact B.
Qed.

(* covers C17_resumed_search_rules_from_table: the first packet of the interrupted-and-resumed run records
   ruledb.add(0, (1,), strategy 2 on class 0) and stores the equivalence key (0, (1,)); both are justified by
   the table w.r.t. the class database the two calls leave *)
Definition ex17_first_packet_events : list event :=
  [EvSetEmpty 1 false; EvQAdd 1; EvAdd 0 [1] 2 0; EvEdge true 0 1; EvStore true 0 [1] 2 0;
   EvQNotInf 0; EvQNotInf 1; EvQNotInf 0].
Example C17_resumed_search_rules_from_table_nonvacuous :
  add_ok ex17_table (cdb (core ex17_final)) 0 [1] 2 0 /\
  store_ok ex17_table False (cdb (core ex17_final)) 0 [1] 2 0.
Proof.
  destruct ex17_run_eq as (k' & x' & E).
  destruct (C17_resumed_search_rules_from_table ex17_table 0 20 false [2] [] [[1]] 2 (repeat false 40) 0 ex17_calls
              ex17_outs ex17_final ex17_events k' x' ex17_first_packet_events E) as (A & B).
  - right. exists (mkP 0 [2] true). vm_compute. left. reflexivity.
  - split; [apply A|apply (B true)]; vm_compute; auto 10.
Qed.
(* ... the events of __init__ are covered too (here: classqueue.add(0) only - no rule) *)
Example C17_resumed_search_init_events : snd (init_sstate ex17_table 0 20 [2] [] [[1]] (repeat false 40) 0) = [EvQAdd 0].
Proof. vm_compute; reflexivity. Qed.

(* covers C17_resumed_from_any_state_rules_from_table and C17_resumed_search_labels, from the state the FIRST call
   left (one packet processed, interrupted): the second call alone, started there *)
Notation ex17_s1 := (fst (iterate ex17_table 0 20 false [2] [] [[1]] 1 ex17_s0)).
Notation ex17_run2 := (run_calls_st ex17_table 0 20 false [2] [] [[1]] 2 ex17_s1 1 2 [(None, repeat 0 7, repeat false 7)]).
Definition ex17_final2 : sstate := let '(_, s', _, _, _) := ex17_run2 in s'.
Definition ex17_events2 : list sevent := let '(_, _, es, _, _) := ex17_run2 in es.
Lemma ex17_run2_eq : exists outs k' x', ex17_run2 = (outs, ex17_final2, ex17_events2, k', x').
Proof.
  unfold ex17_final2, ex17_events2.
  destruct (run_calls_st _ _ _ _ _ _ _ _ _ _ _ _) as [[[[o s] e] k] x]. eauto.
Qed.
Lemma ex17_s1_inv : Inv ex17_table False Gtriv (core ex17_s1).
Proof. exact (proj2 (C17_reachable ex17_table 0 20 false [2] [] [[1]] (repeat false 40) 0 1)). Qed.
Example C17_resumed_from_any_state_nonvacuous :
  add_ok ex17_table (cdb (core ex17_final2)) 0 [2; 1] 1 0 /\
  (forall c, label_of Z.eqb (fun c : Z => c) (cdb (core ex17_final2)) c = Some 1 -> c = 2) /\
  label_of Z.eqb (fun c : Z => c) (cdb (core ex17_final2)) 2 = Some 1.
Proof.
  destruct ex17_run2_eq as (outs & k' & x' & E).
  pose proof (C17_resumed_search_labels ex17_table 0 20 false [2] [] [[1]] 2 _ _ 1 2 outs ex17_final2 ex17_events2 k' x'
                ex17_s1_inv E) as (L1 & L2).
  assert (label_of Z.eqb (fun c : Z => c) (cdb (core ex17_final2)) 2 = Some 1) as H2
    by (apply L2; vm_compute; reflexivity).
  split; [|split; [intros c Hc; exact (L1 c 2 1 Hc H2)|exact H2]].
  destruct (C17_resumed_from_any_state_rules_from_table ex17_table 0 20 false [2] [] [[1]] 2 _ _ 1 2 outs ex17_final2
              ex17_events2 k' x' (mkP 0 [1] false)
              [EvSetEmpty 2 false; EvQAdd 2; EvSetEmpty 1 false; EvQAdd 1; EvAdd 0 [2; 1] 1 0; EvStore false 0 [1; 2] 1 0]
              ex17_s1_inv E) as (_ & A & _).
  - vm_compute. left. reflexivity.
  - apply A. vm_compute. auto 10.
Qed.

(* covers C17_resumed_search_emptiness_truthful: ex17_table honours both contracts (no class is empty, no symmetry) *)
Lemma ex17_oracle_false : forall k, oracle ex17_table k = false.
Proof.
  intros k. unfold oracle. destruct (k <? 0); [reflexivity|].
  destruct (Z.to_nat k) as [|[|[|[|[|n]]]]]; reflexivity.
Qed.
Lemma ex17_pe_contract : Contracts.pe_contract ex17_table (pack_of [2] [] [[1]]).
Proof. intros sid c e _ _ _ k _. apply ex17_oracle_false. Qed.
Lemma ex17_sym_contract : Contracts.sym_contract ex17_table.
Proof. intros sid c r c0 rest H. destruct H. Qed.
Example C17_resumed_search_emptiness_truthful_nonvacuous :
  (exists c, label_of Z.eqb (fun c : Z => c) (cdb (core ex17_final)) c = Some 1 /\ oracle ex17_table c = false) /\
  store_ok ex17_table True (cdb (core ex17_final)) 0 [1] 2 0.
Proof.
  destruct ex17_run_eq as (k' & x' & E).
  destruct (C17_resumed_search_emptiness_truthful ex17_table 0 20 false [2] [] [[1]] ex17_pe_contract ex17_sym_contract
              2 (repeat false 40) 0 ex17_calls ex17_outs ex17_final ex17_events k' x' ex17_first_packet_events E)
    as (A & _ & B).
  - right. exists (mkP 0 [2] true). vm_compute. left. reflexivity.
  - split; [apply (A 1 false)|apply (B true)]; vm_compute; auto 10.
Qed.

(* covers C17_resumed_search_gives_add_hist / C17_resumed_search_find_rule_total: ex17_table has no symmetry and no
   factory (so sym_unary and twoway_faithful hold: SearchHist.items_plain_faithful), its two-way entries are
   reversible and every strategy may be an equivalence; the interrupted-and-resumed run ends with the keys
   (0, (1, 2)) in rule_to_strategy and (0, (1,)), ... in eqv_rule_to_strategy, and _find_rule finds them again *)
Lemma ex17_sym_unary : Contracts.sym_unary ex17_table.
Proof. intros sid c r cs H. destruct H. Qed.
Lemma ex17_faithful : forall sid0 c0 r, In r (rules_from_strategy ex17_table sid0 c0) -> AddHist.twoway_faithful ex17_table r.
Proof. apply SearchHist.items_plain_faithful. reflexivity. Qed.
Lemma ex17_reversible : forall sid c e, entry_of ex17_table sid c = Some e -> e_two_way e = true -> e_reversible e = true.
Proof.
  intros sid c e H Htw. unfold entry_of, strat_of in H. destruct (sid <? 0); [discriminate|].
  destruct (Z.to_nat sid) as [|[|[|n]]]; simpl in H; try (destruct n; discriminate);
    repeat match type of H with context [if ?b then _ else _] => destruct b end; try discriminate;
    injection H as <-; simpl in Htw |- *; congruence.
Qed.
Example C17_resumed_search_find_rule_total_nonvacuous :
  In (0, [1; 2]) (rstore (core ex17_final)) /\ In (0, [1]) (estore (core ex17_final)) /\
  exists a, AddHist.add_hist ex17_table a /\
    RuleDB.Model.b_cdb RuleDB.Model.dstore a = cdb (core ex17_final) /\
    (exists f, FindRule.find_rule ex17_table (fun _ => true) (FindRule.dict_lookup (RuleDB.Model.b_r RuleDB.Model.dstore a))
                 (FindRule.dict_lookup (RuleDB.Model.b_e RuleDB.Model.dstore a)) (cdb (core ex17_final)) 0 [1; 2]
               = (cdb (core ex17_final), inl f) /\ FindRuleProofs.form_key ex17_table (cdb (core ex17_final)) f = Some (0, [1; 2])).
Proof.
  assert (In (0, [1; 2]) (rstore (core ex17_final))) as H1 by (vm_compute; left; reflexivity).
  assert (In (0, [1]) (estore (core ex17_final))) as H2 by (vm_compute; left; reflexivity).
  split; [exact H1|split; [exact H2|]].
  destruct ex17_run_eq as (k' & x' & E).
  destruct (C17_resumed_search_find_rule_total ex17_table 0 20 false [2] [] [[1]] ex17_pe_contract ex17_sym_contract
              (fun _ => true) 2 (repeat false 40) 0 ex17_calls ex17_outs ex17_final ex17_events k' x'
              eq_refl ex17_sym_unary ex17_faithful (fun _ _ _ _ _ => eq_refl) ex17_reversible E)
    as (a & A & B & _ & _ & R1 & _).
  exists a. split; [exact A|split; [exact B|exact (R1 0 [1; 2] H1)]].
Qed.

Print Assumptions C17_resume_from.
Print Assumptions C17_notfound_only_when_exhausted.
Print Assumptions C17_exceeded_only_past_limit.
Print Assumptions C17_reachable.
Print Assumptions C17_slicing_independent.
Print Assumptions C17_packet_count.
Print Assumptions C17_dry_is_stable.
Print Assumptions C17_notfound_means_dry.
Print Assumptions C17_no_packet_lost.
Print Assumptions C17_queue_total.
Print Assumptions C17_resume_composes.
Print Assumptions C17_calls_compose.
Print Assumptions C17_state_is_members.
Print Assumptions C17_pickle_roundtrip.
Print Assumptions C17_pickle_commutes.
Print Assumptions C17_cache_transparent.
Print Assumptions C17_cache_invariant.
Print Assumptions C17_auto_search_fuel.
Print Assumptions C17_run_calls_fuel.
Print Assumptions C17_packets_bounded_when_dry.
Print Assumptions C17_control_flow_is_state_machine.
Print Assumptions C17_state_machine_control_flow.
Print Assumptions C17_resumed_search_rules_from_table.
Print Assumptions C17_resumed_from_any_state_rules_from_table.
Print Assumptions C17_resumed_search_labels.
Print Assumptions C17_resumed_search_emptiness_truthful.
Print Assumptions C17_resumed_search_gives_add_hist.
Print Assumptions C17_resumed_search_find_rule_total.
Print Assumptions C17_resumed_search_emptiness_truthful_decided.
Print Assumptions C17_resumed_search_gives_add_hist_decided.
Print Assumptions C17_resumed_search_find_rule_total_decided.
