(* C17 — a search pickled or interrupted at any point resumes faithfully.
   Statements only (proofs: Searcher/Slicing.v).

   What a Coq theorem can carry here is the CONTROL FLOW of
   _auto_search_rules / _expand_classes_for under an arbitrary clock: where the
   search can be interrupted, what it answers, and where the next call picks
   up.  That the searcher's state after k packets is the same object whether
   or not it was pickled in between (shared lists inside ClassDB, the
   ruledb -> searcher back-reference, ...) is behaviour of the Python runtime;
   it is covered by the correspondence only (pickle at every k, equality,
   identical event traces afterwards) — partial by nature, as DESIGN.md says.

   `auto_search n_avail mult maxt fuel k extra ds answers = (o, calls, extra')`:
   a call of _auto_search_rules on a searcher that has processed k packets, the
   queue running dry at n_avail packets, the j-th has_specification() call
   advancing the clock by ds_j >= 0 and answering answers_j.                  *)
From Coq Require Import ZArith List Bool.
From CSS Require Import Base.PyList ClassDB.Model Searcher.Model Searcher.Inv Searcher.Slicing Searcher.Step
  Searcher.StepProofs Searcher.Cache Searcher.Pickle.
From CSS Require Queue.Model.
Import ListNotations.
Open Scope Z_scope.

(* decisions are only taken BETWEEN packets, at packet counts from where the
   previous call stopped up to the exhaustion point; a specification is
   reported only on a true answer and at the first one; after an interruption
   the next call continues from the packet count reached (k of the outcome) *)
Theorem C17_resume_from : forall n_avail mult maxt fuel k extra ds answers o calls extra',
  0 <= mult -> k <= n_avail -> Forall (fun d => 0 <= d) ds ->
  auto_search n_avail mult maxt fuel k extra ds answers = (o, calls, extra') ->
  (forall x, In x calls -> k <= x <= n_avail) /\
  match o with
  | Found kf => last calls k = kf /\ nth (length calls - 1) answers false = true /\
                forall j, (j < length calls - 1)%nat -> nth j answers false = false
  | Exceeded kf | NotFound kf =>
      last calls k = kf /\ forall j, (j < length calls)%nat -> nth j answers false = false
  | OutOfFuel => True
  end.
Proof.
  intros n_avail mult maxt fuel k extra ds answers o calls extra' Hm.
  exact (resume_from n_avail mult maxt Hm fuel k extra ds answers o calls extra').
Qed.

(* SpecificationNotFound is raised only when the queue has run dry *)
Theorem C17_notfound_only_when_exhausted :
  forall n_avail mult maxt fuel k extra ds answers kf calls extra',
  0 <= mult -> k <= n_avail -> Forall (fun d => 0 <= d) ds ->
  auto_search n_avail mult maxt fuel k extra ds answers = (NotFound kf, calls, extra') ->
  kf = n_avail.
Proof.
  intros n_avail mult maxt fuel k extra ds answers kf calls extra' Hm Hk Hds H.
  unfold auto_search in H.
  exact (notfound_exhausted n_avail mult maxt Hm fuel k extra (k + extra) 0 ds answers [] kf calls extra'
           (Z.le_refl 0) Hk Hds H).
Qed.

(* ExceededMaxtimeError is raised only when a limit is set and the clock passed it *)
Theorem C17_exceeded_only_past_limit :
  forall n_avail mult maxt fuel k extra ds answers kf calls extra',
  auto_search n_avail mult maxt fuel k extra ds answers = (Exceeded kf, calls, extra') ->
  exists m, maxt = Some m /\ m < kf + extra' - (k + extra).
Proof.
  intros n_avail mult maxt fuel k extra ds answers kf calls extra' H. unfold auto_search in H.
  exact (exceeded_really n_avail mult maxt fuel k extra (k + extra) 0 ds answers [] kf calls extra' H).
Qed.


(* ======================================================================
   The state transformation (Searcher/Step.v): the searcher as a packet-level
   state machine built from the C04 model (expansion of one packet), the C16
   model (the queue) and the C15 model (the class database).

     step : sstate -> sstate * sevent     one next(queue) + is_verified gate + _expand
     iterate n s                          n turns, with their events
     run_calls_st mult s k extra calls    any script of successive auto_search calls
         (per call: max_expansion_time, clock advances and answers of has_specification)
         transcribed from _auto_search_rules / _expand_classes_for with the local
         last_label cache and the clock of Slicing.v
   Quantified over: every strategy table T, database mode, model fuel F,
   expand_verified, pack (inferral / initial / expansion strategy ids), perc
   (mult), script of calls, and every state s whose core satisfies the C04
   invariant `Inv T False` (every state reachable from __init__ does:
   C17_reachable).  The answers of ruledb.is_verified are part of s (an
   environment stream), those of has_specification part of the script: the
   theorems hold GIVEN the same answers, as they must (for the pruning
   databases has_specification() marks labels verified).
   ====================================================================== *)
Section StateMachine.
Variable T : table.
Variable mode : Z.
Variable F : nat.
Variable expand_verified : bool.
Variables inferral_strategies initial_strategies : list Z.
Variable expansion_strats : list (list Z).

Notation step := (step T mode F expand_verified inferral_strategies initial_strategies expansion_strats).
Notation iterate := (iterate T mode F expand_verified inferral_strategies initial_strategies expansion_strats).
Notation run_calls_st := (run_calls_st T mode F expand_verified inferral_strategies initial_strategies expansion_strats).
Notation init_sstate := (init_sstate T mode F inferral_strategies initial_strategies expansion_strats).
Notation process := (process T mode F expand_verified).
Notation qnext := (Queue.Model.next inferral_strategies initial_strategies expansion_strats).
Notation q_apply := (q_apply inferral_strategies initial_strategies).
Notation Inv := (Inv T False Gtriv).

(* the searcher after __init__, and after any number of packets, satisfies the invariant *)
Theorem C17_reachable : forall ans start n,
  Inv (core (fst (init_sstate ans start))) /\
  Inv (core (fst (iterate n (fst (init_sstate ans start))))).
Proof.
  intros ans start n. split; [apply init_sstate_inv|].
  destruct (iterate n (fst (init_sstate ans start))) as [s' es] eqn:E.
  eapply iterate_inv; [apply init_sstate_inv|exact E].
Qed.

(* (a) whatever the clock script, the time limits, perc and the answers of
   has_specification are, and whatever each call returns or raises, the state
   after the calls is `iterate step n` of the state before, n = the number of
   next(queue) calls made (= length of the event list), and the events of the
   calls, concatenated, are the events of that uninterrupted iteration *)
Theorem C17_slicing_independent : forall mult calls s k extra outs s' es k' extra',
  Inv (core s) ->
  run_calls_st mult s k extra calls = (outs, s', es, k', extra') ->
  iterate (length es) s = (s', es).
Proof. intros mult calls s k extra outs s' es k' extra'. apply run_calls_iterate. Qed.

(* ... and n is the number of packets processed plus the turns that found the queue dry
   (or the search dead): the packet counter k of the clock advances by exactly the number of
   packets among the events (the fuel of a call is only exhausted by a script with fewer
   has_specification answers than calls made; the harness never sends one) ... *)
Theorem C17_packet_count : forall mult calls s k extra outs s' es k' extra',
  Inv (core s) ->
  run_calls_st mult s k extra calls = (outs, s', es, k', extra') ->
  Forall (fun o => fst (fst o) <> Ret OutOfFuel) outs ->
  k' = k + Z.of_nat (length (filter is_packet es)).
Proof. intros mult calls s k extra outs s' es k' extra'. apply run_calls_count. Qed.

(* ... and a turn that finds the queue dry only settles the queue's own bookkeeping once:
   from then on every turn finds it dry and changes nothing *)
Theorem C17_dry_is_stable : forall s s1, step s = (s1, SDry) -> step s1 = (s1, SDry).
Proof. intros s s1. apply dry_is_stable. Qed.

(* SpecificationNotFound (of the state machine's auto_search) is raised only right after a
   next(queue) that found the queue dry: the state-level counterpart of
   C17_notfound_only_when_exhausted *)
Theorem C17_notfound_means_dry : forall mult maxt fuel s k extra ds hs kf calls' extra' s' es,
  auto_search_st T mode F expand_verified inferral_strategies initial_strategies expansion_strats
    mult maxt fuel s k extra ds hs = (Ret (NotFound kf), calls', extra', s', es) ->
  exists pre, es = pre ++ [SDry].
Proof.
  intros mult maxt fuel s k extra ds hs kf calls' extra' s' es H. unfold auto_search_st in H.
  eapply auto_st_notfound; eauto.
Qed.

(* ... in particular an interruption never falls inside a packet: at every point i of the
   sliced run, if the queue hands out a packet there, the i-th event IS that packet
   together with its complete processing, the next state has the queue calls of that
   processing applied, and nothing else happens in between *)
Theorem C17_no_packet_lost : forall mult calls s k extra outs s' es k' extra',
  Inv (core s) ->
  run_calls_st mult s k extra calls = (outs, s', es, k', extra') ->
  forall i si esi qp q1, (i < length es)%nat -> iterate i s = (si, esi) ->
    running (core si) = true -> qnext (que si) = (Queue.Model.RPacket qp, q1) ->
    let p := to_packet qp in
    let '(c1, _, evs) := process (core si) None p in
    nth i es SDead = SPacket p evs /\
    fst (iterate (S i) s) = mkSS c1 (fold_left q_apply evs q1).
Proof.
  intros mult calls s k extra outs s' es k' extra'. apply no_packet_lost.
Qed.

(* the queue never fails: a turn hands out a packet or finds the queue dry *)
Theorem C17_queue_total : forall q,
  match fst (qnext q) with Queue.Model.RPacket _ | Queue.Model.RStop => True | _ => False end.
Proof. apply qnext_total. Qed.

(* resumption composes *)
Theorem C17_resume_composes : forall k1 k2 s,
  iterate (k1 + k2) s =
  let '(s1, e1) := iterate k1 s in let '(s2, e2) := iterate k2 s1 in (s2, e1 ++ e2).
Proof. intros k1 k2 s. apply iterate_add. Qed.

(* ... also at the level of calls: a script split anywhere *)
Theorem C17_calls_compose : forall mult cs1 cs2 s k extra,
  run_calls_st mult s k extra (cs1 ++ cs2) =
  let '(o1, s1, e1, k1, x1) := run_calls_st mult s k extra cs1 in
  let '(o2, s2, e2, k2, x2) := run_calls_st mult s1 k1 x1 cs2 in (o1 ++ o2, s2, e1 ++ e2, k2, x2).
Proof. intros mult cs1 cs2 s k extra. apply run_calls_app. Qed.

(* (b) step reads and writes only the members (class database, queue, the rule stores
   and _already_empty of the rule database, tried_to_verify, symmetry_expanded,
   inferral_expanded) and the environment (pending is_verified answers, alive/dead):
   it gives the same result on any two states with the same members, and its result
   is nothing but members.  True BY CONSTRUCTION of `step` (it starts and ends with
   `norm`); what makes it meaningful is the correspondence: the real searcher, stopped
   and restarted or pickled at any packet, produces the events of `iterate step`. *)
Theorem C17_state_is_members : forall s,
  step s = step (of_members (members_of s)) /\
  (forall s' e, step s = (s', e) -> of_members (members_of s') = s').
Proof.
  intros s. split; [apply step_members|].
  intros s' e H. eapply step_normal; eauto.
Qed.

(* pickling at the level of the members (Searcher/Pickle.v): dump writes the members
   into a graph with the sharing of the real object graph, load reads them back *)
Theorem C17_pickle_roundtrip : forall s,
  well_shared (dump s) /\ load (dump s) = of_members (members_of s) /\ (normal s -> load (dump s) = s).
Proof.
  intros s. split; [apply dump_well_shared|]. split; [apply load_dump_members|apply load_dump].
Qed.

(* step commutes with pickling: for every state, and at every point of a run *)
Theorem C17_pickle_commutes : forall s k n,
  step (load (dump s)) = step s /\
  let '(sk, ek) := iterate k s in
  let '(sn, en) := iterate n (load (dump sk)) in
  (k = O \/ load (dump sk) = sk) /\ (n = O \/ iterate (k + n) s = (sn, ek ++ en)).
Proof.
  intros s k n. split; [apply step_load_dump|apply pickle_anywhere].
Qed.

End StateMachine.

(* (c) the derived cache of RuleDBBase (Searcher/Cache.v): for every rule store type R,
   observed equivalence database E, dictionary type D, every `recompute` (the body of the
   property pruned_dict) that is idempotent, two histories of add / has_specification /
   is_verified that differ only in where the cache was thrown away, run from databases
   that differ only in whether the cache is present, answer the same and end in databases
   that differ at most in the cache *)
Theorem C17_cache_transparent :
  forall (R E D K : Type) (r_add : R -> K -> R) (e_add : E -> K -> E) (recompute : R -> E -> D * E)
         (root_in : E -> D -> bool) (e_isv : E -> Z -> bool),
  (forall r e d e', recompute r e = (d, e') -> recompute r e' = (d, e')) ->
  forall ops1 ops2 x y,
  same R E D recompute x y ->
  filter (fun o => negb (is_drop K o)) ops1 = filter (fun o => negb (is_drop K o)) ops2 ->
  snd (exec R E D K r_add e_add recompute root_in e_isv x ops1) =
  snd (exec R E D K r_add e_add recompute root_in e_isv y ops2) /\
  same R E D recompute (fst (exec R E D K r_add e_add recompute root_in e_isv x ops1))
                       (fst (exec R E D K r_add e_add recompute root_in e_isv y ops2)).
Proof.
  intros R E D K r_add e_add recompute root_in e_isv Hidem. apply cache_transparent. exact Hidem.
Qed.

(* the hypothesis `same` is met by a database and its copy without the cache, at every
   point of every history that starts from an empty cache *)
Theorem C17_cache_invariant :
  forall (R E D K : Type) (r_add : R -> K -> R) (e_add : E -> K -> E) (recompute : R -> E -> D * E)
         (root_in : E -> D -> bool) (e_isv : E -> Z -> bool),
  (forall r e d e', recompute r e = (d, e') -> recompute r e' = (d, e')) ->
  forall ops r e,
  let x := fst (exec R E D K r_add e_add recompute root_in e_isv (mkDB R E D r e None) ops) in
  same R E D recompute x (drop R E D x).
Proof.
  intros R E D K r_add e_add recompute root_in e_isv Hidem ops r e x.
  apply same_drop. apply cache_ok_exec; [exact Hidem|exact I].
Qed.

Example C17_nonvacuous :
  (* perc = 50 (mult 2), limit 6: a slice of 1 packet, then one of 2*2+1 packets; interrupted
     after 6 packets; the next call resumes at packet 7 and finds the specification after 10 *)
  auto_search 40 2 (Some 6) 10 0 0 [2; 1; 3] [false; false; false] = (Exceeded 6, [1; 6], 3) /\
  auto_search 40 2 (Some 60) 10 6 3 [1; 1] [false; true] = (Found 10, [7; 10], 5).
Proof. split; vm_compute; reflexivity. Qed.

(* ------------------------------------------------------------------------
   NON-VACUITY (audit): the theorems APPLIED to the two calls of C17_nonvacuous (a call interrupted by
   its time limit after 6 packets, and the resumed call that starts at packet count 6 with clock offset 3
   and finds the specification after 10), and to a call that exhausts the queue (9 packets, four
   has_specification() calls, all answering False). *)
Require Import Lia.
Lemma ds_nonneg_1 : Forall (fun d => 0 <= d) [2; 1; 3]. Proof. repeat constructor; lia. Qed.
Lemma ds_nonneg_2 : Forall (fun d => 0 <= d) [1; 1]. Proof. repeat constructor; lia. Qed.
Lemma ds_nonneg_3 : Forall (fun d => 0 <= d) [1; 2; 1; 1]. Proof. repeat constructor; lia. Qed.
Lemma run_interrupted : auto_search 40 2 (Some 6) 10 0 0 [2; 1; 3] [false; false; false] = (Exceeded 6, [1; 6], 3).
Proof. vm_compute; reflexivity. Qed.
Lemma run_resumed : auto_search 40 2 (Some 60) 10 6 3 [1; 1] [false; true] = (Found 10, [7; 10], 5).
Proof. vm_compute; reflexivity. Qed.
Lemma run_exhausted :
  auto_search 9 2 None 10 0 0 [1; 2; 1; 1] [false; false; false; false; false] = (NotFound 9, [1; 4; 9; 9], 5).
Proof. vm_compute; reflexivity. Qed.

(* covers C17_resume_from, the three informative outcomes (the OutOfFuel case of the theorem says nothing) *)
Example C17_resume_from_nonvacuous :
  ((forall x, In x [1; 6] -> 0 <= x <= 40) /\
   last [1; 6] 0 = 6 /\ forall j, (j < length [1; 6])%nat -> nth j [false; false; false] false = false) /\
  ((forall x, In x [7; 10] -> 6 <= x <= 40) /\
   last [7; 10] 6 = 10 /\ nth (length [7; 10] - 1) [false; true] false = true /\
   forall j, (j < length [7; 10] - 1)%nat -> nth j [false; true] false = false) /\
  ((forall x, In x [1; 4; 9; 9] -> 0 <= x <= 9) /\
   last [1; 4; 9; 9] 0 = 9 /\
   forall j, (j < length [1; 4; 9; 9])%nat -> nth j [false; false; false; false; false] false = false).
Proof.
  split; [|split].
  - apply (C17_resume_from 40 2 (Some 6) 10 0 0 [2; 1; 3] [false; false; false] (Exceeded 6) [1; 6] 3
             ltac:(lia) ltac:(lia) ds_nonneg_1 run_interrupted).
  - apply (C17_resume_from 40 2 (Some 60) 10 6 3 [1; 1] [false; true] (Found 10) [7; 10] 5
             ltac:(lia) ltac:(lia) ds_nonneg_2 run_resumed).
  - apply (C17_resume_from 9 2 None 10 0 0 [1; 2; 1; 1] [false; false; false; false; false] (NotFound 9)
             [1; 4; 9; 9] 5 ltac:(lia) ltac:(lia) ds_nonneg_3 run_exhausted).
Qed.
(* with too little fuel the model answers OutOfFuel and C17_resume_from's conclusion is `True`: the
   theorem is informative only for runs that end (there is no theorem that enough fuel exists) *)
Example C17_resume_from_out_of_fuel :
  auto_search 9 2 None 2 0 0 [1; 2; 1; 1] [false; false; false; false; false] = (OutOfFuel, [1; 4], 3).
Proof. vm_compute; reflexivity. Qed.

Example C17_notfound_only_when_exhausted_nonvacuous : 9 = 9.
Proof.
  apply (C17_notfound_only_when_exhausted 9 2 None 10 0 0 [1; 2; 1; 1] [false; false; false; false; false] 9
           [1; 4; 9; 9] 5 ltac:(lia) ltac:(lia) ds_nonneg_3 run_exhausted).
Qed.
(* the conclusion is about the queue: with a larger queue the same script is NOT answered NotFound *)
Example C17_notfound_near_miss :
  fst (fst (auto_search 40 2 None 4 0 0 [1; 2; 1; 1] [false; false; false; false; false])) = OutOfFuel /\
  fst (fst (auto_search 9 2 None 10 3 1 [1; 2; 1; 1] [false; false; false; false; false])) = NotFound 9.
Proof. split; vm_compute; reflexivity. Qed.

Example C17_exceeded_only_past_limit_nonvacuous :
  exists m, Some 6 = Some m /\ m < 6 + 3 - (0 + 0).
Proof.
  apply (C17_exceeded_only_past_limit 40 2 (Some 6) 10 0 0 [2; 1; 3] [false; false; false] 6 [1; 6] 3
           run_interrupted).
Qed.
(* ... and with a limit that is not passed (or none) the same script is not interrupted *)
Example C17_exceeded_near_miss :
  fst (fst (auto_search 40 2 (Some 20) 3 0 0 [2; 1; 3] [false; false; false])) = OutOfFuel /\
  fst (fst (auto_search 40 2 None 3 0 0 [2; 1; 3] [false; false; false])) = OutOfFuel /\
  auto_search 40 2 (Some 9) 3 0 0 [2; 1; 3] [false; false; false] = (Exceeded 9, [1; 6; 9], 6).
Proof. split; [|split]; vm_compute; reflexivity. Qed.
(* a table with an inferral strategy, an expansion strategy, a verification strategy: the
   machine run under a clock with an interruption equals the uninterrupted iteration, and
   hands out real packets *)
Definition ex17_table : table :=
  mkT [0; 0; 0; 0]
      [ mkS 2 false false false false [(3, mkE [] false false [])] [];
        mkS 0 false true false true [(0, mkE [1; 2] false true [0; 1]); (1, mkE [3] false true [1]);
                                      (2, mkE [1; 3] false true [1; 0])] [];
        mkS 0 false true false true [(0, mkE [2] true true [0])] [] ]
      [0] [].

Example C17_nonvacuous_machine :
  let run := run_calls_st ex17_table 0 20 false [2] [] [[1]] 2 in
  let s0 := fst (init_sstate ex17_table 0 20 [2] [] [[1]] (repeat false 40) 0) in
  let '(outs, s', es, k', x') :=
    run s0 0 0 [(Some 1, [2; 1], [false; false]); (None, repeat 0 7, repeat false 7)] in
  map (fun o => fst (fst o)) outs = [Ret (Exceeded 1); Ret (NotFound 7)] /\
  map is_packet es = [true; true; true; true; true; true; true; false] /\
  iterate ex17_table 0 20 false [2] [] [[1]] (length es) s0 = (s', es) /\
  classes (cdb (core s')) = [0; 2; 1; 3] /\ stat (core s') = Running.
Proof. vm_compute. repeat split; reflexivity. Qed.

Print Assumptions C17_resume_from.
Print Assumptions C17_notfound_only_when_exhausted.
Print Assumptions C17_exceeded_only_past_limit.
Print Assumptions C17_reachable.
Print Assumptions C17_slicing_independent.
Print Assumptions C17_packet_count.
Print Assumptions C17_dry_is_stable.
Print Assumptions C17_notfound_means_dry.
Print Assumptions C17_no_packet_lost.
Print Assumptions C17_queue_total.
Print Assumptions C17_resume_composes.
Print Assumptions C17_calls_compose.
Print Assumptions C17_state_is_members.
Print Assumptions C17_pickle_roundtrip.
Print Assumptions C17_pickle_commutes.
Print Assumptions C17_cache_transparent.
Print Assumptions C17_cache_invariant.
