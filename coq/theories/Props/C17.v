(* C17 — a search pickled or interrupted at any point resumes faithfully.
   Statements only (proofs: Searcher/Slicing.v).

   What a Coq theorem can carry here is the CONTROL FLOW of
   _auto_search_rules / _expand_classes_for under an arbitrary clock: where the
   search can be interrupted, what it answers, and where the next call picks
   up.  That the searcher's state after k packets is the same object whether
   or not it was pickled in between (shared lists inside ClassDB, the
   ruledb -> searcher back-reference, ...) is behaviour of the Python runtime;
   it is covered by the correspondence only (pickle at every k, equality,
   identical event traces afterwards) — partial by nature, as DESIGN.md says.

   `auto_search n_avail mult maxt fuel k extra ds answers = (o, calls, extra')`:
   a call of _auto_search_rules on a searcher that has processed k packets, the
   queue running dry at n_avail packets, the j-th has_specification() call
   advancing the clock by ds_j >= 0 and answering answers_j.                  *)
From Coq Require Import ZArith List Bool.
From CSS Require Import Searcher.Slicing.
Import ListNotations.
Open Scope Z_scope.

(* decisions are only taken BETWEEN packets, at packet counts from where the
   previous call stopped up to the exhaustion point; a specification is
   reported only on a true answer and at the first one; after an interruption
   the next call continues from the packet count reached (k of the outcome) *)
Theorem C17_resume_from : forall n_avail mult maxt fuel k extra ds answers o calls extra',
  0 <= mult -> k <= n_avail -> Forall (fun d => 0 <= d) ds ->
  auto_search n_avail mult maxt fuel k extra ds answers = (o, calls, extra') ->
  (forall x, In x calls -> k <= x <= n_avail) /\
  match o with
  | Found kf => last calls k = kf /\ nth (length calls - 1) answers false = true /\
                forall j, (j < length calls - 1)%nat -> nth j answers false = false
  | Exceeded kf | NotFound kf =>
      last calls k = kf /\ forall j, (j < length calls)%nat -> nth j answers false = false
  | OutOfFuel => True
  end.
Proof.
  intros n_avail mult maxt fuel k extra ds answers o calls extra' Hm.
  exact (resume_from n_avail mult maxt Hm fuel k extra ds answers o calls extra').
Qed.

(* SpecificationNotFound is raised only when the queue has run dry *)
Theorem C17_notfound_only_when_exhausted :
  forall n_avail mult maxt fuel k extra ds answers kf calls extra',
  0 <= mult -> k <= n_avail -> Forall (fun d => 0 <= d) ds ->
  auto_search n_avail mult maxt fuel k extra ds answers = (NotFound kf, calls, extra') ->
  kf = n_avail.
Proof.
  intros n_avail mult maxt fuel k extra ds answers kf calls extra' Hm Hk Hds H.
  unfold auto_search in H.
  exact (notfound_exhausted n_avail mult maxt Hm fuel k extra (k + extra) 0 ds answers [] kf calls extra'
           (Z.le_refl 0) Hk Hds H).
Qed.

(* ExceededMaxtimeError is raised only when a limit is set and the clock passed it *)
Theorem C17_exceeded_only_past_limit :
  forall n_avail mult maxt fuel k extra ds answers kf calls extra',
  auto_search n_avail mult maxt fuel k extra ds answers = (Exceeded kf, calls, extra') ->
  exists m, maxt = Some m /\ m < kf + extra' - (k + extra).
Proof.
  intros n_avail mult maxt fuel k extra ds answers kf calls extra' H. unfold auto_search in H.
  exact (exceeded_really n_avail mult maxt fuel k extra (k + extra) 0 ds answers [] kf calls extra' H).
Qed.

Example C17_nonvacuous :
  (* perc = 50 (mult 2), limit 6: a slice of 1 packet, then one of 2*2+1 packets; interrupted
     after 6 packets; the next call resumes at packet 7 and finds the specification after 10 *)
  auto_search 40 2 (Some 6) 10 0 0 [2; 1; 3] [false; false; false] = (Exceeded 6, [1; 6], 3) /\
  auto_search 40 2 (Some 60) 10 6 3 [1; 1] [false; true] = (Found 10, [7; 10], 5).
Proof. split; vm_compute; reflexivity. Qed.

Print Assumptions C17_resume_from.
Print Assumptions C17_notfound_only_when_exhausted.
Print Assumptions C17_exceeded_only_past_limit.
