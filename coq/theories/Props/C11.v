(* C11 — forest extraction returns a minimal, closed, productive rule set.
   Statements only; proofs in Forest/Extractor*.v.

   `extract fuel root ks = Ok res` : the model of ForestRuleExtractor (restrict to
   the pumping sub-universe, sort by bucket, _minimize over REVERSE, NORMAL,
   EQUIV, VERIFICATION) ran on the inserted keys `ks` (each with its bucket) for
   the start label `root` and returned the needed keys `res`, no productivity
   test running out of fuel.  `Pk root l` = the start class pumps w.r.t. the
   keys l alone, in the least-fixed-point sense of Spec.v (C03 ties the
   table-method answers to it). *)
From Coq Require Import ZArith List Bool.
From CSS Require Import Base.Sx Forest.Spec Forest.Model Forest.Run Forest.Extractor
  Forest.ExtractorRun Forest.ExtractorTheorems Forest.ExtractorTermination Forest.PositionalTotal Forest.Positional Forest.PositionalExtractor.
Import ListNotations.

Definition buckets_ok (ks : list bkey) : Prop := forall k, In k ks -> (bk_bucket k < 4)%nat.

(* the extracted keys are a subset of the inserted keys, and all their classes pump *)
Theorem C11_subset : forall fuel root ks res,
  extract fuel root ks = Ok res ->
  forall k, In k res ->
    In k ks /\ pumps (map bk_key ks) (parent (bk_key k)) /\
    forall c s, In (c, s) (kids (bk_key k)) -> pumps (map bk_key ks) c.
Proof. intros fuel root ks res H. exact (extract_subset fuel root ks res H). Qed.

(* productive for the start class *)
Theorem C11_productive : forall fuel root ks res,
  buckets_ok ks -> extract fuel root ks = Ok res ->
  Pk root ks -> Pk root res.
Proof. intros fuel root ks res B H. exact (extract_productive fuel root ks res B H). Qed.

(* becomes unproductive if any single rule is removed *)
Theorem C11_minimal : forall fuel root ks res,
  extract fuel root ks = Ok res ->
  forall i, (i < length res)%nat -> ~ Pk root (firstn i res ++ skipn (S i) res).
Proof. intros fuel root ks res H. exact (extract_minimal fuel root ks res H). Qed.

(* mentions no class without a rule (given the run of the table method on the
   extracted keys that check() performs) *)
Theorem C11_closed : forall fuel root ks res pick' fuel' stS,
  extract fuel root ks = Ok res ->
  run pick' fuel' init (add_ops res) = Some stS -> Pk root res ->
  forall k c, In k res -> mentions_class c k ->
  exists k', In k' res /\ parent (bk_key k') = c.
Proof. intros fuel root ks res pick' fuel' stS H. exact (extract_closed fuel root ks res H pick' fuel' stS). Qed.

(* reverse rules are used only when no choice without them exists in the
   pumping sub-universe *)
Theorem C11_reverse_last : forall fuel root ks res,
  buckets_ok ks -> extract fuel root ks = Ok res ->
  (exists st, run pick0 fuel init (add_ops ks) = Some st /\
     Pk root (filter (fun k => negb (in_bucket 0 k))
                     (map (fun i => nth i ks (mkb dummy 0)) (pumping_subuniverse st)))) ->
  forall k, In k res -> bk_bucket k <> 0%nat.
Proof. intros fuel root ks res B H. exact (extract_reverse_last fuel root ks res B H). Qed.

(* ---- exactly one rule per class ----
   Memoryless determinacy of the derivability game (Forest/Positional.v):
   of two keys for the same class one is always redundant, so a list that pumps
   the root and is minimal for that has pairwise distinct left-hand sides. *)

(* for ANY key list; uses Classical_Prop.classic (to compare the worth of the
   class in the two lists with one of the keys removed) *)
Theorem C11_minimal_one_rule_per_class : forall (R : list fkey) (root : nat),
  pumps R root ->
  (forall i, (i < length R)%nat -> ~ pumps (firstn i R ++ skipn (S i) R) root) ->
  forall i j, (i < length R)%nat -> (j < length R)%nat ->
    parent (nth i R dummy) = parent (nth j R dummy) -> i = j.
Proof. exact minimal_one_rule_per_class. Qed.

(* the same without any axiom, the value dichotomy (pumps, or has exactly n
   terms) being a hypothesis on the lists with one key removed *)
Theorem C11_minimal_one_rule_per_class_valued : forall (R : list fkey) (root : nat),
  (forall i c, (i < length R)%nat ->
     pumps (firstn i R ++ skipn (S i) R) c \/ exists n, terms (firstn i R ++ skipn (S i) R) c n) ->
  pumps R root ->
  (forall i, (i < length R)%nat -> ~ pumps (firstn i R ++ skipn (S i) R) root) ->
  forall i j, (i < length R)%nat -> (j < length R)%nat ->
    parent (nth i R dummy) = parent (nth j R dummy) -> i = j.
Proof. exact minimal_one_rule_per_class_valued. Qed.

(* memoryless determinacy itself: some sub-list with pairwise distinct
   left-hand sides derives the same (class, value) pairs; uses classic *)
Theorem C11_positional : forall R : list fkey,
  exists R', incl R' R /\ NoDup (map parent R') /\
             forall c v, derivable R c v -> derivable R' c v.
Proof. exact positional_strong. Qed.

(* the extracted keys have pairwise distinct left-hand sides, i.e. check()'s
   assertion cannot fail on the model's result; uses classic *)
Theorem C11_one_rule_per_class : forall fuel root ks res,
  buckets_ok ks -> extract fuel root ks = Ok res -> Pk root ks ->
  forall i j, (i < length res)%nat -> (j < length res)%nat ->
    parent (bk_key (nth i res (mkb dummy 0))) = parent (bk_key (nth j res (mkb dummy 0))) -> i = j.
Proof. intros fuel root ks res B H. exact (extract_one_rule_per_class fuel root ks res B H). Qed.

(* the same without any axiom, given that the table method terminates on the
   result with any one key removed (C03 termination would discharge this) *)
Theorem C11_one_rule_per_class_runs : forall fuel root ks res,
  buckets_ok ks -> extract fuel root ks = Ok res -> Pk root ks ->
  (forall i, (i < length res)%nat ->
     exists pick' fuel' st,
       run pick' fuel' init (add_ops (firstn i res ++ skipn (S i) res)) = Some st) ->
  forall i j, (i < length res)%nat -> (j < length res)%nat ->
    parent (bk_key (nth i res (mkb dummy 0))) = parent (bk_key (nth j res (mkb dummy 0))) -> i = j.
Proof. intros fuel root ks res B H. exact (extract_one_rule_per_class_runs fuel root ks res B H). Qed.

(* kept: the code's own check() decides it — distinct_parents is sound. *)
Theorem C11_one_rule_per_class_partial : forall l,
  distinct_parents l = true ->
  forall i j, (i < length l)%nat -> (j < length l)%nat ->
    parent (bk_key (nth i l (mkb dummy 0))) = parent (bk_key (nth j l (mkb dummy 0))) -> i = j.
Proof. exact distinct_parents_sound. Qed.

(* ================= TERMINATION / TOTALITY ================= *)

(* no productivity test, hence no run of the extractor model, runs out of fuel *)
Theorem C11_never_out_of_fuel : forall fuel root ks, extract fuel root ks <> OutOfFuel.
Proof. exact extract_never_out_of_fuel. Qed.

(* the fuel argument (a floor under the proved bound) does not matter *)
Theorem C11_fuel_irrelevant : forall fuel fuel' root ks, extract fuel root ks = extract fuel' root ks.
Proof. exact extract_fuel_irrelevant. Qed.

(* when the start class pumps, the extractor returns a rule set: neither out of
   fuel nor "Not pumping after adding all rules" *)
Theorem C11_total : forall fuel root ks,
  buckets_ok ks -> Pk root ks -> exists res, extract fuel root ks = Ok res.
Proof. exact extract_total. Qed.

(* closedness without the hypothesis that check()'s table-method run returns *)
Theorem C11_closed_total : forall fuel root ks res,
  buckets_ok ks -> Pk root ks -> extract fuel root ks = Ok res ->
  forall k c, In k res -> mentions_class c k ->
  exists k', In k' res /\ parent (bk_key k') = c.
Proof. exact extract_closed_total. Qed.

(* everything together, no fuel and no "the run returned" hypothesis *)
Theorem C11_total_correct : forall fuel root ks,
  buckets_ok ks -> Pk root ks ->
  exists res, extract fuel root ks = Ok res /\
    (forall k, In k res ->
       In k ks /\ pumps (map bk_key ks) (parent (bk_key k)) /\
       forall c s, In (c, s) (kids (bk_key k)) -> pumps (map bk_key ks) c) /\
    Pk root res /\
    (forall i, (i < length res)%nat -> ~ Pk root (firstn i res ++ skipn (S i) res)) /\
    (forall k c, In k res -> mentions_class c k ->
       exists k', In k' res /\ parent (bk_key k') = c).
Proof.
  exact extract_total_correct.
Qed.

(* the extracted model run by the harness never reports status 1 (out of fuel) *)
Theorem C11_harness_never_out_of_fuel : forall inp, run_c11 inp <> L [I 1%Z; L []; I 0%Z].
Proof. exact run_c11_never_out_of_fuel. Qed.

(* ================= ONE RULE PER CLASS, AXIOM-FREE ================= *)
(* C03 termination decides, for every key list, whether a class pumps or has exactly n terms
   (valued_total); that was the only use of Classical_Prop.classic in Positional.v.  These are
   the same statements as C11_minimal_one_rule_per_class / C11_one_rule_per_class, closed under
   the global context. *)
Theorem C11_minimal_one_rule_per_class_total : forall (R : list fkey) (root : nat),
  pumps R root ->
  (forall i, (i < length R)%nat -> ~ pumps (firstn i R ++ skipn (S i) R) root) ->
  forall i j, (i < length R)%nat -> (j < length R)%nat ->
    parent (nth i R dummy) = parent (nth j R dummy) -> i = j.
Proof. exact minimal_one_rule_per_class_total. Qed.

Theorem C11_one_rule_per_class_total : forall fuel root ks res,
  buckets_ok ks -> extract fuel root ks = Ok res -> Pk root ks ->
  forall i j, (i < length res)%nat -> (j < length res)%nat ->
    parent (bk_key (nth i res (mkb dummy 0))) = parent (bk_key (nth j res (mkb dummy 0))) -> i = j.
Proof. exact extract_one_rule_per_class_total. Qed.

Example C11_nonvacuous :
  let ks := [mkb (mkkey 0 [(1%nat, 1%Z)]) 1; mkb (mkkey 1 [(0%nat, 0%Z)]) 0;
             mkb (mkkey 1 []) 3; mkb (mkkey 0 [(0%nat, 1%Z); (1%nat, 0%Z)]) 1;
             mkb (mkkey 2 [(0%nat, 0%Z)]) 2] in
  extract 500 0 ks = Ok [mkb (mkkey 0 [(1%nat, 1%Z)]) 1; mkb (mkkey 1 []) 3]
  /\ buckets_ok ks.
Proof.
  split; [vm_compute; reflexivity|].
  intros k Hk. simpl in Hk. repeat (destruct Hk as [<-|Hk]; [simpl; auto with arith|]). destruct Hk.
Qed.

Print Assumptions C11_subset.
Print Assumptions C11_productive.
Print Assumptions C11_minimal.
Print Assumptions C11_closed.
Print Assumptions C11_reverse_last.
Print Assumptions C11_one_rule_per_class_partial.
Print Assumptions C11_minimal_one_rule_per_class.
Print Assumptions C11_minimal_one_rule_per_class_valued.
Print Assumptions C11_positional.
Print Assumptions C11_one_rule_per_class.
Print Assumptions C11_one_rule_per_class_runs.
Print Assumptions C11_never_out_of_fuel.
Print Assumptions C11_fuel_irrelevant.
Print Assumptions C11_total.
Print Assumptions C11_closed_total.
Print Assumptions C11_total_correct.
Print Assumptions C11_harness_never_out_of_fuel.
Print Assumptions C11_minimal_one_rule_per_class_total.
Print Assumptions C11_one_rule_per_class_total.
