(* C11 — forest extraction returns a minimal, closed, productive rule set.
   Statements only; proofs in Forest/Extractor*.v.

   `extract fuel root ks = Ok res` : the model of ForestRuleExtractor (restrict to
   the pumping sub-universe, sort by bucket, _minimize over REVERSE, NORMAL,
   EQUIV, VERIFICATION) ran on the inserted keys `ks` (each with its bucket) for
   the start label `root` and returned the needed keys `res`, no productivity
   test running out of fuel.  `Pk root l` = the start class pumps w.r.t. the
   keys l alone, in the least-fixed-point sense of Spec.v (C03 ties the
   table-method answers to it). *)
From Coq Require Import ZArith List Bool.
From CSS Require Import Base.Sx Forest.Spec Forest.Model Forest.Run Forest.Extractor
  Forest.ExtractorRun Forest.ExtractorTheorems Forest.ExtractorTermination Forest.PositionalTotal Forest.Positional Forest.PositionalExtractor.
From CSS Require Gen.ForestMinimizeOrder.
From CSS Require Import Forest.GenBridgeExtractor.
Import ListNotations.

Definition buckets_ok (ks : list bkey) : Prop := forall k, In k ks -> (bk_bucket k < 4)%nat.

(* the extracted keys are a subset of the inserted keys, and all their classes pump *)
Theorem C11_subset : forall fuel root ks res,
  extract fuel root ks = Ok res ->
  forall k, In k res ->
    In k ks /\ pumps (map bk_key ks) (parent (bk_key k)) /\
    forall c s, In (c, s) (kids (bk_key k)) -> pumps (map bk_key ks) c.
Proof. intros fuel root ks res H. exact (extract_subset fuel root ks res H). Qed.

(* productive for the start class *)
Theorem C11_productive : forall fuel root ks res,
  buckets_ok ks -> extract fuel root ks = Ok res ->
  Pk root ks -> Pk root res.
Proof. intros fuel root ks res B H. exact (extract_productive fuel root ks res B H). Qed.

(* becomes unproductive if any single rule is removed *)
Theorem C11_minimal : forall fuel root ks res,
  extract fuel root ks = Ok res ->
  forall i, (i < length res)%nat -> ~ Pk root (firstn i res ++ skipn (S i) res).
Proof. intros fuel root ks res H. exact (extract_minimal fuel root ks res H). Qed.

(* mentions no class without a rule (given the run of the table method on the
   extracted keys that check() performs) *)
Theorem C11_closed : forall fuel root ks res pick' fuel' stS,
  extract fuel root ks = Ok res ->
  run pick' fuel' init (add_ops res) = Some stS -> Pk root res ->
  forall k c, In k res -> mentions_class c k ->
  exists k', In k' res /\ parent (bk_key k') = c.
Proof. intros fuel root ks res pick' fuel' stS H. exact (extract_closed fuel root ks res H pick' fuel' stS). Qed.

(* reverse rules are used only when no choice without them exists in the
   pumping sub-universe *)
Theorem C11_reverse_last : forall fuel root ks res,
  buckets_ok ks -> extract fuel root ks = Ok res ->
  (exists st, run pick0 fuel init (add_ops ks) = Some st /\
     Pk root (filter (fun k => negb (in_bucket 0 k))
                     (map (fun i => nth i ks (mkb dummy 0)) (pumping_subuniverse st)))) ->
  forall k, In k res -> bk_bucket k <> 0%nat.
Proof. intros fuel root ks res B H. exact (extract_reverse_last fuel root ks res B H). Qed.

(* ---- exactly one rule per class ----
   Memoryless determinacy of the derivability game (Forest/Positional.v):
   of two keys for the same class one is always redundant, so a list that pumps
   the root and is minimal for that has pairwise distinct left-hand sides. *)

(* for ANY key list.  (AUDIT: this used to be closed with Positional.minimal_one_rule_per_class,
   which uses Classical_Prop.classic to compare the worth of the class in the two lists with one
   of the keys removed; the table method DECIDES that comparison — PositionalTotal.valued_total —
   so the statement is now closed under the global context.) *)
Theorem C11_minimal_one_rule_per_class : forall (R : list fkey) (root : nat),
  pumps R root ->
  (forall i, (i < length R)%nat -> ~ pumps (firstn i R ++ skipn (S i) R) root) ->
  forall i j, (i < length R)%nat -> (j < length R)%nat ->
    parent (nth i R dummy) = parent (nth j R dummy) -> i = j.
Proof. exact minimal_one_rule_per_class_total. Qed.

(* the same without any axiom, the value dichotomy (pumps, or has exactly n
   terms) being a hypothesis on the lists with one key removed *)
Theorem C11_minimal_one_rule_per_class_valued : forall (R : list fkey) (root : nat),
  (forall i c, (i < length R)%nat ->
     pumps (firstn i R ++ skipn (S i) R) c \/ exists n, terms (firstn i R ++ skipn (S i) R) c n) ->
  pumps R root ->
  (forall i, (i < length R)%nat -> ~ pumps (firstn i R ++ skipn (S i) R) root) ->
  forall i j, (i < length R)%nat -> (j < length R)%nat ->
    parent (nth i R dummy) = parent (nth j R dummy) -> i = j.
Proof. exact minimal_one_rule_per_class_valued. Qed.

(* memoryless determinacy itself: some sub-list with pairwise distinct
   left-hand sides derives the same (class, value) pairs (AUDIT: now axiom free,
   PositionalTotal.positional_strong_total) *)
Theorem C11_positional : forall R : list fkey,
  exists R', incl R' R /\ NoDup (map parent R') /\
             forall c v, derivable R c v -> derivable R' c v.
Proof. exact positional_strong_total. Qed.

(* the extracted keys have pairwise distinct left-hand sides, i.e. check()'s
   assertion cannot fail on the model's result (AUDIT: now axiom free,
   PositionalTotal.extract_one_rule_per_class_total) *)
Theorem C11_one_rule_per_class : forall fuel root ks res,
  buckets_ok ks -> extract fuel root ks = Ok res -> Pk root ks ->
  forall i j, (i < length res)%nat -> (j < length res)%nat ->
    parent (bk_key (nth i res (mkb dummy 0))) = parent (bk_key (nth j res (mkb dummy 0))) -> i = j.
Proof. exact extract_one_rule_per_class_total. Qed.

(* the same without any axiom, given that the table method terminates on the
   result with any one key removed (C03 termination would discharge this) *)
Theorem C11_one_rule_per_class_runs : forall fuel root ks res,
  buckets_ok ks -> extract fuel root ks = Ok res -> Pk root ks ->
  (forall i, (i < length res)%nat ->
     exists pick' fuel' st,
       run pick' fuel' init (add_ops (firstn i res ++ skipn (S i) res)) = Some st) ->
  forall i j, (i < length res)%nat -> (j < length res)%nat ->
    parent (bk_key (nth i res (mkb dummy 0))) = parent (bk_key (nth j res (mkb dummy 0))) -> i = j.
Proof. intros fuel root ks res B H. exact (extract_one_rule_per_class_runs fuel root ks res B H). Qed.

(* kept: the code's own check() decides it — distinct_parents is sound. *)
Theorem C11_one_rule_per_class_partial : forall l,
  distinct_parents l = true ->
  forall i j, (i < length l)%nat -> (j < length l)%nat ->
    parent (bk_key (nth i l (mkb dummy 0))) = parent (bk_key (nth j l (mkb dummy 0))) -> i = j.
Proof. exact distinct_parents_sound. Qed.

(* ================= TERMINATION / TOTALITY ================= *)

(* no productivity test, hence no run of the extractor model, runs out of fuel *)
Theorem C11_never_out_of_fuel : forall fuel root ks, extract fuel root ks <> OutOfFuel.
Proof. exact extract_never_out_of_fuel. Qed.

(* the fuel argument (a floor under the proved bound) does not matter *)
Theorem C11_fuel_irrelevant : forall fuel fuel' root ks, extract fuel root ks = extract fuel' root ks.
Proof. exact extract_fuel_irrelevant. Qed.

(* when the start class pumps, the extractor returns a rule set: neither out of
   fuel nor "Not pumping after adding all rules" *)
Theorem C11_total : forall fuel root ks,
  buckets_ok ks -> Pk root ks -> exists res, extract fuel root ks = Ok res.
Proof. exact extract_total. Qed.

(* closedness without the hypothesis that check()'s table-method run returns *)
Theorem C11_closed_total : forall fuel root ks res,
  buckets_ok ks -> Pk root ks -> extract fuel root ks = Ok res ->
  forall k c, In k res -> mentions_class c k ->
  exists k', In k' res /\ parent (bk_key k') = c.
Proof. exact extract_closed_total. Qed.

(* productivity of the WHOLE extracted rule set: every class mentioned by an extracted key - as its
   parent or as one of its children - pumps w.r.t. the extracted keys alone (C11_productive is the
   special case of the start class when it is mentioned).  Closedness is a corollary (a pumping class
   has a key), and it is the form C02 / C19 ask for ("every class of the rule set pumps").  From
   minimality: a key mentioning a non-pumping class could be dropped (Forest/ExtractorTheorems.v
   extract_all_classes_pump; the run of check() discharged by C03 termination). *)
Theorem C11_all_classes_pump : forall fuel root ks res,
  buckets_ok ks -> Pk root ks -> extract fuel root ks = Ok res ->
  forall k c, In k res -> mentions_class c k -> pumps (map bk_key res) c.
Proof. exact extract_all_classes_pump_total. Qed.

(* everything together, no fuel and no "the run returned" hypothesis *)
Theorem C11_total_correct : forall fuel root ks,
  buckets_ok ks -> Pk root ks ->
  exists res, extract fuel root ks = Ok res /\
    (forall k, In k res ->
       In k ks /\ pumps (map bk_key ks) (parent (bk_key k)) /\
       forall c s, In (c, s) (kids (bk_key k)) -> pumps (map bk_key ks) c) /\
    Pk root res /\
    (forall i, (i < length res)%nat -> ~ Pk root (firstn i res ++ skipn (S i) res)) /\
    (forall k c, In k res -> mentions_class c k ->
       exists k', In k' res /\ parent (bk_key k') = c).
Proof.
  exact extract_total_correct.
Qed.

(* the extracted model run by the harness never reports status 1 (out of fuel) *)
Theorem C11_harness_never_out_of_fuel : forall inp, run_c11 inp <> L [I 1%Z; L []; I 0%Z].
Proof. exact run_c11_never_out_of_fuel. Qed.

(* ================= ONE RULE PER CLASS, AXIOM-FREE ================= *)
(* C03 termination decides, for every key list, whether a class pumps or has exactly n terms
   (valued_total); that was the only use of Classical_Prop.classic in Positional.v.  These are
   the same statements as C11_minimal_one_rule_per_class / C11_one_rule_per_class (which are now
   closed with the same axiom-free lemmas; the two names below are kept). *)
Theorem C11_minimal_one_rule_per_class_total : forall (R : list fkey) (root : nat),
  pumps R root ->
  (forall i, (i < length R)%nat -> ~ pumps (firstn i R ++ skipn (S i) R) root) ->
  forall i j, (i < length R)%nat -> (j < length R)%nat ->
    parent (nth i R dummy) = parent (nth j R dummy) -> i = j.
Proof. exact minimal_one_rule_per_class_total. Qed.

Theorem C11_one_rule_per_class_total : forall fuel root ks res,
  buckets_ok ks -> extract fuel root ks = Ok res -> Pk root ks ->
  forall i j, (i < length res)%nat -> (j < length res)%nat ->
    parent (bk_key (nth i res (mkb dummy 0))) = parent (bk_key (nth j res (mkb dummy 0))) -> i = j.
Proof. exact extract_one_rule_per_class_total. Qed.

Example C11_nonvacuous :
  let ks := [mkb (mkkey 0 [(1%nat, 1%Z)]) 1; mkb (mkkey 1 [(0%nat, 0%Z)]) 0;
             mkb (mkkey 1 []) 3; mkb (mkkey 0 [(0%nat, 1%Z); (1%nat, 0%Z)]) 1;
             mkb (mkkey 2 [(0%nat, 0%Z)]) 2] in
  extract 500 0 ks = Ok [mkb (mkkey 0 [(1%nat, 1%Z)]) 1; mkb (mkkey 1 []) 3]
  /\ buckets_ok ks.
Proof.
  split; [vm_compute; reflexivity|].
  intros k Hk. simpl in Hk. repeat (destruct Hk as [<-|Hk]; [simpl; auto with arith|]). destruct Hk.
Qed.

(* ------------------------------------------------------------------------
   NON-VACUITY (audit): every theorem of this file with a premise is APPLIED to a concrete
   instance.  Universe c11_ks: seven keys over the classes 0..3 in all four buckets — two keys for
   class 0, three for class 1 (one of them a REVERSE key), two for class 3; root 0.  The extractor
   keeps four of them, one per class, and no REVERSE key. *)
Require Import Lia.
From CSS Require Import Forest.Theorems Forest.TerminationDefs Forest.TerminationRun.
Open Scope Z_scope.
Definition k_0a := mkb (mkkey 0 [(1%nat, 1); (2%nat, 0)]) 1.
Definition k_1r := mkb (mkkey 1 [(0%nat, 0)]) 0.
Definition k_2  := mkb (mkkey 2 [(3%nat, 1)]) 2.
Definition k_3a := mkb (mkkey 3 [(3%nat, 1)]) 1.
Definition k_1  := mkb (mkkey 1 [(3%nat, 2)]) 1.
Definition k_3v := mkb (mkkey 3 []) 3.
Definition k_0b := mkb (mkkey 0 [(0%nat, 1); (1%nat, 0)]) 1.
Definition c11_ks : list bkey := [k_0a; k_1r; k_2; k_3a; k_1; k_3v; k_0b].
Definition c11_res : list bkey := [k_0a; k_1; k_2; k_3v].
Definition c11_st : tm := Eval vm_compute in run_total pick0 (add_ops c11_ks).
Definition c11_stS : tm := Eval vm_compute in run_total pick0 (add_ops c11_res).

Lemma c11_buckets : buckets_ok c11_ks.
Proof. intros k Hk. simpl in Hk. repeat (destruct Hk as [<-|Hk]; [simpl; auto with arith|]). destruct Hk. Qed.
Lemma c11_extract : extract 500 0 c11_ks = Ok c11_res.
Proof. vm_compute. reflexivity. Qed.
(* "the start class pumps" is read off a table-method run (C03: prod_tm_spec) *)
Ltac pk_by_run := refine (proj1 (prod_tm_spec 500 _ _ true _) eq_refl); vm_compute; reflexivity.
Ltac not_pk_by_run :=
  let P := fresh in intros P; refine (_ (proj2 (prod_tm_spec 500 _ _ false _) P));
    [discriminate|vm_compute; reflexivity].
Lemma c11_Pk : Pk 0 c11_ks.
Proof. pk_by_run. Qed.
Lemma c11_run : run pick0 500 init (add_ops c11_ks) = Some c11_st.
Proof. vm_compute. reflexivity. Qed.
Lemma c11_runS : run pick0 100 init (add_ops c11_res) = Some c11_stS.
Proof. vm_compute. reflexivity. Qed.

Example C11_subset_nonvacuous :
  In k_1 c11_ks /\ pumps (map bk_key c11_ks) 1 /\
  forall c s, In (c, s) [(3%nat, 2)] -> pumps (map bk_key c11_ks) c.
Proof. apply (C11_subset 500 0%nat c11_ks c11_res c11_extract k_1). simpl. auto. Qed.

Example C11_productive_nonvacuous : Pk 0 c11_res.
Proof. exact (C11_productive 500 0%nat c11_ks c11_res c11_buckets c11_extract c11_Pk). Qed.

Example C11_minimal_nonvacuous :
  ~ Pk 0 [k_1; k_2; k_3v] /\ ~ Pk 0 [k_0a; k_2; k_3v] /\ ~ Pk 0 [k_0a; k_1; k_3v] /\ ~ Pk 0 [k_0a; k_1; k_2].
Proof.
  pose proof (C11_minimal 500 0%nat c11_ks c11_res c11_extract) as M.
  split; [apply (M 0%nat); simpl; lia|]. split; [apply (M 1%nat); simpl; lia|].
  split; [apply (M 2%nat); simpl; lia|apply (M 3%nat); simpl; lia].
Qed.
(* the conclusion discriminates: the inserted list itself is productive but NOT minimal *)
Example C11_minimal_near_miss : Pk 0 (firstn 1 c11_ks ++ skipn 2 c11_ks).
Proof. pk_by_run. Qed.

Example C11_closed_nonvacuous :
  forall k c, In k c11_res -> mentions_class c k -> exists k', In k' c11_res /\ parent (bk_key k') = c.
Proof.
  exact (C11_closed 500 0%nat c11_ks c11_res pick0 100%nat c11_stS c11_extract c11_runS
           C11_productive_nonvacuous).
Qed.
(* the conclusion discriminates: the rule set without its last key mentions class 3 without a rule *)
Example C11_closed_near_miss :
  mentions_class 3 k_1 /\ ~ exists k', In k' [k_0a; k_1; k_2] /\ parent (bk_key k') = 3%nat.
Proof.
  split; [right; exists 2; simpl; auto|]. intros (k' & Hk & E).
  simpl in Hk. repeat (destruct Hk as [<-|Hk]; [discriminate|]). destruct Hk.
Qed.

(* REVERSE keys: the pumping sub-universe without its REVERSE key still pumps the root, so no
   REVERSE key is extracted although one (k_1r) is available ... *)
Lemma c11_no_reverse_needed :
  exists st, run pick0 500 init (add_ops c11_ks) = Some st /\
     Pk 0 (filter (fun k => negb (in_bucket 0 k))
                  (map (fun i => nth i c11_ks (mkb dummy 0)) (pumping_subuniverse st))).
Proof. exists c11_st. split; [exact c11_run|]. pk_by_run. Qed.
Example C11_reverse_last_nonvacuous : forall k, In k c11_res -> bk_bucket k <> 0%nat.
Proof. exact (C11_reverse_last 500 0%nat c11_ks c11_res c11_buckets c11_extract c11_no_reverse_needed). Qed.
(* ... whereas a universe that needs its REVERSE key gets it (the premise fails there) *)
Example C11_reverse_last_near_miss :
  extract 500 0 [mkb (mkkey 0 [(1%nat, 1)]) 1; k_1r] = Ok [k_1r; mkb (mkkey 0 [(1%nat, 1)]) 1] /\
  ~ Pk 0 [mkb (mkkey 0 [(1%nat, 1)]) 1].
Proof. split; [vm_compute; reflexivity|not_pk_by_run]. Qed.

(* one rule per class for ANY minimal pumping key list: binary words,
   0 -> (1 shift 0), 1 -> (0 shift 1)(0 shift 1) *)
Definition c11_R : list fkey := [mkkey 0 [(1%nat, 0)]; mkkey 1 [(0%nat, 1); (0%nat, 1)]].
Lemma pumps_decided (R : list fkey) (c : nat) :
  pumps R c <-> pumping_answer (run_total pick0 (map AddKey R)) c = true.
Proof.
  destruct (TerminationRun.total_sound_complete pick0 (map AddKey R) c) as [A _].
  rewrite keys_of_addkeys in A. symmetry. exact A.
Qed.
Lemma c11_R_pumps : pumps c11_R 0.
Proof. apply pumps_decided. vm_compute. reflexivity. Qed.
Lemma c11_R_minimal : forall i, (i < length c11_R)%nat ->
  ~ pumps (firstn i c11_R ++ skipn (S i) c11_R) 0.
Proof.
  intros [|[|i]] Hi P; [| |simpl in Hi; lia]; apply pumps_decided in P; vm_compute in P; discriminate.
Qed.
Lemma c11_R_valued : forall i c, (i < length c11_R)%nat ->
  pumps (firstn i c11_R ++ skipn (S i) c11_R) c \/ exists n, terms (firstn i c11_R ++ skipn (S i) c11_R) c n.
Proof. intros i c _. apply valued_total. Qed.
Example C11_minimal_one_rule_per_class_nonvacuous :
  forall i j, (i < 2)%nat -> (j < 2)%nat -> parent (nth i c11_R dummy) = parent (nth j c11_R dummy) -> i = j.
Proof. exact (C11_minimal_one_rule_per_class c11_R 0%nat c11_R_pumps c11_R_minimal). Qed.
Example C11_minimal_one_rule_per_class_valued_nonvacuous :
  forall i j, (i < 2)%nat -> (j < 2)%nat -> parent (nth i c11_R dummy) = parent (nth j c11_R dummy) -> i = j.
Proof. exact (C11_minimal_one_rule_per_class_valued c11_R 0%nat c11_R_valued c11_R_pumps c11_R_minimal). Qed.
Example C11_minimal_one_rule_per_class_total_nonvacuous :
  forall i j, (i < 2)%nat -> (j < 2)%nat -> parent (nth i c11_R dummy) = parent (nth j c11_R dummy) -> i = j.
Proof. exact (C11_minimal_one_rule_per_class_total c11_R 0%nat c11_R_pumps c11_R_minimal). Qed.
(* near miss: with a second key for class 0 the list still pumps, is no longer minimal, and has two
   keys with the same left-hand side *)
Example C11_minimal_one_rule_per_class_near_miss :
  let R := c11_R ++ [mkkey 0 [(0%nat, 1)]] in
  pumps R 0 /\ pumps (firstn 2 R ++ skipn 3 R) 0 /\ parent (nth 0 R dummy) = parent (nth 2 R dummy).
Proof. split; [apply pumps_decided; vm_compute; reflexivity|]. split; [exact c11_R_pumps|reflexivity]. Qed.

(* C11_positional has no premise.  On the three-key list above: a sub-list with pairwise distinct
   left-hand sides still pumps class 0 *)
Example C11_positional_nonvacuous :
  exists R', incl R' (c11_R ++ [mkkey 0 [(0%nat, 1)]]) /\ NoDup (map parent R') /\ pumps R' 0.
Proof.
  destruct (C11_positional (c11_R ++ [mkkey 0 [(0%nat, 1)]])) as (R' & Hi & Hn & Hd).
  exists R'. split; [exact Hi|]. split; [exact Hn|]. intros v. apply Hd.
  apply (pumps_incl c11_R); [|exact c11_R_pumps]. intros x Hx. apply in_or_app. left. exact Hx.
Qed.

(* one rule per class for the extractor's result *)
Example C11_one_rule_per_class_nonvacuous :
  forall i j, (i < 4)%nat -> (j < 4)%nat ->
    parent (bk_key (nth i c11_res (mkb dummy 0))) = parent (bk_key (nth j c11_res (mkb dummy 0))) -> i = j.
Proof. exact (C11_one_rule_per_class 500 0%nat c11_ks c11_res c11_buckets c11_extract c11_Pk). Qed.
Lemma c11_res_runs : forall i, (i < length c11_res)%nat ->
  exists pick' fuel' st, run pick' fuel' init (add_ops (firstn i c11_res ++ skipn (S i) c11_res)) = Some st.
Proof.
  intros [|[|[|[|i]]]] Hi; [| | | |simpl in Hi; lia]; exists pick0, 100%nat; eexists; vm_compute; reflexivity.
Qed.
Example C11_one_rule_per_class_runs_nonvacuous :
  forall i j, (i < 4)%nat -> (j < 4)%nat ->
    parent (bk_key (nth i c11_res (mkb dummy 0))) = parent (bk_key (nth j c11_res (mkb dummy 0))) -> i = j.
Proof. exact (C11_one_rule_per_class_runs 500 0%nat c11_ks c11_res c11_buckets c11_extract c11_Pk c11_res_runs). Qed.
Example C11_one_rule_per_class_total_nonvacuous :
  forall i j, (i < 4)%nat -> (j < 4)%nat ->
    parent (bk_key (nth i c11_res (mkb dummy 0))) = parent (bk_key (nth j c11_res (mkb dummy 0))) -> i = j.
Proof. exact (C11_one_rule_per_class_total 500 0%nat c11_ks c11_res c11_buckets c11_extract c11_Pk). Qed.
Example C11_one_rule_per_class_partial_nonvacuous :
  forall i j, (i < 4)%nat -> (j < 4)%nat ->
    parent (bk_key (nth i c11_res (mkb dummy 0))) = parent (bk_key (nth j c11_res (mkb dummy 0))) -> i = j.
Proof. apply (C11_one_rule_per_class_partial c11_res). reflexivity. Qed.
(* the check really rejects a list with two keys for one class (the inserted universe) *)
Example C11_one_rule_per_class_partial_near_miss : distinct_parents c11_ks = false.
Proof. reflexivity. Qed.

(* totality *)
Example C11_total_nonvacuous : exists res, extract 0 0 c11_ks = Ok res.
Proof. exact (C11_total 0%nat 0%nat c11_ks c11_buckets c11_Pk). Qed.
(* C11_never_out_of_fuel and C11_fuel_irrelevant have no premise; both sides really are the rule
   set, even with the fuel floor 0 — and when the root does not pump (a case the harness entry
   point run_c11 filters out beforehand, status 3) the model answers the EMPTY rule set *)
Example C11_never_out_of_fuel_nonvacuous : extract 0 0 c11_ks <> OutOfFuel.
Proof. exact (C11_never_out_of_fuel 0%nat 0%nat c11_ks). Qed.
Example C11_fuel_irrelevant_nonvacuous : extract 0 0 c11_ks = extract 500 0 c11_ks.
Proof. exact (C11_fuel_irrelevant 0%nat 500%nat 0%nat c11_ks). Qed.
Example C11_fuel_irrelevant_value :
  extract 0 0 c11_ks = Ok c11_res /\ extract 500 0 c11_ks = Ok c11_res /\
  extract 0 0 [k_0a; k_1; k_2] = Ok [].
Proof. repeat split; vm_compute; reflexivity. Qed.
Example C11_closed_total_nonvacuous :
  forall k c, In k c11_res -> mentions_class c k -> exists k', In k' c11_res /\ parent (bk_key k') = c.
Proof. exact (C11_closed_total 500 0%nat c11_ks c11_res c11_buckets c11_Pk c11_extract). Qed.
Example C11_all_classes_pump_nonvacuous :
  forall k c, In k c11_res -> mentions_class c k -> pumps (map bk_key c11_res) c.
Proof. exact (C11_all_classes_pump 500 0%nat c11_ks c11_res c11_buckets c11_Pk c11_extract). Qed.
Example C11_total_correct_nonvacuous :
  exists res, extract 7 0 c11_ks = Ok res /\
    (forall k, In k res ->
       In k c11_ks /\ pumps (map bk_key c11_ks) (parent (bk_key k)) /\
       forall c s, In (c, s) (kids (bk_key k)) -> pumps (map bk_key c11_ks) c) /\
    Pk 0 res /\
    (forall i, (i < length res)%nat -> ~ Pk 0 (firstn i res ++ skipn (S i) res)) /\
    (forall k c, In k res -> mentions_class c k -> exists k', In k' res /\ parent (bk_key k') = c).
Proof. exact (C11_total_correct 7%nat 0%nat c11_ks c11_buckets c11_Pk). Qed.
(* C11_harness_never_out_of_fuel has no premise; what the harness entry point answers on the
   universe (status 0, four keys, check = 1): *)
Example C11_harness_never_out_of_fuel_nonvacuous :
  run_c11 (L [I 0; L (map enc_bkey c11_ks)]) <> L [I 1%Z; L []; I 0%Z].
Proof. exact (C11_harness_never_out_of_fuel (L [I 0; L (map enc_bkey c11_ks)])). Qed.
Example C11_harness_value :
  run_c11 (L [I 0; L (map enc_bkey c11_ks)]) = L [I 0; L (map enc_bkey c11_res); I 1].
Proof. vm_compute. reflexivity. Qed.

(* ================= REVERSE LAST, with a satisfiable hypothesis =================
   C11_reverse_last runs the table method with the raw `fuel`, while `extract` runs it with the
   fuel proved sufficient (Nat.max fuel (fuel_for ops)): for a small `fuel` its hypothesis is
   unsatisfiable.  Here the pumping sub-universe is read off `run_total` (the table method with
   the fuel bound of C03's termination theorem): the hypothesis is satisfiable for EVERY `fuel`. *)
Theorem C11_reverse_last_total : forall fuel root ks res,
  buckets_ok ks -> extract fuel root ks = Ok res ->
  Pk root (filter (fun k => negb (in_bucket 0 k))
             (map (fun i => nth i ks (mkb dummy 0))
                  (pumping_subuniverse (run_total pick0 (add_ops ks))))) ->
  forall k, In k res -> bk_bucket k <> 0%nat.
Proof.
  intros fuel root ks res B H HP.
  rewrite (extract_fuel_irrelevant fuel (fuel_bound (add_ops ks)) root ks) in H.
  apply (extract_reverse_last (fuel_bound (add_ops ks)) root ks res B H).
  exists (run_total pick0 (add_ops ks)). split; [apply run_total_spec|exact HP].
Qed.

Example C11_reverse_last_total_nonvacuous : forall fuel res,
  extract fuel 0 c11_ks = Ok res -> forall k, In k res -> bk_bucket k <> 0%nat.
Proof.
  intros fuel res H. apply (C11_reverse_last_total fuel 0%nat c11_ks res c11_buckets H).
  change (run_total pick0 (add_ops c11_ks)) with c11_st. pk_by_run.
Qed.
(* the old statement's hypothesis fails for fuel 0 (the run is out of fuel), the new one does not *)
Example C11_reverse_last_old_hypothesis_unsatisfiable :
  run pick0 0 init (add_ops c11_ks) = None.
Proof. vm_compute. reflexivity. Qed.

(* (imported here: ClassDB.Model / Searcher.Model reuse names of the forest model: init, run, OutOfFuel) *)
From CSS Require Import ClassDB.Model ClassDB.Proofs Searcher.Model Forest.FindRule Forest.FindRuleProofs
  Forest.FindRuleRun.

(* ================= EVERY KEY CAN BE TURNED BACK INTO A RULE WITH THAT KEY =================
   Model: Forest/FindRule.v (_rules_for_class, _find_rule, rules()) over the strategy table and
   the class database of the C04 searcher model; a forest key is the event EvKey the model of
   RuleDBForest.add emits, computed by the same functions (Searcher.Model.forest_key /
   reverse_keys).  Vocabulary (Forest/FindRuleProofs.v):
     good s            the class database of s is well formed and no exception was raised
     grows d d'        d' has all the labels of d and classdb.is_empty answers the same in both
     cand_key T s r v  (state, forest key) of the candidate rule r in its form v
                       (VNormal: r itself; VReverse i: r.to_reverse_rule(i))
     add_keys b s r    what RuleDBForest(reverse=b).add computes for r: forest_key, then the
                       reverse keys when b and r is reversible (C11_add_keys_is_forest_add)
     rules_for_class T pack c   the rules _rules_for_class re-creates from class c
     key_labels k      parent :: children of the key;  labels_used d ls: every label is in use
     find_rule T pack scan s key   scan = false: _find_rule as it is (replays the classes of the
                       key); scan = true: with the repair proposed for the open finding
                       (findings/c11_find_rule_scan_all_classes.diff: then every other label in use)
     search_labels scan s key      the labels whose classes are replayed. *)
Section FindRule.
Variable T : table.
Variable pack : list Z.

(* the keys of the theorems below are exactly what the model of RuleDBForest.add emits *)
Theorem C11_add_keys_is_forest_add : forall mode ar s start ends r,
  forest_add T mode ar s start ends r =
  (let s1 := if r_pe T r then add_empty_rules T ar s (combine ends (kids_of T r)) else s in
   let '(s3, ks) := add_keys T (mode =? 2)%Z s1 r in emits ks s3).
Proof. exact (forest_add_is_add_keys T). Qed.

(* whatever _find_rule returns was re-created by the pack from a class of the key, and its
   forest key - parent, children, shifts AND bucket - evaluated again in the state _find_rule
   leaves behind, IS the requested key *)
Theorem C11_find_rule_sound : forall scan s key s' r v,
  good s -> labels_used (cdb s) (key_labels key) ->
  find_rule T pack scan s key = (s', Found r v) ->
  good s' /\
  (exists l c, In l (search_labels scan s key) /\ label_of Z.eqb (fun c : Z => c) (cdb s') c = Some l /\
               In r (rules_for_class T pack c)) /\
  In v (variants_of T r) /\
  exists s'', cand_key T s' r v = (s'', key) /\ good s''.
Proof.
  intros scan s key s' r v G U H.
  destruct (find_rule_sound T pack _ _ _ _ _ _ G U H) as (G' & _ & A & B & L & E).
  split; auto. split; auto. split; auto. apply accepted_cand_key; auto.
Qed.

(* TOTAL: a key RuleDBForest.add inserted for the rule r is turned back into a rule with the
   same key by _find_rule in every later state, provided the pack re-creates r from a class c0
   whose label is the parent or a child of the key *)
Theorem C11_find_rule_total : forall reverse s0 r s1 ks s key c0 l0,
  good s0 -> rule_children T r <> None ->
  add_keys T reverse s0 r = (s1, ks) -> In key ks ->
  good s -> grows T (cdb s1) (cdb s) ->
  In r (rules_for_class T pack c0) ->
  label_of Z.eqb (fun c : Z => c) (cdb s) c0 = Some l0 -> In l0 (key_labels key) ->
  labels_used (cdb s) (key_labels key) ->
  exists s' r' v', find_rule T pack false s key = (s', Found r' v') /\ good s' /\
    In v' (variants_of T r') /\
    (exists l c, In l (key_labels key) /\ label_of Z.eqb (fun c : Z => c) (cdb s') c = Some l /\
                 In r' (rules_for_class T pack c)) /\
    exists s'', cand_key T s' r' v' = (s'', key) /\ good s''.
Proof.
  intros reverse s0 r s1 ks s key c0 l0 G0 Hch Ea Hk G X Hr Hc Hl U.
  assert (Hl' : In l0 (search_labels false s key)).
  { unfold search_labels, search_labels_d. rewrite app_nil_r. exact Hl. }
  destruct (find_rule_total T pack false reverse s0 r s1 ks s key c0 l0 G0 Hch Ea Hk G X Hr Hc Hl' U)
    as (s' & r' & v' & A & B & C & (l & c & D1 & D2) & E).
  exists s', r', v'. split; auto. split; auto. split; auto. split; auto.
  exists l, c. unfold search_labels, search_labels_d in D1. rewrite app_nil_r in D1. auto.
Qed.

(* the same with the proposed repair: NO condition on where the rule was produced, the class
   it was produced from only has to have a label (it always has: it is the class that was
   being expanded) *)
Theorem C11_find_rule_total_with_repair : forall reverse s0 r s1 ks s key c0 l0,
  good s0 -> rule_children T r <> None ->
  add_keys T reverse s0 r = (s1, ks) -> In key ks ->
  good s -> grows T (cdb s1) (cdb s) ->
  In r (rules_for_class T pack c0) ->
  label_of Z.eqb (fun c : Z => c) (cdb s) c0 = Some l0 ->
  labels_used (cdb s) (key_labels key) ->
  exists s' r' v', find_rule T pack true s key = (s', Found r' v') /\ good s' /\
    exists s'', cand_key T s' r' v' = (s'', key) /\ good s''.
Proof. exact (find_rule_total_scan T pack). Qed.

(* ... in particular ALWAYS when the pack re-creates the rule from its own parent class: every
   rule of a plain, verification or symmetry strategy of the pack, every strategy a factory
   yields as such, every ready rule a factory yields for the class it is applied to
   (C11_rule_parent_plain / C11_rule_parent_item say which rules these are) *)
Theorem C11_find_rule_total_own_parent : forall scan reverse s0 r s1 ks s key l0,
  good s0 -> rule_children T r <> None ->
  add_keys T reverse s0 r = (s1, ks) -> In key ks ->
  good s -> grows T (cdb s1) (cdb s) ->
  In r (rules_for_class T pack (r_parent r)) ->
  label_of Z.eqb (fun c : Z => c) (cdb s) (r_parent r) = Some l0 ->
  labels_used (cdb s) (key_labels key) ->
  exists s' r' v', find_rule T pack scan s key = (s', Found r' v') /\ good s' /\
    exists s'', cand_key T s' r' v' = (s'', key) /\ good s''.
Proof. exact (find_rule_total_own_parent T pack). Qed.

Theorem C11_rule_parent_plain : forall sid c r x,
  In r (rules_from_strategy T sid c) -> strat_of T sid = Some x -> s_kind x <> 1%Z -> r_parent r = c.
Proof. exact (rules_from_strategy_parent T). Qed.

Theorem C11_rule_parent_item : forall c it r, In r (rules_of_item T c it) ->
  r_parent r = c \/ (exists p, i_on it = Some p /\ r_parent r = p).
Proof. exact (rules_of_item_parent T). Qed.

(* THE FAILING CASE, exactly: RuntimeError("Can't find a rule") means that no candidate the
   pack re-creates from a class of the key has the key.  With C11_find_rule_total: for a key
   inserted for r (and an unchanged view) this happens only when r is re-created from NO class
   of the key, i.e. r is a ready rule of a factory with a foreign parent, produced only from
   classes outside the key (open finding find-rule-foreign-parent-outside-key,
   C11_find_rule_foreign_parent_fails below) *)
Theorem C11_find_rule_not_found : forall scan s key s',
  good s -> labels_used (cdb s) (key_labels key) ->
  find_rule T pack scan s key = (s', NotFound) ->
  good s' /\
  forall l c r v, In l (search_labels scan s key) -> label_of Z.eqb (fun c : Z => c) (cdb s') c = Some l ->
    In r (rules_for_class T pack c) -> In v (variants_of T r) ->
    forall s'' k, cand_key T s' r v = (s'', k) -> k <> key.
Proof.
  intros scan s key s' G U H. destruct (find_rule_not_found T pack _ _ _ _ G U H) as (G' & _ & N).
  split; auto. intros l c r v Hl Hc Hr Hv s'' k Ek.
  destruct (N l c r v Hl Hc Hr Hv) as (L & Ne).
  destruct (cand_key_good T _ _ _ _ _ G' Ek) as (G'' & X & _ & ->).
  rewrite (ckey_stable T _ _ _ _ (proj1 G') (proj1 G'') X L). exact Ne.
Qed.

(* _find_rule raises nothing else: the state it leaves is usable *)
Theorem C11_find_rule_no_exception : forall scan s key s' f,
  good s -> labels_used (cdb s) (key_labels key) ->
  find_rule T pack scan s key = (s', f) -> good s' /\ grows T (cdb s) (cdb s').
Proof. exact (find_rule_good T pack). Qed.

(* the hypothesis `grows` of C11_find_rule_total between insertion and extraction: labels
   are never changed (C04_labels_stable), so it holds whenever the emptiness answers are
   truthful in both states - which C04_empty_cache_truthful proves for every run of the
   searcher under the strategy contracts *)
Theorem C11_view_grows_under_contracts : forall d d',
  @WF Z d -> @WF Z d' -> extends d d' ->
  EmptyOK (fun k : Z => k) (oracle T) d -> EmptyOK (fun k : Z => k) (oracle T) d' -> grows T d d'.
Proof. exact (grows_of_EOK T). Qed.

(* rules(cache): every key it gets past is answered - from the cache or by _find_rule - by a
   rule that has this key, in order; it gives up at the first key that no candidate re-created
   from the classes of the key has *)
Theorem C11_rules_served : forall scan s cache needed s' out e,
  good s -> (forall k, In k needed -> labels_used (cdb s) (key_labels k)) ->
  rules T pack scan s cache needed = (s', out, e) ->
  good s' /\ served T pack scan (cdb s') needed out e.
Proof.
  intros scan s cache needed s' out e G U H.
  destruct (rules_served T pack _ _ _ _ _ _ _ G U H) as (G' & _ & S). auto.
Qed.

End FindRule.

(* the harness entry point runs the extractor model on (root, keys) inputs unchanged *)
Theorem C11_harness_dispatch : forall z rest,
  run_c11_all (L (I z :: rest)) = run_c11 (L (I z :: rest)).
Proof. reflexivity. Qed.

(* ---- non-vacuity.  The universe of the seeded change C02c: T1 = class 0, T2 = class 1,
   A1 = class 2; Subtract (sid 0) and Factor (sid 1) both decompose T2 into (T1, A1), with
   shifts (0,0) and (1,1); Peel (sid 2): T1 -> (T2, A1); sid 3 verifies A1.  Pack order
   Subtract, Factor, Peel, verification. *)
Definition fr_T : table :=
  mkT [0; 0; 0]%Z
      [mkS 0 false true false true [(1, mkE [0; 2] false false [0; 0])]%Z [];
       mkS 0 false true false true [(1, mkE [0; 2] false false [1; 1])]%Z [];
       mkS 0 false true false true [(0, mkE [1; 2] false true [0; 0])]%Z [];
       mkS 2 false false false false [(2, mkE [] false false [])]%Z []]
      [3]%Z [].
Definition fr_pack : list Z := [0; 1; 2; 3]%Z.
Definition fr_s0 : st := state_of [0; 1; 2]%Z [Some false; Some false; Some false].
Definition fr_factor : rule := mkR 1 1 RPlain.
Definition fr_subtract : rule := mkR 0 1 RPlain.
Definition fr_key : event := EvKey 1 [0; 2] [1; 1] 1.

Lemma fr_good : good fr_s0.
Proof.
  split; [|reflexivity]. split; [reflexivity|]. split; [reflexivity|].
  simpl. repeat constructor; simpl; intuition discriminate.
Qed.

(* the key is the one RuleDBForest.add inserts for Factor; _find_rule returns Factor although
   Subtract comes first in the pack and has the same parent and the same children *)
Example C11_find_rule_nonvacuous :
  add_keys fr_T true fr_s0 fr_factor = (fr_s0, [fr_key]) /\
  find_rule fr_T fr_pack false fr_s0 fr_key = (fr_s0, Found fr_factor VNormal) /\
  cand_key fr_T fr_s0 fr_subtract VNormal = (fr_s0, EvKey 1 [0; 2] [0; 0] 1).
Proof. repeat split; vm_compute; reflexivity. Qed.

Example C11_find_rule_total_nonvacuous :
  exists s' r' v', find_rule fr_T fr_pack false fr_s0 fr_key = (s', Found r' v') /\ good s' /\
    exists s'', cand_key fr_T s' r' v' = (s'', fr_key) /\ good s''.
Proof.
  destruct (C11_find_rule_total fr_T fr_pack true fr_s0 fr_factor fr_s0 [fr_key] fr_s0 fr_key 1%Z 1%Z)
    as (s' & r' & v' & A & B & _ & _ & C).
  - exact fr_good.
  - discriminate.
  - vm_compute. reflexivity.
  - left. reflexivity.
  - exact fr_good.
  - apply grows_refl.
  - vm_compute. auto.
  - reflexivity.
  - left. reflexivity.
  - intros l [<-|[<-|[<-|[]]]]; [exists 1%Z|exists 0%Z|exists 2%Z]; reflexivity.
  - exists s', r', v'. auto.
Qed.

(* a reverse rule: the key of Peel reversed w.r.t. its first child (parent T2, children T1, A1,
   shifts (0,0), bucket REVERSE) is re-created from class T1, a CHILD of the key *)
Example C11_find_rule_reverse_nonvacuous :
  find_rule fr_T fr_pack false fr_s0 (EvKey 1 [0; 2] [0; 0] 0) = (fr_s0, Found (mkR 2 0 RPlain) (VReverse 0)).
Proof. vm_compute. reflexivity. Qed.

(* the failing case: the factory (sid 1) applied to class 0 yields the READY rule S0(1) -> (2);
   its key (1, (2), (0), EQUIV) is inserted, but neither class 1 nor class 2 re-creates it *)
Definition ff_T : table :=
  mkT [0; 0; 0]%Z
      [mkS 0 false true false true [(1, mkE [2] false false [0])]%Z [];
       mkS 1 false true true true [] [(0, [mkI 0 (Some 1) false])]%Z;
       mkS 2 false false false false [(2, mkE [] false false [])]%Z []]
      [2]%Z [].
Example C11_find_rule_foreign_parent_fails :
  In (mkR 0 1 RPlain) (rules_from_strategy ff_T 1 0) /\
  add_keys ff_T false fr_s0 (mkR 0 1 RPlain) = (fr_s0, [EvKey 1 [2] [0] 2]) /\
  find_rule ff_T [1; 2]%Z false fr_s0 (EvKey 1 [2] [0] 2) = (fr_s0, NotFound) /\
  find_rule ff_T [1; 2]%Z true fr_s0 (EvKey 1 [2] [0] 2) = (fr_s0, Found (mkR 0 1 RPlain) VNormal) /\
  ~ In (mkR 0 1 RPlain) (rules_for_class ff_T [1; 2]%Z 1) /\
  ~ In (mkR 0 1 RPlain) (rules_for_class ff_T [1; 2]%Z 2).
Proof.
  split; [vm_compute; auto|]. split; [vm_compute; reflexivity|]. split; [vm_compute; reflexivity|].
  split; [vm_compute; reflexivity|]. split; vm_compute; intuition discriminate.
Qed.

(* the hypothesis `grows` is needed: the key of Peel (T1 -> T2, A1) inserted while the cache
   says "A1 is empty" has the bucket EQUIV (one non-empty child); once the cache says "A1 is not
   empty" (classdb.set_empty(label, False) by add_rule for a child of a rule that is not
   possibly_empty) the recomputed bucket is NORMAL and no candidate has the key any more.  This
   needs a strategy that breaks its contract: with truthful caches both answers agree
   (C11_view_grows_under_contracts) *)
Example C11_find_rule_needs_same_emptiness :
  let s_a := state_of [0; 1; 2]%Z [Some false; Some false; Some true] in
  good s_a /\ good fr_s0 /\
  add_keys fr_T false s_a (mkR 2 0 RPlain) = (s_a, [EvKey 0 [1; 2] [0; 0] 2]) /\
  find_rule fr_T fr_pack false fr_s0 (EvKey 0 [1; 2] [0; 0] 2) = (fr_s0, NotFound) /\
  ~ grows fr_T (cdb s_a) (cdb fr_s0).
Proof.
  split; [|split; [exact fr_good|]].
  { split; [|reflexivity]. split; [reflexivity|]. split; [reflexivity|].
    simpl. repeat constructor; simpl; intuition discriminate. }
  split; [vm_compute; reflexivity|]. split; [vm_compute; reflexivity|].
  intros (_ & E). specialize (E 2%Z). vm_compute in E. discriminate E.
Qed.

(* rules(): the rule of EmptyStrategy is dropped, an EQUIV key with two children is handed out as
   an equivalence rule, a cached rule is used without a search *)
Example C11_rules_nonvacuous :
  rules fr_T fr_pack false fr_s0 [(fr_factor, VNormal)] [fr_key; EvKey 2 [] [] 3] =
  (fr_s0, [ORule fr_factor VNormal false; ORule (mkR 3 2 RVer) VNormal false], None).
Proof. vm_compute. reflexivity. Qed.

(* ================= the bucket order is the source's (translator) =================
   Extractor.minimize is `for key in MINIMIZE_ORDER: _minimize_key(key)` run over
   the constant of the source (Gen/ForestMinimizeOrder.v, re-translated from
   rule_db/forest.py on every run; buckets numbered 0 REVERSE, 1 NORMAL, 2 EQUIV,
   3 VERIFICATION as in the model and the harness). *)
Theorem C11_minimize_order_is_source : forall prod b0 b1 b2 b3,
  minimize prod b0 b1 b2 b3 =
  minimize_in_order prod [] (map Z.to_nat ForestMinimizeOrder.minimize_order)
                    (fun k => nth k [b0; b1; b2; b3] []).
Proof. exact minimize_is_source_order. Qed.

Print Assumptions C11_subset.
Print Assumptions C11_productive.
Print Assumptions C11_minimal.
Print Assumptions C11_closed.
Print Assumptions C11_reverse_last.
Print Assumptions C11_one_rule_per_class_partial.
Print Assumptions C11_minimal_one_rule_per_class.
Print Assumptions C11_minimal_one_rule_per_class_valued.
Print Assumptions C11_positional.
Print Assumptions C11_one_rule_per_class.
Print Assumptions C11_one_rule_per_class_runs.
Print Assumptions C11_never_out_of_fuel.
Print Assumptions C11_fuel_irrelevant.
Print Assumptions C11_total.
Print Assumptions C11_closed_total.
Print Assumptions C11_all_classes_pump.
Print Assumptions C11_total_correct.
Print Assumptions C11_harness_never_out_of_fuel.
Print Assumptions C11_minimal_one_rule_per_class_total.
Print Assumptions C11_one_rule_per_class_total.
Print Assumptions C11_minimize_order_is_source.
Print Assumptions C11_reverse_last_total.
Print Assumptions C11_add_keys_is_forest_add.
Print Assumptions C11_find_rule_sound.
Print Assumptions C11_find_rule_total.
Print Assumptions C11_find_rule_total_with_repair.
Print Assumptions C11_find_rule_total_own_parent.
Print Assumptions C11_rule_parent_plain.
Print Assumptions C11_rule_parent_item.
Print Assumptions C11_find_rule_not_found.
Print Assumptions C11_find_rule_no_exception.
Print Assumptions C11_view_grows_under_contracts.
Print Assumptions C11_rules_served.
Print Assumptions C11_harness_dispatch.
