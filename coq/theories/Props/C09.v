(* C09 — every rule form counts its parent correctly from its children, with parameters.

   Only statements; the proofs are applications of lemmas of Count/Constructors*.v.
   The MODEL (Count/Constructors.v) transcribes DisjointUnion / Complement /
   CartesianProduct / Quotient .get_terms, the three param_map variants, the
   position maps built from the extra_parameters dictionaries, Rule._ensure_level
   and the constructors rebuilt by EquivalenceRule / EquivalencePathRule (incl. the one-factor
   product branches of fix 25e10f1: forms 7/8, typed path steps, Quotient._c without sibling), over the
   GENERATED utils.compositions and Quotient.__init__ arithmetic (Gen/*.v).

   Vocabulary (Count/Terms.v): a term table is a list of (parameter tuple, value)
   entries meaning the Counter  p |-> tget t p ; teq a b says two tables mean the
   same; rekey f t re-keys a table through a parameter map.
   "True tables" are arbitrary tables here: every theorem holds for ALL tables that
   satisfy the stated genuineness identity, i.e. for all classes and all strategies
   whose rule is genuine.
     union_genuine fs tabs Tp      Tp = sum over the children of the re-keyed child tables
     product_genuine fs tabs Tp n  Tp = the FULL convolution over all compositions of n into
                                   non-negative parts, parameters added through fs
   Exceptions of the code are results `Err code` of the model; every theorem
   concludes `= Ok r`, i.e. no assertion fires.                                       *)
From Coq Require Import ZArith List Bool Lia.
From CSS Require Import Gen.Prelude Gen.Compositions Gen.QuotientParentShift
  Count.CompositionsSpec Count.Terms Count.Constructors Count.ConstructorsUnionProduct
  Count.ConstructorsComplement Count.ConstructorsQuotient Count.ConstructorsDerived Count.ConstructorsDict.
From CSS Require Import Count.TermsPoly Count.TermsPolyOrder Count.TermsPolyDiv Count.ConstructorsConv
  Count.ConstructorsQuotientParams Count.ConstructorsSteps Count.ConstructorsStepsQuotient.
From CSS Require Import Gen.ConstructorParamMap Gen.UnionParamMap Gen.QuotientParamMap Count.GenBridgeParamMap.
From CSS Require Import Gen.PathDictInitial Gen.PathDictCompose Gen.PathDictInvert Gen.PathDictDuplicates Count.GenBridgePathDict.
Import ListNotations.
Open Scope Z_scope.

(* ------------------------------------------------------------ parameter maps *)
(* DisjointUnion.param_map (first value wins + assert) never asserts and returns what
   Constructor.param_map (summing) returns, as long as no target position is hit twice.
   (Two parent statistics mapped onto one child statistic hit a position twice in
   Complement._build_parent_param_map: there the two variants differ — the 4.2.1 bug.) *)
Theorem C09_param_maps_agree : forall pm num param,
  length param = length pm -> NoDup (concat pm) ->
  du_param_map pm num param = Ok (sum_param_map pm num param).
Proof. exact du_param_map_sum'. Qed.

(* ------------------------------------------------------------ union *)
Theorem C09_union : forall pms fs tabs Tp,
  MapsOk pms fs tabs ->               (* the children's maps succeed on the keys present *)
  union_genuine fs tabs Tp ->
  exists r, union_get_terms pms tabs = Ok r /\ teq r Tp.
Proof. exact union_correct. Qed.

(* ------------------------------------------------------------ product *)
(* pruning the compositions by min_sizes / max_sizes loses nothing, provided child i has
   no object below mins_i nor (atoms) above maxs_i — the minimum_size_of_object / is_atom
   contract, stated as Vanish *)
Theorem C09_product : forall fs mins maxs tabs Tp n,
  1 <= zlen tabs -> Forall (fun m => 0 <= m) mins -> Vanish tabs mins maxs ->
  product_genuine fs tabs Tp n ->
  teq (product_get_terms fs mins maxs tabs n) Tp.
Proof. exact product_correct. Qed.

(* ------------------------------------------------------------ complement *)
(* the original union rule has children  tpre ++ Ti :: tpost  with maps  fpre ++ fi :: fpost;
   the reverse rule w.r.t. Ti receives the parent's table and the siblings' tables.
   g is the parent map (parent coordinates -> Ti's coordinates); the round-trip
   hypothesis is the case the code supports: every statistic of the flipped child is
   the image of a parent statistic, mapped injectively.  Siblings may drop or merge
   statistics freely (their maps are arbitrary). *)
Theorem C09_complement : forall ppm g pms fpre fi fpost (TP Ti : terms) tpre tpost,
  length fpre = length tpre ->
  union_genuine (fpre ++ fi :: fpost) (tpre ++ Ti :: tpost) TP ->
  nonneg Ti -> Forall nonneg (tpre ++ tpost) ->
  maps_ok ppm g (filter (fun e : entry => negb (snd e =? 0)) TP) ->
  CMapsOk ppm pms (map (fun f k => g (f k)) (fpre ++ fpost)) (tpre ++ tpost) ->
  (forall k v, In (k, v) Ti -> g (fi k) = k) ->
  exists r, complement_get_terms ppm pms TP (tpre ++ tpost) = Ok r /\ teq r Ti.
Proof.
  intros ppm g pms fpre fi fpost TP Ti tpre tpost Hlen Hgen HnT Hns Hppm Hsib Hround.
  eapply complement_correct; eauto.
  eapply teq_trans; [exact Hgen|]. apply union_table_split. exact Hlen.
Qed.

(* ------------------------------------------------------------ quotient, parameter-free *)
(* cs = (minimum size, is_atom) of the original product's children, tabs their true
   tables, TP the parent's; no class has an extra parameter (all keys are ()).
   Running Rule._ensure_level for sizes 0..N with the Quotient constructor of child idx
   raises nothing and level m holds exactly the number of objects of size m of child idx.
   Hypotheses: >= 2 children, the contract Vanish, counts are non-negative, the product
   rule is genuine at the sizes that are READ (level n reads the parent at n + _parent_shift:
   sizes 0 .. N + _parent_shift; nothing is assumed about larger sizes), and the siblings have
   objects of their minimum sizes (product of those numbers <> 0: otherwise the code divides
   by zero). *)
Theorem C09_quotient_parameter_free : forall fs ppm cs idx TP tabs N,
  (idx < length cs)%nat -> (2 <= length cs)%nat -> length tabs = length cs ->
  Forall const_nil fs -> ppm [] = Ok [] ->
  Forall (fun m => 0 <= m) (quotient_min_sizes cs) ->
  Vanish tabs (quotient_min_sizes cs) (quotient_max_sizes cs) ->
  Forall (fun tab : Z -> terms => forall m, nonneg (tab m)) tabs ->
  (forall m, nokeys (TP m)) ->
  (forall m, 0 <= m <= N + quotient_parent_shift cs (Z.of_nat idx) -> product_genuine fs tabs (TP m) m) ->
  hprod (remove_at idx tabs) (remove_at idx (quotient_min_sizes cs)) <> 0 ->
  0 <= N ->
  exists tl : list terms,
    levels (qstep fs ppm cs idx TP tabs) N = (tl, None) /\ length tl = Z.to_nat (N + 1) /\
    forall m, (m < length tl)%nat ->
      nokeys (nth m tl []) /\
      tsum (nth m tl []) = tsum (nth idx tabs (fun _ => []) (Z.of_nat m)).
Proof.
  intros. eapply quotient_nopar_correct; eauto.
Qed.

(* ------------------------------------------------------------ quotient WITH parameters *)
(* Term tables as sparse polynomials in the parameter variables (Quotient._terms_to_poly): the table
   t means the finitely supported function p |-> tget t p; ++ is addition, pmul multiplication
   (exponent tuples added), exact_quotient p d q says q * d = p.

   THE DIVISION STEP.  Quotient._b calls sympy.div(a_poly, c_poly, domain="ZZ") and asserts that
   the remainder is 0, i.e. it relies on sympy.div returning the exact quotient when one exists.
   sympy.div is NOT modelled and stays in the TRUSTED base: it is trusted to return THE polynomial
   q with q * c_poly = a_poly.  That polynomial is unique (C09_exact_quotient_unique: the
   polynomials over Z in L variables have no zero divisors), and the model's own exact division
   poly_div (long division by leading terms in the lexicographic order, on canonical tables, with a
   fuel bound) is PROVED to return it (C09_exact_division) for dividend = B * c with B, c tables of
   counts: non-negative coefficients, non-negative exponents, c <> 0.  The correspondence check
   compares poly_div with what the implementation (through sympy) returns on every reverse product
   rule with parameters. *)
Theorem C09_exact_quotient_unique : forall L p d q q',
  klen L d -> klen L q -> klen L q' -> ~ pzero d ->
  exact_quotient p d q -> exact_quotient p d q' -> teq q q'.
Proof. exact exact_quotient_unique. Qed.

Theorem C09_no_zero_divisors : forall L a b,
  klen L a -> klen L b -> pzero (pmul a b) -> pzero a \/ pzero b.
Proof. exact pmul_no_zero_divisors. Qed.

(* slen / snonneg speak about the monomials with a non-zero coefficient only *)
Theorem C09_exact_division : forall L a c B,
  slen L B -> slen L c -> snonneg B -> snonneg c ->
  (forall p, 0 <= tget B p) -> (forall p, 0 <= tget c p) -> ~ pzero c ->
  teq a (pmul B c) ->
  exists b, poly_div a c = Ok b /\ canon b /\ teq b B.
Proof. exact poly_div_exact. Qed.

(* ... and it is the quotient every exact divider must return *)
Theorem C09_exact_division_is_the_quotient : forall L a c B q,
  klen L B -> klen L c -> snonneg B -> snonneg c ->
  (forall p, 0 <= tget B p) -> (forall p, 0 <= tget c p) -> ~ pzero c ->
  teq a (pmul B c) -> klen L q -> exact_quotient a c q ->
  exists b, poly_div a c = Ok b /\ teq b q.
Proof. exact poly_div_is_the_exact_quotient. Qed.

(* THE QUOTIENT RULE.  cs = (minimum size, is_atom) of the ORIGINAL product's children, fs their
   parameter maps (child tuple -> parent tuple), tabs their true tables, TP the original parent's,
   num >= 1 the number of parent parameters, ppm the parent map Quotient._parent_param_map.
   Running Rule._ensure_level for sizes 0..N with the Quotient constructor of child idx raises
   nothing and level m is the TRUE TABLE of child idx at size m, for every parameter tuple.
   What the code needs (read off cartesian.py Quotient.__init__/_a/_c/_b/get_terms):
     * >= 2 children; the minimum_size_of_object / is_atom contract (Vanish) — compositions are
       pruned by _min_sizes/_max_sizes, and _parent_shift = sum of the siblings' minimum sizes;
     * the product rule is genuine (full convolution, parameters added through fs) at the sizes
       read: level n reads the parent at n + _parent_shift, so sizes 0 .. N + _parent_shift;
     * every sibling has an object of its MINIMUM size (hprod <> 0): _c is built from the single
       composition of _parent_shift, the siblings at their minimum sizes — otherwise c_poly = 0;
     * tables are counts (>= 0) and parameter values are >= 0 (they are exponents);
     * the parent map sends the image f_idx(k) of a tuple k of the flipped child back to k and
       raises nothing (C09_quotient_parent_map_round_trip discharges this for the map the code
       builds when every statistic of the flipped child is the image of a parent statistic;
       merged statistics on the flipped child ARE fine here, untracked ones are the open finding
       "complement-untracked-child-statistic": Quotient.param_map asserts).
   Siblings may drop / merge / add statistics arbitrarily (fs are arbitrary maps). *)
Theorem C09_quotient_params : forall fs ppm num cs idx TP tabs N,
  (idx < length cs)%nat -> (2 <= length cs)%nat -> length tabs = length cs -> length fs = length cs ->
  (1 <= num)%nat ->
  Forall (fun f : params -> params => forall k, length (f k) = num) fs ->
  Forall (fun m => 0 <= m) (quotient_min_sizes cs) ->
  Vanish tabs (quotient_min_sizes cs) (quotient_max_sizes cs) ->
  Forall (fun tab : Z -> terms => forall m, nonneg (tab m)) tabs ->
  Forall2 (fun (f : params -> params) (tab : Z -> terms) =>
             forall m k v, In (k, v) (tab m) -> Forall (fun y => 0 <= y) (f k)) fs tabs ->
  (forall m, 0 <= m <= N + quotient_parent_shift cs (Z.of_nat idx) -> product_genuine fs tabs (TP m) m) ->
  hprod (remove_at idx tabs) (remove_at idx (quotient_min_sizes cs)) <> 0 ->
  (forall m k v, In (k, v) (nth idx tabs (fun _ => []) m) -> ppm (nth idx fs (fun k0 => k0) k) = Ok k) ->
  0 <= N ->
  exists tl : list terms,
    levels (qstep_p fs ppm num cs idx TP tabs) N = (tl, None) /\ length tl = Z.to_nat (N + 1) /\
    forall m, (m < length tl)%nat -> teq (nth m tl []) (nth idx tabs (fun _ => []) (Z.of_nat m)).
Proof. exact quotient_params_correct. Qed.

(* Quotient.param_map over the position map _build_parent_param_map builds (parent_pm), applied
   to the image of a child tuple: returns that tuple, no assertion — when every statistic of the
   flipped child is a value of its dictionary *)
Theorem C09_quotient_parent_map_round_trip : forall pnames cnames d k,
  wf_dict pnames cnames d ->
  (forall a b, In (a, b) d -> In b cnames) ->
  (forall cv, In cv cnames -> In cv (map snd d)) ->
  length k = length cnames ->
  parent_pos_map pnames cnames d = Ok (parent_pm pnames cnames d) /\
  q_param_map (parent_pm pnames cnames d) (length cnames) (dict_sem pnames cnames d k) = Ok k.
Proof.
  intros pnames cnames d k Hwf Hv Hc Hl. split.
  - apply parent_pos_map_ok; [exact Hv|]. destruct Hwf as (_ & H & _). exact H.
  - apply quotient_parent_map_round_trip; assumption.
Qed.

(* ------------------------------------------------------------ END TO END: the executable steps
   The correspondence check runs the functions *_step of Count/Constructors.v (they build the
   position maps from the extra_parameters dictionaries like the constructors' __init__ and then
   call get_terms) inside `levels` (Rule._ensure_level).  The theorems below are about exactly
   those functions: kids = (names, dictionary, minimum size, is_atom, is_empty) of the original
   rule's children, ktabs/ptabs the true tables by size (tab_at t n = the table of size n);
   genuineness is stated through the dictionary semantics kid_sem = dict_sem (a dropped statistic
   is 0, merged statistics share a child statistic, child statistics may be untracked).
     kid_wf       the dictionary is well formed (distinct names, distinct keys among the parent's)
     kid_keys k t every key of t has one entry per statistic of the class
     flip_ok      the flipped child's dictionary is injective, onto the child's statistics
   C09_*_step_is_* are the refinement lemmas (step = constructor get_terms over the built maps). *)
Theorem C09_union_step_is_union_get_terms : forall pnames kids ktabs own n,
  Forall (kid_wf pnames) kids ->
  union_step pnames kids ktabs own n =
  union_get_terms (map (kid_du pnames) kids) (map (fun t => tab_at t n) ktabs).
Proof. exact union_step_is_union_get_terms. Qed.

Theorem C09_union_step : forall pnames kids ktabs Tp own n,
  Forall (kid_wf pnames) kids ->
  Forall2 kid_keys kids (map (fun t => tab_at t n) ktabs) ->
  union_genuine (map (kid_sem pnames) kids) (map (fun t => tab_at t n) ktabs) Tp ->
  exists r, union_step pnames kids ktabs own n = Ok r /\ teq r Tp.
Proof. exact union_step_correct. Qed.

Theorem C09_product_step_is_product_get_terms : forall pnames kids ktabs own n,
  Forall (kid_wf pnames) kids ->
  product_step pnames kids ktabs own n =
  Ok (product_get_terms (map (kid_sum pnames) kids) (kid_mins kids) (kid_maxs kids) (map tab_at ktabs) n).
Proof. exact product_step_is_product_get_terms. Qed.

Theorem C09_product_step : forall pnames kids ktabs Tp own n,
  (1 <= length kids)%nat -> length ktabs = length kids ->
  Forall (kid_wf pnames) kids ->
  Forall2 (fun k (tab : Z -> terms) => forall m, kid_keys k (tab m)) kids (map tab_at ktabs) ->
  Forall (fun m => 0 <= m) (kid_mins kids) ->
  Vanish (map tab_at ktabs) (kid_mins kids) (kid_maxs kids) ->
  product_genuine (map (kid_sem pnames) kids) (map tab_at ktabs) Tp n ->
  exists r, product_step pnames kids ktabs own n = Ok r /\ teq r Tp.
Proof. exact product_step_correct. Qed.

Theorem C09_complement_step_is_complement_get_terms : forall pnames kids idx ptabs ktabs own n,
  let ki := nth idx kids default_kid in
  Forall (kid_wf pnames) kids ->
  (forall a b, In (a, b) (k_dict ki) -> In b (k_names ki)) ->
  exists pm, parent_pos_map pnames (k_names ki) (k_dict ki) = Ok pm /\
  complement_step pnames kids idx ptabs ktabs own n =
  complement_get_terms (du_param_map pm (length (k_names ki))) (map (kid_du pnames) (remove_at idx kids))
    (tab_at ptabs n) (map (fun t => tab_at t n) (remove_at idx ktabs)).
Proof. exact complement_step_is_complement_get_terms. Qed.

Theorem C09_complement_step : forall pnames kids idx ptabs ktabs own n,
  let ki := nth idx kids default_kid in
  (idx < length kids)%nat -> length ktabs = length kids ->
  NoDup pnames -> Forall (kid_wf pnames) kids -> flip_ok pnames ki ->
  klen (length pnames) (tab_at ptabs n) ->
  Forall2 kid_keys kids (map (fun t => tab_at t n) ktabs) ->
  Forall nonneg (map (fun t => tab_at t n) ktabs) ->
  union_genuine (map (kid_sem pnames) kids) (map (fun t => tab_at t n) ktabs) (tab_at ptabs n) ->
  exists r, complement_step pnames kids idx ptabs ktabs own n = Ok r /\
            teq r (tab_at (nth idx ktabs []) n).
Proof. exact complement_step_correct. Qed.

Theorem C09_quotient_step_is_qstep : forall pnames kids idx ptabs ktabs own n,
  let ki := nth idx kids default_kid in
  Forall (kid_wf pnames) kids -> NoDup (k_names ki) ->
  (forall a b, In (a, b) (k_dict ki) -> In b (k_names ki)) ->
  quotient_step pnames kids idx ptabs ktabs own n =
  qstep_p (map (kid_sum pnames) kids) (quot_ppm pnames ki) (length pnames) (kid_descs kids) idx
          (tab_at ptabs) (map tab_at ktabs) own n.
Proof. exact quotient_step_is_qstep_p. Qed.

Theorem C09_quotient_step : forall pnames kids idx ptabs ktabs N,
  let ki := nth idx kids default_kid in
  let psh := quotient_parent_shift (kid_descs kids) (Z.of_nat idx) in
  (idx < length kids)%nat -> (2 <= length kids)%nat -> length ktabs = length kids ->
  (1 <= length pnames)%nat ->
  Forall (kid_wf pnames) kids ->
  (forall a b, In (a, b) (k_dict ki) -> In b (k_names ki)) ->
  (forall cv, In cv (k_names ki) -> In cv (map snd (k_dict ki))) ->
  Forall2 (fun k (tab : Z -> terms) => forall m, kid_keys k (tab m)) kids (map tab_at ktabs) ->
  Forall (fun tab : Z -> terms => forall m, nonneg (tab m)) (map tab_at ktabs) ->
  Forall (fun tab : Z -> terms => forall m, knonneg (tab m)) (map tab_at ktabs) ->
  Forall (fun m => 0 <= m) (kid_mins kids) ->
  Vanish (map tab_at ktabs) (kid_mins kids) (kid_maxs kids) ->
  (forall m, 0 <= m <= N + psh ->
     product_genuine (map (kid_sem pnames) kids) (map tab_at ktabs) (tab_at ptabs m) m) ->
  hprod (remove_at idx (map tab_at ktabs)) (remove_at idx (kid_mins kids)) <> 0 ->
  0 <= N ->
  exists tl : list terms,
    levels (quotient_step pnames kids idx ptabs ktabs) N = (tl, None) /\ length tl = Z.to_nat (N + 1) /\
    forall m, (m < length tl)%nat -> teq (nth m tl []) (tab_at (nth idx ktabs []) (Z.of_nat m)).
Proof. exact quotient_step_correct. Qed.

Theorem C09_quotient_step_parameter_free : forall kids idx ptabs ktabs N,
  let psh := quotient_parent_shift (kid_descs kids) (Z.of_nat idx) in
  (idx < length kids)%nat -> (2 <= length kids)%nat -> length ktabs = length kids ->
  Forall (fun k => k_names k = [] /\ k_dict k = []) kids ->
  Forall (fun tab : Z -> terms => forall m, nonneg (tab m)) (map tab_at ktabs) ->
  (forall m, nokeys (tab_at ptabs m)) ->
  Forall (fun m => 0 <= m) (kid_mins kids) ->
  Vanish (map tab_at ktabs) (kid_mins kids) (kid_maxs kids) ->
  (forall m, 0 <= m <= N + psh ->
     product_genuine (map (kid_sum []) kids) (map tab_at ktabs) (tab_at ptabs m) m) ->
  hprod (remove_at idx (map tab_at ktabs)) (remove_at idx (kid_mins kids)) <> 0 ->
  0 <= N ->
  exists tl : list terms,
    levels (quotient_step [] kids idx ptabs ktabs) N = (tl, None) /\ length tl = Z.to_nat (N + 1) /\
    forall m, (m < length tl)%nat ->
      nokeys (nth m tl []) /\ tsum (nth m tl []) = tsum (tab_at (nth idx ktabs []) (Z.of_nat m)).
Proof. exact quotient_step_parameter_free_correct. Qed.

Theorem C09_equivalence_step : forall pnames kids ktabs Tp own n ci,
  first_nonempty kids = Some ci -> length ktabs = length kids ->
  kid_wf pnames (nth ci kids default_kid) ->
  kid_keys (nth ci kids default_kid) (tab_at (nth ci ktabs []) n) ->
  (forall j, j <> ci -> (j < length kids)%nat -> allzero (tab_at (nth j ktabs []) n)) ->
  union_genuine (map (kid_sem pnames) kids) (map (fun t => tab_at t n) ktabs) Tp ->
  exists r, equiv_union_step pnames kids ktabs own n = Ok r /\ teq r Tp.
Proof. exact equiv_union_step_correct. Qed.

Theorem C09_equivalence_step_is_union_get_terms : forall pnames kids ktabs own n ci,
  first_nonempty kids = Some ci -> kid_wf pnames (nth ci kids default_kid) ->
  equiv_union_step pnames kids ktabs own n =
  union_get_terms [kid_du pnames (nth ci kids default_kid)] [tab_at (nth ci ktabs []) n].
Proof. exact equiv_union_step_is_union_get_terms. Qed.

Theorem C09_equivalence_reverse_step_is_complement_get_terms : forall pnames kids idx ptabs own n ci,
  let kd := nth ci kids default_kid in
  let kc := nth idx kids default_kid in
  first_nonempty kids = Some ci ->
  (forall a b, In (a, b) (k_dict kd) -> In b (k_names kc)) ->
  equiv_complement_step pnames kids idx ptabs own n =
  complement_get_terms
    (du_param_map (map (fun pv => match dict_get (k_dict kd) pv with Some cv => [posn (k_names kc) cv] | None => [] end) pnames)
                  (length (k_names kc)))
    [] (tab_at ptabs n) [].
Proof. exact equiv_complement_step_is_complement_get_terms. Qed.

Theorem C09_equivalence_reverse_step : forall pnames kids idx ptabs (Ti : terms) own n,
  let ki := nth idx kids default_kid in
  first_nonempty kids = Some idx -> NoDup pnames -> flip_ok pnames ki ->
  klen (length pnames) (tab_at ptabs n) -> kid_keys ki Ti -> nonneg Ti ->
  union_genuine [kid_sem pnames ki] [Ti] (tab_at ptabs n) ->
  exists r, equiv_complement_step pnames kids idx ptabs own n = Ok r /\ teq r Ti.
Proof. exact equiv_complement_step_correct. Qed.

Theorem C09_path_step : forall s0 steps chain (T0 : terms) tabs own n,
  let first := step_source s0 in
  let lastn := step_target (last (s0 :: steps) s0) in
  NoDup first -> klen (length first) T0 ->
  chain_ok first T0 chain ->
  map step_dict (s0 :: steps) = map Some (map (fun s : list Z * dict * terms => snd (fst s)) chain) ->
  fst (chain_end first T0 chain) = lastn ->
  snd (chain_end first T0 chain) = tab_at tabs n ->
  wf_dict first lastn (fold_left dict_compose (map (fun s : list Z * dict * terms => snd (fst s)) chain) (id_dict first)) ->
  klen (length lastn) (tab_at tabs n) ->
  exists r, path_step (s0 :: steps) tabs own n = Ok r /\ teq r T0.
Proof. exact path_step_correct. Qed.

Theorem C09_path_step_is_union_get_terms : forall s0 steps ds pm tabs own n,
  let first := step_source s0 in
  let lastn := step_target (last (s0 :: steps) s0) in
  map step_dict (s0 :: steps) = map Some ds ->
  child_pos_map first lastn (fold_left dict_compose ds (id_dict first)) = Ok pm ->
  path_step (s0 :: steps) tabs own n =
  union_get_terms [du_param_map pm (length first)] [tab_at tabs n].
Proof. exact path_step_is_union_get_terms. Qed.

(* Rule._ensure_level for the forms that never read the rule's own terms: if the step is right at
   every size, `levels` returns exactly those levels and no exception *)
Theorem C09_levels : forall (step : (Z -> terms) -> Z -> res terms) (good : Z -> terms -> Prop) N,
  0 <= N ->
  (forall own m, 0 <= m <= N -> exists r, step own m = Ok r /\ good m r) ->
  exists tl, levels step N = (tl, None) /\ length tl = Z.to_nat (N + 1) /\
             forall j, (j < length tl)%nat -> good (Z.of_nat j) (nth j tl []).
Proof. exact levels_pointwise. Qed.

(* ------------------------------------------------------------ equivalence rules *)
(* EquivalenceRule of a union rule: DisjointUnion(parent, (child,), (extra_parameters[ci],))
   with ci the first non-empty child.  If all other children have no objects the rebuilt
   one-child rule is genuine; and when exactly child idx is flagged non-empty the code
   selects idx. *)
Theorem C09_equivalence : forall ci fs tabs Tp,
  (ci < length tabs)%nat -> length fs = length tabs ->
  (forall j, j <> ci -> (j < length tabs)%nat -> allzero (nth j tabs [])) ->
  union_genuine fs tabs Tp ->
  union_genuine [nth ci fs (fun k => k)] [nth ci tabs []] Tp.
Proof. exact equiv_union_genuine. Qed.

Theorem C09_equivalence_child_index : forall kids idx,
  (idx < length kids)%nat -> k_empty (nth idx kids default_kid) = false ->
  (forall j, j <> idx -> (j < length kids)%nat -> k_empty (nth j kids default_kid) = true) ->
  first_nonempty kids = Some idx.
Proof. exact first_nonempty_only. Qed.

(* the reverse of an equivalence rule: Complement(original parent, (child,), 0, (dict,)) *)
Theorem C09_equivalence_reverse : forall ppm g fi (TP Ti : terms),
  union_genuine [fi] [Ti] TP -> nonneg Ti ->
  maps_ok ppm g (filter (fun e : entry => negb (snd e =? 0)) TP) ->
  (forall k v, In (k, v) Ti -> g (fi k) = k) ->
  exists r, complement_get_terms ppm [] TP [] = Ok r /\ teq r Ti.
Proof. exact equiv_complement_correct. Qed.

(* ------------------------------------------------------------ dictionaries *)
(* What the maps BUILT BY THE CODE from an extra_parameters dictionary compute.
   dict_sem pnames cnames d k is the parent tuple whose statistic pv is k[position of d[pv]]
   (0 when pv is not a key): statistics may be dropped (no key), several parent statistics
   may map onto one child statistic (merge), child statistics may be untracked.
   For a well-formed dictionary (distinct names, distinct keys among the parent's names)
   and every tuple of the child: _build_children_param_map(s) raises nothing,
   DisjointUnion.param_map never asserts, and both it and Constructor.param_map return
   dict_sem. *)
Theorem C09_dictionary_maps : forall pnames cnames d k,
  wf_dict pnames cnames d -> length k = length cnames ->
  exists pm, child_pos_map pnames cnames d = Ok pm /\
             du_param_map pm (length pnames) k = Ok (dict_sem pnames cnames d k) /\
             sum_param_map pm (length pnames) k = dict_sem pnames cnames d k.
Proof. exact built_du_map_sem. Qed.

(* the two abstract hypotheses of C09_complement, discharged at dictionary level for the
   case the code supports — the flipped child's dictionary d is injective and its values are
   parameters of that child (then maps_ok holds with g = dict_sem cn pn (inv_dict d) on every
   parent tuple), and every parameter of the child is a value of d (then the round trip
   child -> parent -> child is the identity).  With two parent statistics merged onto one
   statistic of the flipped child, NoDup (map snd d) fails: that is where the code asserts. *)
Theorem C09_complement_parent_map : forall pn cn d k,
  NoDup pn -> NoDup cn -> NoDup (map fst d) -> NoDup (map snd d) ->
  (forall a b, In (a, b) d -> In b cn) ->
  length k = length pn ->
  exists pm, parent_pos_map pn cn d = Ok pm /\
             du_param_map pm (length cn) k = Ok (dict_sem cn pn (inv_dict d) k).
Proof. exact complement_parent_map_sem. Qed.

Theorem C09_complement_round_trip : forall pn cn d k,
  NoDup pn -> NoDup cn -> NoDup (map fst d) -> NoDup (map snd d) ->
  (forall a b, In (a, b) d -> In a pn) ->
  (forall cv, In cv cn -> In cv (map snd d)) ->
  length k = length cn ->
  dict_sem cn pn (inv_dict d) (dict_sem pn cn d k) = k.
Proof. exact dict_round_trip. Qed.

(* ------------------------------------------------------------ equivalence paths *)
(* EquivalencePathRule.constructor: DisjointUnion(first class, (last class,), (D,)) with D the
   dictionaries of the chain composed (dict_compose), starting from the identity.
   A chain (chain_ok) is a list of links  class(n,T) --d--> class(n',T')  each genuine through
   its dictionary: T = T' re-keyed by dict_sem n n' d.  Then get_terms of the rebuilt union, fed
   with the last class's true table, returns the first class's true table. *)
Theorem C09_path : forall first T0 steps,
  NoDup first -> (forall k v, In (k, v) T0 -> length k = length first) ->
  chain_ok first T0 steps ->
  let D := fold_left dict_compose (map (fun s => snd (fst s)) steps) (id_dict first) in
  let lastn := fst (chain_end first T0 steps) in
  let Tlast := snd (chain_end first T0 steps) in
  wf_dict first lastn D -> (forall k v, In (k, v) Tlast -> length k = length lastn) ->
  exists pm r, child_pos_map first lastn D = Ok pm /\
               union_get_terms [du_param_map pm (length first)] [Tlast] = Ok r /\ teq r T0.
Proof. exact path_union_correct. Qed.

(* a forward step (EquivalenceRule of a union rule) is such a link by C09_equivalence +
   C09_dictionary_maps; a reverse step (EquivalenceRule of a ReverseRule) contributes the
   INVERTED dictionary, and is a link when the dictionary is injective (the code raises
   NotImplementedError otherwise) and every statistic of the child is tracked by the parent *)
Theorem C09_path_reverse_link : forall pn cn d (TP TC : terms),
  NoDup pn -> NoDup cn -> NoDup (map fst d) -> NoDup (map snd d) ->
  (forall a b, In (a, b) d -> In a pn) ->
  (forall cv, In cv cn -> In cv (map snd d)) ->
  (forall k v, In (k, v) TC -> length k = length cn) ->
  union_genuine [dict_sem pn cn d] [TC] TP ->
  teq TC (rekey (dict_sem cn pn (inv_dict d)) TP).
Proof. exact reverse_link. Qed.

(* the model's path_dict_step folds exactly this composition *)
Theorem C09_path_dictionary : forall steps ds D,
  map step_dict steps = map Some ds ->
  fold_left path_dict_step steps (Ok D) = Ok (fold_left dict_compose ds D).
Proof. intros. apply path_dict_fold. assumption. Qed.

(* ------------------------------------------------------------ non-vacuity *)
(* a union rule whose parent tracks (p0, p1); child 0 renames both (in swapped order),
   child 1 keeps p0 and drops p1 *)
Example C09_ex_union :
  let pnames := [0; 1] in
  let kids := [mkKid [10; 11] [(1, 10); (0, 11)] 0 false false; mkKid [20] [(0, 20)] 0 false false] in
  let ktabs := [[[([5; 7], 2)]]; [[([3], 4); ([7], 1)]]] in
  match union_step pnames kids ktabs (fun _ => []) 0 with
  | Ok r => tnorm r = [([3; 0], 4); ([7; 0], 1); ([7; 5], 2)] | Err _ => False
  end.
Proof. vm_compute. reflexivity. Qed.

(* the position maps of that rule satisfy the hypothesis of C09_param_maps_agree *)
Example C09_ex_maps :
  child_pos_map [0; 1] [10; 11] [(1, 10); (0, 11)] = Ok [[1%nat]; [0%nat]] /\
  NoDup (concat [[1%nat]; [0%nat]]) /\
  du_param_map [[1%nat]; [0%nat]] 2 [5; 7] = Ok [7; 5].
Proof.
  split; [reflexivity|]. split; [|reflexivity].
  simpl. constructor; [simpl; intros [H|[]]; discriminate|]. constructor; [intros []|constructor].
Qed.

(* two parent statistics mapped onto one child statistic: the parent map of Complement
   hits a position twice; first-wins (the code) and summing (the 4.2.1 bug) differ *)
Example C09_ex_merge :
  parent_pos_map [0; 1] [10] [(0, 10); (1, 10)] = Ok [[0%nat]; [0%nat]] /\
  du_param_map [[0%nat]; [0%nat]] 1 [3; 3] = Ok [3] /\
  sum_param_map [[0%nat]; [0%nat]] 1 [3; 3] = [6] /\
  du_param_map [[0%nat]; [0%nat]] 1 [3; 4] = Err E_ASSERT.
Proof. repeat split. Qed.

(* product A x B, A an atom of size 1 with statistic value 1, B with 2^m objects of size m *)
Example C09_ex_product :
  let kids := [mkKid [10] [(0, 10)] 1 true false; mkKid [20] [(0, 20)] 0 false false] in
  let ktabs := [[[]; [([1], 1)]; []; []]; [[([0], 1)]; [([0], 1); ([1], 1)]; [([0], 1); ([1], 2); ([2], 1)]; []]] in
  match product_step [0] kids ktabs (fun _ => []) 3 with
  | Ok r => tnorm r = [([1], 1); ([2], 2); ([3], 1)] | Err _ => False
  end.
Proof. vm_compute. reflexivity. Qed.

(* its reverse w.r.t. B (a Quotient with one parameter, exact polynomial division), levels 0..2 *)
Example C09_ex_quotient :
  let kids := [mkKid [10] [(0, 10)] 1 true false; mkKid [20] [(0, 20)] 0 false false] in
  let ptabs := [[]; [([1], 1)]; [([1], 1); ([2], 1)]; [([1], 1); ([2], 2); ([3], 1)]] in
  let ktabs := [[[]; [([1], 1)]; []; []]; []] in
  let r := levels (quotient_step [0] kids 1 ptabs ktabs) 2 in
  map tnorm (fst r) = [[([0], 1)]; [([0], 1); ([1], 1)]; [([0], 1); ([1], 2); ([2], 1)]] /\ snd r = None.
Proof. vm_compute. split; reflexivity. Qed.

(* the complement of the union example w.r.t. child 0 *)
Example C09_ex_complement :
  let pnames := [0; 1] in
  let kids := [mkKid [10; 11] [(1, 10); (0, 11)] 0 false false; mkKid [20] [(0, 20)] 0 false false] in
  let ptabs := [[([3; 0], 4); ([7; 0], 1); ([7; 5], 2)]] in
  let ktabs := [[[]]; [[([3], 4); ([7], 1)]]] in
  match complement_step pnames kids 0 ptabs ktabs (fun _ => []) 0 with
  | Ok r => tnorm r = [([5; 7], 2)] | Err _ => False
  end.
Proof. vm_compute. reflexivity. Qed.


(* a path: X0 (names 0,1) --{0:10,1:11}--> X1 (names 10,11) <--reverse of {20:11,21:10}-- ...
   i.e. second step reverses a union rule with parent names (20,21) and child X1 *)
Example C09_ex_path :
  let s1 : step_desc := (false, [0; 1], [mkKid [10; 11] [(0, 10); (1, 11)] 0 false false], 0%nat) in
  let s2 : step_desc := (true, [20; 21], [mkKid [10; 11] [(20, 11); (21, 10)] 0 false false], 0%nat) in
  fold_left path_dict_step [s1; s2] (Ok (id_dict [0; 1])) = Ok [(0, 21); (1, 20)] /\
  match path_step [s1; s2] [[([5; 7], 3)]] (fun _ => []) 0 with
  | Ok r => tnorm r = [([7; 5], 3)] | Err _ => False
  end.
Proof. vm_compute. split; reflexivity. Qed.

(* ------------------------------------------------------------------------
   NON-VACUITY (audit): every theorem of this file APPLIED to concrete rules with parameters (so Coq
   checks that what is discharged are the theorems' own hypotheses), each followed by the value the
   model really computes on the instance and, where cheap, a near miss on which the conclusion or a
   hypothesis fails.  "True tables" of the parents are written independently of the model (other
   entry order, entries split) so that teq is not a syntactic identity. *)

(* proves  teq a b  for explicit tables (same multiset of (key, value) up to order/merging) *)
Ltac teq_explicit :=
  let p := fresh "p" in intros p; cbn -[params_eqb Z.add];
  repeat match goal with |- context [params_eqb ?a ?b] => destruct (params_eqb a b) end; lia.
(* proves a statement  forall k v, In (k, v) t -> P k v  for an explicit table t *)
Ltac by_entries :=
  let k := fresh "k" in let v := fresh "v" in let H := fresh "H" in
  intros k v H; cbn in H;
  repeat (destruct H as [H|H]; [inversion H; subst; clear H; try reflexivity; try lia|]);
  try contradiction.

(* ---- parameter maps ---- *)
(* child statistic 0 feeds the parent positions 1 and 2 (two parent statistics mapped onto one child
   statistic), child statistic 1 feeds position 0, child statistic 2 is untracked *)
Example C09_param_maps_agree_nonvacuous :
  du_param_map [[1%nat; 2%nat]; [0%nat]; []] 3 [5; 7; 9]
  = Ok (sum_param_map [[1%nat; 2%nat]; [0%nat]; []] 3 [5; 7; 9]).
Proof.
  apply (C09_param_maps_agree [[1%nat; 2%nat]; [0%nat]; []] 3 [5; 7; 9] eq_refl).
  simpl. repeat constructor; simpl; intuition discriminate.
Qed.
Example C09_param_maps_agree_value :
  sum_param_map [[1%nat; 2%nat]; [0%nat]; []] 3 [5; 7; 9] = [7; 5; 5] /\
  (* without NoDup the two variants differ (cf. C09_ex_merge) *)
  du_param_map [[0%nat]; [0%nat]] 1 [3; 4] <> Ok (sum_param_map [[0%nat]; [0%nat]] 1 [3; 4]).
Proof. split; [reflexivity|discriminate]. Qed.

(* ---- a union rule with three children; parent statistics (p0, p1) ----
   child A: one statistic, dict {p0 : a}              (drops p1)       position map [[0]]
   child B: two statistics, dict {p1 : b0, p0 : b1}   (swapped)        position map [[1]; [0]]
   child C: no statistic, dict {}                     (drops both)     position map []            *)
Definition pmA : list (list nat) := [[0%nat]].
Definition pmB : list (list nat) := [[1%nat]; [0%nat]].
Definition pmC : list (list nat) := [].
Definition fA := sum_param_map pmA 2.
Definition fB := sum_param_map pmB 2.
Definition fC := sum_param_map pmC 2.
Definition tA : terms := [([3], 4); ([7], 1)].
Definition tB : terms := [([5; 7], 2); ([1; 1], 3)].
Definition tC : terms := [([], 6)].
(* the parent's true table, written independently (other order, one entry split in two) *)
Definition tP : terms := [([0; 0], 6); ([7; 5], 2); ([3; 0], 1); ([1; 1], 3); ([7; 0], 1); ([3; 0], 3)].

Example C09_ex_built_maps :
  child_pos_map [0; 1] [20] [(0, 20)] = Ok pmA /\
  child_pos_map [0; 1] [10; 11] [(1, 10); (0, 11)] = Ok pmB /\
  child_pos_map [0; 1] [] [] = Ok pmC /\
  parent_pos_map [0; 1] [10; 11] [(1, 10); (0, 11)] = Ok pmB.
Proof. repeat split; reflexivity. Qed.

Lemma u3_table : union_table [fA; fB; fC] [tA; tB; tC]
                 = [([3; 0], 4); ([7; 0], 1); ([7; 5], 2); ([1; 1], 3); ([0; 0], 6)].
Proof. vm_compute. reflexivity. Qed.
Lemma u3_genuine : union_genuine [fA; fB; fC] [tA; tB; tC] tP.
Proof. unfold union_genuine. rewrite u3_table. unfold tP. teq_explicit. Qed.
Lemma u3_maps : MapsOk [du_param_map pmA 2; du_param_map pmB 2; du_param_map pmC 2] [fA; fB; fC] [tA; tB; tC].
Proof. repeat constructor; by_entries. Qed.

(* covers C09_union *)
Example C09_union_nonvacuous :
  exists r, union_get_terms [du_param_map pmA 2; du_param_map pmB 2; du_param_map pmC 2] [tA; tB; tC] = Ok r /\
            teq r tP.
Proof.
  exact (C09_union [du_param_map pmA 2; du_param_map pmB 2; du_param_map pmC 2] [fA; fB; fC]
           [tA; tB; tC] tP u3_maps u3_genuine).
Qed.
Example C09_union_value :
  union_get_terms [du_param_map pmA 2; du_param_map pmB 2; du_param_map pmC 2] [tA; tB; tC]
  = Ok [([3; 0], 4); ([7; 0], 1); ([7; 5], 2); ([1; 1], 3); ([0; 0], 6)] /\
  tnorm tP = [([0; 0], 6); ([1; 1], 3); ([3; 0], 4); ([7; 0], 1); ([7; 5], 2)].
Proof. split; vm_compute; reflexivity. Qed.

(* ---- product  a x B : a an atom of size 1 carrying statistic value 1, B = the binary words of
   length <= 2 by number of b's (a finite class); both children keep the parent's statistic ---- *)
Definition pm1 : list (list nat) := [[0%nat]].
Definition f1 := sum_param_map pm1 1.
Definition tabAtom (m : Z) : terms := if m =? 1 then [([1], 1)] else [].
Definition tabWords (m : Z) : terms :=
  if m =? 0 then [([0], 1)] else if m =? 1 then [([0], 1); ([1], 1)]
  else if m =? 2 then [([0], 1); ([1], 2); ([2], 1)] else [].
(* the parent's true table at size 3, written independently *)
Definition tProd3 : terms := [([3], 1); ([2], 1); ([1], 1); ([2], 1)].

Lemma prod_vanish : Vanish [tabAtom; tabWords] [1; 0] [Some 1; None].
Proof.
  constructor.
  - intros m Hm. unfold tabAtom. destruct (Z.eqb_spec m 1) as [->|_]; [|intros k v []].
    exfalso. destruct Hm as [Hm|Hm]; [lia|apply Hm; simpl; lia].
  - constructor; [|constructor]. intros m Hm. destruct Hm as [Hm|Hm]; [|exfalso; apply Hm; exact I].
    unfold tabWords. destruct (Z.eqb_spec m 0); [lia|]. destruct (Z.eqb_spec m 1); [lia|].
    destruct (Z.eqb_spec m 2); [lia|]. intros k v [].
Qed.
Lemma prod_full_table :
  product_table [f1; f1] (zeros (zlen [tabAtom; tabWords])) (nones (zlen [tabAtom; tabWords]))
                [tabAtom; tabWords] 3 = [([1], 1); ([2], 2); ([3], 1)].
Proof. vm_compute. reflexivity. Qed.
Lemma prod_genuine : product_genuine [f1; f1] [tabAtom; tabWords] tProd3 3.
Proof. unfold product_genuine. rewrite prod_full_table. unfold tProd3. teq_explicit. Qed.

(* covers C09_product; the pruned enumeration visits ONE composition instead of four *)
Example C09_product_nonvacuous :
  teq (product_get_terms [f1; f1] [1; 0] [Some 1; None] [tabAtom; tabWords] 3) tProd3.
Proof.
  apply (C09_product [f1; f1] [1; 0] [Some 1; None] [tabAtom; tabWords] tProd3 3);
    [vm_compute; discriminate|repeat constructor; lia|exact prod_vanish|exact prod_genuine].
Qed.
Example C09_product_value :
  product_get_terms [f1; f1] [1; 0] [Some 1; None] [tabAtom; tabWords] 3 = [([1], 1); ([2], 2); ([3], 1)] /\
  compositions 3 2 [1; 0] [Some 1; None] = [[1; 2]] /\
  compositions 3 2 [0; 0] [None; None] = [[0; 3]; [1; 2]; [2; 1]; [3; 0]] /\
  (* the contract matters: were the atom's table non-zero at size 2, pruning would lose objects *)
  tnorm (product_table [f1; f1] [0; 0] [None; None] [(fun m => if m =? 2 then [([1], 1)] else tabAtom m); tabWords] 3)
  <> tnorm (product_get_terms [f1; f1] [1; 0] [Some 1; None] [(fun m => if m =? 2 then [([1], 1)] else tabAtom m); tabWords] 3).
Proof. split; [vm_compute; reflexivity|]. split; [vm_compute; reflexivity|]. split; [vm_compute; reflexivity|]. vm_compute. discriminate. Qed.

(* ---- complement: the reverse of the three-child union above w.r.t. its MIDDLE child B ----
   parent map g : parent coordinates -> B's coordinates (position map pmB again: a swap) *)
Lemma compl_genuine : union_genuine ([fA] ++ fB :: [fC]) ([tA] ++ tB :: [tC]) tP.
Proof. exact u3_genuine. Qed.
Lemma compl_ppm_ok : maps_ok (du_param_map pmB 2) fB (filter (fun e : entry => negb (snd e =? 0)) tP).
Proof. by_entries. Qed.
Lemma compl_siblings_ok :
  CMapsOk (du_param_map pmB 2) [du_param_map pmA 2; du_param_map pmC 2]
          (map (fun f k => fB (f k)) ([fA] ++ [fC])) ([tA] ++ [tC]).
Proof. repeat constructor; by_entries. Qed.
Example C09_complement_nonvacuous :
  exists r, complement_get_terms (du_param_map pmB 2) [du_param_map pmA 2; du_param_map pmC 2] tP ([tA] ++ [tC]) = Ok r /\
            teq r tB.
Proof.
  apply (C09_complement (du_param_map pmB 2) fB [du_param_map pmA 2; du_param_map pmC 2]
           [fA] fB [fC] tP tB [tA] [tC] eq_refl compl_genuine).
  - by_entries.
  - repeat constructor; by_entries.
  - exact compl_ppm_ok.
  - exact compl_siblings_ok.
  - by_entries.
Qed.
Example C09_complement_value :
  match complement_get_terms (du_param_map pmB 2) [du_param_map pmA 2; du_param_map pmC 2] tP [tA; tC] with
  | Ok r => tnorm r = [([1; 1], 3); ([5; 7], 2)] | Err _ => False end.
Proof. vm_compute. reflexivity. Qed.

(* ---- quotient, parameter-free: the product  a x W x C  reversed w.r.t. W ----
   a: atom of size 1;  W: 2^m objects of size m (all m >= 0);  C: m objects of size m (m >= 1).
   The parent's true table is the full convolution (that IS genuineness of the product rule). *)
Definition f0 : params -> params := sum_param_map [] 0.
Definition qcs : list (Z * bool) := [(1, true); (0, false); (1, false)].
Definition qA (m : Z) : terms := if m =? 1 then [([], 1)] else [].
Definition qW (m : Z) : terms := if m <? 0 then [] else [([], 2 ^ m)].
Definition qC (m : Z) : terms := if m <? 1 then [] else [([], m)].
Definition qtabs : list (Z -> terms) := [qA; qW; qC].
Definition qTP (m : Z) : terms := product_table [f0; f0; f0] (zeros 3) (nones 3) qtabs m.

Lemma q_const_nil : Forall const_nil [f0; f0; f0].
Proof. repeat constructor; intros k; reflexivity. Qed.
Lemma q_vanish : Vanish qtabs (quotient_min_sizes qcs) (quotient_max_sizes qcs).
Proof.
  constructor; [|constructor; [|constructor; [|constructor]]]; intros m Hm; simpl in Hm.
  - unfold qA. destruct (Z.eqb_spec m 1) as [->|_]; [|intros k v []].
    exfalso. destruct Hm as [Hm|Hm]; [lia|apply Hm; lia].
  - destruct Hm as [Hm|Hm]; [|exfalso; apply Hm; exact I]. unfold qW.
    destruct (Z.ltb_spec m 0); [intros k v []|lia].
  - destruct Hm as [Hm|Hm]; [|exfalso; apply Hm; exact I]. unfold qC.
    destruct (Z.ltb_spec m 1); [intros k v []|lia].
Qed.
Lemma q_nonneg : Forall (fun tab : Z -> terms => forall m, nonneg (tab m)) qtabs.
Proof.
  repeat constructor; intros m k v H.
  - unfold qA in H. destruct (m =? 1); [|destruct H]. destruct H as [H|[]]. inversion H. lia.
  - unfold qW in H. destruct (Z.ltb_spec m 0); [destruct H|]. destruct H as [H|[]]. inversion H.
    apply Z.pow_nonneg. lia.
  - unfold qC in H. destruct (Z.ltb_spec m 1); [destruct H|]. destruct H as [H|[]]. inversion H. lia.
Qed.

(* covers C09_quotient_parameter_free: levels 0..4 of the reverse rule are computed without an
   exception and hold 2^m *)
Example C09_quotient_parameter_free_nonvacuous :
  exists tl : list terms,
    levels (qstep [f0; f0; f0] (q_param_map [] 0) qcs 1 qTP qtabs) 4 = (tl, None) /\
    length tl = Z.to_nat (4 + 1) /\
    forall m, (m < length tl)%nat ->
      nokeys (nth m tl []) /\ tsum (nth m tl []) = tsum (nth 1 qtabs (fun _ => []) (Z.of_nat m)).
Proof.
  apply (C09_quotient_parameter_free [f0; f0; f0] (q_param_map [] 0) qcs 1 qTP qtabs 4).
  - simpl; lia.
  - simpl; lia.
  - reflexivity.
  - exact q_const_nil.
  - reflexivity.
  - repeat constructor; simpl; lia.
  - exact q_vanish.
  - exact q_nonneg.
  - intros m. apply product_table_nokeys. exact q_const_nil.
  - intros m _. unfold product_genuine, qTP. apply teq_refl.
  - vm_compute. discriminate.
  - lia.
Qed.
Example C09_quotient_parameter_free_value :
  levels (qstep [f0; f0; f0] (q_param_map [] 0) qcs 1 qTP qtabs) 4
  = ([[([], 1)]; [([], 2)]; [([], 4)]; [([], 8)]; [([], 16)]], None) /\
  map (fun m => tnorm (qTP m)) [0; 1; 2; 3; 4] = [[]; []; [([], 1)]; [([], 4)]; [([], 11)]].
Proof. split; vm_compute; reflexivity. Qed.

(* ---- equivalence rules ---- *)
(* the union rule above when only its middle child B has objects (A's table holds an explicit 0) *)
Definition tPB : terms := [([1; 1], 3); ([7; 5], 2)].
Lemma eq_genuine : union_genuine [fA; fB; fC] [[([4], 0)]; tB; []] tPB.
Proof.
  unfold union_genuine.
  assert (E : union_table [fA; fB; fC] [[([4], 0)]; tB; []] = [([4; 0], 0); ([7; 5], 2); ([1; 1], 3)])
    by (vm_compute; reflexivity).
  rewrite E. unfold tPB. teq_explicit.
Qed.
Example C09_equivalence_nonvacuous :
  union_genuine [nth 1 [fA; fB; fC] (fun k => k)] [nth 1 [[([4], 0)]; tB; []] []] tPB.
Proof.
  apply (C09_equivalence 1 [fA; fB; fC] [[([4], 0)]; tB; []] tPB); [simpl; lia|reflexivity| |exact eq_genuine].
  intros j Hj Hlt. destruct j as [|[|[|j]]]; simpl in Hlt; try lia; simpl; by_entries.
Qed.
(* ... and then C09_union applies to the rebuilt one-child rule *)
Example C09_equivalence_then_union :
  exists r, union_get_terms [du_param_map pmB 2] [tB] = Ok r /\ teq r tPB.
Proof.
  apply (C09_union [du_param_map pmB 2] [fB] [tB] tPB); [repeat constructor; by_entries|].
  exact C09_equivalence_nonvacuous.
Qed.

Definition eq_kids : list kid :=
  [mkKid [20] [(0, 20)] 0 false true; mkKid [10; 11] [(1, 10); (0, 11)] 0 false false;
   mkKid [] [] 0 false true].
Example C09_equivalence_child_index_nonvacuous : first_nonempty eq_kids = Some 1%nat.
Proof.
  apply (C09_equivalence_child_index eq_kids 1); [simpl; lia|reflexivity|].
  intros j Hj Hlt. destruct j as [|[|[|j]]]; simpl in Hlt; try lia; reflexivity.
Qed.
Example C09_equivalence_child_index_discriminates :
  first_nonempty [mkKid [] [] 0 false false; mkKid [] [] 0 false false] = Some 0%nat /\
  first_nonempty [mkKid [] [] 0 false true] = None.
Proof. split; reflexivity. Qed.

(* the reverse of the equivalence rule parent -> B *)
Example C09_equivalence_reverse_nonvacuous :
  exists r, complement_get_terms (du_param_map pmB 2) [] tPB [] = Ok r /\ teq r tB.
Proof.
  apply (C09_equivalence_reverse (du_param_map pmB 2) fB fB tPB tB).
  - exact C09_equivalence_nonvacuous.
  - by_entries.
  - by_entries.
  - by_entries.
Qed.
Example C09_equivalence_reverse_value :
  complement_get_terms (du_param_map pmB 2) [] tPB [] = Ok [([1; 1], 3); ([5; 7], 2)].
Proof. vm_compute. reflexivity. Qed.

(* ---- dictionaries ---- *)
(* parent statistics 0..3, child statistics 10..12; parent 1 and 2 are BOTH mapped onto child 10
   (merge), parent 3 is dropped (no key), child 12 is untracked *)
Definition dm_d : dict := [(1, 10); (0, 11); (2, 10)].
Lemma dm_wf : wf_dict [0; 1; 2; 3] [10; 11; 12] dm_d.
Proof.
  split; [repeat constructor; simpl; intuition discriminate|].
  split; [repeat constructor; simpl; intuition discriminate|].
  split; [repeat constructor; simpl; intuition discriminate|].
  intros a b H. simpl in H. repeat (destruct H as [H|H]; [inversion H; subst; simpl; tauto|]). contradiction.
Qed.
Example C09_dictionary_maps_nonvacuous :
  exists pm, child_pos_map [0; 1; 2; 3] [10; 11; 12] dm_d = Ok pm /\
             du_param_map pm (length [0; 1; 2; 3]) [5; 7; 9] = Ok (dict_sem [0; 1; 2; 3] [10; 11; 12] dm_d [5; 7; 9]) /\
             sum_param_map pm (length [0; 1; 2; 3]) [5; 7; 9] = dict_sem [0; 1; 2; 3] [10; 11; 12] dm_d [5; 7; 9].
Proof. exact (C09_dictionary_maps [0; 1; 2; 3] [10; 11; 12] dm_d [5; 7; 9] dm_wf eq_refl). Qed.
Example C09_dictionary_maps_value :
  child_pos_map [0; 1; 2; 3] [10; 11; 12] dm_d = Ok [[1%nat; 2%nat]; [0%nat]; []] /\
  dict_sem [0; 1; 2; 3] [10; 11; 12] dm_d [5; 7; 9] = [7; 5; 5; 0] /\
  (* a key that is not a parent statistic breaks wf_dict, and the code raises KeyError *)
  child_pos_map [0; 1] [10] [(4, 10)] = Err E_KEY.
Proof. repeat split; reflexivity. Qed.

(* the flipped child's dictionary: injective, parent statistic 2 dropped *)
Definition cp_d : dict := [(1, 10); (0, 11)].
Lemma cp_nodups : NoDup [0; 1; 2] /\ NoDup [10; 11] /\ NoDup (map fst cp_d) /\ NoDup (map snd cp_d).
Proof. repeat split; repeat constructor; simpl; intuition discriminate. Qed.
Example C09_complement_parent_map_nonvacuous :
  exists pm, parent_pos_map [0; 1; 2] [10; 11] cp_d = Ok pm /\
             du_param_map pm (length [10; 11]) [3; 4; 5] = Ok (dict_sem [10; 11] [0; 1; 2] (inv_dict cp_d) [3; 4; 5]).
Proof.
  destruct cp_nodups as (H1 & H2 & H3 & H4).
  apply (C09_complement_parent_map [0; 1; 2] [10; 11] cp_d [3; 4; 5] H1 H2 H3 H4); [|reflexivity].
  intros a b H. simpl in H. repeat (destruct H as [H|H]; [inversion H; subst; simpl; tauto|]). contradiction.
Qed.
Example C09_complement_parent_map_value :
  parent_pos_map [0; 1; 2] [10; 11] cp_d = Ok [[1%nat]; [0%nat]; []] /\
  dict_sem [10; 11] [0; 1; 2] (inv_dict cp_d) [3; 4; 5] = [4; 3] /\
  (* with two parent statistics merged onto one child statistic NoDup (map snd d) fails and the
     code asserts on unequal values *)
  (match parent_pos_map [0; 1] [10] [(0, 10); (1, 10)] with
   | Ok pm => du_param_map pm 1 [3; 4] = Err E_ASSERT | Err _ => False end).
Proof. repeat split; reflexivity. Qed.

Example C09_complement_round_trip_nonvacuous :
  dict_sem [10; 11] [0; 1; 2] (inv_dict cp_d) (dict_sem [0; 1; 2] [10; 11] cp_d [5; 7]) = [5; 7].
Proof.
  destruct cp_nodups as (H1 & H2 & H3 & H4).
  apply (C09_complement_round_trip [0; 1; 2] [10; 11] cp_d [5; 7] H1 H2 H3 H4); [| |reflexivity].
  - intros a b H. simpl in H. repeat (destruct H as [H|H]; [inversion H; subst; simpl; tauto|]). contradiction.
  - intros cv H. simpl in H. repeat (destruct H as [H|H]; [subst; simpl; tauto|]). contradiction.
Qed.
Example C09_complement_round_trip_value :
  dict_sem [0; 1; 2] [10; 11] cp_d [5; 7] = [7; 5; 0] /\
  (* an untracked child statistic (12) is lost on the way: the hypothesis "every child statistic is
     a value of d" is needed *)
  dict_sem [10; 11; 12] [0; 1; 2] (inv_dict cp_d) (dict_sem [0; 1; 2] [10; 11; 12] cp_d [5; 7; 9]) = [5; 7; 0].
Proof. split; reflexivity. Qed.

(* ---- equivalence paths ---- *)
(* class X0 (statistics 0,1) --{0:11, 1:10}--> X1 (10,11) --{10:21, 11:20}--> X2 (20,21,22);
   X2 has an untracked statistic 22, so two of its entries collapse in X1 *)
Definition pa_T2 : terms := [([5; 7; 1], 2); ([5; 7; 2], 1); ([1; 1; 0], 3)].
Definition pa_T1 : terms := [([1; 1], 3); ([7; 5], 3)].
Definition pa_T0 : terms := [([5; 7], 3); ([1; 1], 3)].
Definition pa_d1 : dict := [(0, 11); (1, 10)].
Definition pa_d2 : dict := [(10, 21); (11, 20)].
Definition pa_steps : list (list Z * dict * terms) := [([10; 11], pa_d1, pa_T1); ([20; 21; 22], pa_d2, pa_T2)].
Lemma pa_chain : chain_ok [0; 1] pa_T0 pa_steps.
Proof.
  constructor.
  - repeat constructor; simpl; intuition discriminate.
  - intros a b H. simpl in H. repeat (destruct H as [H|H]; [inversion H; subst; simpl; tauto|]). contradiction.
  - assert (E : rekey (dict_sem [0; 1] [10; 11] pa_d1) pa_T1 = [([1; 1], 3); ([5; 7], 3)]) by (vm_compute; reflexivity).
    rewrite E. unfold pa_T0. teq_explicit.
  - constructor.
    + repeat constructor; simpl; intuition discriminate.
    + intros a b H. simpl in H. repeat (destruct H as [H|H]; [inversion H; subst; simpl; tauto|]). contradiction.
    + assert (E : rekey (dict_sem [10; 11] [20; 21; 22] pa_d2) pa_T2 = [([7; 5], 2); ([7; 5], 1); ([1; 1], 3)])
        by (vm_compute; reflexivity).
      rewrite E. unfold pa_T1. teq_explicit.
    + constructor.
Qed.
Example C09_path_nonvacuous :
  exists pm r, child_pos_map [0; 1] [20; 21; 22] [(0, 20); (1, 21)] = Ok pm /\
               union_get_terms [du_param_map pm (length [0; 1])] [pa_T2] = Ok r /\ teq r pa_T0.
Proof.
  refine (C09_path [0; 1] pa_T0 pa_steps _ _ pa_chain _ _).
  - repeat constructor; simpl; intuition discriminate.
  - by_entries.
  - split; [repeat constructor; simpl; intuition discriminate|].
    split; [repeat constructor; simpl; intuition discriminate|].
    split; [repeat constructor; simpl; intuition discriminate|].
    intros a b H. cbn in H. repeat (destruct H as [H|H]; [inversion H; subst; simpl; tauto|]). contradiction.
  - by_entries.
Qed.
Example C09_path_value :
  fold_left dict_compose [pa_d1; pa_d2] (id_dict [0; 1]) = [(0, 20); (1, 21)] /\
  child_pos_map [0; 1] [20; 21; 22] [(0, 20); (1, 21)] = Ok [[0%nat]; [1%nat]; []] /\
  union_get_terms [du_param_map [[0%nat]; [1%nat]; []] 2] [pa_T2] = Ok [([5; 7], 2); ([5; 7], 1); ([1; 1], 3)].
Proof. repeat split; vm_compute; reflexivity. Qed.

(* a reverse step: the union rule with parent statistics (20,21) and child X1 (10,11), dictionary
   {20:11, 21:10}, walked from the child to the parent *)
Definition rl_d : dict := [(20, 11); (21, 10)].
Definition rl_TC : terms := [([5; 7], 3); ([2; 2], 1)].
Definition rl_TP : terms := [([2; 2], 1); ([7; 5], 2); ([7; 5], 1)].
Example C09_path_reverse_link_nonvacuous :
  teq rl_TC (rekey (dict_sem [10; 11] [20; 21] (inv_dict rl_d)) rl_TP).
Proof.
  apply (C09_path_reverse_link [20; 21] [10; 11] rl_d rl_TP rl_TC).
  - repeat constructor; simpl; intuition discriminate.
  - repeat constructor; simpl; intuition discriminate.
  - repeat constructor; simpl; intuition discriminate.
  - repeat constructor; simpl; intuition discriminate.
  - intros a b H. simpl in H. repeat (destruct H as [H|H]; [inversion H; subst; simpl; tauto|]). contradiction.
  - intros cv H. simpl in H. repeat (destruct H as [H|H]; [subst; simpl; tauto|]). contradiction.
  - by_entries.
  - unfold union_genuine.
    assert (E : union_table [dict_sem [20; 21] [10; 11] rl_d] [rl_TC] = [([7; 5], 3); ([2; 2], 1)])
      by (vm_compute; reflexivity).
    rewrite E. unfold rl_TP. teq_explicit.
Qed.
Example C09_path_reverse_link_value :
  rekey (dict_sem [10; 11] [20; 21] (inv_dict rl_d)) rl_TP = [([2; 2], 1); ([5; 7], 2); ([5; 7], 1)].
Proof. vm_compute. reflexivity. Qed.

(* the model's fold over a path with a forward step (whose first child is empty: the code picks
   child 1) and a reverse step with an injective dictionary *)
Definition pd_s1 : step_desc :=
  (false, [0; 1], [mkKid [] [] 0 false true; mkKid [10; 11] [(0, 10); (1, 11)] 0 false false], 1%nat).
Definition pd_s2 : step_desc := (true, [20; 21], [mkKid [10; 11] [(20, 11); (21, 10)] 0 false false], 0%nat).
Example C09_path_dictionary_nonvacuous :
  fold_left path_dict_step [pd_s1; pd_s2] (Ok (id_dict [0; 1]))
  = Ok (fold_left dict_compose [[(0, 10); (1, 11)]; inv_dict [(20, 11); (21, 10)]] (id_dict [0; 1])).
Proof.
  apply (C09_path_dictionary [pd_s1; pd_s2] [[(0, 10); (1, 11)]; inv_dict [(20, 11); (21, 10)]] (id_dict [0; 1])).
  vm_compute. reflexivity.
Qed.
Example C09_path_dictionary_value :
  fold_left path_dict_step [pd_s1; pd_s2] (Ok (id_dict [0; 1])) = Ok [(0, 21); (1, 20)] /\
  (* a reverse step with a non-injective dictionary has no step_dict (the hypothesis fails) and the
     model raises NotImplementedError *)
  step_dict (true, [20; 21], [mkKid [10] [(20, 10); (21, 10)] 0 false false], 0%nat) = None /\
  fold_left path_dict_step [(true, [20; 21], [mkKid [10] [(20, 10); (21, 10)] 0 false false], 0%nat)]
            (Ok (id_dict [10])) = Err E_NOTIMPL.
Proof. repeat split; vm_compute; reflexivity. Qed.

(* ------------------------------------------------------------------------
   NON-VACUITY of the theorems added for the quotient with parameters and for the executable
   steps: each theorem APPLIED to concrete rules (so that Coq checks the hypotheses are its own),
   with the value the model computes and a near miss where cheap. *)

(* helpers for tables given by size as lists (the form the steps take) *)
Lemma tab_at_forall (P : terms -> Prop) (L : list terms) : P [] -> Forall P L -> forall m, P (tab_at L m).
Proof.
  intros H0 H m. unfold tab_at. destruct (m <? 0); [exact H0|].
  destruct (nth_in_or_default (Z.to_nat m) L []) as [Hin|E]; [|rewrite E; exact H0].
  rewrite Forall_forall in H. apply H. exact Hin.
Qed.
Lemma tab_at_vanish (L : list terms) lo hi :
  (forall j, (j < length L)%nat -> (Z.of_nat j < lo \/ ~ bounded (Z.of_nat j) hi) -> allzero (nth j L [])) ->
  forall m, (m < lo \/ ~ bounded m hi) -> allzero (tab_at L m).
Proof.
  intros H m Hm. unfold tab_at. destruct (Z.ltb_spec m 0); [intros ? ? []|].
  destruct (Nat.lt_ge_cases (Z.to_nat m) (length L)) as [Hlt|Hge].
  - apply H; [exact Hlt|]. rewrite Z2Nat.id by lia. exact Hm.
  - rewrite nth_overflow by exact Hge. intros ? ? [].
Qed.
Lemma klen_nil L : klen L []. Proof. intros ? ? []. Qed.
Lemma nonneg_nil : nonneg []. Proof. intros ? ? []. Qed.
Lemma knonneg_nil : knonneg []. Proof. intros ? ? []. Qed.
Lemma allzero_nil : allzero []. Proof. intros ? ? []. Qed.
Ltac wf_explicit :=
  unfold kid_wf; simpl;
  split; [repeat constructor; simpl; intuition discriminate|];
  split; [repeat constructor; simpl; intuition discriminate|];
  split; [repeat constructor; simpl; intuition discriminate|];
  let a := fresh "a" in let b := fresh "b" in let H := fresh "H" in
  intros a b H; simpl in H; repeat (destruct H as [H|H]; [inversion H; subst; simpl; tauto|]); try contradiction.
(* evaluates both sides of  teq a b  and compares the explicit tables *)
Ltac teq_compute :=
  match goal with |- teq ?a ?b =>
    let a' := eval vm_compute in a in let b' := eval vm_compute in b in
    replace a with a' by (vm_compute; reflexivity); replace b with b' by (vm_compute; reflexivity) end;
  teq_explicit.
Ltac each_kid tac := repeat (apply Forall_cons; [tac|]); apply Forall_nil.
Ltac each_kid2 tac := repeat (apply Forall2_cons; [tac|]); apply Forall2_nil.
Ltac klen_explicit := let k := fresh "k" in let v := fresh "v" in let H := fresh "H" in
  intros k v H; cbn in H; repeat (destruct H as [H|H]; [inversion H; subst; clear H; try reflexivity; try lia;
    try (repeat constructor; lia)|]); try contradiction.

(* ---- exact division ---- *)
(* (2 + 3 k0 k1) * (1 + k0) = 2 + 2 k0 + 3 k0 k1 + 3 k0^2 k1  in Z[k0, k1] *)
Definition dvB : terms := [([0; 0], 2); ([1; 1], 3)].
Definition dvC : terms := [([1; 0], 1); ([0; 0], 1)].
Definition dvA : terms := [([2; 1], 3); ([0; 0], 2); ([1; 0], 1); ([1; 1], 3); ([1; 0], 1)].
Lemma dv_product : teq dvA (pmul dvB dvC).
Proof. teq_compute. Qed.
Lemma dv_slen : slen 2 dvB /\ slen 2 dvC /\ snonneg dvB /\ snonneg dvC.
Proof.
  repeat split; intros k Hk; destruct (tget_nonzero_in _ _ Hk) as (v & Hin); revert k v Hin Hk;
    (klen_explicit; intros; try reflexivity; repeat constructor; lia).
Qed.
Lemma dv_nonneg : (forall p, 0 <= tget dvB p) /\ (forall p, 0 <= tget dvC p) /\ ~ pzero dvC.
Proof.
  split; [intros p; apply tget_nonneg; by_entries|]. split; [intros p; apply tget_nonneg; by_entries|].
  intros H. specialize (H [0; 0]). vm_compute in H. discriminate.
Qed.
Example C09_exact_division_nonvacuous : exists b, poly_div dvA dvC = Ok b /\ canon b /\ teq b dvB.
Proof.
  destruct dv_slen as (H1 & H2 & H3 & H4). destruct dv_nonneg as (H5 & H6 & H7).
  exact (C09_exact_division 2 dvA dvC dvB H1 H2 H3 H4 H5 H6 H7 dv_product).
Qed.
Example C09_exact_division_value :
  poly_div dvA dvC = Ok [([0; 0], 2); ([1; 1], 3)] /\
  (* a dividend that is not a multiple: the remainder is not 0 (Python: assert remainder == 0) *)
  poly_div (([0; 1], 1) :: dvA) dvC = Err E_ASSERT /\
  poly_div dvA [] = Err E_ZERODIV.
Proof. repeat split; vm_compute; reflexivity. Qed.
Example C09_exact_division_is_the_quotient_nonvacuous :
  exists b, poly_div dvA dvC = Ok b /\ teq b [([1; 1], 1); ([0; 0], 2); ([1; 1], 2)].
Proof.
  destruct dv_slen as (H1 & H2 & H3 & H4). destruct dv_nonneg as (H5 & H6 & H7).
  apply (C09_exact_division_is_the_quotient 2 dvA dvC dvB [([1; 1], 1); ([0; 0], 2); ([1; 1], 2)]);
    try assumption; try klen_explicit.
  - exact dv_product.
  - unfold exact_quotient. teq_compute.
Qed.
Example C09_exact_quotient_unique_nonvacuous :
  teq dvB [([1; 1], 1); ([0; 0], 2); ([1; 1], 2)].
Proof.
  destruct dv_nonneg as (_ & _ & H7).
  apply (C09_exact_quotient_unique 2 dvA dvC dvB [([1; 1], 1); ([0; 0], 2); ([1; 1], 2)]); try klen_explicit; try exact H7.
  - unfold exact_quotient. apply teq_sym. exact dv_product.
  - unfold exact_quotient. teq_compute.
Qed.
Example C09_no_zero_divisors_nonvacuous :
  pzero [([1; 0], 2); ([1; 0], -2)] \/ pzero dvC.
Proof.
  apply (C09_no_zero_divisors 2); try klen_explicit.
  intros p. rewrite (pmul_teq_l [([1; 0], 2); ([1; 0], -2)] [] dvC); [reflexivity|]. teq_explicit.
Qed.

(* ---- quotient with parameters: the product  a x W  of C09_product_nonvacuous reversed w.r.t. W ----
   a: atom of size 1 carrying statistic value 1;  W: the binary words of length <= 2 by number of b's;
   the parent's TRUE tables are written down independently (sizes 0..4 are read for levels 0..3) *)
Definition tabProd (m : Z) : terms :=
  if m =? 1 then [([1], 1)] else if m =? 2 then [([2], 1); ([1], 1)]
  else if m =? 3 then [([3], 1); ([2], 1); ([1], 1); ([2], 1)] else [].
Definition qpcs : list (Z * bool) := [(1, true); (0, false)].
Lemma tabWords_entries m k v : In (k, v) (tabWords m) -> In (k, v) [([0], 1); ([1], 1); ([1], 2); ([2], 1)].
Proof.
  unfold tabWords. destruct (m =? 0); [|destruct (m =? 1); [|destruct (m =? 2)]]; simpl; intuition.
Qed.
Lemma tabAtom_entries m k v : In (k, v) (tabAtom m) -> (k, v) = ([1], 1).
Proof. unfold tabAtom. destruct (m =? 1); simpl; intuition. Qed.
Lemma qp_genuine : forall m, 0 <= m <= 3 + quotient_parent_shift qpcs (Z.of_nat 1) ->
  product_genuine [f1; f1] [tabAtom; tabWords] (tabProd m) m.
Proof.
  intros m Hm. change (quotient_parent_shift qpcs (Z.of_nat 1)) with 1 in Hm.
  assert (E : m = 0 \/ m = 1 \/ m = 2 \/ m = 3 \/ m = 4) by lia.
  destruct E as [->|[->|[->|[->| ->]]]]; unfold product_genuine; teq_compute.
Qed.
Example C09_quotient_params_nonvacuous :
  exists tl : list terms,
    levels (qstep_p [f1; f1] (q_param_map [[0%nat]] 1) 1 qpcs 1 tabProd [tabAtom; tabWords]) 3 = (tl, None) /\
    length tl = Z.to_nat (3 + 1) /\
    forall m, (m < length tl)%nat -> teq (nth m tl []) (nth 1 [tabAtom; tabWords] (fun _ => []) (Z.of_nat m)).
Proof.
  apply (C09_quotient_params [f1; f1] (q_param_map [[0%nat]] 1) 1 qpcs 1 tabProd [tabAtom; tabWords] 3).
  - simpl; lia.
  - simpl; lia.
  - reflexivity.
  - reflexivity.
  - lia.
  - repeat constructor; intros k; apply sum_param_map_length.
  - repeat constructor; simpl; lia.
  - exact prod_vanish.
  - repeat constructor; intros m k v H.
    + apply tabAtom_entries in H. inversion H. lia.
    + apply tabWords_entries in H. simpl in H. repeat (destruct H as [H|H]; [inversion H; lia|]). contradiction.
  - repeat constructor; intros m k v H.
    + apply tabAtom_entries in H. inversion H. vm_compute. repeat constructor; discriminate.
    + apply tabWords_entries in H. simpl in H.
      repeat (destruct H as [H|H]; [inversion H; vm_compute; repeat constructor; discriminate|]). contradiction.
  - exact qp_genuine.
  - vm_compute. discriminate.
  - intros m k v H. simpl in H. apply tabWords_entries in H. simpl in H.
    repeat (destruct H as [H|H]; [inversion H; reflexivity|]). contradiction.
  - lia.
Qed.
Example C09_quotient_params_value :
  let r := levels (qstep_p [f1; f1] (q_param_map [[0%nat]] 1) 1 qpcs 1 tabProd [tabAtom; tabWords]) 3 in
  map tnorm (fst r) = [[([0], 1)]; [([0], 1); ([1], 1)]; [([0], 1); ([1], 2); ([2], 1)]; []] /\ snd r = None /\
  (* a sibling without an object of its minimum size: c_poly = 0, the code divides by zero *)
  snd (levels (qstep_p [f1; f1] (q_param_map [[0%nat]] 1) 1 qpcs 1 tabProd [(fun _ => []); tabWords]) 3)
  = Some E_ZERODIV /\
  (* a parent table that is not the convolution: the division leaves a remainder *)
  snd (levels (qstep_p [f1; f1] (q_param_map [[0%nat]] 1) 1 qpcs 1
                 (fun m => if m =? 2 then [([2], 1); ([0], 1)] else tabProd m) [tabAtom; tabWords]) 3)
  = Some E_ASSERT.
Proof. vm_compute. repeat split; reflexivity. Qed.

(* Quotient.param_map on the image of a child tuple; parent statistics 0 and 2 are BOTH mapped onto
   the child statistic 10 (merged: fine for Quotient), parent statistic 3 is dropped *)
Definition rt_d : dict := [(0, 10); (1, 11); (2, 10)].
Lemma rt_wf : wf_dict [0; 1; 2; 3] [10; 11] rt_d.
Proof.
  split; [repeat constructor; simpl; intuition discriminate|].
  split; [repeat constructor; simpl; intuition discriminate|].
  split; [repeat constructor; simpl; intuition discriminate|].
  intros a b H. simpl in H. repeat (destruct H as [H|H]; [inversion H; subst; simpl; tauto|]). contradiction.
Qed.
Example C09_quotient_parent_map_round_trip_nonvacuous :
  parent_pos_map [0; 1; 2; 3] [10; 11] rt_d = Ok (parent_pm [0; 1; 2; 3] [10; 11] rt_d) /\
  q_param_map (parent_pm [0; 1; 2; 3] [10; 11] rt_d) (length [10; 11]) (dict_sem [0; 1; 2; 3] [10; 11] rt_d [5; 7]) = Ok [5; 7].
Proof.
  apply (C09_quotient_parent_map_round_trip [0; 1; 2; 3] [10; 11] rt_d [5; 7] rt_wf); [| |reflexivity].
  - intros a b H. simpl in H. repeat (destruct H as [H|H]; [inversion H; subst; simpl; tauto|]). contradiction.
  - intros cv H. simpl in H. repeat (destruct H as [H|H]; [subst; simpl; tauto|]). contradiction.
Qed.
Example C09_quotient_parent_map_round_trip_value :
  parent_pm [0; 1; 2; 3] [10; 11] rt_d = [[0%nat]; [1%nat]; [0%nat]; []] /\
  dict_sem [0; 1; 2; 3] [10; 11] rt_d [5; 7] = [5; 7; 5; 0] /\
  (* an untracked statistic (12) of the flipped child: Quotient.param_map asserts (the open finding) *)
  q_param_map (parent_pm [0; 1; 2; 3] [10; 11; 12] rt_d) 3 (dict_sem [0; 1; 2; 3] [10; 11; 12] rt_d [5; 7; 9]) = Err E_ASSERT /\
  (* a parent tuple that is not an image (merged statistics differ): asserts as well *)
  q_param_map (parent_pm [0; 1; 2; 3] [10; 11] rt_d) 2 [5; 7; 6; 0] = Err E_ASSERT.
Proof. repeat split; vm_compute; reflexivity. Qed.

(* ---- quotient, parameter-free, on NATURAL tables: words over {a, b} starting with a  =  a x W ----
   a: the atom (one object of size 1), W: all words (2^m of size m), parent: 2^(m-1) words of
   size m >= 1.  Levels 0..4 read the parent up to size 5 only; nothing is claimed or needed above. *)
Definition nA (m : Z) : terms := if m =? 1 then [([], 1)] else [].
Definition nW (m : Z) : terms := if m <? 0 then [] else [([], 2 ^ m)].
Definition nP (m : Z) : terms := if m <? 1 then [] else [([], 2 ^ (m - 1))].
Definition ncs : list (Z * bool) := [(1, true); (0, false)].
Lemma n_vanish : Vanish [nA; nW] (quotient_min_sizes ncs) (quotient_max_sizes ncs).
Proof.
  constructor; [|constructor; [|constructor]]; intros m Hm; simpl in Hm.
  - unfold nA. destruct (Z.eqb_spec m 1) as [->|_]; [|intros k v []].
    exfalso. destruct Hm as [Hm|Hm]; [lia|apply Hm; lia].
  - destruct Hm as [Hm|Hm]; [|exfalso; apply Hm; exact I]. unfold nW.
    destruct (Z.ltb_spec m 0); [intros k v []|lia].
Qed.
Lemma n_genuine : forall m, 0 <= m <= 4 + quotient_parent_shift ncs (Z.of_nat 1) ->
  product_genuine [f0; f0] [nA; nW] (nP m) m.
Proof.
  intros m Hm. change (quotient_parent_shift ncs (Z.of_nat 1)) with 1 in Hm.
  assert (E : m = 0 \/ m = 1 \/ m = 2 \/ m = 3 \/ m = 4 \/ m = 5) by lia.
  destruct E as [->|[->|[->|[->|[->| ->]]]]]; unfold product_genuine; teq_compute.
Qed.
Example C09_quotient_parameter_free_natural :
  exists tl : list terms,
    levels (qstep [f0; f0] (q_param_map [] 0) ncs 1 nP [nA; nW]) 4 = (tl, None) /\
    length tl = Z.to_nat (4 + 1) /\
    forall m, (m < length tl)%nat ->
      nokeys (nth m tl []) /\ tsum (nth m tl []) = tsum (nth 1 [nA; nW] (fun _ => []) (Z.of_nat m)).
Proof.
  apply (C09_quotient_parameter_free [f0; f0] (q_param_map [] 0) ncs 1 nP [nA; nW] 4).
  - simpl; lia.
  - simpl; lia.
  - reflexivity.
  - repeat constructor; intros k; reflexivity.
  - reflexivity.
  - repeat constructor; simpl; lia.
  - exact n_vanish.
  - repeat constructor; intros m k v H.
    + unfold nA in H. destruct (m =? 1); [|destruct H]. destruct H as [H|[]]. inversion H. lia.
    + unfold nW in H. destruct (Z.ltb_spec m 0); [destruct H|]. destruct H as [H|[]]. inversion H.
      apply Z.pow_nonneg. lia.
  - intros m k v H. unfold nP in H. destruct (m <? 1); [destruct H|]. destruct H as [H|[]]. inversion H. reflexivity.
  - exact n_genuine.
  - vm_compute. discriminate.
  - lia.
Qed.
Example C09_quotient_parameter_free_natural_value :
  levels (qstep [f0; f0] (q_param_map [] 0) ncs 1 nP [nA; nW]) 4
  = ([[([], 1)]; [([], 2)]; [([], 4)]; [([], 8)]; [([], 16)]], None).
Proof. vm_compute. reflexivity. Qed.

(* ---- the executable steps ---- *)
(* the three-child union rule above, as the step sees it: kids with their dictionaries *)
Definition kA : kid := mkKid [20] [(0, 20)] 0 false false.
Definition kB : kid := mkKid [10; 11] [(1, 10); (0, 11)] 0 false false.
Definition kC : kid := mkKid [] [] 0 false false.
Definition u3_kids : list kid := [kA; kB; kC].
Definition u3_ktabs : list (list terms) := [[tA]; [tB]; [tC]].
Lemma u3_wf : Forall (kid_wf [0; 1]) u3_kids.
Proof. each_kid wf_explicit. Qed.
Lemma u3_keys : Forall2 kid_keys u3_kids (map (fun t => tab_at t 0) u3_ktabs).
Proof. each_kid2 klen_explicit. Qed.
Lemma u3_step_genuine : union_genuine (map (kid_sem [0; 1]) u3_kids) (map (fun t => tab_at t 0) u3_ktabs) tP.
Proof. unfold union_genuine. teq_compute. Qed.
Example C09_union_step_nonvacuous :
  exists r, union_step [0; 1] u3_kids u3_ktabs (fun _ => []) 0 = Ok r /\ teq r tP.
Proof. exact (C09_union_step [0; 1] u3_kids u3_ktabs tP (fun _ => []) 0 u3_wf u3_keys u3_step_genuine). Qed.
Example C09_union_step_is_union_get_terms_nonvacuous :
  union_step [0; 1] u3_kids u3_ktabs (fun _ => []) 0 =
  union_get_terms (map (kid_du [0; 1]) u3_kids) (map (fun t => tab_at t 0) u3_ktabs).
Proof. exact (C09_union_step_is_union_get_terms [0; 1] u3_kids u3_ktabs (fun _ => []) 0 u3_wf). Qed.
Example C09_union_step_value :
  union_step [0; 1] u3_kids u3_ktabs (fun _ => []) 0
  = Ok [([3; 0], 4); ([7; 0], 1); ([7; 5], 2); ([1; 1], 3); ([0; 0], 6)] /\
  (* a dictionary key that is not a parent statistic is not well formed: KeyError *)
  union_step [0; 1] [mkKid [20] [(4, 20)] 0 false false] [[tA]] (fun _ => []) 0 = Err E_KEY.
Proof. split; vm_compute; reflexivity. Qed.

(* Rule._ensure_level over that step *)
Example C09_levels_nonvacuous :
  exists tl, levels (union_step [0; 1] u3_kids u3_ktabs) 0 = (tl, None) /\ length tl = Z.to_nat (0 + 1) /\
             forall j, (j < length tl)%nat -> (fun m r => m = 0 /\ teq r tP) (Z.of_nat j) (nth j tl []).
Proof.
  apply (C09_levels (union_step [0; 1] u3_kids u3_ktabs) (fun m r => m = 0 /\ teq r tP) 0); [lia|].
  intros own m Hm. assert (m = 0) by lia. subst m.
  destruct (C09_union_step [0; 1] u3_kids u3_ktabs tP own 0 u3_wf u3_keys u3_step_genuine) as (r & Hr & Ht).
  exists r. auto.
Qed.

(* its reverse w.r.t. the middle child B *)
Lemma kB_flip : flip_ok [0; 1] (nth 1 u3_kids default_kid).
Proof.
  split; [wf_explicit|]. split; [simpl; repeat constructor; simpl; intuition discriminate|]. split.
  - intros a b H. simpl in H. repeat (destruct H as [H|H]; [inversion H; subst; simpl; tauto|]). contradiction.
  - intros cv H. simpl in H. repeat (destruct H as [H|H]; [subst; simpl; tauto|]). contradiction.
Qed.
Example C09_complement_step_nonvacuous :
  exists r, complement_step [0; 1] u3_kids 1 [tP] u3_ktabs (fun _ => []) 0 = Ok r /\
            teq r (tab_at (nth 1 u3_ktabs []) 0).
Proof.
  apply (C09_complement_step [0; 1] u3_kids 1 [tP] u3_ktabs (fun _ => []) 0).
  - simpl; lia.
  - reflexivity.
  - repeat constructor; simpl; intuition discriminate.
  - exact u3_wf.
  - exact kB_flip.
  - klen_explicit.
  - exact u3_keys.
  - repeat constructor; by_entries.
  - exact u3_step_genuine.
Qed.
Example C09_complement_step_is_complement_get_terms_nonvacuous :
  exists pm, parent_pos_map [0; 1] (k_names (nth 1 u3_kids default_kid)) (k_dict (nth 1 u3_kids default_kid)) = Ok pm /\
  complement_step [0; 1] u3_kids 1 [tP] u3_ktabs (fun _ => []) 0 =
  complement_get_terms (du_param_map pm (length (k_names (nth 1 u3_kids default_kid))))
    (map (kid_du [0; 1]) (remove_at 1 u3_kids)) (tab_at [tP] 0) (map (fun t => tab_at t 0) (remove_at 1 u3_ktabs)).
Proof.
  apply (C09_complement_step_is_complement_get_terms [0; 1] u3_kids 1 [tP] u3_ktabs (fun _ => []) 0 u3_wf).
  intros a b H. simpl in H. repeat (destruct H as [H|H]; [inversion H; subst; simpl; tauto|]). contradiction.
Qed.
Example C09_complement_step_value :
  match complement_step [0; 1] u3_kids 1 [tP] u3_ktabs (fun _ => []) 0 with
  | Ok r => tnorm r = [([1; 1], 3); ([5; 7], 2)] | Err _ => False end.
Proof. vm_compute. reflexivity. Qed.

(* the product a x W with tables by size as lists, and its reverse w.r.t. W *)
Definition kAt : kid := mkKid [10] [(0, 10)] 1 true false.
Definition kWo : kid := mkKid [20] [(0, 20)] 0 false false.
Definition pq_kids : list kid := [kAt; kWo].
Definition lAtom : list terms := [[]; [([1], 1)]; []; []; []].
Definition lWords : list terms := [[([0], 1)]; [([0], 1); ([1], 1)]; [([0], 1); ([1], 2); ([2], 1)]; []; []].
Definition lProd : list terms := [[]; [([1], 1)]; [([2], 1); ([1], 1)]; [([3], 1); ([2], 1); ([1], 1); ([2], 1)]; []].
Definition pq_ktabs : list (list terms) := [lAtom; lWords].
Lemma pq_wf : Forall (kid_wf [0]) pq_kids.
Proof. each_kid wf_explicit. Qed.
Lemma pq_keys : Forall2 (fun k (tab : Z -> terms) => forall m, kid_keys k (tab m)) pq_kids (map tab_at pq_ktabs).
Proof.
  each_kid2 ltac:(apply tab_at_forall; [apply klen_nil|each_kid klen_explicit]).
Qed.
Lemma pq_vanish : Vanish (map tab_at pq_ktabs) (kid_mins pq_kids) (kid_maxs pq_kids).
Proof.
  constructor; [|constructor; [|constructor]]; apply tab_at_vanish.
  - intros [|[|[|[|[|j]]]]] Hj Hm; simpl in *; try lia; try apply allzero_nil; try (exfalso; destruct Hm as [Hm|Hm]; [lia|apply Hm; first [lia|exact I]]).
  - intros [|[|[|[|[|j]]]]] Hj Hm; simpl in *; try lia; try apply allzero_nil; try (exfalso; destruct Hm as [Hm|Hm]; [lia|apply Hm; first [lia|exact I]]).
Qed.
Lemma pq_genuine : forall m, 0 <= m <= 4 ->
  product_genuine (map (kid_sem [0]) pq_kids) (map tab_at pq_ktabs) (tab_at lProd m) m.
Proof.
  intros m Hm. assert (E : m = 0 \/ m = 1 \/ m = 2 \/ m = 3 \/ m = 4) by lia.
  destruct E as [->|[->|[->|[->| ->]]]]; unfold product_genuine; teq_compute.
Qed.
Example C09_product_step_nonvacuous :
  exists r, product_step [0] pq_kids pq_ktabs (fun _ => []) 3 = Ok r /\ teq r (tab_at lProd 3).
Proof.
  apply (C09_product_step [0] pq_kids pq_ktabs (tab_at lProd 3) (fun _ => []) 3).
  - simpl; lia.
  - reflexivity.
  - exact pq_wf.
  - exact pq_keys.
  - repeat constructor; simpl; lia.
  - exact pq_vanish.
  - apply pq_genuine. lia.
Qed.
Example C09_product_step_is_product_get_terms_nonvacuous :
  product_step [0] pq_kids pq_ktabs (fun _ => []) 3 =
  Ok (product_get_terms (map (kid_sum [0]) pq_kids) (kid_mins pq_kids) (kid_maxs pq_kids) (map tab_at pq_ktabs) 3).
Proof. exact (C09_product_step_is_product_get_terms [0] pq_kids pq_ktabs (fun _ => []) 3 pq_wf). Qed.
Example C09_product_step_value :
  product_step [0] pq_kids pq_ktabs (fun _ => []) 3 = Ok [([1], 1); ([2], 2); ([3], 1)].
Proof. vm_compute. reflexivity. Qed.

Example C09_quotient_step_nonvacuous :
  exists tl : list terms,
    levels (quotient_step [0] pq_kids 1 lProd pq_ktabs) 3 = (tl, None) /\ length tl = Z.to_nat (3 + 1) /\
    forall m, (m < length tl)%nat -> teq (nth m tl []) (tab_at (nth 1 pq_ktabs []) (Z.of_nat m)).
Proof.
  apply (C09_quotient_step [0] pq_kids 1 lProd pq_ktabs 3).
  - simpl; lia.
  - simpl; lia.
  - reflexivity.
  - simpl; lia.
  - exact pq_wf.
  - intros a b H. simpl in H. repeat (destruct H as [H|H]; [inversion H; subst; simpl; tauto|]). contradiction.
  - intros cv H. simpl in H. repeat (destruct H as [H|H]; [subst; simpl; tauto|]). contradiction.
  - exact pq_keys.
  - each_kid ltac:(apply tab_at_forall; [apply nonneg_nil|each_kid by_entries]).
  - each_kid ltac:(apply tab_at_forall; [apply knonneg_nil|each_kid klen_explicit]).
  - repeat constructor; simpl; lia.
  - exact pq_vanish.
  - intros m Hm. apply pq_genuine. change (quotient_parent_shift (kid_descs pq_kids) (Z.of_nat 1)) with 1 in Hm. lia.
  - vm_compute. discriminate.
  - lia.
Qed.
Example C09_quotient_step_is_qstep_nonvacuous : forall own n,
  quotient_step [0] pq_kids 1 lProd pq_ktabs own n =
  qstep_p (map (kid_sum [0]) pq_kids) (quot_ppm [0] (nth 1 pq_kids default_kid)) (length [0]) (kid_descs pq_kids) 1
          (tab_at lProd) (map tab_at pq_ktabs) own n.
Proof.
  intros own n. apply (C09_quotient_step_is_qstep [0] pq_kids 1 lProd pq_ktabs own n pq_wf).
  - simpl. repeat constructor; simpl; intuition discriminate.
  - intros a b H. simpl in H. repeat (destruct H as [H|H]; [inversion H; subst; simpl; tauto|]). contradiction.
Qed.
Example C09_quotient_step_value :
  let r := levels (quotient_step [0] pq_kids 1 lProd pq_ktabs) 3 in
  map tnorm (fst r) = [[([0], 1)]; [([0], 1); ([1], 1)]; [([0], 1); ([1], 2); ([2], 1)]; []] /\ snd r = None.
Proof. vm_compute. split; reflexivity. Qed.

(* the parameter-free quotient step on the natural tables: words starting with a = a x W *)
Definition nf_kids : list kid := [mkKid [] [] 1 true false; mkKid [] [] 0 false false].
Definition nf_ktabs : list (list terms) :=
  [[[]; [([], 1)]; []; []; []; []]; [[([], 1)]; [([], 2)]; [([], 4)]; [([], 8)]; [([], 16)]; [([], 32)]]].
Definition nf_ptabs : list terms := [[]; [([], 1)]; [([], 2)]; [([], 4)]; [([], 8)]; [([], 16)]].
Lemma nf_vanish : Vanish (map tab_at nf_ktabs) (kid_mins nf_kids) (kid_maxs nf_kids).
Proof.
  constructor; [|constructor; [|constructor]]; apply tab_at_vanish.
  - intros [|[|[|[|[|[|j]]]]]] Hj Hm; simpl in *; try lia; try apply allzero_nil; try (exfalso; destruct Hm as [Hm|Hm]; [lia|apply Hm; first [lia|exact I]]).
  - intros [|[|[|[|[|[|j]]]]]] Hj Hm; simpl in *; try lia; try apply allzero_nil; try (exfalso; destruct Hm as [Hm|Hm]; [lia|apply Hm; first [lia|exact I]]).
Qed.
Example C09_quotient_step_parameter_free_nonvacuous :
  exists tl : list terms,
    levels (quotient_step [] nf_kids 1 nf_ptabs nf_ktabs) 4 = (tl, None) /\ length tl = Z.to_nat (4 + 1) /\
    forall m, (m < length tl)%nat ->
      nokeys (nth m tl []) /\ tsum (nth m tl []) = tsum (tab_at (nth 1 nf_ktabs []) (Z.of_nat m)).
Proof.
  apply (C09_quotient_step_parameter_free nf_kids 1 nf_ptabs nf_ktabs 4).
  - simpl; lia.
  - simpl; lia.
  - reflexivity.
  - each_kid ltac:(split; reflexivity).
  - each_kid ltac:(apply tab_at_forall; [apply nonneg_nil|each_kid by_entries]).
  - apply tab_at_forall; [intros ? ? []|]. each_kid by_entries.
  - repeat constructor; simpl; lia.
  - exact nf_vanish.
  - intros m Hm. change (quotient_parent_shift (kid_descs nf_kids) (Z.of_nat 1)) with 1 in Hm.
    assert (E : m = 0 \/ m = 1 \/ m = 2 \/ m = 3 \/ m = 4 \/ m = 5) by lia.
    destruct E as [->|[->|[->|[->|[->| ->]]]]]; unfold product_genuine; teq_compute.
  - vm_compute. discriminate.
  - lia.
Qed.
Example C09_quotient_step_parameter_free_value :
  levels (quotient_step [] nf_kids 1 nf_ptabs nf_ktabs) 4
  = ([[([], 1)]; [([], 2)]; [([], 4)]; [([], 8)]; [([], 16)]], None).
Proof. vm_compute. reflexivity. Qed.

(* the equivalence rule of the union whose only non-empty child is B, and its reverse *)
Definition eq_ktabs : list (list terms) := [[[([4], 0)]]; [tB]; [[]]].
Lemma eq_step_genuine : union_genuine (map (kid_sem [0; 1]) eq_kids) (map (fun t => tab_at t 0) eq_ktabs) tPB.
Proof. unfold union_genuine. teq_compute. Qed.
Example C09_equivalence_step_nonvacuous :
  exists r, equiv_union_step [0; 1] eq_kids eq_ktabs (fun _ => []) 0 = Ok r /\ teq r tPB.
Proof.
  apply (C09_equivalence_step [0; 1] eq_kids eq_ktabs tPB (fun _ => []) 0 1).
  - reflexivity.
  - reflexivity.
  - wf_explicit.
  - klen_explicit.
  - intros j Hj Hlt. destruct j as [|[|[|j]]]; simpl in Hlt; try lia; by_entries.
  - exact eq_step_genuine.
Qed.
Example C09_equivalence_step_is_union_get_terms_nonvacuous :
  equiv_union_step [0; 1] eq_kids eq_ktabs (fun _ => []) 0 =
  union_get_terms [kid_du [0; 1] (nth 1 eq_kids default_kid)] [tab_at (nth 1 eq_ktabs []) 0].
Proof.
  apply (C09_equivalence_step_is_union_get_terms [0; 1] eq_kids eq_ktabs (fun _ => []) 0 1); [reflexivity|wf_explicit].
Qed.
Example C09_equivalence_step_value :
  equiv_union_step [0; 1] eq_kids eq_ktabs (fun _ => []) 0 = Ok [([7; 5], 2); ([1; 1], 3)].
Proof. vm_compute. reflexivity. Qed.
Example C09_equivalence_reverse_step_nonvacuous :
  exists r, equiv_complement_step [0; 1] eq_kids 1 [tPB] (fun _ => []) 0 = Ok r /\ teq r tB.
Proof.
  apply (C09_equivalence_reverse_step [0; 1] eq_kids 1 [tPB] tB (fun _ => []) 0).
  - reflexivity.
  - repeat constructor; simpl; intuition discriminate.
  - split; [wf_explicit|]. split; [simpl; repeat constructor; simpl; intuition discriminate|]. split.
    + intros a b H. simpl in H. repeat (destruct H as [H|H]; [inversion H; subst; simpl; tauto|]). contradiction.
    + intros cv H. simpl in H. repeat (destruct H as [H|H]; [subst; simpl; tauto|]). contradiction.
  - klen_explicit.
  - klen_explicit.
  - by_entries.
  - unfold union_genuine. teq_compute.
Qed.
Example C09_equivalence_reverse_step_is_complement_get_terms_nonvacuous :
  equiv_complement_step [0; 1] eq_kids 1 [tPB] (fun _ => []) 0 =
  complement_get_terms (du_param_map [[1%nat]; [0%nat]] 2) [] (tab_at [tPB] 0) [].
Proof.
  apply (C09_equivalence_reverse_step_is_complement_get_terms [0; 1] eq_kids 1 [tPB] (fun _ => []) 0 1); [reflexivity|].
  intros a b H. simpl in H. repeat (destruct H as [H|H]; [inversion H; subst; simpl; tauto|]). contradiction.
Qed.
Example C09_equivalence_reverse_step_value :
  equiv_complement_step [0; 1] eq_kids 1 [tPB] (fun _ => []) 0 = Ok [([1; 1], 3); ([5; 7], 2)].
Proof. vm_compute. reflexivity. Qed.

(* the path X0 -> X1 -> X2 of C09_path_nonvacuous, as the step sees it *)
Definition ps_s0 : step_desc := (false, [0; 1], [mkKid [10; 11] pa_d1 0 false false], 0%nat).
Definition ps_s1 : step_desc := (false, [10; 11], [mkKid [20; 21; 22] pa_d2 0 false false], 0%nat).
Example C09_path_step_nonvacuous :
  exists r, path_step [ps_s0; ps_s1] [pa_T2] (fun _ => []) 0 = Ok r /\ teq r pa_T0.
Proof.
  apply (C09_path_step ps_s0 [ps_s1] pa_steps pa_T0 [pa_T2] (fun _ => []) 0).
  - repeat constructor; simpl; intuition discriminate.
  - klen_explicit.
  - exact pa_chain.
  - reflexivity.
  - reflexivity.
  - reflexivity.
  - split; [repeat constructor; simpl; intuition discriminate|].
    split; [repeat constructor; simpl; intuition discriminate|].
    split; [repeat constructor; simpl; intuition discriminate|].
    intros a b H. cbn in H. repeat (destruct H as [H|H]; [inversion H; subst; simpl; tauto|]). contradiction.
  - klen_explicit.
Qed.
Example C09_path_step_is_union_get_terms_nonvacuous :
  path_step [ps_s0; ps_s1] [pa_T2] (fun _ => []) 0 =
  union_get_terms [du_param_map [[0%nat]; [1%nat]; []] (length [0; 1])] [tab_at [pa_T2] 0].
Proof.
  apply (C09_path_step_is_union_get_terms ps_s0 [ps_s1] [pa_d1; pa_d2] [[0%nat]; [1%nat]; []] [pa_T2] (fun _ => []) 0);
    reflexivity.
Qed.
Example C09_path_step_value :
  path_step [ps_s0; ps_s1] [pa_T2] (fun _ => []) 0 = Ok [([5; 7], 2); ([5; 7], 1); ([1; 1], 3)].
Proof. vm_compute. reflexivity. Qed.

(* ------------------------------------------------------------ tie to the source (translator)
   The three parameter-map functions of the model ARE the source functions
   Constructor.param_map (base.py), DisjointUnion.param_map (disjoint.py) and
   Quotient.param_map (cartesian.py), re-translated into Gen/ConstructorParamMap.v,
   Gen/UnionParamMap.v, Gen/QuotientParamMap.v on every run: for ALL position maps,
   sizes and parameter tuples (positions are naturals in the model: zpos embeds
   them; an AssertionError is the result None of a generated definition). *)
Theorem C09_param_map_is_source : forall pm num param,
  sum_param_map pm num param =
  ConstructorParamMap.constructor_param_map (zpos pm) (Z.of_nat num) param.
Proof. exact sum_param_map_is_source. Qed.

Theorem C09_union_param_map_is_source : forall pm num param,
  du_param_map pm num param =
  res_of_option (UnionParamMap.union_param_map (zpos pm) (Z.of_nat num) param).
Proof. exact du_param_map_is_source. Qed.

Theorem C09_quotient_param_map_is_source : forall pm num param,
  q_param_map pm num param =
  res_of_option (QuotientParamMap.quotient_param_map (zpos pm) (Z.of_nat num) param).
Proof. exact q_param_map_is_source. Qed.

(* One rule of an equivalence path composes the dictionary by the source's expressions
   (EquivalencePathRule.constructor, strategies/rule.py; Gen/PathDictCompose.v,
   Gen/PathDictInvert.v, Gen/PathDictDuplicates.v), for every dictionary e with distinct
   keys (a Python dictionary); the path starts from the source's identity dictionary
   (Gen/PathDictInitial.v). *)
Theorem C09_path_dictionary_is_source : forall e rev pn kids idx, NoDup (map fst e) ->
  path_dict_step (Ok e) (rev, pn, kids, idx) =
  match first_nonempty kids with
  | None => Err E_ASSERT
  | Some ci =>
      let d := k_dict (nth ci kids default_kid) in
      if rev then
        (if PathDictDuplicates.path_dict_duplicates d then Err E_NOTIMPL
         else Ok (PathDictCompose.path_dict_compose e (PathDictInvert.path_dict_invert d)))
      else Ok (PathDictCompose.path_dict_compose e d)
  end.
Proof. exact path_dict_step_is_source. Qed.

Theorem C09_path_initial_is_source : forall names, NoDup names ->
  id_dict names = PathDictInitial.path_dict_initial names.
Proof. exact path_initial_is_source. Qed.

Print Assumptions C09_param_maps_agree.
Print Assumptions C09_union.
Print Assumptions C09_product.
Print Assumptions C09_complement.
Print Assumptions C09_quotient_parameter_free.
Print Assumptions C09_exact_quotient_unique.
Print Assumptions C09_no_zero_divisors.
Print Assumptions C09_exact_division.
Print Assumptions C09_exact_division_is_the_quotient.
Print Assumptions C09_quotient_params.
Print Assumptions C09_quotient_parent_map_round_trip.
Print Assumptions C09_union_step_is_union_get_terms.
Print Assumptions C09_union_step.
Print Assumptions C09_product_step_is_product_get_terms.
Print Assumptions C09_product_step.
Print Assumptions C09_complement_step_is_complement_get_terms.
Print Assumptions C09_complement_step.
Print Assumptions C09_quotient_step_is_qstep.
Print Assumptions C09_quotient_step.
Print Assumptions C09_quotient_step_parameter_free.
Print Assumptions C09_equivalence_step.
Print Assumptions C09_equivalence_reverse_step.
Print Assumptions C09_equivalence_step_is_union_get_terms.
Print Assumptions C09_equivalence_reverse_step_is_complement_get_terms.
Print Assumptions C09_path_step_is_union_get_terms.
Print Assumptions C09_path_step.
Print Assumptions C09_levels.
Print Assumptions C09_equivalence.
Print Assumptions C09_equivalence_child_index.
Print Assumptions C09_equivalence_reverse.
Print Assumptions C09_dictionary_maps.
Print Assumptions C09_complement_parent_map.
Print Assumptions C09_complement_round_trip.
Print Assumptions C09_path.
Print Assumptions C09_path_reverse_link.
Print Assumptions C09_path_dictionary.
Print Assumptions C09_param_map_is_source.
Print Assumptions C09_union_param_map_is_source.
Print Assumptions C09_quotient_param_map_is_source.
Print Assumptions C09_path_dictionary_is_source.
Print Assumptions C09_path_initial_is_source.

(* ================================================================================================
   Fix 25e10f1 — a product rule with a SINGLE factor as an equivalence step and in reverse
   (Count/ConstructorsOneFactor.v), and the two OPEN findings on Complement characterised
   (Count/ConstructorsFindings.v).
   ================================================================================================ *)
From CSS Require Import Count.ConstructorsOneFactor Count.ConstructorsFindings.

(* "a product with a single factor counts like a union with a single child": the full convolution
   over compositions into ONE part is the re-keyed table of the factor *)
Theorem C09_one_factor_product_is_union : forall f (tab : Z -> terms) Tp n, 0 <= n ->
  (product_genuine [f] [tab] Tp n <-> union_genuine [f] [tab n] Tp).
Proof. exact one_factor_genuine_iff. Qed.

(* form 7 (EquivalenceRule of a one-factor product; EquivalenceRule.constructor builds the one-child
   DisjointUnion over extra_parameters[0]): fed with the factor's true table it raises nothing and
   returns the parent's true table *)
Theorem C09_equivalence_one_factor_product : forall pnames k ktab Tp own n,
  0 <= n -> k_empty k = false -> kid_wf pnames k -> kid_keys k (tab_at ktab n) ->
  product_genuine [kid_sem pnames k] [tab_at ktab] Tp n ->
  exists r, equiv_product_step pnames [k] [ktab] own n = Ok r /\ teq r Tp.
Proof. exact equiv_product_step_correct. Qed.

(* ... it IS the form-4 step of the same description; with two or more factors the library builds
   no equivalence form (NotImplementedError) *)
Theorem C09_equivalence_one_factor_product_is_union_form : forall pnames k ktabs own n,
  equiv_product_step pnames [k] ktabs own n = equiv_union_step pnames [k] ktabs own n.
Proof. exact equiv_product_step_is_equiv_union_step. Qed.

Theorem C09_equivalence_product_two_factors_not_implemented : forall pnames k1 k2 kids ktabs own n ci,
  first_nonempty (k1 :: k2 :: kids) = Some ci ->
  equiv_product_step pnames (k1 :: k2 :: kids) ktabs own n = Err E_NOTIMPL.
Proof. exact equiv_product_step_not_implemented. Qed.

(* form 3 with ONE kid (Quotient without sibling: _c is the constant 1, _a subtracts nothing, the
   rule's own earlier terms are not read): Rule._ensure_level returns, for every level 0..N and
   without an exception, the true TABLE of the factor — the parent's table read through the
   dictionary.  Hypotheses: at least one parent statistic (the sympy branch), a well-formed
   dictionary whose values are the child's statistics and cover them (several parent statistics
   may be merged onto one), key lengths, counts and statistic values non-negative, no object below
   the minimum size, the product rule genuine at the sizes 0..N (parent shift 0).                *)
Theorem C09_quotient_no_sibling : forall pnames k ptabs ktab N,
  (1 <= length pnames)%nat -> kid_wf pnames k ->
  (forall a b, In (a, b) (k_dict k) -> In b (k_names k)) ->
  (forall cv, In cv (k_names k) -> In cv (map snd (k_dict k))) ->
  (forall m, kid_keys k (tab_at ktab m)) -> (forall m, nonneg (tab_at ktab m)) ->
  (forall m key v, In (key, v) (tab_at ktab m) -> Forall (fun y => 0 <= y) key) ->
  (forall m, m < k_min k -> allzero (tab_at ktab m)) ->
  (forall m, 0 <= m <= N -> product_genuine [kid_sem pnames k] [tab_at ktab] (tab_at ptabs m) m) ->
  0 <= N ->
  exists tl : list terms, levels (quotient_step pnames [k] 0 ptabs [ktab]) N = (tl, None) /\
    length tl = Z.to_nat (N + 1) /\
    forall m, (m < length tl)%nat -> teq (nth m tl []) (tab_at ktab (Z.of_nat m)).
Proof. exact quotient_no_sibling_correct. Qed.

(* form 6 with typed steps (kind 0/1 union forms, 2 a RAW one-factor product rule, 3 its RAW
   ReverseRule): the steps lower to the union description over the same kid (a product step with
   two or more kids is the AssertionError of EquivalencePathRule.__init__), and the path returns
   the true table of its first class whenever the chain is genuine *)
Theorem C09_path_step_one_factor_product : forall ks0 ksteps s0 steps chain (T0 : terms) tabs own n,
  mapM kstep_lower (ks0 :: ksteps) = Ok (s0 :: steps) ->
  let first := step_source s0 in
  let lastn := step_target (last (s0 :: steps) s0) in
  NoDup first -> klen (length first) T0 ->
  chain_ok first T0 chain ->
  map step_dict (s0 :: steps) = map Some (map (fun s : list Z * dict * terms => snd (fst s)) chain) ->
  fst (chain_end first T0 chain) = lastn ->
  snd (chain_end first T0 chain) = tab_at tabs n ->
  wf_dict first lastn (fold_left dict_compose (map (fun s : list Z * dict * terms => snd (fst s)) chain) (id_dict first)) ->
  klen (length lastn) (tab_at tabs n) ->
  exists r, path_step_k (ks0 :: ksteps) tabs own n = Ok r /\ teq r T0.
Proof. exact path_step_k_correct. Qed.

Theorem C09_path_product_step_lowering : forall kind pn k idx, 2 <= kind ->
  kstep_lower (kind, pn, [k], idx) = Ok (negb (kind =? 2), pn, [k], 0%nat).
Proof. exact kstep_lower_product. Qed.

(* a genuine one-factor product IS a genuine link of the chain (what chain_ok asks of that step),
   and it contributes the dictionary of its only factor *)
Theorem C09_path_one_factor_product_link : forall pnames k (tab : Z -> terms) Tp n,
  0 <= n -> product_genuine [kid_sem pnames k] [tab] Tp n ->
  teq Tp (rekey (dict_sem pnames (k_names k) (k_dict k)) (tab n)).
Proof. exact one_factor_product_link. Qed.

(* end to end for the path consisting of ONE raw one-factor product rule *)
Theorem C09_path_single_product_step : forall pnames k ktab Tp own n,
  0 <= n -> k_empty k = false -> kid_wf pnames k -> kid_keys k (tab_at ktab n) ->
  klen (length pnames) Tp ->
  product_genuine [kid_sem pnames k] [tab_at ktab] Tp n ->
  exists r, path_step_k [(2, pnames, [k], 0%nat)] ktab own n = Ok r /\ teq r Tp.
Proof. exact path_single_product_step_correct. Qed.

(* ---------------------------------------------------------------- the open findings, characterised *)
(* OPEN finding complement-untracked-child-statistic.  Without the coverage half of flip_ok the step
   still raises nothing, and returns the child's true table pushed through child -> parent -> child:
   every statistic of the child that is a value of the dictionary survives, an untracked one is 0. *)
Theorem C09_complement_untracked_characterised : forall pnames kids idx ptabs ktabs own n,
  let ki := nth idx kids default_kid in
  (idx < length kids)%nat -> length ktabs = length kids ->
  NoDup pnames -> Forall (kid_wf pnames) kids -> flip_inj pnames ki ->
  klen (length pnames) (tab_at ptabs n) ->
  Forall2 kid_keys kids (map (fun t => tab_at t n) ktabs) ->
  Forall nonneg (map (fun t => tab_at t n) ktabs) ->
  union_genuine (map (kid_sem pnames) kids) (map (fun t => tab_at t n) ktabs) (tab_at ptabs n) ->
  exists r, complement_step pnames kids idx ptabs ktabs own n = Ok r /\
            teq r (rekey (round_trip pnames ki) (tab_at (nth idx ktabs []) n)).
Proof. exact complement_step_round_trip. Qed.

Theorem C09_complement_round_trip_coordinate : forall pnames k key q,
  kid_wf pnames k -> NoDup (map snd (k_dict k)) ->
  length key = length (k_names k) -> (q < length (k_names k))%nat ->
  nth q (round_trip pnames k key) 0 =
  if existsb (Z.eqb (nth q (k_names k) 0)) (map snd (k_dict k)) then nth q key 0 else 0.
Proof. exact round_trip_coordinate. Qed.

(* hence C09_complement_step without coverage is FALSE of the model (and of the code: the witness is
   harness/corpus/C09/complement_untracked_statistic.json, count 1 at statistic 0, truth at 2) *)
Theorem C09_complement_untracked_refuted :
  ~ (forall pnames kids idx ptabs ktabs own n,
       let ki := nth idx kids default_kid in
       (idx < length kids)%nat -> length ktabs = length kids ->
       NoDup pnames -> Forall (kid_wf pnames) kids -> flip_inj pnames ki ->
       klen (length pnames) (tab_at ptabs n) ->
       Forall2 kid_keys kids (map (fun t => tab_at t n) ktabs) ->
       Forall nonneg (map (fun t => tab_at t n) ktabs) ->
       union_genuine (map (kid_sem pnames) kids) (map (fun t => tab_at t n) ktabs) (tab_at ptabs n) ->
       exists r, complement_step pnames kids idx ptabs ktabs own n = Ok r /\
                 teq r (tab_at (nth idx ktabs []) n)).
Proof. exact complement_untracked_refuted. Qed.

(* OPEN finding reverse-wrt-child-with-merged-statistics-asserts.  The parent map of Complement
   (DisjointUnion.param_map over _build_parent_param_map) reaches its assertion EXACTLY on the parent
   tuples on which two parent statistics mapped onto one statistic of the flipped child differ. *)
Theorem C09_complement_merged_asserts : forall pnames cnames d key,
  NoDup cnames -> (forall a b, In (a, b) d -> In b cnames) -> length key = length pnames ->
  (du_param_map (parent_pm pnames cnames d) (length cnames) key = Err E_ASSERT <->
   exists pv1 x1 pv2 x2 cv, In (pv1, x1) (combine pnames key) /\ In (pv2, x2) (combine pnames key) /\
     dict_get d pv1 = Some cv /\ dict_get d pv2 = Some cv /\ x1 <> x2).
Proof. exact complement_merged_asserts. Qed.

(* ... and DisjointUnion.param_map in general: AssertionError iff one target position is visited
   with two different values; otherwise it returns *)
Theorem C09_union_param_map_asserts_iff : forall pm num param,
  (forall p v, In (p, v) (visits pm param) -> (p < num)%nat) ->
  (du_param_map pm num param = Err E_ASSERT <->
   exists p v1 v2, In (p, v1) (visits pm param) /\ In (p, v2) (visits pm param) /\ v1 <> v2) /\
  (du_param_map pm num param <> Err E_ASSERT -> exists r, du_param_map pm num param = Ok r).
Proof. exact du_param_map_asserts_iff. Qed.

(* ---------------------------------------------------------------- applied examples *)
(* one factor carrying statistic 5; the parent's statistic 0 is mapped onto it *)
Definition of_k : kid := mkKid [5] [(0, 5)] 1 false false.
Definition of_ktab : list terms := [[]; [([2], 1); ([0], 3)]; [([1], 2)]].
Definition of_ptabs : list terms := [[]; [([2], 1); ([0], 3)]; [([1], 2)]].

Lemma of_wf : kid_wf [0] of_k. Proof. wf_explicit. Qed.
Lemma of_genuine : forall m, 0 <= m <= 2 ->
  product_genuine [kid_sem [0] of_k] [tab_at of_ktab] (tab_at of_ptabs m) m.
Proof.
  intros m Hm. apply (proj2 (C09_one_factor_product_is_union _ _ _ _ (proj1 Hm))).
  unfold union_genuine, union_table. simpl map2. simpl concat. rewrite app_nil_r.
  assert (m = 0 \/ m = 1 \/ m = 2) as [->|[->| ->]] by lia; teq_compute.
Qed.

Example C09_equivalence_one_factor_product_nonvacuous :
  exists r, equiv_product_step [0] [of_k] [of_ktab] (fun _ => []) 1 = Ok r /\ teq r (tab_at of_ptabs 1).
Proof.
  apply (C09_equivalence_one_factor_product [0] of_k of_ktab (tab_at of_ptabs 1) (fun _ => []) 1).
  - lia.
  - reflexivity.
  - exact of_wf.
  - klen_explicit.
  - apply of_genuine. lia.
Qed.
Example C09_equivalence_one_factor_product_value :
  equiv_product_step [0] [of_k] [of_ktab] (fun _ => []) 1 = Ok [([2], 1); ([0], 3)].
Proof. vm_compute. reflexivity. Qed.
Example C09_equivalence_product_two_factors_value :
  equiv_product_step [0] [of_k; of_k] [of_ktab; of_ktab] (fun _ => []) 1 = Err E_NOTIMPL.
Proof. apply (C09_equivalence_product_two_factors_not_implemented [0] of_k of_k [] _ _ 1 0%nat). reflexivity. Qed.

Example C09_quotient_no_sibling_nonvacuous :
  exists tl : list terms, levels (quotient_step [0] [of_k] 0 of_ptabs [of_ktab]) 2 = (tl, None) /\
    length tl = 3%nat /\ forall m, (m < length tl)%nat -> teq (nth m tl []) (tab_at of_ktab (Z.of_nat m)).
Proof.
  apply (C09_quotient_no_sibling [0] of_k of_ptabs of_ktab 2).
  - simpl. lia.
  - exact of_wf.
  - intros a b H. simpl in H. destruct H as [H|[]]. inversion H. simpl. tauto.
  - intros cv H. simpl in H. destruct H as [<-|[]]. simpl. tauto.
  - apply tab_at_forall; [intros ? ? []|]. each_kid klen_explicit.
  - apply tab_at_forall; [intros ? ? []|]. each_kid by_entries.
  - intros m. apply (tab_at_forall (fun t => forall key v, In (key, v) t -> Forall (fun y => 0 <= y) key));
      [intros ? ? []|]. each_kid klen_explicit.
  - intros m Hm. simpl in Hm. unfold tab_at. destruct (m <? 0) eqn:E; [intros ? ? []|].
    assert (m = 0) as -> by lia. intros ? ? [].
  - exact of_genuine.
  - lia.
Qed.
(* the pre-fix model (and code) raised ZeroDivisionError here *)
Example C09_quotient_no_sibling_value :
  levels (quotient_step [0] [of_k] 0 of_ptabs [of_ktab]) 2 = ([[]; [([2], 1); ([0], 3)]; [([1], 2)]], None).
Proof. vm_compute. reflexivity. Qed.

Example C09_path_single_product_step_nonvacuous :
  exists r, path_step_k [(2, [0], [of_k], 0%nat)] of_ktab (fun _ => []) 1 = Ok r /\ teq r (tab_at of_ptabs 1).
Proof.
  apply (C09_path_single_product_step [0] of_k of_ktab (tab_at of_ptabs 1) (fun _ => []) 1).
  - lia.
  - reflexivity.
  - exact of_wf.
  - klen_explicit.
  - klen_explicit.
  - apply of_genuine. lia.
Qed.
(* a union step, then a raw one-factor product step, then the raw REVERSE of a one-factor product *)
Example C09_path_step_one_factor_product_value :
  path_step_k [(0, [9], [mkKid [0] [(9, 0)] 1 false false], 0%nat); (2, [0], [of_k], 0%nat);
               (3, [8], [mkKid [5] [(8, 5)] 1 false false], 0%nat)]
              [[]; [([2], 1); ([0], 3)]] (fun _ => []) 1 = Ok [([2], 1); ([0], 3)].
Proof. vm_compute. reflexivity. Qed.
Example C09_path_product_step_two_kids_value :
  path_step_k [(2, [0], [of_k; of_k], 0%nat)] of_ktab (fun _ => []) 1 = Err E_ASSERT.
Proof. vm_compute. reflexivity. Qed.
Example C09_path_product_step_lowering_nonvacuous :
  kstep_lower (3, [8], [of_k], 0%nat) = Ok (true, [8], [of_k], 0%nat).
Proof. apply (C09_path_product_step_lowering 3 [8] of_k 0%nat). lia. Qed.
Example C09_path_one_factor_product_link_nonvacuous :
  teq (tab_at of_ptabs 1) (rekey (dict_sem [0] (k_names of_k) (k_dict of_k)) (tab_at of_ktab 1)).
Proof. apply (C09_path_one_factor_product_link [0] of_k (tab_at of_ktab) (tab_at of_ptabs 1) 1); [lia|apply of_genuine; lia]. Qed.
Example C09_path_step_one_factor_product_nonvacuous :
  exists r, path_step_k [(2, [0], [of_k], 0%nat)] of_ktab (fun _ => []) 1 = Ok r /\ teq r (tab_at of_ptabs 1).
Proof.
  pose proof of_wf as (Hpn & Hcn & Hkd & Hsub).
  apply (C09_path_step_one_factor_product (2, [0], [of_k], 0%nat) [] (false, [0], [of_k], 0%nat) []
           [([5], [(0, 5)], tab_at of_ktab 1)] (tab_at of_ptabs 1) of_ktab (fun _ => []) 1).
  - reflexivity.
  - exact Hpn.
  - klen_explicit.
  - constructor; [exact Hpn|exact Hsub| |constructor]. exact C09_path_one_factor_product_link_nonvacuous.
  - reflexivity.
  - reflexivity.
  - reflexivity.
  - exact of_wf.
  - klen_explicit.
Qed.

(* the witness of the open finding, in the model: count 1 at statistic 0 (canonical form of the
   accumulator), while the flipped child has its object at statistic 2 *)
Example C09_complement_untracked_value :
  complement_step [] w_kids 0 w_ptabs w_ktabs (fun _ => []) 1 = Ok [([0], -1); ([0], 2)] /\
  tab_at (nth 0 w_ktabs []) 1 = [([2], 1)].
Proof. split; vm_compute; reflexivity. Qed.
Example C09_complement_untracked_characterised_nonvacuous :
  round_trip [] (nth 0 w_kids default_kid) [2] = [0].
Proof. vm_compute. reflexivity. Qed.
Example C09_complement_round_trip_coordinate_nonvacuous :
  nth 0 (round_trip [] (nth 0 w_kids default_kid) [2]) 0 = 0.
Proof.
  rewrite (C09_complement_round_trip_coordinate [] (nth 0 w_kids default_kid) [2] 0%nat).
  - reflexivity.
  - unfold kid_wf, wf_dict. simpl. repeat split; repeat constructor; simpl; try tauto.
  - constructor.
  - reflexivity.
  - simpl. lia.
Qed.
(* binary words, k0 = #a, k1 = #b, both mapped onto statistic 7 of the flipped child: the parent
   term (1, 0) asserts, the term (1, 1) does not *)
Example C09_complement_merged_asserts_nonvacuous :
  du_param_map (parent_pm [0; 1] [7] [(0, 7); (1, 7)]) 1 [1; 0] = Err E_ASSERT.
Proof.
  apply (proj2 (C09_complement_merged_asserts [0; 1] [7] [(0, 7); (1, 7)] [1; 0]
                 ltac:(repeat constructor; simpl; tauto)
                 ltac:(intros a b [H|[H|[]]]; inversion H; simpl; tauto) eq_refl)).
  exists 0, 1, 1, 0, 7. simpl. repeat split; try tauto; lia.
Qed.
Example C09_complement_merged_consistent_value :
  du_param_map (parent_pm [0; 1] [7] [(0, 7); (1, 7)]) 1 [1; 1] = Ok [1].
Proof. vm_compute. reflexivity. Qed.
Example C09_union_param_map_asserts_iff_nonvacuous :
  du_param_map [[0%nat]; [0%nat]] 1 [1; 0] = Err E_ASSERT.
Proof.
  assert (Hr : forall p v, In (p, v) (visits [[0%nat]; [0%nat]] [1; 0]) -> (p < 1)%nat).
  { intros p v H. simpl in H. destruct H as [H|[H|[]]]; inversion H; lia. }
  apply (proj2 (proj1 (C09_union_param_map_asserts_iff [[0%nat]; [0%nat]] 1 [1; 0] Hr))).
  exists 0%nat, 1, 0. simpl. repeat split; try tauto; lia.
Qed.

Print Assumptions C09_one_factor_product_is_union.
Print Assumptions C09_equivalence_one_factor_product.
Print Assumptions C09_equivalence_one_factor_product_is_union_form.
Print Assumptions C09_equivalence_product_two_factors_not_implemented.
Print Assumptions C09_quotient_no_sibling.
Print Assumptions C09_path_step_one_factor_product.
Print Assumptions C09_path_product_step_lowering.
Print Assumptions C09_path_one_factor_product_link.
Print Assumptions C09_path_single_product_step.
Print Assumptions C09_complement_untracked_characterised.
Print Assumptions C09_complement_round_trip_coordinate.
Print Assumptions C09_complement_untracked_refuted.
Print Assumptions C09_complement_merged_asserts.
Print Assumptions C09_union_param_map_asserts_iff.
