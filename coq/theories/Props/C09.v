(* C09 — every rule form counts its parent correctly from its children, with parameters.

   Only statements; the proofs are applications of lemmas of Count/Constructors*.v.
   The MODEL (Count/Constructors.v) transcribes DisjointUnion / Complement /
   CartesianProduct / Quotient .get_terms, the three param_map variants, the
   position maps built from the extra_parameters dictionaries, Rule._ensure_level
   and the constructors rebuilt by EquivalenceRule / EquivalencePathRule, over the
   GENERATED utils.compositions and Quotient.__init__ arithmetic (Gen/*.v).

   Vocabulary (Count/Terms.v): a term table is a list of (parameter tuple, value)
   entries meaning the Counter  p |-> tget t p ; teq a b says two tables mean the
   same; rekey f t re-keys a table through a parameter map.
   "True tables" are arbitrary tables here: every theorem holds for ALL tables that
   satisfy the stated genuineness identity, i.e. for all classes and all strategies
   whose rule is genuine.
     union_genuine fs tabs Tp      Tp = sum over the children of the re-keyed child tables
     product_genuine fs tabs Tp n  Tp = the FULL convolution over all compositions of n into
                                   non-negative parts, parameters added through fs
   Exceptions of the code are results `Err code` of the model; every theorem
   concludes `= Ok r`, i.e. no assertion fires.                                       *)
From Coq Require Import ZArith List Bool Lia.
From CSS Require Import Gen.Prelude Gen.Compositions Gen.QuotientParentShift
  Count.CompositionsSpec Count.Terms Count.Constructors Count.ConstructorsUnionProduct
  Count.ConstructorsComplement Count.ConstructorsQuotient Count.ConstructorsDerived Count.ConstructorsDict.
Import ListNotations.
Open Scope Z_scope.

(* ------------------------------------------------------------ parameter maps *)
(* DisjointUnion.param_map (first value wins + assert) never asserts and returns what
   Constructor.param_map (summing) returns, as long as no target position is hit twice.
   (Two parent statistics mapped onto one child statistic hit a position twice in
   Complement._build_parent_param_map: there the two variants differ — the 4.2.1 bug.) *)
Theorem C09_param_maps_agree : forall pm num param,
  length param = length pm -> NoDup (concat pm) ->
  du_param_map pm num param = Ok (sum_param_map pm num param).
Proof. exact du_param_map_sum'. Qed.

(* ------------------------------------------------------------ union *)
Theorem C09_union : forall pms fs tabs Tp,
  MapsOk pms fs tabs ->               (* the children's maps succeed on the keys present *)
  union_genuine fs tabs Tp ->
  exists r, union_get_terms pms tabs = Ok r /\ teq r Tp.
Proof. exact union_correct. Qed.

(* ------------------------------------------------------------ product *)
(* pruning the compositions by min_sizes / max_sizes loses nothing, provided child i has
   no object below mins_i nor (atoms) above maxs_i — the minimum_size_of_object / is_atom
   contract, stated as Vanish *)
Theorem C09_product : forall fs mins maxs tabs Tp n,
  1 <= zlen tabs -> Forall (fun m => 0 <= m) mins -> Vanish tabs mins maxs ->
  product_genuine fs tabs Tp n ->
  teq (product_get_terms fs mins maxs tabs n) Tp.
Proof. exact product_correct. Qed.

(* ------------------------------------------------------------ complement *)
(* the original union rule has children  tpre ++ Ti :: tpost  with maps  fpre ++ fi :: fpost;
   the reverse rule w.r.t. Ti receives the parent's table and the siblings' tables.
   g is the parent map (parent coordinates -> Ti's coordinates); the round-trip
   hypothesis is the case the code supports: every statistic of the flipped child is
   the image of a parent statistic, mapped injectively.  Siblings may drop or merge
   statistics freely (their maps are arbitrary). *)
Theorem C09_complement : forall ppm g pms fpre fi fpost (TP Ti : terms) tpre tpost,
  length fpre = length tpre ->
  union_genuine (fpre ++ fi :: fpost) (tpre ++ Ti :: tpost) TP ->
  nonneg Ti -> Forall nonneg (tpre ++ tpost) ->
  maps_ok ppm g (filter (fun e : entry => negb (snd e =? 0)) TP) ->
  CMapsOk ppm pms (map (fun f k => g (f k)) (fpre ++ fpost)) (tpre ++ tpost) ->
  (forall k v, In (k, v) Ti -> g (fi k) = k) ->
  exists r, complement_get_terms ppm pms TP (tpre ++ tpost) = Ok r /\ teq r Ti.
Proof.
  intros ppm g pms fpre fi fpost TP Ti tpre tpost Hlen Hgen HnT Hns Hppm Hsib Hround.
  eapply complement_correct; eauto.
  eapply teq_trans; [exact Hgen|]. apply union_table_split. exact Hlen.
Qed.

(* ------------------------------------------------------------ quotient, parameter-free *)
(* cs = (minimum size, is_atom) of the original product's children, tabs their true
   tables, TP the parent's; no class has an extra parameter (all keys are ()).
   Running Rule._ensure_level for sizes 0..N with the Quotient constructor of child idx
   raises nothing and level m holds exactly the number of objects of size m of child idx.
   Hypotheses: >= 2 children, the contract Vanish, counts are non-negative, the product
   rule is genuine at every size, and the siblings have objects of their minimum sizes
   (product of those numbers <> 0: otherwise the code divides by zero). *)
Theorem C09_quotient_parameter_free : forall fs ppm cs idx TP tabs N,
  (idx < length cs)%nat -> (2 <= length cs)%nat -> length tabs = length cs ->
  Forall const_nil fs -> ppm [] = Ok [] ->
  Forall (fun m => 0 <= m) (quotient_min_sizes cs) ->
  Vanish tabs (quotient_min_sizes cs) (quotient_max_sizes cs) ->
  Forall (fun tab : Z -> terms => forall m, nonneg (tab m)) tabs ->
  (forall m, nokeys (TP m)) ->
  (forall m, product_genuine fs tabs (TP m) m) ->
  hprod (remove_at idx tabs) (remove_at idx (quotient_min_sizes cs)) <> 0 ->
  0 <= N ->
  exists tl : list terms,
    levels (qstep fs ppm cs idx TP tabs) N = (tl, None) /\ length tl = Z.to_nat (N + 1) /\
    forall m, (m < length tl)%nat ->
      nokeys (nth m tl []) /\
      tsum (nth m tl []) = tsum (nth idx tabs (fun _ => []) (Z.of_nat m)).
Proof.
  intros. eapply quotient_nopar_correct; eauto.
Qed.

(* NOT proved: Quotient with parameters (`C09_quotient_params`).  The model divides the
   polynomials exactly (poly_div); what is missing is (1) the identity a_n = b_n * c for
   tables with keys (the parameter-carrying version of quotient_level) and (2) that
   sympy.div computes the exact quotient — the latter is trusted in any case. *)

(* ------------------------------------------------------------ equivalence rules *)
(* EquivalenceRule of a union rule: DisjointUnion(parent, (child,), (extra_parameters[ci],))
   with ci the first non-empty child.  If all other children have no objects the rebuilt
   one-child rule is genuine; and when exactly child idx is flagged non-empty the code
   selects idx. *)
Theorem C09_equivalence : forall ci fs tabs Tp,
  (ci < length tabs)%nat -> length fs = length tabs ->
  (forall j, j <> ci -> (j < length tabs)%nat -> allzero (nth j tabs [])) ->
  union_genuine fs tabs Tp ->
  union_genuine [nth ci fs (fun k => k)] [nth ci tabs []] Tp.
Proof. exact equiv_union_genuine. Qed.

Theorem C09_equivalence_child_index : forall kids idx,
  (idx < length kids)%nat -> k_empty (nth idx kids default_kid) = false ->
  (forall j, j <> idx -> (j < length kids)%nat -> k_empty (nth j kids default_kid) = true) ->
  first_nonempty kids = Some idx.
Proof. exact first_nonempty_only. Qed.

(* the reverse of an equivalence rule: Complement(original parent, (child,), 0, (dict,)) *)
Theorem C09_equivalence_reverse : forall ppm g fi (TP Ti : terms),
  union_genuine [fi] [Ti] TP -> nonneg Ti ->
  maps_ok ppm g (filter (fun e : entry => negb (snd e =? 0)) TP) ->
  (forall k v, In (k, v) Ti -> g (fi k) = k) ->
  exists r, complement_get_terms ppm [] TP [] = Ok r /\ teq r Ti.
Proof. exact equiv_complement_correct. Qed.

(* ------------------------------------------------------------ dictionaries *)
(* What the maps BUILT BY THE CODE from an extra_parameters dictionary compute.
   dict_sem pnames cnames d k is the parent tuple whose statistic pv is k[position of d[pv]]
   (0 when pv is not a key): statistics may be dropped (no key), several parent statistics
   may map onto one child statistic (merge), child statistics may be untracked.
   For a well-formed dictionary (distinct names, distinct keys among the parent's names)
   and every tuple of the child: _build_children_param_map(s) raises nothing,
   DisjointUnion.param_map never asserts, and both it and Constructor.param_map return
   dict_sem. *)
Theorem C09_dictionary_maps : forall pnames cnames d k,
  wf_dict pnames cnames d -> length k = length cnames ->
  exists pm, child_pos_map pnames cnames d = Ok pm /\
             du_param_map pm (length pnames) k = Ok (dict_sem pnames cnames d k) /\
             sum_param_map pm (length pnames) k = dict_sem pnames cnames d k.
Proof. exact built_du_map_sem. Qed.

(* the two abstract hypotheses of C09_complement, discharged at dictionary level for the
   case the code supports — the flipped child's dictionary d is injective and its values are
   parameters of that child (then maps_ok holds with g = dict_sem cn pn (inv_dict d) on every
   parent tuple), and every parameter of the child is a value of d (then the round trip
   child -> parent -> child is the identity).  With two parent statistics merged onto one
   statistic of the flipped child, NoDup (map snd d) fails: that is where the code asserts. *)
Theorem C09_complement_parent_map : forall pn cn d k,
  NoDup pn -> NoDup cn -> NoDup (map fst d) -> NoDup (map snd d) ->
  (forall a b, In (a, b) d -> In b cn) ->
  length k = length pn ->
  exists pm, parent_pos_map pn cn d = Ok pm /\
             du_param_map pm (length cn) k = Ok (dict_sem cn pn (inv_dict d) k).
Proof. exact complement_parent_map_sem. Qed.

Theorem C09_complement_round_trip : forall pn cn d k,
  NoDup pn -> NoDup cn -> NoDup (map fst d) -> NoDup (map snd d) ->
  (forall a b, In (a, b) d -> In a pn) ->
  (forall cv, In cv cn -> In cv (map snd d)) ->
  length k = length cn ->
  dict_sem cn pn (inv_dict d) (dict_sem pn cn d k) = k.
Proof. exact dict_round_trip. Qed.

(* ------------------------------------------------------------ equivalence paths *)
(* EquivalencePathRule.constructor: DisjointUnion(first class, (last class,), (D,)) with D the
   dictionaries of the chain composed (dict_compose), starting from the identity.
   A chain (chain_ok) is a list of links  class(n,T) --d--> class(n',T')  each genuine through
   its dictionary: T = T' re-keyed by dict_sem n n' d.  Then get_terms of the rebuilt union, fed
   with the last class's true table, returns the first class's true table. *)
Theorem C09_path : forall first T0 steps,
  NoDup first -> (forall k v, In (k, v) T0 -> length k = length first) ->
  chain_ok first T0 steps ->
  let D := fold_left dict_compose (map (fun s => snd (fst s)) steps) (id_dict first) in
  let lastn := fst (chain_end first T0 steps) in
  let Tlast := snd (chain_end first T0 steps) in
  wf_dict first lastn D -> (forall k v, In (k, v) Tlast -> length k = length lastn) ->
  exists pm r, child_pos_map first lastn D = Ok pm /\
               union_get_terms [du_param_map pm (length first)] [Tlast] = Ok r /\ teq r T0.
Proof. exact path_union_correct. Qed.

(* a forward step (EquivalenceRule of a union rule) is such a link by C09_equivalence +
   C09_dictionary_maps; a reverse step (EquivalenceRule of a ReverseRule) contributes the
   INVERTED dictionary, and is a link when the dictionary is injective (the code raises
   NotImplementedError otherwise) and every statistic of the child is tracked by the parent *)
Theorem C09_path_reverse_link : forall pn cn d (TP TC : terms),
  NoDup pn -> NoDup cn -> NoDup (map fst d) -> NoDup (map snd d) ->
  (forall a b, In (a, b) d -> In a pn) ->
  (forall cv, In cv cn -> In cv (map snd d)) ->
  (forall k v, In (k, v) TC -> length k = length cn) ->
  union_genuine [dict_sem pn cn d] [TC] TP ->
  teq TC (rekey (dict_sem cn pn (inv_dict d)) TP).
Proof. exact reverse_link. Qed.

(* the model's path_dict_step folds exactly this composition *)
Theorem C09_path_dictionary : forall steps ds D,
  map step_dict steps = map Some ds ->
  fold_left path_dict_step steps (Ok D) = Ok (fold_left dict_compose ds D).
Proof. intros. apply path_dict_fold. assumption. Qed.

(* ------------------------------------------------------------ non-vacuity *)
(* a union rule whose parent tracks (p0, p1); child 0 renames both (in swapped order),
   child 1 keeps p0 and drops p1 *)
Example C09_ex_union :
  let pnames := [0; 1] in
  let kids := [mkKid [10; 11] [(1, 10); (0, 11)] 0 false false; mkKid [20] [(0, 20)] 0 false false] in
  let ktabs := [[[([5; 7], 2)]]; [[([3], 4); ([7], 1)]]] in
  match union_step pnames kids ktabs (fun _ => []) 0 with
  | Ok r => tnorm r = [([3; 0], 4); ([7; 0], 1); ([7; 5], 2)] | Err _ => False
  end.
Proof. vm_compute. reflexivity. Qed.

(* the position maps of that rule satisfy the hypothesis of C09_param_maps_agree *)
Example C09_ex_maps :
  child_pos_map [0; 1] [10; 11] [(1, 10); (0, 11)] = Ok [[1%nat]; [0%nat]] /\
  NoDup (concat [[1%nat]; [0%nat]]) /\
  du_param_map [[1%nat]; [0%nat]] 2 [5; 7] = Ok [7; 5].
Proof.
  split; [reflexivity|]. split; [|reflexivity].
  simpl. constructor; [simpl; intros [H|[]]; discriminate|]. constructor; [intros []|constructor].
Qed.

(* two parent statistics mapped onto one child statistic: the parent map of Complement
   hits a position twice; first-wins (the code) and summing (the 4.2.1 bug) differ *)
Example C09_ex_merge :
  parent_pos_map [0; 1] [10] [(0, 10); (1, 10)] = Ok [[0%nat]; [0%nat]] /\
  du_param_map [[0%nat]; [0%nat]] 1 [3; 3] = Ok [3] /\
  sum_param_map [[0%nat]; [0%nat]] 1 [3; 3] = [6] /\
  du_param_map [[0%nat]; [0%nat]] 1 [3; 4] = Err E_ASSERT.
Proof. repeat split. Qed.

(* product A x B, A an atom of size 1 with statistic value 1, B with 2^m objects of size m *)
Example C09_ex_product :
  let kids := [mkKid [10] [(0, 10)] 1 true false; mkKid [20] [(0, 20)] 0 false false] in
  let ktabs := [[[]; [([1], 1)]; []; []]; [[([0], 1)]; [([0], 1); ([1], 1)]; [([0], 1); ([1], 2); ([2], 1)]; []]] in
  match product_step [0] kids ktabs (fun _ => []) 3 with
  | Ok r => tnorm r = [([1], 1); ([2], 2); ([3], 1)] | Err _ => False
  end.
Proof. vm_compute. reflexivity. Qed.

(* its reverse w.r.t. B (a Quotient with one parameter, exact polynomial division), levels 0..2 *)
Example C09_ex_quotient :
  let kids := [mkKid [10] [(0, 10)] 1 true false; mkKid [20] [(0, 20)] 0 false false] in
  let ptabs := [[]; [([1], 1)]; [([1], 1); ([2], 1)]; [([1], 1); ([2], 2); ([3], 1)]] in
  let ktabs := [[[]; [([1], 1)]; []; []]; []] in
  let r := levels (quotient_step [0] kids 1 ptabs ktabs) 2 in
  map tnorm (fst r) = [[([0], 1)]; [([0], 1); ([1], 1)]; [([0], 1); ([1], 2); ([2], 1)]] /\ snd r = None.
Proof. vm_compute. split; reflexivity. Qed.

(* the complement of the union example w.r.t. child 0 *)
Example C09_ex_complement :
  let pnames := [0; 1] in
  let kids := [mkKid [10; 11] [(1, 10); (0, 11)] 0 false false; mkKid [20] [(0, 20)] 0 false false] in
  let ptabs := [[([3; 0], 4); ([7; 0], 1); ([7; 5], 2)]] in
  let ktabs := [[[]]; [[([3], 4); ([7], 1)]]] in
  match complement_step pnames kids 0 ptabs ktabs (fun _ => []) 0 with
  | Ok r => tnorm r = [([5; 7], 2)] | Err _ => False
  end.
Proof. vm_compute. reflexivity. Qed.


(* a path: X0 (names 0,1) --{0:10,1:11}--> X1 (names 10,11) <--reverse of {20:11,21:10}-- ...
   i.e. second step reverses a union rule with parent names (20,21) and child X1 *)
Example C09_ex_path :
  let s1 : step_desc := (false, [0; 1], [mkKid [10; 11] [(0, 10); (1, 11)] 0 false false], 0%nat) in
  let s2 : step_desc := (true, [20; 21], [mkKid [10; 11] [(20, 11); (21, 10)] 0 false false], 0%nat) in
  fold_left path_dict_step [s1; s2] (Ok (id_dict [0; 1])) = Ok [(0, 21); (1, 20)] /\
  match path_step [s1; s2] [[([5; 7], 3)]] (fun _ => []) 0 with
  | Ok r => tnorm r = [([7; 5], 3)] | Err _ => False
  end.
Proof. vm_compute. split; reflexivity. Qed.

Print Assumptions C09_param_maps_agree.
Print Assumptions C09_union.
Print Assumptions C09_product.
Print Assumptions C09_complement.
Print Assumptions C09_quotient_parameter_free.
Print Assumptions C09_equivalence.
Print Assumptions C09_equivalence_child_index.
Print Assumptions C09_equivalence_reverse.
Print Assumptions C09_dictionary_maps.
Print Assumptions C09_complement_parent_map.
Print Assumptions C09_complement_round_trip.
Print Assumptions C09_path.
Print Assumptions C09_path_reverse_link.
Print Assumptions C09_path_dictionary.
