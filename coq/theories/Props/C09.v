(* C09 — every rule form counts its parent correctly from its children, with parameters.

   Only statements; the proofs are applications of lemmas of Count/Constructors*.v.
   The MODEL (Count/Constructors.v) transcribes DisjointUnion / Complement /
   CartesianProduct / Quotient .get_terms, the three param_map variants, the
   position maps built from the extra_parameters dictionaries, Rule._ensure_level
   and the constructors rebuilt by EquivalenceRule / EquivalencePathRule, over the
   GENERATED utils.compositions and Quotient.__init__ arithmetic (Gen/*.v).

   Vocabulary (Count/Terms.v): a term table is a list of (parameter tuple, value)
   entries meaning the Counter  p |-> tget t p ; teq a b says two tables mean the
   same; rekey f t re-keys a table through a parameter map.
   "True tables" are arbitrary tables here: every theorem holds for ALL tables that
   satisfy the stated genuineness identity, i.e. for all classes and all strategies
   whose rule is genuine.
     union_genuine fs tabs Tp      Tp = sum over the children of the re-keyed child tables
     product_genuine fs tabs Tp n  Tp = the FULL convolution over all compositions of n into
                                   non-negative parts, parameters added through fs
   Exceptions of the code are results `Err code` of the model; every theorem
   concludes `= Ok r`, i.e. no assertion fires.                                       *)
From Coq Require Import ZArith List Bool Lia.
From CSS Require Import Gen.Prelude Gen.Compositions Gen.QuotientParentShift
  Count.CompositionsSpec Count.Terms Count.Constructors Count.ConstructorsUnionProduct
  Count.ConstructorsComplement Count.ConstructorsQuotient Count.ConstructorsDerived Count.ConstructorsDict.
From CSS Require Import Gen.ConstructorParamMap Gen.UnionParamMap Gen.QuotientParamMap Count.GenBridgeParamMap.
From CSS Require Import Gen.PathDictInitial Gen.PathDictCompose Gen.PathDictInvert Gen.PathDictDuplicates Count.GenBridgePathDict.
Import ListNotations.
Open Scope Z_scope.

(* ------------------------------------------------------------ parameter maps *)
(* DisjointUnion.param_map (first value wins + assert) never asserts and returns what
   Constructor.param_map (summing) returns, as long as no target position is hit twice.
   (Two parent statistics mapped onto one child statistic hit a position twice in
   Complement._build_parent_param_map: there the two variants differ — the 4.2.1 bug.) *)
Theorem C09_param_maps_agree : forall pm num param,
  length param = length pm -> NoDup (concat pm) ->
  du_param_map pm num param = Ok (sum_param_map pm num param).
Proof. exact du_param_map_sum'. Qed.

(* ------------------------------------------------------------ union *)
Theorem C09_union : forall pms fs tabs Tp,
  MapsOk pms fs tabs ->               (* the children's maps succeed on the keys present *)
  union_genuine fs tabs Tp ->
  exists r, union_get_terms pms tabs = Ok r /\ teq r Tp.
Proof. exact union_correct. Qed.

(* ------------------------------------------------------------ product *)
(* pruning the compositions by min_sizes / max_sizes loses nothing, provided child i has
   no object below mins_i nor (atoms) above maxs_i — the minimum_size_of_object / is_atom
   contract, stated as Vanish *)
Theorem C09_product : forall fs mins maxs tabs Tp n,
  1 <= zlen tabs -> Forall (fun m => 0 <= m) mins -> Vanish tabs mins maxs ->
  product_genuine fs tabs Tp n ->
  teq (product_get_terms fs mins maxs tabs n) Tp.
Proof. exact product_correct. Qed.

(* ------------------------------------------------------------ complement *)
(* the original union rule has children  tpre ++ Ti :: tpost  with maps  fpre ++ fi :: fpost;
   the reverse rule w.r.t. Ti receives the parent's table and the siblings' tables.
   g is the parent map (parent coordinates -> Ti's coordinates); the round-trip
   hypothesis is the case the code supports: every statistic of the flipped child is
   the image of a parent statistic, mapped injectively.  Siblings may drop or merge
   statistics freely (their maps are arbitrary). *)
Theorem C09_complement : forall ppm g pms fpre fi fpost (TP Ti : terms) tpre tpost,
  length fpre = length tpre ->
  union_genuine (fpre ++ fi :: fpost) (tpre ++ Ti :: tpost) TP ->
  nonneg Ti -> Forall nonneg (tpre ++ tpost) ->
  maps_ok ppm g (filter (fun e : entry => negb (snd e =? 0)) TP) ->
  CMapsOk ppm pms (map (fun f k => g (f k)) (fpre ++ fpost)) (tpre ++ tpost) ->
  (forall k v, In (k, v) Ti -> g (fi k) = k) ->
  exists r, complement_get_terms ppm pms TP (tpre ++ tpost) = Ok r /\ teq r Ti.
Proof.
  intros ppm g pms fpre fi fpost TP Ti tpre tpost Hlen Hgen HnT Hns Hppm Hsib Hround.
  eapply complement_correct; eauto.
  eapply teq_trans; [exact Hgen|]. apply union_table_split. exact Hlen.
Qed.

(* ------------------------------------------------------------ quotient, parameter-free *)
(* cs = (minimum size, is_atom) of the original product's children, tabs their true
   tables, TP the parent's; no class has an extra parameter (all keys are ()).
   Running Rule._ensure_level for sizes 0..N with the Quotient constructor of child idx
   raises nothing and level m holds exactly the number of objects of size m of child idx.
   Hypotheses: >= 2 children, the contract Vanish, counts are non-negative, the product
   rule is genuine at every size, and the siblings have objects of their minimum sizes
   (product of those numbers <> 0: otherwise the code divides by zero). *)
Theorem C09_quotient_parameter_free : forall fs ppm cs idx TP tabs N,
  (idx < length cs)%nat -> (2 <= length cs)%nat -> length tabs = length cs ->
  Forall const_nil fs -> ppm [] = Ok [] ->
  Forall (fun m => 0 <= m) (quotient_min_sizes cs) ->
  Vanish tabs (quotient_min_sizes cs) (quotient_max_sizes cs) ->
  Forall (fun tab : Z -> terms => forall m, nonneg (tab m)) tabs ->
  (forall m, nokeys (TP m)) ->
  (forall m, product_genuine fs tabs (TP m) m) ->
  hprod (remove_at idx tabs) (remove_at idx (quotient_min_sizes cs)) <> 0 ->
  0 <= N ->
  exists tl : list terms,
    levels (qstep fs ppm cs idx TP tabs) N = (tl, None) /\ length tl = Z.to_nat (N + 1) /\
    forall m, (m < length tl)%nat ->
      nokeys (nth m tl []) /\
      tsum (nth m tl []) = tsum (nth idx tabs (fun _ => []) (Z.of_nat m)).
Proof.
  intros. eapply quotient_nopar_correct; eauto.
Qed.

(* NOT proved: Quotient with parameters (`C09_quotient_params`).  The model divides the
   polynomials exactly (poly_div); what is missing is (1) the identity a_n = b_n * c for
   tables with keys (the parameter-carrying version of quotient_level) and (2) that
   sympy.div computes the exact quotient — the latter is trusted in any case. *)

(* ------------------------------------------------------------ equivalence rules *)
(* EquivalenceRule of a union rule: DisjointUnion(parent, (child,), (extra_parameters[ci],))
   with ci the first non-empty child.  If all other children have no objects the rebuilt
   one-child rule is genuine; and when exactly child idx is flagged non-empty the code
   selects idx. *)
Theorem C09_equivalence : forall ci fs tabs Tp,
  (ci < length tabs)%nat -> length fs = length tabs ->
  (forall j, j <> ci -> (j < length tabs)%nat -> allzero (nth j tabs [])) ->
  union_genuine fs tabs Tp ->
  union_genuine [nth ci fs (fun k => k)] [nth ci tabs []] Tp.
Proof. exact equiv_union_genuine. Qed.

Theorem C09_equivalence_child_index : forall kids idx,
  (idx < length kids)%nat -> k_empty (nth idx kids default_kid) = false ->
  (forall j, j <> idx -> (j < length kids)%nat -> k_empty (nth j kids default_kid) = true) ->
  first_nonempty kids = Some idx.
Proof. exact first_nonempty_only. Qed.

(* the reverse of an equivalence rule: Complement(original parent, (child,), 0, (dict,)) *)
Theorem C09_equivalence_reverse : forall ppm g fi (TP Ti : terms),
  union_genuine [fi] [Ti] TP -> nonneg Ti ->
  maps_ok ppm g (filter (fun e : entry => negb (snd e =? 0)) TP) ->
  (forall k v, In (k, v) Ti -> g (fi k) = k) ->
  exists r, complement_get_terms ppm [] TP [] = Ok r /\ teq r Ti.
Proof. exact equiv_complement_correct. Qed.

(* ------------------------------------------------------------ dictionaries *)
(* What the maps BUILT BY THE CODE from an extra_parameters dictionary compute.
   dict_sem pnames cnames d k is the parent tuple whose statistic pv is k[position of d[pv]]
   (0 when pv is not a key): statistics may be dropped (no key), several parent statistics
   may map onto one child statistic (merge), child statistics may be untracked.
   For a well-formed dictionary (distinct names, distinct keys among the parent's names)
   and every tuple of the child: _build_children_param_map(s) raises nothing,
   DisjointUnion.param_map never asserts, and both it and Constructor.param_map return
   dict_sem. *)
Theorem C09_dictionary_maps : forall pnames cnames d k,
  wf_dict pnames cnames d -> length k = length cnames ->
  exists pm, child_pos_map pnames cnames d = Ok pm /\
             du_param_map pm (length pnames) k = Ok (dict_sem pnames cnames d k) /\
             sum_param_map pm (length pnames) k = dict_sem pnames cnames d k.
Proof. exact built_du_map_sem. Qed.

(* the two abstract hypotheses of C09_complement, discharged at dictionary level for the
   case the code supports — the flipped child's dictionary d is injective and its values are
   parameters of that child (then maps_ok holds with g = dict_sem cn pn (inv_dict d) on every
   parent tuple), and every parameter of the child is a value of d (then the round trip
   child -> parent -> child is the identity).  With two parent statistics merged onto one
   statistic of the flipped child, NoDup (map snd d) fails: that is where the code asserts. *)
Theorem C09_complement_parent_map : forall pn cn d k,
  NoDup pn -> NoDup cn -> NoDup (map fst d) -> NoDup (map snd d) ->
  (forall a b, In (a, b) d -> In b cn) ->
  length k = length pn ->
  exists pm, parent_pos_map pn cn d = Ok pm /\
             du_param_map pm (length cn) k = Ok (dict_sem cn pn (inv_dict d) k).
Proof. exact complement_parent_map_sem. Qed.

Theorem C09_complement_round_trip : forall pn cn d k,
  NoDup pn -> NoDup cn -> NoDup (map fst d) -> NoDup (map snd d) ->
  (forall a b, In (a, b) d -> In a pn) ->
  (forall cv, In cv cn -> In cv (map snd d)) ->
  length k = length cn ->
  dict_sem cn pn (inv_dict d) (dict_sem pn cn d k) = k.
Proof. exact dict_round_trip. Qed.

(* ------------------------------------------------------------ equivalence paths *)
(* EquivalencePathRule.constructor: DisjointUnion(first class, (last class,), (D,)) with D the
   dictionaries of the chain composed (dict_compose), starting from the identity.
   A chain (chain_ok) is a list of links  class(n,T) --d--> class(n',T')  each genuine through
   its dictionary: T = T' re-keyed by dict_sem n n' d.  Then get_terms of the rebuilt union, fed
   with the last class's true table, returns the first class's true table. *)
Theorem C09_path : forall first T0 steps,
  NoDup first -> (forall k v, In (k, v) T0 -> length k = length first) ->
  chain_ok first T0 steps ->
  let D := fold_left dict_compose (map (fun s => snd (fst s)) steps) (id_dict first) in
  let lastn := fst (chain_end first T0 steps) in
  let Tlast := snd (chain_end first T0 steps) in
  wf_dict first lastn D -> (forall k v, In (k, v) Tlast -> length k = length lastn) ->
  exists pm r, child_pos_map first lastn D = Ok pm /\
               union_get_terms [du_param_map pm (length first)] [Tlast] = Ok r /\ teq r T0.
Proof. exact path_union_correct. Qed.

(* a forward step (EquivalenceRule of a union rule) is such a link by C09_equivalence +
   C09_dictionary_maps; a reverse step (EquivalenceRule of a ReverseRule) contributes the
   INVERTED dictionary, and is a link when the dictionary is injective (the code raises
   NotImplementedError otherwise) and every statistic of the child is tracked by the parent *)
Theorem C09_path_reverse_link : forall pn cn d (TP TC : terms),
  NoDup pn -> NoDup cn -> NoDup (map fst d) -> NoDup (map snd d) ->
  (forall a b, In (a, b) d -> In a pn) ->
  (forall cv, In cv cn -> In cv (map snd d)) ->
  (forall k v, In (k, v) TC -> length k = length cn) ->
  union_genuine [dict_sem pn cn d] [TC] TP ->
  teq TC (rekey (dict_sem cn pn (inv_dict d)) TP).
Proof. exact reverse_link. Qed.

(* the model's path_dict_step folds exactly this composition *)
Theorem C09_path_dictionary : forall steps ds D,
  map step_dict steps = map Some ds ->
  fold_left path_dict_step steps (Ok D) = Ok (fold_left dict_compose ds D).
Proof. intros. apply path_dict_fold. assumption. Qed.

(* ------------------------------------------------------------ non-vacuity *)
(* a union rule whose parent tracks (p0, p1); child 0 renames both (in swapped order),
   child 1 keeps p0 and drops p1 *)
Example C09_ex_union :
  let pnames := [0; 1] in
  let kids := [mkKid [10; 11] [(1, 10); (0, 11)] 0 false false; mkKid [20] [(0, 20)] 0 false false] in
  let ktabs := [[[([5; 7], 2)]]; [[([3], 4); ([7], 1)]]] in
  match union_step pnames kids ktabs (fun _ => []) 0 with
  | Ok r => tnorm r = [([3; 0], 4); ([7; 0], 1); ([7; 5], 2)] | Err _ => False
  end.
Proof. vm_compute. reflexivity. Qed.

(* the position maps of that rule satisfy the hypothesis of C09_param_maps_agree *)
Example C09_ex_maps :
  child_pos_map [0; 1] [10; 11] [(1, 10); (0, 11)] = Ok [[1%nat]; [0%nat]] /\
  NoDup (concat [[1%nat]; [0%nat]]) /\
  du_param_map [[1%nat]; [0%nat]] 2 [5; 7] = Ok [7; 5].
Proof.
  split; [reflexivity|]. split; [|reflexivity].
  simpl. constructor; [simpl; intros [H|[]]; discriminate|]. constructor; [intros []|constructor].
Qed.

(* two parent statistics mapped onto one child statistic: the parent map of Complement
   hits a position twice; first-wins (the code) and summing (the 4.2.1 bug) differ *)
Example C09_ex_merge :
  parent_pos_map [0; 1] [10] [(0, 10); (1, 10)] = Ok [[0%nat]; [0%nat]] /\
  du_param_map [[0%nat]; [0%nat]] 1 [3; 3] = Ok [3] /\
  sum_param_map [[0%nat]; [0%nat]] 1 [3; 3] = [6] /\
  du_param_map [[0%nat]; [0%nat]] 1 [3; 4] = Err E_ASSERT.
Proof. repeat split. Qed.

(* product A x B, A an atom of size 1 with statistic value 1, B with 2^m objects of size m *)
Example C09_ex_product :
  let kids := [mkKid [10] [(0, 10)] 1 true false; mkKid [20] [(0, 20)] 0 false false] in
  let ktabs := [[[]; [([1], 1)]; []; []]; [[([0], 1)]; [([0], 1); ([1], 1)]; [([0], 1); ([1], 2); ([2], 1)]; []]] in
  match product_step [0] kids ktabs (fun _ => []) 3 with
  | Ok r => tnorm r = [([1], 1); ([2], 2); ([3], 1)] | Err _ => False
  end.
Proof. vm_compute. reflexivity. Qed.

(* its reverse w.r.t. B (a Quotient with one parameter, exact polynomial division), levels 0..2 *)
Example C09_ex_quotient :
  let kids := [mkKid [10] [(0, 10)] 1 true false; mkKid [20] [(0, 20)] 0 false false] in
  let ptabs := [[]; [([1], 1)]; [([1], 1); ([2], 1)]; [([1], 1); ([2], 2); ([3], 1)]] in
  let ktabs := [[[]; [([1], 1)]; []; []]; []] in
  let r := levels (quotient_step [0] kids 1 ptabs ktabs) 2 in
  map tnorm (fst r) = [[([0], 1)]; [([0], 1); ([1], 1)]; [([0], 1); ([1], 2); ([2], 1)]] /\ snd r = None.
Proof. vm_compute. split; reflexivity. Qed.

(* the complement of the union example w.r.t. child 0 *)
Example C09_ex_complement :
  let pnames := [0; 1] in
  let kids := [mkKid [10; 11] [(1, 10); (0, 11)] 0 false false; mkKid [20] [(0, 20)] 0 false false] in
  let ptabs := [[([3; 0], 4); ([7; 0], 1); ([7; 5], 2)]] in
  let ktabs := [[[]]; [[([3], 4); ([7], 1)]]] in
  match complement_step pnames kids 0 ptabs ktabs (fun _ => []) 0 with
  | Ok r => tnorm r = [([5; 7], 2)] | Err _ => False
  end.
Proof. vm_compute. reflexivity. Qed.


(* a path: X0 (names 0,1) --{0:10,1:11}--> X1 (names 10,11) <--reverse of {20:11,21:10}-- ...
   i.e. second step reverses a union rule with parent names (20,21) and child X1 *)
Example C09_ex_path :
  let s1 : step_desc := (false, [0; 1], [mkKid [10; 11] [(0, 10); (1, 11)] 0 false false], 0%nat) in
  let s2 : step_desc := (true, [20; 21], [mkKid [10; 11] [(20, 11); (21, 10)] 0 false false], 0%nat) in
  fold_left path_dict_step [s1; s2] (Ok (id_dict [0; 1])) = Ok [(0, 21); (1, 20)] /\
  match path_step [s1; s2] [[([5; 7], 3)]] (fun _ => []) 0 with
  | Ok r => tnorm r = [([7; 5], 3)] | Err _ => False
  end.
Proof. vm_compute. split; reflexivity. Qed.

(* ------------------------------------------------------------------------
   NON-VACUITY (audit): every theorem of this file APPLIED to concrete rules with parameters (so Coq
   checks that what is discharged are the theorems' own hypotheses), each followed by the value the
   model really computes on the instance and, where cheap, a near miss on which the conclusion or a
   hypothesis fails.  "True tables" of the parents are written independently of the model (other
   entry order, entries split) so that teq is not a syntactic identity. *)

(* proves  teq a b  for explicit tables (same multiset of (key, value) up to order/merging) *)
Ltac teq_explicit :=
  let p := fresh "p" in intros p; cbn -[params_eqb Z.add];
  repeat match goal with |- context [params_eqb ?a ?b] => destruct (params_eqb a b) end; lia.
(* proves a statement  forall k v, In (k, v) t -> P k v  for an explicit table t *)
Ltac by_entries :=
  let k := fresh "k" in let v := fresh "v" in let H := fresh "H" in
  intros k v H; cbn in H;
  repeat (destruct H as [H|H]; [inversion H; subst; clear H; try reflexivity; try lia|]);
  try contradiction.

(* ---- parameter maps ---- *)
(* child statistic 0 feeds the parent positions 1 and 2 (two parent statistics mapped onto one child
   statistic), child statistic 1 feeds position 0, child statistic 2 is untracked *)
Example C09_param_maps_agree_nonvacuous :
  du_param_map [[1%nat; 2%nat]; [0%nat]; []] 3 [5; 7; 9]
  = Ok (sum_param_map [[1%nat; 2%nat]; [0%nat]; []] 3 [5; 7; 9]).
Proof.
  apply (C09_param_maps_agree [[1%nat; 2%nat]; [0%nat]; []] 3 [5; 7; 9] eq_refl).
  simpl. repeat constructor; simpl; intuition discriminate.
Qed.
Example C09_param_maps_agree_value :
  sum_param_map [[1%nat; 2%nat]; [0%nat]; []] 3 [5; 7; 9] = [7; 5; 5] /\
  (* without NoDup the two variants differ (cf. C09_ex_merge) *)
  du_param_map [[0%nat]; [0%nat]] 1 [3; 4] <> Ok (sum_param_map [[0%nat]; [0%nat]] 1 [3; 4]).
Proof. split; [reflexivity|discriminate]. Qed.

(* ---- a union rule with three children; parent statistics (p0, p1) ----
   child A: one statistic, dict {p0 : a}              (drops p1)       position map [[0]]
   child B: two statistics, dict {p1 : b0, p0 : b1}   (swapped)        position map [[1]; [0]]
   child C: no statistic, dict {}                     (drops both)     position map []            *)
Definition pmA : list (list nat) := [[0%nat]].
Definition pmB : list (list nat) := [[1%nat]; [0%nat]].
Definition pmC : list (list nat) := [].
Definition fA := sum_param_map pmA 2.
Definition fB := sum_param_map pmB 2.
Definition fC := sum_param_map pmC 2.
Definition tA : terms := [([3], 4); ([7], 1)].
Definition tB : terms := [([5; 7], 2); ([1; 1], 3)].
Definition tC : terms := [([], 6)].
(* the parent's true table, written independently (other order, one entry split in two) *)
Definition tP : terms := [([0; 0], 6); ([7; 5], 2); ([3; 0], 1); ([1; 1], 3); ([7; 0], 1); ([3; 0], 3)].

Example C09_ex_built_maps :
  child_pos_map [0; 1] [20] [(0, 20)] = Ok pmA /\
  child_pos_map [0; 1] [10; 11] [(1, 10); (0, 11)] = Ok pmB /\
  child_pos_map [0; 1] [] [] = Ok pmC /\
  parent_pos_map [0; 1] [10; 11] [(1, 10); (0, 11)] = Ok pmB.
Proof. repeat split; reflexivity. Qed.

Lemma u3_table : union_table [fA; fB; fC] [tA; tB; tC]
                 = [([3; 0], 4); ([7; 0], 1); ([7; 5], 2); ([1; 1], 3); ([0; 0], 6)].
Proof. vm_compute. reflexivity. Qed.
Lemma u3_genuine : union_genuine [fA; fB; fC] [tA; tB; tC] tP.
Proof. unfold union_genuine. rewrite u3_table. unfold tP. teq_explicit. Qed.
Lemma u3_maps : MapsOk [du_param_map pmA 2; du_param_map pmB 2; du_param_map pmC 2] [fA; fB; fC] [tA; tB; tC].
Proof. repeat constructor; by_entries. Qed.

(* covers C09_union *)
Example C09_union_nonvacuous :
  exists r, union_get_terms [du_param_map pmA 2; du_param_map pmB 2; du_param_map pmC 2] [tA; tB; tC] = Ok r /\
            teq r tP.
Proof.
  exact (C09_union [du_param_map pmA 2; du_param_map pmB 2; du_param_map pmC 2] [fA; fB; fC]
           [tA; tB; tC] tP u3_maps u3_genuine).
Qed.
Example C09_union_value :
  union_get_terms [du_param_map pmA 2; du_param_map pmB 2; du_param_map pmC 2] [tA; tB; tC]
  = Ok [([3; 0], 4); ([7; 0], 1); ([7; 5], 2); ([1; 1], 3); ([0; 0], 6)] /\
  tnorm tP = [([0; 0], 6); ([1; 1], 3); ([3; 0], 4); ([7; 0], 1); ([7; 5], 2)].
Proof. split; vm_compute; reflexivity. Qed.

(* ---- product  a x B : a an atom of size 1 carrying statistic value 1, B = the binary words of
   length <= 2 by number of b's (a finite class); both children keep the parent's statistic ---- *)
Definition pm1 : list (list nat) := [[0%nat]].
Definition f1 := sum_param_map pm1 1.
Definition tabAtom (m : Z) : terms := if m =? 1 then [([1], 1)] else [].
Definition tabWords (m : Z) : terms :=
  if m =? 0 then [([0], 1)] else if m =? 1 then [([0], 1); ([1], 1)]
  else if m =? 2 then [([0], 1); ([1], 2); ([2], 1)] else [].
(* the parent's true table at size 3, written independently *)
Definition tProd3 : terms := [([3], 1); ([2], 1); ([1], 1); ([2], 1)].

Lemma prod_vanish : Vanish [tabAtom; tabWords] [1; 0] [Some 1; None].
Proof.
  constructor.
  - intros m Hm. unfold tabAtom. destruct (Z.eqb_spec m 1) as [->|_]; [|intros k v []].
    exfalso. destruct Hm as [Hm|Hm]; [lia|apply Hm; simpl; lia].
  - constructor; [|constructor]. intros m Hm. destruct Hm as [Hm|Hm]; [|exfalso; apply Hm; exact I].
    unfold tabWords. destruct (Z.eqb_spec m 0); [lia|]. destruct (Z.eqb_spec m 1); [lia|].
    destruct (Z.eqb_spec m 2); [lia|]. intros k v [].
Qed.
Lemma prod_full_table :
  product_table [f1; f1] (zeros (zlen [tabAtom; tabWords])) (nones (zlen [tabAtom; tabWords]))
                [tabAtom; tabWords] 3 = [([1], 1); ([2], 2); ([3], 1)].
Proof. vm_compute. reflexivity. Qed.
Lemma prod_genuine : product_genuine [f1; f1] [tabAtom; tabWords] tProd3 3.
Proof. unfold product_genuine. rewrite prod_full_table. unfold tProd3. teq_explicit. Qed.

(* covers C09_product; the pruned enumeration visits ONE composition instead of four *)
Example C09_product_nonvacuous :
  teq (product_get_terms [f1; f1] [1; 0] [Some 1; None] [tabAtom; tabWords] 3) tProd3.
Proof.
  apply (C09_product [f1; f1] [1; 0] [Some 1; None] [tabAtom; tabWords] tProd3 3);
    [vm_compute; discriminate|repeat constructor; lia|exact prod_vanish|exact prod_genuine].
Qed.
Example C09_product_value :
  product_get_terms [f1; f1] [1; 0] [Some 1; None] [tabAtom; tabWords] 3 = [([1], 1); ([2], 2); ([3], 1)] /\
  compositions 3 2 [1; 0] [Some 1; None] = [[1; 2]] /\
  compositions 3 2 [0; 0] [None; None] = [[0; 3]; [1; 2]; [2; 1]; [3; 0]] /\
  (* the contract matters: were the atom's table non-zero at size 2, pruning would lose objects *)
  tnorm (product_table [f1; f1] [0; 0] [None; None] [(fun m => if m =? 2 then [([1], 1)] else tabAtom m); tabWords] 3)
  <> tnorm (product_get_terms [f1; f1] [1; 0] [Some 1; None] [(fun m => if m =? 2 then [([1], 1)] else tabAtom m); tabWords] 3).
Proof. split; [vm_compute; reflexivity|]. split; [vm_compute; reflexivity|]. split; [vm_compute; reflexivity|]. vm_compute. discriminate. Qed.

(* ---- complement: the reverse of the three-child union above w.r.t. its MIDDLE child B ----
   parent map g : parent coordinates -> B's coordinates (position map pmB again: a swap) *)
Lemma compl_genuine : union_genuine ([fA] ++ fB :: [fC]) ([tA] ++ tB :: [tC]) tP.
Proof. exact u3_genuine. Qed.
Lemma compl_ppm_ok : maps_ok (du_param_map pmB 2) fB (filter (fun e : entry => negb (snd e =? 0)) tP).
Proof. by_entries. Qed.
Lemma compl_siblings_ok :
  CMapsOk (du_param_map pmB 2) [du_param_map pmA 2; du_param_map pmC 2]
          (map (fun f k => fB (f k)) ([fA] ++ [fC])) ([tA] ++ [tC]).
Proof. repeat constructor; by_entries. Qed.
Example C09_complement_nonvacuous :
  exists r, complement_get_terms (du_param_map pmB 2) [du_param_map pmA 2; du_param_map pmC 2] tP ([tA] ++ [tC]) = Ok r /\
            teq r tB.
Proof.
  apply (C09_complement (du_param_map pmB 2) fB [du_param_map pmA 2; du_param_map pmC 2]
           [fA] fB [fC] tP tB [tA] [tC] eq_refl compl_genuine).
  - by_entries.
  - repeat constructor; by_entries.
  - exact compl_ppm_ok.
  - exact compl_siblings_ok.
  - by_entries.
Qed.
Example C09_complement_value :
  match complement_get_terms (du_param_map pmB 2) [du_param_map pmA 2; du_param_map pmC 2] tP [tA; tC] with
  | Ok r => tnorm r = [([1; 1], 3); ([5; 7], 2)] | Err _ => False end.
Proof. vm_compute. reflexivity. Qed.

(* ---- quotient, parameter-free: the product  a x W x C  reversed w.r.t. W ----
   a: atom of size 1;  W: 2^m objects of size m (all m >= 0);  C: m objects of size m (m >= 1).
   The parent's true table is the full convolution (that IS genuineness of the product rule). *)
Definition f0 : params -> params := sum_param_map [] 0.
Definition qcs : list (Z * bool) := [(1, true); (0, false); (1, false)].
Definition qA (m : Z) : terms := if m =? 1 then [([], 1)] else [].
Definition qW (m : Z) : terms := if m <? 0 then [] else [([], 2 ^ m)].
Definition qC (m : Z) : terms := if m <? 1 then [] else [([], m)].
Definition qtabs : list (Z -> terms) := [qA; qW; qC].
Definition qTP (m : Z) : terms := product_table [f0; f0; f0] (zeros 3) (nones 3) qtabs m.

Lemma q_const_nil : Forall const_nil [f0; f0; f0].
Proof. repeat constructor; intros k; reflexivity. Qed.
Lemma q_vanish : Vanish qtabs (quotient_min_sizes qcs) (quotient_max_sizes qcs).
Proof.
  constructor; [|constructor; [|constructor; [|constructor]]]; intros m Hm; simpl in Hm.
  - unfold qA. destruct (Z.eqb_spec m 1) as [->|_]; [|intros k v []].
    exfalso. destruct Hm as [Hm|Hm]; [lia|apply Hm; lia].
  - destruct Hm as [Hm|Hm]; [|exfalso; apply Hm; exact I]. unfold qW.
    destruct (Z.ltb_spec m 0); [intros k v []|lia].
  - destruct Hm as [Hm|Hm]; [|exfalso; apply Hm; exact I]. unfold qC.
    destruct (Z.ltb_spec m 1); [intros k v []|lia].
Qed.
Lemma q_nonneg : Forall (fun tab : Z -> terms => forall m, nonneg (tab m)) qtabs.
Proof.
  repeat constructor; intros m k v H.
  - unfold qA in H. destruct (m =? 1); [|destruct H]. destruct H as [H|[]]. inversion H. lia.
  - unfold qW in H. destruct (Z.ltb_spec m 0); [destruct H|]. destruct H as [H|[]]. inversion H.
    apply Z.pow_nonneg. lia.
  - unfold qC in H. destruct (Z.ltb_spec m 1); [destruct H|]. destruct H as [H|[]]. inversion H. lia.
Qed.

(* covers C09_quotient_parameter_free: levels 0..4 of the reverse rule are computed without an
   exception and hold 2^m *)
Example C09_quotient_parameter_free_nonvacuous :
  exists tl : list terms,
    levels (qstep [f0; f0; f0] (q_param_map [] 0) qcs 1 qTP qtabs) 4 = (tl, None) /\
    length tl = Z.to_nat (4 + 1) /\
    forall m, (m < length tl)%nat ->
      nokeys (nth m tl []) /\ tsum (nth m tl []) = tsum (nth 1 qtabs (fun _ => []) (Z.of_nat m)).
Proof.
  apply (C09_quotient_parameter_free [f0; f0; f0] (q_param_map [] 0) qcs 1 qTP qtabs 4).
  - simpl; lia.
  - simpl; lia.
  - reflexivity.
  - exact q_const_nil.
  - reflexivity.
  - repeat constructor; simpl; lia.
  - exact q_vanish.
  - exact q_nonneg.
  - intros m. apply product_table_nokeys. exact q_const_nil.
  - intros m. unfold product_genuine, qTP. apply teq_refl.
  - vm_compute. discriminate.
  - lia.
Qed.
Example C09_quotient_parameter_free_value :
  levels (qstep [f0; f0; f0] (q_param_map [] 0) qcs 1 qTP qtabs) 4
  = ([[([], 1)]; [([], 2)]; [([], 4)]; [([], 8)]; [([], 16)]], None) /\
  map (fun m => tnorm (qTP m)) [0; 1; 2; 3; 4] = [[]; []; [([], 1)]; [([], 4)]; [([], 11)]].
Proof. split; vm_compute; reflexivity. Qed.

(* ---- equivalence rules ---- *)
(* the union rule above when only its middle child B has objects (A's table holds an explicit 0) *)
Definition tPB : terms := [([1; 1], 3); ([7; 5], 2)].
Lemma eq_genuine : union_genuine [fA; fB; fC] [[([4], 0)]; tB; []] tPB.
Proof.
  unfold union_genuine.
  assert (E : union_table [fA; fB; fC] [[([4], 0)]; tB; []] = [([4; 0], 0); ([7; 5], 2); ([1; 1], 3)])
    by (vm_compute; reflexivity).
  rewrite E. unfold tPB. teq_explicit.
Qed.
Example C09_equivalence_nonvacuous :
  union_genuine [nth 1 [fA; fB; fC] (fun k => k)] [nth 1 [[([4], 0)]; tB; []] []] tPB.
Proof.
  apply (C09_equivalence 1 [fA; fB; fC] [[([4], 0)]; tB; []] tPB); [simpl; lia|reflexivity| |exact eq_genuine].
  intros j Hj Hlt. destruct j as [|[|[|j]]]; simpl in Hlt; try lia; simpl; by_entries.
Qed.
(* ... and then C09_union applies to the rebuilt one-child rule *)
Example C09_equivalence_then_union :
  exists r, union_get_terms [du_param_map pmB 2] [tB] = Ok r /\ teq r tPB.
Proof.
  apply (C09_union [du_param_map pmB 2] [fB] [tB] tPB); [repeat constructor; by_entries|].
  exact C09_equivalence_nonvacuous.
Qed.

Definition eq_kids : list kid :=
  [mkKid [20] [(0, 20)] 0 false true; mkKid [10; 11] [(1, 10); (0, 11)] 0 false false;
   mkKid [] [] 0 false true].
Example C09_equivalence_child_index_nonvacuous : first_nonempty eq_kids = Some 1%nat.
Proof.
  apply (C09_equivalence_child_index eq_kids 1); [simpl; lia|reflexivity|].
  intros j Hj Hlt. destruct j as [|[|[|j]]]; simpl in Hlt; try lia; reflexivity.
Qed.
Example C09_equivalence_child_index_discriminates :
  first_nonempty [mkKid [] [] 0 false false; mkKid [] [] 0 false false] = Some 0%nat /\
  first_nonempty [mkKid [] [] 0 false true] = None.
Proof. split; reflexivity. Qed.

(* the reverse of the equivalence rule parent -> B *)
Example C09_equivalence_reverse_nonvacuous :
  exists r, complement_get_terms (du_param_map pmB 2) [] tPB [] = Ok r /\ teq r tB.
Proof.
  apply (C09_equivalence_reverse (du_param_map pmB 2) fB fB tPB tB).
  - exact C09_equivalence_nonvacuous.
  - by_entries.
  - by_entries.
  - by_entries.
Qed.
Example C09_equivalence_reverse_value :
  complement_get_terms (du_param_map pmB 2) [] tPB [] = Ok [([1; 1], 3); ([5; 7], 2)].
Proof. vm_compute. reflexivity. Qed.

(* ---- dictionaries ---- *)
(* parent statistics 0..3, child statistics 10..12; parent 1 and 2 are BOTH mapped onto child 10
   (merge), parent 3 is dropped (no key), child 12 is untracked *)
Definition dm_d : dict := [(1, 10); (0, 11); (2, 10)].
Lemma dm_wf : wf_dict [0; 1; 2; 3] [10; 11; 12] dm_d.
Proof.
  split; [repeat constructor; simpl; intuition discriminate|].
  split; [repeat constructor; simpl; intuition discriminate|].
  split; [repeat constructor; simpl; intuition discriminate|].
  intros a b H. simpl in H. repeat (destruct H as [H|H]; [inversion H; subst; simpl; tauto|]). contradiction.
Qed.
Example C09_dictionary_maps_nonvacuous :
  exists pm, child_pos_map [0; 1; 2; 3] [10; 11; 12] dm_d = Ok pm /\
             du_param_map pm (length [0; 1; 2; 3]) [5; 7; 9] = Ok (dict_sem [0; 1; 2; 3] [10; 11; 12] dm_d [5; 7; 9]) /\
             sum_param_map pm (length [0; 1; 2; 3]) [5; 7; 9] = dict_sem [0; 1; 2; 3] [10; 11; 12] dm_d [5; 7; 9].
Proof. exact (C09_dictionary_maps [0; 1; 2; 3] [10; 11; 12] dm_d [5; 7; 9] dm_wf eq_refl). Qed.
Example C09_dictionary_maps_value :
  child_pos_map [0; 1; 2; 3] [10; 11; 12] dm_d = Ok [[1%nat; 2%nat]; [0%nat]; []] /\
  dict_sem [0; 1; 2; 3] [10; 11; 12] dm_d [5; 7; 9] = [7; 5; 5; 0] /\
  (* a key that is not a parent statistic breaks wf_dict, and the code raises KeyError *)
  child_pos_map [0; 1] [10] [(4, 10)] = Err E_KEY.
Proof. repeat split; reflexivity. Qed.

(* the flipped child's dictionary: injective, parent statistic 2 dropped *)
Definition cp_d : dict := [(1, 10); (0, 11)].
Lemma cp_nodups : NoDup [0; 1; 2] /\ NoDup [10; 11] /\ NoDup (map fst cp_d) /\ NoDup (map snd cp_d).
Proof. repeat split; repeat constructor; simpl; intuition discriminate. Qed.
Example C09_complement_parent_map_nonvacuous :
  exists pm, parent_pos_map [0; 1; 2] [10; 11] cp_d = Ok pm /\
             du_param_map pm (length [10; 11]) [3; 4; 5] = Ok (dict_sem [10; 11] [0; 1; 2] (inv_dict cp_d) [3; 4; 5]).
Proof.
  destruct cp_nodups as (H1 & H2 & H3 & H4).
  apply (C09_complement_parent_map [0; 1; 2] [10; 11] cp_d [3; 4; 5] H1 H2 H3 H4); [|reflexivity].
  intros a b H. simpl in H. repeat (destruct H as [H|H]; [inversion H; subst; simpl; tauto|]). contradiction.
Qed.
Example C09_complement_parent_map_value :
  parent_pos_map [0; 1; 2] [10; 11] cp_d = Ok [[1%nat]; [0%nat]; []] /\
  dict_sem [10; 11] [0; 1; 2] (inv_dict cp_d) [3; 4; 5] = [4; 3] /\
  (* with two parent statistics merged onto one child statistic NoDup (map snd d) fails and the
     code asserts on unequal values *)
  (match parent_pos_map [0; 1] [10] [(0, 10); (1, 10)] with
   | Ok pm => du_param_map pm 1 [3; 4] = Err E_ASSERT | Err _ => False end).
Proof. repeat split; reflexivity. Qed.

Example C09_complement_round_trip_nonvacuous :
  dict_sem [10; 11] [0; 1; 2] (inv_dict cp_d) (dict_sem [0; 1; 2] [10; 11] cp_d [5; 7]) = [5; 7].
Proof.
  destruct cp_nodups as (H1 & H2 & H3 & H4).
  apply (C09_complement_round_trip [0; 1; 2] [10; 11] cp_d [5; 7] H1 H2 H3 H4); [| |reflexivity].
  - intros a b H. simpl in H. repeat (destruct H as [H|H]; [inversion H; subst; simpl; tauto|]). contradiction.
  - intros cv H. simpl in H. repeat (destruct H as [H|H]; [subst; simpl; tauto|]). contradiction.
Qed.
Example C09_complement_round_trip_value :
  dict_sem [0; 1; 2] [10; 11] cp_d [5; 7] = [7; 5; 0] /\
  (* an untracked child statistic (12) is lost on the way: the hypothesis "every child statistic is
     a value of d" is needed *)
  dict_sem [10; 11; 12] [0; 1; 2] (inv_dict cp_d) (dict_sem [0; 1; 2] [10; 11; 12] cp_d [5; 7; 9]) = [5; 7; 0].
Proof. split; reflexivity. Qed.

(* ---- equivalence paths ---- *)
(* class X0 (statistics 0,1) --{0:11, 1:10}--> X1 (10,11) --{10:21, 11:20}--> X2 (20,21,22);
   X2 has an untracked statistic 22, so two of its entries collapse in X1 *)
Definition pa_T2 : terms := [([5; 7; 1], 2); ([5; 7; 2], 1); ([1; 1; 0], 3)].
Definition pa_T1 : terms := [([1; 1], 3); ([7; 5], 3)].
Definition pa_T0 : terms := [([5; 7], 3); ([1; 1], 3)].
Definition pa_d1 : dict := [(0, 11); (1, 10)].
Definition pa_d2 : dict := [(10, 21); (11, 20)].
Definition pa_steps : list (list Z * dict * terms) := [([10; 11], pa_d1, pa_T1); ([20; 21; 22], pa_d2, pa_T2)].
Lemma pa_chain : chain_ok [0; 1] pa_T0 pa_steps.
Proof.
  constructor.
  - repeat constructor; simpl; intuition discriminate.
  - intros a b H. simpl in H. repeat (destruct H as [H|H]; [inversion H; subst; simpl; tauto|]). contradiction.
  - assert (E : rekey (dict_sem [0; 1] [10; 11] pa_d1) pa_T1 = [([1; 1], 3); ([5; 7], 3)]) by (vm_compute; reflexivity).
    rewrite E. unfold pa_T0. teq_explicit.
  - constructor.
    + repeat constructor; simpl; intuition discriminate.
    + intros a b H. simpl in H. repeat (destruct H as [H|H]; [inversion H; subst; simpl; tauto|]). contradiction.
    + assert (E : rekey (dict_sem [10; 11] [20; 21; 22] pa_d2) pa_T2 = [([7; 5], 2); ([7; 5], 1); ([1; 1], 3)])
        by (vm_compute; reflexivity).
      rewrite E. unfold pa_T1. teq_explicit.
    + constructor.
Qed.
Example C09_path_nonvacuous :
  exists pm r, child_pos_map [0; 1] [20; 21; 22] [(0, 20); (1, 21)] = Ok pm /\
               union_get_terms [du_param_map pm (length [0; 1])] [pa_T2] = Ok r /\ teq r pa_T0.
Proof.
  refine (C09_path [0; 1] pa_T0 pa_steps _ _ pa_chain _ _).
  - repeat constructor; simpl; intuition discriminate.
  - by_entries.
  - split; [repeat constructor; simpl; intuition discriminate|].
    split; [repeat constructor; simpl; intuition discriminate|].
    split; [repeat constructor; simpl; intuition discriminate|].
    intros a b H. cbn in H. repeat (destruct H as [H|H]; [inversion H; subst; simpl; tauto|]). contradiction.
  - by_entries.
Qed.
Example C09_path_value :
  fold_left dict_compose [pa_d1; pa_d2] (id_dict [0; 1]) = [(0, 20); (1, 21)] /\
  child_pos_map [0; 1] [20; 21; 22] [(0, 20); (1, 21)] = Ok [[0%nat]; [1%nat]; []] /\
  union_get_terms [du_param_map [[0%nat]; [1%nat]; []] 2] [pa_T2] = Ok [([5; 7], 2); ([5; 7], 1); ([1; 1], 3)].
Proof. repeat split; vm_compute; reflexivity. Qed.

(* a reverse step: the union rule with parent statistics (20,21) and child X1 (10,11), dictionary
   {20:11, 21:10}, walked from the child to the parent *)
Definition rl_d : dict := [(20, 11); (21, 10)].
Definition rl_TC : terms := [([5; 7], 3); ([2; 2], 1)].
Definition rl_TP : terms := [([2; 2], 1); ([7; 5], 2); ([7; 5], 1)].
Example C09_path_reverse_link_nonvacuous :
  teq rl_TC (rekey (dict_sem [10; 11] [20; 21] (inv_dict rl_d)) rl_TP).
Proof.
  apply (C09_path_reverse_link [20; 21] [10; 11] rl_d rl_TP rl_TC).
  - repeat constructor; simpl; intuition discriminate.
  - repeat constructor; simpl; intuition discriminate.
  - repeat constructor; simpl; intuition discriminate.
  - repeat constructor; simpl; intuition discriminate.
  - intros a b H. simpl in H. repeat (destruct H as [H|H]; [inversion H; subst; simpl; tauto|]). contradiction.
  - intros cv H. simpl in H. repeat (destruct H as [H|H]; [subst; simpl; tauto|]). contradiction.
  - by_entries.
  - unfold union_genuine.
    assert (E : union_table [dict_sem [20; 21] [10; 11] rl_d] [rl_TC] = [([7; 5], 3); ([2; 2], 1)])
      by (vm_compute; reflexivity).
    rewrite E. unfold rl_TP. teq_explicit.
Qed.
Example C09_path_reverse_link_value :
  rekey (dict_sem [10; 11] [20; 21] (inv_dict rl_d)) rl_TP = [([2; 2], 1); ([5; 7], 2); ([5; 7], 1)].
Proof. vm_compute. reflexivity. Qed.

(* the model's fold over a path with a forward step (whose first child is empty: the code picks
   child 1) and a reverse step with an injective dictionary *)
Definition pd_s1 : step_desc :=
  (false, [0; 1], [mkKid [] [] 0 false true; mkKid [10; 11] [(0, 10); (1, 11)] 0 false false], 1%nat).
Definition pd_s2 : step_desc := (true, [20; 21], [mkKid [10; 11] [(20, 11); (21, 10)] 0 false false], 0%nat).
Example C09_path_dictionary_nonvacuous :
  fold_left path_dict_step [pd_s1; pd_s2] (Ok (id_dict [0; 1]))
  = Ok (fold_left dict_compose [[(0, 10); (1, 11)]; inv_dict [(20, 11); (21, 10)]] (id_dict [0; 1])).
Proof.
  apply (C09_path_dictionary [pd_s1; pd_s2] [[(0, 10); (1, 11)]; inv_dict [(20, 11); (21, 10)]] (id_dict [0; 1])).
  vm_compute. reflexivity.
Qed.
Example C09_path_dictionary_value :
  fold_left path_dict_step [pd_s1; pd_s2] (Ok (id_dict [0; 1])) = Ok [(0, 21); (1, 20)] /\
  (* a reverse step with a non-injective dictionary has no step_dict (the hypothesis fails) and the
     model raises NotImplementedError *)
  step_dict (true, [20; 21], [mkKid [10] [(20, 10); (21, 10)] 0 false false], 0%nat) = None /\
  fold_left path_dict_step [(true, [20; 21], [mkKid [10] [(20, 10); (21, 10)] 0 false false], 0%nat)]
            (Ok (id_dict [10])) = Err E_NOTIMPL.
Proof. repeat split; vm_compute; reflexivity. Qed.

(* ------------------------------------------------------------ tie to the source (translator)
   The three parameter-map functions of the model ARE the source functions
   Constructor.param_map (base.py), DisjointUnion.param_map (disjoint.py) and
   Quotient.param_map (cartesian.py), re-translated into Gen/ConstructorParamMap.v,
   Gen/UnionParamMap.v, Gen/QuotientParamMap.v on every run: for ALL position maps,
   sizes and parameter tuples (positions are naturals in the model: zpos embeds
   them; an AssertionError is the result None of a generated definition). *)
Theorem C09_param_map_is_source : forall pm num param,
  sum_param_map pm num param =
  ConstructorParamMap.constructor_param_map (zpos pm) (Z.of_nat num) param.
Proof. exact sum_param_map_is_source. Qed.

Theorem C09_union_param_map_is_source : forall pm num param,
  du_param_map pm num param =
  res_of_option (UnionParamMap.union_param_map (zpos pm) (Z.of_nat num) param).
Proof. exact du_param_map_is_source. Qed.

Theorem C09_quotient_param_map_is_source : forall pm num param,
  q_param_map pm num param =
  res_of_option (QuotientParamMap.quotient_param_map (zpos pm) (Z.of_nat num) param).
Proof. exact q_param_map_is_source. Qed.

(* One rule of an equivalence path composes the dictionary by the source's expressions
   (EquivalencePathRule.constructor, strategies/rule.py; Gen/PathDictCompose.v,
   Gen/PathDictInvert.v, Gen/PathDictDuplicates.v), for every dictionary e with distinct
   keys (a Python dictionary); the path starts from the source's identity dictionary
   (Gen/PathDictInitial.v). *)
Theorem C09_path_dictionary_is_source : forall e rev pn kids idx, NoDup (map fst e) ->
  path_dict_step (Ok e) (rev, pn, kids, idx) =
  match first_nonempty kids with
  | None => Err E_ASSERT
  | Some ci =>
      let d := k_dict (nth ci kids default_kid) in
      if rev then
        (if PathDictDuplicates.path_dict_duplicates d then Err E_NOTIMPL
         else Ok (PathDictCompose.path_dict_compose e (PathDictInvert.path_dict_invert d)))
      else Ok (PathDictCompose.path_dict_compose e d)
  end.
Proof. exact path_dict_step_is_source. Qed.

Theorem C09_path_initial_is_source : forall names, NoDup names ->
  id_dict names = PathDictInitial.path_dict_initial names.
Proof. exact path_initial_is_source. Qed.

Print Assumptions C09_param_maps_agree.
Print Assumptions C09_union.
Print Assumptions C09_product.
Print Assumptions C09_complement.
Print Assumptions C09_quotient_parameter_free.
Print Assumptions C09_equivalence.
Print Assumptions C09_equivalence_child_index.
Print Assumptions C09_equivalence_reverse.
Print Assumptions C09_dictionary_maps.
Print Assumptions C09_complement_parent_map.
Print Assumptions C09_complement_round_trip.
Print Assumptions C09_path.
Print Assumptions C09_path_reverse_link.
Print Assumptions C09_path_dictionary.
Print Assumptions C09_param_map_is_source.
Print Assumptions C09_union_param_map_is_source.
Print Assumptions C09_quotient_param_map_is_source.
Print Assumptions C09_path_dictionary_is_source.
Print Assumptions C09_path_initial_is_source.
