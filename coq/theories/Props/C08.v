(* C08 — random sampling from a specification is exactly uniform.

   Only statements; every proof is an application of lemmas of
   Count/SampleWalk.v, SamplePick.v, SampleComps.v, SampleProb.v, SampleUniform.v.

   The random source is an explicit argument.  A sampler is a term of the free
   monad rc (Count/SampleModel.v): [Draw lo hi k] is one randint(lo, hi) /
   random.choice whose value is handed to k.  [run] is the sampler as a pure
   function of a draw sequence (what the correspondence harness compares with
   the real code under an enumerating random source); [prob P m] (Count/
   SampleProb.v) is the probability that m returns a value satisfying P when
   every draw is uniform and independent — a definition, part of what
   C08_uniform means.

   `compositions` is NOT hand-written: Gen/Compositions.v is re-translated from
   utils.compositions of the current /repo on every run.                        *)
From Coq Require Import ZArith List Bool Lia QArith.
From CSS Require Import Gen.Prelude Gen.Compositions Count.CompositionsSpec
  Count.SampleModel Count.SampleWalk Count.SamplePick Count.SampleComps Count.SampleProb Count.SampleUniform.
Import ListNotations.
Open Scope Z_scope.

(* ------------------------------------------------------------ 1. the threshold lemma *)
(* For ANY list of branches whose weight computations do not raise and are
   non-negative (a skipped branch — `continue` — weighs nothing): walking the
   list with threshold r (total = 0; total += w; if r <= total: return) picks
   branch j for exactly wz(j) of the values r = 1 .. total, every r in that range
   returns a branch (no RuntimeError), every r above it raises RuntimeError. *)
Theorem C08_threshold : forall (B : Type) (weight : B -> res (option Z)) (bs : list B),
  weights_ok weight bs ->
  (forall j b, nth_error bs j = Some b ->
     Z.of_nat (length (filter (fun r => picks j (walk weight r 0 0%nat bs))
                              (py_range 1 (total_weight weight bs + 1)))) = wz weight b) /\
  (forall r, 1 <= r <= total_weight weight bs ->
     exists j b, walk weight r 0 0%nat bs = Ok (j, b) /\ nth_error bs j = Some b) /\
  (forall r, total_weight weight bs < r -> walk weight r 0 0%nat bs = Err E_RUNTIME).
Proof.
  intros B weight bs Hok. split; [|split].
  - intros j b Hn. apply walk_count; assumption.
  - intros r Hr. destruct (walk_returns weight bs r 0 0%nat Hok ltac:(lia)) as (j & b & W & Hn).
    exists j, b. split; assumption.
  - intros r Hr. apply walk_over; [exact Hok|lia].
Qed.

(* the branch picked is characterised exactly: r lies in the j-th interval of cumulative weights *)
Theorem C08_threshold_interval : forall (B : Type) (weight : B -> res (option Z)) (bs : list B) r j b,
  weights_ok weight bs -> 0 < r ->
  (walk weight r 0 0%nat bs = Ok (j, b) <->
   nth_error bs j = Some b /\ presum weight bs j < r <= presum weight bs (S j)).
Proof.
  intros B weight bs r j b Hok Hr. rewrite (walk_iff weight bs r 0 0%nat j b Hok Hr). split.
  - intros (j' & -> & Hn & H). simpl. split; [exact Hn|lia].
  - intros [Hn H]. exists j. split; [reflexivity|]. split; [exact Hn|lia].
Qed.

(* DisjointUnion.random_sample_sub_objects, with extra parameters: zeroes,
   fixed_values and contradictory children are skipped.  weight of child j =
   its count at the parameters get_extra_parameters assigns to it, 0 if skipped. *)
Theorem C08_threshold_union : forall pvars kids eps fixed n params extra,
  union_extra eps fixed params = Ok extra ->
  let bs := union_branches pvars kids eps extra in
  let weight := union_weight n params in
  weights_ok weight bs ->
  (forall j b, nth_error bs j = Some b ->
     Z.of_nat (length (filter (fun r => upicks j (union_pick pvars kids eps fixed n params r))
                              (py_range 1 (total_weight weight bs + 1)))) = wz weight b) /\
  (forall r, 1 <= r <= total_weight weight bs ->
     exists j t, union_pick pvars kids eps fixed n params r = Ok (Z.of_nat j, t) /\ (j < length bs)%nat) /\
  (forall r, total_weight weight bs < r -> union_pick pvars kids eps fixed n params r = Err E_RUNTIME).
Proof. intros. eapply union_threshold; eauto. Qed.

(* when the hypothesis weights_ok of the union holds: non-negative term tables and no
   missing parameter (KeyError) on a child that is not skipped *)
Theorem C08_union_weights_ok : forall n params bs,
  (forall b, In b bs -> table_nonneg (ub_child b)) ->
  (forall b q, In b bs -> ub_extra b = Some q -> union_zero_skip (ub_zeroes b) params = false ->
               tuple_of (ch_params (ub_child b)) q <> None) ->
  weights_ok (union_weight n params) bs.
Proof. exact union_weights_ok_suff. Qed.

(* CartesianProduct.random_sample_sub_objects, with extra parameters: the branches
   are the compositions of _valid_compositions; weight = product of the children's
   counts (0 when get_extra_parameters finds a contradiction). *)
Theorem C08_threshold_product : forall pvars pmins kids n params pv,
  kids <> [] -> tuple_of pvars params = Some pv -> length params = length pvars ->
  let comps := prod_comps pvars pmins kids (n :: pv) in
  let weight := prod_weight pvars kids in
  weights_ok weight comps ->
  (forall j M, nth_error comps j = Some M ->
     Z.of_nat (length (filter (fun r => picks j (walk weight r 0 0%nat comps))
                              (py_range 1 (total_weight weight comps + 1)))) = wz weight M) /\
  (forall r, 1 <= r <= total_weight weight comps ->
     exists j M toks, walk weight r 0 0%nat comps = Ok (j, M) /\ nth_error comps j = Some M /\
                      prod_pick pvars pmins kids n params r = Ok toks) /\
  (forall r, total_weight weight comps < r -> prod_pick pvars pmins kids n params r = Err E_RUNTIME).
Proof. intros. eapply product_threshold; eauto. Qed.

(* ------------------------------------------------------------ 2. _valid_compositions *)
(* For any number of parent parameters (d columns, column 0 = the size): the
   matrices enumerated are exactly those whose rows lie in the reliance-profile
   boxes and whose columns sum to (n, parameters); none is enumerated twice. *)
Theorem C08_valid_compositions_spec : forall d pmins mins maxs P,
  combine mins maxs <> [] ->
  (forall M, In M (valid_comps d pmins mins maxs P) <-> comp_ok d pmins mins maxs P M) /\
  NoDup (valid_comps d pmins mins maxs P).
Proof.
  intros d pmins mins maxs P Hne. split.
  - intros M. apply valid_comps_spec. exact Hne.
  - apply valid_comps_nodup.
Qed.

(* Nothing that can have a non-zero product is pruned: a split whose rows respect
   the children's own bounds (>= min, <= max where a max is declared: the
   minimum_size_of_object / get_minimum_value / is_atom contract makes every
   other split have a zero count) is enumerated, provided the parent's declared
   minima do not exceed the sums of the children's minima. *)
Theorem C08_valid_compositions_complete : forall d pmins mins maxs P M,
  combine mins maxs <> [] ->
  (forall k, (k < d)%nat -> vget pmins k <= colsum k (map fst (combine mins maxs))) ->
  Forall2 (fun (c : vec * list (option Z)) v => in_bounds d (fst c) (snd c) v) (combine mins maxs) M ->
  (forall k, (k < d)%nat -> colsum k M = vget P k) ->
  In M (valid_comps d pmins mins maxs P).
Proof. exact valid_comps_complete. Qed.

(* Without extra parameters the enumerated size splits are exactly the
   compositions utils.compositions hands to CartesianProduct.get_terms (same
   set, both duplicate-free): the sampling weights are the summands of the count. *)
Theorem C08_valid_compositions_get_terms : forall n pmin mins maxs,
  1 <= zlen mins -> zlen maxs = zlen mins -> Forall (fun m => 0 <= m) mins -> pmin <= py_sum mins ->
  (forall t, In (col1 t) (valid_comps 1 [pmin] (col1 mins) (col1o maxs) [n])
             <-> In t (compositions n (zlen mins) mins maxs)) /\
  (forall M, In M (valid_comps 1 [pmin] (col1 mins) (col1o maxs) [n]) -> M = col1 (sizes_of M)) /\
  NoDup (valid_comps 1 [pmin] (col1 mins) (col1o maxs) [n]) /\
  NoDup (compositions n (zlen mins) mins maxs).
Proof.
  intros n pmin mins maxs Hk Hl Hnn Hp. split; [|split; [|split]].
  - intros t. apply valid_comps_compositions; assumption.
  - intros M. apply valid_comps_col1_shape.
    + unfold zlen in Hl. lia.
    + intros ->. unfold zlen in Hk. simpl in Hk. lia.
  - apply valid_comps_nodup.
  - apply compositions_nodup.
Qed.

(* ------------------------------------------------------------ 3. uniformity, end to end *)
(* tree_eqb decides equality of parse trees *)
Theorem C08_tree_eqb : forall a b, tree_eqb a b = true <-> a = b.
Proof. exact tree_eqb_eq. Qed.

(* Specifications built from atoms, disjoint unions and Cartesian products, no
   extra parameters.  cnt is what count_objects_of_size returns; the hypotheses say
   it satisfies the recurrences get_terms computes (C01/C09) — for the product
   literally the sum over utils.compositions(n, k, min_sizes, max_sizes) — and that
   the classes honour the minimum_size_of_object / is_atom contract.  Then the
   specification-level sampler returns EVERY parse tree t of the root class with
   probability exactly 1 / count(size of t), for every recursion budget larger
   than the height of t. *)
Theorem C08_uniform : forall (rule_of : nat -> cls) (cnt : nat -> Z -> Z),
  (forall c n, 0 <= cnt c n) ->
  (forall c, c_kind (rule_of c) = K_ATOM -> cnt c (cmin rule_of c) = 1) ->
  (forall c n, c_kind (rule_of c) = K_UNION ->
     cnt c n = py_sum (map (fun ci => cnt ci n) (c_kids (rule_of c)))) ->
  (forall c n, c_kind (rule_of c) = K_PRODUCT ->
     cnt c n = py_sum (map (prod_counts cnt (c_kids (rule_of c)))
                           (compositions n (zlen (c_kids (rule_of c)))
                                         (map (cmin rule_of) (c_kids (rule_of c)))
                                         (map (cmax rule_of) (c_kids (rule_of c)))))) ->
  (forall c, 0 <= cmin rule_of c) ->
  (forall c m, cnt c m <> 0 -> cmin rule_of c <= m /\ (c_atom (rule_of c) = true -> m <= cmin rule_of c)) ->
  (forall c, c_kind (rule_of c) = K_PRODUCT ->
     c_kids (rule_of c) <> [] /\ cmin rule_of c <= py_sum (map (cmin rule_of) (c_kids (rule_of c)))) ->
  forall (t : tree) (root fuel : nat),
    wf rule_of t root -> (height t < fuel)%nat ->
    (prob (tree_eqb t) (spec_sample rule_of cnt fuel root (tsize rule_of t))
     == 1 / inject_Z (cnt root (tsize rule_of t)))%Q.
Proof. intros. eapply spec_sample_uniform; eauto. Qed.

(* ... and every parse tree is counted: the denominator is never 0 *)
Theorem C08_counted : forall (rule_of : nat -> cls) (cnt : nat -> Z -> Z),
  (forall c n, 0 <= cnt c n) ->
  (forall c, c_kind (rule_of c) = K_ATOM -> cnt c (cmin rule_of c) = 1) ->
  (forall c n, c_kind (rule_of c) = K_UNION ->
     cnt c n = py_sum (map (fun ci => cnt ci n) (c_kids (rule_of c)))) ->
  (forall c n, c_kind (rule_of c) = K_PRODUCT ->
     cnt c n = py_sum (map (prod_counts cnt (c_kids (rule_of c)))
                           (compositions n (zlen (c_kids (rule_of c)))
                                         (map (cmin rule_of) (c_kids (rule_of c)))
                                         (map (cmax rule_of) (c_kids (rule_of c)))))) ->
  (forall c, 0 <= cmin rule_of c) ->
  (forall c m, cnt c m <> 0 -> cmin rule_of c <= m /\ (c_atom (rule_of c) = true -> m <= cmin rule_of c)) ->
  (forall c, c_kind (rule_of c) = K_PRODUCT ->
     c_kids (rule_of c) <> [] /\ cmin rule_of c <= py_sum (map (cmin rule_of) (c_kids (rule_of c)))) ->
  forall (t : tree) (c : nat), wf rule_of t c -> 1 <= cnt c (tsize rule_of t).
Proof. intros. eapply wf_counted; eauto. Qed.

(* the sampler never returns a tree of another size *)
Theorem C08_support : forall (rule_of : nat -> cls) (cnt : nat -> Z -> Z) fuel c n t,
  tsize rule_of t <> n -> (prob (tree_eqb t) (sample rule_of cnt fuel c n) == 0)%Q.
Proof. intros. apply sample_support. assumption. Qed.

(* ------------------------------------------------------------ 4. empty size rejected up front *)
(* count 0 (or less) => InvalidOperationError, and no draw is consumed whatever the
   draw sequence is *)
Theorem C08_reject_empty : forall rule_of cnt fuel root n draws,
  cnt root n <= 0 ->
  spec_sample rule_of cnt fuel root n = Fail E_INVALID_OP /\
  run (spec_sample rule_of cnt fuel root n) draws = (Err E_INVALID_OP, [], draws).
Proof. exact spec_sample_reject. Qed.

(* ------------------------------------------------------------ non-vacuity *)
(* All words over {a, b}:  0 = eps + a.0 + b.0  (classes: 1 = eps, 2 = a.0, 3 = a, 4 = b.0, 5 = b) *)
Module Ex.
  Definition mk k m a ks : cls := {| c_kind := k; c_min := m; c_atom := a; c_kids := ks |}.
  Definition table : list cls :=
    [mk K_UNION 0 false [1; 2; 4]%nat; mk K_ATOM 0 true []; mk K_PRODUCT 1 false [3; 0]%nat;
     mk K_ATOM 1 true []; mk K_PRODUCT 1 false [5; 0]%nat; mk K_ATOM 1 true []].
  Definition rule_of (c : nat) : cls := nth c table (mk K_EMPTY 0 false []).
  Definition cnt (c : nat) (n : Z) : Z :=
    match c with
    | 0%nat => if n <? 0 then 0 else 2 ^ n
    | 1%nat => if n =? 0 then 1 else 0
    | 2%nat | 4%nat => if n <? 1 then 0 else 2 ^ (n - 1)
    | 3%nat | 5%nat => if n =? 1 then 1 else 0
    | _ => 0
    end.

  (* "ab" *)
  Definition t_ab : tree :=
    UNode 0 1 (PNode 2 [Leaf 3; UNode 0 2 (PNode 4 [Leaf 5; UNode 0 0 (Leaf 1)])]).

  Lemma comps_1_0 n : compositions n 2 [1; 0] [Some 1; None] = if 1 <=? n then [[1; n - 1]] else [].
  Proof.
    set (L := compositions n 2 [1; 0] [Some 1; None]).
    assert (Hmem : forall t, In t L -> t = [1; n - 1] /\ 1 <= n).
    { intros t Ht. apply compositions_sound in Ht; [|reflexivity|reflexivity].
      destruct Ht as (Hz & Hs & Hle & Hb).
      inversion Hle as [|? a ? t1 Ha Hle1]; subst. inversion Hle1 as [|? b ? t2 Hb1 Hle2]; subst.
      inversion Hle2; subst.
      inversion Hb as [|? ? ? ? Hba Hb']; subst. simpl in Hba.
      rewrite !py_sum_cons in *. unfold py_sum. simpl. split; [|lia].
      f_equal; [lia|]. f_equal. lia. }
    assert (Hnd : NoDup L) by apply compositions_nodup.
    destruct (1 <=? n) eqn:E.
    - apply Z.leb_le in E.
      assert (Hin : In [1; n - 1] L).
      { apply compositions_complete; [lia|constructor; [lia|constructor; [lia|constructor]]|].
        split; [reflexivity|]. split; [unfold py_sum; cbn [fold_right]; lia|]. split.
        - constructor; [lia|]. constructor; [lia|]. constructor.
        - constructor; [simpl; lia|]. constructor; [exact I|]. constructor. }
      destruct L as [|x [|y L']]; [destruct Hin| |].
      + destruct (Hmem x (or_introl eq_refl)) as [-> _]. reflexivity.
      + exfalso. destruct (Hmem x (or_introl eq_refl)) as [-> _].
        destruct (Hmem y (or_intror (or_introl eq_refl))) as [-> _].
        inversion Hnd as [|? ? Hx _]. apply Hx. left; reflexivity.
    - apply Z.leb_gt in E. destruct L as [|x L']; [reflexivity|].
      destruct (Hmem x (or_introl eq_refl)). lia.
  Qed.

  Lemma pow_step n : 1 <= n -> 2 ^ n = 2 ^ (n - 1) + 2 ^ (n - 1).
  Proof. intros H. replace n with (Z.succ (n - 1)) at 1 by lia. rewrite Z.pow_succ_r by lia. lia. Qed.

  Lemma pow_nonneg n : 0 <= 2 ^ n.
  Proof. apply Z.pow_nonneg. lia. Qed.

  Lemma pow_pos n : 0 <= n -> 2 ^ n <> 0.
  Proof. intros H. pose proof (Z.pow_pos_nonneg 2 n ltac:(lia) H). lia. Qed.

  Ltac cases c := destruct c as [|[|[|[|[|[|c]]]]]].

  Lemma product_rec c n (a : nat) : (c = 2%nat /\ a = 3%nat) \/ (c = 4%nat /\ a = 5%nat) ->
    cnt c n = py_sum (map (prod_counts cnt [a; 0%nat]) (compositions n 2 [1; 0] [Some 1; None])).
  Proof.
    intros H. rewrite comps_1_0.
    assert (E : cnt c n = if n <? 1 then 0 else 2 ^ (n - 1)) by (destruct H as [[-> _]|[-> _]]; reflexivity).
    assert (Ea : forall m, cnt a m = if m =? 1 then 1 else 0) by (destruct H as [[_ ->]|[_ ->]]; reflexivity).
    rewrite E. destruct (1 <=? n) eqn:E1.
    - apply Z.leb_le in E1. destruct (n <? 1) eqn:E2; [apply Z.ltb_lt in E2; lia|].
      unfold py_sum, prod_counts, prodz. cbn [map fold_right combine fst snd]. rewrite Ea.
      change (cnt 0 (n - 1)) with (if n - 1 <? 0 then 0 else 2 ^ (n - 1)). rewrite Z.eqb_refl.
      destruct (n - 1 <? 0) eqn:E3; [apply Z.ltb_lt in E3; lia|]. ring.
    - apply Z.leb_gt in E1. destruct (n <? 1) eqn:E2; [reflexivity|apply Z.ltb_ge in E2; lia].
  Qed.

  Example hypotheses_hold :
    (forall c n, 0 <= cnt c n) /\
    (forall c, c_kind (rule_of c) = K_ATOM -> cnt c (cmin rule_of c) = 1) /\
    (forall c n, c_kind (rule_of c) = K_UNION ->
       cnt c n = py_sum (map (fun ci => cnt ci n) (c_kids (rule_of c)))) /\
    (forall c n, c_kind (rule_of c) = K_PRODUCT ->
       cnt c n = py_sum (map (prod_counts cnt (c_kids (rule_of c)))
                             (compositions n (zlen (c_kids (rule_of c)))
                                           (map (cmin rule_of) (c_kids (rule_of c)))
                                           (map (cmax rule_of) (c_kids (rule_of c)))))) /\
    (forall c, 0 <= cmin rule_of c) /\
    (forall c m, cnt c m <> 0 -> cmin rule_of c <= m /\ (c_atom (rule_of c) = true -> m <= cmin rule_of c)) /\
    (forall c, c_kind (rule_of c) = K_PRODUCT ->
       c_kids (rule_of c) <> [] /\ cmin rule_of c <= py_sum (map (cmin rule_of) (c_kids (rule_of c)))) /\
    wf rule_of t_ab 0 /\ tsize rule_of t_ab = 2 /\ cnt 0 2 = 4.
  Proof.
    split; [|split; [|split; [|split; [|split; [|split; [|split; [|split; [|split]]]]]]]].
    - intros c n. cases c; simpl;
        repeat match goal with |- context [if ?b then _ else _] => destruct b end; try lia; apply pow_nonneg.
    - intros c. cases c; simpl; intros H; try discriminate H; try reflexivity.
      destruct c as [|[|c]]; discriminate H.
    - intros c n. cases c; simpl; intros H; try discriminate H.
      + unfold py_sum. cbn [fold_right].
        destruct (Z.ltb_spec n 0) as [E0|E0]; destruct (Z.eqb_spec n 0) as [E1|E1];
          destruct (Z.ltb_spec n 1) as [E2|E2]; try lia.
        * subst n. reflexivity.
        * rewrite (pow_step n) by lia. ring.
      + destruct c as [|[|c]]; discriminate H.
    - intros c n. cases c; simpl; intros H; try discriminate H.
      + apply (product_rec 2 n 3). left; split; reflexivity.
      + apply (product_rec 4 n 5). right; split; reflexivity.
      + destruct c as [|[|c]]; discriminate H.
    - intros c. cases c; unfold cmin; simpl; try lia. destruct c as [|[|c]]; simpl; lia.
    - intros c m. cases c; unfold cmin; simpl; intros H.
      + destruct (m <? 0) eqn:E; [congruence|apply Z.ltb_ge in E]. split; [lia|discriminate].
      + destruct (m =? 0) eqn:E; [apply Z.eqb_eq in E|congruence]. split; [lia|intros _; lia].
      + destruct (m <? 1) eqn:E; [congruence|apply Z.ltb_ge in E]. split; [lia|discriminate].
      + destruct (m =? 1) eqn:E; [apply Z.eqb_eq in E|congruence]. split; [lia|intros _; lia].
      + destruct (m <? 1) eqn:E; [congruence|apply Z.ltb_ge in E]. split; [lia|discriminate].
      + destruct (m =? 1) eqn:E; [apply Z.eqb_eq in E|congruence]. split; [lia|intros _; lia].
      + congruence.
    - intros c. cases c; unfold cmin; simpl; intros H; try discriminate H.
      + split; [discriminate|unfold py_sum; simpl; lia].
      + split; [discriminate|unfold py_sum; simpl; lia].
      + destruct c as [|[|c]]; discriminate H.
    - cbv.
      repeat match goal with
             | |- _ /\ _ => split
             | |- exists _, _ => eexists
             | |- True => exact I
             | |- _ = _ => reflexivity
             end.
    - reflexivity.
    - reflexivity.
  Qed.

  (* the theorem's conclusion on this instance, also computed directly from the definitions *)
  Example ab_has_probability_one_quarter :
    (prob (tree_eqb t_ab) (spec_sample rule_of cnt 10 0 2) == 1 / inject_Z 4)%Q.
  Proof. vm_compute. reflexivity. Qed.

  (* the threshold walk on weights 2, 0 (skipped), 3: r = 1,2 -> branch 0; r = 3,4,5 -> branch 2; 6 raises *)
  Example walk_2_skip_3 :
    let weight := fun b : Z => if b =? 0 then Ok None else Ok (Some b) in
    map (fun r => walk weight r 0 0%nat [2; 0; 3]) [1; 2; 3; 4; 5; 6]
    = [Ok (0%nat, 2); Ok (0%nat, 2); Ok (2%nat, 3); Ok (2%nat, 3); Ok (2%nat, 3); Err E_RUNTIME].
  Proof. reflexivity. Qed.

  (* two children with minimum sizes 1 and 0, the first an atom: the splits of n = 3 *)
  Example valid_comps_example :
    valid_comps 1 [1] [[1]; [0]] [[Some 1]; [None]] [3] = [[[1]; [2]]].
  Proof. reflexivity. Qed.

  (* one extra parameter mapped to both children (d = 2): (n, k) = (2, 1) over boxes
     child 0: size 0..2, k 0..1;  child 1: size 0..2, k 0..1 *)
  Example valid_comps_params :
    valid_comps 2 [0; 0] [[0; 0]; [0; 0]] [[None; None]; [None; None]] [2; 1]
    = [[[0; 0]; [2; 1]]; [[0; 1]; [2; 0]]; [[1; 0]; [1; 1]]; [[1; 1]; [1; 0]]; [[2; 0]; [0; 1]]; [[2; 1]; [0; 0]]].
  Proof. reflexivity. Qed.
End Ex.

Print Assumptions C08_threshold.
Print Assumptions C08_threshold_interval.
Print Assumptions C08_threshold_union.
Print Assumptions C08_union_weights_ok.
Print Assumptions C08_threshold_product.
Print Assumptions C08_valid_compositions_spec.
Print Assumptions C08_valid_compositions_complete.
Print Assumptions C08_valid_compositions_get_terms.
Print Assumptions C08_tree_eqb.
Print Assumptions C08_uniform.
Print Assumptions C08_counted.
Print Assumptions C08_support.
Print Assumptions C08_reject_empty.
