(* C08 — random sampling from a specification is exactly uniform.

   Only statements; every proof is an application of lemmas of
   Count/SampleWalk.v, SamplePick.v, SampleComps.v, SampleProb.v, SampleUniform.v (sections 1-4),
   SampleEquiv.v (5), SampleUniformTrue.v (6), SampleParams{Dict,Spec,Union,Product,Sums,Totals,Pick}.v and
   SampleUniformParams.v (7); the examples are proved in SampleParamsExample.v / SampleParamsExample2.v.
   Sections: 1 threshold lemma, 2 _valid_compositions, 3 uniformity without parameters, 4 rejection,
   5 equivalence rules and paths, 6 uniformity w.r.t. the true counts (link to C01), 7 uniformity WITH
   extra parameters (C08_uniform_params, its refutation without fixed_honest, totals, path rules).

   The random source is an explicit argument.  A sampler is a term of the free
   monad rc (Count/SampleModel.v): [Draw lo hi k] is one randint(lo, hi) /
   random.choice whose value is handed to k.  [run] is the sampler as a pure
   function of a draw sequence (what the correspondence harness compares with
   the real code under an enumerating random source); [prob P m] (Count/
   SampleProb.v) is the probability that m returns a value satisfying P when
   every draw is uniform and independent — a definition, part of what
   C08_uniform means.

   `compositions` is NOT hand-written: Gen/Compositions.v is re-translated from
   utils.compositions of the current /repo on every run.                        *)
From Coq Require Import ZArith List Bool Lia QArith.
(* objects instead of parse trees (shared with C07 and C12): separable delta = these lines, section 8, Module ExObj
   and their Print Assumptions.  Imported FIRST so that the names of the C08 development take precedence. *)
From CSS Require Import Count.ObjectsModel Count.ObjectsProofs Count.ObjectsSpec Count.SampleModel
  Count.ParseTrees Count.ParseTreesProofs Count.ParseTreesSample Count.ParseTreesExample Count.ParseTreesParams.
From CSS Require Import Gen.Prelude Gen.Compositions Count.CompositionsSpec
  Forest.Spec Spec.Eval
  Count.Terms Count.Constructors Count.ConstructorsUnionProduct Count.ConstructorsDict
  Count.SampleModel Count.SampleWalk Count.SamplePick Count.SampleComps Count.SampleProb Count.SampleUniform
  Count.SampleEquiv Count.SampleUniformTrue
  Count.SampleModelParams Count.SampleParamsDict Count.SampleParamsSpec Count.SampleParamsUnion
  Count.SampleParamsProduct Count.SampleParamsTotals Count.SampleParamsPick Count.SampleUniformParams
  Count.SampleParamsExample Count.SampleParamsExample2.
From CSS Require Import Count.ParseTreesSampleParams Count.ParseTreesExampleParams.
(* translator tie of _valid_compositions (separable delta: this line, the section "tie to the source" and its two Print Assumptions) *)
From CSS Require Count.ObjectsRun Count.ParseTreesRun Count.ParseTreesRunSpec Count.ParseTreesSampleDeciders.
From CSS Require Gen.ProductRelianceProfile Gen.ProductValidCompositions Gen.ProductMinSizes Gen.ProductMaxSizes Count.GenBridgeValidComps.
Import ListNotations.
Open Scope Z_scope.

(* ------------------------------------------------------------ 1. the threshold lemma *)
(* For ANY list of branches whose weight computations do not raise and are
   non-negative (a skipped branch — `continue` — weighs nothing): walking the
   list with threshold r (total = 0; total += w; if r <= total: return) picks
   branch j for exactly wz(j) of the values r = 1 .. total, every r in that range
   returns a branch (no RuntimeError), every r above it raises RuntimeError. *)
Theorem C08_threshold : forall (B : Type) (weight : B -> res (option Z)) (bs : list B),
  weights_ok weight bs ->
  (forall j b, nth_error bs j = Some b ->
     Z.of_nat (length (filter (fun r => picks j (walk weight r 0 0%nat bs))
                              (py_range 1 (total_weight weight bs + 1)))) = wz weight b) /\
  (forall r, 1 <= r <= total_weight weight bs ->
     exists j b, walk weight r 0 0%nat bs = Ok (j, b) /\ nth_error bs j = Some b) /\
  (forall r, total_weight weight bs < r -> walk weight r 0 0%nat bs = Err E_RUNTIME).
Proof.
  intros B weight bs Hok. split; [|split].
  - intros j b Hn. apply walk_count; assumption.
  - intros r Hr. destruct (walk_returns weight bs r 0 0%nat Hok ltac:(lia)) as (j & b & W & Hn).
    exists j, b. split; assumption.
  - intros r Hr. apply walk_over; [exact Hok|lia].
Qed.

(* the branch picked is characterised exactly: r lies in the j-th interval of cumulative weights *)
Theorem C08_threshold_interval : forall (B : Type) (weight : B -> res (option Z)) (bs : list B) r j b,
  weights_ok weight bs -> 0 < r ->
  (walk weight r 0 0%nat bs = Ok (j, b) <->
   nth_error bs j = Some b /\ presum weight bs j < r <= presum weight bs (S j)).
Proof.
  intros B weight bs r j b Hok Hr. rewrite (walk_iff weight bs r 0 0%nat j b Hok Hr). split.
  - intros (j' & -> & Hn & H). simpl. split; [exact Hn|lia].
  - intros [Hn H]. exists j. split; [reflexivity|]. split; [exact Hn|lia].
Qed.

(* DisjointUnion.random_sample_sub_objects, with extra parameters: zeroes,
   fixed_values and contradictory children are skipped.  weight of child j =
   its count at the parameters get_extra_parameters assigns to it, 0 if skipped. *)
Theorem C08_threshold_union : forall pvars kids eps fixed n params extra,
  union_extra eps fixed params = Ok extra ->
  let bs := union_branches pvars kids eps extra in
  let weight := union_weight n params in
  weights_ok weight bs ->
  (forall j b, nth_error bs j = Some b ->
     Z.of_nat (length (filter (fun r => upicks j (union_pick pvars kids eps fixed n params r))
                              (py_range 1 (total_weight weight bs + 1)))) = wz weight b) /\
  (forall r, 1 <= r <= total_weight weight bs ->
     exists j t, union_pick pvars kids eps fixed n params r = Ok (Z.of_nat j, t) /\ (j < length bs)%nat) /\
  (forall r, total_weight weight bs < r -> union_pick pvars kids eps fixed n params r = Err E_RUNTIME).
Proof. intros. eapply union_threshold; eauto. Qed.

(* when the hypothesis weights_ok of the union holds: non-negative term tables and no
   missing parameter (KeyError) on a child that is not skipped *)
Theorem C08_union_weights_ok : forall n params bs,
  (forall b, In b bs -> table_nonneg (ub_child b)) ->
  (forall b q, In b bs -> ub_extra b = Some q -> union_zero_skip (ub_zeroes b) params = false ->
               tuple_of (ch_params (ub_child b)) q <> None) ->
  weights_ok (union_weight n params) bs.
Proof. exact union_weights_ok_suff. Qed.

(* CartesianProduct.random_sample_sub_objects, with extra parameters: the branches
   are the compositions of _valid_compositions; weight = product of the children's
   counts (0 when get_extra_parameters finds a contradiction). *)
Theorem C08_threshold_product : forall pvars pmins kids n params pv,
  kids <> [] -> tuple_of pvars params = Some pv -> length params = length pvars ->
  let comps := prod_comps pvars pmins kids (n :: pv) in
  let weight := prod_weight pvars kids in
  weights_ok weight comps ->
  (forall j M, nth_error comps j = Some M ->
     Z.of_nat (length (filter (fun r => picks j (walk weight r 0 0%nat comps))
                              (py_range 1 (total_weight weight comps + 1)))) = wz weight M) /\
  (forall r, 1 <= r <= total_weight weight comps ->
     exists j M toks, walk weight r 0 0%nat comps = Ok (j, M) /\ nth_error comps j = Some M /\
                      prod_pick pvars pmins kids n params r = Ok toks) /\
  (forall r, total_weight weight comps < r -> prod_pick pvars pmins kids n params r = Err E_RUNTIME).
Proof. intros. eapply product_threshold; eauto. Qed.

(* ------------------------------------------------------------ 2. _valid_compositions *)
(* For any number of parent parameters (d columns, column 0 = the size): the
   matrices enumerated are exactly those whose rows lie in the reliance-profile
   boxes and whose columns sum to (n, parameters); none is enumerated twice. *)
Theorem C08_valid_compositions_spec : forall d pmins mins maxs P,
  combine mins maxs <> [] ->
  (forall M, In M (valid_comps d pmins mins maxs P) <-> comp_ok d pmins mins maxs P M) /\
  NoDup (valid_comps d pmins mins maxs P).
Proof.
  intros d pmins mins maxs P Hne. split.
  - intros M. apply valid_comps_spec. exact Hne.
  - apply valid_comps_nodup.
Qed.

(* Nothing that can have a non-zero product is pruned: a split whose rows respect
   the children's own bounds (>= min, <= max where a max is declared: the
   minimum_size_of_object / get_minimum_value / is_atom contract makes every
   other split have a zero count) is enumerated, provided the parent's declared
   minima do not exceed the sums of the children's minima. *)
Theorem C08_valid_compositions_complete : forall d pmins mins maxs P M,
  combine mins maxs <> [] ->
  (forall k, (k < d)%nat -> vget pmins k <= colsum k (map fst (combine mins maxs))) ->
  Forall2 (fun (c : vec * list (option Z)) v => in_bounds d (fst c) (snd c) v) (combine mins maxs) M ->
  (forall k, (k < d)%nat -> colsum k M = vget P k) ->
  In M (valid_comps d pmins mins maxs P).
Proof. exact valid_comps_complete. Qed.

(* Without extra parameters the enumerated size splits are exactly the
   compositions utils.compositions hands to CartesianProduct.get_terms (same
   set, both duplicate-free): the sampling weights are the summands of the count. *)
Theorem C08_valid_compositions_get_terms : forall n pmin mins maxs,
  1 <= zlen mins -> zlen maxs = zlen mins -> Forall (fun m => 0 <= m) mins -> pmin <= py_sum mins ->
  (forall t, In (col1 t) (valid_comps 1 [pmin] (col1 mins) (col1o maxs) [n])
             <-> In t (compositions n (zlen mins) mins maxs)) /\
  (forall M, In M (valid_comps 1 [pmin] (col1 mins) (col1o maxs) [n]) -> M = col1 (sizes_of M)) /\
  NoDup (valid_comps 1 [pmin] (col1 mins) (col1o maxs) [n]) /\
  NoDup (compositions n (zlen mins) mins maxs).
Proof.
  intros n pmin mins maxs Hk Hl Hnn Hp. split; [|split; [|split]].
  - intros t. apply valid_comps_compositions; assumption.
  - intros M. apply valid_comps_col1_shape.
    + unfold zlen in Hl. lia.
    + intros ->. unfold zlen in Hk. simpl in Hk. lia.
  - apply valid_comps_nodup.
  - apply compositions_nodup.
Qed.

(* ------------------------------------------------------------ 3. uniformity, end to end *)
(* tree_eqb decides equality of parse trees *)
Theorem C08_tree_eqb : forall a b, tree_eqb a b = true <-> a = b.
Proof. exact tree_eqb_eq. Qed.

(* Specifications built from atoms, disjoint unions and Cartesian products, no
   extra parameters.  cnt is what count_objects_of_size returns; the hypotheses say
   it satisfies the recurrences get_terms computes (C01/C09) — for the product
   literally the sum over utils.compositions(n, k, min_sizes, max_sizes) — and that
   the classes honour the minimum_size_of_object / is_atom contract.  Then the
   specification-level sampler returns EVERY parse tree t of the root class with
   probability exactly 1 / count(size of t), for every recursion budget larger
   than the height of t. *)
Theorem C08_uniform : forall (rule_of : nat -> cls) (cnt : nat -> Z -> Z),
  (forall c n, 0 <= cnt c n) ->
  (forall c, c_kind (rule_of c) = K_ATOM -> cnt c (cmin rule_of c) = 1) ->
  (forall c n, c_kind (rule_of c) = K_UNION ->
     cnt c n = py_sum (map (fun ci => cnt ci n) (c_kids (rule_of c)))) ->
  (forall c n, c_kind (rule_of c) = K_PRODUCT ->
     cnt c n = py_sum (map (prod_counts cnt (c_kids (rule_of c)))
                           (compositions n (zlen (c_kids (rule_of c)))
                                         (map (cmin rule_of) (c_kids (rule_of c)))
                                         (map (cmax rule_of) (c_kids (rule_of c)))))) ->
  (forall c, 0 <= cmin rule_of c) ->
  (forall c m, cnt c m <> 0 -> cmin rule_of c <= m /\ (c_atom (rule_of c) = true -> m <= cmin rule_of c)) ->
  (forall c, c_kind (rule_of c) = K_PRODUCT ->
     c_kids (rule_of c) <> [] /\ cmin rule_of c <= py_sum (map (cmin rule_of) (c_kids (rule_of c)))) ->
  forall (t : tree) (root fuel : nat),
    wf rule_of t root -> (height t < fuel)%nat ->
    (prob (tree_eqb t) (spec_sample rule_of cnt fuel root (tsize rule_of t))
     == 1 / inject_Z (cnt root (tsize rule_of t)))%Q.
Proof. intros. eapply spec_sample_uniform; eauto. Qed.

(* ... and every parse tree is counted: the denominator is never 0 *)
Theorem C08_counted : forall (rule_of : nat -> cls) (cnt : nat -> Z -> Z),
  (forall c n, 0 <= cnt c n) ->
  (forall c, c_kind (rule_of c) = K_ATOM -> cnt c (cmin rule_of c) = 1) ->
  (forall c n, c_kind (rule_of c) = K_UNION ->
     cnt c n = py_sum (map (fun ci => cnt ci n) (c_kids (rule_of c)))) ->
  (forall c n, c_kind (rule_of c) = K_PRODUCT ->
     cnt c n = py_sum (map (prod_counts cnt (c_kids (rule_of c)))
                           (compositions n (zlen (c_kids (rule_of c)))
                                         (map (cmin rule_of) (c_kids (rule_of c)))
                                         (map (cmax rule_of) (c_kids (rule_of c)))))) ->
  (forall c, 0 <= cmin rule_of c) ->
  (forall c m, cnt c m <> 0 -> cmin rule_of c <= m /\ (c_atom (rule_of c) = true -> m <= cmin rule_of c)) ->
  (forall c, c_kind (rule_of c) = K_PRODUCT ->
     c_kids (rule_of c) <> [] /\ cmin rule_of c <= py_sum (map (cmin rule_of) (c_kids (rule_of c)))) ->
  forall (t : tree) (c : nat), wf rule_of t c -> 1 <= cnt c (tsize rule_of t).
Proof. intros. eapply wf_counted; eauto. Qed.

(* the sampler never returns a tree of another size *)
Theorem C08_support : forall (rule_of : nat -> cls) (cnt : nat -> Z -> Z) fuel c n t,
  tsize rule_of t <> n -> (prob (tree_eqb t) (sample rule_of cnt fuel c n) == 0)%Q.
Proof. intros. apply sample_support. assumption. Qed.

(* ------------------------------------------------------------ 4. empty size rejected up front *)
(* count 0 (or less) => InvalidOperationError, and no draw is consumed whatever the
   draw sequence is *)
Theorem C08_reject_empty : forall rule_of cnt fuel root n draws,
  cnt root n <= 0 ->
  spec_sample rule_of cnt fuel root n = Fail E_INVALID_OP /\
  run (spec_sample rule_of cnt fuel root n) draws = (Err E_INVALID_OP, [], draws).
Proof. exact spec_sample_reject. Qed.

(* ------------------------------------------------------------ 5. equivalence rules and paths (no parameters) *)
(* EquivalenceRule / EquivalencePathRule have a one-child DisjointUnion as constructor and a bijection
   as backward map: in the model they are classes of kind K_UNION with one child, so C08_uniform
   covers specifications containing them.  Explicitly: such a step preserves the count and the
   distribution (the parent returns UNode c 0 t exactly as often as the child returns t) ... *)
Theorem C08_equivalence_step : forall (rule_of : nat -> cls) (cnt : nat -> Z -> Z),
  (forall c n, 0 <= cnt c n) ->
  (forall c n, c_kind (rule_of c) = K_UNION ->
     cnt c n = py_sum (map (fun ci => cnt ci n) (c_kids (rule_of c)))) ->
  forall fuel c ci n t,
    c_kind (rule_of c) = K_UNION -> c_kids (rule_of c) = [ci] -> 1 <= cnt ci n ->
    cnt c n = cnt ci n /\
    (prob (tree_eqb (UNode c 0 t)) (sample rule_of cnt (S fuel) c n)
     == prob (tree_eqb t) (sample rule_of cnt fuel ci n))%Q.
Proof.
  intros rule_of cnt H0 Hu fuel c ci n t Hk Hc Hpos. split.
  - apply (unary_count rule_of cnt Hu c ci n). split; assumption.
  - apply (unary_step rule_of cnt Hu). split; assumption. exact Hpos.
Qed.

(* ... and so does a whole chain c -> c1 -> ... -> last of them (what EquivalencePathRule collapses) *)
Theorem C08_equivalence_path : forall (rule_of : nat -> cls) (cnt : nat -> Z -> Z),
  (forall c n, 0 <= cnt c n) ->
  (forall c n, c_kind (rule_of c) = K_UNION ->
     cnt c n = py_sum (map (fun ci => cnt ci n) (c_kids (rule_of c)))) ->
  forall path c last fuel n t,
    chain rule_of c path last -> 1 <= cnt last n ->
    cnt c n = cnt last n /\
    (prob (tree_eqb (wrap c path t)) (sample rule_of cnt (length path + fuel) c n)
     == prob (tree_eqb t) (sample rule_of cnt fuel last n))%Q.
Proof.
  intros rule_of cnt H0 Hu path c last fuel n t Hc Hpos. split.
  - apply (chain_count rule_of cnt Hu path c last n Hc).
  - apply (chain_steps rule_of cnt Hu path c last fuel n t Hc Hpos).
Qed.

(* ------------------------------------------------------------ 6. uniform w.r.t. the TRUE counts (link to C01) *)
(* C08_uniform assumes only that the count table U satisfies the get_terms recurrences.  With the
   rules packaged as the term operators of C01 (c08_rule: atom / union with shifts 0 / product with
   child i shifted by the other children's minimum sizes; their locality is proved), if T is the
   true enumeration (nothing of negative size, every rule genuine) and the root is productive
   w.r.t. the keys of the rules (C03's notion; C03 + C11 discharge it for forest searches, see
   Spec/Pipeline.v), then U = T on the root (C01's unique_solution) and the sampler returns every
   parse tree of the root with probability 1 / (true number of objects of that size). *)
Theorem C08_uniform_true_counts : forall (rule_of : nat -> cls) (U T : nat -> Z -> Z),
  (forall c n, 0 <= U c n) ->
  (forall c, c_kind (rule_of c) = K_ATOM -> U c (cmin rule_of c) = 1) ->
  (forall c n, c_kind (rule_of c) = K_UNION ->
     U c n = py_sum (map (fun ci => U ci n) (c_kids (rule_of c)))) ->
  (forall c n, c_kind (rule_of c) = K_PRODUCT ->
     U c n = py_sum (map (prod_counts U (c_kids (rule_of c)))
                         (compositions n (zlen (c_kids (rule_of c)))
                                       (map (cmin rule_of) (c_kids (rule_of c)))
                                       (map (cmax rule_of) (c_kids (rule_of c)))))) ->
  (forall c, 0 <= cmin rule_of c) ->
  (forall c m, U c m <> 0 -> cmin rule_of c <= m /\ (c_atom (rule_of c) = true -> m <= cmin rule_of c)) ->
  (forall c, c_kind (rule_of c) = K_PRODUCT ->
     c_kids (rule_of c) <> [] /\ cmin rule_of c <= py_sum (map (cmin rule_of) (c_kids (rule_of c)))) ->
  (forall c, c_kind (rule_of c) = K_ATOM -> c_atom (rule_of c) = true) ->
  (forall c m, m < 0 -> T c m = 0) ->
  (forall c r, c08_rule rule_of c = Some r -> genuine Z T c r) ->
  forall (keys : list fkey) (root : nat),
  (forall k, In k keys -> exists r, c08_rule rule_of (parent k) = Some r /\ kids k = r_kids Z r) ->
  pumps keys root ->
  (forall n, 0 <= n -> U root n = T root n) /\
  forall (t : tree) (fuel : nat),
    wf rule_of t root -> (height t < fuel)%nat ->
    (prob (tree_eqb t) (spec_sample rule_of U fuel root (tsize rule_of t))
     == 1 / inject_Z (T root (tsize rule_of t)))%Q.
Proof.
  intros. split.
  - intros n Hn. eapply root_counts_true; eauto.
  - intros t fuel Hwf Hf. eapply sample_uniform_true; eauto.
Qed.

(* the operators are local in C01's sense (what C10 establishes for the library's constructors) *)
Theorem C08_rules_local : forall (rule_of : nat -> cls) c r, c08_rule rule_of c = Some r -> local Z r.
Proof. exact c08_rules_local. Qed.

(* ------------------------------------------------------------ 7. uniformity WITH extra parameters *)
(* Specifications whose classes carry extra parameters (Count/SampleModelParams.v): a class is
   described by kind / minimum size / is_atom / children, its extra_parameters, get_minimum_value,
   and the constructor's dictionaries (extra_parameters[i]: parent variable -> child variable;
   fixed_values[i]); tab c n is get_terms(n) of its rule, a Counter of parameter tuples.
   A parse tree t stands for an object of size ptsize t with parameter tuple tpar t
   (Count/SampleParamsSpec.v): an atom has its minimum values; through a union child i the tuple is
   mapped by dict_sem of C09 (parent parameter pv = the child's value of ep_i[pv], 0 when pv is not
   a key: dropped statistics; two parent parameters may share a child parameter: merged
   statistics); at a product the children's mapped tuples add up (_new_param).

   Hypotheses (all are hypotheses on the specification, named predicates of SampleParamsSpec.v):
     tables_ok      parameter names distinct, tables are Counters (distinct keys) of numbers >= 0
     contract_ok    minimum_size_of_object / is_atom / get_minimum_value are honest:
                    count(c, m, q) <> 0 -> min <= m (= for atoms) and minval <= q_j (= for atoms)
     atom_ok        a verified atom has one object, of the minimum size, with the minimum values
     union_ok       as many dictionaries / fixed_values as children; every dictionary is a C09
                    wf_dict with values among the child's parameters; fixed_values has distinct keys
                    among the child's parameters; EVERY child parameter is the image of a parent
                    parameter or fixed (else the code raises KeyError); and the table is what
                    DisjointUnion.get_terms computes:  teq (tab c n) (union_table maps child tables)
     product_ok     at least one child; dictionaries wf_dict; EVERY child parameter is the image of a
                    parent parameter (else KeyError); the parent's declared minima (size and
                    parameters) are at most the sums of the children's; and the table is what
                    CartesianProduct.get_terms computes:
                    teq (tab c n) (product_table maps min_sizes max_sizes child tables n)
     fixed_honest   a value in fixed_values is the value of that parameter on EVERY object of the
                    child.  This is exactly what excludes the OPEN finding
                    "eqpath-child-statistic-untracked-by-parent-sampling": EquivalencePathRule
                    fixes every untracked child statistic to 0 (C08_path_fixed_honest below says
                    what fixed_honest means there); C08_uniform_params_refuted shows that without it
                    the conclusion fails in the model, as it does in the code.
   P is the **parameters dictionary of the call: distinct keys, exactly the root's parameters, holding
   the tuple of t.
   Conclusion: the specification-level sampler called with (size of t, P) returns t with probability
   exactly 1 / count(root, size of t, parameter tuple of t). *)
Theorem C08_uniform_params : forall (rule_of : nat -> pcls) (tab : nat -> Z -> terms),
  tables_ok rule_of tab -> contract_ok rule_of tab ->
  (forall c, pk_kind (rule_of c) = K_ATOM -> atom_ok rule_of tab c) ->
  (forall c, pk_kind (rule_of c) = K_UNION -> union_ok rule_of tab c) ->
  (forall c, pk_kind (rule_of c) = K_PRODUCT -> product_ok rule_of tab c) ->
  (forall c, pk_kind (rule_of c) = K_UNION -> fixed_honest rule_of tab c) ->
  forall (t : tree) (root fuel : nat) (P : dict),
    pwf rule_of t root -> (height t < fuel)%nat -> dict_for rule_of root P (tpar rule_of t) ->
    (prob (tree_eqb t) (pspec_sample rule_of tab fuel root (ptsize rule_of t) P)
     == 1 / inject_Z (pcnt tab root (ptsize rule_of t) (tpar rule_of t)))%Q.
Proof. intros. eapply pspec_sample_uniform; eauto. Qed.

(* every parse tree is counted at its size and parameter tuple: the denominator is never 0 *)
Theorem C08_counted_params : forall (rule_of : nat -> pcls) (tab : nat -> Z -> terms),
  tables_ok rule_of tab -> contract_ok rule_of tab ->
  (forall c, pk_kind (rule_of c) = K_ATOM -> atom_ok rule_of tab c) ->
  (forall c, pk_kind (rule_of c) = K_UNION -> union_ok rule_of tab c) ->
  (forall c, pk_kind (rule_of c) = K_PRODUCT -> product_ok rule_of tab c) ->
  (forall c, pk_kind (rule_of c) = K_UNION -> fixed_honest rule_of tab c) ->
  forall (t : tree) (c : nat), pwf rule_of t c -> 1 <= pcnt tab c (ptsize rule_of t) (tpar rule_of t).
Proof. intros. eapply pwf_counted; eauto. Qed.

(* asked for (n, p) with a non-zero count, the sampler of a class never returns a tree of another
   size or another parameter tuple (this needs NO fixed_honest) *)
Theorem C08_support_params : forall (rule_of : nat -> pcls) (tab : nat -> Z -> terms),
  tables_ok rule_of tab -> contract_ok rule_of tab ->
  (forall c, pk_kind (rule_of c) = K_ATOM -> atom_ok rule_of tab c) ->
  (forall c, pk_kind (rule_of c) = K_UNION -> union_ok rule_of tab c) ->
  (forall c, pk_kind (rule_of c) = K_PRODUCT -> product_ok rule_of tab c) ->
  forall fuel c n P p t,
    dict_for rule_of c P p -> 0 < pcnt tab c n p ->
    (ptsize rule_of t <> n \/ tpar rule_of t <> p) ->
    (prob (tree_eqb t) (psample rule_of tab fuel c n P) == 0)%Q.
Proof. intros. eapply psample_support; eauto. Qed.

(* the link between the sampling weights and the counts, rule by rule: at a union rule of the
   specification get_extra_parameters raises nothing, no weight computation raises, and the walk's
   total is at most what DisjointUnion.get_terms counts (these are the hypotheses of
   C08_threshold_union: every draw in 1..total returns, branch j for exactly w_j draws) ... *)
Theorem C08_union_weights_params : forall (rule_of : nat -> pcls) (tab : nat -> Z -> terms) c P p n,
  tables_ok rule_of tab -> union_ok rule_of tab c -> dict_for rule_of c P p ->
  exists extra,
    union_extra (pk_eps (rule_of c)) (pk_fixed (rule_of c)) P = Ok extra /\
    let bs := union_branches (pars rule_of c) (map (kid_at rule_of tab n) (pk_kids (rule_of c)))
                             (pk_eps (rule_of c)) extra in
    weights_ok (union_weight n P) bs /\ total_weight (union_weight n P) bs <= pcnt tab c n p.
Proof. intros. apply union_weights_params; assumption. Qed.

(* ... and at a product rule: no weight computation over _valid_compositions raises and the total of
   the weights is at most what CartesianProduct.get_terms counts (each weight is the mass of a
   distinct set of the combinations get_terms sums over) *)
Theorem C08_product_weights_params : forall (rule_of : nat -> pcls) (tab : nat -> Z -> terms) c p n,
  tables_ok rule_of tab -> contract_ok rule_of tab -> product_ok rule_of tab c ->
  length p = length (pars rule_of c) ->
  let kids := map (pkid rule_of tab n) (kid_eps rule_of c) in
  let comps := prod_comps (pars rule_of c) (pmins_of (rule_of c)) kids (n :: p) in
  weights_ok (prod_weight (pars rule_of c) kids) comps /\
  total_weight (prod_weight (pars rule_of c) kids) comps <= pcnt tab c n p.
Proof.
  intros. split; [apply comps_weights_ok; assumption|apply product_total_le; assumption].
Qed.

(* With honest fixed values and tables whose keys have the arity of their class (arity_ok) the
   walk's total IS the count, at union rules and at product rules: hence EVERY draw r in 1..count
   returns a child / a composition and the dictionaries its sub-samplers are called with (no
   RuntimeError, no other exception), and every r above the count raises RuntimeError.  (For
   products no fixed_values are involved.)  Without fixed_honest only <= holds: the missing mass
   is the RuntimeError of the open finding. *)
Theorem C08_union_total_params : forall (rule_of : nat -> pcls) (tab : nat -> Z -> terms) c P p n,
  tables_ok rule_of tab -> arity_ok rule_of tab -> union_ok rule_of tab c -> fixed_honest rule_of tab c ->
  dict_for rule_of c P p ->
  exists extra,
    union_extra (pk_eps (rule_of c)) (pk_fixed (rule_of c)) P = Ok extra /\
    let bs := union_branches (pars rule_of c) (map (kid_at rule_of tab n) (pk_kids (rule_of c)))
                             (pk_eps (rule_of c)) extra in
    weights_ok (union_weight n P) bs /\ total_weight (union_weight n P) bs = pcnt tab c n p.
Proof. intros. apply union_total_params; assumption. Qed.

Theorem C08_product_total_params : forall (rule_of : nat -> pcls) (tab : nat -> Z -> terms) c p n,
  tables_ok rule_of tab -> contract_ok rule_of tab -> arity_ok rule_of tab -> product_ok rule_of tab c ->
  length p = length (pars rule_of c) ->
  let kids := map (pkid rule_of tab n) (kid_eps rule_of c) in
  let comps := prod_comps (pars rule_of c) (pmins_of (rule_of c)) kids (n :: p) in
  total_weight (prod_weight (pars rule_of c) kids) comps = pcnt tab c n p.
Proof. intros. apply product_total_eq; assumption. Qed.

Theorem C08_draws_return_union_params : forall (rule_of : nat -> pcls) (tab : nat -> Z -> terms) c P p n,
  tables_ok rule_of tab -> arity_ok rule_of tab -> union_ok rule_of tab c -> fixed_honest rule_of tab c ->
  dict_for rule_of c P p ->
  (forall r, 1 <= r <= pcnt tab c n p ->
     exists i q, union_pick_dict (pars rule_of c) (map (kid_at rule_of tab n) (pk_kids (rule_of c)))
                                 (pk_eps (rule_of c)) (pk_fixed (rule_of c)) n P r = Ok (i, q)) /\
  (forall r, pcnt tab c n p < r ->
     union_pick_dict (pars rule_of c) (map (kid_at rule_of tab n) (pk_kids (rule_of c)))
                     (pk_eps (rule_of c)) (pk_fixed (rule_of c)) n P r = Err E_RUNTIME).
Proof. intros. apply union_pick_returns; assumption. Qed.

Theorem C08_draws_return_product_params : forall (rule_of : nat -> pcls) (tab : nat -> Z -> terms) c P p n,
  tables_ok rule_of tab -> contract_ok rule_of tab -> arity_ok rule_of tab -> product_ok rule_of tab c ->
  dict_for rule_of c P p ->
  (forall r, 1 <= r <= pcnt tab c n p ->
     exists ex, prod_pick_dict (pars rule_of c) (pmins_of (rule_of c))
                               (map (pkid rule_of tab n) (kid_eps rule_of c)) n P r = Ok ex) /\
  (forall r, pcnt tab c n p < r ->
     prod_pick_dict (pars rule_of c) (pmins_of (rule_of c))
                    (map (pkid rule_of tab n) (kid_eps rule_of c)) n P r = Err E_RUNTIME).
Proof. intros. apply prod_pick_returns; assumption. Qed.

(* the walks of the specification-level model choose what union_pick / prod_pick choose: the
   functions compared draw by draw with the real constructors and counted by the threshold theorems *)
Theorem C08_pick_dict_union : forall pvars kids eps fixed n params extra r j,
  union_extra eps fixed params = Ok extra ->
  upicks j (union_pick pvars kids eps fixed n params r) = dpicks j (union_pick_dict pvars kids eps fixed n params r).
Proof. exact union_pick_dict_index. Qed.

Theorem C08_pick_dict_product : forall pvars pmins kids n params r,
  prod_pick pvars pmins kids n params r =
  match prod_pick_dict pvars pmins kids n params r with
  | Ok ex => prod_tokens kids ex
  | Err e => Err e
  end.
Proof. exact prod_pick_of_dict. Qed.

(* EquivalencePathRule.constructor: the dictionary is C09's composition of the chain's dictionaries;
   with fixed_values = {k: 0 for the last class's parameters that are not values of it} every
   parameter of the last class is determined; and fixed_honest holds for such a rule exactly when
   the statistics of the last class that the first class does not track are 0 on all its objects *)
Theorem C08_path_dictionary : forall first steps,
  path_dict first steps = fold_left dict_compose steps (id_dict first).
Proof. exact path_dict_fold. Qed.

Theorem C08_path_fixed_determined : forall last (d : dict) cv,
  In cv last -> In cv (map snd d) \/ In cv (map fst (path_fixed last d)).
Proof. exact path_fixed_determined. Qed.

Theorem C08_path_fixed_honest : forall rule_of tab c ci (D : dict),
  pk_kids (rule_of c) = [ci] -> pk_eps (rule_of c) = [D] ->
  pk_fixed (rule_of c) = [path_fixed (pars rule_of ci) D] ->
  (fixed_honest rule_of tab c <->
   forall k, In k (pars rule_of ci) -> ~ In k (map snd D) ->
   forall n q, pcnt tab ci n q <> 0 -> dget (combine (pars rule_of ci) q) k = Some 0).
Proof. exact path_fixed_honest. Qed.

(* WITHOUT fixed_honest the conclusion of C08_uniform_params is false.  All words over {a, b}: the
   root tracks nothing and is equivalent, by one step whose dictionary is empty, to the class
   tracking the number of a's; its rule carries the dictionary and the fixed_values
   EquivalencePathRule.constructor computes ({} and {k: 0}).  Every other hypothesis holds, the
   count of size 1 is 2, but the word "a" is returned with probability 0 (and the draw r = 2 raises
   RuntimeError): the model reproduces the open finding of known_findings.json. *)
Theorem C08_uniform_params_refuted :
  exists (rule_of : nat -> pcls) (tab : nat -> Z -> terms) (t : tree) (root fuel : nat) (P : dict),
    tables_ok rule_of tab /\ contract_ok rule_of tab /\
    (forall c, pk_kind (rule_of c) = K_ATOM -> atom_ok rule_of tab c) /\
    (forall c, pk_kind (rule_of c) = K_UNION -> union_ok rule_of tab c) /\
    (forall c, pk_kind (rule_of c) = K_PRODUCT -> product_ok rule_of tab c) /\
    (forall c, c <> root -> pk_kind (rule_of c) = K_UNION -> fixed_honest rule_of tab c) /\
    pk_kind (rule_of root) = K_UNION /\
    pk_eps (rule_of root) = [path_dict (pars rule_of root) [[]]] /\
    pk_fixed (rule_of root) = [path_fixed [1] (path_dict (pars rule_of root) [[]])] /\
    ~ fixed_honest rule_of tab root /\
    pwf rule_of t root /\ (height t < fuel)%nat /\ dict_for rule_of root P (tpar rule_of t) /\
    pcnt tab root (ptsize rule_of t) (tpar rule_of t) = 2 /\
    (prob (tree_eqb t) (pspec_sample rule_of tab fuel root (ptsize rule_of t) P) == 0)%Q /\
    fst (fst (run (pspec_sample rule_of tab fuel root (ptsize rule_of t) P) [2])) = Err E_RUNTIME.
Proof. exact uniform_params_refuted. Qed.

(* count 0 (or less) => InvalidOperationError before any draw, with parameters *)
Theorem C08_reject_empty_params : forall rule_of tab fuel root n P v draws,
  pcount rule_of tab root n P = Ok v -> v <= 0 ->
  pspec_sample rule_of tab fuel root n P = Fail E_INVALID_OP /\
  run (pspec_sample rule_of tab fuel root n P) draws = (Err E_INVALID_OP, [], draws).
Proof. exact pspec_sample_reject. Qed.

(* ------------------------------------------------------------ 8. OBJECTS instead of parse trees *)
(* Sections 3 and 7 speak of parse trees.  The real sampler returns objects: the sub-samplers of
   Rule.random_sample_object_of_size return objects and on the way up it does
       objs = tuple(self.backward_map(subobjs)); return random.choice(objs)        (rule.py:542-543).
   `osample` (Count/ParseTrees.v) is the tree sampler `sample` with exactly that change; `choice l` is one
   draw of an index into the tuple l.  The C07 vocabulary supplies the objects: a specification
   spec : nat -> option (rule obj) with the rules' backward maps, atom c (the object of an atom), fwd c (the
   rules' forward maps), class membership In_cls, size, par, and the bijection contracts node_ok
   (C07_objects_are_parse_trees).  `describes`: the C08 descriptor rule_of (kinds, children, minimum sizes) and
   the C07 specification describe the same rules (union <-> RUnion, product <-> RProduct, atom <-> verification
   rule with an object of the minimum size).  Verification rules with several objects, Complement/Quotient
   (reverse rules) are in neither model. *)

(* meaning of `sim`: two random computations that make the same draws and whose results are R-related have
   R-compatible events of the same probability *)
Theorem C08_sim_prob : forall (A B : Type) (R : A -> B -> Prop) (P : A -> bool) (P' : B -> bool) m m',
  sim R m m' -> (forall a b, R a b -> P a = P' b) -> (prob P m == prob P' m')%Q.
Proof. intros. eapply sim_prob; eassumption. Qed.

(* the two notions of well-formed parse tree (C08's wf over the descriptor, twf over the C07 specification -
   and through Iso/ParseTreesIso.v C12's wf_tree) coincide, and so do the sizes computed on the trees *)
Theorem C08_wf_trees_coincide : forall (obj : Type) (size : obj -> Z) (spec : nat -> option (rule obj))
    (atom : nat -> option obj) (rule_of : nat -> cls),
  describes size spec atom rule_of ->
  forall t c, (wf rule_of t c <-> twf spec atom t c) /\
              (twf spec atom t c -> tsize rule_of t = tsz size atom t).
Proof. intros. split; [eapply wf_twf; eassumption|intros; eapply tsize_tsz; eassumption]. Qed.

(* THE COMPOSITION OF BACKWARD MAPS IS unparse: the object sampler runs in lock step with the tree sampler
   (same randint / choice calls with the same ranges, same exceptions) and whenever the tree sampler returns t
   the object sampler returns the object `unparse t`, t being a well-formed tree of the class; in particular
   every random.choice is over a one-element tuple *)
Theorem C08_sampler_is_unparse : forall (obj : Type) (size : obj -> Z) (In_cls : nat -> obj -> Prop)
    (par : nat -> obj -> params) (spec : nat -> option (rule obj)) (atom : nat -> option obj)
    (fwd : nat -> obj -> subobj obj) (rule_of : nat -> cls) (cnt : nat -> Z -> Z),
  describes size spec atom rule_of ->
  (forall c, node_ok size In_cls par spec atom fwd c) ->
  forall fuel root n,
    sim (fun t o => twf spec atom t root /\ unparse spec atom t = Some o)
        (spec_sample rule_of cnt fuel root n) (ospec_sample spec atom rule_of cnt fuel root n).
Proof. intros. eapply spec_sample_osample; eassumption. Qed.

(* C08_uniform ON OBJECTS: under the hypotheses of C08_uniform (the counts satisfy the get_terms recurrences,
   minimum_size_of_object / is_atom are honest) and of C07_objects_are_parse_trees (bijection contracts, closed,
   productive), the sampler that returns objects returns EVERY OBJECT o of the root class with probability
   exactly 1 / count(size of o), for every recursion budget above the height of o's parse tree *)
Theorem C08_uniform_objects : forall (obj : Type) (size : obj -> Z) (In_cls : nat -> obj -> Prop)
    (par : nat -> obj -> params) (spec : nat -> option (rule obj)) (atom : nat -> option obj)
    (fwd : nat -> obj -> subobj obj) (rule_of : nat -> cls) (cnt : nat -> Z -> Z) (rank : nat -> Z -> nat)
    (obj_eqb : obj -> obj -> bool),
  describes size spec atom rule_of ->
  (forall c, node_ok size In_cls par spec atom fwd c) ->
  (forall c r n c' m, spec c = Some r -> 0 <= n -> In (c', m) (reads r n) -> spec c' <> None) ->
  (forall c r n c' m, spec c = Some r -> 0 <= n -> In (c', m) (reads r n) ->
     0 <= m /\ (rank c' m < rank c n)%nat) ->
  (forall c o, In_cls c o -> 0 <= size o) ->
  (forall a b, obj_eqb a b = true <-> a = b) ->
  (forall c n, 0 <= cnt c n) ->
  (forall c, c_kind (rule_of c) = K_ATOM -> cnt c (cmin rule_of c) = 1) ->
  (forall c n, c_kind (rule_of c) = K_UNION ->
     cnt c n = py_sum (map (fun ci => cnt ci n) (c_kids (rule_of c)))) ->
  (forall c n, c_kind (rule_of c) = K_PRODUCT ->
     cnt c n = py_sum (map (prod_counts cnt (c_kids (rule_of c)))
                           (compositions n (zlen (c_kids (rule_of c)))
                                         (map (cmin rule_of) (c_kids (rule_of c)))
                                         (map (cmax rule_of) (c_kids (rule_of c)))))) ->
  (forall c, 0 <= cmin rule_of c) ->
  (forall c m, cnt c m <> 0 -> cmin rule_of c <= m /\ (c_atom (rule_of c) = true -> m <= cmin rule_of c)) ->
  (forall c, c_kind (rule_of c) = K_PRODUCT ->
     c_kids (rule_of c) <> [] /\ cmin rule_of c <= py_sum (map (cmin rule_of) (c_kids (rule_of c)))) ->
  forall root o, spec root <> None -> In_cls root o ->
  exists t, twf spec atom t root /\ unparse spec atom t = Some o /\
    forall fuel, (height t < fuel)%nat ->
      (prob (obj_eqb o) (ospec_sample spec atom rule_of cnt fuel root (size o))
       == 1 / inject_Z (cnt root (size o)))%Q.
Proof. intros. eapply uniform_objects; eauto. Qed.

(* ... and it returns nothing else: an event that no object of a well-formed tree of the root satisfies
   (an object of another class, for instance) has probability 0, for every size asked *)
Theorem C08_objects_support : forall (obj : Type) (size : obj -> Z) (In_cls : nat -> obj -> Prop)
    (par : nat -> obj -> params) (spec : nat -> option (rule obj)) (atom : nat -> option obj)
    (fwd : nat -> obj -> subobj obj) (rule_of : nat -> cls) (cnt : nat -> Z -> Z),
  describes size spec atom rule_of ->
  (forall c, node_ok size In_cls par spec atom fwd c) ->
  forall fuel root n (P : obj -> bool),
    (forall t o, twf spec atom t root -> unparse spec atom t = Some o -> P o = false) ->
    (prob P (ospec_sample spec atom rule_of cnt fuel root n) == 0)%Q.
Proof. intros. eapply osample_support; eassumption. Qed.

(* ... and WITH extra parameters.  opsample / opspec_sample (Count/ParseTreesParams.v) = psample / pspec_sample with
   the sub-samplers returning objects and random.choice over backward_map of the tuple.  `pdescribes`: the
   descriptor with parameters and the C07 specification describe the same rules; an atom's object has the minimum
   size and the minimum values; on tuples of the children's arities the parameter maps of the C07 rules are the
   dict_sem of the descriptor's dictionaries (for the library's constructors: C09_dictionary_maps). *)
Theorem C08_wf_trees_coincide_params : forall (obj : Type) (size : obj -> Z) (par : nat -> obj -> ObjectsModel.params)
    (spec : nat -> option (rule obj)) (atom : nat -> option obj) (rule_of : nat -> pcls) (tab : nat -> Z -> terms),
  pdescribes size par spec atom rule_of ->
  (forall c, pk_kind (rule_of c) = K_PRODUCT -> product_ok rule_of tab c) ->
  forall t c, (pwf rule_of t c <-> twf spec atom t c) /\
              (twf spec atom t c -> ptsize rule_of t = tsz size atom t /\ tpar rule_of t = tpr par spec atom t).
Proof. intros. split; [eapply pwf_twf; eassumption|intros; eapply tree_measures; eassumption]. Qed.

Theorem C08_sampler_is_unparse_params : forall (obj : Type) (size : obj -> Z) (In_cls : nat -> obj -> Prop)
    (par : nat -> obj -> ObjectsModel.params) (spec : nat -> option (rule obj)) (atom : nat -> option obj)
    (fwd : nat -> obj -> subobj obj) (rule_of : nat -> pcls) (tab : nat -> Z -> terms),
  pdescribes size par spec atom rule_of ->
  (forall c, node_ok size In_cls par spec atom fwd c) ->
  tables_ok rule_of tab ->
  (forall c, pk_kind (rule_of c) = K_PRODUCT -> product_ok rule_of tab c) ->
  forall fuel root n P,
    sim (fun t o => twf spec atom t root /\ unparse spec atom t = Some o)
        (pspec_sample rule_of tab fuel root n P) (opspec_sample spec atom rule_of tab fuel root n P).
Proof. intros. eapply pspec_sample_opsample; eassumption. Qed.

(* ------------------------------------------------------------ hypotheses DECIDED on the compared case
   For the cases built from a real parameter-free specification the harness sends, beside the C08 classes, the C07
   descriptors of the SAME specification under the same labels (harness/props/c07.py _rule_desc on world_of_spec);
   the extracted run_c08d (Count/ParseTreesSampleRun.v) answers the command (8 classes descs) with
   [describes_ok, rank_ok, closed_ok], recomputed by the harness.  Verdicts 1 give the hypotheses `describes`, the rank
   certificate and `closed` of C08_uniform_objects for spec = spec_of (map dec_rule descs), atom = atom_run descs,
   rule_of = nth c classes no_cls - for every size function that gives the listed atoms the size written in their
   descriptor (atom_sizes_ok).  node_ok (the strategies' bijection contracts) and the count recurrences stay hypotheses. *)
Theorem C08_describes_decided : forall (size : Z -> Z) descs cds,
  ParseTreesSampleDeciders.atom_sizes_ok size descs ->
  ParseTreesSampleDeciders.describesb descs cds = true ->
  describes size (ObjectsRun.spec_of (map ObjectsRun.dec_rule descs)) (ParseTreesRun.atom_run descs)
            (ParseTreesSampleDeciders.cls_at cds).
Proof. exact ParseTreesSampleDeciders.describesb_sound. Qed.

Theorem C08_uniform_objects_decided : forall (size : Z -> Z) (In_cls : nat -> Z -> Prop)
    (par : nat -> Z -> params) (fwd : nat -> Z -> subobj Z) descs cds (cnt : nat -> Z -> Z)
    (obj_eqb : Z -> Z -> bool),
  let spec := ObjectsRun.spec_of (map ObjectsRun.dec_rule descs) in
  let atom := ParseTreesRun.atom_run descs in
  let rule_of := ParseTreesSampleDeciders.cls_at cds in
  ParseTreesSampleDeciders.describesb descs cds = true ->
  Sx.sx_nth (ParseTreesRun.rank_verdict descs) 0 = Sx.I 1 ->
  Sx.sx_nth (ParseTreesRun.rank_verdict descs) 1 = Sx.I 1 ->
  ParseTreesSampleDeciders.atom_sizes_ok size descs ->
  (forall c, node_ok size In_cls par spec atom fwd c) ->
  (forall c o, In_cls c o -> 0 <= size o) ->
  (forall a b, obj_eqb a b = true <-> a = b) ->
  (forall c n, 0 <= cnt c n) ->
  (forall c, c_kind (rule_of c) = K_ATOM -> cnt c (cmin rule_of c) = 1) ->
  (forall c n, c_kind (rule_of c) = K_UNION ->
     cnt c n = py_sum (map (fun ci => cnt ci n) (c_kids (rule_of c)))) ->
  (forall c n, c_kind (rule_of c) = K_PRODUCT ->
     cnt c n = py_sum (map (prod_counts cnt (c_kids (rule_of c)))
                           (compositions n (zlen (c_kids (rule_of c)))
                                         (map (cmin rule_of) (c_kids (rule_of c)))
                                         (map (cmax rule_of) (c_kids (rule_of c)))))) ->
  (forall c, 0 <= cmin rule_of c) ->
  (forall c m, cnt c m <> 0 -> cmin rule_of c <= m /\ (c_atom (rule_of c) = true -> m <= cmin rule_of c)) ->
  (forall c, c_kind (rule_of c) = K_PRODUCT ->
     c_kids (rule_of c) <> [] /\ cmin rule_of c <= py_sum (map (cmin rule_of) (c_kids (rule_of c)))) ->
  forall root o, spec root <> None -> In_cls root o ->
  exists t, twf spec atom t root /\ unparse spec atom t = Some o /\
    forall fuel, (height t < fuel)%nat ->
      (prob (obj_eqb o) (ospec_sample spec atom rule_of cnt fuel root (size o))
       == 1 / inject_Z (cnt root (size o)))%Q.
Proof.
  intros size In_cls par fwd descs cds cnt obj_eqb spec atom rule_of Hd Hr Hc Hs Hn.
  destruct (ParseTreesRunSpec.rank_verdict_rank descs Hr) as (rank & Hrk & _).
  apply (C08_uniform_objects Z size In_cls par spec atom fwd rule_of cnt rank obj_eqb
           (C08_describes_decided size descs cds Hs Hd) Hn
           (ParseTreesRunSpec.rank_verdict_closed descs Hc) Hrk).
Qed.

(* C08_uniform_params ON OBJECTS: every object o of the root class, asked for with its size and its parameters
   (P = the **parameters dictionary holding the tuple par root o), is returned with probability exactly
   1 / count(root, size of o, parameters of o) *)
Theorem C08_uniform_objects_params : forall (obj : Type) (size : obj -> Z) (In_cls : nat -> obj -> Prop)
    (par : nat -> obj -> ObjectsModel.params) (spec : nat -> option (rule obj)) (atom : nat -> option obj)
    (fwd : nat -> obj -> subobj obj) (rule_of : nat -> pcls) (tab : nat -> Z -> terms) (rank : nat -> Z -> nat)
    (obj_eqb : obj -> obj -> bool),
  pdescribes size par spec atom rule_of ->
  (forall c, node_ok size In_cls par spec atom fwd c) ->
  (forall c r n c' m, spec c = Some r -> 0 <= n -> In (c', m) (reads r n) -> spec c' <> None) ->
  (forall c r n c' m, spec c = Some r -> 0 <= n -> In (c', m) (reads r n) ->
     0 <= m /\ (rank c' m < rank c n)%nat) ->
  (forall c o, In_cls c o -> 0 <= size o) ->
  (forall a b, obj_eqb a b = true <-> a = b) ->
  tables_ok rule_of tab -> contract_ok rule_of tab ->
  (forall c, pk_kind (rule_of c) = K_ATOM -> atom_ok rule_of tab c) ->
  (forall c, pk_kind (rule_of c) = K_UNION -> union_ok rule_of tab c) ->
  (forall c, pk_kind (rule_of c) = K_PRODUCT -> product_ok rule_of tab c) ->
  (forall c, pk_kind (rule_of c) = K_UNION -> fixed_honest rule_of tab c) ->
  forall root o P, spec root <> None -> In_cls root o -> dict_for rule_of root P (par root o) ->
  exists t, twf spec atom t root /\ unparse spec atom t = Some o /\
    forall fuel, (height t < fuel)%nat ->
      (prob (obj_eqb o) (opspec_sample spec atom rule_of tab fuel root (size o) P)
       == 1 / inject_Z (pcnt tab root (size o) (par root o)))%Q.
Proof. intros. eapply uniform_objects_params; eauto. Qed.

(* ------------------------------------------------------------ non-vacuity *)
(* All words over {a, b}:  0 = eps + a.0 + b.0  (classes: 1 = eps, 2 = a.0, 3 = a, 4 = b.0, 5 = b) *)
Module Ex.
  Definition mk k m a ks : cls := {| c_kind := k; c_min := m; c_atom := a; c_kids := ks |}.
  Definition table : list cls :=
    [mk K_UNION 0 false [1; 2; 4]%nat; mk K_ATOM 0 true []; mk K_PRODUCT 1 false [3; 0]%nat;
     mk K_ATOM 1 true []; mk K_PRODUCT 1 false [5; 0]%nat; mk K_ATOM 1 true []].
  Definition rule_of (c : nat) : cls := nth c table (mk K_EMPTY 0 false []).
  Definition cnt (c : nat) (n : Z) : Z :=
    match c with
    | 0%nat => if n <? 0 then 0 else 2 ^ n
    | 1%nat => if n =? 0 then 1 else 0
    | 2%nat | 4%nat => if n <? 1 then 0 else 2 ^ (n - 1)
    | 3%nat | 5%nat => if n =? 1 then 1 else 0
    | _ => 0
    end.

  (* "ab" *)
  Definition t_ab : tree :=
    UNode 0 1 (PNode 2 [Leaf 3; UNode 0 2 (PNode 4 [Leaf 5; UNode 0 0 (Leaf 1)])]).

  Lemma comps_1_0 n : compositions n 2 [1; 0] [Some 1; None] = if 1 <=? n then [[1; n - 1]] else [].
  Proof.
    set (L := compositions n 2 [1; 0] [Some 1; None]).
    assert (Hmem : forall t, In t L -> t = [1; n - 1] /\ 1 <= n).
    { intros t Ht. apply compositions_sound in Ht; [|reflexivity|reflexivity].
      destruct Ht as (Hz & Hs & Hle & Hb).
      inversion Hle as [|? a ? t1 Ha Hle1]; subst. inversion Hle1 as [|? b ? t2 Hb1 Hle2]; subst.
      inversion Hle2; subst.
      inversion Hb as [|? ? ? ? Hba Hb']; subst. simpl in Hba.
      rewrite !py_sum_cons in *. unfold py_sum. simpl. split; [|lia].
      f_equal; [lia|]. f_equal. lia. }
    assert (Hnd : NoDup L) by apply compositions_nodup.
    destruct (1 <=? n) eqn:E.
    - apply Z.leb_le in E.
      assert (Hin : In [1; n - 1] L).
      { apply compositions_complete; [lia|constructor; [lia|constructor; [lia|constructor]]|].
        split; [reflexivity|]. split; [unfold py_sum; cbn [fold_right]; lia|]. split.
        - constructor; [lia|]. constructor; [lia|]. constructor.
        - constructor; [simpl; lia|]. constructor; [exact I|]. constructor. }
      destruct L as [|x [|y L']]; [destruct Hin| |].
      + destruct (Hmem x (or_introl eq_refl)) as [-> _]. reflexivity.
      + exfalso. destruct (Hmem x (or_introl eq_refl)) as [-> _].
        destruct (Hmem y (or_intror (or_introl eq_refl))) as [-> _].
        inversion Hnd as [|? ? Hx _]. apply Hx. left; reflexivity.
    - apply Z.leb_gt in E. destruct L as [|x L']; [reflexivity|].
      destruct (Hmem x (or_introl eq_refl)). lia.
  Qed.

  Lemma pow_step n : 1 <= n -> 2 ^ n = 2 ^ (n - 1) + 2 ^ (n - 1).
  Proof. intros H. replace n with (Z.succ (n - 1)) at 1 by lia. rewrite Z.pow_succ_r by lia. lia. Qed.

  Lemma pow_nonneg n : 0 <= 2 ^ n.
  Proof. apply Z.pow_nonneg. lia. Qed.

  Lemma pow_pos n : 0 <= n -> 2 ^ n <> 0.
  Proof. intros H. pose proof (Z.pow_pos_nonneg 2 n ltac:(lia) H). lia. Qed.

  Ltac cases c := destruct c as [|[|[|[|[|[|c]]]]]].

  Lemma product_rec c n (a : nat) : (c = 2%nat /\ a = 3%nat) \/ (c = 4%nat /\ a = 5%nat) ->
    cnt c n = py_sum (map (prod_counts cnt [a; 0%nat]) (compositions n 2 [1; 0] [Some 1; None])).
  Proof.
    intros H. rewrite comps_1_0.
    assert (E : cnt c n = if n <? 1 then 0 else 2 ^ (n - 1)) by (destruct H as [[-> _]|[-> _]]; reflexivity).
    assert (Ea : forall m, cnt a m = if m =? 1 then 1 else 0) by (destruct H as [[_ ->]|[_ ->]]; reflexivity).
    rewrite E. destruct (1 <=? n) eqn:E1.
    - apply Z.leb_le in E1. destruct (n <? 1) eqn:E2; [apply Z.ltb_lt in E2; lia|].
      unfold py_sum, prod_counts, prodz. cbn [map fold_right combine fst snd]. rewrite Ea.
      change (cnt 0 (n - 1)) with (if n - 1 <? 0 then 0 else 2 ^ (n - 1)). rewrite Z.eqb_refl.
      destruct (n - 1 <? 0) eqn:E3; [apply Z.ltb_lt in E3; lia|]. ring.
    - apply Z.leb_gt in E1. destruct (n <? 1) eqn:E2; [reflexivity|apply Z.ltb_ge in E2; lia].
  Qed.

  Example hypotheses_hold :
    (forall c n, 0 <= cnt c n) /\
    (forall c, c_kind (rule_of c) = K_ATOM -> cnt c (cmin rule_of c) = 1) /\
    (forall c n, c_kind (rule_of c) = K_UNION ->
       cnt c n = py_sum (map (fun ci => cnt ci n) (c_kids (rule_of c)))) /\
    (forall c n, c_kind (rule_of c) = K_PRODUCT ->
       cnt c n = py_sum (map (prod_counts cnt (c_kids (rule_of c)))
                             (compositions n (zlen (c_kids (rule_of c)))
                                           (map (cmin rule_of) (c_kids (rule_of c)))
                                           (map (cmax rule_of) (c_kids (rule_of c)))))) /\
    (forall c, 0 <= cmin rule_of c) /\
    (forall c m, cnt c m <> 0 -> cmin rule_of c <= m /\ (c_atom (rule_of c) = true -> m <= cmin rule_of c)) /\
    (forall c, c_kind (rule_of c) = K_PRODUCT ->
       c_kids (rule_of c) <> [] /\ cmin rule_of c <= py_sum (map (cmin rule_of) (c_kids (rule_of c)))) /\
    wf rule_of t_ab 0 /\ tsize rule_of t_ab = 2 /\ cnt 0 2 = 4.
  Proof.
    split; [|split; [|split; [|split; [|split; [|split; [|split; [|split; [|split]]]]]]]].
    - intros c n. cases c; simpl;
        repeat match goal with |- context [if ?b then _ else _] => destruct b end; try lia; apply pow_nonneg.
    - intros c. cases c; simpl; intros H; try discriminate H; try reflexivity.
      destruct c as [|[|c]]; discriminate H.
    - intros c n. cases c; simpl; intros H; try discriminate H.
      + unfold py_sum. cbn [fold_right].
        destruct (Z.ltb_spec n 0) as [E0|E0]; destruct (Z.eqb_spec n 0) as [E1|E1];
          destruct (Z.ltb_spec n 1) as [E2|E2]; try lia.
        * subst n. reflexivity.
        * rewrite (pow_step n) by lia. ring.
      + destruct c as [|[|c]]; discriminate H.
    - intros c n. cases c; simpl; intros H; try discriminate H.
      + apply (product_rec 2 n 3). left; split; reflexivity.
      + apply (product_rec 4 n 5). right; split; reflexivity.
      + destruct c as [|[|c]]; discriminate H.
    - intros c. cases c; unfold cmin; simpl; try lia. destruct c as [|[|c]]; simpl; lia.
    - intros c m. cases c; unfold cmin; simpl; intros H.
      + destruct (m <? 0) eqn:E; [congruence|apply Z.ltb_ge in E]. split; [lia|discriminate].
      + destruct (m =? 0) eqn:E; [apply Z.eqb_eq in E|congruence]. split; [lia|intros _; lia].
      + destruct (m <? 1) eqn:E; [congruence|apply Z.ltb_ge in E]. split; [lia|discriminate].
      + destruct (m =? 1) eqn:E; [apply Z.eqb_eq in E|congruence]. split; [lia|intros _; lia].
      + destruct (m <? 1) eqn:E; [congruence|apply Z.ltb_ge in E]. split; [lia|discriminate].
      + destruct (m =? 1) eqn:E; [apply Z.eqb_eq in E|congruence]. split; [lia|intros _; lia].
      + congruence.
    - intros c. cases c; unfold cmin; simpl; intros H; try discriminate H.
      + split; [discriminate|unfold py_sum; simpl; lia].
      + split; [discriminate|unfold py_sum; simpl; lia].
      + destruct c as [|[|c]]; discriminate H.
    - cbv.
      repeat match goal with
             | |- _ /\ _ => split
             | |- exists _, _ => eexists
             | |- True => exact I
             | |- _ = _ => reflexivity
             end.
    - reflexivity.
    - reflexivity.
  Qed.

  (* the hypotheses of C08_uniform_true_counts are satisfiable: the same specification with its forest
     keys (the product a.0 reads class 0 with shift 1), U = T = cnt *)
  Definition keys : list fkey :=
    [mkkey 0 [(1%nat, 0); (2%nat, 0); (4%nat, 0)]; mkkey 1 []; mkkey 2 [(3%nat, 0); (0%nat, 1)]; mkkey 3 [];
     mkkey 4 [(5%nat, 0); (0%nat, 1)]; mkkey 5 []].

  Lemma root_pumps : pumps keys 0.
  Proof.
    assert (A : forall c v, (c = 1 \/ c = 3 \/ c = 5)%nat -> derivable keys c v).
    { intros c v [ -> | [ -> | -> ] ].
      - apply (der_rule keys (mkkey 1 []) v); [simpl; tauto|intros c s []].
      - apply (der_rule keys (mkkey 3 []) v); [simpl; tauto|intros c s []].
      - apply (der_rule keys (mkkey 5 []) v); [simpl; tauto|intros c s []]. }
    assert (G : forall n v, v <= Z.of_nat n -> derivable keys 0 v).
    { induction n as [|n IH]; intros v Hv; [apply der_zero; lia|].
      destruct (Z_le_gt_dec v 0) as [H0|H0]; [apply der_zero; exact H0|].
      apply (der_rule keys (mkkey 0 [(1%nat, 0); (2%nat, 0); (4%nat, 0)]) v); [simpl; tauto|].
      intros c s [E|[E|[E|[]]]]; injection E as <- <-.
      - apply A. tauto.
      - apply (der_rule keys (mkkey 2 [(3%nat, 0); (0%nat, 1)]) (v - 0)); [simpl; tauto|].
        intros c s [E|[E|[]]]; injection E as <- <-; [apply A; tauto|apply IH; lia].
      - apply (der_rule keys (mkkey 4 [(5%nat, 0); (0%nat, 1)]) (v - 0)); [simpl; tauto|].
        intros c s [E|[E|[]]]; injection E as <- <-; [apply A; tauto|apply IH; lia]. }
    intros v. apply (G (Z.to_nat v)). lia.
  Qed.

  Example true_counts_hypotheses_hold :
    (forall c, c_kind (rule_of c) = K_ATOM -> c_atom (rule_of c) = true) /\
    (forall c m, m < 0 -> cnt c m = 0) /\
    (forall c r, c08_rule rule_of c = Some r -> genuine Z cnt c r) /\
    (forall k, In k keys -> exists r, c08_rule rule_of (parent k) = Some r /\ kids k = r_kids Z r) /\
    pumps keys 0.
  Proof.
    destruct hypotheses_hold as (H1 & H2 & H3 & H4 & H5 & H6 & H7 & _).
    assert (Hat : forall c, c_kind (rule_of c) = K_ATOM -> c_atom (rule_of c) = true).
    { intros c. cases c; simpl; intros H; try discriminate H; try reflexivity. destruct c as [|[|c]]; discriminate H. }
    split; [exact Hat|]. split.
    - intros c m Hm. destruct (Z.eq_dec (cnt c m) 0) as [E|E]; [exact E|].
      destruct (H6 c m E) as [X _]. pose proof (H5 c). lia.
    - split; [|split; [|exact root_pumps]].
      + intros c r Hr n Hn. apply (U_satisfies rule_of cnt H2 H3 H4 H6 Hat c r n Hr Hn).
      + intros k Hk. simpl in Hk.
        destruct Hk as [<-|[<-|[<-|[<-|[<-|[<-|[]]]]]]]; eexists; (split; [reflexivity|reflexivity]).
  Qed.

  (* the theorem's conclusion on this instance, also computed directly from the definitions *)
  Example ab_has_probability_one_quarter :
    (prob (tree_eqb t_ab) (spec_sample rule_of cnt 10 0 2) == 1 / inject_Z 4)%Q.
  Proof. vm_compute. reflexivity. Qed.

  (* the threshold walk on weights 2, 0 (skipped), 3: r = 1,2 -> branch 0; r = 3,4,5 -> branch 2; 6 raises *)
  Example walk_2_skip_3 :
    let weight := fun b : Z => if b =? 0 then Ok None else Ok (Some b) in
    map (fun r => walk weight r 0 0%nat [2; 0; 3]) [1; 2; 3; 4; 5; 6]
    = [Ok (0%nat, 2); Ok (0%nat, 2); Ok (2%nat, 3); Ok (2%nat, 3); Ok (2%nat, 3); Err E_RUNTIME].
  Proof. reflexivity. Qed.

  (* two children with minimum sizes 1 and 0, the first an atom: the splits of n = 3 *)
  Example valid_comps_example :
    valid_comps 1 [1] [[1]; [0]] [[Some 1]; [None]] [3] = [[[1]; [2]]].
  Proof. reflexivity. Qed.

  (* one extra parameter mapped to both children (d = 2): (n, k) = (2, 1) over boxes
     child 0: size 0..2, k 0..1;  child 1: size 0..2, k 0..1 *)
  Example valid_comps_params :
    valid_comps 2 [0; 0] [[0; 0]; [0; 0]] [[None; None]; [None; None]] [2; 1]
    = [[[0; 0]; [2; 1]]; [[0; 1]; [2; 0]]; [[1; 0]; [1; 1]]; [[1; 1]; [1; 0]]; [[2; 0]; [0; 1]]; [[2; 1]; [0; 0]]].
  Proof. reflexivity. Qed.
End Ex.

(* ------------------------------------------------------------ non-vacuity, on objects *)
(* the specification of Module Ex with its OBJECTS, the words over {a, b} (Count/ParseTreesExample.v: wab_*;
   a = false, b = true): every hypothesis of C08_uniform_objects holds, "ab" as an OBJECT has probability 1/4,
   and the model computes it *)
Module ExObj.
  Lemma ex_describes : describes wab_size wab_spec wab_atomo Ex.rule_of.
  Proof.
    intros c. destruct c as [|[|[|[|[|[|c]]]]]].
    7:{ assert (E : Ex.rule_of (S (S (S (S (S (S c)))))) = Ex.mk K_EMPTY 0 false [])
          by (unfold Ex.rule_of; simpl; destruct c; reflexivity).
        rewrite E. simpl. split; [reflexivity|]. split; [reflexivity|]. intros a Hk. discriminate Hk. }
    all: simpl; (split; [reflexivity|split; [reflexivity|]]);
      intros a Hk Ha; try discriminate Hk; inversion Ha; subst; reflexivity.
  Qed.

  Example uniform_objects_hypotheses_hold :
    forall o, wab_in 0%nat o ->
    exists t, twf wab_spec wab_atomo t 0%nat /\ unparse wab_spec wab_atomo t = Some o /\
      forall fuel, (height t < fuel)%nat ->
        (prob (wab_eqb o) (ospec_sample wab_spec wab_atomo Ex.rule_of Ex.cnt fuel 0%nat (wab_size o))
         == 1 / inject_Z (Ex.cnt 0%nat (wab_size o)))%Q.
  Proof.
    destruct Ex.hypotheses_hold as (H1 & H2 & H3 & H4 & H5 & H6 & H7 & _).
    intros o Ho.
    exact (C08_uniform_objects (list bool) wab_size wab_in wab_par wab_spec wab_atomo wab_fwd Ex.rule_of Ex.cnt wab_rank
             wab_eqb ex_describes wab_node_ok wab_closed wab_rank_reads wab_size_nonneg wab_eqb_eq
             H1 H2 H3 H4 H5 H6 H7 0%nat o ltac:(discriminate) Ho).
  Qed.

  Example ab_object_has_probability_one_quarter :
    (prob (wab_eqb [false; true]) (ospec_sample wab_spec wab_atomo Ex.rule_of Ex.cnt 10 0%nat 2) == 1 / inject_Z 4)%Q /\
    unparse wab_spec wab_atomo Ex.t_ab = Some [false; true] /\
    parse wab_spec wab_atomo wab_fwd 10 0%nat [false; true] = Some Ex.t_ab.
  Proof. vm_compute. repeat split; reflexivity. Qed.

  Example wf_trees_coincide_nonvacuous :
    twf wab_spec wab_atomo Ex.t_ab 0%nat /\ tsz wab_size wab_atomo Ex.t_ab = 2.
  Proof.
    destruct Ex.hypotheses_hold as (_ & _ & _ & _ & _ & _ & _ & Hwf & Hsz & _).
    destruct (C08_wf_trees_coincide (list bool) wab_size wab_spec wab_atomo Ex.rule_of ex_describes Ex.t_ab 0%nat) as [A B].
    pose proof (proj1 A Hwf) as Hw. split; [exact Hw|]. rewrite <- (B Hw). exact Hsz.
  Qed.

  Example sampler_is_unparse_nonvacuous :
    sim (fun t o => twf wab_spec wab_atomo t 0%nat /\ unparse wab_spec wab_atomo t = Some o)
        (spec_sample Ex.rule_of Ex.cnt 10 0%nat 2) (ospec_sample wab_spec wab_atomo Ex.rule_of Ex.cnt 10 0%nat 2).
  Proof.
    exact (C08_sampler_is_unparse (list bool) wab_size wab_in wab_par wab_spec wab_atomo wab_fwd Ex.rule_of Ex.cnt
             ex_describes wab_node_ok 10%nat 0%nat 2).
  Qed.

  (* the empty word is not of size 2: never returned when size 2 is asked; computed as well *)
  Example objects_support_nonvacuous :
    (prob (fun o => negb (Z.eqb (wab_size o) 2)) (ospec_sample wab_spec wab_atomo Ex.rule_of Ex.cnt 10 0%nat 2) == 0)%Q.
  Proof. vm_compute. reflexivity. Qed.
End ExObj.


(* ------------------------------------------------------------ non-vacuity, with parameters *)
(* All words over {a, b} with the statistic k = number of a's (Count/SampleParamsExample.v):
   S = eps + a.S + b.S, count(S, n, k) = binomial(n, k).  Every hypothesis of C08_uniform_params holds. *)
Module ExParams.
  Example hypotheses_hold :
    tables_ok (ex_rule false) ex_tab /\ contract_ok (ex_rule false) ex_tab /\
    (forall c, pk_kind (ex_rule false c) = K_ATOM -> atom_ok (ex_rule false) ex_tab c) /\
    (forall c, pk_kind (ex_rule false c) = K_UNION -> union_ok (ex_rule false) ex_tab c) /\
    (forall c, pk_kind (ex_rule false c) = K_PRODUCT -> product_ok (ex_rule false) ex_tab c) /\
    (forall c, pk_kind (ex_rule false c) = K_UNION -> fixed_honest (ex_rule false) ex_tab c) /\
    pwf (ex_rule false) t_ab 0 /\ ptsize (ex_rule false) t_ab = 2 /\ tpar (ex_rule false) t_ab = [1] /\
    pcnt ex_tab 0 2 [1] = 2 /\ dict_for (ex_rule false) 0 P_k1 [1].
  Proof. exact ex_hypotheses_hold. Qed.

  (* the theorem applied: "ab" among the 2 words of length 2 with one a *)
  Example ab_by_theorem :
    (prob (tree_eqb t_ab) (pspec_sample (ex_rule false) ex_tab 10 0 2 P_k1) == 1 / inject_Z 2)%Q.
  Proof.
    destruct hypotheses_hold as (H1 & H2 & H3 & H4 & H5 & H6 & W & S & T & C & D).
    pose proof (C08_uniform_params (ex_rule false) ex_tab H1 H2 H3 H4 H5 H6 t_ab 0%nat 10%nat P_k1 W) as X.
    rewrite S, T, C in X. apply X; [simpl; lia|exact D].
  Qed.

  (* ... and computed directly from the definitions *)
  Example ab_by_computation :
    (prob (tree_eqb t_ab) (pspec_sample (ex_rule false) ex_tab 10 0 2 P_k1) == 1 / inject_Z 2)%Q.
  Proof. exact ex_good_probability. Qed.

  Example arity_holds : arity_ok (ex_rule false) ex_tab.
  Proof. exact (ex_arity_ok false). Qed.

  (* the refuted variant: "b" with probability 1/2, "a" never *)
  Example bad_root_probabilities :
    (prob (tree_eqb t_a_root) (pspec_sample (ex_rule true) ex_tab 10 6 1 []) == 0)%Q /\
    (prob (tree_eqb t_b_root) (pspec_sample (ex_rule true) ex_tab 10 6 1 []) == 1 / inject_Z 2)%Q.
  Proof. destruct ex_bad_probabilities as (A & B & _). split; assumption. Qed.
End ExParams.

(* ------------------------------------------------------------ non-vacuity, on objects with a parameter *)
(* the specification of Module ExParams with its OBJECTS (Count/ParseTreesExampleParams.v: the words over {a, b},
   a = false, parameter = number of a's): every hypothesis of C08_uniform_objects_params holds; "ab" as an object is
   one of the 2 words of length 2 with one a *)
Module ExObjParams.
  Example uniform_objects_params_hypotheses_hold :
    forall o P, wab_in 0%nat o -> dict_for (ex_rule false) 0%nat P (wabk_par 0%nat o) ->
    exists t, twf wabk_spec wab_atomo t 0%nat /\ unparse wabk_spec wab_atomo t = Some o /\
      forall fuel, (height t < fuel)%nat ->
        (prob (wab_eqb o) (opspec_sample wabk_spec wab_atomo (ex_rule false) ex_tab fuel 0%nat (wab_size o) P)
         == 1 / inject_Z (pcnt ex_tab 0%nat (wab_size o) (wabk_par 0%nat o)))%Q.
  Proof.
    destruct ExParams.hypotheses_hold as (H1 & H2 & H3 & H4 & H5 & H6 & _).
    intros o P Ho HP.
    exact (C08_uniform_objects_params (list bool) wab_size wab_in wabk_par wabk_spec wab_atomo wab_fwd (ex_rule false)
             ex_tab wab_rank wab_eqb wabk_pdescribes wabk_node_ok wabk_closed wabk_rank_reads wab_size_nonneg
             wab_eqb_eq H1 H2 H3 H4 H5 H6 0%nat o P ltac:(discriminate) Ho HP).
  Qed.

  Example ab_object_by_theorem :
    (prob (wab_eqb [false; true]) (opspec_sample wabk_spec wab_atomo (ex_rule false) ex_tab 10 0%nat 2 P_k1)
     == 1 / inject_Z 2)%Q.
  Proof.
    destruct ExParams.hypotheses_hold as (_ & _ & _ & _ & _ & _ & _ & _ & _ & C & D).
    destruct (uniform_objects_params_hypotheses_hold [false; true] P_k1 I D) as (t & Hw & Hu & Hp).
    assert (Et : t = t_ab).
    { assert (Hw' : twf wabk_spec wab_atomo t_ab 0%nat).
      { apply (proj1 (C08_wf_trees_coincide_params (list bool) wab_size wabk_par wabk_spec wab_atomo (ex_rule false) ex_tab
                        wabk_pdescribes (proj1 (proj2 (proj2 (proj2 (proj2 ExParams.hypotheses_hold))))) t_ab 0%nat)).
        exact (proj1 (proj2 (proj2 (proj2 (proj2 (proj2 (proj2 ExParams.hypotheses_hold))))))). }
      eapply (unparse_inj wab_size wab_in wabk_par wabk_spec wab_atomo wab_fwd wabk_node_ok); try eassumption.
      vm_compute. reflexivity. }
    subst t. specialize (Hp 10%nat ltac:(vm_compute; lia)).
    change (wab_size [false; true]) with 2 in Hp. change (wabk_par 0%nat [false; true]) with [1] in Hp.
    rewrite C in Hp. exact Hp.
  Qed.

  Example sampler_is_unparse_params_nonvacuous :
    sim (fun t o => twf wabk_spec wab_atomo t 0%nat /\ unparse wabk_spec wab_atomo t = Some o)
        (pspec_sample (ex_rule false) ex_tab 10 0%nat 2 P_k1)
        (opspec_sample wabk_spec wab_atomo (ex_rule false) ex_tab 10 0%nat 2 P_k1).
  Proof.
    destruct ExParams.hypotheses_hold as (H1 & _ & _ & _ & H5 & _).
    exact (C08_sampler_is_unparse_params (list bool) wab_size wab_in wabk_par wabk_spec wab_atomo wab_fwd (ex_rule false)
             ex_tab wabk_pdescribes wabk_node_ok H1 H5 10%nat 0%nat 2 P_k1).
  Qed.
End ExObjParams.

(* ... and with dictionaries that MERGE and DROP statistics (Count/SampleParamsExample2.v): class 7 =
   the same words with statistics (k1, k2, k3) = (#a, #a, #c), a unary union to class 0 with the
   dictionary {k1: k, k2: k} (k3 is not a key: `zeroes`).  Every hypothesis holds again. *)
Module ExMerge.
  Example hypotheses_hold :
    tables_ok ex2_rule ex2_tab /\ contract_ok ex2_rule ex2_tab /\ arity_ok ex2_rule ex2_tab /\
    (forall c, pk_kind (ex2_rule c) = K_ATOM -> atom_ok ex2_rule ex2_tab c) /\
    (forall c, pk_kind (ex2_rule c) = K_UNION -> union_ok ex2_rule ex2_tab c) /\
    (forall c, pk_kind (ex2_rule c) = K_PRODUCT -> product_ok ex2_rule ex2_tab c) /\
    (forall c, pk_kind (ex2_rule c) = K_UNION -> fixed_honest ex2_rule ex2_tab c) /\
    pk_eps (ex2_rule 7) = [[(1, 1); (2, 1)]] /\ pk_params (ex2_rule 7) = [1; 2; 3] /\
    pwf ex2_rule t7_ab 7 /\ ptsize ex2_rule t7_ab = 2 /\ tpar ex2_rule t7_ab = [1; 1; 0] /\
    pcnt ex2_tab 7 2 [1; 1; 0] = 2 /\ dict_for ex2_rule 7 P7 [1; 1; 0].
  Proof.
    destruct ex2_tree as (W & S & T & C & D).
    split; [exact ex2_tables_ok|]. split; [exact ex2_contract_ok|]. split; [exact ex2_arity_ok|].
    split; [exact ex2_atoms_ok|]. split; [exact ex2_unions_ok|]. split; [exact ex2_products_ok|].
    split; [exact ex2_honest|]. repeat (split; [reflexivity|]). tauto.
  Qed.

  Example merged_by_theorem :
    (prob (tree_eqb t7_ab) (pspec_sample ex2_rule ex2_tab 12 7 2 P7) == 1 / inject_Z 2)%Q.
  Proof.
    destruct hypotheses_hold as (H1 & H2 & _ & H3 & H4 & H5 & H6 & _ & _ & W & S & T & C & D).
    pose proof (C08_uniform_params ex2_rule ex2_tab H1 H2 H3 H4 H5 H6 t7_ab 7%nat 12%nat P7 W) as X.
    rewrite S, T, C in X. apply X; [simpl; lia|exact D].
  Qed.

  (* computed from the definitions: the same probability; k1 <> k2 (contradiction) or k3 <> 0 (zeroes):
     the only child is skipped, the count is 0 and the sampler refuses before drawing *)
  Example merged_by_computation :
    (prob (tree_eqb t7_ab) (pspec_sample ex2_rule ex2_tab 12 7 2 P7) == 1 / inject_Z 2)%Q /\
    pspec_sample ex2_rule ex2_tab 12 7 2 P7_contra = Fail E_INVALID_OP /\
    pspec_sample ex2_rule ex2_tab 12 7 2 P7_zero = Fail E_INVALID_OP /\
    union_extra [D7] [[]] P7_contra = Ok [None] /\
    union_zero_skip (union_zeroes [1; 2; 3] D7) P7_zero = true.
  Proof. destruct ex2_computed as (A & B & C & D & E & _). repeat split; assumption. Qed.
End ExMerge.

(* ------------------------------------------------------------ NON-VACUITY (audit) *)
(* Every theorem above APPLIED to a concrete non-trivial instance, all its hypotheses discharged at once
   (`<theorem>_nonvacuous`); `..._value` / `..._picks` examples compute the witness or branch really taken.
   C08_uniform_params_refuted is a closed existential (its witness is checked in ExParams above). *)

(* ---- 1. the threshold lemma: weights 2, skipped, 3 *)
Definition w3 (b : Z) : res (option Z) := if b =? 0 then Ok None else Ok (Some b).
Lemma w3_ok : weights_ok w3 [2; 0; 3].
Proof.
  intros b [<-|[<-|[<-|[]]]]; eexists; (split; [reflexivity|]); intros w E; try discriminate E;
    injection E as <-; lia.
Qed.

(* covers C08_threshold: branch 2 (weight 3) is picked by exactly 3 of the draws 1..5, the draw 4
   returns, the draw 6 raises (Ex.walk_2_skip_3 shows which branch every draw takes) *)
Example C08_threshold_nonvacuous :
  Z.of_nat (length (filter (fun r => picks 2 (walk w3 r 0 0%nat [2; 0; 3])) (py_range 1 (5 + 1)))) = 3 /\
  (exists j b, walk w3 4 0 0%nat [2; 0; 3] = Ok (j, b) /\ nth_error [2; 0; 3] j = Some b) /\
  walk w3 6 0 0%nat [2; 0; 3] = Err E_RUNTIME.
Proof.
  destruct (C08_threshold Z w3 [2; 0; 3] w3_ok) as (A & B & C).
  split; [exact (A 2%nat 3 eq_refl)|]. split; [apply B|apply C]; change (total_weight w3 [2; 0; 3]) with 5; lia.
Qed.

(* covers C08_threshold_interval: both directions, on the draw 4 (interval (2, 5] of branch 2) and
   on the draw 2 which is NOT in that interval *)
Example C08_threshold_interval_nonvacuous :
  walk w3 4 0 0%nat [2; 0; 3] = Ok (2%nat, 3) /\ walk w3 2 0 0%nat [2; 0; 3] <> Ok (2%nat, 3).
Proof.
  split.
  - apply (C08_threshold_interval Z w3 [2; 0; 3] 4 2%nat 3 w3_ok ltac:(lia)).
    split; [reflexivity|]. change (presum w3 [2; 0; 3] 2) with 2. change (presum w3 [2; 0; 3] 3) with 5. lia.
  - intros H. apply (C08_threshold_interval Z w3 [2; 0; 3] 2 2%nat 3 w3_ok ltac:(lia)) in H.
    destruct H as [_ H]. change (presum w3 [2; 0; 3] 2) with 2 in H. lia.
Qed.

(* ---- the union rule  S = eps + a.S + b.S  of Count/SampleParamsExample.v asked for size 3 with
   k = 1 (one a): children as the constructor sees them *)
Definition u_kids : list child := map (kid_at (ex_rule false) ex_tab 3) [1; 2; 4]%nat.
Definition u_eps : list dict := [K1; K1; K1].
Definition u_fixed : list dict := [[]; []; []].
Definition u_extra : list (option dict) := [Some [(1, 1)]; Some [(1, 1)]; Some [(1, 1)]].
Definition u_bs : list ubranch := union_branches [1] u_kids u_eps u_extra.
Lemma u_extra_eq : union_extra u_eps u_fixed P_k1 = Ok u_extra.
Proof. reflexivity. Qed.

(* covers C08_union_weights_ok *)
Example C08_union_weights_ok_nonvacuous : weights_ok (union_weight 3 P_k1) u_bs.
Proof.
  apply C08_union_weights_ok.
  - intros b Hb. vm_compute in Hb. destruct Hb as [<-|[<-|[<-|[]]]]; unfold table_nonneg; simpl;
      repeat (constructor; [simpl; lia|]); constructor.
  - intros b q Hb. vm_compute in Hb. destruct Hb as [<-|[<-|[<-|[]]]]; simpl; intros E _; injection E as <-;
      discriminate.
Qed.

(* covers C08_threshold_union: the weights are 0 (eps has no word of size 3), 1 (a.S: "abb") and
   2 (b.S: "bab", "bba"); the total is the count 3 *)
Example C08_threshold_union_nonvacuous :
  Z.of_nat (length (filter (fun r => upicks 2 (union_pick [1] u_kids u_eps u_fixed 3 P_k1 r)) (py_range 1 (3 + 1)))) = 2 /\
  (exists j t, union_pick [1] u_kids u_eps u_fixed 3 P_k1 2 = Ok (Z.of_nat j, t) /\ (j < 3)%nat) /\
  union_pick [1] u_kids u_eps u_fixed 3 P_k1 4 = Err E_RUNTIME.
Proof.
  destruct (C08_threshold_union [1] u_kids u_eps u_fixed 3 P_k1 u_extra u_extra_eq
              C08_union_weights_ok_nonvacuous) as (A & B & C).
  change (total_weight (union_weight 3 P_k1) (union_branches [1] u_kids u_eps u_extra)) with 3 in *.
  change (length (union_branches [1] u_kids u_eps u_extra)) with 3%nat in *.
  split; [|split; [apply B; lia|apply C; lia]].
  exact (A 2%nat (nth 2 u_bs (Build_ubranch (Build_child [] []) None [])) eq_refl).
Qed.
Example C08_threshold_union_picks :
  map (union_pick [1] u_kids u_eps u_fixed 3 P_k1) [1; 2; 3; 4]
  = [Ok (1, [1]); Ok (2, [1]); Ok (2, [1]); Err E_RUNTIME].
Proof. vm_compute. reflexivity. Qed.

(* covers C08_pick_dict_union *)
Example C08_pick_dict_union_nonvacuous :
  upicks 2 (union_pick [1] u_kids u_eps u_fixed 3 P_k1 2)
  = dpicks 2 (union_pick_dict [1] u_kids u_eps u_fixed 3 P_k1 2) /\
  dpicks 2 (union_pick_dict [1] u_kids u_eps u_fixed 3 P_k1 2) = true /\
  dpicks 2 (union_pick_dict [1] u_kids u_eps u_fixed 3 P_k1 1) = false.
Proof.
  split; [exact (C08_pick_dict_union [1] u_kids u_eps u_fixed 3 P_k1 u_extra 2 2%nat u_extra_eq)|].
  split; vm_compute; reflexivity.
Qed.

(* ---- a product  S x S  (pairs of words over {a, b}, k = number of a's in both) asked for size 2 with
   k = 1: both children are class 0 of Count/SampleParamsExample.v as CartesianProduct sees it *)
Definition pS : pchild := pkid (ex_rule false) ex_tab 2 (0%nat, K1).
Definition p_kids : list pchild := [pS; pS].
Definition p_comps : list (list vec) := prod_comps [1] [0; 0] p_kids [2; 1].
Example p_comps_value :
  p_comps = [[[0; 0]; [2; 1]]; [[0; 1]; [2; 0]]; [[1; 0]; [1; 1]]; [[1; 1]; [1; 0]]; [[2; 0]; [0; 1]]; [[2; 1]; [0; 0]]]
  /\ map (prod_weight [1] p_kids) p_comps
     = [Ok (Some 2); Ok (Some 0); Ok (Some 1); Ok (Some 1); Ok (Some 0); Ok (Some 2)].
Proof. split; vm_compute; reflexivity. Qed.
Lemma p_wok : weights_ok (prod_weight [1] p_kids) p_comps.
Proof.
  intros M HM. destruct p_comps_value as [E _]. rewrite E in HM.
  destruct HM as [<-|[<-|[<-|[<-|[<-|[<-|[]]]]]]]; eexists; (split; [vm_compute; reflexivity|]);
    intros w Ew; injection Ew as <-; lia.
Qed.

(* covers C08_threshold_product: six compositions with weights 2, 0, 1, 1, 0, 2 (total 6 = the 2 words
   of length 2 with one a, cut at 3 places) *)
Example C08_threshold_product_nonvacuous :
  Z.of_nat (length (filter (fun r => picks 5 (walk (prod_weight [1] p_kids) r 0 0%nat p_comps)) (py_range 1 (6 + 1)))) = 2 /\
  (exists j M toks, walk (prod_weight [1] p_kids) 4 0 0%nat p_comps = Ok (j, M) /\ nth_error p_comps j = Some M /\
                    prod_pick [1] [0; 0] p_kids 2 P_k1 4 = Ok toks) /\
  prod_pick [1] [0; 0] p_kids 2 P_k1 7 = Err E_RUNTIME.
Proof.
  destruct (C08_threshold_product [1] [0; 0] p_kids 2 P_k1 [1] ltac:(discriminate) eq_refl eq_refl p_wok)
    as (A & B & C).
  fold p_comps in A, B, C.
  change (total_weight (prod_weight [1] p_kids) p_comps) with 6 in *.
  split; [|split; [apply B; lia|apply C; lia]].
  exact (A 5%nat [[2; 1]; [0; 0]] eq_refl).
Qed.
Example C08_threshold_product_picks :
  map (prod_pick [1] [0; 0] p_kids 2 P_k1) [1; 2; 3; 4; 5; 6; 7]
  = [Ok [(0, [0]); (2, [1])]; Ok [(0, [0]); (2, [1])]; Ok [(1, [0]); (1, [1])]; Ok [(1, [1]); (1, [0])];
     Ok [(2, [1]); (0, [0])]; Ok [(2, [1]); (0, [0])]; Err E_RUNTIME].
Proof. vm_compute. reflexivity. Qed.

(* covers C08_pick_dict_product (a closed equation): both sides are a real pick on the draw 3 *)
Example C08_pick_dict_product_nonvacuous :
  prod_pick [1] [0; 0] p_kids 2 P_k1 3 =
  match prod_pick_dict [1] [0; 0] p_kids 2 P_k1 3 with Ok ex => prod_tokens p_kids ex | Err e => Err e end
  /\ prod_pick_dict [1] [0; 0] p_kids 2 P_k1 3 = Ok [(1, [(1, 0)]); (1, [(1, 1)])].
Proof. split; [apply C08_pick_dict_product|vm_compute; reflexivity]. Qed.

(* ---- 2. _valid_compositions: two children, one extra parameter (d = 2), (n, k) = (2, 1) *)
Definition vc_mins : list vec := [[0; 0]; [0; 0]].
Definition vc_maxs : list (list (option Z)) := [[None; None]; [None; None]].

(* covers C08_valid_compositions_spec (Ex.valid_comps_params lists the six matrices) *)
Example C08_valid_compositions_spec_nonvacuous :
  (forall M, In M (valid_comps 2 [0; 0] vc_mins vc_maxs [2; 1]) <-> comp_ok 2 [0; 0] vc_mins vc_maxs [2; 1] M) /\
  NoDup (valid_comps 2 [0; 0] vc_mins vc_maxs [2; 1]).
Proof. apply C08_valid_compositions_spec. discriminate. Qed.
(* ... the characterisation discriminates: a matrix with the wrong column sum is not enumerated *)
Example C08_valid_compositions_spec_near_miss :
  ~ comp_ok 2 [0; 0] vc_mins vc_maxs [2; 1] [[1; 0]; [1; 0]] /\
  comp_ok 2 [0; 0] vc_mins vc_maxs [2; 1] [[1; 0]; [1; 1]].
Proof.
  destruct C08_valid_compositions_spec_nonvacuous as [H _]. split.
  - intros X. apply H in X. vm_compute in X. repeat (destruct X as [X|X]; [discriminate X|]). exact X.
  - apply H. vm_compute. tauto.
Qed.

(* covers C08_valid_compositions_complete: children's bounds  child 0 = an atom of size 1 with k = 1
   (max declared), child 1 unbounded above; the split (1,1) + (2,0) of (3,1) is enumerated *)
Example C08_valid_compositions_complete_nonvacuous :
  In [[1; 1]; [2; 0]] (valid_comps 2 [1; 0] [[1; 1]; [0; 0]] [[Some 1; Some 1]; [None; None]] [3; 1]).
Proof.
  apply C08_valid_compositions_complete.
  - discriminate.
  - intros k Hk. destruct k as [|[|k]]; [vm_compute; discriminate|vm_compute; discriminate|lia].
  - simpl. constructor; [|constructor; [|constructor]]; (split; [reflexivity|]); intros k Hk;
      destruct k as [|[|k]]; try lia; simpl; (split; [unfold vget; simpl; lia|]); intros M E;
      try discriminate E; injection E as <-; unfold vget; simpl; lia.
  - intros k Hk. destruct k as [|[|k]]; [reflexivity|reflexivity|lia].
Qed.

(* covers C08_valid_compositions_get_terms: n = 4, three children with minima 1, 0, 1, the first an
   atom (max 1) *)
Example C08_valid_compositions_get_terms_nonvacuous :
  (forall t, In (col1 t) (valid_comps 1 [2] (col1 [1; 0; 1]) (col1o [Some 1; None; None]) [4])
             <-> In t (compositions 4 3 [1; 0; 1] [Some 1; None; None])) /\
  (forall M, In M (valid_comps 1 [2] (col1 [1; 0; 1]) (col1o [Some 1; None; None]) [4]) -> M = col1 (sizes_of M)) /\
  NoDup (valid_comps 1 [2] (col1 [1; 0; 1]) (col1o [Some 1; None; None]) [4]) /\
  NoDup (compositions 4 3 [1; 0; 1] [Some 1; None; None]).
Proof.
  apply (C08_valid_compositions_get_terms 4 2 [1; 0; 1] [Some 1; None; None]).
  - vm_compute. discriminate.
  - reflexivity.
  - repeat constructor; lia.
  - vm_compute. discriminate.
Qed.
Example C08_valid_compositions_get_terms_value :
  valid_comps 1 [2] (col1 [1; 0; 1]) (col1o [Some 1; None; None]) [4] = [[[1]; [0]; [3]]; [[1]; [1]; [2]]; [[1]; [2]; [1]]]
  /\ compositions 4 3 [1; 0; 1] [Some 1; None; None] = [[1; 0; 3]; [1; 1; 2]; [1; 2; 1]].
Proof. split; vm_compute; reflexivity. Qed.

(* ---- 3. tree_eqb discriminates *)
Example C08_tree_eqb_nonvacuous :
  tree_eqb Ex.t_ab Ex.t_ab = true /\
  tree_eqb Ex.t_ab (UNode 0 2 (PNode 4 [Leaf 5; UNode 0 0 (Leaf 1)])) = false /\
  Ex.t_ab <> UNode 0 2 (PNode 4 [Leaf 5; UNode 0 0 (Leaf 1)]).
Proof.
  split; [apply C08_tree_eqb; reflexivity|]. split; [reflexivity|].
  intros E. apply C08_tree_eqb in E. discriminate E.
Qed.

(* ---- 3. uniformity without parameters: all words over {a, b} (module Ex above), the word "ab" *)
(* covers C08_uniform *)
Example C08_uniform_nonvacuous :
  (prob (tree_eqb Ex.t_ab) (spec_sample Ex.rule_of Ex.cnt 10 0 2) == 1 / inject_Z 4)%Q.
Proof.
  destruct Ex.hypotheses_hold as (H1 & H2 & H3 & H4 & H5 & H6 & H7 & W & _).
  apply (C08_uniform Ex.rule_of Ex.cnt H1 H2 H3 H4 H5 H6 H7 Ex.t_ab 0%nat 10%nat W). simpl. lia.
Qed.

(* covers C08_counted *)
Example C08_counted_nonvacuous : 1 <= Ex.cnt 0 2.
Proof.
  destruct Ex.hypotheses_hold as (H1 & H2 & H3 & H4 & H5 & H6 & H7 & W & _).
  exact (C08_counted Ex.rule_of Ex.cnt H1 H2 H3 H4 H5 H6 H7 Ex.t_ab 0%nat W).
Qed.

(* covers C08_support: asked for size 3, "ab" (size 2) is never returned — although words of size 3
   are (the draw sequence below returns one) *)
Example C08_support_nonvacuous :
  (prob (tree_eqb Ex.t_ab) (sample Ex.rule_of Ex.cnt 10 0 3) == 0)%Q /\
  exists t, fst (fst (run (sample Ex.rule_of Ex.cnt 10 0 3) [1; 1; 3; 1; 2; 1; 1; 0; 0; 0; 0; 0; 0; 0])) = Ok t.
Proof.
  split; [apply C08_support; vm_compute; discriminate|].
  eexists. vm_compute. reflexivity.
Qed.

(* ---- 4. covers C08_reject_empty: the class a.S has no word of size 0 *)
Example C08_reject_empty_nonvacuous :
  spec_sample Ex.rule_of Ex.cnt 10 2 0 = Fail E_INVALID_OP /\
  run (spec_sample Ex.rule_of Ex.cnt 10 2 0) [1; 2; 3] = (Err E_INVALID_OP, [], [1; 2; 3]).
Proof. apply C08_reject_empty. vm_compute. discriminate. Qed.

(* ---- 5. equivalence steps: the specification of module Ex with two more classes on top,
   7 -> 6 -> 0 (one-child unions: an EquivalencePathRule 7 ~ 0 collapses the chain) *)
Definition eq_rule (c : nat) : cls :=
  nth c (Ex.table ++ [Ex.mk K_UNION 0 false [0%nat]; Ex.mk K_UNION 0 false [6%nat]]) (Ex.mk K_EMPTY 0 false []).
Definition eq_cnt (c : nat) (n : Z) : Z := match c with 6%nat | 7%nat => Ex.cnt 0 n | _ => Ex.cnt c n end.
Lemma eq_nonneg : forall c n, 0 <= eq_cnt c n.
Proof.
  destruct Ex.hypotheses_hold as (H1 & _). intros c n.
  do 8 (destruct c as [|c]; [unfold eq_cnt; apply H1|]). unfold eq_cnt. apply H1.
Qed.
Lemma eq_union : forall c n, c_kind (eq_rule c) = K_UNION ->
  eq_cnt c n = py_sum (map (fun ci => eq_cnt ci n) (c_kids (eq_rule c))).
Proof.
  destruct Ex.hypotheses_hold as (_ & _ & H3 & _). intros c n.
  destruct c as [|[|[|[|[|[|[|[|c]]]]]]]]; intros H; try discriminate H.
  - exact (H3 0%nat n eq_refl).
  - change (Ex.cnt 0 n = Ex.cnt 0 n + 0). lia.
  - change (Ex.cnt 0 n = Ex.cnt 0 n + 0). lia.
  - destruct c; discriminate H.
Qed.

(* covers C08_equivalence_step *)
Example C08_equivalence_step_nonvacuous :
  eq_cnt 6 2 = eq_cnt 0 2 /\
  (prob (tree_eqb (UNode 6 0 Ex.t_ab)) (sample eq_rule eq_cnt 11 6 2)
   == prob (tree_eqb Ex.t_ab) (sample eq_rule eq_cnt 10 0 2))%Q.
Proof.
  apply (C08_equivalence_step eq_rule eq_cnt eq_nonneg eq_union 10%nat 6%nat 0%nat 2 Ex.t_ab eq_refl eq_refl).
  vm_compute. discriminate.
Qed.

(* covers C08_equivalence_path: the chain 7 -> 6 -> 0 *)
Example C08_equivalence_path_nonvacuous :
  eq_cnt 7 2 = eq_cnt 0 2 /\
  (prob (tree_eqb (UNode 7 0 (UNode 6 0 Ex.t_ab))) (sample eq_rule eq_cnt 12 7 2)
   == prob (tree_eqb Ex.t_ab) (sample eq_rule eq_cnt 10 0 2))%Q.
Proof.
  apply (C08_equivalence_path eq_rule eq_cnt eq_nonneg eq_union [6; 0]%nat 7%nat 0%nat 10%nat 2 Ex.t_ab).
  - repeat split.
  - vm_compute. discriminate.
Qed.
(* ... and the common value is 1/4, not 0 *)
Example C08_equivalence_path_value :
  (prob (tree_eqb (UNode 7 0 (UNode 6 0 Ex.t_ab))) (sample eq_rule eq_cnt 12 7 2) == 1 / inject_Z 4)%Q.
Proof. vm_compute. reflexivity. Qed.

(* ---- 6. covers C08_uniform_true_counts: T = the true counts of module Ex, ANY table U satisfying the
   recurrences is forced to them on the root, and "ab" has probability 1/4 under the sampler driven by U *)
Example C08_uniform_true_counts_nonvacuous :
  forall U : nat -> Z -> Z,
  (forall c n, 0 <= U c n) ->
  (forall c, c_kind (Ex.rule_of c) = K_ATOM -> U c (cmin Ex.rule_of c) = 1) ->
  (forall c n, c_kind (Ex.rule_of c) = K_UNION ->
     U c n = py_sum (map (fun ci => U ci n) (c_kids (Ex.rule_of c)))) ->
  (forall c n, c_kind (Ex.rule_of c) = K_PRODUCT ->
     U c n = py_sum (map (prod_counts U (c_kids (Ex.rule_of c)))
                         (compositions n (zlen (c_kids (Ex.rule_of c)))
                                       (map (cmin Ex.rule_of) (c_kids (Ex.rule_of c)))
                                       (map (cmax Ex.rule_of) (c_kids (Ex.rule_of c)))))) ->
  (forall c m, U c m <> 0 -> cmin Ex.rule_of c <= m /\ (c_atom (Ex.rule_of c) = true -> m <= cmin Ex.rule_of c)) ->
  U 0%nat 3 = 8 /\
  (prob (tree_eqb Ex.t_ab) (spec_sample Ex.rule_of U 10 0 2) == 1 / inject_Z 4)%Q.
Proof.
  intros U U1 U2 U3 U4 U6.
  destruct Ex.hypotheses_hold as (_ & _ & _ & _ & H5 & _ & H7 & W & _).
  destruct Ex.true_counts_hypotheses_hold as (A1 & A2 & A3 & A4 & A5).
  destruct (C08_uniform_true_counts Ex.rule_of U Ex.cnt U1 U2 U3 U4 H5 U6 H7 A1 A2 A3 Ex.keys 0%nat A4 A5)
    as [E P].
  split; [rewrite E by lia; reflexivity|].
  exact (P Ex.t_ab 10%nat W ltac:(simpl; lia)).
Qed.
(* the hypotheses on U are satisfiable: U := the true counts *)
Example C08_uniform_true_counts_hyps_satisfiable :
  Ex.cnt 0%nat 3 = 8 /\
  (prob (tree_eqb Ex.t_ab) (spec_sample Ex.rule_of Ex.cnt 10 0 2) == 1 / inject_Z 4)%Q.
Proof.
  destruct Ex.hypotheses_hold as (H1 & H2 & H3 & H4 & _ & H6 & _).
  exact (C08_uniform_true_counts_nonvacuous Ex.cnt H1 H2 H3 H4 H6).
Qed.

(* covers C08_rules_local: the product rule a.S (class 2) and the union rule (class 0) *)
Example C08_rules_local_nonvacuous :
  exists r0 r2, c08_rule Ex.rule_of 0 = Some r0 /\ c08_rule Ex.rule_of 2 = Some r2 /\
                r_kids Z r0 = [(1%nat, 0); (2%nat, 0); (4%nat, 0)] /\ r_kids Z r2 = [(3%nat, 0); (0%nat, 1)] /\
                local Z r0 /\ local Z r2.
Proof.
  eexists. eexists. split; [reflexivity|]. split; [reflexivity|]. split; [reflexivity|]. split; [reflexivity|].
  split; [apply (C08_rules_local Ex.rule_of 0)|apply (C08_rules_local Ex.rule_of 2)]; reflexivity.
Qed.

(* ---- 7. with extra parameters: the words over {a, b} with k = number of a's
   (Count/SampleParamsExample.v, module ExParams above) *)
(* covers C08_uniform_params (ExParams.ab_by_theorem and ExMerge.merged_by_theorem apply it too) *)
Example C08_uniform_params_nonvacuous :
  (prob (tree_eqb t_ab) (pspec_sample (ex_rule false) ex_tab 10 0 2 P_k1) == 1 / inject_Z 2)%Q.
Proof.
  destruct ExParams.hypotheses_hold as (H1 & H2 & H3 & H4 & H5 & H6 & W & S & T & C & D).
  pose proof (C08_uniform_params (ex_rule false) ex_tab H1 H2 H3 H4 H5 H6 t_ab 0%nat 10%nat P_k1 W
                ltac:(simpl; lia)) as X.
  rewrite S, T, C in X. exact (X D).
Qed.

(* covers C08_counted_params *)
Example C08_counted_params_nonvacuous : 1 <= pcnt ex_tab 0 2 [1].
Proof.
  destruct ExParams.hypotheses_hold as (H1 & H2 & H3 & H4 & H5 & H6 & W & S & T & C & D).
  pose proof (C08_counted_params (ex_rule false) ex_tab H1 H2 H3 H4 H5 H6 t_ab 0%nat W) as X.
  rewrite S, T in X. exact X.
Qed.

(* covers C08_support_params: asked for (2, k = 1), the word "bb" (size 2, k = 0) is never returned *)
Definition t_bb : tree := UNode 0 2 (PNode 4 [Leaf 5; t_b_S]).
Example C08_support_params_nonvacuous :
  ptsize (ex_rule false) t_bb = 2 /\ tpar (ex_rule false) t_bb = [0] /\
  (prob (tree_eqb t_bb) (psample (ex_rule false) ex_tab 10 0 2 P_k1) == 0)%Q.
Proof.
  destruct ExParams.hypotheses_hold as (H1 & H2 & H3 & H4 & H5 & H6 & W & S & T & C & D).
  split; [reflexivity|]. split; [reflexivity|].
  apply (C08_support_params (ex_rule false) ex_tab H1 H2 H3 H4 H5 10%nat 0%nat 2 P_k1 [1] t_bb D).
  - rewrite C. lia.
  - right. vm_compute. discriminate.
Qed.

(* covers C08_union_weights_params and C08_union_total_params: the union rule of class 0 at (3, k = 1) *)
Example C08_union_weights_params_nonvacuous :
  exists extra,
    union_extra (pk_eps (ex_rule false 0)) (pk_fixed (ex_rule false 0)) P_k1 = Ok extra /\
    let bs := union_branches (pars (ex_rule false) 0) (map (kid_at (ex_rule false) ex_tab 3) (pk_kids (ex_rule false 0)))
                             (pk_eps (ex_rule false 0)) extra in
    weights_ok (union_weight 3 P_k1) bs /\ total_weight (union_weight 3 P_k1) bs <= pcnt ex_tab 0 3 [1].
Proof.
  destruct ExParams.hypotheses_hold as (H1 & H2 & H3 & H4 & H5 & H6 & W & S & T & C & D).
  exact (C08_union_weights_params (ex_rule false) ex_tab 0%nat P_k1 [1] 3 H1 (H4 0%nat eq_refl) D).
Qed.
Example C08_union_total_params_nonvacuous :
  exists extra,
    union_extra (pk_eps (ex_rule false 0)) (pk_fixed (ex_rule false 0)) P_k1 = Ok extra /\
    let bs := union_branches (pars (ex_rule false) 0) (map (kid_at (ex_rule false) ex_tab 3) (pk_kids (ex_rule false 0)))
                             (pk_eps (ex_rule false 0)) extra in
    weights_ok (union_weight 3 P_k1) bs /\ total_weight (union_weight 3 P_k1) bs = pcnt ex_tab 0 3 [1].
Proof.
  destruct ExParams.hypotheses_hold as (H1 & H2 & H3 & H4 & H5 & H6 & W & S & T & C & D).
  exact (C08_union_total_params (ex_rule false) ex_tab 0%nat P_k1 [1] 3 H1 ExParams.arity_holds
           (H4 0%nat eq_refl) (H6 0%nat eq_refl) D).
Qed.
(* the witness: every child gets {k: 1}; the weights are 0, 1, 2 and the count is 3 *)
Example C08_union_total_params_value :
  union_extra (pk_eps (ex_rule false 0)) (pk_fixed (ex_rule false 0)) P_k1 = Ok [Some [(1, 1)]; Some [(1, 1)]; Some [(1, 1)]] /\
  map (wz (union_weight 3 P_k1))
      (union_branches [1] (map (kid_at (ex_rule false) ex_tab 3) [1; 2; 4]%nat) [K1; K1; K1]
                      [Some [(1, 1)]; Some [(1, 1)]; Some [(1, 1)]]) = [0; 1; 2] /\
  pcnt ex_tab 0 3 [1] = 3.
Proof. repeat split; vm_compute; reflexivity. Qed.

(* covers C08_draws_return_union_params *)
Example C08_draws_return_union_params_nonvacuous :
  (forall r, 1 <= r <= 3 ->
     exists i q, union_pick_dict [1] (map (kid_at (ex_rule false) ex_tab 3) [1; 2; 4]%nat)
                                 [K1; K1; K1] [[]; []; []] 3 P_k1 r = Ok (i, q)) /\
  (forall r, 3 < r ->
     union_pick_dict [1] (map (kid_at (ex_rule false) ex_tab 3) [1; 2; 4]%nat)
                     [K1; K1; K1] [[]; []; []] 3 P_k1 r = Err E_RUNTIME).
Proof.
  destruct ExParams.hypotheses_hold as (H1 & H2 & H3 & H4 & H5 & H6 & W & S & T & C & D).
  exact (C08_draws_return_union_params (ex_rule false) ex_tab 0%nat P_k1 [1] 3 H1 ExParams.arity_holds
           (H4 0%nat eq_refl) (H6 0%nat eq_refl) D).
Qed.

(* covers C08_path_dictionary (a closed equation): two steps, the second drops a statistic *)
Example C08_path_dictionary_nonvacuous :
  path_dict [1; 2] [[(1, 5); (2, 6)]; [(5, 7)]] = fold_left dict_compose [[(1, 5); (2, 6)]; [(5, 7)]] (id_dict [1; 2])
  /\ path_dict [1; 2] [[(1, 5); (2, 6)]; [(5, 7)]] = [(1, 7)].
Proof. split; [apply C08_path_dictionary|reflexivity]. Qed.

(* covers C08_path_fixed_determined: parameter 7 of the last class is a value of the dictionary (left
   branch), parameter 8 is not and is fixed to 0 (right branch) *)
Example C08_path_fixed_determined_nonvacuous :
  (In 7 (map snd [(1, 7)]) \/ In 7 (map fst (path_fixed [7; 8] [(1, 7)]))) /\
  (In 8 (map snd [(1, 7)]) \/ In 8 (map fst (path_fixed [7; 8] [(1, 7)]))) /\
  path_fixed [7; 8] [(1, 7)] = [(8, 0)].
Proof.
  split; [apply (C08_path_fixed_determined [7; 8]); simpl; tauto|].
  split; [apply (C08_path_fixed_determined [7; 8]); simpl; tauto|reflexivity].
Qed.

(* covers C08_path_fixed_honest, both ways.  (1) the root tracking nothing over class 0 (the refuted
   variant): fixed_honest fails, so some word has k <> 0 ... *)
Example C08_path_fixed_honest_nonvacuous_false :
  ~ (forall k, In k (pars (ex_rule true) 0) -> ~ In k (map snd (@nil (Z * Z))) ->
     forall n q, pcnt ex_tab 0 n q <> 0 -> dget (combine (pars (ex_rule true) 0) q) k = Some 0).
Proof.
  intros H. apply ex_not_honest.
  apply (C08_path_fixed_honest (ex_rule true) ex_tab 6%nat 0%nat [] eq_refl eq_refl eq_refl). exact H.
Qed.
(* (2) a class tracking k over class 7 of Count/SampleParamsExample2.v (statistics k1 = k2 = #a,
   k3 = #c identically 0) with the dictionary {k: k1, k: k2}: k3 is fixed to 0, honestly *)
Definition ex3_rule (c : nat) : pcls :=
  match c with
  | 8%nat => {| pk_kind := K_UNION; pk_min := 0; pk_atom := false; pk_kids := [7%nat]; pk_params := [1];
                pk_minval := [(1, 0)]; pk_eps := [[(1, 1); (1, 2)]]; pk_fixed := [[(3, 0)]] |}
  | _ => ex2_rule c
  end.
Example C08_path_fixed_honest_nonvacuous_true :
  path_fixed (pars ex3_rule 7) [(1, 1); (1, 2)] = [(3, 0)] /\ fixed_honest ex3_rule ex2_tab 8.
Proof.
  split; [reflexivity|].
  apply (C08_path_fixed_honest ex3_rule ex2_tab 8%nat 7%nat [(1, 1); (1, 2)] eq_refl eq_refl eq_refl).
  intros k Hk Hn n q Hq. destruct (ex2_pcnt7 n q Hq) as (x & -> & _).
  simpl in Hk. destruct Hk as [<-|[<-|[<-|[]]]]; [exfalso; apply Hn; simpl; tauto|exfalso; apply Hn; simpl; tauto|].
  reflexivity.
Qed.

(* covers C08_reject_empty_params: no word of length 2 has five a's *)
Example C08_reject_empty_params_nonvacuous :
  pspec_sample (ex_rule false) ex_tab 10 0 2 [(1, 5)] = Fail E_INVALID_OP /\
  run (pspec_sample (ex_rule false) ex_tab 10 0 2 [(1, 5)]) [1; 2] = (Err E_INVALID_OP, [], [1; 2]).
Proof. apply (C08_reject_empty_params (ex_rule false) ex_tab 10 0%nat 2 [(1, 5)] 0); [reflexivity|lia]. Qed.

(* ---- a product rule with SEVERAL compositions: on top of the specification of
   Count/SampleParamsExample.v,  8 = X = eps + a  and  9 = Y = X x X  (pairs of words of length <= 1,
   k = number of a's in both) *)
Definition pr_rule (c : nat) : pcls :=
  match c with
  | 8%nat => mkp K_UNION 0 false [1; 3]%nat 0 [K1; K1] [[]; []]
  | 9%nat => mkp K_PRODUCT 0 false [8; 8]%nat 0 [K1; K1] []
  | _ => ex_rule false c
  end.
Definition tabX (n : Z) : terms := if n =? 0 then [([0], 1)] else if n =? 1 then [([1], 1)] else [].
Definition tabY (n : Z) : terms :=
  if n =? 0 then [([0], 1)] else if n =? 1 then [([1], 2)] else if n =? 2 then [([2], 1)] else [].
Definition pr_tab (c : nat) (n : Z) : terms :=
  match c with 8%nat => tabX n | 9%nat => tabY n | _ => ex_tab c n end.

Ltac cases10 c := destruct c as [|[|[|[|[|[|[|[|[|[|c]]]]]]]]]].

Lemma one_entry_nonzero (a v : Z) (q : params) : tget [([a], v)] q <> 0 -> q = [a].
Proof. cbn [tget fst snd]. destruct (params_eqb [a] q) eqn:E; [|lia]. apply params_eqb_eq in E. auto. Qed.
Lemma tabX_nonzero m q : tget (tabX m) q <> 0 -> (m = 0 /\ q = [0]) \/ (m = 1 /\ q = [1]).
Proof.
  unfold tabX. destruct (Z.eqb_spec m 0) as [->|H0]; [intros H; apply one_entry_nonzero in H; auto|].
  destruct (Z.eqb_spec m 1) as [->|H1]; [intros H; apply one_entry_nonzero in H; auto|]. simpl. congruence.
Qed.
Lemma tabY_nonzero m q : tget (tabY m) q <> 0 -> (m = 0 /\ q = [0]) \/ (m = 1 /\ q = [1]) \/ (m = 2 /\ q = [2]).
Proof.
  unfold tabY. destruct (Z.eqb_spec m 0) as [->|H0]; [intros H; apply one_entry_nonzero in H; auto|].
  destruct (Z.eqb_spec m 1) as [->|H1]; [intros H; apply one_entry_nonzero in H; auto|].
  destruct (Z.eqb_spec m 2) as [->|H2]; [intros H; apply one_entry_nonzero in H; auto|]. simpl. congruence.
Qed.

Lemma pr_tables_ok : tables_ok pr_rule pr_tab.
Proof.
  destruct (ex_tables_ok false) as (H1 & H2 & H3). split; [|split].
  - intros c. cases10 c; try (match goal with |- NoDup (pars pr_rule ?k) => exact (H1 k) end);
      unfold pars; simpl; repeat constructor; simpl; tauto.
  - intros c n. cases10 c; try (match goal with |- NoDup (map fst (pr_tab ?k n)) => exact (H2 k n) end);
      simpl; unfold tabX, tabY; repeat match goal with |- context [if ?b then _ else _] => destruct b end;
      simpl; repeat constructor; simpl; tauto.
  - intros c n. cases10 c; try (match goal with |- nonneg (pr_tab ?k n) => exact (H3 k n) end);
      simpl; unfold tabX, tabY; repeat match goal with |- context [if ?b then _ else _] => destruct b end;
      first [apply nonneg_nil|apply nonneg_single; lia].
Qed.

Lemma pr_contract_ok : contract_ok pr_rule pr_tab.
Proof.
  destruct (ex_contract_ok false) as (H1 & H2). split.
  - intros c. cases10 c; try (match goal with |- 0 <= pmin pr_rule ?k => exact (H1 k) end); unfold pmin; simpl; lia.
  - intros c m q. cases10 c; try (match goal with |- pcnt pr_tab ?k m q <> 0 -> _ => exact (H2 k m q) end).
    + intros H. unfold pmin, pars, mval, minval_of. simpl.
      destruct (tabX_nonzero m q H) as [[-> ->]|[-> ->]]; (split; [lia|]); (split; [discriminate|]);
        intros j Hj; (destruct j; [|lia]); simpl; (split; [lia|discriminate]).
    + intros H. unfold pmin, pars, mval, minval_of. simpl.
      destruct (tabY_nonzero m q H) as [[-> ->]|[[-> ->]|[-> ->]]]; (split; [lia|]); (split; [discriminate|]);
        intros j Hj; (destruct j; [|lia]); simpl; (split; [lia|discriminate]).
Qed.

Lemma pr_atoms_ok c : pk_kind (pr_rule c) = K_ATOM -> atom_ok pr_rule pr_tab c.
Proof.
  cases10 c; try (match goal with |- _ -> atom_ok pr_rule pr_tab ?k => exact (ex_atoms_ok false k) end);
    simpl; discriminate.
Qed.

Lemma K1_child_ok3 c ci : pars pr_rule c = [1] -> pars pr_rule ci = [1] -> ep_ok pr_rule c (ci, K1).
Proof.
  intros Hc Hi. unfold ep_ok, wf_dict. simpl. rewrite Hc, Hi.
  assert (N1 : NoDup [1]) by (constructor; [intros []|constructor]).
  split; [split; [exact N1|split; [exact N1|split; [exact N1|]]]|].
  - intros a b [E|[]]. injection E as <- <-. left. reflexivity.
  - intros a b [E|[]]. injection E as <- <-. left. reflexivity.
Qed.
Lemma K1_union_child_ok3 c ci : pars pr_rule c = [1] -> pars pr_rule ci = [1] ->
  union_child_ok pr_rule c (ci, K1, []).
Proof.
  intros Hc Hi. split; [apply K1_child_ok3; assumption|]. split; [constructor|]. split; [intros k []|].
  simpl. rewrite Hi. intros cv [<-|[]]. left. left. reflexivity.
Qed.
Lemma K1_prod_child_ok3 c ci : pars pr_rule c = [1] -> pars pr_rule ci = [1] ->
  ep_ok pr_rule c (ci, K1) /\ (forall cv, In cv (pars pr_rule (fst (ci, K1))) -> In cv (map snd (snd (ci, K1)))).
Proof.
  intros Hc Hi. split; [apply K1_child_ok3; assumption|]. simpl. rewrite Hi. intros cv [<-|[]]. left. reflexivity.
Qed.

Lemma pr_union0 : union_ok pr_rule pr_tab 0.
Proof.
  destruct (ex_union0 false) as (L1 & L2 & _ & Ht).
  split; [exact L1|]. split; [exact L2|]. split; [|exact Ht].
  change (kid_eps_fixed pr_rule 0) with [(1%nat, K1, @nil (Z * Z)); (2%nat, K1, []); (4%nat, K1, [])].
  constructor; [apply K1_union_child_ok3; reflexivity|].
  constructor; [apply K1_union_child_ok3; reflexivity|].
  constructor; [apply K1_union_child_ok3; reflexivity|constructor].
Qed.

Lemma pr_union8 : union_ok pr_rule pr_tab 8.
Proof.
  split; [reflexivity|]. split; [reflexivity|]. split.
  - change (kid_eps_fixed pr_rule 8) with [(1%nat, K1, @nil (Z * Z)); (3%nat, K1, [])].
    constructor; [apply K1_union_child_ok3; reflexivity|].
    constructor; [apply K1_union_child_ok3; reflexivity|constructor].
  - intros n q. change (cmaps pr_rule 8) with [f1; f1].
    change (map (fun ci : nat => pr_tab ci n) (pk_kids (pr_rule 8))) with [ex_tab 1 n; ex_tab 3 n].
    unfold union_table. cbn [map2 concat]. rewrite app_nil_r.
    change (pr_tab 8 n) with (tabX n). unfold tabX. cbn [ex_tab].
    destruct (Z.eqb_spec n 0) as [->|H0]; [reflexivity|].
    destruct (Z.eqb_spec n 1) as [->|H1]; reflexivity.
Qed.

Lemma pr_product_old c (a : nat) : (c = 2%nat /\ a = 3%nat) \/ (c = 4%nat /\ a = 5%nat) -> product_ok pr_rule pr_tab c.
Proof.
  intros H.
  assert (Hold : product_ok (ex_rule false) ex_tab c).
  { destruct H as [[-> ->]|[-> ->]]; [apply (ex_product false 2 3 1)|apply (ex_product false 4 5 0)]; tauto. }
  destruct H as [[-> ->]|[-> ->]]; destruct Hold as (A & B & _ & D & E);
    (split; [exact A|]); (split; [exact B|]); (split; [|split; [exact D|exact E]]).
  - change (kid_eps pr_rule 2) with [(3%nat, K1); (0%nat, K1)].
    constructor; [apply K1_prod_child_ok3; reflexivity|]. constructor; [apply K1_prod_child_ok3; reflexivity|constructor].
  - change (kid_eps pr_rule 4) with [(5%nat, K1); (0%nat, K1)].
    constructor; [apply K1_prod_child_ok3; reflexivity|]. constructor; [apply K1_prod_child_ok3; reflexivity|constructor].
Qed.

(* the table CartesianProduct.get_terms builds for X x X is tabY *)
Lemma pr_product9_table n : teq (tabY n) (product_table [f1; f1] [0; 0] [None; None] [tabX; tabX] n).
Proof.
  intros q.
  destruct (Z.eq_dec n 0) as [->|N0].
  { change (product_table [f1; f1] [0; 0] [None; None] [tabX; tabX] 0) with [([0], 1)]. reflexivity. }
  destruct (Z.eq_dec n 1) as [->|N1].
  { change (product_table [f1; f1] [0; 0] [None; None] [tabX; tabX] 1) with [([1], 1); ([1], 1)].
    change (tabY 1) with [([1], 2)]. cbn [tget fst snd]. destruct (params_eqb [1] q); lia. }
  destruct (Z.eq_dec n 2) as [->|N2].
  { change (product_table [f1; f1] [0; 0] [None; None] [tabX; tabX] 2) with [([2], 1)]. reflexivity. }
  assert (E : tabY n = []).
  { unfold tabY. destruct (Z.eqb_spec n 0); [lia|]. destruct (Z.eqb_spec n 1); [lia|].
    destruct (Z.eqb_spec n 2); [lia|reflexivity]. }
  rewrite E. rewrite product_table_tget. symmetry. apply zsum_zero. intros t Hin.
  apply compositions_sound in Hin; [|reflexivity|reflexivity].
  destruct Hin as (Hz & Hs & Hle & _).
  destruct t as [|a [|b [|c t]]]; try (unfold zlen in Hz; simpl in Hz; lia).
  rewrite !py_sum_cons in Hs. change (py_sum []) with 0 in Hs.
  unfold comp_table, tabs_at. cbn [map2]. unfold tabX.
  destruct (Z.eqb_spec a 0); destruct (Z.eqb_spec a 1); destruct (Z.eqb_spec b 0); destruct (Z.eqb_spec b 1);
    try lia; reflexivity.
Qed.

Lemma pr_product9 : product_ok pr_rule pr_tab 9.
Proof.
  split; [discriminate|]. split; [reflexivity|]. split; [|split].
  - change (kid_eps pr_rule 9) with [(8%nat, K1); (8%nat, K1)].
    constructor; [apply K1_prod_child_ok3; reflexivity|]. constructor; [apply K1_prod_child_ok3; reflexivity|constructor].
  - intros k Hk. change (length (pars pr_rule 9)) with 1%nat in Hk.
    destruct k as [|[|k]]; try lia; vm_compute; discriminate.
  - intros n. exact (pr_product9_table n).
Qed.

Lemma pr_unions_ok c : pk_kind (pr_rule c) = K_UNION -> union_ok pr_rule pr_tab c.
Proof. cases10 c; simpl; intros Hk; try discriminate Hk; [exact pr_union0|exact pr_union8]. Qed.
Lemma pr_products_ok c : pk_kind (pr_rule c) = K_PRODUCT -> product_ok pr_rule pr_tab c.
Proof.
  cases10 c; simpl; intros Hk; try discriminate Hk.
  - apply (pr_product_old 2 3). tauto.
  - apply (pr_product_old 4 5). tauto.
  - exact pr_product9.
Qed.
Lemma pr_honest c : pk_kind (pr_rule c) = K_UNION -> fixed_honest pr_rule pr_tab c.
Proof.
  cases10 c; simpl; intros Hk; try discriminate Hk.
  - intros d Hd k v Hin. simpl in Hd. destruct Hd as [<-|[<-|[<-|[]]]]; destruct Hin.
  - intros d Hd k v Hin. simpl in Hd. destruct Hd as [<-|[<-|[]]]; destruct Hin.
Qed.
Lemma pr_arity_ok : arity_ok pr_rule pr_tab.
Proof.
  intros c n q. cases10 c; try (match goal with |- pcnt pr_tab ?k n q <> 0 -> _ => exact (ex_arity_ok false k n q) end).
  - intros H. destruct (tabX_nonzero n q H) as [[_ ->]|[_ ->]]; reflexivity.
  - intros H. destruct (tabY_nonzero n q H) as [[_ ->]|[[_ ->]|[_ ->]]]; reflexivity.
Qed.

(* the pair ("a", "") as a parse tree of Y: size 1, k = 1; the other such pair is ("", "a") *)
Definition t_a_eps : tree := PNode 9 [UNode 8 1 (Leaf 3); UNode 8 0 (Leaf 1)].
Lemma pr_tree :
  pwf pr_rule t_a_eps 9 /\ ptsize pr_rule t_a_eps = 1 /\ tpar pr_rule t_a_eps = [1] /\
  pcnt pr_tab 9 1 [1] = 2 /\ dict_for pr_rule 9 P_k1 [1].
Proof.
  split; [|split; [|split; [|split]]]; try reflexivity.
  - cbv [pwf t_a_eps pr_rule ex_rule mkp pk_kind pk_kids all2 nth_error].
    repeat match goal with
           | |- _ /\ _ => split
           | |- exists _, _ => eexists
           | |- True => exact I
           | |- _ = _ => reflexivity
           end.
  - split; [constructor; [intros []|constructor]|]. split; [intros k [<-|[]]; left; reflexivity|reflexivity].
Qed.

(* C08_uniform_params on a specification with a several-composition product *)
Example C08_uniform_params_nonvacuous_pairs :
  (prob (tree_eqb t_a_eps) (pspec_sample pr_rule pr_tab 10 9 1 P_k1) == 1 / inject_Z 2)%Q.
Proof.
  destruct pr_tree as (W & S & T & C & D).
  pose proof (C08_uniform_params pr_rule pr_tab pr_tables_ok pr_contract_ok pr_atoms_ok pr_unions_ok
                pr_products_ok pr_honest t_a_eps 9%nat 10%nat P_k1 W ltac:(simpl; lia)) as X.
  rewrite S, T, C in X. exact (X D).
Qed.
Example C08_uniform_params_pairs_by_computation :
  (prob (tree_eqb t_a_eps) (pspec_sample pr_rule pr_tab 10 9 1 P_k1) == 1 / inject_Z 2)%Q.
Proof. vm_compute. reflexivity. Qed.

(* covers C08_product_weights_params and C08_product_total_params: the rule Y = X x X at (1, k = 1):
   four compositions, weights 1, 0, 0, 1 *)
Example C08_product_weights_params_nonvacuous :
  let kids := map (pkid pr_rule pr_tab 1) (kid_eps pr_rule 9) in
  let comps := prod_comps (pars pr_rule 9) (pmins_of (pr_rule 9)) kids [1; 1] in
  weights_ok (prod_weight (pars pr_rule 9) kids) comps /\
  total_weight (prod_weight (pars pr_rule 9) kids) comps <= pcnt pr_tab 9 1 [1].
Proof.
  exact (C08_product_weights_params pr_rule pr_tab 9%nat [1] 1 pr_tables_ok pr_contract_ok pr_product9 eq_refl).
Qed.
Example C08_product_total_params_nonvacuous :
  let kids := map (pkid pr_rule pr_tab 1) (kid_eps pr_rule 9) in
  let comps := prod_comps (pars pr_rule 9) (pmins_of (pr_rule 9)) kids [1; 1] in
  total_weight (prod_weight (pars pr_rule 9) kids) comps = pcnt pr_tab 9 1 [1].
Proof.
  exact (C08_product_total_params pr_rule pr_tab 9%nat [1] 1 pr_tables_ok pr_contract_ok pr_arity_ok pr_product9 eq_refl).
Qed.
Example C08_product_total_params_value :
  let kids := map (pkid pr_rule pr_tab 1) (kid_eps pr_rule 9) in
  let comps := prod_comps (pars pr_rule 9) (pmins_of (pr_rule 9)) kids [1; 1] in
  comps = [[[0; 0]; [1; 1]]; [[0; 1]; [1; 0]]; [[1; 0]; [0; 1]]; [[1; 1]; [0; 0]]] /\
  map (prod_weight (pars pr_rule 9) kids) comps = [Ok (Some 1); Ok (Some 0); Ok (Some 0); Ok (Some 1)] /\
  pcnt pr_tab 9 1 [1] = 2.
Proof. repeat split; vm_compute; reflexivity. Qed.

(* covers C08_draws_return_product_params *)
Example C08_draws_return_product_params_nonvacuous :
  (forall r, 1 <= r <= 2 ->
     exists ex, prod_pick_dict [1] [0; 0] (map (pkid pr_rule pr_tab 1) [(8%nat, K1); (8%nat, K1)]) 1 P_k1 r = Ok ex) /\
  (forall r, 2 < r ->
     prod_pick_dict [1] [0; 0] (map (pkid pr_rule pr_tab 1) [(8%nat, K1); (8%nat, K1)]) 1 P_k1 r = Err E_RUNTIME).
Proof.
  destruct pr_tree as (_ & _ & _ & _ & D).
  exact (C08_draws_return_product_params pr_rule pr_tab 9%nat P_k1 [1] 1 pr_tables_ok pr_contract_ok pr_arity_ok
           pr_product9 D).
Qed.
Example C08_draws_return_product_params_value :
  map (prod_pick_dict [1] [0; 0] (map (pkid pr_rule pr_tab 1) [(8%nat, K1); (8%nat, K1)]) 1 P_k1) [1; 2; 3]
  = [Ok [(0, [(1, 0)]); (1, [(1, 1)])]; Ok [(1, [(1, 1)]); (0, [(1, 0)])]; Err E_RUNTIME].
Proof. vm_compute. reflexivity. Qed.

(* ------------------------------------------------------------ tie to the source (translator)
   valid_comps (the model of CartesianProduct._valid_compositions every theorem of section 2
   and the product theorems of sections 1, 3, 5 are about) IS the source function.
   Gen/ProductRelianceProfile.v and Gen/ProductValidCompositions.v are re-translated from
   strategies/constructor/cartesian.py (reliance_profile; _valid_compositions with its nested
   recursive generator _helper) on every run.  The source computes on dictionaries keyed by
   parameter names, the model on vectors indexed by the position of the name in
   parent_parameters: for every list pp of distinct names of length d whose first element is
   the name of "n" (the key 0), with
     self.minimum_sizes  = zip(pp, pmins)          self.min_child_sizes[i] = zip(pp, mins[i])
     self.max_child_sizes[i] = the bounded entries of zip(pp, maxs[i])   (max_dict)
     n = P[0],  **parameters = any dictionary holding P[1..] under pp[1..]
   reading each yielded dictionary back as a vector (vec_of_dict) gives exactly
   valid_comps d pmins mins maxs P, in the same order. *)
Theorem C08_valid_compositions_is_source : forall pp d pmins P params0 mins maxs,
  NoDup pp -> length pp = d -> nth 0 pp 0 = 0 ->
  length pmins = d ->
  (forall i, (0 < i < d)%nat -> Gen.Prelude.py_dget 0 params0 (nth i pp 0) = vget P i) ->
  Forall (fun v : vec => length v = d) mins ->
  Forall (fun v : list (option Z) => length v = d) maxs ->
  mins <> [] -> maxs <> [] ->
  map (map (GenBridgeValidComps.vec_of_dict pp))
      (ProductValidCompositions.valid_compositions pp
         (ProductRelianceProfile.product_reliance_profile
            (combine pp pmins) (map (combine pp) mins) (map (GenBridgeValidComps.max_dict pp) maxs)
            (vget P 0) params0)
         (vget P 0) params0) =
  valid_comps d pmins mins maxs P.
Proof.
  intros pp d pmins P params0 mins maxs H1 H2 H3 H4 H5 H6 H7 H8 H9.
  exact (GenBridgeValidComps.valid_comps_is_source pp d H1 H2 H3 pmins P params0 H4 H5 mins maxs H6 H7 H8 H9).
Qed.

(* the recursive generator _helper alone: for dictionaries {name: (lo, hi)} built from the
   model's boxes and any keyword dictionary holding the vector p *)
Theorem C08_helper_is_source : forall pp d, NoDup pp -> length pp = d ->
  forall mms fuel params p,
  mms <> [] -> Forall (fun mm : list (Z * Z) => length mm = d) mms ->
  GenBridgeValidComps.holds pp d params p -> (length mms < fuel)%nat ->
  map (map (GenBridgeValidComps.vec_of_dict pp))
      (ProductValidCompositions.valid_compositions_helper_fuel fuel pp
         (map (GenBridgeValidComps.minmax_dict pp) mms) params) =
  helper d mms p.
Proof. exact GenBridgeValidComps.helper_is_source. Qed.

(* the bounds get_terms / get_sub_objects hand to utils.compositions (the properties min_sizes,
   max_sizes; Gen/ProductMinSizes.v, Gen/ProductMaxSizes.v) are column 0 of those vectors *)
Theorem C08_bounds_are_source : forall pp d mins maxs,
  NoDup pp -> length pp = d -> nth 0 pp 0 = 0 -> (0 < d)%nat ->
  Forall (fun v : vec => length v = d) mins ->
  Forall (fun v : list (option Z) => length v = d) maxs ->
  ProductMinSizes.product_min_sizes (map (combine pp) mins) = sizes_of mins /\
  ProductMaxSizes.product_max_sizes (map (GenBridgeValidComps.max_dict pp) maxs) =
    map (fun mx => nth 0 mx None) maxs.
Proof.
  intros pp d mins maxs H1 H2 H3 H4 H5 H6. split.
  - exact (GenBridgeValidComps.min_sizes_is_source pp d H1 H2 H3 H4 mins H5).
  - exact (GenBridgeValidComps.max_sizes_is_source pp d H1 H2 H3 H4 maxs H6).
Qed.

(* the hypotheses are satisfiable and the statement is not vacuous: two children, one extra
   parameter (name 5), "n" = name 0; both sides enumerate the same two compositions *)
Example C08_ex_valid_compositions_is_source :
  let pp := [0; 5] in
  let pmins := [1; 0] in let P := [3; 1] in
  let mins := [[1; 0]; [0; 0]] in let maxs := [[Some 1; None]; [None; None]] in
  map (map (GenBridgeValidComps.vec_of_dict pp))
      (ProductValidCompositions.valid_compositions pp
         (ProductRelianceProfile.product_reliance_profile
            (combine pp pmins) (map (combine pp) mins) (map (GenBridgeValidComps.max_dict pp) maxs)
            (vget P 0) [(5, 1)])
         (vget P 0) [(5, 1)]) = valid_comps 2 pmins mins maxs P /\
  valid_comps 2 pmins mins maxs P = [[[1; 0]; [2; 1]]; [[1; 1]; [2; 0]]].
Proof. vm_compute. split; reflexivity. Qed.

Print Assumptions C08_threshold.
Print Assumptions C08_threshold_interval.
Print Assumptions C08_threshold_union.
Print Assumptions C08_union_weights_ok.
Print Assumptions C08_threshold_product.
Print Assumptions C08_valid_compositions_spec.
Print Assumptions C08_valid_compositions_complete.
Print Assumptions C08_valid_compositions_get_terms.
Print Assumptions C08_tree_eqb.
Print Assumptions C08_uniform.
Print Assumptions C08_counted.
Print Assumptions C08_support.
Print Assumptions C08_reject_empty.
Print Assumptions C08_equivalence_step.
Print Assumptions C08_equivalence_path.
Print Assumptions C08_uniform_true_counts.
Print Assumptions C08_rules_local.
Print Assumptions C08_uniform_params.
Print Assumptions C08_counted_params.
Print Assumptions C08_support_params.
Print Assumptions C08_union_weights_params.
Print Assumptions C08_product_weights_params.
Print Assumptions C08_pick_dict_union.
Print Assumptions C08_pick_dict_product.
Print Assumptions C08_path_dictionary.
Print Assumptions C08_path_fixed_determined.
Print Assumptions C08_path_fixed_honest.
Print Assumptions C08_uniform_params_refuted.
Print Assumptions C08_reject_empty_params.
Print Assumptions C08_union_total_params.
Print Assumptions C08_product_total_params.
Print Assumptions C08_draws_return_union_params.
Print Assumptions C08_draws_return_product_params.
Print Assumptions C08_sim_prob.
Print Assumptions C08_wf_trees_coincide.
Print Assumptions C08_sampler_is_unparse.
Print Assumptions C08_uniform_objects.
Print Assumptions C08_describes_decided.
Print Assumptions C08_uniform_objects_decided.
Print Assumptions C08_objects_support.
Print Assumptions C08_wf_trees_coincide_params.
Print Assumptions C08_sampler_is_unparse_params.
Print Assumptions C08_uniform_objects_params.
Print Assumptions C08_valid_compositions_is_source.
Print Assumptions C08_helper_is_source.
Print Assumptions C08_bounds_are_source.
