(* C19 — expanding verified classes preserves the enumeration and finishes the job.
   Statements only (model: Expand/Model.v; proofs: Expand/{InitProofs,StepProofs,LoopProofs,Ids,
   Reverse,Semantics,EvalSpec}.v; concrete runs: Expand/Example.v).

   expand_verified fuel deep empties s0 rounds st0 = (outcome, final store, trace)
     s0      the original specification: root and rules_dict (insertion ordered), every rule
             OBJECT with its identity, the identities of its inner original_rule objects and of
             its caches
     rounds  what the inner searches answered, call by call (None = SpecificationNotFound,
             otherwise the rules: seeded copies found through the rule cache, or rules made by
             the search).  EVERY theorem quantifies over all answers; a theorem that needs a
             contract of the search (C04/C09/C11) states it as a hypothesis on `rounds`.
     deep    true = specification._detached_copy, the code as it is since fix 58ed6bb (the mode the
             harness runs); false = plain copy.copy (shallow), the code before that fix, kept for
             C19_no_shared_state_refuted only
     empties the empty classes (CombinatorialClass.is_empty)
     st0     the store: next unused identity, owner of every rule's sub-recurrences
     trace   per round (class expanded, reverse flag of the successful call, retried?)
   Termination of the loop is the documented assumption "the pack produces a finite universe"
   (VerificationStrategy.pack): the model has fuel, and the theorems speak about runs that
   return (outcome Done), not about runs that exhaust the fuel. *)
From Coq Require Import ZArith List Bool Arith Lia.
From CSS Require Import Forest.Spec Spec.Eval Expand.Model Expand.InitProofs Expand.StepProofs
     Expand.LoopProofs Expand.Ids Expand.Reverse Expand.Semantics Expand.Example.
Import ListNotations.
Close Scope Z_scope.

(* (1) SAME ENUMERATION.  terms/T/opr/Gb interpret the rule records: opr gives a rule its term
   operator, `good` = genuine w.r.t. the true tables T (C09) + local w.r.t. the declared shifts
   (C10) + nothing below size 0; Gb says so for a member or plain rule and depends only on what
   the rule is (Gb_ext).  If the original is keyed (one rule per class), its rules are good, the
   rules the inner searches make are genuine (strategy contract: C04/C09), and original and
   result are productive at the root (C02/C11; for the result this is the contract of the last
   inner search, re-decided per instance by the harness), then the result has the same root, is
   keyed, all its rules are good, and BOTH specifications evaluate (Rule.get_terms through the
   children, Spec/Eval.v `eval`) to the true table of the root at every size — the same numbers. *)
Theorem C19_same_enumeration :
  forall (terms : Type) (dflt : terms) (T : nat -> Z -> terms) (opr : rule -> srule terms)
         (Gb : brule -> Prop),
  (forall b b', content b = content b' -> Gb b -> Gb b') ->
  (forall b, Gb b -> good terms dflt T opr (Plain b)) ->
  (forall p pc ms, ms <> [] -> linked ms -> path_ok ms = true -> Forall Gb ms ->
                   good terms dflt T opr (Path p pc ms)) ->
  (forall c m, (m < 0)%Z -> T c m = dflt) ->
  forall deep empties fuel s0 rounds st0 s' st' tr',
  expand_verified fuel deep empties s0 rounds st0 = (Done s', st', tr') ->
  keyed s0 -> (forall c r, In (c, r) (s_rules s0) -> good terms dflt T opr r) ->
  Forall Gb (spec_atoms s0) ->
  rounds_ok (fun (_ : bool) its => Forall (fun it => forall b, made_from it b -> Gb b) its) rounds ->
  (forall n c, mem c empties = true -> Gb (empty_rule n c)) ->
  pumps (keys_of terms opr s0) (s_root s0) -> pumps (keys_of terms opr s') (s_root s') ->
  s_root s' = s_root s0 /\ keyed s' /\
  (forall c r, In (c, r) (s_rules s') -> good terms dflt T opr r) /\
  forall n, (0 <= n)%Z -> exists f0, forall f, f0 <= f ->
    eval terms dflt (sp terms opr s0) f (s_root s0) n = T (s_root s0) n /\
    eval terms dflt (sp terms opr s') f (s_root s') n = T (s_root s0) n.
Proof. intros. eapply same_enumeration; eauto. Qed.

(* the hypotheses of (1) are met by a concrete run (Expand/Example.v run 1: counts 2,1,1,...) *)
Example C19_same_enumeration_applies :
  forall n, (0 <= n)%Z -> exists f0, forall f, f0 <= f ->
    eval Z 0%Z (sp Z ex_opr ex1_s0) f 0 n = exT 0 n /\ eval Z 0%Z (sp Z ex_opr ex1_s1) f 0 n = exT 0 n.
Proof.
  apply (C19_same_enumeration Z 0%Z exT ex_opr ex_Gb ex_Gb_ext ex_sem_plain ex_sem_path exT_neg
           false [] 5 ex1_s0 ex1_rounds ex1_st0 ex1_s1 _ _ ex1_run ex1_keyed ex1_good ex1_atoms ex1_rounds_ok).
  - intros n c H. discriminate.
  - exact ex_pumps0.
  - exact ex_pumps1.
Qed.

(* (1b) WHERE THE RULES OF THE RESULT COME FROM.  Any property Q of rules that does not depend
   on object identities, holds of the rules of the original (members of paths included), of every
   rule an inner search makes (possibly depending on the reverse flag of the call) and of empty
   rules of empty classes, holds of every rule of the result: expansion keeps rules of the
   original, adds rules made by the packs' searches, and empty rules — nothing else. *)
Theorem C19_rules_preserved :
  forall deep empties (Q : brule -> Prop) (Qitem : bool -> item -> Prop),
  (forall b b', content b = content b' -> Q b -> Q b') ->
  (forall rev it b, Qitem rev it -> made_from it b -> Q b) ->
  (forall n c, mem c empties = true -> Q (empty_rule n c)) ->
  forall fuel s0 rounds st0 s' st' tr',
  Forall Q (spec_atoms s0) ->
  rounds_ok (fun rev its => Forall (Qitem rev) its) rounds ->
  expand_verified fuel deep empties s0 rounds st0 = (Done s', st', tr') ->
  Forall Q (spec_atoms s').
Proof. intros. eapply loop_content; eauto. Qed.

(* (2) NOTHING LEFT TO EXPAND: when expand_verified returns, no rule of the result is a
   verification rule whose strategy offers a pack (for every answer sequence). *)
Theorem C19_no_expandable_left :
  forall deep empties fuel s0 rounds st0 s' st' tr',
  expand_verified fuel deep empties s0 rounds st0 = (Done s', st', tr') ->
  unexpanded (s_rules s') = None /\
  forall c b, In (c, Plain b) (s_rules s') -> b_kind b <> BVerif true.
Proof.
  intros. split; [eapply loop_exit; eauto|]. eapply unexpanded_none. eapply loop_exit; eauto.
Qed.

(* (3) FRESH RULE OBJECTS.  If every identity the original mentions lies below n0 and the store
   hands out identities from n0 on, then after at least one round no rule object of the result
   (plain rule, path rule, member of a path) is an object the original mentions. *)
Theorem C19_fresh_objects :
  forall deep empties fuel n0 s0 rounds st0 s' st' tr',
  (forall i, In i (all_ids s0) -> i < n0) -> n0 <= next st0 ->
  expand_verified fuel deep empties s0 rounds st0 = (Done s', st', tr') -> tr' <> [] ->
  forall i, In i (rule_objects s') -> ~ In i (all_ids s0).
Proof.
  intros deep empties fuel n0 s0 rounds st0 s' st' tr' Hb Hn H Ht i Hi Hi0.
  pose proof (fresh_rule_objects deep n0 s0 s' (loop_fresh deep empties n0 s0 fuel rounds st0 s' st' tr' Hn H Ht) i Hi).
  pose proof (Hb i Hi0). lia.
Qed.

(* ... and the objects BEHIND the rules: an inner original_rule object or a cache of the result is
   new, or — with the shallow copy of the code BEFORE fix 58ed6bb only (deep = false) — an inner
   object / a cache of the original *)
Theorem C19_inner_objects_and_caches :
  forall deep empties fuel n0 s0 rounds st0 s' st' tr',
  n0 <= next st0 ->
  expand_verified fuel deep empties s0 rounds st0 = (Done s', st', tr') -> tr' <> [] ->
  (forall i, In i (inner_objects s') -> n0 <= i \/ (deep = false /\ In i (inner_objects s0))) /\
  (forall i, In i (caches s') -> n0 <= i \/ (deep = false /\ In i (caches s0))).
Proof.
  intros deep empties fuel n0 s0 rounds st0 s' st' tr' Hn H Ht.
  pose proof (loop_fresh deep empties n0 s0 fuel rounds st0 s' st' tr' Hn H Ht) as HF.
  split; [apply fresh_inner; auto|apply fresh_caches; auto].
Qed.

(* "the result shares no cache and no inner rule object with the original" was FALSE of the code
   before fix 58ed6bb (deep = false): copy.copy is shallow.  /repo now uses _detached_copy, for which
   C19_detached_copy_shares_nothing holds; this theorem witnesses the OLD code only (finding
   expand-copies-share-caches-with-original, fixed).  Witnesses (Expand/Example.v): run 1 — the root rule's copy
   keeps the cache object 1 of the original's root rule; run 2 — the copied EquivalenceRule keeps
   the original's inner original_rule object 3.  Replayed on the implementation:
   findings/c19_shared_caches.py. *)
Theorem C19_no_shared_state_refuted :
  (exists s' st' tr' i, expand_verified 5 false [] ex1_s0 ex1_rounds ex1_st0 = (Done s', st', tr') /\
                        tr' <> [] /\ In i (caches s') /\ In i (caches ex1_s0)) /\
  (exists s' st' tr' i, expand_verified 5 false [3] ex2_s0 ex2_rounds ex2_st0 = (Done s', st', tr') /\
                        tr' <> [] /\ In i (inner_objects s') /\ In i (inner_objects ex2_s0)).
Proof.
  split.
  - exists ex1_s1. eexists. eexists. exists 1. split; [exact ex1_run|]. split; [discriminate|].
    split; vm_compute; tauto.
  - exists ex2_s1. eexists. eexists. exists 3. split; [exact ex2_run|]. split; [discriminate|].
    split; vm_compute; tauto.
Qed.

(* with a detaching copy nothing is shared *)
Theorem C19_detached_copy_shares_nothing :
  forall empties fuel n0 s0 rounds st0 s' st' tr',
  n0 <= next st0 ->
  expand_verified fuel true empties s0 rounds st0 = (Done s', st', tr') -> tr' <> [] ->
  forall i, In i (rule_objects s' ++ inner_objects s' ++ caches s') -> n0 <= i.
Proof.
  intros empties fuel n0 s0 rounds st0 s' st' tr' Hn H Ht i Hi.
  pose proof (loop_fresh true empties n0 s0 fuel rounds st0 s' st' tr' Hn H Ht) as HF.
  apply in_app_or in Hi. destruct Hi as [Hi|Hi]; [eapply fresh_rule_objects; eauto|].
  apply in_app_or in Hi. destruct Hi as [Hi|Hi].
  - destruct (fresh_inner true n0 s0 s' HF i Hi) as [K|[K _]]; [exact K|discriminate].
  - destruct (fresh_caches true n0 s0 s' HF i Hi) as [K|[K _]]; [exact K|discriminate].
Qed.

(* (3b) THE ORIGINAL IS NOT TOUCHED.  Whatever happens (the run returns, raises
   SpecificationNotFound or an assertion, or runs out of fuel), every rule identity below n0 —
   every rule of the original — has its sub-recurrences bound as before: set_subrecs is only ever
   applied to objects created during the run.  (The original specification itself is an
   immutable value of the model: expand_comb_class reads self.root and self.rules_dict only.) *)
Theorem C19_original_untouched :
  forall deep empties fuel n0 s0 rounds st0 o st' tr',
  n0 <= next st0 ->
  expand_verified fuel deep empties s0 rounds st0 = (o, st', tr') ->
  forall i, i < n0 -> owner_of i (owners st') = owner_of i (owners st0).
Proof. intros. eapply loop_owner; eauto. Qed.

(* (4) THE RESULT IS A SPECIFICATION FOR THE SAME START CLASS: same root; closed (the root and
   every child of every rule has a rule); keyed (keys pairwise different, each the class of its
   rule); every rule with children takes its sub-recurrences from the result.  Holds for every
   answer of the inner searches: the constructor enforces it or raises. *)
Theorem C19_result_valid :
  forall deep empties fuel s0 rounds st0 s' st' tr',
  expand_verified fuel deep empties s0 rounds st0 = (Done s', st', tr') -> tr' <> [] ->
  s_root s' = s_root s0 /\ closed s' /\ keyed s' /\ bound s' st'.
Proof.
  intros deep empties fuel s0 rounds st0 s' st' tr' H Ht.
  destruct (loop_closed deep empties fuel s0 rounds st0 s' st' tr' H Ht) as (A & B & C).
  repeat split; try apply B; try apply C; auto. eapply loop_bound; eauto.
Qed.

(* without a round the very same specification is handed back *)
Theorem C19_nothing_to_expand :
  forall deep empties fuel s0 rounds st0 s' st' tr',
  expand_verified fuel deep empties s0 rounds st0 = (Done s', st', tr') -> tr' = [] -> s' = s0.
Proof. intros. eapply loop_no_round; eauto. Qed.

(* (5) THE RETRY.  The rounds are consumed in order; the i-th round produced its specification
   with reverse = True exactly when its reverse-free call had raised SpecificationNotFound (and
   reverse and continue_expanding_verified are switched on together). *)
Theorem C19_reverse_only_after_failure :
  forall deep empties fuel s0 rounds st0 o st' tr' i x rev retried,
  expand_verified fuel deep empties s0 rounds st0 = (o, st', tr') ->
  nth_error tr' i = Some (x, rev, retried) ->
  rev = retried /\ exists rd, nth_error rounds i = Some rd /\ (rev = true <-> nth 0 rd None = None).
Proof.
  intros deep empties fuel s0 rounds st0 o st' tr' i x rev retried H Hn.
  destruct (loop_trace deep empties fuel s0 rounds st0 [] o st' tr' H) as (new & E & Hal).
  simpl in E. subst. eapply aligned_nth; eauto.
Qed.

(* ... and if the reverse-free searches keep their contract (no new reverse rule: RuleDBForest
   with reverse=False adds none), every reverse rule of the result is a copy of a reverse rule of
   the original or was made by a retry call *)
Theorem C19_reverse_rules_origin :
  forall deep empties fuel s0 rounds st0 s' st' tr',
  (forall rd its, In rd rounds -> nth 0 rd None = Some its -> no_fresh_reverse its) ->
  expand_verified fuel deep empties s0 rounds st0 = (Done s', st', tr') ->
  forall b, In b (spec_atoms s') -> b_rev b = true ->
    (exists b0, In b0 (spec_atoms s0) /\ content b = content b0) \/ retry_made rounds (content b).
Proof. intros. eapply reverse_origin; eauto. Qed.

(* the hypotheses of (2)-(5) are met: run 2 returns after a retry, with a path and an empty class *)
Example C19_example_run_with_retry :
  expand_verified 5 false [3] ex2_s0 ex2_rounds ex2_st0 =
  (Done ex2_s1, mkStore 18 [(14, 1); (9, 1); (12, 1); (16, 1); (0, 0); (5, 0)] 1, [(1, true, true)])
  /\ (forall i, In i (all_ids ex2_s0) -> i < 7) /\ 7 <= next ex2_st0.
Proof.
  split; [exact ex2_run|]. split; [|simpl; lia].
  vm_compute. intros i H. repeat (destruct H as [<-|H]; [lia|]). contradiction.
Qed.

Print Assumptions C19_same_enumeration.
Print Assumptions C19_rules_preserved.
Print Assumptions C19_no_expandable_left.
Print Assumptions C19_fresh_objects.
Print Assumptions C19_inner_objects_and_caches.
Print Assumptions C19_no_shared_state_refuted.
Print Assumptions C19_detached_copy_shares_nothing.
Print Assumptions C19_original_untouched.
Print Assumptions C19_result_valid.
Print Assumptions C19_nothing_to_expand.
Print Assumptions C19_reverse_only_after_failure.
Print Assumptions C19_reverse_rules_origin.
