(* C20 — equations and generating functions agree with the true enumeration.

   Only statements; every proof applies lemmas of Count/Series*.v, Count/Equations*.v and
   Count/GenfSelect*.v.

   Model (Count/Equations.v): `rule_equation pars r` transcribes get_equation of every rule form of
   strategies/rule.py with the constructors' get_equation of strategies/constructor/{disjoint,cartesian}.py
   AS REPAIRED by fix FIXHASH_EQ: a child parameter that no parent parameter is mapped to gets its variable
   set to 1 (it is summed out, as get_terms does), several parent parameters mapped to one child parameter
   are multiplied (in products too); `pars l` are the names of the statistics of class l (variable ids; 0
   is x).  `rule_equation_old` is the code BEFORE that fix (HISTORY, last section).
   Count/GenfSelect.v: the selection step of CombinatorialSpecification.get_genf as repaired by fix
   FIXHASH_GENF (`genf_select`: every class's solved function must expand to that class's counts on the
   check+1 compared terms) and before (`genf_select_old`: the root only); what sympy.solve returned is an
   input of that model.
   Semantics: `holds S O V N lhs rhs` — both sides, with every F_l read as the series S l and Div read as
   the cross-multiplied identity, have the same coefficient at every monomial of x-degree <= N (monomials
   compared on the variables V).  `SN T N` is the family of TRUE series of the classes, truncated at order
   N, built from the true term tables  T l n  (Counter parameters->count).

   GENUINENESS of a rule is a HYPOTHESIS of every theorem of group 1 (nobody concludes it):
   * union_genuine pars T p kids (Count/EquationsRules.v) is stated on the term tables, positionally: the
     parent's Counter at size n is the sum of the children's Counters re-keyed through the dictionaries
     (an unmapped parent parameter reads 0, an unmapped child parameter is summed out);
   * product_genuine pars T V p kids N is stated on SERIES coefficients for the given V and N: the
     parent's true series is the Cauchy product of the children's re-keyed series up to order N — i.e.
     the theorem's own content for products is the substitution step (simultaneous substitution of
     variables = positional re-keying), not the convolution.
   These are this file's own predicates.  C09 has predicates of the same NAMES
   (Count/ConstructorsUnionProduct.v) over other types; no lemma relates the two, and C09 too assumes
   genuineness.  Per instance the harness evaluates exactly these two predicates on brute-force tables
   for every generated rule (harness/props/c20.py, _genuine).
   The only other condition on a child is kid_wfd: its dictionary is a dictionary (distinct keys) from
   parameters of the parent to parameters of the child, names of one class are distinct and none is x.
   NO cover and NO injectivity condition is left: this is the full first clause of the property.

   Every theorem quantifies over ALL truncation orders N, all variable sets V, all term tables and all
   parameter dictionaries meeting the stated conditions.      *)
From Coq Require Import ZArith List Bool Lia.
From CSS Require Import Forest.Spec Spec.Eval Gen.Prelude Gen.ProductShifts.
From CSS Require Import Count.Series Count.SeriesConv Count.Equations Count.EquationsProofs
  Count.EquationsRules Count.EquationsEquiv Count.SeriesUnique Count.SeriesUniqueRefuted
  Count.SeriesClosedForm Count.GenfSelect Count.GenfSelectProofs
  Count.SeriesCriterion Count.SeriesCriterionProofs.
Import ListNotations.
Open Scope Z_scope.

Definition satisfied pars T O V N (r : rule) : Prop :=
  match rule_equation pars r with
  | Ok lhs rhs => holds (SN T N) O V N lhs rhs
  | _ => False
  end.
(* the same about the code before fix FIXHASH_EQ (HISTORY) *)
Definition satisfied_before_fix pars T O V N (r : rule) : Prop :=
  match rule_equation_old pars r with
  | Ok lhs rhs => holds (SN T N) O V N lhs rhs
  | _ => False
  end.

(* ------------------------------------------------------------ 1. C20_equation_satisfied, form by form *)

(* Rule with a DisjointUnion constructor.  kids = children with their extra_parameters dictionaries
   (parent name -> child name); a child variable is replaced by the PRODUCT of all parent variables
   mapped to it, by 1 when there is none (the statistic is summed out).  EVERY genuine rule with
   well-formed dictionaries. *)
Theorem C20_union_equation_satisfied : forall pars T O V p kids N,
  class_wf pars T p -> Forall (kid_wfd pars T (pars p)) kids -> union_genuine pars T p kids ->
  satisfied pars T O V N (RUnion (mkorule p (map fst kids) (map snd kids))).
Proof. intros. apply union_equation_holds; auto. Qed.

(* Rule with a CartesianProduct constructor: likewise every genuine rule with well-formed dictionaries
   (two parent parameters may be mapped to one child parameter, child parameters may be unmapped). *)
Theorem C20_product_equation_satisfied : forall pars T O V p kids N,
  class_wf pars T p -> Forall (kid_wfd pars T (pars p)) kids -> product_genuine pars T V p kids N ->
  satisfied pars T O V N (RProduct (mkorule p (map fst kids) (map snd kids))).
Proof. intros. apply product_equation_holds; auto. Qed.

(* ReverseRule with parameters: Complement/Quotient.get_equation raise
   NotImplementedError and the ORIGINAL rule's equation (for the original parent) is
   emitted — which the two theorems above cover. *)
Theorem C20_reverse_with_parameters_falls_back : forall pars o idx,
  any_params (o_eps o) = true ->
  rule_equation pars (RRevUnion o idx) = rule_equation pars (RUnion o) /\
  rule_equation pars (RRevProduct o idx) = rule_equation pars (RProduct o).
Proof. intros. split; [apply rev_union_fallback|apply rev_product_fallback]; auto. Qed.

(* ReverseRule of a union rule without parameters:  F_c = F_p - F_other - ... *)
Theorem C20_complement_equation_satisfied : forall pars T O V p cs idx N,
  no_params pars p cs -> class_wf pars T p -> (forall c, In c cs -> class_wf pars T c) ->
  union_genuine pars T p (plain_kids cs) -> (idx < length cs)%nat ->
  satisfied pars T O V N (RRevUnion (mkorule p cs (map snd (plain_kids cs))) idx).
Proof.
  intros pars T O V p cs idx N H1 H2 H3 H4 H5.
  pose proof (complement_equation_holds pars T O V p cs idx N H1 H2 H3 H4 H5) as H.
  unfold satisfied, rule_equation. cbn [rule_equation_with o_parent o_children o_eps].
  destruct (complement_equation _ _ _); auto; contradiction.
Qed.

(* ReverseRule of a product rule without parameters:  F_c = F_p / F_other / ...,
   read as  F_c * F_other * ... = F_p *)
Theorem C20_quotient_equation_satisfied : forall pars T O V p cs idx N,
  no_params pars p cs -> class_wf pars T p -> (forall c, In c cs -> class_wf pars T c) ->
  product_genuine pars T V p (plain_kids cs) N -> (idx < length cs)%nat ->
  satisfied pars T O V N (RRevProduct (mkorule p cs (map snd (plain_kids cs))) idx).
Proof.
  intros pars T O V p cs idx N H1 H2 H3 H4 H5.
  pose proof (quotient_equation_holds pars T O V p cs idx N H1 H2 H3 H4 H5) as H.
  unfold satisfied, rule_equation. cbn [rule_equation_with o_parent o_children o_eps].
  destruct (quotient_equation _ _ _); auto; contradiction.
Qed.

(* EquivalenceRule of a union rule: a one-child union with extra_parameters[child_idx] *)
Theorem C20_equivalence_equation_satisfied : forall pars T O V o cidx N,
  let p := o_parent o in let c := nth cidx (o_children o) (-1) in let ep := nth cidx (o_eps o) [] in
  class_wf pars T p -> kid_wfd pars T (pars p) (c, ep) -> union_genuine pars T p [(c, ep)] ->
  satisfied pars T O V N (REquivUnion o cidx).
Proof. intros. apply equiv_equation_holds; auto. Qed.

(* EquivalencePathRule: a one-child union with the composed dictionary `ep`.  The genuineness of the
   COMPOSED one-child union is a hypothesis (C09_path is about another predicate and is not used).  The end
   class may track statistics that no parameter of the start class is mapped to
   (EquivalencePathRule.constructor then passes fixed_values = {k: 0}, which get_equation does not read):
   their variables are set to 1. *)
Theorem C20_path_equation_satisfied : forall pars T O V p steps c ep N,
  path_eps (pars p) steps = Some ep ->
  class_wf pars T p -> kid_wfd pars T (pars p) (c, ep) -> union_genuine pars T p [(c, ep)] ->
  satisfied pars T O V N (RPath p steps c).
Proof. intros. eapply path_equation_holds; eauto. Qed.

(* verification rules: atoms, empty classes, user strategies with their own series *)
Theorem C20_atom_equation_satisfied : forall pars T O V c m N,
  pars c = [] -> 0 <= m -> In 0 V -> atom_genuine T c m ->
  satisfied pars T O V N (RAtom c m).
Proof. intros. apply atom_equation_holds; auto. Qed.

Theorem C20_empty_equation_satisfied : forall pars T O V c N,
  empty_genuine T c -> satisfied pars T O V N (REmpty c).
Proof. intros. apply empty_equation_holds; auto. Qed.

Theorem C20_verified_equation_satisfied : forall pars T O V c N,
  (forall m : mono, 0 <= m 0 <= N -> pcoef V (cser (pars c) (tbl N (T c))) m = pcoef V (O c) m) ->
  satisfied pars T O V N (RVerified c).
Proof. intros. apply verified_equation_holds; auto. Qed.

(* EquivalenceRule(ReverseRule(union rule p -> (.., c, ..))): Complement(c, (p,), 0, (ep,)).
   With the empty dictionary it emits F_c(x, c's names) = F_p(x, p's names); satisfied when the
   original rule is genuine (p's parameters are then 0 on every object) and c's parameters are 0
   on every object (kid_wf0 with the empty dictionary; in particular when c has none). *)
Theorem C20_equivalence_reverse_equation_satisfied : forall pars T O V c p N,
  class_wf pars T p -> kid_wf0 pars T (pars p) (c, []) -> union_genuine pars T p [(c, [])] ->
  satisfied pars T O V N (REquivRev c p []).
Proof. intros. apply equiv_rev_equation_holds; auto. Qed.

(* ... with a non-empty dictionary Complement.get_equation raises NotImplementedError and an
   EquivalenceRule has no fallback (ReverseRule has one): the rule has NO equation, and
   get_equations emits the placeholder F_c(..) = NOTIMPLEMENTED(x).  No claim is made about a
   placeholder.  (A specification handed back by the searcher groups every equivalence rule
   into an EquivalencePathRule; a bare EquivalenceRule only occurs with group_equiv=False.) *)
Theorem C20_equivalence_reverse_with_parameters_has_no_equation : forall pars c p ep,
  ep <> [] ->
  rule_equation pars (REquivRev c p ep) = NotImpl /\
  spec_equation pars (REquivRev c p ep) = Ok (cfun pars c) (Fun (-1) [Var 0]).
Proof. intros. apply equiv_rev_with_parameters; auto. Qed.

(* without parameters (every dictionary empty: a specification get_genf accepts) every rule form
   has an equation: the system get_genf solves contains no placeholder *)
Theorem C20_without_parameters_every_rule_has_equation : forall pars r,
  rule_plain pars r -> rule_equation pars r <> NotImpl /\ spec_equation pars r = rule_equation pars r.
Proof. intros. apply plain_rule_has_equation; auto. Qed.

(* and there the equivalence forms are one-child unions / complements (how the harness maps a
   real univariate specification to `uspec` below) *)
Theorem C20_without_parameters_equivalences_are_unions : forall pars p steps c,
  pars p = [] -> Forall (fun st : bool * list (Z * Z) => snd st = []) steps ->
  rule_equation pars (RPath p steps c) = rule_equation pars (RUnion (mkorule p [c] [[]])) /\
  rule_equation pars (REquivRev c p []) = rule_equation pars (RRevUnion (mkorule p [c] [[]]) 0).
Proof. intros. split; [apply plain_path_is_union; auto|apply plain_equiv_rev_is_complement]. Qed.

(* ------------------------------------------------------------ 2. C20_unique_series *)
(* Univariate specification `uspec` (union, product with declared minimum sizes,
   complement, atom, empty rules) whose forest keys `keys` carry the declared shifts
   (product: CartesianProductStrategy.shifts, Gen/ProductShifts.v).  `solution W`:
   W vanishes at negative sizes, satisfies EVERY emitted equation at EVERY order,
   and vanishes below the declared minimum sizes of the factors of products.
   Two solutions agree on every class that pumps: in particular a family of closed
   forms that satisfies all equations identically, is analytic at 0 and vanishes
   below the minimum sizes has the true counts as Taylor coefficients at every
   order.  (Quotient rules and several variables: not covered.) *)
Theorem C20_unique_series : forall (uspec : nat -> option urule) (keys : list fkey),
  (forall k, In k keys -> exists r, uspec (parent k) = Some r /\ kids k = r_kids Z (to_srule r)) ->
  (forall c r, uspec c = Some r -> urule_wf c r) ->
  forall T U : nat -> Z -> Z,
  solution uspec T -> solution uspec U ->
  forall c, pumps keys c -> forall n, 0 <= n -> U c n = T c n.
Proof. intros. eapply unique_series; eauto. Qed.

(* the minimum-size condition cannot be dropped: a specification that pumps whose
   equation system is satisfied at every order by two different families *)
Theorem C20_unique_needs_minimum_sizes_refuted :
  exists (uspec : nat -> option urule) (keys : list fkey) (T U : nat -> Z -> Z) (c : nat) (n : Z),
  (forall k, In k keys -> exists r, uspec (parent k) = Some r /\ kids k = r_kids Z (to_srule r)) /\
  (forall c r, uspec c = Some r -> urule_wf c r) /\
  solution uspec T /\
  (forall c m, m < 0 -> U c m = 0) /\ (forall c r, uspec c = Some r -> satisfies U c r) /\
  pumps keys c /\ 0 <= n /\ U c n <> T c n.
Proof.
  exists rf_spec, rf_keys, rf_T, rf_U, O, 0.
  destruct unique_needs_minimum_sizes_refuted as [A [B [C [D [E [F G]]]]]].
  repeat split; auto; try lia; apply C.
Qed.

(* ------------------------------------------------------------ 2b. closed forms (get_genf) *)
(* genuine_u W c r: rule r of class c is genuine for the counts W, in plain arithmetic
   (union: W c n = sum of the children's; product: the full Cauchy product; complement: the
   ORIGINAL union rule; atom; empty).  The true counts then solve the emitted system: *)
Theorem C20_true_counts_solution : forall (uspec : nat -> option urule) (W : nat -> Z -> Z),
  (forall c r, uspec c = Some r -> urule_wf c r) ->
  (forall c r, uspec c = Some r -> genuine_u W c r) ->
  (forall c m, m < 0 -> W c m = 0) ->
  (forall c kids, uspec c = Some (UProduct kids) -> forall k m, In k kids -> m < snd k -> W (fst k) m = 0) ->
  solution uspec W.
Proof. intros. apply true_counts_solution; auto. Qed.

(* The closed-form criterion.  G c = the Taylor coefficients of the function solved for class c
   (ALL classes of the specification, not only the root).  If G satisfies every emitted equation
   at every order (i.e. identically, as formal power series) and vanishes below the declared
   minimum sizes, then for every class that pumps G agrees with the true counts at EVERY order.
   Not covered: Quotient rules, verification strategies with their own series, several variables,
   rational non-integer Taylor coefficients (the carrier is Z).  Nothing here is about sympy:
   that the function get_genf returns has such an extension G is checked per instance. *)
Theorem C20_closed_form_criterion : forall (uspec : nat -> option urule) (keys : list fkey),
  (forall k, In k keys -> exists r, uspec (parent k) = Some r /\ kids k = r_kids Z (to_srule r)) ->
  (forall c r, uspec c = Some r -> urule_wf c r) ->
  forall W G : nat -> Z -> Z,
  (forall c r, uspec c = Some r -> genuine_u W c r) ->
  (forall c m, m < 0 -> W c m = 0) ->
  (forall c kids, uspec c = Some (UProduct kids) -> forall k m, In k kids -> m < snd k -> W (fst k) m = 0) ->
  (forall c m, m < 0 -> G c m = 0) ->
  (forall c r, uspec c = Some r -> satisfies G c r) ->
  (forall c kids, uspec c = Some (UProduct kids) -> forall k m, In k kids -> m < snd k -> G (fst k) m = 0) ->
  forall c, pumps keys c -> forall n, 0 <= n -> G c n = W c n.
Proof. intros. eapply closed_form_criterion; eauto. Qed.

(* ------------------------------------------------------------ 2c. the selection of get_genf (repaired) *)
(* genf_select check root classes W bs: bs = the solutions sympy.solve returned, each given by the Taylor
   coefficients of its functions (None: no function for the class / no Taylor expansion), W = the
   specification's own counts.  If get_genf returns (the root function of) branch b, then b is one of the
   solver's, it is the first that passes, and EVERY class's series -- not only the root's -- agrees with
   the counts on the check + 1 compared terms. *)
Theorem C20_genf_selection : forall check root classes (W : nat -> Z -> Z) bs b,
  genf_select check root classes W bs = Some b ->
  In b bs /\
  (forall c, c = root \/ In c classes ->
     exists g, b c = Some g /\ forall n, 0 <= n <= check -> g n = W c n) /\
  (exists pre post, bs = pre ++ b :: post /\
     forall b', In b' pre -> class_ok check W b' root && all_classes_agree check classes W b' = false).
Proof. intros. apply genf_selection; auto. Qed.

(* What the selection does NOT imply: agreement beyond the compared terms.  A branch that passes and whose
   root coefficient at x^(check+1) is not the count.  "Every order" needs, in addition, that the solved
   functions satisfy every emitted equation identically -- the identity check, which stays per instance. *)
Theorem C20_genf_selection_beyond_compared_terms_refuted :
  exists check root classes (W : nat -> Z -> Z) bs b,
  genf_select check root classes W bs = Some b /\ family b root (check + 1) <> W root (check + 1).
Proof. exists 6, O, [O], ne_W, [ne_b], ne_b. exact genf_selection_not_enough. Qed.

(* Selection + identity check = every order.  Of the premises of C20_closed_form_criterion the selection
   discharges ONE: the selected family vanishes below the declared minimum sizes (when they lie within the
   compared terms and the factors of products are classes of the specification).  Left per instance: the
   selected functions satisfy every emitted equation at every order and are 0 at negative sizes; left as
   hypotheses on the counts: every rule genuine, W = true counts = the specification's counts (C01). *)
Theorem C20_genf_selected_closed_form : forall (uspec : nat -> option urule) (keys : list fkey),
  (forall k, In k keys -> exists r, uspec (parent k) = Some r /\ kids k = r_kids Z (to_srule r)) ->
  (forall c r, uspec c = Some r -> urule_wf c r) ->
  forall check root classes (W : nat -> Z -> Z) bs b,
  genf_select check root classes W bs = Some b ->
  (forall c r, uspec c = Some r -> genuine_u W c r) ->
  (forall c m, m < 0 -> W c m = 0) ->
  (forall c kids, uspec c = Some (UProduct kids) -> forall k m, In k kids -> m < snd k -> W (fst k) m = 0) ->
  (forall c kids, uspec c = Some (UProduct kids) -> forall k, In k kids -> In (fst k) classes /\ snd k <= check + 1) ->
  (forall c m, m < 0 -> family b c m = 0) ->
  (forall c r, uspec c = Some r -> satisfies (family b) c r) ->
  forall c, pumps keys c -> forall n, 0 <= n -> family b c n = W c n.
Proof. intros. eapply genf_selected_closed_form; eauto. Qed.

(* ------------------------------------------------------------ 2c'. the criterion DECIDED on a real specification *)
(* us = the finite descriptor of a univariate specification (one (class, urule) per rule; harness
   props/c20.py uspec_of builds it from the rules_dict of EVERY get_genf case: product factors with
   minimum_size_of_object()), ks = the keys the LIBRARY declares (rule.shifts()).  crit_okb
   (Count/SeriesCriterion.v, evaluated inside run_c20 on that descriptor and compared with the harness's
   own verdict) is the conjunction of: one rule per class; every declared key = the key of its class's
   rule with the REGENERATED shifts (product: Gen/ProductShifts.v); urule_wf of every rule; declared
   minimum sizes non-negative and a function of the class; the root pumps w.r.t. the declared keys
   (pumpsb: the PROVED table-method decision, C03_total_sound_complete).  A true verdict gives the
   decidable hypotheses of C20_closed_form_criterion for uspec_of us: *)
Theorem C20_criterion_decided : forall (us : list (nat * urule)) (ks : list fkey) (root : nat),
  crit_okb us ks root = true ->
  (forall k, In k ks -> exists r, uspec_of us (parent k) = Some r /\ kids k = r_kids Z (to_srule r)) /\
  (forall c r, uspec_of us c = Some r -> urule_wf c r) /\
  pumps ks root /\
  (forall c r, In (c, r) us <-> uspec_of us c = Some r) /\
  (forall c kids, uspec_of us c = Some (UProduct kids) ->
     forall k, In k kids -> 0 <= snd k /\ snd k = dmin_of us (fst k)) /\
  (forall c, 0 <= dmin_of us c).
Proof. intros us ks root H. exact (crit_okb_sound us ks root H). Qed.

(* The criterion with those hypotheses replaced by the verdict.  What REMAINS per instance: every rule
   genuine for the true counts W (evaluated in-run to size M by genuine_ub: an oracle fact, not a proof),
   W and G zero below dmin_of us (0 for a class that is no factor: "nothing at negative sizes"), and G --
   the Taylor coefficients of the solved functions of ALL classes -- satisfies every emitted equation at
   every order (sympy's identity check: trusted).  W = the specification's counts is C01's conclusion. *)
Theorem C20_closed_form_criterion_decided : forall (us : list (nat * urule)) (ks : list fkey) (root : nat),
  crit_okb us ks root = true ->
  forall W G : nat -> Z -> Z,
  (forall c r, In (c, r) us -> genuine_u W c r) ->
  (forall c m, m < dmin_of us c -> W c m = 0) ->
  (forall c m, m < dmin_of us c -> G c m = 0) ->
  (forall c r, In (c, r) us -> satisfies G c r) ->
  forall n, 0 <= n -> G root n = W root n.
Proof. intros. eapply closed_form_criterion_decided; eauto. Qed.

(* the same for the function get_genf SELECTS: sel_okb us classes check decides that every factor of a
   product is among the compared classes and its minimum within the compared terms *)
Theorem C20_genf_selected_closed_form_decided :
  forall (us : list (nat * urule)) (ks : list fkey) (root : nat) check groot classes (W : nat -> Z -> Z) bs b,
  crit_okb us ks root = true ->
  sel_okb us classes check = true ->
  genf_select check groot classes W bs = Some b ->
  (forall c r, In (c, r) us -> genuine_u W c r) ->
  (forall c m, m < dmin_of us c -> W c m = 0) ->
  (forall c m, m < 0 -> family b c m = 0) ->
  (forall c r, In (c, r) us -> satisfies (family b) c r) ->
  forall n, 0 <= n -> family b root n = W root n.
Proof. intros. eapply genf_selected_closed_form_decided; eauto. Qed.

(* what the in-run table checks of run_c20 mean (sizes 0..M only) *)
Theorem C20_table_checks_decided : forall (W : nat -> Z -> Z) M (us : list (nat * urule)) c r,
  (genuine_ub W M c r = true <-> genuine_u_upto W M c r) /\
  (genuine_u W c r -> genuine_ub W M c r = true) /\
  (recur_okb W M c r = true <->
     forall n, 0 <= n <= M ->
       r_op Z (to_srule r) (fun i m => W (kid Z (to_srule r) i) m) (W c) n = W c n) /\
  (low_okb W M us = true <->
     forall k, In k (decls us) -> forall m, 0 <= m <= M -> m < snd k -> W (fst k) m = 0).
Proof.
  intros. split; [apply genuine_ub_spec|]. split; [|split; [apply recur_okb_spec|apply low_okb_spec]].
  intros G. apply genuine_ub_spec, genuine_u_upto_of, G.
Qed.

(* ------------------------------------------------------------ 2d. OPEN: the literal equation of a reverse rule *)
(* What fix FIXHASH_EQ leaves of the unmapped-child-parameter defect (open finding
   reverse-equation-unmapped-child-parameter): Complement.get_equation / Quotient.get_equation write their own
   equation whenever every DICTIONARY is empty -- also when a child carries a statistic nobody is mapped to;
   the reverse of a genuine union rule with well-formed (empty) dictionaries whose equation is not satisfied.
   (C20_complement_equation_satisfied / C20_quotient_equation_satisfied ask the classes to have no parameters.) *)
Theorem C20_reverse_equation_unmapped_refuted :
  exists pars T V p kids idx N,
  class_wf pars T p /\ Forall (kid_wfd pars T (pars p)) kids /\ union_genuine pars T p kids /\
  (idx < length kids)%nat /\
  ~ satisfied pars T (fun _ => []) V N (RRevUnion (mkorule p (map fst kids) (map snd kids)) idx).
Proof.
  exists rv_pars, rv_T, [0; 2], 0, [(1, [])], O, 2.
  split; [apply rv_class_wf; auto|]. split; [exact rv_kids_wfd|]. split; [exact rv_genuine|].
  split; [simpl; lia|]. exact (proj2 reverse_unmapped_refuted).
Qed.

(* PROPOSED repair (findings/c20_reverse_equation_unmapped_child_parameter.diff; rule_equation_guarded): the
   reverse constructors refuse as soon as a function carries a parameter.  Then the reverse of EVERY genuine
   union / product rule with well-formed dictionaries has a satisfied equation. *)
Definition satisfied_guarded pars T O V N (r : rule) : Prop :=
  match rule_equation_guarded pars r with
  | Ok lhs rhs => holds (SN T N) O V N lhs rhs
  | _ => False
  end.
Theorem C20_reverse_union_guarded_satisfied : forall pars T O V p kids idx N,
  class_wf pars T p -> Forall (kid_wfd pars T (pars p)) kids -> union_genuine pars T p kids ->
  (idx < length kids)%nat ->
  satisfied_guarded pars T O V N (RRevUnion (mkorule p (map fst kids) (map snd kids)) idx).
Proof. intros. apply reverse_union_guarded_holds; auto. Qed.
Theorem C20_reverse_product_guarded_satisfied : forall pars T O V p kids idx N,
  class_wf pars T p -> Forall (kid_wfd pars T (pars p)) kids -> product_genuine pars T V p kids N ->
  (idx < length kids)%nat ->
  satisfied_guarded pars T O V N (RRevProduct (mkorule p (map fst kids) (map snd kids)) idx).
Proof. intros. apply reverse_product_guarded_holds; auto. Qed.

(* ------------------------------------------------------------ 3. HISTORY: the code before the fixes *)
(* Before fix FIXHASH_EQ (rule_equation_old, satisfied_before_fix).
   DisjointUnion.get_equation left a child parameter that no parent parameter is mapped to as a free
   variable of the child's function, while get_terms sums it out: a genuine union rule (and the
   EquivalencePathRule over it, whose constructor has fixed_values = {e: 0}) whose emitted equation was not
   satisfied.  Replayed on the real code by findings/c20_union_unmapped_child_parameter.py. *)
Theorem C20_union_unmapped_refuted :
  exists pars T V p c ep N,
  class_wf pars T p /\ Forall (kid_wfd pars T (pars p)) [(c, ep)] /\ union_genuine pars T p [(c, ep)] /\
  ~ satisfied_before_fix pars T (fun _ => []) V N (RUnion (mkorule p [c] [ep])) /\
  ~ satisfied_before_fix pars T (fun _ => []) V N (RPath p [(false, ep)] c) /\
  (* the repaired method on the same rule *)
  satisfied pars T (fun _ => []) V N (RUnion (mkorule p [c] [ep])).
Proof.
  exists um_pars, um_T, um_V, 0, 1, [(1, 1)], 2.
  destruct union_unmapped_refuted as [A [B [C [D [E [F [G H]]]]]]].
  assert (Forall (kid_wfd um_pars um_T (um_pars 0)) [(1, [(1, 1)])]) as Wk.
  { constructor; [|constructor]. split; [exact B|]. split; [exact C|]. split; [exact D|exact E]. }
  split; [exact A|]. split; [exact Wk|]. split; [exact F|]. split; [exact G|]. split.
  - unfold satisfied_before_fix. rewrite H. exact G.
  - exact (C20_union_equation_satisfied um_pars um_T (fun _ => []) um_V 0 [(1, [(1, 1)])] 2 A Wk F).
Qed.

(* CartesianProduct.get_equation inverted the dictionary ({child: parent ...}): with two parent parameters
   mapped to one child parameter only the last one survived, and the emitted equation was NOT satisfied by a
   genuine rule.  Replayed by findings/c20_product_parameter_collision.py. *)
Theorem C20_product_collision_refuted :
  exists pars T V p kids N,
  class_wf pars T p /\ Forall (kid_wfd pars T (pars p)) kids /\ product_genuine pars T V p kids N /\
  ~ satisfied_before_fix pars T (fun _ => []) V N (RProduct (mkorule p (map fst kids) (map snd kids))) /\
  satisfied pars T (fun _ => []) V N (RProduct (mkorule p (map fst kids) (map snd kids))).
Proof.
  exists cx_pars, cx_T, cx_V, 0, cx_kids, 1.
  destruct product_collision_refuted as [A [B [C D]]].
  pose proof (Forall_kid_wf_wfd cx_pars cx_T (cx_pars 0) cx_kids B) as B'.
  split; [exact A|]. split; [exact B'|]. split; [exact C|]. split; [exact D|].
  exact (C20_product_equation_satisfied cx_pars cx_T (fun _ => []) cx_V 0 cx_kids 1 A B' C).
Qed.

(* Where the old methods were right: every child parameter mapped to or 0 on every object of the child
   (kid_wf0), and for products additionally no two parent parameters on one child parameter (pkid_wf0);
   the path form with fixed_values = {k: 0} under the same condition. *)
Theorem C20_union_equation_before_fix_satisfied : forall pars T O V p kids N,
  class_wf pars T p -> Forall (kid_wf0 pars T (pars p)) kids -> union_genuine pars T p kids ->
  satisfied_before_fix pars T O V N (RUnion (mkorule p (map fst kids) (map snd kids))).
Proof. intros. apply union_equation_old_holds0; auto. Qed.

Theorem C20_product_equation_before_fix_satisfied : forall pars T O V p kids N,
  class_wf pars T p -> Forall (pkid_wf0 pars T (pars p)) kids -> product_genuine pars T V p kids N ->
  satisfied_before_fix pars T O V N (RProduct (mkorule p (map fst kids) (map snd kids))).
Proof. intros. apply product_equation_old_holds0; auto. Qed.

Theorem C20_path_equation_before_fix_satisfied : forall pars T O V p steps c ep N,
  path_eps (pars p) steps = Some ep ->
  class_wf pars T p -> kid_wf0 pars T (pars p) (c, ep) -> union_genuine pars T p [(c, ep)] ->
  satisfied_before_fix pars T O V N (RPath p steps c).
Proof. intros. eapply path_equation_old_holds0; eauto. Qed.

(* ... and there the fix changed nothing: when every child parameter is the image of a parent parameter
   (and, for products, the dictionaries are injective) both methods emit the SAME equation *)
Theorem C20_before_fix_same_equations : forall pars lhs kids,
  Forall (covered pars) kids ->
  union_equation_old lhs (map (cfun pars) (map fst kids)) (map snd kids) =
    union_equation lhs (map (cfun pars) (map fst kids)) (map snd kids) /\
  (Forall (fun k => NoDup (map snd (snd k))) kids ->
   product_equation_old lhs (map (cfun pars) (map fst kids)) (map snd kids) =
     product_equation lhs (map (cfun pars) (map fst kids)) (map snd kids)).
Proof.
  intros pars lhs kids H. split; [apply union_equation_old_same; auto|].
  intros H2. apply product_equation_old_same. rewrite Forall_forall in *. intros k Hk. split; auto.
Qed.

(* Before fix FIXHASH_GENF (genf_select_old): only the root's series was compared.  root = atom^7 x T: the
   branch with T(0) = 1 has the root series x^7, which agrees with the counts 0,..,0 on the 7 compared
   terms; listed first it was returned (coefficient of x^7: 1, there are 0 objects); the repaired selection
   rejects it and returns the right branch.  Replayed by findings/c20_genf_wrong_branch.py. *)
Theorem C20_genf_selection_before_fix_refuted :
  exists check root classes (W : nat -> Z -> Z) bs wrong right,
  genf_select_old check root W bs = Some wrong /\ family wrong root (check + 1) <> W root (check + 1) /\
  genf_select check root classes W bs = Some right /\
  forall n, 0 <= n -> family right root n = W root n.
Proof.
  exists 6, O, [O; 1%nat], hs_W, [hs_wrong; hs_right], hs_wrong, hs_right.
  destruct genf_selection_old_refuted as [A [B C]].
  split; [exact A|]. split; [exact B|]. split; [exact C|]. intros n _. reflexivity.
Qed.

(* the names under which the theorems about unmapped statistics that are 0 on every object were first stated
   (for the code before the fix they needed that condition; the repaired code does not), kept for the
   documents that refer to them *)
Definition C20_union_equation_zero_statistic_satisfied := C20_union_equation_before_fix_satisfied.
Definition C20_product_equation_zero_statistic_satisfied := C20_product_equation_before_fix_satisfied.
Definition C20_path_equation_fixed_values_satisfied := C20_path_equation_before_fix_satisfied.

(* ------------------------------------------------------------ non-vacuity *)
(* words a^n tracked twice (k = j = number of a's) = the same words tracked once:
   extra_parameters {k: k', j: k'}; emitted  F_0(x,k,j) = 0 + F_1(x, k*j) *)
Definition ex_pars (l : Z) : list Z := match l with 0 => [1; 2] | 1 => [3] | _ => [] end.
Definition ex_T (l n : Z) : list (list Z * Z) :=
  match l with 0 => [([n; n], 1)] | 1 => [([n], 1)] | _ => [] end.
Definition ex_kids : list (Z * list (Z * Z)) := [(1, [(1, 3); (2, 3)])].

Example C20_ex_union_merge :
  rule_equation ex_pars (RUnion (mkorule 0 (map fst ex_kids) (map snd ex_kids))) =
    Ok (Fun 0 [Var 0; Var 1; Var 2]) (Add (Const 0) (Fun 1 [Var 0; Mul (Var 1) (Var 2)])) /\
  class_wf ex_pars ex_T 0 /\ Forall (kid_wf ex_pars ex_T (ex_pars 0)) ex_kids /\
  union_genuine ex_pars ex_T 0 ex_kids /\
  forall N, satisfied ex_pars ex_T (fun _ => []) [0; 1; 2] N (RUnion (mkorule 0 (map fst ex_kids) (map snd ex_kids))).
Proof.
  assert (class_wf ex_pars ex_T 0) as W0.
  { split; [|split].
    - simpl. repeat constructor; simpl; intuition discriminate.
    - simpl. intuition discriminate.
    - intros n t [<-|[]]. reflexivity. }
  assert (Forall (kid_wf ex_pars ex_T (ex_pars 0)) ex_kids) as Wk.
  { constructor; [|constructor]. unfold kid_wf. cbn [fst snd map].
    split; [|split; [|split; [|split]]].
    - split; [|split].
      + simpl. repeat constructor; simpl; intuition discriminate.
      + simpl. intuition discriminate.
      + intros n t [<-|[]]. reflexivity.
    - repeat constructor; simpl; intuition discriminate.
    - intros x [<-|[<-|[]]]; simpl; auto.
    - intros x [<-|[<-|[]]]; simpl; auto.
    - intros cv [<-|[]]. reflexivity. }
  assert (union_genuine ex_pars ex_T 0 ex_kids) as G.
  { intros n Hn e. unfold cnt. simpl. unfold aget. simpl. lia. }
  split; [reflexivity|]. split; [exact W0|]. split; [exact Wk|]. split; [exact G|].
  intros N. apply C20_union_equation_satisfied; auto. apply Forall_kid_wf_wfd; exact Wk.
Qed.

(* NAME-PERMUTING dictionaries are covered: kid_wf / pkid_wf do not ask the child's names to differ
   from the parent's.  The words b^n with p = number of a's (variable 1), q = number of b's
   (variable 2), and the same words as a class that calls these statistics the other way round
   (p = number of b's, q = number of a's): extra_parameters {p: q, q: p}.  The emitted equation is
   F_0(x,p,q) = 0 + F_1(x,q,p) (simultaneous substitution) and it is satisfied at every order; the
   equation F_0(x,p,q) = 0 + F_1(x,p,p), which replacing p := q and then q := p one after the other
   would give, is not (coefficient of x*q). *)
Definition sw_pars (l : Z) : list Z := match l with 0 => [1; 2] | 1 => [1; 2] | _ => [] end.
Definition sw_T (l n : Z) : list (list Z * Z) :=
  match l with 0 => [([0; n], 1)] | 1 => [([n; 0], 1)] | _ => [] end.
Definition sw_kids : list (Z * list (Z * Z)) := [(1, [(1, 2); (2, 1)])].

Example C20_ex_union_swapped_names :
  rule_equation sw_pars (RUnion (mkorule 0 (map fst sw_kids) (map snd sw_kids))) =
    Ok (Fun 0 [Var 0; Var 1; Var 2]) (Add (Const 0) (Fun 1 [Var 0; Var 2; Var 1])) /\
  class_wf sw_pars sw_T 0 /\ Forall (kid_wf sw_pars sw_T (sw_pars 0)) sw_kids /\
  union_genuine sw_pars sw_T 0 sw_kids /\
  (forall N, satisfied sw_pars sw_T (fun _ => []) [0; 1; 2] N (RUnion (mkorule 0 (map fst sw_kids) (map snd sw_kids)))) /\
  ~ holds (SN sw_T 1) (fun _ => []) [0; 1; 2] 1
      (Fun 0 [Var 0; Var 1; Var 2]) (Add (Const 0) (Fun 1 [Var 0; Var 1; Var 1])).
Proof.
  assert (forall l, l = 0 \/ l = 1 -> class_wf sw_pars sw_T l) as W.
  { intros l Hl. split; [|split].
    - destruct Hl; subst l; simpl; repeat constructor; simpl; intuition discriminate.
    - destruct Hl; subst l; simpl; intuition discriminate.
    - destruct Hl; subst l; intros n t [<-|[]]; reflexivity. }
  assert (Forall (kid_wf sw_pars sw_T (sw_pars 0)) sw_kids) as Wk.
  { constructor; [|constructor]. unfold kid_wf. cbn [fst snd map].
    split; [|split; [|split; [|split]]].
    - apply W; auto.
    - repeat constructor; simpl; intuition discriminate.
    - intros x [<-|[<-|[]]]; simpl; auto.
    - intros x [<-|[<-|[]]]; simpl; auto.
    - intros cv [<-|[<-|[]]]; reflexivity. }
  assert (union_genuine sw_pars sw_T 0 sw_kids) as G.
  { intros n Hn e. unfold cnt. simpl. unfold aget. simpl. lia. }
  split; [reflexivity|]. split; [apply W; auto|]. split; [exact Wk|]. split; [exact G|].
  split.
  - intros N. apply C20_union_equation_satisfied; auto. apply Forall_kid_wf_wfd; exact Wk.
  - intros [p [q [Hp [Hq H]]]]. vm_compute in Hp, Hq.
    injection Hp as <-. injection Hq as <-.
    specialize (H (fun u => if u =? 1 then 0 else if u <=? 2 then 1 else 0)).
    vm_compute in H. assert (1 = 0) as E by (apply H; split; discriminate). discriminate E.
Qed.

(* a product whose first factor numbers its statistics one lower than the parent: the word ab with
   k_1 = number of a's (variable 2), k_2 = number of b's (variable 3) = the word a with k_0, k_1
   (variables 1, 2) x the word b with k_1, k_2; extra_parameters ({k_1: k_0, k_2: k_1}, identity).
   Emitted: F_0(x,k_1,k_2) = 1 * F_1(x,k_1,k_2) * F_2(x,k_1,k_2), satisfied; with k_0 := k_1 and then
   k_1 := k_2 applied one after the other the first factor would be F_1(x,k_2,k_2): not satisfied. *)
Definition sh_pars (l : Z) : list Z := match l with 0 => [2; 3] | 1 => [1; 2] | 2 => [2; 3] | _ => [] end.
Definition sh_T (l n : Z) : list (list Z * Z) :=
  match l, n with
  | 0, 2 => [([1; 1], 1)]
  | 1, 1 => [([1; 0], 1)]
  | 2, 1 => [([0; 1], 1)]
  | _, _ => []
  end.
Definition sh_kids : list (Z * list (Z * Z)) := [(1, [(2, 1); (3, 2)]); (2, [(2, 2); (3, 3)])].
Definition sh_V : list Z := [0; 1; 2; 3].

Example C20_ex_product_shifted_names :
  rule_equation sh_pars (RProduct (mkorule 0 (map fst sh_kids) (map snd sh_kids))) =
    Ok (Fun 0 [Var 0; Var 2; Var 3])
       (Mul (Mul (Const 1) (Fun 1 [Var 0; Var 2; Var 3])) (Fun 2 [Var 0; Var 2; Var 3])) /\
  class_wf sh_pars sh_T 0 /\ Forall (pkid_wf sh_pars sh_T (sh_pars 0)) sh_kids /\
  product_genuine sh_pars sh_T sh_V 0 sh_kids 2 /\
  satisfied sh_pars sh_T (fun _ => []) sh_V 2 (RProduct (mkorule 0 (map fst sh_kids) (map snd sh_kids))) /\
  ~ holds (SN sh_T 2) (fun _ => []) sh_V 2 (Fun 0 [Var 0; Var 2; Var 3])
      (Mul (Mul (Const 1) (Fun 1 [Var 0; Var 3; Var 3])) (Fun 2 [Var 0; Var 2; Var 3])).
Proof.
  assert (forall l n t, In t (sh_T l n) -> length (fst t) = length (sh_pars l)) as Tab.
  { intros l n t. destruct l as [|[[p|p|]|[p|p|]|]|p]; simpl; try tauto;
      destruct n as [|[[p'|p'|]|[p'|p'|]|]|p']; simpl; try tauto; intros [<-|[]]; reflexivity. }
  assert (forall l, l = 0 \/ l = 1 \/ l = 2 -> class_wf sh_pars sh_T l) as W.
  { intros l Hl. split; [|split].
    - destruct Hl as [Hl|[Hl|Hl]]; subst l; simpl; repeat constructor; simpl; intuition discriminate.
    - destruct Hl as [Hl|[Hl|Hl]]; subst l; simpl; intuition discriminate.
    - intros n t. apply Tab. }
  assert (Forall (pkid_wf sh_pars sh_T (sh_pars 0)) sh_kids) as Wk.
  { constructor; [|constructor; [|constructor]]; unfold pkid_wf, kid_wf; cbn [fst snd map].
    - split; [split; [|split; [|split; [|split]]]|].
      + apply W; auto.
      + repeat constructor; simpl; intuition discriminate.
      + intros x [<-|[<-|[]]]; simpl; auto.
      + intros x [<-|[<-|[]]]; simpl; auto.
      + intros cv [<-|[<-|[]]]; reflexivity.
      + repeat constructor; simpl; intuition discriminate.
    - split; [split; [|split; [|split; [|split]]]|].
      + apply W; auto.
      + repeat constructor; simpl; intuition discriminate.
      + intros x [<-|[<-|[]]]; simpl; auto.
      + intros x [<-|[<-|[]]]; simpl; auto.
      + intros cv [<-|[<-|[]]]; reflexivity.
      + repeat constructor; simpl; intuition discriminate. }
  assert (product_genuine sh_pars sh_T sh_V 0 sh_kids 2) as G.
  { intros m _. vm_compute. reflexivity. }
  split; [reflexivity|]. split; [apply W; auto|]. split; [exact Wk|]. split; [exact G|].
  split.
  - apply C20_product_equation_satisfied; auto.
    eapply Forall_impl; [|exact Wk]. intros k [Hk _]. apply kid_wf_wfd. exact Hk.
  - intros [p [q [Hp [Hq H]]]]. vm_compute in Hp, Hq.
    injection Hp as <-. injection Hq as <-.
    specialize (H (fun u => if u =? 0 then 2 else if u =? 2 then 1 else if u =? 3 then 1 else 0)).
    vm_compute in H. assert (1 = 0) as E by (apply H; split; discriminate). discriminate E.
Qed.

(* a productive univariate specification and its unique solution: L = 1 + x*L
   (class 0 = union of the empty word 1 and the product 2 = atom 3 x class 0) *)
Definition ex_spec (c : nat) : option urule :=
  match c with
  | 0%nat => Some (UUnion [1%nat; 2%nat])
  | 1%nat => Some (UAtom 0)
  | 2%nat => Some (UProduct [(3%nat, 1); (0%nat, 0)])
  | 3%nat => Some (UAtom 1)
  | _ => None
  end.
Definition ex_keys : list fkey :=
  [mkkey 0 [(1%nat, 0); (2%nat, 0)]; mkkey 1 []; mkkey 2 [(3%nat, 0); (0%nat, 1)]; mkkey 3 []].

Example C20_ex_unique_hypotheses :
  (forall k, In k ex_keys -> exists r, ex_spec (parent k) = Some r /\ kids k = r_kids Z (to_srule r)) /\
  (forall c r, ex_spec c = Some r -> urule_wf c r) /\ pumps ex_keys 0%nat.
Proof.
  split; [|split].
  - intros k [<-|[<-|[<-|[<-|[]]]]]; eexists; split; reflexivity.
  - intros [|[|[|[|c]]]] r E; try discriminate; injection E as <-; simpl; auto; try lia.
    repeat constructor; simpl; lia.
  - assert (forall v, derivable ex_keys 1%nat v) as D1.
    { intros v. apply (der_rule ex_keys (mkkey 1 [])); [right; left; reflexivity|]. intros c s []. }
    assert (forall v, derivable ex_keys 3%nat v) as D3.
    { intros v. apply (der_rule ex_keys (mkkey 3 [])); [do 3 right; left; reflexivity|]. intros c s []. }
    assert (forall v, 0 <= v -> derivable ex_keys 0%nat v) as D0.
    { intros v Hv. pattern v. apply natlike_ind; auto.
      - apply der_zero. lia.
      - intros x Hx IH. apply (der_rule ex_keys (mkkey 0 [(1%nat, 0); (2%nat, 0)])); [left; reflexivity|].
        intros c s [E|[E|[]]]; injection E as <- <-; [apply D1|].
        apply (der_rule ex_keys (mkkey 2 [(3%nat, 0); (0%nat, 1)])); [do 2 right; left; reflexivity|].
        intros c s [E|[E|[]]]; injection E as <- <-; [apply D3|].
        replace (Z.succ x - 0 - 1) with x by lia. exact IH. }
    intros v. destruct (Z_le_gt_dec 0 v); [apply D0; auto|apply der_zero; lia].
Qed.

(* ================================================================ NON-VACUITY (audit)
   Every theorem above with hypotheses is APPLIED to a concrete instance, all hypotheses discharged at
   once.  Instances: the parameter examples above (ex_..., sh_...), a two-child union with parameters
   (u2_...), and the univariate specification ex_spec  (L = 1 + x*L: class 0 = class 1 + class 2,
   class 1 = epsilon, class 2 = class 3 x class 0, class 3 = the atom)  with its true counts lw. *)
(* the true counts of ex_spec: L = 1 + x*L *)
Definition lw (c : nat) (n : Z) : Z :=
  match c with
  | 0%nat => if n <? 0 then 0 else 1
  | 1%nat => if n =? 0 then 1 else 0
  | 2%nat => if n <? 1 then 0 else 1
  | 3%nat => if n =? 1 then 1 else 0
  | _ => 0
  end.
Definition lT := T_of lw.

Lemma l_class_wf l : class_wf nopars lT l.
Proof.
  split; [constructor|]. split; [intros []|]. intros n t [<-|[]]. reflexivity.
Qed.
Lemma l_kid_wf c : kid_wfd nopars lT [] (c, []).
Proof.
  split; [apply l_class_wf|]. cbn [fst snd map]. split; [constructor|].
  split; intros x [].
Qed.
Lemma l_cnt c n e : cnt (lT c n) e = if leqb [] e then lw (Z.to_nat c) n else 0.
Proof. unfold cnt, lT, T_of. simpl. destruct (leqb [] e); lia. Qed.
Lemma l_cnt_rk c n e :
  cnt (map (fun t => (rk [] [] [] (fst t), snd t)) (lT c n)) e = if leqb [] e then lw (Z.to_nat c) n else 0.
Proof. unfold cnt, lT, T_of. simpl. destruct (leqb [] e); lia. Qed.

Lemma l_union_genuine : union_genuine nopars lT 0 [(1, []); (2, [])].
Proof.
  intros n Hn e. cbn [psum fst snd nopars]. rewrite l_cnt, !l_cnt_rk.
  destruct (leqb [] e); [|reflexivity]. simpl.
  destruct (Z.ltb_spec n 0); [lia|]. destruct (Z.eqb_spec n 0); destruct (Z.ltb_spec n 1); lia.
Qed.
Lemma l_atom_genuine1 : atom_genuine lT 1 0.
Proof.
  intros n Hn e. rewrite l_cnt. simpl. destruct (n =? 0); destruct (leqb [] e); reflexivity.
Qed.
Lemma l_atom_genuine3 : atom_genuine lT 3 1.
Proof.
  intros n Hn e. rewrite l_cnt. simpl. destruct (n =? 1); destruct (leqb [] e); reflexivity.
Qed.
Lemma l_empty_genuine : empty_genuine lT 7.
Proof. intros n e. rewrite l_cnt. simpl. destruct (leqb [] e); reflexivity. Qed.

Example C20_union_equation_satisfied_plain : forall N,
  satisfied nopars lT noO [0] N (RUnion (mkorule 0 [1; 2] [[]; []])).
Proof.
  intros N.
  exact (C20_union_equation_satisfied nopars lT noO [0] 0 [(1, []); (2, [])] N (l_class_wf 0)
           (Forall_cons _ (l_kid_wf 1) (Forall_cons _ (l_kid_wf 2) (Forall_nil _))) l_union_genuine).
Qed.

(* coefficients compared on V = [0] only depend on m 0 *)
Lemma pcoef_x P m : pcoef [0] P m = pcoef [0] P (xmono (m 0)).
Proof. apply pcoef_target_ext. intros u [<-|[]]. reflexivity. Qed.

Lemma l_product_genuine : product_genuine nopars lT [0] 2 [(3, []); (0, [])] 3.
Proof.
  intros m Hm. rewrite (pcoef_x (cser _ _)), (pcoef_x (prod_left _)).
  assert (m 0 = 0 \/ m 0 = 1 \/ m 0 = 2 \/ m 0 = 3) as [E|[E|[E|E]]] by lia;
    rewrite E; vm_compute; reflexivity.
Qed.
(* covers C20_product_equation_satisfied once more, without parameters, on infinite classes:
   class 2 = atom x . class 0, at order 3 *)
Example C20_product_equation_satisfied_plain :
  satisfied nopars lT noO [0] 3 (RProduct (mkorule 2 [3; 0] [[]; []])).
Proof.
  exact (C20_product_equation_satisfied nopars lT noO [0] 2 [(3, []); (0, [])] 3 (l_class_wf 2)
           (Forall_cons _ (l_kid_wf 3) (Forall_cons _ (l_kid_wf 0) (Forall_nil _)))
           l_product_genuine).
Qed.
Lemma l_no_params p cs : no_params nopars p cs.
Proof. split; [reflexivity|]. intros; reflexivity. Qed.
(* covers C20_complement_equation_satisfied:  F_2 = F_0 - F_1 *)
Example C20_complement_equation_satisfied_nonvacuous : forall N,
  satisfied nopars lT noO [0] N (RRevUnion (mkorule 0 [1; 2] [[]; []]) 1).
Proof.
  intros N.
  exact (C20_complement_equation_satisfied nopars lT noO [0] 0 [1; 2] 1%nat N (l_no_params 0 [1; 2])
           (l_class_wf 0) (fun c _ => l_class_wf c) l_union_genuine ltac:(simpl; lia)).
Qed.
(* covers C20_quotient_equation_satisfied:  F_0 = F_2 / F_3, read as F_0 * F_3 = F_2 *)
Example C20_quotient_equation_satisfied_nonvacuous :
  satisfied nopars lT noO [0] 3 (RRevProduct (mkorule 2 [3; 0] [[]; []]) 1).
Proof.
  exact (C20_quotient_equation_satisfied nopars lT noO [0] 2 [3; 0] 1%nat 3 (l_no_params 2 [3; 0])
           (l_class_wf 2) (fun c _ => l_class_wf c) l_product_genuine ltac:(simpl; lia)).
Qed.
Example C20_reverse_equations_value :
  rule_equation nopars (RRevUnion (mkorule 0 [1; 2] [[]; []]) 1) =
    Ok (Fun 2 [Var 0]) (Sub (Fun 0 [Var 0]) (Fun 1 [Var 0])) /\
  rule_equation nopars (RRevProduct (mkorule 2 [3; 0] [[]; []]) 1) =
    Ok (Fun 0 [Var 0]) (Div (Fun 2 [Var 0]) (Fun 3 [Var 0])).
Proof. split; reflexivity. Qed.

(* covers C20_atom_equation_satisfied (inside l_sat_atom1 / l_sat_atom3 below) and C20_unique_series:
   ---- lw is a solution of ex_spec (every emitted equation, at every order) *)
Lemma zsum_delta_at a lo hi (g : Z -> Z) :
  zsum lo hi (fun i => (if i =? a then 1 else 0) * g i) = if (lo <=? a) && (a <? hi) then g a else 0.
Proof.
  unfold zsum. destruct ((lo <=? a) && (a <? hi)) eqn:E.
  - apply andb_true_iff in E. destruct E as [E1 E2]. apply Z.leb_le in E1. apply Z.ltb_lt in E2.
    rewrite (psum_single _ (zrange lo hi) a).
    + rewrite Z.eqb_refl. lia.
    + apply zrange_nodup.
    + apply in_zrange. lia.
    + intros x _ Hx. destruct (Z.eqb_spec x a); [congruence|lia].
  - apply psum_zero. intros x Hx. apply in_zrange in Hx.
    destruct (Z.eqb_spec x a); [|lia]. subst x.
    apply andb_false_iff in E. destruct E as [E|E]; [apply Z.leb_gt in E|apply Z.ltb_ge in E]; lia.
Qed.

Lemma l_sat_union : satisfies lw 0 (UUnion [1%nat; 2%nat]).
Proof. intros N _. exact (C20_union_equation_satisfied_plain N). Qed.
Lemma l_sat_atom1 : satisfies lw 1 (UAtom 0).
Proof.
  intros N _.
  exact (C20_atom_equation_satisfied nopars lT noO [0] 1 0 N eq_refl ltac:(lia) (or_introl eq_refl) l_atom_genuine1).
Qed.
Lemma l_sat_atom3 : satisfies lw 3 (UAtom 1).
Proof.
  intros N _.
  exact (C20_atom_equation_satisfied nopars lT noO [0] 3 1 N eq_refl ltac:(lia) (or_introl eq_refl) l_atom_genuine3).
Qed.
Lemma l_sat_product : satisfies lw 2 (UProduct [(3%nat, 1); (0%nat, 0)]).
Proof.
  apply product_sat_intro. intros N n Hn. cbn [map fst conv].
  transitivity (zsum 0 (N + 1) (fun i => (if i =? 1 then 1 else 0) *
                  zsum 0 (N + 1) (fun j => (if j =? n - i then 1 else 0) * lw 0 j))).
  - rewrite zsum_delta_at. rewrite zsum_delta_at. simpl.
    destruct (Z.ltb_spec n 1).
    + destruct (Z.ltb_spec 1 (N + 1)); simpl; [|reflexivity].
      destruct (Z.leb_spec 0 (n - 1)); [lia|reflexivity].
    + assert (1 <? N + 1 = true) as -> by (apply Z.ltb_lt; lia).
      assert (0 <=? n - 1 = true) as -> by (apply Z.leb_le; lia).
      assert (n - 1 <? N + 1 = true) as -> by (apply Z.ltb_lt; lia).
      simpl. destruct (Z.ltb_spec (n - 1) 0); [lia|reflexivity].
  - apply zsum_ext. intros i Hi. f_equal. apply zsum_ext. intros j Hj.
    rewrite Z.mul_comm. f_equal.
    destruct (Z.eqb_spec j (n - i)); destruct (Z.eqb_spec (n - i - j) 0); lia.
Qed.

Lemma l_solution : solution ex_spec lw.
Proof.
  split; [|split].
  - intros [|[|[|[|c]]]] m Hm; simpl; auto.
    + destruct (Z.ltb_spec m 0); [reflexivity|lia].
    + destruct (Z.eqb_spec m 0); [lia|reflexivity].
    + destruct (Z.ltb_spec m 1); [reflexivity|lia].
    + destruct (Z.eqb_spec m 1); [lia|reflexivity].
  - intros [|[|[|[|c]]]] r E; try discriminate; injection E as <-.
    + exact l_sat_union.
    + exact l_sat_atom1.
    + exact l_sat_product.
    + exact l_sat_atom3.
  - intros [|[|[|[|c]]]] kids E; try discriminate. injection E as <-.
    intros k m [<-|[<-|[]]] Hm; simpl in *.
    + destruct (Z.eqb_spec m 1); [lia|reflexivity].
    + destruct (Z.ltb_spec m 0); [reflexivity|lia].
Qed.

Example C20_atom_equation_satisfied_nonvacuous : forall N,
  satisfied nopars lT noO [0] N (RAtom 3 1) /\ satisfied nopars lT noO [0] N (RAtom 1 0).
Proof.
  intros N. split.
  - exact (C20_atom_equation_satisfied nopars lT noO [0] 3 1 N eq_refl ltac:(lia) (or_introl eq_refl) l_atom_genuine3).
  - exact (C20_atom_equation_satisfied nopars lT noO [0] 1 0 N eq_refl ltac:(lia) (or_introl eq_refl) l_atom_genuine1).
Qed.

(* covers C20_unique_series: BOTH `solution` hypotheses are satisfiable on a four-class specification
   with a union, a product with a declared minimum size and two atoms (l_solution: T := lw), and every
   other solution is forced to the true counts on the pumping class *)
Example C20_unique_series_nonvacuous :
  forall U : nat -> Z -> Z, solution ex_spec U -> U 0%nat 5 = 1.
Proof.
  intros U HU. destruct C20_ex_unique_hypotheses as (K & W & P).
  apply (C20_unique_series ex_spec ex_keys K W lw U l_solution HU 0%nat P 5). lia.
Qed.

(* covers C20_union_equation_satisfied with TWO children and parameters: the words a^n together with
   the words b^n (n >= 1), k = number of a's; the children call the statistic 3 resp. 4 *)
Definition u2_pars (l : Z) : list Z := match l with 0 => [1] | 1 => [3] | 2 => [4] | _ => [] end.
Definition u2_T (l n : Z) : list (list Z * Z) :=
  match l with
  | 0 => ([n], 1) :: (if 1 <=? n then [([0], 1)] else [])
  | 1 => [([n], 1)]
  | 2 => if 1 <=? n then [([0], 1)] else []
  | _ => []
  end.
Definition u2_kids : list (Z * list (Z * Z)) := [(1, [(1, 3)]); (2, [(1, 4)])].
Lemma u2_class_wf l : l = 0 \/ l = 1 \/ l = 2 -> class_wf u2_pars u2_T l.
Proof.
  intros Hl. split; [|split].
  - destruct Hl as [-> | [-> | ->]]; simpl; repeat constructor; simpl; intuition discriminate.
  - destruct Hl as [-> | [-> | ->]]; simpl; intuition discriminate.
  - intros n t. destruct Hl as [-> | [-> | ->]]; simpl; destruct (1 <=? n); simpl; intuition (subst; reflexivity).
Qed.
Lemma u2_kids_wf : Forall (kid_wf u2_pars u2_T (u2_pars 0)) u2_kids.
Proof.
  constructor; [|constructor; [|constructor]]; unfold kid_wf; cbn [fst snd map].
  - split; [apply u2_class_wf; auto|]. split; [repeat constructor; simpl; intuition discriminate|].
    split; [intros x [<-|[]]; simpl; auto|]. split; [intros x [<-|[]]; simpl; auto|].
    intros cv [<-|[]]; reflexivity.
  - split; [apply u2_class_wf; auto|]. split; [repeat constructor; simpl; intuition discriminate|].
    split; [intros x [<-|[]]; simpl; auto|]. split; [intros x [<-|[]]; simpl; auto|].
    intros cv [<-|[]]; reflexivity.
Qed.
Lemma u2_genuine : union_genuine u2_pars u2_T 0 u2_kids.
Proof. intros n Hn e. unfold cnt. simpl. destruct (1 <=? n); simpl; unfold aget; simpl; lia. Qed.
Example C20_union_equation_satisfied_nonvacuous : forall N,
  satisfied u2_pars u2_T (fun _ => []) [0; 1] N (RUnion (mkorule 0 [1; 2] [[(1, 3)]; [(1, 4)]])).
Proof.
  intros N.
  exact (C20_union_equation_satisfied u2_pars u2_T (fun _ => []) [0; 1] 0 u2_kids N
           (u2_class_wf 0 (or_introl eq_refl)) (Forall_kid_wf_wfd _ _ _ _ u2_kids_wf) u2_genuine).
Qed.
Example C20_union_equation_value :
  rule_equation u2_pars (RUnion (mkorule 0 [1; 2] [[(1, 3)]; [(1, 4)]])) =
    Ok (Fun 0 [Var 0; Var 1]) (Add (Add (Const 0) (Fun 1 [Var 0; Var 1])) (Fun 2 [Var 0; Var 1])) /\
  ~ holds (SN u2_T 1) (fun _ => []) [0; 1] 1 (Fun 0 [Var 0; Var 1]) (Add (Const 0) (Fun 1 [Var 0; Var 1])).
Proof.
  split; [reflexivity|].
  intros [p [q [Hp [Hq H]]]]. vm_compute in Hp, Hq. injection Hp as <-. injection Hq as <-.
  specialize (H (fun u => if u =? 0 then 1 else 0)).
  vm_compute in H. assert (1 = 0) as E by (apply H; split; discriminate). discriminate E.
Qed.

(* covers C20_product_equation_satisfied (two factors, two parameters each) *)
Example C20_product_equation_satisfied_nonvacuous :
  satisfied sh_pars sh_T (fun _ => []) sh_V 2 (RProduct (mkorule 0 (map fst sh_kids) (map snd sh_kids))).
Proof.
  destruct C20_ex_product_shifted_names as (_ & W & Wk & G & _).
  refine (C20_product_equation_satisfied sh_pars sh_T (fun _ => []) sh_V 0 sh_kids 2 W _ G).
  eapply Forall_impl; [|exact Wk]. intros k [Hk _]. apply kid_wf_wfd. exact Hk.
Qed.

(* covers C20_reverse_with_parameters_falls_back *)
Example C20_reverse_with_parameters_falls_back_nonvacuous :
  rule_equation ex_pars (RRevUnion (mkorule 0 [5; 1] [[]; [(1, 3); (2, 3)]]) 1) =
    rule_equation ex_pars (RUnion (mkorule 0 [5; 1] [[]; [(1, 3); (2, 3)]])) /\
  rule_equation ex_pars (RRevProduct (mkorule 0 [5; 1] [[]; [(1, 3); (2, 3)]]) 1) =
    rule_equation ex_pars (RProduct (mkorule 0 [5; 1] [[]; [(1, 3); (2, 3)]])).
Proof.
  exact (C20_reverse_with_parameters_falls_back ex_pars (mkorule 0 [5; 1] [[]; [(1, 3); (2, 3)]]) 1%nat eq_refl).
Qed.
Example C20_reverse_fallback_discriminates :
  rule_equation ex_pars (RRevUnion (mkorule 0 [5; 1] [[]; [(1, 3); (2, 3)]]) 1) =
    Ok (Fun 0 [Var 0; Var 1; Var 2])
       (Add (Add (Const 0) (Fun 5 [Var 0])) (Fun 1 [Var 0; Mul (Var 1) (Var 2)])) /\
  rule_equation nopars (RRevUnion (mkorule 0 [1; 2] [[]; []]) 1) <>
    rule_equation nopars (RUnion (mkorule 0 [1; 2] [[]; []])).
Proof. split; [reflexivity|discriminate]. Qed.

(* covers C20_equivalence_equation_satisfied: the union rule 0 -> (5, 1) whose first child is empty *)
Example C20_equivalence_equation_satisfied_nonvacuous : forall N,
  satisfied ex_pars ex_T (fun _ => []) [0; 1; 2] N
    (REquivUnion (mkorule 0 [5; 1] [[]; [(1, 3); (2, 3)]]) 1).
Proof.
  intros N. destruct C20_ex_union_merge as (_ & W0 & Wk & G & _).
  apply (C20_equivalence_equation_satisfied ex_pars ex_T (fun _ => []) [0; 1; 2]
           (mkorule 0 [5; 1] [[]; [(1, 3); (2, 3)]]) 1%nat N W0 (kid_wf_wfd _ _ _ _ (Forall_inv Wk)) G).
Qed.

(* covers C20_path_equation_satisfied: a path of a reverse (Complement) step and a forward step *)
Example C20_path_equation_satisfied_nonvacuous : forall N,
  satisfied ex_pars ex_T (fun _ => []) [0; 1; 2] N
    (RPath 0 [(true, [(7, 1); (8, 2)]); (false, [(7, 3); (8, 3)])] 1).
Proof.
  intros N. destruct C20_ex_union_merge as (_ & W0 & Wk & G & _).
  apply (C20_path_equation_satisfied ex_pars ex_T (fun _ => []) [0; 1; 2] 0
           [(true, [(7, 1); (8, 2)]); (false, [(7, 3); (8, 3)])] 1 [(1, 3); (2, 3)] N
           eq_refl W0 (kid_wf_wfd _ _ _ _ (Forall_inv Wk)) G).
Qed.
Example C20_path_equation_value :
  rule_equation ex_pars (RPath 0 [(true, [(7, 1); (8, 2)]); (false, [(7, 3); (8, 3)])] 1) =
    Ok (Fun 0 [Var 0; Var 1; Var 2]) (Add (Const 0) (Fun 1 [Var 0; Mul (Var 1) (Var 2)])).
Proof. reflexivity. Qed.

(* covers C20_empty_equation_satisfied *)
Example C20_empty_equation_satisfied_nonvacuous : forall N, satisfied nopars lT noO [0] N (REmpty 7).
Proof. intros N. exact (C20_empty_equation_satisfied nopars lT noO [0] 7 N l_empty_genuine). Qed.
(* the equation of an empty class is NOT satisfied by a non-empty class *)
Example C20_empty_equation_discriminates : ~ satisfied nopars lT noO [0] 1 (REmpty 3).
Proof.
  intros [p [q [Hp [Hq H]]]]. vm_compute in Hp, Hq. injection Hp as <-. injection Hq as <-.
  specialize (H (fun u => if u =? 0 then 1 else 0)).
  vm_compute in H. assert (1 = 0) as E by (apply H; split; discriminate). discriminate E.
Qed.

(* covers C20_verified_equation_satisfied: a user verification strategy for the atom of size 1 whose own series is x *)
Definition vO (l : Z) : poly := if l =? 3 then [(mvar 0, 1)] else [].
Example C20_verified_equation_satisfied_nonvacuous : satisfied nopars lT vO [0] 2 (RVerified 3).
Proof.
  apply (C20_verified_equation_satisfied nopars lT vO [0] 3 2).
  intros m Hm. rewrite (pcoef_x (cser _ _)), (pcoef_x (vO 3)).
  assert (m 0 = 0 \/ m 0 = 1 \/ m 0 = 2) as [E|[E|E]] by lia; rewrite E; vm_compute; reflexivity.
Qed.
Example C20_verified_equation_discriminates : ~ satisfied nopars lT vO [0] 2 (RVerified 1).
Proof.
  intros [p [q [Hp [Hq H]]]]. vm_compute in Hp, Hq. injection Hp as <-. injection Hq as <-.
  specialize (H (fun u => 0)).
  vm_compute in H. assert (1 = 0) as E by (apply H; split; discriminate). discriminate E.
Qed.

(* ---------------------------------------------------------------- zero statistics, reverse equivalences
   z_ classes: the words a^n.  Class 0 tracks k = number of a's (variable 1); class 1 tracks k and
   z = number of c's (variable 9), which is 0 on every word; class 2 tracks nothing; class 3 tracks
   only z. *)
Definition z_pars (l : Z) : list Z := match l with 0 => [1] | 1 => [1; 9] | 3 => [9] | _ => [] end.
Definition z_T (l n : Z) : list (list Z * Z) :=
  match l with 0 => [([n], 1)] | 1 => [([n; 0], 1)] | 2 => [([], 1)] | 3 => [([0], 1)] | _ => [] end.

Lemma z_class_wf l : l = 0 \/ l = 1 \/ l = 2 \/ l = 3 -> class_wf z_pars z_T l.
Proof.
  intros Hl. split; [|split].
  - destruct Hl as [-> | [-> | [-> | ->]]]; simpl; repeat constructor; simpl; intuition discriminate.
  - destruct Hl as [-> | [-> | [-> | ->]]]; simpl; intuition discriminate.
  - intros n t. destruct Hl as [-> | [-> | [-> | ->]]]; simpl; intros [<-|[]]; reflexivity.
Qed.

(* class 1 as the child of class 0 under {k: k}: z is not mapped to, and is 0 everywhere *)
Lemma z_kid_wf0 : kid_wf0 z_pars z_T (z_pars 0) (1, [(1, 1)]).
Proof.
  split; [apply z_class_wf; auto|]. cbn [fst snd map].
  split; [repeat constructor; simpl; tauto|].
  split; [intros x [<-|[]]; simpl; auto|]. split; [intros x [<-|[]]; simpl; auto|].
  intros cv [<-|[<-|[]]]; [left; reflexivity|right].
  intros n t [<-|[]]. reflexivity.
Qed.
Lemma z_not_kid_wf : ~ kid_wf z_pars z_T (z_pars 0) (1, [(1, 1)]).
Proof. intros [_ [_ [_ [_ H]]]]. specialize (H 9 (or_intror (or_introl eq_refl))). discriminate H. Qed.
Lemma z_genuine : union_genuine z_pars z_T 0 [(1, [(1, 1)])].
Proof. intros n Hn e. unfold cnt. simpl. unfold aget. simpl. lia. Qed.

(* the path from class 0 BACKWARDS through the union rule 1 -> (0) with extra_parameters {k: k} (a
   Complement step): composed dictionary {k: k}, fixed_values = {z: 0}.  The repaired method emits
   F_0(x,k) = 0 + F_1(x,k,1) (covered by C20_path_equation_satisfied: kid_wf's cover clause fails, kid_wfd
   holds); before the fix it emitted F_0(x,k) = 0 + F_1(x,k,z) with z free, satisfied here only because z
   is 0 on every object (kid_wf0: covers C20_path_equation_before_fix_satisfied) *)
Example C20_path_equation_fixed_values_nonvacuous :
  rule_equation z_pars (RPath 0 [(true, [(1, 1)])] 1) =
    Ok (Fun 0 [Var 0; Var 1]) (Add (Const 0) (Fun 1 [Var 0; Var 1; Const 1])) /\
  rule_equation_old z_pars (RPath 0 [(true, [(1, 1)])] 1) =
    Ok (Fun 0 [Var 0; Var 1]) (Add (Const 0) (Fun 1 [Var 0; Var 1; Var 9])) /\
  ~ kid_wf z_pars z_T (z_pars 0) (1, [(1, 1)]) /\
  (forall N, satisfied z_pars z_T (fun _ => []) [0; 1; 9] N (RPath 0 [(true, [(1, 1)])] 1)) /\
  (forall N, satisfied_before_fix z_pars z_T (fun _ => []) [0; 1; 9] N (RPath 0 [(true, [(1, 1)])] 1)).
Proof.
  split; [reflexivity|]. split; [reflexivity|]. split; [exact z_not_kid_wf|]. split; intros N.
  - exact (C20_path_equation_satisfied z_pars z_T (fun _ => []) [0; 1; 9] 0
             [(true, [(1, 1)])] 1 [(1, 1)] N eq_refl (z_class_wf 0 (or_introl eq_refl))
             (kid_wf0_wfd _ _ _ _ z_kid_wf0) z_genuine).
  - exact (C20_path_equation_before_fix_satisfied z_pars z_T (fun _ => []) [0; 1; 9] 0
             [(true, [(1, 1)])] 1 [(1, 1)] N eq_refl (z_class_wf 0 (or_introl eq_refl)) z_kid_wf0 z_genuine).
Qed.
Example C20_union_equation_unmapped_nonvacuous : forall N,
  satisfied z_pars z_T (fun _ => []) [0; 1; 9] N (RUnion (mkorule 0 [1] [[(1, 1)]])) /\
  satisfied_before_fix z_pars z_T (fun _ => []) [0; 1; 9] N (RUnion (mkorule 0 [1] [[(1, 1)]])).
Proof.
  intros N. split.
  - exact (C20_union_equation_satisfied z_pars z_T (fun _ => []) [0; 1; 9] 0 [(1, [(1, 1)])] N
             (z_class_wf 0 (or_introl eq_refl)) (Forall_cons _ (kid_wf0_wfd _ _ _ _ z_kid_wf0) (Forall_nil _)) z_genuine).
  - exact (C20_union_equation_before_fix_satisfied z_pars z_T (fun _ => []) [0; 1; 9] 0 [(1, [(1, 1)])] N
             (z_class_wf 0 (or_introl eq_refl)) (Forall_cons _ z_kid_wf0 (Forall_nil _)) z_genuine).
Qed.

(* covers C20_product_equation_zero_statistic_satisfied: the word "a" (class 0, tracking k) = the word "a"
   tracking k and the zero statistic z (class 1, dictionary {k: k}: z is nobody's image) x the empty word
   (class 4); emitted F_0(x,k) = 1 * F_1(x,k,z) * F_4(x) *)
Definition zp_T (l n : Z) : list (list Z * Z) :=
  if (l =? 0) && (n =? 1) then [([1], 1)]
  else if (l =? 1) && (n =? 1) then [([1; 0], 1)]
  else if (l =? 4) && (n =? 0) then [([], 1)]
  else [].
Definition zp_kids : list (Z * list (Z * Z)) := [(1, [(1, 1)]); (4, [])].
Lemma zp_tab l n t : In t (zp_T l n) -> length (fst t) = length (z_pars l).
Proof.
  unfold zp_T.
  destruct ((l =? 0) && (n =? 1)) eqn:A.
  { apply andb_true_iff in A. destruct A as [A _]. apply Z.eqb_eq in A. subst. intros [<-|[]]. reflexivity. }
  destruct ((l =? 1) && (n =? 1)) eqn:B.
  { apply andb_true_iff in B. destruct B as [B _]. apply Z.eqb_eq in B. subst. intros [<-|[]]. reflexivity. }
  destruct ((l =? 4) && (n =? 0)) eqn:C.
  { apply andb_true_iff in C. destruct C as [C _]. apply Z.eqb_eq in C. subst. intros [<-|[]]. reflexivity. }
  intros [].
Qed.
Lemma zp_class_wf l : l = 0 \/ l = 1 \/ l = 4 -> class_wf z_pars zp_T l.
Proof.
  intros Hl. split; [|split].
  - destruct Hl as [-> | [-> | ->]]; simpl; repeat constructor; simpl; intuition discriminate.
  - destruct Hl as [-> | [-> | ->]]; simpl; intuition discriminate.
  - intros n t. apply zp_tab.
Qed.
Lemma zp_before : 
  rule_equation_old z_pars (RProduct (mkorule 0 (map fst zp_kids) (map snd zp_kids))) =
    Ok (Fun 0 [Var 0; Var 1]) (Mul (Mul (Const 1) (Fun 1 [Var 0; Var 1; Var 9])) (Fun 4 [Var 0])) /\
  satisfied_before_fix z_pars zp_T (fun _ => []) [0; 1; 9] 2 (RProduct (mkorule 0 (map fst zp_kids) (map snd zp_kids))) /\
  Forall (pkid_wf0 z_pars zp_T (z_pars 0)) zp_kids.
Proof.
  assert (Forall (pkid_wf0 z_pars zp_T (z_pars 0)) zp_kids) as Wk; [|split; [reflexivity|split; [|exact Wk]]].
  2:{ apply C20_product_equation_before_fix_satisfied; [apply zp_class_wf; auto|exact Wk|].
      intros m _. vm_compute. reflexivity. }
  idtac.
  - constructor; [|constructor; [|constructor]]; unfold pkid_wf0, kid_wf0; cbn [fst snd map].
    + split; [split; [|split; [|split; [|split]]]|].
      * apply zp_class_wf; auto.
      * repeat constructor; simpl; tauto.
      * intros x [<-|[]]; simpl; auto.
      * intros x [<-|[]]; simpl; auto.
      * intros cv [<-|[<-|[]]]; [left; reflexivity|right].
        intros n t Ht. unfold zp_T in Ht. cbn [Z.eqb andb] in Ht.
        destruct (n =? 1); [|destruct Ht]. destruct Ht as [<-|[]]. reflexivity.
      * repeat constructor; simpl; tauto.
    + split; [split; [|split; [|split; [|split]]]|].
      * apply zp_class_wf; auto.
      * constructor.
      * intros x [].
      * intros x [].
      * intros cv [].
      * constructor.
Qed.
(* covers C20_product_equation_satisfied with an unmapped child parameter, and
   C20_product_equation_before_fix_satisfied *)
Example C20_product_equation_unmapped_nonvacuous :
  rule_equation z_pars (RProduct (mkorule 0 (map fst zp_kids) (map snd zp_kids))) =
    Ok (Fun 0 [Var 0; Var 1]) (Mul (Mul (Const 1) (Fun 1 [Var 0; Var 1; Const 1])) (Fun 4 [Var 0])) /\
  satisfied z_pars zp_T (fun _ => []) [0; 1; 9] 2 (RProduct (mkorule 0 (map fst zp_kids) (map snd zp_kids))) /\
  satisfied_before_fix z_pars zp_T (fun _ => []) [0; 1; 9] 2 (RProduct (mkorule 0 (map fst zp_kids) (map snd zp_kids))).
Proof.
  destruct zp_before as [_ [B Wk]]. split; [reflexivity|]. split; [|exact B].
  apply C20_product_equation_satisfied.
  - apply zp_class_wf; auto.
  - eapply Forall_impl; [|exact Wk]. intros k [Hk _]. apply kid_wf0_wfd. exact Hk.
  - intros m _. vm_compute. reflexivity.
Qed.

(* covers C20_equivalence_reverse_equation_satisfied, both shapes: the union rule 3 -> (2) with the
   empty dictionary (the parent's statistic z is 0 on every object) reversed: F_2(x) = F_3(x,z);
   and the union rule 2 -> (3) reversed: F_3(x,z) = F_2(x) *)
Example C20_equivalence_reverse_equation_nonvacuous : forall N,
  rule_equation z_pars (REquivRev 2 3 []) = Ok (Fun 2 [Var 0]) (Fun 3 [Var 0; Var 9]) /\
  satisfied z_pars z_T (fun _ => []) [0; 9] N (REquivRev 2 3 []) /\
  satisfied z_pars z_T (fun _ => []) [0; 9] N (REquivRev 3 2 []).
Proof.
  intros N. split; [reflexivity|]. split.
  - apply C20_equivalence_reverse_equation_satisfied.
    + apply z_class_wf; auto.
    + split; [apply z_class_wf; auto|]. cbn [fst snd map]. split; [constructor|].
      split; [intros x []|]. split; [intros x []|]. intros cv [].
    + intros n Hn e. unfold cnt. simpl. lia.
  - apply C20_equivalence_reverse_equation_satisfied.
    + apply z_class_wf; auto.
    + split; [apply z_class_wf; auto|]. cbn [fst snd map]. split; [constructor|].
      split; [intros x []|]. split; [intros x []|].
      intros cv [<-|[]]. right. intros n t [<-|[]]. reflexivity.
    + intros n Hn e. unfold cnt. simpl. lia.
Qed.
(* the reverse equivalence of a union whose child really tracks something is NOT satisfied in this
   form — and with the dictionary {k: k} there is no equation at all *)
Example C20_equivalence_reverse_with_parameters_nonvacuous :
  rule_equation z_pars (REquivRev 1 0 [(1, 1)]) = NotImpl /\
  spec_equation z_pars (REquivRev 1 0 [(1, 1)]) = Ok (Fun 1 [Var 0; Var 1; Var 9]) (Fun (-1) [Var 0]).
Proof.
  exact (C20_equivalence_reverse_with_parameters_has_no_equation z_pars 1 0 [(1, 1)] ltac:(discriminate)).
Qed.
(* products with a single factor (fix 25e10f1): the EquivalenceRule emits the one-child union equation, the
   EquivalenceRule of the reversed rule and a path holding such a wrapped step have no equation at all *)
Example C20_single_factor_product_equivalences :
  rule_equation z_pars (REquivUnion (mkorule 0 [1] [[(1, 1)]]) 0) =
    Ok (Fun 0 [Var 0; Var 1]) (Add (Const 0) (Fun 1 [Var 0; Var 1; Const 1])) /\
  rule_equation nopars (REquivRevProduct 2 0) = NotImpl /\
  spec_equation nopars (RPathNoCtor 0 2) = Ok (Fun 0 [Var 0]) (Fun (-1) [Var 0]) /\
  ~ rule_plain nopars (REquivRevProduct 2 0).
Proof. split; [reflexivity|]. split; [reflexivity|]. split; [reflexivity|]. intros []. Qed.

Example C20_without_parameters_nonvacuous :
  rule_equation nopars (RPath 0 [(true, []); (false, [])] 2) =
    Ok (Fun 0 [Var 0]) (Add (Const 0) (Fun 2 [Var 0])) /\
  rule_equation nopars (REquivRev 2 0 []) = Ok (Fun 2 [Var 0]) (Fun 0 [Var 0]) /\
  rule_equation nopars (RRevProduct (mkorule 2 [3; 0] [[]; []]) 1) <> NotImpl.
Proof.
  split; [|split].
  - rewrite (proj1 (C20_without_parameters_equivalences_are_unions nopars 0 [(true, []); (false, [])] 2 eq_refl
               ltac:(repeat constructor))). reflexivity.
  - reflexivity.
  - apply (C20_without_parameters_every_rule_has_equation nopars (RRevProduct (mkorule 2 [3; 0] [[]; []]) 1)).
    reflexivity.
Qed.

(* covers C20_true_counts_solution and C20_closed_form_criterion on ex_spec (L = 1 + x*L): the
   counts lw are genuine for every rule in plain arithmetic, hence a solution, hence every family
   that satisfies the four equations at every order and vanishes below the minima has lw's
   coefficients *)
Lemma l_genuine_u : forall c r, ex_spec c = Some r -> genuine_u lw c r.
Proof.
  intros [|[|[|[|c]]]] r E; try discriminate; injection E as <-; cbn [genuine_u].
  - intros n Hn. simpl. destruct (Z.ltb_spec n 0); [lia|].
    destruct (Z.eqb_spec n 0); destruct (Z.ltb_spec n 1); lia.
  - intros n Hn. reflexivity.
  - intros n Hn. cbn [map fst conv].
    transitivity (zsum 0 (n + 1) (fun i => (if i =? 1 then 1 else 0) *
                    zsum 0 (n + 1) (fun j => (if j =? n - i then 1 else 0) * lw 0 j))).
    + rewrite zsum_delta_at. rewrite zsum_delta_at. simpl.
      destruct (Z.ltb_spec n 1).
      * destruct (Z.ltb_spec 1 (n + 1)); simpl; [|reflexivity].
        destruct (Z.leb_spec 0 (n - 1)); [lia|reflexivity].
      * assert (1 <? n + 1 = true) as -> by (apply Z.ltb_lt; lia).
        assert (0 <=? n - 1 = true) as -> by (apply Z.leb_le; lia).
        assert (n - 1 <? n + 1 = true) as -> by (apply Z.ltb_lt; lia).
        simpl. destruct (Z.ltb_spec (n - 1) 0); [lia|reflexivity].
    + apply zsum_ext. intros i Hi. f_equal. apply zsum_ext. intros j Hj.
      rewrite Z.mul_comm. f_equal.
      destruct (Z.eqb_spec j (n - i)); destruct (Z.eqb_spec (n - i - j) 0); lia.
  - intros n Hn. reflexivity.
Qed.
Lemma l_neg : forall c m, m < 0 -> lw c m = 0.
Proof. destruct l_solution as [A _]. exact A. Qed.
Lemma l_low : forall c kids, ex_spec c = Some (UProduct kids) ->
  forall k m, In k kids -> m < snd k -> lw (fst k) m = 0.
Proof. destruct l_solution as [_ [_ A]]. exact A. Qed.

Example C20_true_counts_solution_nonvacuous : solution ex_spec lw.
Proof.
  destruct C20_ex_unique_hypotheses as (_ & W & _).
  exact (C20_true_counts_solution ex_spec lw W l_genuine_u l_neg l_low).
Qed.
Example C20_closed_form_criterion_nonvacuous :
  forall G : nat -> Z -> Z,
  (forall c m, m < 0 -> G c m = 0) ->
  (forall c r, ex_spec c = Some r -> satisfies G c r) ->
  (forall c kids, ex_spec c = Some (UProduct kids) -> forall k m, In k kids -> m < snd k -> G (fst k) m = 0) ->
  G 0%nat 5 = 1.
Proof.
  intros G G1 G2 G3. destruct C20_ex_unique_hypotheses as (K & W & P).
  apply (C20_closed_form_criterion ex_spec ex_keys K W lw G l_genuine_u l_neg l_low G1 G2 G3 0%nat P 5). lia.
Qed.

(* covers C20_criterion_decided / C20_closed_form_criterion_decided / C20_genf_selected_closed_form_decided /
   C20_table_checks_decided on ex_spec (L = 1 + x*L) given as a descriptor: the verdict is computed, the
   hypotheses follow; a key with a wrong shift, a negative atom and a root that does not pump are refused *)
Definition ex_us : list (nat * urule) :=
  [(0%nat, UUnion [1%nat; 2%nat]); (1%nat, UAtom 0); (2%nat, UProduct [(3%nat, 1); (0%nat, 0)]); (3%nat, UAtom 1)].
Lemma ex_us_spec c : uspec_of ex_us c = ex_spec c.
Proof. destruct c as [|[|[|[|c]]]]; reflexivity. Qed.
Example C20_criterion_decided_nonvacuous : crit_okb ex_us ex_keys 0%nat = true.
Proof. vm_compute. reflexivity. Qed.
Example C20_criterion_decided_discriminates :
  crit_parts ex_us [mkkey 0 [(1%nat, 0); (2%nat, 0)]; mkkey 1 []; mkkey 2 [(3%nat, 0); (0%nat, 0)]; mkkey 3 []] 0%nat
    = [true; false; true; true; false] /\
  crit_parts [(0%nat, UUnion [0%nat; 1%nat]); (1%nat, UAtom (-1)); (0%nat, UEmpty)]
             [mkkey 0 [(0%nat, 0); (1%nat, 0)]; mkkey 1 []] 0%nat
    = [false; true; false; true; false] /\
  crit_parts [(0%nat, UProduct [(1%nat, 1); (1%nat, 2)]); (1%nat, UAtom 1)] [mkkey 0 [(1%nat, 2); (1%nat, 1)]; mkkey 1 []] 0%nat
    = [true; true; true; false; true].
Proof. vm_compute. repeat split. Qed.
Example C20_closed_form_criterion_decided_nonvacuous :
  forall G : nat -> Z -> Z,
  (forall c m, m < dmin_of ex_us c -> G c m = 0) ->
  (forall c r, In (c, r) ex_us -> satisfies G c r) ->
  G 0%nat 5 = 1.
Proof.
  intros G G1 G2.
  apply (C20_closed_form_criterion_decided ex_us ex_keys 0%nat C20_criterion_decided_nonvacuous lw G); auto; try lia.
  - intros c r H. apply l_genuine_u. rewrite <- ex_us_spec.
    apply (proj1 (proj1 (proj2 (proj2 (proj2 (C20_criterion_decided _ _ _ C20_criterion_decided_nonvacuous)))) c r) H).
  - intros c m Hm. destruct c as [|[|[|[|c]]]]; vm_compute in Hm.
    + apply l_neg; destruct m; try discriminate; lia.
    + apply l_neg; destruct m; try discriminate; lia.
    + apply l_neg; destruct m; try discriminate; lia.
    + assert (m < 1) as Hm' by (destruct m as [|p|p]; try lia; destruct p; discriminate).
      apply (l_low 2%nat [(3%nat, 1); (0%nat, 0)] eq_refl (3%nat, 1) m); [left; reflexivity|exact Hm'].
    + apply l_neg; destruct m; try discriminate; lia.
Qed.
Example C20_table_checks_nonvacuous :
  forallb (fun cr => genuine_ub lw 8 (fst cr) (snd cr) && recur_okb lw 8 (fst cr) (snd cr)) ex_us = true /\
  low_okb lw 8 ex_us = true /\ sel_okb ex_us [0%nat; 1%nat; 2%nat; 3%nat] 6 = true /\
  genuine_ub lw 8 2%nat (UProduct [(3%nat, 1); (3%nat, 1)]) = false /\ sel_okb ex_us [0%nat; 1%nat; 2%nat] 6 = false.
Proof. vm_compute. repeat split. Qed.

(* covers C20_genf_selection and C20_genf_selected_closed_form on ex_spec (L = 1 + x*L): the solver's list holds
   a wrong solution (class 0 given the series of the atom) and the right one; the repaired selection skips
   the first, returns the second, and with the identity check (l_solution) the conclusion holds at every order *)
Definition sel_wrong : branch := fun c => Some (lw (match c with 0%nat => 3%nat | _ => c end)).
Definition sel_right : branch := fun c => Some (lw c).
Example C20_genf_selection_nonvacuous :
  genf_select 6 0%nat [0%nat; 1%nat; 2%nat; 3%nat] lw [sel_wrong; sel_right] = Some sel_right /\
  (forall c, In c [0%nat; 1%nat; 2%nat; 3%nat] -> forall n, 0 <= n <= 6 -> family sel_right c n = lw c n) /\
  forall n, 0 <= n -> family sel_right 0%nat n = lw 0%nat n.
Proof.
  assert (genf_select 6 0%nat [0%nat; 1%nat; 2%nat; 3%nat] lw [sel_wrong; sel_right] = Some sel_right) as S
    by reflexivity.
  split; [exact S|]. split.
  - intros c Hc n Hn.
    destruct (C20_genf_selection 6 0%nat [0%nat; 1%nat; 2%nat; 3%nat] lw [sel_wrong; sel_right] sel_right S)
      as [_ [A _]].
    destruct (A c (or_intror Hc)) as [g [E Hg]]. unfold family. rewrite E. auto.
  - destruct C20_ex_unique_hypotheses as (K & W & P).
    destruct l_solution as [Sneg [Ssat Slow]].
    apply (C20_genf_selected_closed_form ex_spec ex_keys K W 6 0%nat [0%nat; 1%nat; 2%nat; 3%nat] lw
             [sel_wrong; sel_right] sel_right S l_genuine_u l_neg l_low); auto.
    intros [|[|[|[|c]]]] kids E; try discriminate. injection E as <-.
    intros k [<-|[<-|[]]]; simpl; split; auto; lia.
Qed.

(* covers C20_reverse_union_guarded_satisfied on the witness of C20_reverse_equation_unmapped_refuted *)
Example C20_reverse_union_guarded_nonvacuous :
  rule_equation_guarded rv_pars (RRevUnion (mkorule 0 [1] [[]]) 0) =
    Ok (Fun 0 [Var 0]) (Add (Const 0) (Fun 1 [Var 0; Const 1])) /\
  forall N, satisfied_guarded rv_pars rv_T (fun _ => []) [0; 2] N (RRevUnion (mkorule 0 [1] [[]]) 0).
Proof.
  split; [reflexivity|]. intros N.
  exact (C20_reverse_union_guarded_satisfied rv_pars rv_T (fun _ => []) [0; 2] 0 [(1, [])] O N
           (rv_class_wf 0 (or_introl eq_refl)) rv_kids_wfd rv_genuine ltac:(simpl; lia)).
Qed.

Print Assumptions C20_union_equation_satisfied.
Print Assumptions C20_product_equation_satisfied.
Print Assumptions C20_reverse_with_parameters_falls_back.
Print Assumptions C20_complement_equation_satisfied.
Print Assumptions C20_quotient_equation_satisfied.
Print Assumptions C20_equivalence_equation_satisfied.
Print Assumptions C20_path_equation_satisfied.
Print Assumptions C20_atom_equation_satisfied.
Print Assumptions C20_empty_equation_satisfied.
Print Assumptions C20_verified_equation_satisfied.
Print Assumptions C20_unique_series.
Print Assumptions C20_unique_needs_minimum_sizes_refuted.
Print Assumptions C20_product_collision_refuted.
Print Assumptions C20_ex_union_swapped_names.
Print Assumptions C20_ex_product_shifted_names.
Print Assumptions C20_equivalence_reverse_equation_satisfied.
Print Assumptions C20_equivalence_reverse_with_parameters_has_no_equation.
Print Assumptions C20_without_parameters_every_rule_has_equation.
Print Assumptions C20_without_parameters_equivalences_are_unions.
Print Assumptions C20_true_counts_solution.
Print Assumptions C20_closed_form_criterion.
Print Assumptions C20_union_unmapped_refuted.
Print Assumptions C20_genf_selection.
Print Assumptions C20_genf_selection_beyond_compared_terms_refuted.
Print Assumptions C20_genf_selected_closed_form.
Print Assumptions C20_union_equation_before_fix_satisfied.
Print Assumptions C20_product_equation_before_fix_satisfied.
Print Assumptions C20_path_equation_before_fix_satisfied.
Print Assumptions C20_before_fix_same_equations.
Print Assumptions C20_genf_selection_before_fix_refuted.
Print Assumptions C20_reverse_equation_unmapped_refuted.
Print Assumptions C20_reverse_union_guarded_satisfied.
Print Assumptions C20_reverse_product_guarded_satisfied.
Print Assumptions C20_criterion_decided.
Print Assumptions C20_closed_form_criterion_decided.
Print Assumptions C20_genf_selected_closed_form_decided.
Print Assumptions C20_table_checks_decided.
