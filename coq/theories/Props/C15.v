(* C15 — the class database is a stable bijection between classes and dense
   labels.  Only statements; every proof is `exact` of a lemma of
   ClassDB/Proofs.v.  `reach ops` is the state after ANY history of operations
   (label lookups, class lookups, membership tests, emptiness queries,
   set_empty, add) on a fresh database, for ANY class type, ANY injective
   compression (decompress (compress c) = c) and ANY emptiness oracle. *)
From Coq Require Import ZArith List Bool.
From CSS Require Import Base.PyList ClassDB.Model ClassDB.Proofs.
Import ListNotations.
Open Scope Z_scope.

Section C15.
Context {cls key : Type}.
Variable key_eqb : key -> key -> bool.
Hypothesis key_eqb_spec : forall a b, key_eqb a b = true <-> a = b.
Variable compress : cls -> key.
Variable decompress : key -> cls.
Hypothesis decompress_compress : forall c, decompress (compress c) = c.
Variable oracle : cls -> bool.

Notation reach ops := (run_state key_eqb compress decompress oracle init ops).
Notation step := (step key_eqb compress decompress oracle).
Notation label_of := (label_of key_eqb compress).


(* the three parallel lists stay aligned, label_dict enumerates comb_class_list *)
Theorem C15_lists_aligned : forall ops, WF (reach ops).
Proof.
  intros ops. eapply run_inv; eauto. apply WF_init.
Qed.

(* get_label on a class always answers; an unknown class receives the next
   dense label (= number of classes seen so far); a known class its old one *)
Theorem C15_get_label_dense : forall ops c,
  let s := reach ops in
  exists s' l, step s (OpGetLabel (KC c)) = (s', RLabel l) /\
    label_of s' c = Some l /\
    ((label_of s c = Some l /\ s' = s) \/
     (label_of s c = None /\ l = zlen (classes s))).
Proof.
  intros ops c s.
  destruct (get_label_class key_eqb key_eqb_spec compress s c (C15_lists_aligned ops)) as (s' & l & Hg & _ & _ & Hl & _ & Hc).
  exists s', l. simpl. rewrite Hg. split; [reflexivity|]. split; [exact Hl|].
  destruct Hc as [Hc|(Hn & -> & _)]; [left; exact Hc|right; split; [exact Hn|reflexivity]].
Qed.

(* once assigned, a label never changes, whatever happens afterwards *)
Theorem C15_label_stable : forall ops more c l,
  label_of (reach ops) c = Some l ->
  label_of (run_state key_eqb compress decompress oracle (reach ops) more) c = Some l.
Proof.
  intros ops more c l H.
  pose proof (C15_lists_aligned ops) as W.
  eapply label_of_extends; eauto; eapply run_inv; eauto.
Qed.

(* different classes never share a label *)
Theorem C15_label_injective : forall ops c1 c2 l,
  label_of (reach ops) c1 = Some l -> label_of (reach ops) c2 = Some l -> c1 = c2.
Proof.
  intros ops c1 c2 l. eapply label_injective; eauto. apply C15_lists_aligned.
Qed.

(* labels in use are exactly 0 .. n-1 *)
Theorem C15_labels_are_0_to_n : forall ops,
  let s := reach ops in
  (forall c l, label_of s c = Some l -> 0 <= l < zlen (classes s)) /\
  (forall l, 0 <= l < zlen (classes s) ->
     exists k, nth_error (classes s) (Z.to_nat l) = Some k /\
               dict_get key_eqb (dict s) k = Some l).
Proof.
  intros ops s. split.
  - intros c l H. eapply label_of_range; eauto. apply C15_lists_aligned.
  - intros l H. eapply label_dense; eauto. apply C15_lists_aligned.
Qed.

(* looking a label up returns the class that received it (through
   compression and decompression), and does not change the database *)
Theorem C15_get_class_get_label : forall ops c l,
  label_of (reach ops) c = Some l ->
  step (reach ops) (OpGetClass (KI l)) = (reach ops, RClass c).
Proof.
  intros ops c l H. eapply get_class_of_label; eauto. apply C15_lists_aligned.
Qed.

(* membership tests are total: a Boolean for every integer and every class,
   true exactly for the known ones; they never raise and never change state *)
Theorem C15_contains_total : forall ops l c,
  let s := reach ops in
  step s (OpContains (KI l)) = (s, RBool ((0 <=? l) && (l <? zlen (classes s)))) /\
  step s (OpContains (KC c)) =
    (s, RBool (match label_of s c with Some _ => true | None => false end)).
Proof.
  intros ops l c s. simpl. split; f_equal.
  - exact (contains_int key_eqb compress s l (C15_lists_aligned ops)).
  - exact (contains_class key_eqb key_eqb_spec compress s c (C15_lists_aligned ops)).
Qed.

(* unknown / negative labels are rejected with KeyError, not answered *)
Theorem C15_unknown_label_rejected : forall ops l,
  let s := reach ops in
  ~ (0 <= l < zlen (classes s)) ->
  step s (OpGetClass (KI l)) = (s, RErr KeyError).
Proof.
  intros ops l s H. exact (get_class_int_unknown key_eqb compress decompress s l (C15_lists_aligned ops) H).
Qed.

(* the cached emptiness always equals the class's own answer, in every history
   whose callers are honest (set_empty passes the true value, is_empty passes
   the class's own label) *)
Theorem C15_empty_cache : forall ops,
  honest_hist key_eqb compress decompress oracle init ops ->
  EmptyOK decompress oracle (reach ops) /\
  forall c lab s' b,
    honest key_eqb compress decompress oracle (reach ops) (OpIsEmpty c lab) ->
    step (reach ops) (OpIsEmpty c lab) = (s', RBool b) -> b = oracle c.
Proof.
  intros ops Hh.
  assert (EmptyOK decompress oracle (reach ops)) as E.
  { eapply run_inv; eauto. apply WF_init. apply EmptyOK_init. }
  split; [exact E|].
  intros c lab s' b Hc Hs. simpl in Hs.
  eapply is_empty_correct; eauto. apply C15_lists_aligned.
Qed.

(* the class's own emptiness test runs at most once per label: the number of
   oracle calls never exceeds the number of labels with a cached answer (and a
   cached answer is never forgotten, by C15_empty_cache's invariant) *)
Theorem C15_oracle_once_per_label : forall ops,
  honest_hist key_eqb compress decompress oracle init ops ->
  (ncalls (reach ops) <= nset (reach ops))%nat.
Proof.
  intros ops Hh. eapply run_inv; eauto. apply WF_init. apply CallsOK_init.
Qed.

End C15.

(* non-vacuity: a concrete history meets the hypotheses and exercises the
   interesting branches (new label, repeated label, cache miss, cache hit) *)
Example C15_nonvacuous :
  let ops := [OpGetLabel (KC 7); OpGetLabel (KC 9); OpGetLabel (KC 7);
              OpIsEmpty 9 None; OpIsEmpty 9 (Some 1); OpContains (KI 2); OpContains (KI (-1))] in
  snd (exec Z.eqb (fun c => c) (fun k => k) (fun c => Z.eqb c 9) init ops)
  = [RLabel 0; RLabel 1; RLabel 0; RBool true; RBool true; RBool false; RBool false]
  /\ honest_hist Z.eqb (fun c => c) (fun k => k) (fun c => Z.eqb c 9) init ops.
Proof. vm_compute. repeat split; reflexivity. Qed.

(* ------------------------------------------------------------------------
   NON-VACUITY (audit): every theorem APPLIED to a concrete instance with a NON-identity compression
   (classes are integers, compress c = c + 100, decompress k = k - 100), an oracle that is true on one
   class and false on the others, and a 9-step history with three classes (new label, repeated label,
   cache miss, cache hit, honest set_empty, add). *)
Require Import Lia.
Definition zc (c : Z) : Z := c + 100.
Definition zd (k : Z) : Z := k - 100.
Definition zo (c : Z) : bool := c =? 9.
Lemma zdc : forall c, zd (zc c) = c. Proof. intros c; unfold zd, zc; lia. Qed.
Definition zops : list (@op Z) :=
  [OpGetLabel (KC 7); OpGetLabel (KC 9); OpGetLabel (KC 7); OpIsEmpty 9 None; OpIsEmpty 9 (Some 1);
   OpContains (KI 2); OpContains (KI (-1)); OpSetEmpty (KC 7) false; OpAdd 5].
Notation zreach ops := (run_state Z.eqb zc zd zo init ops).
Example zops_state :
  exec Z.eqb zc zd zo init zops =
  (mk [107; 109; 105] [(107, 0); (109, 1); (105, 2)] [Some false; Some true; None] 1,
   [RLabel 0; RLabel 1; RLabel 0; RBool true; RBool true; RBool false; RBool false; RNone; RNone]).
Proof. vm_compute; reflexivity. Qed.
Lemma zops_honest : honest_hist Z.eqb zc zd zo init zops.
Proof. vm_compute. repeat split; reflexivity. Qed.

Example C15_lists_aligned_nonvacuous : WF (zreach zops).
Proof. exact (C15_lists_aligned Z.eqb Z.eqb_eq zc zd zdc zo zops). Qed.
(* WF discriminates: a database with a repeated class is not well formed *)
Example C15_lists_aligned_near_miss : ~ WF (mk [107; 107] [(107, 0); (107, 1)] [None; None] 0).
Proof. intros (_ & _ & N). inversion N as [|x l Hx _]. apply Hx. left; reflexivity. Qed.

(* both branches of the disjunction: a known class keeps its label and the database; an unknown class
   gets the next dense label 3 *)
Example C15_get_label_dense_nonvacuous :
  (exists s' l, step Z.eqb zc zd zo (zreach zops) (OpGetLabel (KC 9)) = (s', RLabel l) /\
     label_of Z.eqb zc s' 9 = Some l /\
     ((label_of Z.eqb zc (zreach zops) 9 = Some l /\ s' = zreach zops) \/
      (label_of Z.eqb zc (zreach zops) 9 = None /\ l = zlen (classes (zreach zops))))) /\
  (exists s' l, step Z.eqb zc zd zo (zreach zops) (OpGetLabel (KC 4)) = (s', RLabel l) /\
     label_of Z.eqb zc s' 4 = Some l /\
     ((label_of Z.eqb zc (zreach zops) 4 = Some l /\ s' = zreach zops) \/
      (label_of Z.eqb zc (zreach zops) 4 = None /\ l = zlen (classes (zreach zops))))).
Proof.
  split.
  - exact (C15_get_label_dense Z.eqb Z.eqb_eq zc zd zdc zo zops 9).
  - exact (C15_get_label_dense Z.eqb Z.eqb_eq zc zd zdc zo zops 4).
Qed.
Example C15_get_label_dense_branches :
  snd (step Z.eqb zc zd zo (zreach zops) (OpGetLabel (KC 9))) = RLabel 1 /\
  label_of Z.eqb zc (zreach zops) 9 = Some 1 /\
  snd (step Z.eqb zc zd zo (zreach zops) (OpGetLabel (KC 4))) = RLabel 3 /\
  label_of Z.eqb zc (zreach zops) 4 = None.
Proof. repeat split; vm_compute; reflexivity. Qed.

(* class 9 got label 1 in the first two steps and keeps it over the other seven *)
Example C15_label_stable_nonvacuous :
  label_of Z.eqb zc (run_state Z.eqb zc zd zo (zreach (firstn 2 zops)) (skipn 2 zops)) 9 = Some 1.
Proof.
  apply (C15_label_stable Z.eqb Z.eqb_eq zc zd zdc zo (firstn 2 zops) (skipn 2 zops) 9 1).
  vm_compute; reflexivity.
Qed.

Example C15_label_injective_nonvacuous :
  forall c, label_of Z.eqb zc (zreach zops) c = Some 2 -> c = 5.
Proof.
  intros c H. apply (C15_label_injective Z.eqb Z.eqb_eq zc zd zdc zo zops c 5 2 H). vm_compute; reflexivity.
Qed.

Example C15_labels_are_0_to_n_nonvacuous :
  (0 <= 2 < zlen (classes (zreach zops))) /\
  (exists k, nth_error (classes (zreach zops)) (Z.to_nat 1) = Some k /\
             dict_get Z.eqb (dict (zreach zops)) k = Some 1).
Proof.
  destruct (C15_labels_are_0_to_n Z.eqb Z.eqb_eq zc zd zdc zo zops) as (H1 & H2). split.
  - apply (H1 5 2). vm_compute; reflexivity.
  - apply (H2 1). vm_compute. split; [discriminate|reflexivity].
Qed.

(* the round trip through the non-identity compression: label 1 -> key 109 -> class 9 *)
Example C15_get_class_get_label_nonvacuous :
  step Z.eqb zc zd zo (zreach zops) (OpGetClass (KI 1)) = (zreach zops, RClass 9).
Proof.
  apply (C15_get_class_get_label Z.eqb Z.eqb_eq zc zd zdc zo zops 9 1). vm_compute; reflexivity.
Qed.

Example C15_contains_total_nonvacuous :
  snd (step Z.eqb zc zd zo (zreach zops) (OpContains (KI 2))) = RBool true /\
  snd (step Z.eqb zc zd zo (zreach zops) (OpContains (KI 3))) = RBool false /\
  snd (step Z.eqb zc zd zo (zreach zops) (OpContains (KI (-1)))) = RBool false /\
  snd (step Z.eqb zc zd zo (zreach zops) (OpContains (KC 5))) = RBool true /\
  snd (step Z.eqb zc zd zo (zreach zops) (OpContains (KC 105))) = RBool false.
Proof.
  split; [|split; [|split; [|split]]].
  - rewrite (proj1 (C15_contains_total Z.eqb Z.eqb_eq zc zd zdc zo zops 2 0)). vm_compute; reflexivity.
  - rewrite (proj1 (C15_contains_total Z.eqb Z.eqb_eq zc zd zdc zo zops 3 0)). vm_compute; reflexivity.
  - rewrite (proj1 (C15_contains_total Z.eqb Z.eqb_eq zc zd zdc zo zops (-1) 0)). vm_compute; reflexivity.
  - rewrite (proj2 (C15_contains_total Z.eqb Z.eqb_eq zc zd zdc zo zops 0 5)). vm_compute; reflexivity.
  - rewrite (proj2 (C15_contains_total Z.eqb Z.eqb_eq zc zd zdc zo zops 0 105)). vm_compute; reflexivity.
Qed.

(* an unknown label (3) and a negative one (-1, which plain list indexing would wrap to the last class) *)
Example C15_unknown_label_rejected_nonvacuous :
  step Z.eqb zc zd zo (zreach zops) (OpGetClass (KI 3)) = (zreach zops, RErr KeyError) /\
  step Z.eqb zc zd zo (zreach zops) (OpGetClass (KI (-1))) = (zreach zops, RErr KeyError).
Proof.
  split.
  - apply (C15_unknown_label_rejected Z.eqb Z.eqb_eq zc zd zdc zo zops 3). vm_compute. intros [_ H]. discriminate.
  - apply (C15_unknown_label_rejected Z.eqb Z.eqb_eq zc zd zdc zo zops (-1)). vm_compute. intros [H _]. apply H; reflexivity.
Qed.

(* the history is honest; afterwards is_empty answers the class's own answer, both from the cache
   (class 9, with its own label) and by a fresh oracle call (class 5, no label passed) *)
Example C15_empty_cache_nonvacuous :
  EmptyOK zd zo (zreach zops) /\ true = zo 9 /\ false = zo 5.
Proof.
  destruct (C15_empty_cache Z.eqb Z.eqb_eq zc zd zdc zo zops zops_honest) as (E & H).
  split; [exact E|split].
  - apply (H 9 (Some 1) (zreach zops) true); vm_compute; reflexivity.
  - apply (H 5 None (fst (step Z.eqb zc zd zo (zreach zops) (OpIsEmpty 5 None))) false);
      [exact Logic.I|vm_compute; reflexivity].
Qed.
(* near miss: after a DISHONEST set_empty the cache lies, so the hypothesis is needed *)
Example C15_empty_cache_near_miss :
  let ops := [OpGetLabel (KC 7); OpSetEmpty (KC 7) true] in
  snd (step Z.eqb zc zd zo (zreach ops) (OpIsEmpty 7 None)) = RBool true /\ zo 7 = false /\
  ~ honest_hist Z.eqb zc zd zo init ops.
Proof. vm_compute. split; [reflexivity|split; [reflexivity|]]. intros (_ & H & _). discriminate. Qed.

Example C15_oracle_once_per_label_nonvacuous :
  (ncalls (zreach zops) <= nset (zreach zops))%nat /\ ncalls (zreach zops) = 1%nat /\ nset (zreach zops) = 2%nat.
Proof.
  split; [exact (C15_oracle_once_per_label Z.eqb Z.eqb_eq zc zd zdc zo zops zops_honest)|].
  split; vm_compute; reflexivity.
Qed.

Print Assumptions C15_lists_aligned.
Print Assumptions C15_get_label_dense.
Print Assumptions C15_label_stable.
Print Assumptions C15_label_injective.
Print Assumptions C15_labels_are_0_to_n.
Print Assumptions C15_get_class_get_label.
Print Assumptions C15_contains_total.
Print Assumptions C15_unknown_label_rejected.
Print Assumptions C15_empty_cache.
Print Assumptions C15_oracle_once_per_label.
