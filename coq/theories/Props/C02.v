(* C02 — returned specifications are closed, one-rule-per-class, genuine and
   productive.  Statements only.

   What is proved here:
   * C02_closed: the rules dictionary SpecificationRuleExtractor builds from a
     proof tree (equivalence-level rule keys), the stored rule keys, the
     equivalence database's representatives and explanation paths (contract:
     C06_path) contains the start label, every right-hand label is a left-hand
     label, and every entry is a stored rule key or a step of an explanation
     path — for EVERY order in which the set of labels without a rule is
     iterated.
   * C02_one_rule_per_class: the dictionary the extractor returns has pairwise
     distinct left-hand labels (one entry per left-hand label), because it is
     built by dictionary assignments only.
   * C02_productive_decided: the per-specification productivity verdict the
     check computes with the table-method model means "every class of the
     specification pumps in the least-fixed-point sense" (C03).
   * C02_forest_productive: see C11_productive / C11_closed (forest database).
   Not a theorem (stated in DESIGN.md): productivity of specifications found by
   the pruning databases relies on the strategies being productive (pruning is
   a greatest fixed point); it is DECIDED per returned specification by the
   proved-correct procedure above.  Genuineness of each rule (it is what the
   strategy produces when re-applied) is decided per instance by the oracle. *)
From Coq Require Import ZArith List Bool.
From CSS Require Import Base.Sx Forest.Spec Forest.Model Forest.Run Forest.Theorems
  Spec.Extractor Spec.ExtractorProofs Spec.ExtractorRun.
Import ListNotations.

(* AUDIT: the find_path contract used to be asked for EVERY pair of labels (forall l t); it is
   now asked only for the labels `order` iterates over, the only ones the extractor calls
   find_path on (the old form is implied: ExtractorProofs.extract_closed). *)
Theorem C02_closed : forall rep fpath stored tree root order d,
  (forall l, In l order -> forall t, rep l = rep t ->
     fpath l t <> [] /\ hd O (fpath l t) = l /\ last (fpath l t) O = t) ->
  extract rep fpath stored tree root order = Some d ->
  (forall d0 e2p, decompositions rep stored tree [] [] = Some (d0, e2p) ->
     forall l, no_lhs d0 root l = true -> In l order) ->
  (forall e, In e d -> forall c, In c (snd e) -> dom d c = true) /\
  dom d root = true /\
  (forall e, In e d -> In e stored \/ exists l t p c, step_of (fpath l t) p c /\ e = (p, [c])).
Proof. intros rep fpath stored tree root order d Hf. exact (extract_closed_order rep fpath stored tree root order d Hf). Qed.

(* a dictionary updated by an assignment has one entry per key (kept as a lemma: this used to be
   the whole of C02_one_rule_per_class, which said nothing about the extractor) *)
Lemma C02_assign_lookup : forall d k v,
  lookup (assign d k v) k = Some v /\
  forall x, x <> k -> lookup (assign d k v) x = lookup d x.
Proof.
  intros d k v. split.
  - rewrite lookup_assign, Nat.eqb_refl. reflexivity.
  - intros x Hx. rewrite lookup_assign. destruct (Nat.eqb k x) eqn:E; auto.
    apply Nat.eqb_eq in E. congruence.
Qed.

(* AUDIT: restated about the EXTRACTOR'S RESULT.  Every rules dictionary the extractor returns has
   pairwise distinct left-hand labels, and its entries are exactly what looking a label up
   returns: no class is the left-hand side of two rules. *)
Theorem C02_one_rule_per_class : forall rep fpath stored tree root order d,
  extract rep fpath stored tree root order = Some d ->
  NoDup (map fst d) /\
  forall p cs, In (p, cs) d <-> lookup d p = Some cs.
Proof. exact extract_functional. Qed.

(* meaning of the productivity verdict computed on each returned specification *)
Theorem C02_productive_decided : forall ks fuel st,
  run pick0 fuel init (map AddKey ks) = Some st ->
  forall c, snd (is_pumping st c) = true <-> pumps ks c.
Proof.
  intros ks fuel st H c.
  destruct (sound_complete _ _ _ _ H c) as [A _].
  assert (keys_of (map AddKey ks) = ks) as E.
  { clear. induction ks as [|k ks IH]; simpl; auto. rewrite IH. reflexivity. }
  rewrite E in A. exact A.
Qed.

Example C02_nonvacuous :
  (* tree: 0 -> (1 1) at equivalence level; stored rule 5 -> (1 2) with rep 5 = 0, rep 2 = 1;
     root label 0 reaches 5 by the path 0,5 and label 2 reaches 1... *)
  let rep := fun l => match l with 5%nat => 0%nat | 2%nat => 1%nat | _ => l end in
  let fpath := fun l t => if Nat.eqb l t then [l] else [l; t] in
  extract rep fpath [(5, [1; 2]); (1, [])]%nat [(0, [1; 1]); (1, [])]%nat 0%nat [0; 2]%nat
  = Some [(5, [1; 2]); (1, []); (0, [5]); (2, [1])]%nat.
Proof. vm_compute. reflexivity. Qed.

(* ------------------------------------------------------------------------
   NON-VACUITY (audit): every result of this file APPLIED to a concrete instance.
   Extractor instance: the one of C02_nonvacuous above — two stored rules, a two-node proof tree
   at equivalence level, two labels (root 0 and right-hand label 2) that get their rule from an
   explanation path. *)
Definition c2_rep (l : nat) : nat := match l with 5%nat => 0%nat | 2%nat => 1%nat | _ => l end.
Definition c2_fpath (l t : nat) : list nat := if Nat.eqb l t then [l] else [l; t].
Definition c2_stored : list rkey := [(5, [1; 2]); (1, [])]%nat.
Definition c2_tree : list rkey := [(0, [1; 1]); (1, [])]%nat.
Definition c2_order : list nat := [0; 2]%nat.
Definition c2_d : list rkey := [(5, [1; 2]); (1, []); (0, [5]); (2, [1])]%nat.

Lemma c2_fpath_ok : forall l, In l c2_order -> forall t, c2_rep l = c2_rep t ->
  c2_fpath l t <> [] /\ hd O (c2_fpath l t) = l /\ last (c2_fpath l t) O = t.
Proof.
  intros l _ t _. unfold c2_fpath. destruct (Nat.eqb l t) eqn:E.
  - apply Nat.eqb_eq in E. subst t. repeat split; discriminate.
  - repeat split; discriminate.
Qed.
Lemma c2_extract : extract c2_rep c2_fpath c2_stored c2_tree 0%nat c2_order = Some c2_d.
Proof. vm_compute. reflexivity. Qed.
(* the iteration order covers the labels without a rule after the decompositions (0 and 2) *)
Lemma c2_cover : forall d0 e2p, decompositions c2_rep c2_stored c2_tree [] [] = Some (d0, e2p) ->
  forall l, no_lhs d0 0%nat l = true -> In l c2_order.
Proof.
  intros d0 e2p H. vm_compute in H. injection H as <- <-. intros l Hl.
  destruct l as [|[|[|[|[|[|l]]]]]]; vm_compute in Hl; try discriminate; simpl; auto.
Qed.

Example C02_closed_nonvacuous :
  (forall e, In e c2_d -> forall c, In c (snd e) -> dom c2_d c = true) /\
  dom c2_d 0%nat = true /\
  (forall e, In e c2_d ->
     In e c2_stored \/ exists l t p c, step_of (c2_fpath l t) p c /\ e = (p, [c])).
Proof.
  exact (C02_closed c2_rep c2_fpath c2_stored c2_tree 0%nat c2_order c2_d c2_fpath_ok c2_extract c2_cover).
Qed.
(* the conclusion discriminates: with the iteration order missing label 2 the extractor's
   dictionary is NOT closed (the coverage premise is then false, and the conclusion too) *)
Example C02_closed_near_miss :
  exists d, extract c2_rep c2_fpath c2_stored c2_tree 0%nat [0%nat] = Some d /\
            dom d 0%nat = true /\ dom d 2%nat = false /\ In (5, [1; 2])%nat d.
Proof. eexists. split; [vm_compute; reflexivity|]. vm_compute. auto. Qed.

Example C02_one_rule_per_class_nonvacuous :
  NoDup (map fst c2_d) /\ forall p cs, In (p, cs) c2_d <-> lookup c2_d p = Some cs.
Proof.
  exact (C02_one_rule_per_class c2_rep c2_fpath c2_stored c2_tree 0%nat c2_order c2_d c2_extract).
Qed.
(* the stored rule for label 1 occurs twice in the tree walk / the second assignment to an existing
   label overwrites instead of adding a second entry: a tree naming class 1 twice still gives one
   entry for it; and a list with two entries for one label fails the conclusion *)
Example C02_one_rule_per_class_discriminates :
  extract c2_rep c2_fpath c2_stored (c2_tree ++ [(1, [])])%nat 0%nat c2_order = Some c2_d /\
  ~ NoDup (map fst [(1, [2]); (1, [])]%nat).
Proof.
  split; [vm_compute; reflexivity|]. simpl. intros H. inversion H as [|x l Hn _]; subst.
  apply Hn. left. reflexivity.
Qed.

(* productivity verdict: the forest keys of the two-class specification of Props/C01.v
   (0 -> 1 shift 0 ; 1 -> 0 0 shifts 1 1) plus a third rule 2 -> 3 (shift 1) whose child has no
   rule.  Both directions of the equivalence are used: the verdict `true` gives pumps, and the
   verdict `false` refutes pumps. *)
Definition c2_keys : list fkey :=
  [mkkey 0 [(1%nat, 0%Z)]; mkkey 1 [(0%nat, 1%Z); (0%nat, 1%Z)]; mkkey 2 [(3%nat, 1%Z)]].
Lemma c2_run : exists st, run pick0 100 init (map AddKey c2_keys) = Some st /\
  map (fun c => snd (is_pumping st c)) [0; 1; 2; 3]%nat = [true; true; false; false].
Proof. eexists. split; vm_compute; reflexivity. Qed.
Example C02_productive_decided_nonvacuous :
  pumps c2_keys 0 /\ pumps c2_keys 1 /\ ~ pumps c2_keys 2 /\ ~ pumps c2_keys 3.
Proof.
  destruct c2_run as (st & Hr & Hv). simpl in Hv. injection Hv as H0 H1 H2 H3.
  pose proof (C02_productive_decided c2_keys 100 st Hr) as D.
  split; [apply D; exact H0|]. split; [apply D; exact H1|].
  split; intros P; apply D in P; simpl in P; [rewrite H2 in P|rewrite H3 in P]; discriminate.
Qed.

Print Assumptions C02_closed.
Print Assumptions C02_one_rule_per_class.
Print Assumptions C02_productive_decided.
