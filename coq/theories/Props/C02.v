(* C02 — returned specifications are closed, one-rule-per-class, genuine and
   productive.  Statements only.

   What is proved here:
   * C02_closed: the rules dictionary SpecificationRuleExtractor builds from a
     proof tree (equivalence-level rule keys), the stored rule keys, the
     equivalence database's representatives and explanation paths (contract:
     C06_path) contains the start label, every right-hand label is a left-hand
     label, and every entry is a stored rule key or a step of an explanation
     path — for EVERY order in which the set of labels without a rule is
     iterated.
   * C02_one_rule_per_class: the dictionary is a function (one entry per
     left-hand label) by construction.
   * C02_productive_decided: the per-specification productivity verdict the
     check computes with the table-method model means "every class of the
     specification pumps in the least-fixed-point sense" (C03).
   * C02_forest_productive: see C11_productive / C11_closed (forest database).
   Not a theorem (stated in DESIGN.md): productivity of specifications found by
   the pruning databases relies on the strategies being productive (pruning is
   a greatest fixed point); it is DECIDED per returned specification by the
   proved-correct procedure above.  Genuineness of each rule (it is what the
   strategy produces when re-applied) is decided per instance by the oracle. *)
From Coq Require Import ZArith List Bool.
From CSS Require Import Base.Sx Forest.Spec Forest.Model Forest.Run Forest.Theorems
  Spec.Extractor Spec.ExtractorProofs Spec.ExtractorRun.
Import ListNotations.

Theorem C02_closed : forall rep fpath stored tree root order d,
  (forall l t, rep l = rep t ->
     fpath l t <> [] /\ hd O (fpath l t) = l /\ last (fpath l t) O = t) ->
  extract rep fpath stored tree root order = Some d ->
  (forall d0 e2p, decompositions rep stored tree [] [] = Some (d0, e2p) ->
     forall l, no_lhs d0 root l = true -> In l order) ->
  (forall e, In e d -> forall c, In c (snd e) -> dom d c = true) /\
  dom d root = true /\
  (forall e, In e d -> In e stored \/ exists l t p c, step_of (fpath l t) p c /\ e = (p, [c])).
Proof. intros rep fpath stored tree root order d Hf. exact (extract_closed rep fpath Hf stored tree root order d). Qed.

(* a dictionary built by assignments has one entry per key *)
Theorem C02_one_rule_per_class : forall d k v,
  lookup (assign d k v) k = Some v /\
  forall x, x <> k -> lookup (assign d k v) x = lookup d x.
Proof.
  intros d k v. split.
  - rewrite lookup_assign, Nat.eqb_refl. reflexivity.
  - intros x Hx. rewrite lookup_assign. destruct (Nat.eqb k x) eqn:E; auto.
    apply Nat.eqb_eq in E. congruence.
Qed.

(* meaning of the productivity verdict computed on each returned specification *)
Theorem C02_productive_decided : forall ks fuel st,
  run pick0 fuel init (map AddKey ks) = Some st ->
  forall c, snd (is_pumping st c) = true <-> pumps ks c.
Proof.
  intros ks fuel st H c.
  destruct (sound_complete _ _ _ _ H c) as [A _].
  assert (keys_of (map AddKey ks) = ks) as E.
  { clear. induction ks as [|k ks IH]; simpl; auto. rewrite IH. reflexivity. }
  rewrite E in A. exact A.
Qed.

Example C02_nonvacuous :
  (* tree: 0 -> (1 1) at equivalence level; stored rule 5 -> (1 2) with rep 5 = 0, rep 2 = 1;
     root label 0 reaches 5 by the path 0,5 and label 2 reaches 1... *)
  let rep := fun l => match l with 5%nat => 0%nat | 2%nat => 1%nat | _ => l end in
  let fpath := fun l t => if Nat.eqb l t then [l] else [l; t] in
  extract rep fpath [(5, [1; 2]); (1, [])]%nat [(0, [1; 1]); (1, [])]%nat 0%nat [0; 2]%nat
  = Some [(5, [1; 2]); (1, []); (0, [5]); (2, [1])]%nat.
Proof. vm_compute. reflexivity. Qed.

Print Assumptions C02_closed.
Print Assumptions C02_one_rule_per_class.
Print Assumptions C02_productive_decided.
